------------------------------- MODULE Syntax -------------------------------
(* The operator table of parse/operator.go as data, the precedence-climbing  *)
(* expression parser (algorithmic reference, shaped like a corrected         *)
(* parse_expr.go), and an independent declarative statement of what a        *)
(* correctly grouped tree is (Valid).                                        *)
EXTENDS Integers, Sequences, FiniteSets, TLC

BinTable == [
  or |-> <<10, "L">>, and |-> <<15, "L">> ] @@
  ("b-or" :> <<16, "L">>) @@ ("b-xor" :> <<17, "L">>) @@ ("b-and" :> <<18, "L">>) @@
  ("==" :> <<20, "L">>) @@ ("!=" :> <<20, "L">>) @@ ("<" :> <<20, "L">>) @@ ("<=" :> <<20, "L">>) @@ (">" :> <<20, "L">>) @@
  (">=" :> <<20, "L">>) @@ ("not in" :> <<20, "L">>) @@ ("in" :> <<20, "L">>) @@ ("matches" :> <<20, "L">>) @@
  ("starts with" :> <<20, "L">>) @@ ("ends with" :> <<20, "L">>) @@ (".." :> <<20, "L">>) @@
  ("+" :> <<30, "L">>) @@ ("-" :> <<30, "L">>) @@ ("~" :> <<40, "L">>) @@
  ("*" :> <<60, "L">>) @@ ("/" :> <<60, "L">>) @@ ("//" :> <<60, "L">>) @@ ("%" :> <<60, "L">>) @@
  ("is" :> <<100, "L">>) @@ ("is not" :> <<100, "L">>) @@ ("**" :> <<200, "R">>)
UnTable == ("not" :> 50) @@ ("-" :> 500) @@ ("+" :> 500)
BinOpNames == DOMAIN BinTable
Prec(op) == BinTable[op][1]
LeftAssoc(op) == BinTable[op][2] = "L"
TestPrec == 100

(* token lists of an expression without the conditional:
     [t |-> "un", op], [t |-> "atom", x], [t |-> "op", op], [t |-> "test", neg, name], [t |-> "lp"], [t |-> "rp"] *)
MkBin(op, l, r) == [k |-> "bin", op |-> op, l |-> l, r |-> r]
MkUn(op, x) == [k |-> "un", op |-> op, x |-> x]
MkTest(x, neg, name) == [k |-> "test", x |-> x, neg |-> neg, name |-> name, args |-> <<>>]
MkGrp(x) == [k |-> "group", x |-> x]

RECURSIVE PExpr(_, _, _), PPrimary(_, _), PLoop(_, _, _, _)
PPrimary(toks, p) ==
  IF toks[p].t = "un" THEN LET r == PExpr(toks, p + 1, UnTable[toks[p].op]) IN <<MkUn(toks[p].op, r[1]), r[2]>>
  ELSE IF toks[p].t = "lp" THEN LET r == PExpr(toks, p + 1, 0) IN <<MkGrp(r[1]), r[2] + 1>>      \* skip the ")"
  ELSE <<toks[p].x, p + 1>>
PLoop(toks, left, p, minp) ==
  IF p > Len(toks) THEN <<left, p>>
  ELSE IF toks[p].t = "test" /\ TestPrec >= minp THEN PLoop(toks, MkTest(left, toks[p].neg, toks[p].name), p + 1, minp)
  ELSE IF toks[p].t = "op" /\ Prec(toks[p].op) >= minp THEN
       LET nm == IF LeftAssoc(toks[p].op) THEN Prec(toks[p].op) + 1 ELSE Prec(toks[p].op)
           r == PExpr(toks, p + 1, nm)
       IN PLoop(toks, MkBin(toks[p].op, left, r[1]), r[2], minp)
  ELSE <<left, p>>
PExpr(toks, p, minp) == LET l == PPrimary(toks, p) IN PLoop(toks, l[1], l[2], minp)
ParseTokens(toks) == PExpr(toks, 1, 0)[1]

(* ---- declarative validity ---- *)
IsBin(t) == t.k = "bin"
TopPrec(t) == CASE t.k = "bin" -> Prec(t.op) [] t.k = "test" -> TestPrec [] t.k = "un" -> UnTable[t.op] [] OTHER -> 1000
(* unary operators whose operand ends where t ends (t's right edge) *)
RECURSIVE RightEdgeUn(_)
RightEdgeUn(t) == CASE t.k = "bin" -> RightEdgeUn(t.r)
                    [] t.k = "un" -> {t.op} \cup RightEdgeUn(t.x)
                    [] OTHER -> {}
(* does the left edge of t (its leftmost operand chain) end in a postfix test? *)
RECURSIVE LeftEdgeTest(_)
LeftEdgeTest(t) == CASE t.k = "test" -> TRUE [] t.k = "bin" -> LeftEdgeTest(t.l) [] OTHER -> FALSE
RECURSIVE Valid(_)
Valid(t) ==
  CASE t.k = "bin" ->
         /\ Valid(t.l) /\ Valid(t.r)
         (* a looser operator (or an equal one on the non-associative side) cannot be an operand *)
         /\ (t.l.k = "bin" => (TopPrec(t.l) > Prec(t.op) \/ (TopPrec(t.l) = Prec(t.op) /\ LeftAssoc(t.op))))
         (* a test is postfix: its result can be the left operand of any further operator *)
         /\ (t.r.k \in {"bin", "test"} => (TopPrec(t.r) > Prec(t.op) \/ (TopPrec(t.r) = Prec(t.op) /\ ~LeftAssoc(t.op))))
         (* a test is looser than ** : in 7 ** 2 is odd ** 3 the test applies to (7 ** 2), so no test may sit on the left
            edge of the right operand of an operator that binds tighter than a test *)
         /\ (LeftEdgeTest(t.r) => Prec(t.op) < TestPrec)
         (* a unary operator whose operand ends right before this operator would have taken the operator
            into its operand if it binds looser: 7 * not 2 / 3 is 7 * (not (2 / 3)) *)
         /\ \A u \in RightEdgeUn(t.l) : UnTable[u] > Prec(t.op)
    [] t.k = "test" ->
         /\ Valid(t.x)
         /\ (t.x.k \in {"bin", "test"} => TopPrec(t.x) >= TestPrec)
         /\ \A u \in RightEdgeUn(t.x) : UnTable[u] > TestPrec
    [] t.k = "un" ->
         /\ Valid(t.x)
         (* the operand of a unary operator is the maximal chain of operators binding at least as tight *)
         /\ (t.x.k \in {"bin", "test"} => TopPrec(t.x) >= UnTable[t.op])
    [] t.k = "group" -> Valid(t.x)
    [] OTHER -> TRUE

(* the frontier (tokens in order) of a tree without groups *)
RECURSIVE Frontier(_)
Frontier(t) ==
  CASE t.k = "bin" -> Frontier(t.l) \o <<[t |-> "op", op |-> t.op]>> \o Frontier(t.r)
    [] t.k = "test" -> Frontier(t.x) \o <<[t |-> "test", neg |-> t.neg, name |-> t.name]>>
    [] t.k = "un" -> <<[t |-> "un", op |-> t.op]>> \o Frontier(t.x)
    [] t.k = "group" -> Frontier(t.x)
    [] OTHER -> <<[t |-> "atom", x |-> t]>>

(* all trees with a given frontier: the maximal unary operand must also be enforced by Valid, every bracketing is generated here *)
RECURSIVE TreesOf(_)
TreesOf(toks) ==
  IF toks = <<>> \/ toks[1].t \notin {"atom", "un"} \/ toks[Len(toks)].t \notin {"atom", "test"} THEN {}   \* ill-formed split
  ELSE IF Len(toks) = 1 THEN (IF toks[1].t = "atom" THEN {toks[1].x} ELSE {})
  ELSE
    (IF toks[1].t = "un" THEN {MkUn(toks[1].op, x) : x \in TreesOf(Tail(toks))} ELSE {})
    \cup UNION { IF toks[q].t = "op"
                 THEN {MkBin(toks[q].op, l, r) : l \in TreesOf(SubSeq(toks, 1, q - 1)), r \in TreesOf(SubSeq(toks, q + 1, Len(toks)))}
                 ELSE {} : q \in 2..(Len(toks) - 1) }
    \cup (IF toks[Len(toks)].t = "test"
          THEN {MkTest(x, toks[Len(toks)].neg, toks[Len(toks)].name) : x \in TreesOf(SubSeq(toks, 1, Len(toks) - 1))} ELSE {})
WellFormed(toks) ==   \* sub-sequences produced by splitting may be ill-formed (start with an operator...): they have no trees
  /\ Len(toks) >= 1
  /\ toks[Len(toks)].t \in {"atom", "test"}
  /\ toks[1].t \in {"atom", "un"}

(* fully parenthesised token list of a tree *)
RECURSIVE ParenTokens(_)
ParenTokens(t) ==
  CASE t.k = "bin" -> <<[t |-> "lp"]>> \o ParenTokens(t.l) \o <<[t |-> "op", op |-> t.op]>> \o ParenTokens(t.r) \o <<[t |-> "rp"]>>
    [] t.k = "test" -> <<[t |-> "lp"]>> \o ParenTokens(t.x) \o <<[t |-> "test", neg |-> t.neg, name |-> t.name], [t |-> "rp"]>>
    [] t.k = "un" -> <<[t |-> "lp"], [t |-> "un", op |-> t.op]>> \o ParenTokens(t.x) \o <<[t |-> "rp"]>>
    [] OTHER -> <<[t |-> "atom", x |-> t]>>
RECURSIVE StripGroups(_)
StripGroups(t) ==
  CASE t.k = "bin" -> MkBin(t.op, StripGroups(t.l), StripGroups(t.r))
    [] t.k = "test" -> MkTest(StripGroups(t.x), t.neg, t.name)
    [] t.k = "un" -> MkUn(t.op, StripGroups(t.x))
    [] t.k = "group" -> StripGroups(t.x)
    [] t.k = "tern" -> [k |-> "tern", c |-> StripGroups(t.c), t |-> StripGroups(t.t), f |-> StripGroups(t.f)]
    [] OTHER -> t
(* explicit groups around every non-atomic operand: the fully parenthesised AST *)
RECURSIVE AddGroups(_)
G(t) == IF t.k \in {"bin", "test", "un", "tern"} THEN MkGrp(AddGroups(t)) ELSE t
AddGroups(t) ==
  CASE t.k = "bin" -> MkBin(t.op, G(t.l), G(t.r))
    [] t.k = "test" -> MkTest(G(t.x), t.neg, t.name)
    [] t.k = "un" -> MkUn(t.op, G(t.x))
    [] t.k = "tern" -> [k |-> "tern", c |-> G(t.c), t |-> G(t.t), f |-> G(t.f)]
    [] OTHER -> t
=============================================================================
