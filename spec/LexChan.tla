------------------------------- MODULE LexChan -------------------------------
(* The two goroutines of one parse and the unbuffered channel between them   *)
(* (parse/lex.go: tokenize, emit, errorf, nextToken; parse/parse.go: Parse). *)
(*                                                                           *)
(*   lexer:  for each token: send on the channel (blocks until the parser    *)
(*           receives, or until `done` is closed); after EOF or ERROR close  *)
(*           the channel and exit                                            *)
(*   parser: an ARBITRARY consumer: before every read it may decide to       *)
(*           return (a syntax error at that token, or the end of a           *)
(*           successful parse); a read on the closed channel yields the last *)
(*           token again; on return it closes `done` and WAITS for the lexer *)
(*           to exit (ppc "closing" -> "returned"): no goroutine outlives    *)
(*           the call                                                        *)
(*                                                                           *)
(* Variants select the code being modelled:                                  *)
(*   CloseOnError  errorf closes the channel (FALSE = Defect_NoCloseOnError) *)
(*   Drain         Parse signals `done` on return and emit selects on it     *)
(*                 (FALSE = Defect_NoDrain: a lexer blocked on send stays)   *)
EXTENDS Naturals, Sequences

CONSTANTS MaxToks,       \* token streams of up to this length are explored
          CloseOnError, Drain,
          Cap            \* capacity of the token channel: 0 = unbuffered (the code); > 0 models "give the channel a buffer
                         \* instead of draining": it only helps while the tokens still to come fit, and a token need not
                         \* consume input (C01.tla, TokenBound), so no capacity computed from the source length is safe

VARIABLES Toks,     \* the token stream: a sequence over {"T", "EOF", "ERROR"} ending in its only EOF or ERROR
          lpc,      \* lexer: "send" (has token lidx to send) | "exited"
          lidx,     \* index of the token the lexer is about to send
          closed,   \* token channel closed
          ppc,      \* parser: "run" | "closing" (done closed, waiting for the lexer to exit) | "returned"
          got,      \* number of tokens the parser has received from the channel
          done,     \* done channel closed (only with Drain)
          nbuf      \* tokens sitting in the channel's buffer
vars == <<Toks, lpc, lidx, closed, ppc, got, done, nbuf>>

Streams == {s \in UNION {[1..n -> {"T", "EOF", "ERROR"}] : n \in 1..MaxToks} :
              /\ s[Len(s)] \in {"EOF", "ERROR"} /\ \A q \in 1..(Len(s) - 1) : s[q] = "T"}
Init == Toks \in Streams /\ lpc = "send" /\ lidx = 1 /\ closed = FALSE /\ ppc = "run" /\ got = 0 /\ done = FALSE /\ nbuf = 0

Last(i) == i = Len(Toks)
(* what the lexer does after token i has been handed over (or dropped) *)
AfterToken(i) ==
  IF Toks[i] = "EOF" \/ (Toks[i] = "ERROR" /\ CloseOnError)
  THEN lpc' = "exited" /\ closed' = TRUE /\ lidx' = i
  ELSE IF Toks[i] = "ERROR" THEN lpc' = "exited" /\ closed' = FALSE /\ lidx' = i       \* Defect_NoCloseOnError
  ELSE lpc' = "send" /\ lidx' = i + 1 /\ UNCHANGED closed

(* rendez-vous on the unbuffered channel: the lexer sends token lidx, the parser receives it *)
Handoff == /\ Cap = 0 /\ lpc = "send" /\ ppc = "run" /\ ~closed
           /\ got' = got + 1
           /\ AfterToken(lidx)
           /\ UNCHANGED <<ppc, done, Toks, nbuf>>
(* buffered channel: the lexer puts a token into the buffer while there is room, the parser takes the oldest one *)
SendBuf == /\ Cap > 0 /\ lpc = "send" /\ nbuf < Cap
           /\ nbuf' = nbuf + 1
           /\ AfterToken(lidx)
           /\ UNCHANGED <<ppc, done, Toks, got>>
RecvBuf == /\ ppc = "run" /\ nbuf > 0
           /\ nbuf' = nbuf - 1 /\ got' = got + 1
           /\ UNCHANGED <<lpc, lidx, closed, ppc, done, Toks>>
(* a read on the closed channel returns immediately with the last token *)
ReadClosed == /\ ppc = "run" /\ closed
              /\ UNCHANGED vars
(* the parser stops consuming: syntax error, or the tree is complete.  With Drain it closes `done` and waits for the lexer *)
ParserReturn == /\ ppc = "run"
                /\ ppc' = IF Drain THEN "closing" ELSE "returned"
                /\ done' = Drain
                /\ UNCHANGED <<lpc, lidx, closed, got, Toks, nbuf>>
Join == /\ ppc = "closing" /\ lpc = "exited"
        /\ ppc' = "returned"
        /\ UNCHANGED <<lpc, lidx, closed, got, done, Toks, nbuf>>
(* with `done` closed a send does not block: the token is dropped and the lexer stops tokenising (it exits without closing the
   token channel - nobody reads it any more) *)
DropToken == /\ lpc = "send" /\ done
             /\ lpc' = "exited"
             /\ UNCHANGED <<lidx, closed, ppc, got, done, Toks, nbuf>>

(* both goroutines are gone: the only state in which nothing more happens *)
Terminated == lpc = "exited" /\ ppc = "returned" /\ UNCHANGED vars
Next == Handoff \/ SendBuf \/ RecvBuf \/ ParserReturn \/ Join \/ DropToken \/ Terminated
Spec == Init /\ [][Next]_vars /\ WF_vars(Handoff) /\ WF_vars(SendBuf) /\ WF_vars(RecvBuf) /\ WF_vars(DropToken) /\ WF_vars(ParserReturn) /\ WF_vars(Join)
(* a parser that wants to read and will not return by itself: used to expose blocking *)
SpecStubborn == Init /\ [][Handoff \/ SendBuf \/ RecvBuf \/ DropToken \/ Join \/ (ParserReturn /\ (closed \/ got = Len(Toks)))]_vars
                /\ WF_vars(Handoff) /\ WF_vars(SendBuf) /\ WF_vars(RecvBuf) /\ WF_vars(DropToken) /\ WF_vars(Join)

TypeOK == lpc \in {"send", "exited"} /\ lidx \in 1..Len(Toks) /\ ppc \in {"run", "closing", "returned"} /\ got \in 0..Len(Toks) /\ nbuf \in 0..Cap
(* no goroutine is left behind: once the parser has stopped the lexer exits, and (with Drain) the call does not return before *)
LexerExits == (ppc # "run") ~> (lpc = "exited")
ParserReturns == (ppc = "closing") ~> (ppc = "returned")
NoLexerAtReturn == Drain => (ppc = "returned" => lpc = "exited")
(* the parser is never blocked for good: whenever it wants another token it gets one or the channel is closed *)
ParserNeverStuck == [](ppc = "run" => (lpc = "send" \/ closed \/ nbuf > 0))
(* every token is received at most once and in order *)
OrderOK == got <= lidx
=============================================================================
