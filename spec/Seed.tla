-------------------------------- MODULE Seed --------------------------------
EXTENDS Bytes, IOUtils
(* VERIF_SEED from the environment, as a number modulo m *)
SeedMod(m) ==
  LET s == IF "VERIF_SEED" \in DOMAIN IOEnv THEN IOEnv.VERIF_SEED ELSE "1"
      RECURSIVE V(_, _)
      V(str, acc) == IF str = "" THEN acc
                     ELSE LET c == SubSeq(str, 1, 1) IN
                          V(SubSeq(str, 2, Len(str)),
                            (acc * 10 + (IF c \in DOMAIN CharCode /\ IsDigitB(CharCode[c]) THEN CharCode[c] - 48 ELSE 0)) % 100000)
  IN V(s, 0) % m
=============================================================================
