----------------------------- MODULE LexChanInd -----------------------------
(* LexChan.tla for the code as it is (unbuffered channel, errorf closes the  *)
(* channel, Parse closes `done`), with the token stream abstracted to its    *)
(* LENGTH N: an arbitrary natural number >= 1, not bounded by a constant.    *)
(* Apalache proves IndInv inductive for every N, which gives, for streams of *)
(* any length:                                                               *)
(*   ParserNeverStuck  a parser that wants a token finds the lexer sending   *)
(*                     or the channel closed                                 *)
(*   DrainEnabled      while the parser waits (closing), the lexer either    *)
(*                     has exited or can take a step (DropToken) ...         *)
(*   Variant           ... and each lexer step consumes one of the N - lidx  *)
(*                     remaining tokens or exits                             *)
(*   NoLexerAtReturn   when Parse has returned the tokeniser has exited      *)
EXTENDS Integers

CONSTANTS
  \* @type: Int;
  N,
  \* @type: Bool;
  Drain      \* Parse closes `done` on return (the code); FALSE = the defect variant, which must be rejected
VARIABLES
  \* @type: Str;
  lpc,
  \* @type: Int;
  lidx,
  \* @type: Bool;
  closed,
  \* @type: Str;
  ppc,
  \* @type: Int;
  got,
  \* @type: Bool;
  done

CInit == N \in Int /\ N >= 1 /\ Drain = TRUE
CInitNoDrain == N \in Int /\ N >= 1 /\ Drain = FALSE
Init == lpc = "send" /\ lidx = 1 /\ closed = FALSE /\ ppc = "run" /\ got = 0 /\ done = FALSE

AfterToken(i) ==
  IF i = N THEN lpc' = "exited" /\ closed' = TRUE /\ lidx' = i
  ELSE lpc' = "send" /\ lidx' = i + 1 /\ UNCHANGED closed
Handoff == /\ lpc = "send" /\ ppc = "run" /\ ~closed
           /\ got' = got + 1
           /\ AfterToken(lidx)
           /\ UNCHANGED <<ppc, done>>
ParserReturn == /\ ppc = "run"
                /\ ppc' = (IF Drain THEN "closing" ELSE "returned") /\ done' = Drain
                /\ UNCHANGED <<lpc, lidx, closed, got>>
(* Parse returns only after the tokeniser has exited *)
Join == /\ ppc = "closing" /\ lpc = "exited"
        /\ ppc' = "returned"
        /\ UNCHANGED <<lpc, lidx, closed, got, done>>
(* a token that cannot be delivered any more is dropped and the tokeniser stops *)
DropToken == /\ lpc = "send" /\ done
             /\ lpc' = "exited"
             /\ UNCHANGED <<lidx, closed, ppc, got, done>>
Next == Handoff \/ ParserReturn \/ Join \/ DropToken

IndInv ==
  /\ lpc \in {"send", "exited"} /\ ppc \in {"run", "closing", "returned"}
  /\ lidx >= 1 /\ lidx <= N /\ got >= 0 /\ got <= lidx
  /\ (lpc = "send" => got < lidx)          \* the token about to be sent has not been received
  /\ (closed => lpc = "exited")
  /\ ((lpc = "exited" /\ ~closed) => done)         \* the only exit without closing the channel is the one after `done`
  /\ (closed => lidx = N)
  /\ done = (ppc # "run")
  /\ (ppc = "returned" => lpc = "exited")          \* NoLexerAtReturn
(* the inductive step starts from ANY state satisfying IndInv *)
IndInit == /\ lpc \in {"send", "exited"} /\ ppc \in {"run", "closing", "returned"} /\ lidx \in Int /\ got \in Int
           /\ closed \in BOOLEAN /\ done \in BOOLEAN
           /\ IndInv
ParserNeverStuck == ppc = "run" => (lpc = "send" \/ closed)
DrainEnabled == (ppc = "closing" /\ lpc = "send") => done
NoLexerAtReturn == ppc = "returned" => lpc = "exited"
Safe == IndInv /\ ParserNeverStuck /\ DrainEnabled /\ NoLexerAtReturn
(* every lexer step either exits or moves to the next of the N tokens *)
Variant == (lpc' # lpc \/ lidx' # lidx) => (lpc' = "exited" \/ lidx' = lidx + 1)
=============================================================================
