----------------------------- MODULE LexChanInd -----------------------------
(* LexChan.tla for the code as it is (unbuffered channel, errorf closes the  *)
(* channel, Parse closes `done`), with the token stream abstracted to its    *)
(* LENGTH N: an arbitrary natural number >= 1, not bounded by a constant.    *)
(* Apalache proves IndInv inductive for every N, which gives, for streams of *)
(* any length:                                                               *)
(*   ParserNeverStuck  a parser that wants a token finds the lexer sending   *)
(*                     or the channel closed                                 *)
(*   DrainEnabled      once the parser has returned, the lexer either has    *)
(*                     exited or can take a step (DropToken) ...             *)
(*   Variant           ... and each lexer step consumes one of the N - lidx  *)
(*                     remaining tokens or exits: it exits after at most N    *)
(*                     steps (no goroutine is left behind)                   *)
EXTENDS Integers

CONSTANTS
  \* @type: Int;
  N,
  \* @type: Bool;
  Drain      \* Parse closes `done` on return (the code); FALSE = the defect variant, which must be rejected
VARIABLES
  \* @type: Str;
  lpc,
  \* @type: Int;
  lidx,
  \* @type: Bool;
  closed,
  \* @type: Str;
  ppc,
  \* @type: Int;
  got,
  \* @type: Bool;
  done

CInit == N \in Int /\ N >= 1 /\ Drain = TRUE
CInitNoDrain == N \in Int /\ N >= 1 /\ Drain = FALSE
Init == lpc = "send" /\ lidx = 1 /\ closed = FALSE /\ ppc = "run" /\ got = 0 /\ done = FALSE

AfterToken(i) ==
  IF i = N THEN lpc' = "exited" /\ closed' = TRUE /\ lidx' = i
  ELSE lpc' = "send" /\ lidx' = i + 1 /\ UNCHANGED closed
Handoff == /\ lpc = "send" /\ ppc = "run" /\ ~closed
           /\ got' = got + 1
           /\ AfterToken(lidx)
           /\ UNCHANGED <<ppc, done>>
ParserReturn == /\ ppc = "run"
                /\ ppc' = "returned" /\ done' = Drain
                /\ UNCHANGED <<lpc, lidx, closed, got>>
DropToken == /\ lpc = "send" /\ done
             /\ AfterToken(lidx)
             /\ UNCHANGED <<ppc, got, done>>
Next == Handoff \/ ParserReturn \/ DropToken

IndInv ==
  /\ lpc \in {"send", "exited"} /\ ppc \in {"run", "returned"}
  /\ lidx >= 1 /\ lidx <= N /\ got >= 0 /\ got <= lidx
  /\ (lpc = "send" => got < lidx)          \* the token about to be sent has not been received
  /\ (lpc = "exited") = closed
  /\ (lpc = "exited" => lidx = N)
  /\ done = (ppc = "returned")
(* the inductive step starts from ANY state satisfying IndInv *)
IndInit == /\ lpc \in {"send", "exited"} /\ ppc \in {"run", "returned"} /\ lidx \in Int /\ got \in Int
           /\ closed \in BOOLEAN /\ done \in BOOLEAN
           /\ IndInv
ParserNeverStuck == ppc = "run" => (lpc = "send" \/ closed)
DrainEnabled == (ppc = "returned" /\ lpc = "send") => done
Safe == IndInv /\ ParserNeverStuck /\ DrainEnabled
(* every lexer step either exits or moves to the next of the N tokens *)
Variant == (lpc' # lpc \/ lidx' # lidx) => (lpc' = "exited" \/ lidx' = lidx + 1)
=============================================================================
