------------------------------- MODULE Values -------------------------------
(* The value domain of stick templates and its coercions (value.go), for   *)
(* the region in which stick's documented coercions and Twig agree.        *)
(*                                                                         *)
(* Numbers are exact fixed-point rationals: [t |-> "num", q |-> n] denotes *)
(* n/64 (TLC has 32-bit integers and no floats).  An operation whose exact *)
(* result is not a multiple of 1/64, leaves the window |v| < 10^6, or      *)
(* would be a negative zero in IEEE arithmetic yields OOM ("out of         *)
(* model"): the case is then outside the region the specification speaks   *)
(* about and is dropped by the generators (counted in the evidence).       *)
(* Strings are byte sequences.                                             *)
EXTENDS Bytes, TLC

Scale == 64
Window == 1000000 * Scale

Null      == [t |-> "null"]
Bool(b)   == [t |-> "bool", b |-> b]
Num(q)    == [t |-> "num", q |-> q]            \* q/64
IntV(n)    == [t |-> "num", q |-> n * Scale]
Str(s)    == [t |-> "str", s |-> s]
Arr(els)  == [t |-> "arr", els |-> els]
Hash(ps)  == [t |-> "hash", pairs |-> ps]      \* sequence of <<key bytes, value>>, insertion order
OOM       == [t |-> "oom"]                     \* out of model (not a stick value)
ErrV      == [t |-> "err"]                     \* evaluation failed (not a stick value)
MacroSet(tpl) == [t |-> "macros", tpl |-> tpl]
Safe(v, types) == [t |-> "safe", v |-> v, types |-> types]   \* stick.SafeValue: already escaped for these content types

IsOOM(v) == v.t = "oom"
IsNum(v) == v.t = "num"
IsIntV(v) == v.t = "num" /\ v.q % Scale = 0

Abs(n) == IF n < 0 THEN 0 - n ELSE n

InWindow(q) == Abs(q) < Window
NumW(q) == IF InWindow(q) THEN Num(q) ELSE OOM

--------------------------------------------------------------------------
(* number -> string as Go's %v prints a float64 inside the window          *)
RECURSIVE StripZeros(_)
StripZeros(ds) == IF ds # <<>> /\ ds[Len(ds)] = 48 THEN StripZeros(SubSeq(ds, 1, Len(ds) - 1)) ELSE ds

NumToBytes(q) ==
  LET a == Abs(q)
      ip == a \div Scale
      fr == (a % Scale) * 15625                      \* six decimal digits of k/64
      frs == StripZeros(PadLeft(DecB(fr), 6, 48))
  IN (IF q < 0 THEN <<45>> ELSE <<>>) \o DecB(ip) \o (IF fr = 0 THEN <<>> ELSE <<46>> \o frs)

(* decimal numeric string -> number: [sign] digits [. digits]; anything    *)
(* else coerces to 0 (strconv.ParseFloat fails).  Exponents, hex floats,   *)
(* "inf"/"nan", underscores are outside the region: OOM.                   *)
AllDigits(s) == s # <<>> /\ \A i \in 1..Len(s) : IsDigitB(s[i])
RECURSIVE DigitsVal(_, _)
DigitsVal(s, acc) == IF s = <<>> THEN acc
                     ELSE IF acc > 3000000 THEN acc ELSE DigitsVal(Tail(s), acc * 10 + (Head(s) - 48))
IndexOfB(s, b) == IF \E i \in 1..Len(s) : s[i] = b
                  THEN CHOOSE i \in 1..Len(s) : s[i] = b /\ \A j \in 1..(i-1) : s[j] # b ELSE 0
Pow10(n) == CASE n = 0 -> 1 [] n = 1 -> 10 [] n = 2 -> 100 [] n = 3 -> 1000 [] n = 4 -> 10000
              [] n = 5 -> 100000 [] n = 6 -> 1000000 [] OTHER -> 0
Risky(s) == \E i \in 1..Len(s) : s[i] \in {101, 69, 120, 88, 95, 112, 80, 105, 73, 110, 78}  \* e E x X _ p P i I n N
StrParts(s) ==
  LET neg == s # <<>> /\ s[1] = 45
      pos == s # <<>> /\ s[1] = 43
      u == IF neg \/ pos THEN Tail(s) ELSE s
      d == IndexOfB(u, 46)
  IN [neg |-> neg,
      ip |-> IF d = 0 THEN u ELSE SubSeq(u, 1, d - 1),
      fp |-> IF d = 0 THEN <<>> ELSE SubSeq(u, d + 1, Len(u))]
(* [sign] digits [. digits] with at least one digit *)
DecimalStr(s) == LET p == StrParts(s) IN
  /\ ~(p.ip = <<>> /\ p.fp = <<>>)
  /\ (p.ip = <<>> \/ AllDigits(p.ip)) /\ (p.fp = <<>> \/ AllDigits(p.fp))
StrToNum(s) ==
  LET p == StrParts(s) IN
  IF ~DecimalStr(s) THEN (IF Risky(s) THEN OOM ELSE Num(0))
  ELSE IF Len(p.ip) > 6 \/ Len(p.fp) > 6 THEN OOM
  ELSE LET iv == DigitsVal(p.ip, 0)
           fv == DigitsVal(p.fp, 0)
           den == Pow10(Len(p.fp))
       IN IF (fv * Scale) % den # 0 THEN OOM
          ELSE IF iv = 0 /\ fv = 0 /\ p.neg THEN OOM        \* "-0" parses to negative zero
          ELSE NumW((IF p.neg THEN 0 - 1 ELSE 1) * (iv * Scale + (fv * Scale) \div den))

--------------------------------------------------------------------------
(* Coercions (value.go), on the region where stick and Twig agree.         *)
RECURSIVE CoerceNumber(_), CoerceBytes(_), CoerceBool3(_)
CoerceNumber(v) ==
  CASE v.t = "num"  -> v
    [] v.t = "safe" -> CoerceNumber(v.v)          \* a safe wrapper coerces like the value inside
    [] v.t = "str"  -> StrToNum(v.s)
    [] v.t = "bool" -> IF v.b THEN IntV(1) ELSE IntV(0)
    [] v.t = "null" -> IntV(0)
    [] v.t = "oom"  -> OOM
    [] OTHER        -> OOM      \* arrays/hashes: stick gives 0, Twig differs

CoerceBytes(v) ==              \* CoerceString; OOM is represented by <<-1>>
  CASE v.t = "num"  -> NumToBytes(v.q)
    [] v.t = "safe" -> CoerceBytes(v.v)
    [] v.t = "str"  -> v.s
    [] v.t = "bool" -> IF v.b THEN <<49>> ELSE <<>>
    [] v.t = "null" -> <<>>
    [] v.t = "gostr" -> v.s     \* a host value implementing fmt.Stringer: its String()
    [] OTHER        -> <<-1>>   \* arrays/hashes print "" in stick, "Array" in Twig; macro sets: undefined
BytesOOM(b) == b = <<-1>>

(* truthiness: OOM3 = "oom" when stick and Twig disagree (negative numbers, *)
(* the string "0", arrays)                                                  *)
CoerceBool3(v) ==
  CASE v.t = "bool" -> IF v.b THEN "t" ELSE "f"
    [] v.t = "safe" -> CoerceBool3(v.v)
    [] v.t = "num"  -> IF v.q > 0 THEN "t" ELSE IF v.q = 0 THEN "f" ELSE "oom"
    [] v.t = "str"  -> IF v.s = <<>> THEN "f" ELSE IF v.s = <<48>> THEN "oom" ELSE "t"
    [] v.t = "null" -> "f"
    [] OTHER        -> "oom"

--------------------------------------------------------------------------
(* Arithmetic on the window.                                               *)
MulOK(a, b) == a = 0 \/ b = 0 \/ Abs(a) <= 2000000000 \div Abs(b)
NegZero(r, a, b) == r = 0 /\ (a < 0 \/ b < 0)     \* IEEE would give -0, printed "-0"

NAdd(a, b) == NumW(a.q + b.q)
NSub(a, b) == NumW(a.q - b.q)
NMul(a, b) == IF ~MulOK(a.q, b.q) THEN OOM
              ELSE LET p == a.q * b.q IN
                   IF p % Scale # 0 \/ NegZero(p, a.q, b.q) THEN OOM ELSE NumW(p \div Scale)
(* true division; a zero divisor is decided by the caller *)
NDiv(a, b) == IF ~MulOK(a.q, Scale) THEN OOM
              ELSE LET n == a.q * Scale
                       sg == IF (n < 0) # (b.q < 0) THEN 0 - 1 ELSE 1 IN
                   IF Abs(n) % Abs(b.q) # 0 \/ NegZero(n, a.q, b.q) THEN OOM
                   ELSE NumW(sg * (Abs(n) \div Abs(b.q)))
FloorDivInt(n, d) == IF d > 0 THEN n \div d ELSE (0 - n) \div (0 - d)       \* \div floors for a positive divisor
NFloorDiv(a, b) == IF a.q = 0 /\ b.q < 0 THEN OOM      \* floor(0 / -x) is a negative zero
                   ELSE NumW(FloorDivInt(a.q, b.q) * Scale)
Trunc(q) == IF q >= 0 THEN q \div Scale ELSE 0 - ((0 - q) \div Scale)       \* int(float) truncates toward zero
(* Go's and PHP's %: operands truncated to integers, result has the sign of the dividend *)
NMod(a, b) == LET x == Trunc(a.q)  y == Trunc(b.q)
                  r == Abs(x) % Abs(y)
              IN IntV(IF x < 0 THEN 0 - r ELSE r)
RECURSIVE NPowI(_, _)
NPowI(a, n) == IF n = 0 THEN IntV(1)
               ELSE LET r == NPowI(a, n - 1) IN IF IsOOM(r) THEN OOM ELSE NMul(r, a)
NPow(a, b) == IF ~IsIntV(b) \/ Abs(b.q) > 12 * Scale THEN OOM
              ELSE IF b.q >= 0 THEN NPowI(a, b.q \div Scale)
              ELSE IF a.q = 0 THEN OOM
              ELSE LET r == NPowI(a, (0 - b.q) \div Scale) IN
                   IF IsOOM(r) THEN OOM ELSE NDiv(IntV(1), r)
NNeg(a) == IF a.q = 0 THEN OOM ELSE Num(0 - a.q)

(* bitwise operators on non-negative integers below 2^20 *)
RECURSIVE BitOp(_, _, _, _)
BitOp(op, x, y, n) ==
  IF n = 0 THEN 0
  ELSE LET bx == x % 2  by == y % 2
           b == CASE op = "b-and" -> (IF bx = 1 /\ by = 1 THEN 1 ELSE 0)
                  [] op = "b-or"  -> (IF bx = 1 \/ by = 1 THEN 1 ELSE 0)
                  [] op = "b-xor" -> (IF bx # by THEN 1 ELSE 0)
       IN b + 2 * BitOp(op, x \div 2, y \div 2, n - 1)
NBit(op, a, b) ==
  LET x == Trunc(a.q)  y == Trunc(b.q) IN
  IF x < 0 \/ y < 0 \/ x >= 1048576 \/ y >= 1048576 THEN OOM ELSE IntV(BitOp(op, x, y, 20))

--------------------------------------------------------------------------
(* Equality (value.go Equal compares the string forms).  The region where  *)
(* this agrees with Twig: both numbers, both strings, both booleans, both  *)
(* null, or a number and a decimal numeric string spelling a number.       *)
Equal3(a, b) ==
  IF a.t = "oom" \/ b.t = "oom" THEN "oom"
  ELSE IF a.t = b.t /\ a.t \in {"num", "bool", "null"} THEN (IF a = b THEN "t" ELSE "f")
  ELSE IF a.t = "str" /\ b.t = "str" THEN
       (IF a.s = b.s THEN "t"
        ELSE IF DecimalStr(a.s) /\ DecimalStr(b.s) THEN "oom"   \* "1" == "1.0": PHP compares numerically
        ELSE "f")
  ELSE "oom"

IsIterable(v) == v.t \in {"arr", "hash", "null"}
SeqLen(v) == CASE v.t = "arr" -> Len(v.els) [] v.t = "hash" -> Len(v.pairs) [] OTHER -> 0

(* in / not in: haystack must be an array or hash (stick rejects strings, Twig searches substrings) *)
Contains3(hay, needle) ==
  IF hay.t = "arr" THEN
       IF \E i \in 1..Len(hay.els) : Equal3(hay.els[i], needle) = "oom" THEN "oom"
       ELSE IF \E i \in 1..Len(hay.els) : Equal3(hay.els[i], needle) = "t" THEN "t" ELSE "f"
  ELSE IF hay.t = "hash" THEN
       IF \E i \in 1..Len(hay.pairs) : Equal3(hay.pairs[i][2], needle) = "oom" THEN "oom"
       ELSE IF \E i \in 1..Len(hay.pairs) : Equal3(hay.pairs[i][2], needle) = "t" THEN "t" ELSE "f"
  ELSE "oom"

HasPrefixB(s, p) == Len(p) <= Len(s) /\ SubSeq(s, 1, Len(p)) = p
HasSuffixB(s, p) == Len(p) <= Len(s) /\ SubSeq(s, Len(s) - Len(p) + 1, Len(s)) = p

(* hash lookup by key bytes: <<found, value>> ; later pairs win (Go map assignment) *)
HashGet(h, kb) ==
  LET idx == {i \in 1..Len(h.pairs) : h.pairs[i][1] = kb} IN
  IF idx = {} THEN <<FALSE, Null>>
  ELSE <<TRUE, h.pairs[CHOOSE i \in idx : \A j \in idx : j <= i][2]>>
=============================================================================
