-------------------------------- MODULE Exec --------------------------------
(* The executor of stick (exec.go) as a functional reference, shaped like   *)
(* the code: Walk(node, S) is `state.walk`, Eval(e, S) is `state.evalExpr`, *)
(* S carries the fields of exec.go's `state`:                               *)
(*   outs    writer stack; outs[1] is the destination writer, every capture *)
(*           (set..endset, filter section, macro call, block(), parent())   *)
(*           pushes a buffer and pops it                                    *)
(*   scopes  scope stack (push/pop/Get innermost first/Set/setLocal)        *)
(*   blocks  chain of block tables, most derived first                      *)
(*   cur     the block being rendered (name and position in the chain)      *)
(*   name    name of the template whose code is running                     *)
(*   macros  macros imported with `from`;  lmacros  macros defined so far   *)
(*   status  "ok" | "err" (run-time error, execution stops) | "oom"         *)
(*   log     event log in execution order: writes that reach the           *)
(*           destination writer, loads, callbacks, probes (public events),  *)
(*           and capture/scope pushes and pops (internal events)            *)
(* It describes the INTENDED behaviour (properties C02-C11, C17); where the *)
(* intended behaviour is not determined (stick and Twig disagree, or the    *)
(* fixed-point window is left) the status becomes "oom" and the case is     *)
(* outside the model.                                                       *)
EXTENDS Values, Escape, Sequences

NoE == [k |-> "none"]
NoCur == [name |-> "", pos |-> 0]

Ev(S, e) == [S EXCEPT !.log = Append(@, e)]
Fail(S) == IF S.status = "ok" THEN [S EXCEPT !.status = "err"] ELSE S
OomS(S) == [S EXCEPT !.status = "oom"]
Ok(S) == S.status = "ok"

--------------------------------------------------------------------------
(* writers                                                                 *)
Write(S, d) ==
  IF Len(S.outs) = 1
  THEN Ev([S EXCEPT !.outs[1] = @ \o d], [e |-> "w", d |-> d])
  ELSE [S EXCEPT !.outs[Len(S.outs)] = @ \o d]
PushOut(S) == Ev([S EXCEPT !.outs = Append(@, <<>>)], [e |-> "cap+", depth |-> Len(S.outs)])
TopOut(S) == S.outs[Len(S.outs)]
PopOut(S) == Ev([S EXCEPT !.outs = SubSeq(@, 1, Len(@) - 1)], [e |-> "cap-", depth |-> Len(S.outs) - 1])

(* scopes: sequence of functions name -> value *)
PushScope(S) == Ev([S EXCEPT !.scopes = Append(@, << >>)], [e |-> "sc+", depth |-> Len(S.scopes)])
PopScope(S) == Ev([S EXCEPT !.scopes = SubSeq(@, 1, Len(@) - 1)], [e |-> "sc-", depth |-> Len(S.scopes) - 1])
Bind(f, n, v) == [x \in (DOMAIN f) \cup {n} |-> IF x = n THEN v ELSE f[x]]
EmptyScope == [x \in {} |-> Null]
SetLocal(S, n, v) == [S EXCEPT !.scopes[Len(S.scopes)] = Bind(@, n, v)]
Defined(S, n) == \E i \in 1..Len(S.scopes) : n \in DOMAIN S.scopes[i]
GetVar(S, n) == LET i == CHOOSE i \in 1..Len(S.scopes) :
                           n \in DOMAIN S.scopes[i] /\ \A j \in (i+1)..Len(S.scopes) : n \notin DOMAIN S.scopes[j]
                IN S.scopes[i][n]
(* Set: the scope the name is defined on, searching from the outermost; otherwise the innermost *)
SetVar(S, n, v) ==
  IF Defined(S, n)
  THEN LET i == CHOOSE i \in 1..Len(S.scopes) :
                  n \in DOMAIN S.scopes[i] /\ \A j \in 1..(i-1) : n \notin DOMAIN S.scopes[j]
       IN [S EXCEPT !.scopes[i] = Bind(@, n, v)]
  ELSE SetLocal(S, n, v)
RECURSIVE FlattenFrom(_, _)
FlattenFrom(scs, i) == IF i > Len(scs) THEN EmptyScope
                       ELSE LET rest == FlattenFrom(scs, i + 1) IN
                            [x \in (DOMAIN scs[i]) \cup (DOMAIN rest) |->
                               IF x \in DOMAIN rest THEN rest[x] ELSE scs[i][x]]
Flatten(S) == FlattenFrom(S.scopes, 1)

--------------------------------------------------------------------------
(* static information the parser collects                                  *)
RECURSIVE BlocksIn(_, _)
BlocksOfNode(n, origin) ==
  CASE n.k = "block"  -> Bind(BlocksIn(n.body, origin), n.name, [body |-> n.body, origin |-> origin])
    [] n.k = "if"     -> LET RECURSIVE Br(_)
                             Br(bs) == IF bs = <<>> THEN EmptyScope
                                       ELSE LET a == BlocksIn(bs[1].body, origin)  b == Br(Tail(bs)) IN
                                            [x \in (DOMAIN a) \cup (DOMAIN b) |-> IF x \in DOMAIN b THEN b[x] ELSE a[x]]
                             a == Br(n.branches)  b == BlocksIn(n.els, origin)
                         IN [x \in (DOMAIN a) \cup (DOMAIN b) |-> IF x \in DOMAIN b THEN b[x] ELSE a[x]]
    [] n.k = "for"    -> LET a == BlocksIn(n.body, origin)  b == BlocksIn(n.els, origin) IN
                         [x \in (DOMAIN a) \cup (DOMAIN b) |-> IF x \in DOMAIN b THEN b[x] ELSE a[x]]
    [] n.k \in {"setcap", "filter", "macro"} -> BlocksIn(n.body, origin)
    [] OTHER -> EmptyScope
BlocksIn(stmts, origin) ==
  IF stmts = <<>> THEN EmptyScope
  ELSE LET a == BlocksOfNode(Head(stmts), origin)  b == BlocksIn(Tail(stmts), origin) IN
       [x \in (DOMAIN a) \cup (DOMAIN b) |-> IF x \in DOMAIN b THEN b[x] ELSE a[x]]   \* a later definition wins

(* the macros of a template: every macro tag, wherever it is written (the parser registers a macro when it reads the tag,
   also inside the body of an if, a loop, a block, a capture, a filter section or another macro); a later definition wins *)
RECURSIVE MacrosIn(_, _), MacrosOfNode(_, _)
MergeM(a, b) == [x \in (DOMAIN a) \cup (DOMAIN b) |-> IF x \in DOMAIN b THEN b[x] ELSE a[x]]
MacrosOfNode(n, origin) ==
  CASE n.k = "macro" -> MergeM(MacrosIn(n.body, origin), Bind(EmptyScope, n.name, [params |-> n.params, body |-> n.body, origin |-> origin]))
    [] n.k \in {"block", "setcap", "filter"} -> MacrosIn(n.body, origin)
    [] n.k = "for" -> MergeM(MacrosIn(n.body, origin), MacrosIn(n.els, origin))
    [] n.k = "if" -> LET RECURSIVE Br(_)
                         Br(bs) == IF bs = <<>> THEN EmptyScope ELSE MergeM(MacrosIn(bs[1].body, origin), Br(Tail(bs)))
                     IN MergeM(Br(n.branches), MacrosIn(n.els, origin))
    [] OTHER -> EmptyScope
MacrosIn(stmts, origin) ==
  IF stmts = <<>> THEN EmptyScope
  ELSE MergeM(MacrosOfNode(Head(stmts), origin), MacrosIn(Tail(stmts), origin))

ExtendsOf(stmts) == LET idx == {i \in 1..Len(stmts) : stmts[i].k = "extends"} IN
                    IF idx = {} THEN NoE ELSE stmts[CHOOSE i \in idx : \A j \in idx : i <= j].x

(* block chain lookups *)
FirstDef(S, bname, from) ==     \* smallest position >= from defining bname, or 0
  LET idx == {i \in from..Len(S.blocks) : bname \in DOMAIN S.blocks[i]} IN
  IF idx = {} THEN 0 ELSE CHOOSE i \in idx : \A j \in idx : i <= j

--------------------------------------------------------------------------
(* loading                                                                 *)
Load(S, nameBytes) ==   \* <<ok, name, S'>>
  IF ~IsPrintable(nameBytes) THEN <<FALSE, "", OomS(S)>>
  ELSE LET n == B2S(nameBytes)
           S1 == Ev(S, [e |-> "load", name |-> nameBytes]) IN
       IF n \notin DOMAIN S.tpls THEN <<FALSE, n, Fail(S1)>>
       ELSE IF S.tpls[n] # <<>> /\ S.tpls[n][1].k = "syntaxerror" THEN <<FALSE, n, Fail(S1)>>   \* loads, does not parse
       ELSE <<TRUE, n, S1>>

FreshState(S, tpl, ctx) ==
  [S EXCEPT !.scopes = <<ctx>>, !.blocks = <<BlocksIn(S.tpls[tpl], tpl)>>, !.cur = NoCur, !.name = tpl,
            !.macros = EmptyScope, !.lmacros = EmptyScope]
(* what survives a nested execution: output, log, status, fuel *)
Rejoin(S, S2) == [S EXCEPT !.outs = S2.outs, !.log = S2.log, !.status = S2.status]

--------------------------------------------------------------------------
(* values in the log                                                       *)
LoopRec(i, n, parentDefined, parent) ==
  LET base == <<
        <<S2B("Last"),      Bool(i = n)>>,
        <<S2B("Index"),     IntV(i)>>,
        <<S2B("Index0"),    IntV(i - 1)>>,
        <<S2B("last"),      Bool(i = n)>>,
        <<S2B("index"),     IntV(i)>>,
        <<S2B("index0"),    IntV(i - 1)>>,
        <<S2B("revindex"),  IntV(n - i + 1)>>,
        <<S2B("revindex0"), IntV(n - i)>>,
        <<S2B("first"),     Bool(i = 1)>>,
        <<S2B("length"),    IntV(n)>> >>
  IN Hash(IF parentDefined THEN Append(base, <<S2B("parent"), parent>>) ELSE base)

AsciiUpper(bs) == [i \in 1..Len(bs) |-> IF IsLowerB(bs[i]) THEN bs[i] - 32 ELSE bs[i]]
AsciiLower(bs) == [i \in 1..Len(bs) |-> IF IsUpperB(bs[i]) THEN bs[i] + 32 ELSE bs[i]]

--------------------------------------------------------------------------
RECURSIVE Eval(_, _), EvalList(_, _), Walk(_, _), WalkSeq(_, _), CallMacro(_, _, _), WalkModule(_, _),
          ForIter(_, _, _, _, _), WalkIf(_, _, _), ApplyFilters(_, _, _), EvalPairs(_, _), UseAll(_, _),
          RenderBlock(_, _, _)

(* ---- auto-escaping (twig/escape.go): environments created by the Twig package ---- *)
(* content type of a template name: the registered escaper named by its extension (".twig" stripped),
   nothing for txt, html otherwise: no extension, unknown extension, inline source *)
EscTypes == {"html", "html_attr", "js", "css", "url"}
RECURSIVE LastDot(_, _)
LastDot(bs, q) == IF q = 0 THEN 0 ELSE IF bs[q] = 46 THEN q ELSE LastDot(bs, q - 1)
CtOfName(name) ==
  IF \E q \in 1..Len(name) : SubSeq(name, q, q) \notin DOMAIN CharCode THEN "html"      \* inline source
  ELSE LET b0 == S2B(name)
           b == IF HasSuffixB(b0, S2B(".twig")) THEN SubSeq(b0, 1, Len(b0) - 5) ELSE b0
           d == LastDot(b, Len(b))
           ext == IF d = 0 THEN <<>> ELSE SubSeq(b, d + 1, Len(b)) IN
       IF ext = S2B("txt") THEN "txt"
       ELSE IF IsPrintable(ext) /\ ext # <<>> /\ B2S(ext) \in EscTypes THEN B2S(ext)
       ELSE "html"
(* the escaped form of a payload is written symbolically: <<1, code>> payload <<2>>; the harness substitutes
   the escaper's actual output (the escapers themselves are C13's subject) *)
CtCode(ct) == CASE ct = "html" -> 16 [] ct = "html_attr" -> 17 [] ct = "js" -> 18 [] ct = "css" -> 19 [] OTHER -> 20
Mark(ct, b) == IF b = <<>> THEN <<>> ELSE <<1, CtCode(ct)>> \o b \o <<2>>
AutoBytes(v, ct) ==
  LET b == CoerceBytes(v) IN
  IF BytesOOM(b) THEN b
  ELSE IF ct \notin EscTypes THEN b                                  \* txt: no escaper
  ELSE IF v.t = "safe" /\ ct \in v.types THEN b                      \* explicitly marked safe for this type
  ELSE Mark(ct, b)
(* an explicit raw, or an explicit escape for a strategy that exists (written as a literal, or left out = html), decides the
   escaping of the print itself and is not escaped again for the template's content type; parentheses around it change nothing;
   an escape whose strategy is unknown decides nothing: the print is escaped for its template like any other *)
RECURSIVE StripGroup(_)
StripGroup(x) == IF x.k = "group" THEN StripGroup(x.x) ELSE x
DirectEscape(x0) ==
  LET x == StripGroup(x0) IN
  x.k = "pipe" /\ (x.name = "raw"
                   \/ (x.name = "escape" /\ (x.args = <<>> \/ (Len(x.args) = 1 /\ x.args[1].k = "str" /\ IsPrintable(x.args[1].s) /\ B2S(x.args[1].s) \in EscTypes))))

(* user callbacks registered by the harness (core environment)             *)
(*   functions: _p(k) probe, id(x..) -> first argument, nul() -> null      *)
(*   filters:   rec(v..) -> v, up(v) -> upper-cased string, wrap(v, w) -> w ~ v ~ w *)
(*   tests:     odd, even, divisible by(n), yes (always true)              *)
Cb(S, kind, name, args) == Ev(S, [e |-> "cb", kind |-> kind, name |-> name, args |-> args, tname |-> S.name])

FuncKnown(name) == name \in {"_p", "id", "nul"}
CallFunc(name, args, S) ==
  CASE name = "_p" -> <<Str(<<>>), Ev(S, [e |-> "probe", k |-> (IF args = <<>> THEN Null ELSE args[1]),
                                          scope |-> Flatten(S), tname |-> S.name])>>
    [] name = "id"  -> <<IF args = <<>> THEN Null ELSE args[1], Cb(S, "func", name, args)>>
    [] name = "nul" -> <<Null, Cb(S, "func", name, args)>>
    [] OTHER -> <<ErrV, Fail(S)>>

RECURSIVE ReplAll(_, _, _)
ReplAll(bs, old, new) ==
  IF Len(bs) < Len(old) THEN bs
  ELSE IF SubSeq(bs, 1, Len(old)) = old THEN new \o ReplAll(SubSeq(bs, Len(old) + 1, Len(bs)), old, new)
  ELSE <<bs[1]>> \o ReplAll(Tail(bs), old, new)
FilterKnown(name) == name \in {"rec", "up", "wrap", "mark", "escape", "raw", "replace", "upper"}
CallFilter(name, v, args, S) ==      \* <<value, S'>>
  LET S1 == Cb(S, "filter", name, <<v>> \o args) IN
  CASE name = "rec" -> <<v, S1>>
    [] name = "escape" ->       \* twig: escape(v, type = 'html'); not a recording callback
         IF ~S.auto THEN <<ErrV, Fail(S)>>
         ELSE LET tb == IF args = <<>> THEN S2B("html") ELSE CoerceBytes(args[1]) IN
              IF BytesOOM(tb) \/ ~IsPrintable(tb) THEN <<OOM, OomS(S)>>
              ELSE LET ct == B2S(tb)  b == CoerceBytes(v) IN
                   IF BytesOOM(b) THEN <<OOM, OomS(S)>>
                   ELSE IF v.t = "safe" /\ ct \in v.types THEN <<v, S>>
                   ELSE IF ct \notin EscTypes THEN <<v, S>>
                   ELSE <<Safe(Str(Mark(ct, b)), {ct}), S>>
    [] name = "raw" ->
         IF ~S.auto THEN <<ErrV, Fail(S)>>
         ELSE LET b == CoerceBytes(v) IN IF BytesOOM(b) THEN <<OOM, OomS(S)>> ELSE <<Safe(Str(b), EscTypes), S>>
    (* two filters of the twig package (not recording callbacks): their result is a NEW plain string, whatever the subject was
       marked safe for - the replacement values were spliced in after the mark was given *)
    [] name = "replace" ->
         IF ~S.auto THEN <<ErrV, Fail(S)>>
         ELSE LET b == CoerceBytes(v) IN
              IF BytesOOM(b) \/ Len(args) # 1 \/ args[1].t # "hash" \/ Len(args[1].pairs) # 1 THEN <<OOM, OomS(S)>>
              ELSE LET k == args[1].pairs[1][1]  w == CoerceBytes(args[1].pairs[1][2]) IN
                   IF k = <<>> \/ BytesOOM(w) THEN <<OOM, OomS(S)>> ELSE <<Str(ReplAll(b, k, w)), S>>
    [] name = "upper" ->
         IF ~S.auto THEN <<ErrV, Fail(S)>>
         ELSE LET b == CoerceBytes(v) IN
              IF BytesOOM(b) \/ \E i \in 1..Len(b) : b[i] > 127 THEN <<OOM, OomS(S)>> ELSE <<Str(AsciiUpper(b)), S>>
    [] name = "up"  -> LET b == CoerceBytes(v) IN
                       IF BytesOOM(b) THEN <<OOM, OomS(S1)>> ELSE <<Str(AsciiUpper(b)), S1>>
    (* a user filter that marks its input safe for html: a NEW value; the value it was derived from keeps its own types *)
    [] name = "mark" -> <<Safe(IF v.t = "safe" THEN v.v ELSE v, (IF v.t = "safe" THEN v.types ELSE {}) \cup {"html"}), S1>>
    [] name = "wrap" -> LET b == CoerceBytes(v)
                            w == IF args = <<>> THEN <<124>> ELSE CoerceBytes(args[1]) IN
                        IF BytesOOM(b) \/ BytesOOM(w) THEN <<OOM, OomS(S1)>> ELSE <<Str(w \o b \o w), S1>>
    [] OTHER -> <<ErrV, Fail(S)>>

TestKnown(name) == name \in {"odd", "even", "divisible by", "yes"}
CallTest(name, v, args, S) ==        \* <<"t"|"f"|"oom", S'>>
  LET S1 == Cb(S, "test", name, <<v>> \o args)
      n == CoerceNumber(v) IN
  CASE name = "yes" -> <<"t", S1>>
    [] name \in {"odd", "even"} ->
         IF IsOOM(n) \/ ~IsIntV(n) THEN <<"oom", S1>>
         ELSE <<IF ((n.q \div Scale) % 2 = 1) = (name = "odd") THEN "t" ELSE "f", S1>>
    [] name = "divisible by" ->
         LET d == IF args = <<>> THEN OOM ELSE CoerceNumber(args[1]) IN
         IF IsOOM(n) \/ ~IsIntV(n) \/ IsOOM(d) \/ ~IsIntV(d) \/ d.q = 0 THEN <<"oom", S1>>
         ELSE <<IF (n.q \div Scale) % Abs(d.q \div Scale) = 0 THEN "t" ELSE "f", S1>>

B3(x, S) == IF x = "oom" THEN <<OOM, OomS(S)>> ELSE <<Bool(x = "t"), S>>

BinOp(op, a, b, S) ==     \* both operands evaluated; <<value, S'>>
  LET na == CoerceNumber(a)  nb == CoerceNumber(b)
      numop == op \in {"+", "-", "*", "/", "//", "%", "**", "<", "<=", ">", ">=", "..", "b-and", "b-or", "b-xor"}
      sa == CoerceBytes(a)  sb == CoerceBytes(b)
  IN
  IF numop /\ (IsOOM(na) \/ IsOOM(nb)) THEN <<OOM, OomS(S)>>
  ELSE CASE op = "+" -> LET r == NAdd(na, nb) IN <<r, IF IsOOM(r) THEN OomS(S) ELSE S>>
    [] op = "-" -> LET r == NSub(na, nb) IN <<r, IF IsOOM(r) THEN OomS(S) ELSE S>>
    [] op = "*" -> LET r == NMul(na, nb) IN <<r, IF IsOOM(r) THEN OomS(S) ELSE S>>
    [] op = "/" -> IF nb.q = 0 THEN <<OOM, OomS(S)>>      \* division by zero: not determined
                   ELSE LET r == NDiv(na, nb) IN <<r, IF IsOOM(r) THEN OomS(S) ELSE S>>
    [] op = "//" -> IF nb.q = 0 THEN <<OOM, OomS(S)>>
                    ELSE LET r == NFloorDiv(na, nb) IN <<r, IF IsOOM(r) THEN OomS(S) ELSE S>>
    [] op = "%" -> IF Trunc(nb.q) = 0 THEN <<ErrV, Fail(S)>>        \* the operands are truncated to integers; modulo by zero is an error (in Twig too)
                   ELSE <<NMod(na, nb), S>>
    [] op = "**" -> LET r == NPow(na, nb) IN <<r, IF IsOOM(r) THEN OomS(S) ELSE S>>
    [] op = "<"  -> <<Bool(na.q < nb.q), S>>
    [] op = "<=" -> <<Bool(na.q <= nb.q), S>>
    [] op = ">"  -> <<Bool(na.q > nb.q), S>>
    [] op = ">=" -> <<Bool(na.q >= nb.q), S>>
    [] op = ".." -> IF ~IsIntV(na) \/ ~IsIntV(nb) \/ Abs(nb.q - na.q) > 64 * Scale THEN <<OOM, OomS(S)>>
                    ELSE IF nb.q >= na.q
                    THEN <<Arr([i \in 1..((nb.q - na.q) \div Scale + 1) |-> Num(na.q + (i - 1) * Scale)]), S>>
                    ELSE <<Arr([i \in 1..((na.q - nb.q) \div Scale + 1) |-> Num(na.q - (i - 1) * Scale)]), S>>   \* counts down
    [] op \in {"b-and", "b-or", "b-xor"} -> LET r == NBit(op, na, nb) IN <<r, IF IsOOM(r) THEN OomS(S) ELSE S>>
    [] op = "~" -> IF BytesOOM(sa) \/ BytesOOM(sb) THEN <<OOM, OomS(S)>> ELSE <<Str(sa \o sb), S>>
    [] op = "==" -> B3(Equal3(a, b), S)
    [] op = "!=" -> LET e == Equal3(a, b) IN B3(IF e = "oom" THEN "oom" ELSE IF e = "t" THEN "f" ELSE "t", S)
    [] op = "and" -> LET x == CoerceBool3(a)  y == CoerceBool3(b) IN
                     B3(IF x = "oom" \/ y = "oom" THEN "oom" ELSE IF x = "t" /\ y = "t" THEN "t" ELSE "f", S)
    [] op = "or" -> LET x == CoerceBool3(a)  y == CoerceBool3(b) IN
                    B3(IF x = "oom" \/ y = "oom" THEN "oom" ELSE IF x = "t" \/ y = "t" THEN "t" ELSE "f", S)
    [] op = "in" -> B3(Contains3(b, a), S)
    [] op = "not in" -> LET c == Contains3(b, a) IN B3(IF c = "oom" THEN "oom" ELSE IF c = "t" THEN "f" ELSE "t", S)
    [] op = "starts with" -> IF a.t # "str" \/ b.t # "str" THEN <<OOM, OomS(S)>> ELSE <<Bool(HasPrefixB(a.s, b.s)), S>>
    [] op = "ends with" -> IF a.t # "str" \/ b.t # "str" THEN <<OOM, OomS(S)>> ELSE <<Bool(HasSuffixB(a.s, b.s)), S>>
    [] op = "matches" ->    \* patterns restricted to ^literal, literal$, ^literal$, literal (alphanumeric literals)
         IF a.t # "str" \/ b.t # "str" THEN <<OOM, OomS(S)>>
         ELSE LET p == b.s
                  anchS == p # <<>> /\ p[1] = 94
                  p1 == IF anchS THEN Tail(p) ELSE p
                  anchE == p1 # <<>> /\ p1[Len(p1)] = 36
                  lit == IF anchE THEN SubSeq(p1, 1, Len(p1) - 1) ELSE p1
              IN IF \E i \in 1..Len(lit) : ~IsAlnumB(lit[i]) THEN <<OOM, OomS(S)>>
                 ELSE <<Bool(CASE anchS /\ anchE -> a.s = lit
                               [] anchS -> HasPrefixB(a.s, lit)
                               [] anchE -> HasSuffixB(a.s, lit)
                               [] OTHER -> \E i \in 1..(Len(a.s) - Len(lit) + 1) : SubSeq(a.s, i, i + Len(lit) - 1) = lit), S>>
    [] OTHER -> <<OOM, OomS(S)>>

(* attribute access on template values (maps with string keys, arrays); an attribute that
   does not exist is null inside a template (non-strict mode), only value.go's GetAttr reports it (C16) *)
GetAttrV(c, k, S) ==
  CASE c.t = "hash" -> IF k.t # "str" THEN <<OOM, OomS(S)>>     \* other key types: C16
                       ELSE LET g == HashGet(c, k.s) IN IF g[1] THEN <<g[2], S>> ELSE <<Null, S>>
    (* an index is a whole number or the decimal numeral of one; any other key finds nothing (value.go indexOf) *)
    [] c.t = "arr"  -> LET i == IF k.t = "num" /\ k.q % Scale = 0 THEN k.q \div Scale
                                ELSE IF k.t = "str" /\ k.s # <<>> /\ Len(k.s) <= 6 /\ (\A q \in 1..Len(k.s) : k.s[q] >= 48 /\ k.s[q] <= 57)
                                     THEN DigitsVal(k.s, 0)
                                ELSE 0 - 1 IN
                       IF k.t = "oom" THEN <<OOM, OomS(S)>>
                       ELSE IF i >= 0 /\ i < Len(c.els) THEN <<c.els[i + 1], S>> ELSE <<Null, S>>
    [] c.t \in {"null", "num", "str", "bool"} -> <<Null, S>>
    [] OTHER -> <<OOM, OomS(S)>>

EvalList(es, S) ==      \* left to right; <<values, S'>>
  IF es = <<>> \/ ~Ok(S) THEN <<<< >>, S>>
  ELSE LET r == Eval(Head(es), S) IN
       IF ~Ok(r[2]) THEN <<<< >>, r[2]>>
       ELSE LET rest == EvalList(Tail(es), r[2]) IN <<<<r[1]>> \o rest[1], rest[2]>>

EvalPairs(ps, S) ==     \* hash literal: key then value, pair by pair
  IF ps = <<>> \/ ~Ok(S) THEN <<<< >>, S>>
  ELSE LET kx == Head(ps)[1]
           kr == IF kx.k = "name" THEN <<Str(S2B(kx.n)), S>> ELSE Eval(kx, S) IN
       IF ~Ok(kr[2]) THEN <<<< >>, kr[2]>>
       ELSE LET vr == Eval(Head(ps)[2], kr[2]) IN
            IF ~Ok(vr[2]) THEN <<<< >>, vr[2]>>
            ELSE LET kb == CoerceBytes(kr[1]) IN
                 IF BytesOOM(kb) THEN <<<< >>, OomS(vr[2])>>
                 ELSE LET rest == EvalPairs(Tail(ps), vr[2]) IN <<<< <<kb, vr[1]>> >> \o rest[1], rest[2]>>

(* duplicate keys: the later value wins, position of the first (Go map assignment; order is unobservable
   for single-entry hashes, which is all the generators iterate over) *)
NormPairs(ps) == LET keep == {i \in 1..Len(ps) : \A j \in (i+1)..Len(ps) : ps[j][1] # ps[i][1]} IN
                 SelectSeq([i \in 1..Len(ps) |-> <<i, ps[i]>>], LAMBDA x : x[1] \in keep)

Eval(e, S) ==
  IF ~Ok(S) THEN <<ErrV, S>>
  ELSE CASE e.k = "null" -> <<Null, S>>
    [] e.k = "bool" -> <<Bool(e.b), S>>
    [] e.k = "num"  -> <<Num(e.q), S>>
    [] e.k = "str"  -> <<Str(e.s), S>>
    [] e.k = "name" -> IF e.n = "_self" THEN <<[t |-> "self"], S>>
                       ELSE IF Defined(S, e.n) THEN <<GetVar(S, e.n), S>>
                       ELSE <<Null, S>>      \* undefined variables are null (Twig's default, non-strict mode)
    [] e.k = "group" -> Eval(e.x, S)
    [] e.k = "un" ->
         LET r == Eval(e.x, S) IN
         IF ~Ok(r[2]) THEN r
         ELSE IF e.op = "not" THEN LET b == CoerceBool3(r[1]) IN
                                   B3(IF b = "oom" THEN "oom" ELSE IF b = "t" THEN "f" ELSE "t", r[2])
         ELSE LET n == CoerceNumber(r[1]) IN
              IF IsOOM(n) THEN <<OOM, OomS(r[2])>>
              ELSE IF e.op = "+" THEN <<n, r[2]>>
              ELSE LET m == NNeg(n) IN <<m, IF IsOOM(m) THEN OomS(r[2]) ELSE r[2]>>
    [] e.k = "bin" ->
         LET l == Eval(e.l, S) IN
         IF ~Ok(l[2]) THEN l
         ELSE LET r == Eval(e.r, l[2]) IN
              IF ~Ok(r[2]) THEN r ELSE BinOp(e.op, l[1], r[1], r[2])
    [] e.k = "interp" ->      \* "a#{x}b" is a ~ x ~ b, left to right
         LET r == EvalList(e.parts, S) IN
         IF ~Ok(r[2]) THEN <<ErrV, r[2]>>
         ELSE LET bs == [i \in 1..Len(r[1]) |-> CoerceBytes(r[1][i])] IN
              IF \E i \in 1..Len(bs) : BytesOOM(bs[i]) THEN <<OOM, OomS(r[2])>>
              ELSE LET RECURSIVE Cat(_)
                       Cat(q) == IF q = <<>> THEN <<>> ELSE Head(q) \o Cat(Tail(q))
                   IN <<Str(Cat(bs)), r[2]>>
    [] e.k = "arr" -> LET r == EvalList(e.els, S) IN IF ~Ok(r[2]) THEN <<ErrV, r[2]>> ELSE <<Arr(r[1]), r[2]>>
    [] e.k = "hash" -> LET r == EvalPairs(e.pairs, S) IN
                       IF ~Ok(r[2]) THEN <<ErrV, r[2]>>
                       ELSE LET np == NormPairs(r[1]) IN <<Hash([i \in 1..Len(np) |-> np[i][2]]), r[2]>>
    [] e.k = "tern" ->
         LET c == Eval(e.c, S) IN
         IF ~Ok(c[2]) THEN c
         ELSE LET b == CoerceBool3(c[1]) IN
              IF b = "oom" THEN <<OOM, OomS(c[2])>>
              ELSE IF b = "t" THEN Eval(e.t, c[2]) ELSE Eval(e.f, c[2])
    [] e.k = "test" ->      \* x is [not] name(args): x, then the arguments, then the test
         LET x == Eval(e.x, S) IN
         IF ~Ok(x[2]) THEN x
         ELSE IF ~TestKnown(e.name) THEN <<ErrV, Fail(x[2])>>
         ELSE LET a == EvalList(e.args, x[2]) IN
              IF ~Ok(a[2]) THEN <<ErrV, a[2]>>
              ELSE LET t == CallTest(e.name, x[1], a[1], a[2]) IN
                   B3(IF t[1] = "oom" THEN "oom" ELSE IF (t[1] = "t") # e.neg THEN "t" ELSE "f", t[2])
    [] e.k = "pipe" ->      \* x|name(args): piped value first, then the arguments
         IF ~FilterKnown(e.name) THEN <<ErrV, Fail(S)>>
         ELSE LET a == EvalList(<<e.x>> \o e.args, S) IN
              IF ~Ok(a[2]) THEN <<ErrV, a[2]>>
              ELSE CallFilter(e.name, a[1][1], Tail(a[1]), a[2])
    [] e.k = "attr" ->      \* container, key, arguments
         LET c == Eval(e.c, S) IN
         IF ~Ok(c[2]) THEN c
         ELSE LET kk == Eval(e.key, c[2]) IN
              IF ~Ok(kk[2]) THEN kk
              ELSE LET a == EvalList(e.args, kk[2]) IN
                   IF ~Ok(a[2]) THEN <<ErrV, a[2]>>
                   ELSE LET kb == CoerceBytes(kk[1])  S3 == a[2] IN
                        IF c[1].t = "self" THEN
                             IF BytesOOM(kb) \/ ~IsPrintable(kb) THEN <<OOM, OomS(S3)>>
                             ELSE IF B2S(kb) \in DOMAIN S3.lmacros THEN CallMacro(S3.lmacros[B2S(kb)], a[1], S3)
                             ELSE IF B2S(kb) \in {"templateName", "TemplateName"} THEN <<Str(S2B(S3.name)), S3>>
                             ELSE <<Null, S3>>
                        ELSE IF c[1].t = "macros" THEN
                             IF BytesOOM(kb) \/ ~IsPrintable(kb) THEN <<OOM, OomS(S3)>>
                             ELSE LET ms == MacrosIn(S3.tpls[c[1].tpl], c[1].tpl) IN
                                  IF B2S(kb) \in DOMAIN ms THEN CallMacro(ms[B2S(kb)], a[1], S3)
                                  ELSE <<ErrV, Fail(S3)>>
                        ELSE IF e.args # <<>> \/ e.call THEN <<OOM, OomS(S3)>>      \* method calls: C16
                        ELSE GetAttrV(c[1], kk[1], S3)
    [] e.k = "call" ->
         IF e.name = "parent" THEN
              IF S.cur.pos = 0 THEN <<ErrV, Fail(S)>>
              ELSE LET p == FirstDef(S, S.cur.name, S.cur.pos + 1) IN
                   IF p = 0 THEN <<ErrV, Fail(S)>>
                   ELSE LET S1 == RenderBlock(S.cur.name, p, PushOut(S)) IN
                        IF ~Ok(S1) THEN <<ErrV, S1>> ELSE <<Str(TopOut(S1)), PopOut(S1)>>
         ELSE IF e.name = "block" THEN
              IF Len(e.args) # 1 THEN <<ErrV, Fail(S)>>
              ELSE LET a == Eval(e.args[1], S) IN
                   IF ~Ok(a[2]) THEN a
                   ELSE LET nb == CoerceBytes(a[1]) IN
                        IF BytesOOM(nb) \/ ~IsPrintable(nb) THEN <<OOM, OomS(a[2])>>
                        ELSE LET p == FirstDef(a[2], B2S(nb), 1) IN
                             IF p = 0 THEN <<ErrV, Fail(a[2])>>
                             ELSE LET S1 == RenderBlock(B2S(nb), p, PushOut(a[2])) IN
                                  IF ~Ok(S1) THEN <<ErrV, S1>> ELSE <<Str(TopOut(S1)), PopOut(S1)>>
         (* an undeclared name fails before any argument is evaluated (exec.go evalFunction looks the name up first) *)
         ELSE IF e.name \notin DOMAIN S.macros /\ ~FuncKnown(e.name) THEN <<ErrV, Fail(S)>>
         ELSE LET a == EvalList(e.args, S) IN
              IF ~Ok(a[2]) THEN <<ErrV, a[2]>>
              ELSE IF e.name \in DOMAIN a[2].macros THEN CallMacro(a[2].macros[e.name], a[1], a[2])
              ELSE CallFunc(e.name, a[1], a[2])
    [] OTHER -> <<OOM, OomS(S)>>

(* render the definition of block bname found at chain position p, as walk does for a BlockNode *)
RenderBlock(bname, p, S) ==
  LET def == S.blocks[p][bname]
      S1 == [S EXCEPT !.cur = [name |-> bname, pos |-> p], !.name = def.origin]
      S2 == WalkSeq(def.body, S1)
  IN [S2 EXCEPT !.cur = S.cur, !.name = S.name]

CallMacro(def, args, S) ==      \* <<value, S'>>
  IF S.fuel = 0 THEN <<OOM, OomS(S)>>
  ELSE LET S1 == PushScope([S EXCEPT !.fuel = @ - 1])
           RECURSIVE BindP(_, _)
           BindP(i, T) == IF i > Len(def.params) THEN T
                          ELSE BindP(i + 1, SetLocal(T, def.params[i], IF i <= Len(args) THEN args[i] ELSE Null))
           S2 == PushOut(BindP(1, S1))
           S3 == WalkSeq(def.body, [S2 EXCEPT !.name = def.origin])
       IN IF ~Ok(S3) THEN <<ErrV, S3>>
          ELSE <<Str(TopOut(S3)), [PopScope(PopOut(S3)) EXCEPT !.name = S.name, !.fuel = S.fuel]>>

ApplyFilters(names, v, S) ==
  IF names = <<>> \/ ~Ok(S) THEN <<v, S>>
  ELSE IF ~FilterKnown(Head(names)) THEN <<ErrV, Fail(S)>>
  ELSE LET r == CallFilter(Head(names), v, <<>>, S) IN
       IF ~Ok(r[2]) THEN r
       ELSE LET b == CoerceBytes(r[1]) IN
            IF BytesOOM(b) THEN <<OOM, OomS(r[2])>> ELSE ApplyFilters(Tail(names), Str(b), r[2])

WalkSeq(stmts, S) == IF stmts = <<>> \/ ~Ok(S) THEN S ELSE WalkSeq(Tail(stmts), Walk(Head(stmts), S))

WalkIf(branches, els, S) ==
  IF branches = <<>> THEN WalkSeq(els, S)
  ELSE LET c == Eval(Head(branches).c, S) IN
       IF ~Ok(c[2]) THEN c[2]
       ELSE LET b == CoerceBool3(c[1]) IN
            IF b = "oom" THEN OomS(c[2])
            ELSE IF b = "t" THEN WalkSeq(Head(branches).body, c[2])
            ELSE WalkIf(Tail(branches), els, c[2])

(* one iteration per element, in sequence order *)
ForIter(n, items, i, S, parentInfo) ==
  IF i > Len(items) \/ ~Ok(S) THEN S
  ELSE LET S1 == PushScope(S)
           S2 == IF n.kn = "" THEN S1 ELSE SetLocal(S1, n.kn, items[i][1])
           S3 == SetLocal(S2, n.vn, items[i][2])
           S4 == SetLocal(S3, "loop", LoopRec(i, Len(items), parentInfo[1], parentInfo[2]))
           S5 == IF n.cond.k = "none" THEN WalkSeq(n.body, S4)
                 ELSE LET c == Eval(n.cond, S4) IN
                      IF ~Ok(c[2]) THEN c[2]
                      ELSE LET b == CoerceBool3(c[1]) IN
                           IF b = "oom" THEN OomS(c[2]) ELSE IF b = "t" THEN WalkSeq(n.body, c[2]) ELSE c[2]
       IN IF ~Ok(S5) THEN S5 ELSE ForIter(n, items, i + 1, PopScope(S5), parentInfo)

(* walkChild: of the top level of an extending template the use statements, the assignments (set, set-capture) and the imports
   (import, from) take effect, in order, before the parent is rendered; nothing else is executed *)
UseAll(stmts, S) ==
  IF stmts = <<>> \/ ~Ok(S) THEN S
  ELSE IF Head(stmts).k \in {"use", "set", "setcap", "import", "from"} THEN UseAll(Tail(stmts), Walk(Head(stmts), S))
  ELSE UseAll(Tail(stmts), S)
(* registerMacros: the macros written at the top level of a template are known before its body is walked (the later of two
   definitions in one template counts); a macro already known - from a more derived template - is not replaced *)
RECURSIVE OwnMacros(_, _, _)
OwnMacros(stmts, origin, acc) ==
  IF stmts = <<>> THEN acc
  ELSE OwnMacros(Tail(stmts), origin,
                 IF Head(stmts).k = "macro" THEN Bind(acc, Head(stmts).name, [params |-> Head(stmts).params, body |-> Head(stmts).body, origin |-> origin])
                 ELSE acc)
PreRegister(stmts, S) ==
  LET own == OwnMacros(stmts, S.name, EmptyScope) IN
  [S EXCEPT !.lmacros = [x \in (DOMAIN @) \cup (DOMAIN own) |-> IF x \in DOMAIN @ THEN @[x] ELSE own[x]]]

WalkModule(tpl, S00) ==
  LET stmts == S00.tpls[tpl]
      S == PreRegister(stmts, S00)
      px == ExtendsOf(stmts) IN
  IF px.k = "none" THEN WalkSeq(stmts, S)
  ELSE IF S.fuel = 0 THEN OomS(S)
  (* what the template assigns or imports above its extends tag takes effect first: the tag's expression may depend on it *)
  ELSE LET xi == CHOOSE i \in 1..Len(stmts) : stmts[i].k = "extends" /\ \A j \in 1..(i - 1) : stmts[j].k # "extends"
           early == SelectSeq(SubSeq(stmts, 1, xi - 1), LAMBDA st : st.k \in {"set", "setcap", "import", "from"})
           late == SelectSeq(SubSeq(stmts, 1, xi - 1), LAMBDA st : st.k \notin {"set", "setcap", "import", "from"}) \o SubSeq(stmts, xi + 1, Len(stmts))
           Se == UseAll(early, S)
           pv == Eval(px, Se) IN
       IF ~Ok(pv[2]) THEN pv[2]
       ELSE LET pb == CoerceBytes(pv[1]) IN
            IF BytesOOM(pb) THEN OomS(pv[2])
            ELSE LET ld == Load(pv[2], pb) IN
                 IF ~ld[1] THEN ld[3]
                 ELSE LET S1 == [ld[3] EXCEPT !.name = ld[2], !.fuel = @ - 1,
                                              !.blocks = Append(@, BlocksIn(S.tpls[ld[2]], ld[2]))]
                          S2 == UseAll(late, S1)
                          S3 == WalkModule(ld[2], S2)
                      IN [S3 EXCEPT !.name = S.name, !.fuel = S.fuel]

Walk(n, S) ==
  IF ~Ok(S) THEN S
  ELSE CASE n.k = "text" -> Write(S, n.d)
    [] n.k = "verbatim" -> Write(S, n.d)
    [] n.k = "comment" -> S
    [] n.k = "print" -> LET r == Eval(n.x, S) IN
                        IF ~Ok(r[2]) THEN r[2]
                        ELSE LET b == IF S.auto /\ ~DirectEscape(n.x) THEN AutoBytes(r[1], CtOfName(r[2].name)) ELSE CoerceBytes(r[1]) IN
                             IF BytesOOM(b) THEN OomS(r[2]) ELSE Write(r[2], b)
    [] n.k = "if" -> WalkIf(n.branches, n.els, S)
    [] n.k = "for" ->
         LET r == Eval(n.x, S) IN
         IF ~Ok(r[2]) THEN r[2]
         ELSE LET v == r[1] IN
              IF v.t = "oom" THEN OomS(r[2])
              ELSE IF ~IsIterable(v) THEN (IF v.t \in {"num", "str", "bool"} THEN Fail(r[2]) ELSE OomS(r[2]))
              ELSE LET items == CASE v.t = "arr" -> [i \in 1..Len(v.els) |-> <<IntV(i - 1), v.els[i]>>]
                                  [] v.t = "hash" -> [i \in 1..Len(v.pairs) |-> <<Str(v.pairs[i][1]), v.pairs[i][2]>>]
                                  [] OTHER -> <<>>
                       pinfo == IF Defined(r[2], "loop") THEN <<TRUE, GetVar(r[2], "loop")>> ELSE <<FALSE, Null>>
                   IN IF v.t = "hash" /\ Len(v.pairs) > 1 THEN OomS(r[2])     \* Go map order is not determined
                      ELSE IF items = <<>> THEN WalkSeq(n.els, r[2])
                      ELSE ForIter(n, items, 1, r[2], pinfo)
    [] n.k = "set" -> LET r == Eval(n.x, S) IN IF ~Ok(r[2]) THEN r[2] ELSE SetVar(r[2], n.name, r[1])
    [] n.k = "setcap" -> LET S1 == WalkSeq(n.body, PushOut(S)) IN
                         IF ~Ok(S1) THEN S1 ELSE SetVar(PopOut(S1), n.name, Str(TopOut(S1)))
    [] n.k = "do" -> Eval(n.x, S)[2]
    [] n.k = "filter" -> LET S1 == WalkSeq(n.body, PushOut(S)) IN
                         IF ~Ok(S1) THEN S1
                         ELSE LET r == ApplyFilters(n.names, Str(TopOut(S1)), PopOut(S1)) IN
                              IF ~Ok(r[2]) THEN r[2] ELSE Write(r[2], r[1].s)
    [] n.k = "block" -> LET p == FirstDef(S, n.name, 1) IN
                        IF p = 0 THEN Fail(S) ELSE RenderBlock(n.name, p, S)
    [] n.k = "macro" -> IF n.name \in DOMAIN S.lmacros THEN S
                        ELSE [S EXCEPT !.lmacros = Bind(@, n.name, [params |-> n.params, body |-> n.body, origin |-> S.name])]
    [] n.k = "extends" -> S
    [] n.k = "use" ->
         LET r == Eval(n.x, S) IN
         IF ~Ok(r[2]) THEN r[2]
         ELSE LET nb == CoerceBytes(r[1]) IN
              IF BytesOOM(nb) THEN OomS(r[2])
              ELSE LET ld == Load(r[2], nb) IN
                   IF ~ld[1] THEN ld[3]
                   ELSE LET own == BlocksIn(S.tpls[ld[2]], ld[2])
                            missing == \E i \in 1..Len(n.aliases) : n.aliases[i][1] \notin DOMAIN own
                            RECURSIVE Al(_, _)
                            Al(i, t) == IF i > Len(n.aliases) THEN t
                                        ELSE Al(i + 1, Bind(t, n.aliases[i][2], own[n.aliases[i][1]]))
                            tbl == Al(1, own)
                            L == Len(ld[3].blocks)
                            (* the imported blocks may call the used template's own macros through _self *)
                            um == OwnMacros(S.tpls[ld[2]], ld[2], EmptyScope)
                        IN IF missing THEN Fail(ld[3])
                           ELSE [ld[3] EXCEPT !.blocks = SubSeq(@, 1, L - 1) \o <<tbl>> \o <<@[L]>>,
                                              !.lmacros = [x \in (DOMAIN @) \cup (DOMAIN um) |-> IF x \in DOMAIN @ THEN @[x] ELSE um[x]]]
    [] n.k = "import" ->
         LET r == Eval(n.x, S) IN
         IF ~Ok(r[2]) THEN r[2]
         ELSE LET nb == CoerceBytes(r[1]) IN
              IF BytesOOM(nb) THEN OomS(r[2])
              ELSE LET ld == Load(r[2], nb) IN
                   IF ~ld[1] THEN ld[3] ELSE SetVar(ld[3], n.alias, MacroSet(ld[2]))
    [] n.k = "from" ->
         LET r == Eval(n.x, S) IN
         IF ~Ok(r[2]) THEN r[2]
         ELSE LET nb == CoerceBytes(r[1]) IN
              IF BytesOOM(nb) THEN OomS(r[2])
              ELSE LET ld == Load(r[2], nb) IN
                   IF ~ld[1] THEN ld[3]
                   ELSE LET ms == MacrosIn(S.tpls[ld[2]], ld[2]) IN
                        IF \E i \in 1..Len(n.imports) : n.imports[i][1] \notin DOMAIN ms THEN Fail(ld[3])
                        ELSE LET RECURSIVE Im(_, _)
                                 Im(i, t) == IF i > Len(n.imports) THEN t
                                             ELSE Im(i + 1, Bind(t, n.imports[i][2], ms[n.imports[i][1]]))
                             IN [ld[3] EXCEPT !.macros = Im(1, @)]
    [] n.k \in {"include", "embed"} ->
         LET r == Eval(n.x, S) IN
         IF ~Ok(r[2]) THEN r[2]
         ELSE LET w == IF n.with.k = "none" THEN <<Null, r[2]>> ELSE Eval(n.with, r[2]) IN
              IF ~Ok(w[2]) THEN w[2]
              ELSE LET nb == CoerceBytes(r[1]) IN
                   IF BytesOOM(nb) THEN OomS(w[2])
                   ELSE IF n.with.k # "none" /\ w[1].t # "hash" THEN OomS(w[2])    \* other `with` values: not claimed
                   ELSE IF S.fuel = 0 THEN OomS(w[2])
                   ELSE LET base == IF n.only THEN EmptyScope ELSE Flatten(w[2])
                            RECURSIVE Wi(_, _)
                            Wi(i, f) == IF i > Len(w[1].pairs) THEN f
                                        ELSE IF ~IsPrintable(w[1].pairs[i][1]) THEN f
                                        ELSE Wi(i + 1, Bind(f, B2S(w[1].pairs[i][1]), w[1].pairs[i][2]))
                            ctx == IF n.with.k = "none" THEN base ELSE Wi(1, base)
                            ld == Load(w[2], nb)
                        IN IF ~ld[1] THEN ld[3]
                           ELSE LET F0 == FreshState([ld[3] EXCEPT !.fuel = @ - 1], ld[2], ctx)
                                    F1 == IF n.k = "embed"
                                          (* the overrides are all blocks of the embed body, nested ones included *)
                                          THEN LET ov == BlocksIn([i \in 1..Len(n.blocks) |->
                                                                    [k |-> "block", name |-> n.blocks[i].name, body |-> n.blocks[i].body]], S.name)
                                               IN [F0 EXCEPT !.blocks = <<ov>> \o @]
                                          ELSE F0
                                    F2 == WalkModule(ld[2], F1)
                                IN Rejoin(ld[3], F2)
    [] OTHER -> OomS(S)

--------------------------------------------------------------------------
(* Entry point: Env.Execute(entry, writer, ctx)                            *)
InitState(tpls, ctx, fuel) ==
  [tpls |-> tpls, outs |-> << <<>> >>, scopes |-> <<ctx>>, blocks |-> <<>>, cur |-> NoCur, name |-> "",
   macros |-> EmptyScope, lmacros |-> EmptyScope, status |-> "ok", log |-> <<>>, fuel |-> fuel, auto |-> FALSE]

Execute(tpls, entry, ctx) ==
  LET S0 == InitState(tpls, ctx, 6)
      ld == Load(S0, S2B(entry)) IN
  IF ~ld[1] THEN ld[3]
  ELSE WalkModule(entry, FreshState(ld[3], entry, ctx))

(* Env created by twig.New: auto-escaping on *)
ExecuteTwig(tpls, entry, ctx) ==
  LET S0 == [InitState(tpls, ctx, 6) EXCEPT !.auto = TRUE]
      ld == Load(S0, S2B(entry)) IN
  IF ~ld[1] THEN ld[3]
  ELSE WalkModule(entry, FreshState(ld[3], entry, ctx))

MainOut(S) == S.outs[1]
Public(log) == SelectSeq(log, LAMBDA ev : ev.e \in {"w", "load", "cb", "probe"})
=============================================================================
