------------------------------- MODULE Bytes -------------------------------
(* Byte sequences (Seq(0..255)) and the character classes used by stick's  *)
(* tokeniser and escapers.  Template source, token values and output are   *)
(* byte sequences in the specification because the implementation indexes  *)
(* bytes (parse/lex.go) and the properties C03/C13/C20 speak about bytes.  *)
EXTENDS Integers, Sequences

Byte == 0..255

IsDigitB(b)  == b >= 48 /\ b <= 57
IsUpperB(b)  == b >= 65 /\ b <= 90
IsLowerB(b)  == b >= 97 /\ b <= 122
IsAlphaB(b)  == IsUpperB(b) \/ IsLowerB(b)
IsAlnumB(b)  == IsAlphaB(b) \/ IsDigitB(b)
IsHexB(b)    == IsDigitB(b) \/ (b >= 65 /\ b <= 70) \/ (b >= 97 /\ b <= 102)

HexVal(b) == IF IsDigitB(b) THEN b - 48
             ELSE IF b >= 65 /\ b <= 70 THEN b - 55
             ELSE b - 87

HexDigitU(n) == IF n < 10 THEN 48 + n ELSE 55 + n      \* upper-case hex digit

RECURSIVE HexU(_)
HexU(n) == IF n < 16 THEN <<HexDigitU(n)>> ELSE HexU(n \div 16) \o <<HexDigitU(n % 16)>>

RECURSIVE PadLeft(_, _, _)
PadLeft(s, w, b) == IF Len(s) >= w THEN s ELSE PadLeft(<<b>> \o s, w, b)

HexUPad(n, w) == PadLeft(HexU(n), w, 48)

RECURSIVE DecB(_)
DecB(n) == IF n < 10 THEN <<48 + n>> ELSE DecB(n \div 10) \o <<48 + (n % 10)>>

(* UTF-8 *)
IsSurrogate(c) == c >= 55296 /\ c <= 57343
Utf8(c) ==
  IF c < 128 THEN <<c>>
  ELSE IF c < 2048 THEN <<192 + (c \div 64), 128 + (c % 64)>>
  ELSE IF c < 65536 THEN <<224 + (c \div 4096), 128 + ((c \div 64) % 64), 128 + (c % 64)>>
  ELSE <<240 + (c \div 262144), 128 + ((c \div 4096) % 64), 128 + ((c \div 64) % 64), 128 + (c % 64)>>

RECURSIVE Utf8Seq(_)
Utf8Seq(cs) == IF cs = <<>> THEN <<>> ELSE Utf8(Head(cs)) \o Utf8Seq(Tail(cs))

(* Decoding of valid UTF-8 starting at index i: <<code point, length>>.     *)
(* Anything malformed decodes to <<65533, 1>> as Go's range loop does.      *)
Cont(s, i) == i <= Len(s) /\ s[i] >= 128 /\ s[i] <= 191
DecodeRune(s, i) ==
  LET b == s[i] IN
  IF b < 128 THEN <<b, 1>>
  ELSE IF b >= 194 /\ b <= 223 /\ Cont(s, i+1) THEN <<(b - 192) * 64 + (s[i+1] - 128), 2>>
  ELSE IF b >= 224 /\ b <= 239 /\ Cont(s, i+1) /\ Cont(s, i+2) THEN
       LET c == (b - 224) * 4096 + (s[i+1] - 128) * 64 + (s[i+2] - 128) IN
       IF c < 2048 \/ IsSurrogate(c) THEN <<65533, 1>> ELSE <<c, 3>>
  ELSE IF b >= 240 /\ b <= 244 /\ Cont(s, i+1) /\ Cont(s, i+2) /\ Cont(s, i+3) THEN
       LET c == (b - 240) * 262144 + (s[i+1] - 128) * 4096 + (s[i+2] - 128) * 64 + (s[i+3] - 128) IN
       IF c < 65536 \/ c > 1114111 THEN <<65533, 1>> ELSE <<c, 4>>
  ELSE <<65533, 1>>

RECURSIVE RunesFrom(_, _)
RunesFrom(s, i) == IF i > Len(s) THEN <<>>
                   ELSE LET r == DecodeRune(s, i) IN <<r[1]>> \o RunesFrom(s, i + r[2])
Runes(s) == RunesFrom(s, 1)

HasPrefixAt(s, i, p) == i + Len(p) - 1 <= Len(s) /\ SubSeq(s, i, i + Len(p) - 1) = p

RECURSIVE CountB(_, _)
CountB(s, b) == IF s = <<>> THEN 0 ELSE (IF Head(s) = b THEN 1 ELSE 0) + CountB(Tail(s), b)
=============================================================================
