------------------------------- MODULE Bytes -------------------------------
(* Byte sequences (Seq(0..255)) and the character classes used by stick's  *)
(* tokeniser and escapers.  Template source, token values and output are   *)
(* byte sequences in the specification because the implementation indexes  *)
(* bytes (parse/lex.go) and the properties C03/C13/C20 speak about bytes.  *)
EXTENDS Integers, Sequences, TLC

Byte == 0..255

IsDigitB(b)  == b >= 48 /\ b <= 57
IsUpperB(b)  == b >= 65 /\ b <= 90
IsLowerB(b)  == b >= 97 /\ b <= 122
IsAlphaB(b)  == IsUpperB(b) \/ IsLowerB(b)
IsAlnumB(b)  == IsAlphaB(b) \/ IsDigitB(b)
IsHexB(b)    == IsDigitB(b) \/ (b >= 65 /\ b <= 70) \/ (b >= 97 /\ b <= 102)

HexVal(b) == IF IsDigitB(b) THEN b - 48
             ELSE IF b >= 65 /\ b <= 70 THEN b - 55
             ELSE b - 87

HexDigitU(n) == IF n < 10 THEN 48 + n ELSE 55 + n      \* upper-case hex digit

RECURSIVE HexU(_)
HexU(n) == IF n < 16 THEN <<HexDigitU(n)>> ELSE HexU(n \div 16) \o <<HexDigitU(n % 16)>>

RECURSIVE PadLeft(_, _, _)
PadLeft(s, w, b) == IF Len(s) >= w THEN s ELSE PadLeft(<<b>> \o s, w, b)

HexUPad(n, w) == PadLeft(HexU(n), w, 48)

RECURSIVE DecB(_)
DecB(n) == IF n < 10 THEN <<48 + n>> ELSE DecB(n \div 10) \o <<48 + (n % 10)>>

(* UTF-8 *)
IsSurrogate(c) == c >= 55296 /\ c <= 57343
Utf8(c) ==
  IF c < 128 THEN <<c>>
  ELSE IF c < 2048 THEN <<192 + (c \div 64), 128 + (c % 64)>>
  ELSE IF c < 65536 THEN <<224 + (c \div 4096), 128 + ((c \div 64) % 64), 128 + (c % 64)>>
  ELSE <<240 + (c \div 262144), 128 + ((c \div 4096) % 64), 128 + ((c \div 64) % 64), 128 + (c % 64)>>

RECURSIVE Utf8Seq(_)
Utf8Seq(cs) == IF cs = <<>> THEN <<>> ELSE Utf8(Head(cs)) \o Utf8Seq(Tail(cs))

(* Decoding of valid UTF-8 starting at index i: <<code point, length>>.     *)
(* Anything malformed decodes to <<65533, 1>> as Go's range loop does.      *)
Cont(s, i) == i <= Len(s) /\ s[i] >= 128 /\ s[i] <= 191
DecodeRune(s, i) ==
  LET b == s[i] IN
  IF b < 128 THEN <<b, 1>>
  ELSE IF b >= 194 /\ b <= 223 /\ Cont(s, i+1) THEN <<(b - 192) * 64 + (s[i+1] - 128), 2>>
  ELSE IF b >= 224 /\ b <= 239 /\ Cont(s, i+1) /\ Cont(s, i+2) THEN
       LET c == (b - 224) * 4096 + (s[i+1] - 128) * 64 + (s[i+2] - 128) IN
       IF c < 2048 \/ IsSurrogate(c) THEN <<65533, 1>> ELSE <<c, 3>>
  ELSE IF b >= 240 /\ b <= 244 /\ Cont(s, i+1) /\ Cont(s, i+2) /\ Cont(s, i+3) THEN
       LET c == (b - 240) * 262144 + (s[i+1] - 128) * 4096 + (s[i+2] - 128) * 64 + (s[i+3] - 128) IN
       IF c < 65536 \/ c > 1114111 THEN <<65533, 1>> ELSE <<c, 4>>
  ELSE <<65533, 1>>

RECURSIVE RunesFrom(_, _)
RunesFrom(s, i) == IF i > Len(s) THEN <<>>
                   ELSE LET r == DecodeRune(s, i) IN <<r[1]>> \o RunesFrom(s, i + r[2])
Runes(s) == RunesFrom(s, 1)

HasPrefixAt(s, i, p) == i + Len(p) - 1 <= Len(s) /\ SubSeq(s, i, i + Len(p) - 1) = p

RECURSIVE CountB(_, _)
CountB(s, b) == IF s = <<>> THEN 0 ELSE (IF Head(s) = b THEN 1 ELSE 0) + CountB(Tail(s), b)

(* printable ASCII <-> TLA+ strings (names of templates, variables, blocks are TLA+ strings) *)
CharCode == (" " :> 32) @@ ("!" :> 33) @@ ("\"" :> 34) @@ ("#" :> 35) @@ ("$" :> 36) @@ ("%" :> 37) @@ ("&" :> 38) @@ ("'" :> 39) @@ ("(" :> 40) @@ (")" :> 41) @@ ("*" :> 42) @@ ("+" :> 43) @@ ("," :> 44) @@ ("-" :> 45) @@ ("." :> 46) @@ ("/" :> 47) @@ ("0" :> 48) @@ ("1" :> 49) @@ ("2" :> 50) @@ ("3" :> 51) @@ ("4" :> 52) @@ ("5" :> 53) @@ ("6" :> 54) @@ ("7" :> 55) @@ ("8" :> 56) @@ ("9" :> 57) @@ (":" :> 58) @@ (";" :> 59) @@ ("<" :> 60) @@ ("=" :> 61) @@ (">" :> 62) @@ ("?" :> 63) @@ ("@" :> 64) @@ ("A" :> 65) @@ ("B" :> 66) @@ ("C" :> 67) @@ ("D" :> 68) @@ ("E" :> 69) @@ ("F" :> 70) @@ ("G" :> 71) @@ ("H" :> 72) @@ ("I" :> 73) @@ ("J" :> 74) @@ ("K" :> 75) @@ ("L" :> 76) @@ ("M" :> 77) @@ ("N" :> 78) @@ ("O" :> 79) @@ ("P" :> 80) @@ ("Q" :> 81) @@ ("R" :> 82) @@ ("S" :> 83) @@ ("T" :> 84) @@ ("U" :> 85) @@ ("V" :> 86) @@ ("W" :> 87) @@ ("X" :> 88) @@ ("Y" :> 89) @@ ("Z" :> 90) @@ ("[" :> 91) @@ ("\\" :> 92) @@ ("]" :> 93) @@ ("^" :> 94) @@ ("_" :> 95) @@ ("`" :> 96) @@ ("a" :> 97) @@ ("b" :> 98) @@ ("c" :> 99) @@ ("d" :> 100) @@ ("e" :> 101) @@ ("f" :> 102) @@ ("g" :> 103) @@ ("h" :> 104) @@ ("i" :> 105) @@ ("j" :> 106) @@ ("k" :> 107) @@ ("l" :> 108) @@ ("m" :> 109) @@ ("n" :> 110) @@ ("o" :> 111) @@ ("p" :> 112) @@ ("q" :> 113) @@ ("r" :> 114) @@ ("s" :> 115) @@ ("t" :> 116) @@ ("u" :> 117) @@ ("v" :> 118) @@ ("w" :> 119) @@ ("x" :> 120) @@ ("y" :> 121) @@ ("z" :> 122) @@ ("{" :> 123) @@ ("|" :> 124) @@ ("}" :> 125) @@ ("~" :> 126)
CodeChar == (32 :> " ") @@ (33 :> "!") @@ (34 :> "\"") @@ (35 :> "#") @@ (36 :> "$") @@ (37 :> "%") @@ (38 :> "&") @@ (39 :> "'") @@ (40 :> "(") @@ (41 :> ")") @@ (42 :> "*") @@ (43 :> "+") @@ (44 :> ",") @@ (45 :> "-") @@ (46 :> ".") @@ (47 :> "/") @@ (48 :> "0") @@ (49 :> "1") @@ (50 :> "2") @@ (51 :> "3") @@ (52 :> "4") @@ (53 :> "5") @@ (54 :> "6") @@ (55 :> "7") @@ (56 :> "8") @@ (57 :> "9") @@ (58 :> ":") @@ (59 :> ";") @@ (60 :> "<") @@ (61 :> "=") @@ (62 :> ">") @@ (63 :> "?") @@ (64 :> "@") @@ (65 :> "A") @@ (66 :> "B") @@ (67 :> "C") @@ (68 :> "D") @@ (69 :> "E") @@ (70 :> "F") @@ (71 :> "G") @@ (72 :> "H") @@ (73 :> "I") @@ (74 :> "J") @@ (75 :> "K") @@ (76 :> "L") @@ (77 :> "M") @@ (78 :> "N") @@ (79 :> "O") @@ (80 :> "P") @@ (81 :> "Q") @@ (82 :> "R") @@ (83 :> "S") @@ (84 :> "T") @@ (85 :> "U") @@ (86 :> "V") @@ (87 :> "W") @@ (88 :> "X") @@ (89 :> "Y") @@ (90 :> "Z") @@ (91 :> "[") @@ (92 :> "\\") @@ (93 :> "]") @@ (94 :> "^") @@ (95 :> "_") @@ (96 :> "`") @@ (97 :> "a") @@ (98 :> "b") @@ (99 :> "c") @@ (100 :> "d") @@ (101 :> "e") @@ (102 :> "f") @@ (103 :> "g") @@ (104 :> "h") @@ (105 :> "i") @@ (106 :> "j") @@ (107 :> "k") @@ (108 :> "l") @@ (109 :> "m") @@ (110 :> "n") @@ (111 :> "o") @@ (112 :> "p") @@ (113 :> "q") @@ (114 :> "r") @@ (115 :> "s") @@ (116 :> "t") @@ (117 :> "u") @@ (118 :> "v") @@ (119 :> "w") @@ (120 :> "x") @@ (121 :> "y") @@ (122 :> "z") @@ (123 :> "{") @@ (124 :> "|") @@ (125 :> "}") @@ (126 :> "~")
S2B(str) == [i \in 1..Len(str) |-> CharCode[SubSeq(str, i, i)]]
RECURSIVE B2S(_)
B2S(bs) == IF bs = <<>> THEN "" ELSE CodeChar[Head(bs)] \o B2S(Tail(bs))
IsPrintable(bs) == \A i \in 1..Len(bs) : bs[i] >= 32 /\ bs[i] <= 126
=============================================================================
