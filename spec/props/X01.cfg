INIT Init
NEXT Next
INVARIANTS Out Laws
