------------------------------ MODULE C04_Trace ------------------------------
(* Binding T for C04: seeded random operator chains (2..8 operands, every     *)
(* binary operator of the table, prefix operators stacked before any operand, *)
(* postfix tests, parenthesised sub-chains) are rendered by the real parser   *)
(* and executor; this acceptor parses the recorded token list with the        *)
(* reference precedence-climbing parser (Syntax!ParseTokens), evaluates the   *)
(* tree with the reference executor and rejects the run when the rendered     *)
(* value differs.  A chain whose value leaves the model (OOM) is accepted.    *)
EXTENDS Vec, Syntax, IOUtils
Trace == ndJsonDeserialize(IOEnv.TRACE_FILE)
VARIABLE v_l
ASSUME TLCSet(1, 0)

Why(ev) ==
  LET tree == ParseTokens(ev.toks)
      r == Eval(tree, InitState(<<>>, EmptyScope, 6))
      st == r[2].status
      outb == IF st = "ok" THEN CoerceBytes(r[1]) ELSE <<>>
  IN IF st = "oom" \/ (st = "ok" /\ BytesOOM(outb)) THEN "oom"
     ELSE IF ~Valid(tree) THEN "reference-tree-not-valid"
     ELSE IF (st = "ok") # ev.ok THEN "status-differs"
     ELSE IF st = "ok" /\ outb # ev.out THEN "grouping-differs"
     ELSE ""
Init == v_l = 1
Next == /\ v_l <= Len(Trace)
        /\ LET w == Why(Trace[v_l]) IN
           IF w = "" THEN TRUE ELSE IF w = "oom" THEN PrintT(ToJson([stat |-> "oom"])) ELSE PrintT(ToJson([rej |-> v_l, why |-> w]))
        /\ v_l' = v_l + 1
HighWater == TLCSet(1, IF v_l > TLCGet(1) THEN v_l ELSE TLCGet(1))
Consumed == TLCGet(1) = Len(Trace) + 1
=============================================================================
