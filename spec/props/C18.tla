--------------------------------- MODULE C18 ---------------------------------
(* C18 A configured environment can be used concurrently.                     *)
(* N callers run Execute/Parse on one Twig environment.  A call is a sequence *)
(* of steps over the state shared through the Env: the auto-escape visitor's  *)
(* content-type stack.                                                        *)
(*   Load; VisitEnter(module) - push the template's type; VisitPrint - read   *)
(*   the top of the stack as the type of the print (one per print of the      *)
(*   template); VisitLeave(module) - pop; Run (per-call state only); Return   *)
(* Locked = TRUE  models the traversal holding the visitor's lock from        *)
(*                entering the module to leaving it (the code as repaired)    *)
(* Locked = FALSE is Defect_SharedVisitorStack.                               *)
(* OwnContentType: the type a print reads is the type of its own template.   *)
(* ResultAsAlone: what a call returns depends only on its own template.       *)
EXTENDS Naturals, Sequences, FiniteSets, TLC

CONSTANTS Callers, Locked, NPrints
VARIABLES pc, stack, lock, seen, tplOf
vars == <<pc, stack, lock, seen, tplOf>>
Types == {"html", "js"}

Init == /\ pc = [c \in Callers |-> "load"] /\ stack = <<>> /\ lock = 0
        /\ seen = [c \in Callers |-> <<>>]
        /\ tplOf \in [Callers -> Types]

Load(c) == pc[c] = "load" /\ pc' = [pc EXCEPT ![c] = "enter"] /\ UNCHANGED <<stack, lock, seen, tplOf>>
Enter(c) == /\ pc[c] = "enter" /\ (~Locked \/ lock = 0)
            /\ lock' = IF Locked THEN c ELSE lock
            /\ stack' = Append(stack, tplOf[c])
            /\ pc' = [pc EXCEPT ![c] = "print"] /\ UNCHANGED <<seen, tplOf>>
(* a print reads the current type; with an empty stack the code reads "" *)
VisitPrint(c) == /\ pc[c] = "print"
            /\ seen' = [seen EXCEPT ![c] = Append(@, IF stack = <<>> THEN "" ELSE stack[Len(stack)])]
            /\ pc' = [pc EXCEPT ![c] = IF Len(seen[c]) + 1 >= NPrints THEN "leave" ELSE "print"]
            /\ UNCHANGED <<stack, lock, tplOf>>
Leave(c) == /\ pc[c] = "leave"
            /\ stack' = IF stack = <<>> THEN <<>> ELSE SubSeq(stack, 1, Len(stack) - 1)
            /\ lock' = IF Locked THEN 0 ELSE lock
            /\ pc' = [pc EXCEPT ![c] = "run"] /\ UNCHANGED <<seen, tplOf>>
Run(c) == pc[c] = "run" /\ pc' = [pc EXCEPT ![c] = "done"] /\ UNCHANGED <<stack, lock, seen, tplOf>>
AllDone == (\A c \in Callers : pc[c] = "done") /\ UNCHANGED vars
Next == (\E c \in Callers : Load(c) \/ Enter(c) \/ VisitPrint(c) \/ Leave(c) \/ Run(c)) \/ AllDone
Spec == Init /\ [][Next]_vars /\ WF_vars(Next)

OwnContentType == \A c \in Callers : \A q \in 1..Len(seen[c]) : seen[c][q] = tplOf[c]
(* the result of a call (the types its prints were escaped for) is what it is when run alone *)
ResultAsAlone == \A c \in Callers : pc[c] = "done" => seen[c] = [q \in 1..NPrints |-> tplOf[c]]
(* the shared stack is only touched by the caller that holds the lock *)
NoSharedMutation == Locked => (\A c \in Callers : pc[c] \in {"print", "leave"} => lock = c)
EveryCallReturns == <>(\A c \in Callers : pc[c] = "done")
=============================================================================
