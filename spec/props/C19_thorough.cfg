CONSTANTS MaxHist = 3
  Stride3 = 7
  CloseFiles = TRUE
  Drain = TRUE
SPECIFICATION Spec
INVARIANTS NoFileBetweenCalls Emit19
PROPERTIES ReturnedLeadsToClean
