CONSTANTS
  MaxToks = 4
  CloseOnError = TRUE
  Drain = FALSE
SPECIFICATION Spec
INVARIANTS TypeOK OrderOK
PROPERTIES LexerExits ParserNeverStuck
