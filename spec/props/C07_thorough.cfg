CONSTANTS Deep = TRUE
INIT Init
NEXT Next
INVARIANTS Out ChildSetVisible FrameRule FreshNamesUndefinedAfter TemplateSetPersists OuterSetUpdates LocalsShadow
