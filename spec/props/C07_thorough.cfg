CONSTANTS Deep = TRUE
INIT Init
NEXT Next
INVARIANTS Out FrameRule FreshNamesUndefinedAfter TemplateSetPersists OuterSetUpdates LocalsShadow
