------------------------------- MODULE C05_Gen -------------------------------
(* Binding G for C05: expression trees over all operators and the operand    *)
(* window, with the value and the callback log the specification defines.    *)
(* Case i of the family is decoded from its index (mixed radix), so that a   *)
(* tier can take a reproducible stride of the depth-2 part.                  *)
EXTENDS Vec, SequencesExt, IOUtils

CONSTANTS Stride       \* take every Stride-th depth-2 case
VARIABLES v_lvl, v_idx

Offset == SeedMod(Stride)

Ctx == ("x" :> IntV(5)) @@ ("s" :> Str(S2B("ab"))) @@ ("arr" :> Arr(<<IntV(1), IntV(2), IntV(3)>>))
       @@ ("h" :> Hash(<< <<S2B("k"), IntV(2)>> >>)) @@ ("n" :> Null) @@ ("t" :> Bool(TRUE))

Neg(n) == Grp(Un("-", NumE(n)))
Leaves == << IntE(0), IntE(1), IntE(2), IntE(3), IntE(7), NumE(32), NumE(96), NumE(144), Neg(64), Neg(3 * 64), Neg(32),
             StrE(""), StrE("a"), StrE("ab"), StrE("1"), StrE("1.5"), StrE("b"),
             BoolE(TRUE), BoolE(FALSE), NullE,
             NameE("x"), NameE("s"), NameE("arr"), NameE("h"), NameE("n"),
             ArrE(<<IntE(1), StrE("a")>>), ArrE(<<>>), HashE(<< <<NameE("a"), IntE(1)>> >>) >>
NL == Len(Leaves)

BinOps == << "+", "-", "*", "/", "//", "%", "**", "~", "==", "!=", "<", "<=", ">", ">=", "and", "or",
             "in", "not in", "starts with", "ends with", "matches", "..", "b-and", "b-or", "b-xor" >>
NB == Len(BinOps)

Id(x) == CallE("id", <<x>>)
(* other depth-1 forms over a leaf a (and b) *)
Misc(a, b) == <<
  Un("-", a), Un("+", a), Un("not", a),
  Tern(a, b, IntE(9)), Tern(Id(a), Id(b), Id(IntE(9))), Tern(a, IntE(8), Tern(b, Id(IntE(7)), IntE(9))), Tern(Id(a), Tern(b, a, IntE(7)), IntE(9)),
  TestE(a, FALSE, "odd", <<>>), TestE(a, TRUE, "even", <<>>), TestE(a, FALSE, "divisible by", <<b>>),
  TestE(Id(a), TRUE, "divisible by", <<Id(b)>>), TestE(a, FALSE, "yes", <<b, a>>),
  AttrBr(NameE("arr"), a), AttrBr(NameE("h"), a), AttrDot(NameE("h"), "k"), AttrDot(NameE("arr"), "1"),
  AttrBr(ArrE(<<a, b>>), IntE(1)), AttrDot(HashE(<< <<NameE("k"), a>>, <<StrE("j"), b>> >>), "j"),
  AttrBr(HashE(<< <<a, b>> >>), a),
  (* a key in parentheses is an expression even when it is a bare name: {(x): b} has the VALUE of x as its key *)
  AttrBr(HashE(<< <<Grp(a), b>> >>), a), Id(HashE(<< <<Grp(a), IntE(1)>> >>)), AttrDot(HashE(<< <<Grp(NameE("s")), a>>, <<NameE("s"), b>> >>), "ab"),
  Id(a), CallE("id", <<Id(a), Id(b)>>), CallE("nul", <<a, b>>),
  Pipe(a, "rec", <<>>), Pipe(a, "rec", <<b>>), Pipe(Id(a), "rec", <<Id(b), Id(a)>>), Pipe(a, "up", <<>>), Pipe(a, "wrap", <<b>>),
  Pipe(Pipe(a, "up", <<>>), "wrap", <<StrE("*")>>),
  Interp(<<StrE("p"), a, StrE("-"), b>>), Interp(<<Id(a), StrE(" "), Id(b)>>), Interp(<<a>>),
  ArrE(<<Id(a), Id(b)>>), HashE(<< <<NameE("u"), Id(a)>>, <<NameE("v"), Id(b)>> >>),
  Bin("+", Id(a), Id(b)), Bin("and", Id(a), Id(b)), Bin("~", Id(a), Id(b)),
  Bin("in", a, ArrE(<<b, IntE(1), StrE("a")>>)), Bin("not in", a, NameE("arr")), Bin("in", a, NameE("h")),
  Bin("matches", a, StrE("^a")), Bin("matches", a, StrE("b$")), Bin("matches", a, StrE("^ab$")), Bin("matches", a, StrE("1")),
  Bin("..", a, b), Bin("starts with", a, b) >>
NM == Len(Misc(NullE, NullE))

(* depth 1 *)
D1Bin(j) == LET op == BinOps[(j % NB) + 1]
                l == Leaves[((j \div NB) % NL) + 1]
                r == Leaves[((j \div (NB * NL)) % NL) + 1]
            IN Bin(op, l, r)
ND1Bin == NB * NL * NL
D1Misc(j) == Misc(Leaves[((j \div NM) % NL) + 1], Leaves[((j \div (NM * NL)) % NL) + 1])[(j % NM) + 1]
ND1Misc == NM * NL * NL
ND1 == ND1Bin + ND1Misc
D1(j) == IF j < ND1Bin THEN D1Bin(j) ELSE D1Misc(j - ND1Bin)

(* depth 2: op, a depth-1 bin on one side (parenthesised), a leaf on the other *)
D2(j) == LET op == BinOps[(j % NB) + 1]
             side == (j \div NB) % 2
             lf == Leaves[((j \div (2 * NB)) % NL) + 1]
             in == Grp(D1(((j \div (2 * NB * NL)) % ND1)))
         IN IF side = 0 THEN Bin(op, in, lf) ELSE Bin(op, lf, in)
ND2 == 2 * NB * NL * ND1

(* depth 3 sample: two depth-1 operands *)
D3(j) == LET op == BinOps[(j % NB) + 1]
             a == Grp(D1((j \div NB) % ND1))
             b == Grp(D1(((j \div (NB * ND1)) * 7919 + 13) % ND1))
         IN Bin(op, a, b)
ND3 == NB * ND1

Total == ND1 + ND2 + ND3
Expr(j) == IF j < ND1 THEN D1(j) ELSE IF j < ND1 + ND2 THEN D2(j - ND1) ELSE D3(j - ND1 - ND2)

(* the same expression node evaluated repeatedly, with different operand values each time (nothing may be remembered
   from one evaluation of a node to the next): every operator with the loop variable on either side *)
RSeqs == << ArrE(<<StrE("^a"), StrE("b$"), StrE("^ab$"), StrE("1"), StrE("^a")>>), ArrE(<<IntE(1), IntE(2), IntE(0), IntE(7), IntE(2)>>),
            ArrE(<<StrE("a"), IntE(2), StrE(""), BoolE(TRUE), NullE>>) >>
RConsts == << StrE("ab"), IntE(2), NameE("arr") >>
NR == NB * 3 * 3 + 3
RBody(j) ==
  IF j < NB * 9 THEN
    LET op == BinOps[(j % NB) + 1]  sq == RSeqs[((j \div NB) % 3) + 1]  c == RConsts[((j \div (NB * 3)) % 3) + 1] IN
    <<ForS("", "v", sq, NoE, <<DoS(CallE("id", <<Bin(op, c, NameE("v"))>>)), DoS(CallE("id", <<Bin(op, NameE("v"), c)>>))>>, <<>>, FALSE)>>
  ELSE LET sq == RSeqs[(j - NB * 9) + 1] IN
    <<ForS("", "v", sq, NoE, <<DoS(CallE("id", <<Un("not", NameE("v"))>>)), DoS(CallE("id", <<Interp(<<StrE("p"), NameE("v")>>)>>)),
                              DoS(CallE("id", <<Tern(NameE("v"), NameE("v"), StrE("no"))>>)),
                              DoS(CallE("id", <<Pipe(NameE("v"), "rec", <<NameE("v")>>)>>)),
                              DoS(CallE("id", <<TestE(NameE("v"), FALSE, "yes", <<NameE("v")>>)>>)),
                              (* calls among the later arguments of a call, of a filter and of a test: the arguments already
                                 evaluated are kept while the nested call evaluates its own *)
                              DoS(CallE("nul", <<NameE("v"), StrE("k"), CallE("id", <<NameE("v"), StrE("z")>>),
                                                 Pipe(NameE("v"), "rec", <<StrE("w"), CallE("id", <<NameE("v")>>)>>)>>)),
                              DoS(TestE(NameE("v"), FALSE, "yes", <<StrE("t"), CallE("id", <<StrE("u"), NameE("v")>>), NameE("v")>>))>>, <<>>, FALSE)>>
RBase == ND1 + ND2 + ND3
(* equality and membership on strings that some number parser would accept and the language does not treat as numbers (not
   decimal numerals): they are compared as strings - "nan" equals "nan", "Inf" differs from "Infinity", "0x10" from "16" *)
EqStrs == << "nan", "NaN", "Nan", "Inf", "Infinity", "inf", "+Inf", "-inf", "0x1p4", "0x10", "16", "1_6", "0b1", "1e", "e1", "1e3x", "Bob", "" >>
(* ordering of two strings that both spell numbers: by the numbers they spell, not by their characters *)
OrdStrs == << "10", "9", "100", "20", "2", "2.0", "-1", "-10", "0.5", "1.25", "3" >>
NO2 == Len(OrdStrs)
NR3 == NO2 * NO2
OrdBody(j) ==
  LET a == StrE(OrdStrs[(j % NO2) + 1])  b == StrE(OrdStrs[(j \div NO2) + 1])
      P(op, x, y) == PrintS(Tern(Bin(op, x, y), StrE("y"), StrE("n"))) IN
  <<P("<", a, b), P("<=", a, b), P(">", a, b), P(">=", a, b), Text("|"), P("<", NameE("sa"), b), P(">", a, NameE("sb")), P(">=", NameE("sa"), NameE("sb")), Text("|"),
    SetCap("ca", <<PrintS(a)>>), P("<", NameE("ca"), b), P(">", Pipe(a, "wrap", <<StrE("")>>), b)>>
NE == Len(EqStrs)
NR2 == NE * NE
EqBody(j) ==
  LET a == StrE(EqStrs[(j % NE) + 1])  b == StrE(EqStrs[(j \div NE) + 1]) IN
  <<PrintS(Tern(Bin("==", a, b), StrE("eq"), StrE("ne"))), Text("|"), PrintS(Tern(Bin("!=", a, b), StrE("ne"), StrE("eq"))), Text("|"),
    PrintS(Tern(Bin("in", a, ArrE(<<StrE("zz"), b>>)), StrE("in"), StrE("out"))), Text("|"),
    PrintS(Tern(Bin("not in", a, ArrE(<<b, StrE("Bob2")>>)), StrE("out"), StrE("in"))), Text("|"),
    DoS(CallE("id", <<Bin("==", NameE("sa"), b), Bin("==", a, a)>>))>>

(* membership in an inclusive integer range: only its whole steps are members, whichever way it runs; a fraction between its
   ends, a number past them, a numeral string and a computed needle, under in and not in, from literals and from variables *)
MemNeedles == << NumE(32), NumE(96), NumE(144), Neg(96), IntE(2), IntE(0), IntE(4), Neg(64), StrE("2"), StrE("1.5"), Bin("/", IntE(5), IntE(2)),
                 Bin("/", IntE(6), IntE(2)), NameE("x"), NameE("fr"), NullE, BoolE(TRUE) >>
MemConts == << Grp(Bin("..", IntE(1), IntE(4))), Grp(Bin("..", IntE(4), IntE(1))), Grp(Bin("..", IntE(0), IntE(7))), Grp(Bin("..", Neg(3 * 64), IntE(3))),
               Grp(Bin("..", IntE(2), IntE(2))), ArrE(<<IntE(1), IntE(3)>>), ArrE(<<NumE(96), IntE(4)>>), NameE("rg"), NameE("arr") >>
NMN == Len(MemNeedles)
NR4 == NMN * Len(MemConts)
MemBody(j) ==
  LET a == MemNeedles[(j % NMN) + 1]  c == MemConts[(j \div NMN) + 1] IN
  <<SetS("rg", Bin("..", IntE(1), IntE(4))),
    PrintS(Tern(Bin("in", a, c), StrE("in"), StrE("out"))), Text("|"), PrintS(Tern(Bin("not in", a, c), StrE("out"), StrE("in"))), Text("|"),
    IfS(Bin("in", a, c), <<Text("y")>>, <<Text("n")>>, TRUE), DoS(CallE("id", <<Bin("in", a, c), a>>))>>

Picked == (0..(ND1 - 1)) \cup (RBase..(RBase + NR + NR2 + NR3 + NR4 - 1)) \cup {ND1 + Offset + Stride * m : m \in 0..((ND2 + ND3 - 1 - Offset) \div Stride)}

Init == GenInit(v_lvl, v_idx)
Next == GenNext(v_lvl, v_idx, Picked, 64)

Case(j) ==
  IF j >= RBase + NR + NR2 + NR3 THEN
    RenderVec("C05-" \o ToString(j), "member", Tpl1("t", MemBody(j - RBase - NR - NR2 - NR3)), "t", Ctx @@ ("fr" :> Num(160)), [depth |-> 1]) ELSE
  IF j >= RBase + NR + NR2 THEN
    LET q == j - RBase - NR - NR2 IN
    RenderVec("C05-" \o ToString(j), "ordstr", Tpl1("t", OrdBody(q)), "t",
              Ctx @@ ("sa" :> Str(S2B(OrdStrs[(q % NO2) + 1]))) @@ ("sb" :> Str(S2B(OrdStrs[(q \div NO2) + 1]))), [depth |-> 1]) ELSE
  IF j >= RBase + NR THEN RenderVec("C05-" \o ToString(j), "eqstr", Tpl1("t", EqBody(j - RBase - NR)), "t", Ctx @@ ("sa" :> Str(S2B(EqStrs[((j - RBase - NR) % NE) + 1]))), [depth |-> 1]) ELSE
  IF j >= RBase THEN RenderVec("C05-" \o ToString(j), "repeat", Tpl1("t", RBody(j - RBase)), "t", Ctx, [depth |-> 1]) ELSE
  LET e == Expr(j)
      v == Eval(e, InitState(<<>>, Ctx, 6))
      scalar == v[2].status # "ok" \/ v[1].t \in {"num", "str", "bool", "null"}
      body == IF scalar THEN <<SetS("r", e), DoS(CallE("id", <<NameE("r")>>)), PrintS(NameE("r"))>>
              ELSE <<SetS("r", e), DoS(CallE("id", <<NameE("r")>>))>>
  IN RenderVec("C05-" \o ToString(j), "expr", Tpl1("t", body), "t", Ctx, [depth |-> IF j < ND1 THEN 1 ELSE IF j < ND1 + ND2 THEN 2 ELSE 3])

Out == v_lvl < 2 \/ Emit(Case(v_idx))
=============================================================================
