--------------------------- MODULE C01_TokenBound ---------------------------
(* Negative configuration: the claim "every token consumes at least one     *)
(* input byte, so a source of n bytes yields at most n + 2 tokens" is FALSE *)
(* for the tokeniser of Lexer.tla (and of parse/lex.go): '' is STRING_OPEN, *)
(* an empty TEXT and STRING_CLOSE.  TLC must refute TokenBound.  This is    *)
(* why a token channel with a buffer sized from the source length cannot    *)
(* replace draining the tokeniser (LexChan.tla, Cap).                       *)
EXTENDS Lexer
VARIABLE v_x
RECURSIVE Rep(_, _)
Rep(bs, n) == IF n = 0 THEN <<>> ELSE bs \o Rep(bs, n - 1)
Dense == <<123, 123, 32, 91>> \o Rep(<<39, 39, 44>>, 12) \o <<39, 39, 93, 32, 125, 125>>       \* {{ ['','',...,''] }}
Init == v_x = 0
Next == UNCHANGED v_x
TokenBound == Len(Tokens(Dense)) <= Len(Dense) + 2
LexesCleanly == Tokens(Dense)[Len(Tokens(Dense))].typ = "EOF"
=============================================================================
