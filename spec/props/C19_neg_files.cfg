CONSTANTS MaxHist = 1
  Stride3 = 1
  CloseFiles = FALSE
  Drain = TRUE
SPECIFICATION Spec
INVARIANTS NoFileBetweenCalls
