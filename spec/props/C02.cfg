CONSTANTS FStride = 40
INIT Init
NEXT Next
INVARIANTS Out RefTotal
