INIT Init
NEXT Next
INVARIANTS Out IsolationAndContext
