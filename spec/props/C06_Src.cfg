CONSTANTS Exh = 2
  Bal = 5
  Del = 4
INIT Init
NEXT Next
INVARIANTS Out Decided AcceptsExactlyBalanced
