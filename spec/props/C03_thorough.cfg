CONSTANTS Deep = TRUE
INIT Init
NEXT Next
INVARIANTS Out Faithful
