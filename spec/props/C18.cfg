CONSTANTS Callers = {1, 2, 3}
  Locked = TRUE
  NPrints = 2
SPECIFICATION Spec
INVARIANTS OwnContentType ResultAsAlone NoSharedMutation
PROPERTIES EveryCallReturns
