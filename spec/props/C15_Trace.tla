------------------------------ MODULE C15_Trace ------------------------------
(* Binding T for C15: float64 -> string -> number round trips recorded from    *)
(* CoerceString/CoerceNumber on random finite float64 bit patterns.  TLC has   *)
(* no floating point: the events carry the IEEE bit patterns as decimal        *)
(* strings; an event is accepted iff the pattern that comes back equals the    *)
(* one that went in and, for integral values below a million, the string is    *)
(* the plain integer.                                                          *)
EXTENDS Values, Json, IOUtils

Trace == ndJsonDeserialize(IOEnv.TRACE_FILE)
VARIABLE v_l
ASSUME TLCSet(1, 0)
PlainInt(n) == (IF n < 0 THEN "-" ELSE "") \o ToString(Abs(n))
Why(ev) == IF ev.in # ev.out THEN "roundtrip"
           ELSE IF ev.integral /\ ev.str # PlainInt(ev.ival) /\ ~(ev.ival = 0 /\ ev.str = "-0") THEN "plain-integer"   \* IEEE -0 prints "-0"
           ELSE ""
Init == v_l = 1
Next == /\ v_l <= Len(Trace)
        /\ LET w == Why(Trace[v_l]) IN IF w = "" THEN TRUE ELSE PrintT(ToJson([rej |-> v_l, why |-> w]))
        /\ v_l' = v_l + 1
HighWater == TLCSet(1, IF v_l > TLCGet(1) THEN v_l ELSE TLCGet(1))
Consumed == TLCGet(1) = Len(Trace) + 1
=============================================================================
