--------------------------------- MODULE C08 ---------------------------------
(* C08 Captured output.  Programs are nestings (innermost first) of           *)
(*   set-capture, filter sections with 1..3 filters, macro calls, block(),    *)
(*   loops, and (innermost) parent()                                          *)
(* around text and prints.  Each construction step also computes, purely      *)
(* structurally, the bytes the piece contributes to its enclosing writer      *)
(* (`out`).  TLC checks that the operational reference (writer stack of       *)
(* Exec.tla) produces exactly that on the destination writer, that captures   *)
(* are balanced, and prints the vectors.                                      *)
EXTENDS Vec, SequencesExt, FiniteSetsExt

CONSTANTS MaxDepth
VARIABLES v_lvl, v_idx

Ctx == ("x" :> Str(S2B("q")))
Kinds == {"setcap", "filter", "macro", "blockfn", "loop"}

FilterNames(n) == CASE n % 3 = 1 -> <<"up">> [] n % 3 = 2 -> <<"up", "wrap">> [] OTHER -> <<"wrap", "up", "rec">>
RECURSIVE ApplyF(_, _)
ApplyF(names, bs) == IF names = <<>> THEN bs
                     ELSE ApplyF(Tail(names), CASE Head(names) = "up" -> AsciiUpper(bs)
                                                [] Head(names) = "wrap" -> <<124>> \o bs \o <<124>>
                                                [] OTHER -> bs)
RECURSIVE Rep(_, _)
Rep(bs, n) == IF n = 0 THEN <<>> ELSE bs \o Rep(bs, n - 1)
Nm(prefix, n) == prefix \o ToString(n)

(* `out` is a function of what the variable v prints at the place of the piece: nothing outside loops, the element inside
   (the innermost leaf prints v, so a captured text that is reused across iterations or calls shows) *)
VV == {<<>>, <<49>>, <<50>>}
Plain == [stmts |-> <<Text("i"), PrintS(NameE("x")), PrintS(NameE("v"))>>, defs |-> <<>>, out |-> [vv \in VV |-> S2B("iq") \o vv], inh |-> FALSE]
(* a leaf that writes nothing to its enclosing writer (its only output is captured into a variable) *)
EmptyLeaf == [stmts |-> <<SetCap("z", <<Text("xyz")>>)>>, defs |-> <<>>, out |-> [vv \in VV |-> <<>>], inh |-> FALSE]
(* a capture whose body is exactly one print of a non-string: the variable holds the text written, a string *)
OnePrintLeaf(e, txt) == [stmts |-> <<SetCap("z1", <<PrintS(e)>>), DoS(CallE("id", <<NameE("z1")>>)), Text("~"), PrintS(NameE("z1")), Text("~")>>,
                         defs |-> <<>>, out |-> [vv \in VV |-> S2B("~" \o txt \o "~")], inh |-> FALSE]
OnePrintLeaves == { OnePrintLeaf(IntE(5), "5"), OnePrintLeaf(IntE(0), "0"), OnePrintLeaf(BoolE(TRUE), "1"), OnePrintLeaf(BoolE(FALSE), ""),
                    OnePrintLeaf(NullE, ""), OnePrintLeaf(NumE(96), "1.5") }
ParentLeaf == [stmts |-> <<BlockS("pz", <<Text("p:"), PrintS(CallE("parent", <<>>)), Text(":p")>>)>>,
               defs |-> <<>>, out |-> [vv \in VV |-> S2B("p:Pq:p")], inh |-> TRUE]

(* after a block() or parent() capture has returned, parent() still means the parent of the block being rendered *)
ParentLeaf2 == [stmts |-> <<BlockS("pz", <<Text("p:"), PrintS(CallE("block", <<StrE("q")>>)), PrintS(CallE("parent", <<>>)), Text("+"),
                                            SetCap("zz", <<PrintS(CallE("parent", <<>>))>>), PrintS(NameE("zz")),
                                            FilterS(<<"up">>, <<PrintS(CallE("parent", <<>>))>>), Text(":p")>>)>>,
                defs |-> <<>>, out |-> [vv \in VV |-> S2B("p:QPq+PqPQ:p")], inh |-> TRUE]
Wrap(kind, n, in) ==
  CASE kind = "setcap" ->
         LET t == n % 3 IN
         [stmts |-> <<Text("["), SetCap(Nm("c", n), in.stmts), Text("]")>> \o [q \in 1..t |-> PrintS(NameE(Nm("c", n)))],
          defs |-> in.defs, out |-> [vv \in VV |-> S2B("[]") \o Rep(in.out[vv], t)], inh |-> in.inh]
    [] kind = "filter" ->
         [stmts |-> <<Text("("), FilterS(FilterNames(n), in.stmts), Text(")")>>,
          defs |-> in.defs, out |-> [vv \in VV |-> S2B("(") \o ApplyF(FilterNames(n), in.out[vv]) \o S2B(")")], inh |-> in.inh]
    [] kind = "macro" ->
         (* v is handed on as the macro's argument (a macro body does not read the caller's variables in Twig); every other
            level keeps the returned value in a variable and prints it twice: the value is a value, not a stream *)
         LET call == AttrCall(NameE("_self"), Nm("m", n), <<NameE("v")>>)
             twice == n % 2 = 0 IN
         [stmts |-> IF twice THEN <<Text("M"), SetS(Nm("r", n), call), PrintS(NameE(Nm("r", n))), Text("&"), PrintS(NameE(Nm("r", n))), Text("W")>>
                    ELSE <<Text("M"), PrintS(call), Text("W")>>,
          defs |-> in.defs \o <<MacroS(Nm("m", n), <<"v">>, in.stmts)>>,
          out |-> [vv \in VV |-> IF twice THEN S2B("M") \o in.out[vv] \o S2B("&") \o in.out[vv] \o S2B("W") ELSE S2B("M") \o in.out[vv] \o S2B("W")],
          inh |-> in.inh]
    [] kind = "blockfn" ->
         [stmts |-> <<IfS(BoolE(FALSE), <<BlockS(Nm("b", n), in.stmts)>>, <<>>, FALSE),
                      Text("<"), PrintS(CallE("block", <<StrE(Nm("b", n))>>)), Text(">")>>,
          defs |-> in.defs, out |-> [vv \in VV |-> S2B("<") \o in.out[vv] \o S2B(">")], inh |-> in.inh]
    [] kind = "loop" ->
         [stmts |-> <<ForS("", "v", ArrE(<<IntE(1), IntE(2)>>), NoE, in.stmts \o <<PrintS(NameE("v"))>>, <<>>, FALSE)>>,
          defs |-> in.defs, out |-> [vv \in VV |-> in.out[<<49>>] \o <<49>> \o in.out[<<50>>] \o <<50>>], inh |-> in.inh]

RECURSIVE Build(_, _, _)
Build(kinds, n, in) == IF kinds = <<>> THEN in ELSE Build(Tail(kinds), n + 1, Wrap(Head(kinds), n, in))

KindSeqs == UNION {[1..d -> Kinds] : d \in 1..MaxDepth}
(* two consecutive constructs at the same level, output after them *)
Twice(p) == [stmts |-> p.stmts \o <<Text("+")>> \o p.stmts, defs |-> p.defs, out |-> [vv \in VV |-> p.out[vv] \o <<43>> \o p.out[vv]], inh |-> p.inh]

(* the macros of an inheriting program are defined in the base template (a child's top level is not executed),
   so the overriding block of the parent() leaf must not sit inside a macro body *)
NoMacro(ks) == \A q \in 1..Len(ks) : ks[q] # "macro"
Pieces == {Build(ks, 1, Plain) : ks \in KindSeqs} \cup {Build(ks, 1, ParentLeaf) : ks \in {q \in KindSeqs : NoMacro(q)}}
          \cup {Build(ks, 1, ParentLeaf2) : ks \in {q \in KindSeqs : NoMacro(q) /\ Len(q) <= 2}} \cup {ParentLeaf2}
          \cup {Twice(Build(ks, 1, Plain)) : ks \in {q \in KindSeqs : Len(q) <= 2}}
          \cup {Build(ks, 1, EmptyLeaf) : ks \in {q \in KindSeqs : Len(q) <= 3}}
          \cup {Build(ks, 1, lf) : ks \in {q \in KindSeqs : Len(q) <= 1}, lf \in OnePrintLeaves} \cup OnePrintLeaves

(* the target of a capture exists in an outer scope and holds null: the capture, made inside a loop body or a macro's loop, is
   the value of THAT variable afterwards (null is a value; the variable is defined) *)
NullTargets == {
  [stmts |-> <<SetS("zn", NullE), ForS("", "v", ArrE(<<IntE(1), IntE(2)>>), NoE, <<SetCap("zn", <<Text("c"), PrintS(NameE("v"))>>)>>, <<>>, FALSE),
               Text("~"), PrintS(NameE("zn")), Text("~")>>, defs |-> <<>>, out |-> [vv \in VV |-> S2B("~c2~")], inh |-> FALSE],
  [stmts |-> <<Text("M"), PrintS(AttrCall(NameE("_self"), "mz", <<>>)), Text("W")>>,
   defs |-> <<MacroS("mz", <<"p">>, <<ForS("", "i", ArrE(<<IntE(1)>>), NoE, <<SetCap("p", <<Text("k")>>)>>, <<>>, FALSE), Text("("), PrintS(NameE("p")), Text(")")>>)>>,
   out |-> [vv \in VV |-> S2B("M(k)W")], inh |-> FALSE] }
Templates(p) ==
  IF p.inh
  THEN ("base" :> p.defs \o <<Text("^"), BlockS("main", <<Text("BASE"), BlockS("pz", <<Text("P"), PrintS(NameE("x"))>>)>>), Text("$"),
                               IfS(BoolE(FALSE), <<BlockS("q", <<Text("Q")>>)>>, <<>>, FALSE)>>)
       @@ ("t" :> <<ExtendsS(StrE("base")), BlockS("main", <<Text("S")>> \o p.stmts \o <<Text("E")>>)>>)
  ELSE ("t" :> p.defs \o <<Text("^S")>> \o p.stmts \o <<Text("E$")>>)
Expected(p) == S2B("^S") \o p.out[<<>>] \o S2B("E$")

(* a leaf that fails after writing: the execution stops there, and whatever an open capture holds at that point is not output *)
FailLeaf == [stmts |-> <<Text("f"), PrintS(NameE("v")), PrintS(CallE("nosuchfunction", <<>>)), Text("g")>>, defs |-> <<>>, out |-> [vv \in VV |-> <<>>], inh |-> FALSE]
FailKs == SetToSeq({q \in KindSeqs : Len(q) <= 3})
OkCases == SetToSeq(Pieces \cup NullTargets)
Cases == OkCases \o [i \in 1..Len(FailKs) |-> Build(FailKs[i], 1, FailLeaf)]
IsFail == v_idx > Len(OkCases)
Picked == 1..Len(Cases)
Init == GenInit(v_lvl, v_idx)
Next == GenNext(v_lvl, v_idx, Picked, 32)
Cur == Cases[v_idx]
Ref == Execute(Templates(Cur), "t", Ctx)
Out == v_lvl < 2 \/ Emit(RenderVec("C08-" \o ToString(v_idx), IF Cur.inh THEN "capture-inherit" ELSE "capture", Templates(Cur), "t", Ctx,
                                   [ncap |-> Len(SelectSeq(Ref.log, LAMBDA ev : ev.e = "cap+"))]))

--------------------------------------------------------------------------
(* the destination writer receives exactly the structurally defined output, in order *)
CaptureExact == (v_lvl = 2 /\ ~IsFail) => LET R == Ref IN (R.status = "ok" /\ MainOut(R) = Expected(Cur))
(* a failure inside a capture: the execution reports it, and the text the capture held ("f") is not in the output *)
FailureLeavesCaptureOut == (v_lvl = 2 /\ IsFail) =>
  LET R == Ref  ks == FailKs[v_idx - Len(OkCases)] IN
  /\ R.status = "err"
  /\ (\E q \in 1..Len(ks) : ks[q] # "loop") => (\A j \in 1..Len(MainOut(R)) : MainOut(R)[j] \notin {102, 70})
(* every capture is closed by the matching restore; at the end only the destination writer is left *)
RECURSIVE Depths(_, _, _)
Depths(log, q, d) == IF q > Len(log) THEN d = 1
                     ELSE IF log[q].e = "cap+" THEN log[q].depth = d /\ Depths(log, q + 1, d + 1)
                     ELSE IF log[q].e = "cap-" THEN d > 1 /\ log[q].depth = d - 1 /\ Depths(log, q + 1, d - 1)
                     ELSE Depths(log, q + 1, d)
Balanced == (v_lvl = 2 /\ ~IsFail) => Depths(Ref.log, 1, 1)      \* an execution that fails stops inside its captures
(* a write reaches the destination writer only while no capture is open *)
RECURSIVE MainOnly(_, _, _)
MainOnly(log, q, d) == IF q > Len(log) THEN TRUE
                       ELSE IF log[q].e = "cap+" THEN MainOnly(log, q + 1, d + 1)
                       ELSE IF log[q].e = "cap-" THEN MainOnly(log, q + 1, d - 1)
                       ELSE IF log[q].e = "w" THEN d = 1 /\ MainOnly(log, q + 1, d)
                       ELSE MainOnly(log, q + 1, d)
MainOnlyFromDepth0 == v_lvl = 2 => MainOnly(Ref.log, 1, 1)
(* the concatenation of the logged writes is the destination writer's content *)
RECURSIVE CatW(_)
CatW(log) == IF log = <<>> THEN <<>> ELSE (IF Head(log).e = "w" THEN Head(log).d ELSE <<>>) \o CatW(Tail(log))
OrderPreserved == v_lvl = 2 => LET R == Ref IN CatW(R.log) = MainOut(R)
=============================================================================
