CONSTANTS NFrag = 3
  Stride = 5
  ELen = 6
INIT Init
NEXT Next
INVARIANTS NoPanic CursorsInRange StepsBounded ErrorLast Ends Partition PositionsExact Out
