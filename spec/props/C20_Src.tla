------------------------------ MODULE C20_Src ------------------------------
(* C20 on BYTES, for the block structure of every tag kind: each tag that    *)
(* opens a body (if, for, block, set, filter, macro, embed, verbatim) against *)
(* each closing tag, nested two deep with the closers in matching and in      *)
(* swapped order, cut off before a closer, with else / elseif where they      *)
(* belong and where they do not, and closers with nothing open.  One tag per  *)
(* line.  Parser.tla decides each source: a template, or not a template with  *)
(* the offending token.  The real parser must agree on acceptance, and on the *)
(* position whenever the offending token is a tag name (an end tag, else or   *)
(* elseif that has nothing to belong to is an unknown tag there).             *)
EXTENDS Parser, Seed, SequencesExt, FiniteSetsExt

VARIABLES v_lvl, v_idx

Openers == << "{% if t %}", "{% for v in [1] %}", "{% block b %}", "{% set s %}", "{% filter up %}", "{% macro m() %}", "{% embed 'e' %}", "{% verbatim %}" >>
Closers == << "{% endif %}", "{% endfor %}", "{% endblock %}", "{% endset %}", "{% endfilter %}", "{% endmacro %}", "{% endembed %}", "{% endverbatim %}" >>
Middles == << "{% else %}", "{% elseif t %}" >>
NO == Len(Openers)
Lines(fs) == IF fs = <<>> THEN <<>> ELSE LET RECURSIVE J(_) J(s) == IF Len(s) = 1 THEN S2B(s[1]) ELSE S2B(s[1]) \o <<10>> \o J(Tail(s)) IN J(fs)

CaseSet ==
  (* one level: every opener with every closer *)
  { <<"x", Openers[o], "A", Closers[c], "y">> : o \in 1..NO, c \in 1..NO }
  (* two levels: closers in matching order and swapped *)
  \cup { <<Openers[o1], "A", Openers[o2], "B", Closers[o2], "C", Closers[o1]>> : o1 \in 1..NO, o2 \in 1..NO }
  \cup { <<Openers[o1], "A", Openers[o2], "B", Closers[o1], "C", Closers[o2]>> : o1 \in 1..NO, o2 \in 1..NO }
  (* cut off: the inner or the outer closer is missing; nothing is closed at all *)
  \cup { <<Openers[o1], "A", Openers[o2], "B", Closers[o2]>> : o1 \in 1..NO, o2 \in 1..NO }
  \cup { <<Openers[o1], "A", Openers[o2], "B", Closers[o1]>> : o1 \in 1..NO, o2 \in 1..NO }
  \cup { <<"x", Openers[o], "A">> : o \in 1..NO }
  (* else / elseif inside every kind of body, twice, and with nothing open; closers with nothing open *)
  \cup { <<Openers[o], "A", Middles[m], "B", Closers[o]>> : o \in 1..NO, m \in 1..2 }
  \cup { <<Openers[o], "A", "{% else %}", "B", Middles[m], "C", Closers[o]>> : o \in 1..NO, m \in 1..2 }
  \cup { <<"x", Middles[m], "y">> : m \in 1..2 }
  \cup { <<"x", Closers[c], "y">> : c \in 1..NO }
  \cup { <<Openers[o], Closers[o], Closers[o]>> : o \in 1..NO }
Cases == SetToSeq(CaseSet)
(* two-word operators with their words one blank apart (the operator) and apart by anything else (two tokens; not an operator),
   followed by a print and an unknown tag on later lines *)
TwoWords == << <<"not", "in", "[1]">>, <<"is", "not", "odd">>, <<"starts", "with", "'x'">>, <<"ends", "with", "'x'">>, <<"is", "not", "defined">> >>
Seps == << <<32>>, <<32, 32>>, <<10>>, <<9>>, <<13, 10>>, <<32, 10, 32>> >>
OpSrcs == [q \in 1..(Len(TwoWords) * Len(Seps)) |->
             LET w == TwoWords[((q - 1) % Len(TwoWords)) + 1]
                 sp == Seps[((q - 1) \div Len(TwoWords)) + 1] IN
             S2B("L1") \o <<10>> \o S2B("{{ a " \o w[1]) \o sp \o S2B(w[2] \o " " \o w[3] \o " }}") \o <<10>> \o S2B("{{ c }}")
             \o <<10>> \o S2B("{% zz %}")]
AllSrc == [j \in 1..Len(Cases) |-> Lines(Cases[j])] \o OpSrcs
(* source cut off at every byte: templates with multi-line tags and bodies of every kind.  Whatever the parser reports, the
   position it gives is an anchor: the end of the input, the tokeniser's error, the (possibly cut) last token, or a tag's name *)
TruncTpls == <<
  <<"L1", "{% for k, v", "   in items", "%}", "  {{ v }}", "{% else %}", "none", "{% endfor %}", "z">>,
  <<"{% set x %}", "abc{{ 1 }}", "{% endset %}{% set y = [1,", " 2] %}">>,
  <<"{% filter up %}", "q", "{% endfilter %}">>,
  <<"{% macro m(a,", " b) %}", "z{{ a }}", "{% endmacro %}">>,
  <<"{% if a %}", "x{% elseif b %}", "y{% else %}", "z{% endif %}">>,
  <<"{% block b %}", "{% embed 'e' %}", "{% block b %}i{% endblock %}", "{% endembed %}", "{% endblock %}">>,
  <<"{% verbatim %}", "{{ v }}", "{% endverbatim %}">>,
  <<"a{{ 'x", "y' ~ \"q#{1}\" }}b{# c", " #}">> >>
TruncSrc(q) == Lines(TruncTpls[q])
TruncCount == LET RECURSIVE S(_) S(q) == IF q = 0 THEN 0 ELSE S(q - 1) + Len(TruncSrc(q)) IN S(Len(TruncTpls))
RECURSIVE TruncAt(_, _)
TruncAt(q, r) == IF r <= Len(TruncSrc(q)) THEN SubSeq(TruncSrc(q), 1, r) ELSE TruncAt(q + 1, r - Len(TruncSrc(q)))      \* r-th prefix overall (r >= 1)
NAll == Len(AllSrc)
Picked == 1..(NAll + TruncCount)
Init == GenInit(v_lvl, v_idx)
Next == GenNext(v_lvl, v_idx, Picked, 32)

TokPos(ts, q) == <<ts[q].line, ts[q].col>>
Case(j) ==
  LET trunc == j > NAll
      src == IF trunc THEN TruncAt(1, j - NAll) ELSE AllSrc[j]
      ts == LX!Tokens(src)
      pr == ParseTokens2(ts)
      n == Len(ts) IN
  [id |-> "C20s-" \o ToString(j), fam |-> IF trunc THEN "trunc" ELSE "blocks", k |-> "parse", env |-> "core",
   srcs |-> ("t" :> src) @@ ("e" :> S2B("E{% block b %}{% endblock %}")),
   entry |-> "t",
   exp |-> [ok |-> pr.ok, line |-> pr.at[1], col |-> pr.at[2],
            attyp |-> IF pr.ok \/ pr.attok = 0 THEN "" ELSE ts[pr.attok].typ,
            atname |-> IF pr.ok \/ pr.attok = 0 THEN <<>> ELSE ts[pr.attok].val,
            (* anchors a cut-off source's error may name: the last token of the stream (EOF or ERROR), the possibly cut token
               before it (white space aside) and every tag name *)
            anchors |-> IF ~trunc THEN <<>>
                        ELSE LET vis == {m \in 1..n : ts[m].typ # "WHITESPACE"}
                                 prev(m) == IF \E q \in vis : q < m THEN CHOOSE q \in vis : q < m /\ \A r \in vis : r < m => r <= q ELSE 0
                                 lastvis == prev(n) IN
                             SetToSeq({TokPos(ts, q) : q \in {m \in vis : m = n \/ m = lastvis \/ (prev(m) # 0 /\ ts[prev(m)].typ = "TAG_OPEN")}})]]
Out == v_lvl < 2 \/ Emit(Case(v_idx))
(* design: a source of this family is a template exactly when every opener is closed by its own closer, innermost first;
   here: stated on the one-level cases *)
OneLevel == (v_lvl = 2 /\ v_idx <= Len(Cases) /\ Len(Cases[v_idx]) = 5 /\ Cases[v_idx][1] = "x" /\ Cases[v_idx][5] = "y") =>
  LET c == Cases[v_idx]
      o == CHOOSE q \in 1..NO : Openers[q] = c[2] IN
  (\E q \in 1..NO : Closers[q] = c[4]) => (Case(v_idx).exp.ok <=> c[4] = Closers[o])
=============================================================================
