--------------------------------- MODULE C02 ---------------------------------
(* C02 Execution is total.  Families:                                          *)
(*   ops      every binary/unary/test/conditional/access/call/loop form over   *)
(*            two operands a, b taken from a catalogue of 30 values (template  *)
(*            values and Go fixtures)                                          *)
(*   filters  every built-in Twig filter x piped value x 0..2 arguments        *)
(* The only observable is termination (output or error).  For the cases made   *)
(* of template values only TLC also evaluates the reference executor:          *)
(* RefTotal = the reference is defined (status ok, err or out-of-model) on     *)
(* every one of them, i.e. Exec.tla has no evaluation hole.                    *)
EXTENDS Vec, SequencesExt, FiniteSetsExt

CONSTANTS FStride
VARIABLES v_lvl, v_idx

Go(id) == [t |-> "go", id |-> id]
Operands == <<
  Null, Bool(TRUE), Bool(FALSE), IntV(0), IntV(1), IntV(0 - 1), IntV(3), Num(96), Num(32), Num(0 - 16), Str(S2B("-0.9")), IntV(1000), IntV(0 - 1000), Num(6400001),
  Str(<<>>), Str(S2B("a")), Str(S2B("1.5")), Str(<<195, 169>>), Str(S2B("abc def")), Str(S2B("now")), Go("time:2006-01-02T15:04:05Z"),
  Arr(<<>>), Arr(<<IntV(1), IntV(2)>>), Arr(<<Null>>), Hash(<< <<S2B("k"), IntV(1)>> >>), Hash(<<>>),
  Go("slice:int:1,2"), Go("map:is:1=a"), Go("struct:person"), Go("ptr:struct:person"), Go("nilptr:person"), Go("nilptr:slice"),
  Go("stringer:abc"), Go("num:int8:192"), Go("big:uint64:max"), Go("decimal:96"), Go("safe:1:str:abc"), Go("func"), Go("chan"),
  Go("ptr:slice:int:1"), Go("slice:int:"), Go("map:ss:"), Go("nilptr:vstringer"), Go("map:nilss"),
  Go("struct:embnil"), Go("struct:funcs"), Go("map:vs:a=b"), Go("map:fs:nan=x,1.5=h"), Go("nilptrsafe"), Go("map:self"), Go("named:string:abc"), Go("embnilsafe"), Go("map:ptrself"),
  (* maps whose key type is a defined type over string / int: beside a hash or a map of the same size keyed by the plain type *)
  Go("map:cs:k=1"), Go("map:ns:1=a")
>>
NO == Len(Operands)
IsPure(v) == v.t # "go"

BinOps == << "+", "-", "*", "/", "//", "%", "**", "~", "==", "!=", "<", "<=", ">", ">=", "and", "or",
             "in", "not in", "starts with", "ends with", "matches", "..", "b-and", "b-or", "b-xor" >>
A == NameE("a")
B == NameE("b")
Others == <<
  <<PrintS(Un("-", A))>>, <<PrintS(Un("+", A))>>, <<PrintS(Un("not", A))>>, <<PrintS(Tern(A, B, A))>>,
  <<PrintS(TestE(A, FALSE, "odd", <<>>))>>, <<PrintS(TestE(A, TRUE, "divisible by", <<B>>))>>,
  <<PrintS(AttrBr(A, B))>>, <<PrintS(AttrDot(A, "k"))>>, <<PrintS(AttrDot(A, "Name"))>>, <<PrintS(AttrDot(A, "0"))>>,
  <<PrintS(AttrCall(A, "Greet", <<B>>))>>, <<PrintS(AttrCall(A, "Greet", <<>>))>>, <<PrintS(AttrCall(A, "Sum", <<B, B>>))>>,
  <<PrintS(AttrCall(A, "Nothing", <<B>>))>>, <<PrintS(AttrCall(A, "String", <<>>))>>,
  <<PrintS(AttrDot(A, "Code")), PrintS(AttrDot(A, "N")), PrintS(AttrCall(A, "G", <<B>>)), PrintS(AttrDot(A, "F"))>>,
  <<PrintS(CallE("id", <<A, B>>))>>, <<PrintS(Pipe(A, "up", <<B>>))>>, <<PrintS(Pipe(A, "wrap", <<B>>))>>,
  <<ForS("", "v", A, NoE, <<PrintS(NameE("v"))>>, <<Text("E")>>, TRUE)>>,
  <<ForS("k", "v", A, B, <<PrintS(NameE("k")), PrintS(AttrDot(NameE("loop"), "index"))>>, <<>>, FALSE)>>,
  <<ForS("", "v", Bin("..", A, B), NoE, <<Text(".")>>, <<>>, FALSE)>>,
  <<IfS(A, <<Text("T")>>, <<Text("F")>>, TRUE)>>, <<SetS("x", A), PrintS(Bin("~", NameE("x"), B))>>,
  <<PrintS(Interp(<<StrE("p"), A, StrE("-"), B>>))>>, <<PrintS(ArrE(<<A, B>>))>>, <<PrintS(HashE(<< <<A, B>> >>))>>,
  <<PrintS(AttrBr(HashE(<< <<NameE("k"), A>> >>), B))>>, <<PrintS(AttrBr(ArrE(<<A>>), B))>>,
  <<IncludeS(StrE("inc"), A, FALSE)>>, <<IncludeS(A, NoE, FALSE)>>, <<PrintS(CallE("block", <<A>>))>>,
  <<SetCap("c", <<PrintS(A)>>), PrintS(Bin("+", NameE("c"), B))>>, <<FilterS(<<"up">>, <<PrintS(A)>>)>>,
  <<DoS(Bin("..", A, B))>>, <<PrintS(Bin("in", A, Bin("..", IntE(0), B)))>>,
  (* include / embed with every combination of with-value and only; the target assigns and imports at its top level *)
  <<IncludeS(StrE("incs"), NoE, TRUE)>>, <<IncludeS(StrE("incs"), A, TRUE)>>,
  <<EmbedS(StrE("incs"), NoE, TRUE, <<>>)>>, <<EmbedS(StrE("incs"), NoE, FALSE, <<>>)>>, <<EmbedS(StrE("incs"), A, TRUE, <<>>)>>,
  <<EmbedS(StrE("incs"), A, FALSE, <<[name |-> "eb", body |-> <<SetS("z", B), PrintS(NameE("z"))>>]>>)>>,
  <<EmbedS(StrE("incs"), NoE, TRUE, <<[name |-> "eb", body |-> <<SetS("z", B), ImportS(StrE("inc"), "mm")>>]>>)>>,
  <<EmbedS(A, B, TRUE, <<>>)>>,
  (* macro calls with fewer and with more arguments than parameters, through each of the three routes *)
  <<FromS(StrE("mlib"), << <<"m0", "m0">>, <<"m1", "x1">>, <<"m2", "m2">> >>), PrintS(CallE("m0", <<A, B>>)), PrintS(CallE("x1", <<A, B, A>>)),
    PrintS(CallE("m2", <<A>>)), PrintS(CallE("m2", <<A, B, B, A>>)), PrintS(CallE("x1", <<>>))>>,
  <<ImportS(StrE("mlib"), "L"), PrintS(AttrCall(NameE("L"), "m0", <<A, B>>)), PrintS(AttrCall(NameE("L"), "m1", <<A, B, A>>)),
    PrintS(AttrCall(NameE("L"), "m2", <<A>>)), PrintS(AttrCall(NameE("L"), "m2", <<A, B, B, A>>)), PrintS(AttrCall(NameE("L"), "nomacro", <<A>>))>>,
  <<MacroS("s1", <<"p1">>, <<PrintS(NameE("p1"))>>), PrintS(AttrCall(NameE("_self"), "s1", <<A, B, A>>)), PrintS(AttrCall(NameE("_self"), "s1", <<>>))>>
>>
MLib == <<MacroS("m0", <<>>, <<Text("m0")>>), MacroS("m1", <<"p1">>, <<Text("m1:"), PrintS(NameE("p1"))>>),
          MacroS("m2", <<"p1", "p2">>, <<Text("m2:"), PrintS(NameE("p1")), Text(","), PrintS(NameE("p2"))>>)>>
NOth == Len(Others)
OpsCase(j) ==       \* j in 0 .. (NB + NOth) * NO * NO - 1
  LET f == j % (Len(BinOps) + NOth)
      va == Operands[((j \div (Len(BinOps) + NOth)) % NO) + 1]
      vb == Operands[((j \div ((Len(BinOps) + NOth) * NO)) % NO) + 1]
      body == IF f < Len(BinOps) THEN <<PrintS(Bin(BinOps[f + 1], A, B))>> ELSE Others[f - Len(BinOps) + 1]
  IN [body |-> body, a |-> va, b |-> vb, form |-> f]
NOps == (Len(BinOps) + NOth) * NO * NO

TwigFilters == << "abs", "default", "batch", "capitalize", "convert_encoding", "date", "date_modify", "first", "format", "join",
                  "json_encode", "keys", "last", "length", "lower", "merge", "nl2br", "number_format", "raw", "replace", "reverse",
                  "round", "slice", "sort", "split", "striptags", "title", "trim", "upper", "url_encode", "escape" >>
NF == Len(TwigFilters)
FArgs == << Null, IntV(0), IntV(2), IntV(0 - 1), Str(S2B("a")), Str(<<>>), Arr(<<IntV(1)>>), Hash(<< <<S2B("a"), Str(S2B("b"))>> >>),
            Str(S2B("ceil")), Go("slice:int:1,2"), Bool(TRUE),
            (* strings that are formats, separators, modifiers: ending in an escape character, with a lone %, with every date letter *)
            Str(<<89, 45, 109, 45, 100, 32, 92>>), Str(<<92>>), Str(S2B("%d %s %")), Str(S2B("jS F Y H:i:s D N w z W t L o y a A B g G h e I O P T Z c r U u")),
            Str(S2B("+1 day")), Str(S2B(",")), IntV(100) >>
NFA == Len(FArgs)
(* argument lists: none, one, two *)
FCase(j) ==
  LET fl == TwigFilters[(j % NF) + 1]
      va == Operands[((j \div NF) % NO) + 1]
      r == (j \div (NF * NO)) % (1 + NFA + NFA * NFA)
      args == IF r = 0 THEN <<>> ELSE IF r <= NFA THEN <<FArgs[r]>>
              ELSE <<FArgs[((r - 1 - NFA) % NFA) + 1], FArgs[((r - 1 - NFA) \div NFA) + 1]>>
      names == [q \in 1..Len(args) |-> NameE("p" \o ToString(q))]
  IN [body |-> <<PrintS(Pipe(A, fl, names)), Text("|"), FilterS(<<fl>>, <<PrintS(A)>>)>>, a |-> va, args |-> args, filter |-> fl]
NFil == NF * NO * (1 + NFA + NFA * NFA)

(* argument combinations worth a case of their own whatever the seed *)
Specials == << [filter |-> "batch", a |-> Arr(<<IntV(1)>>), args |-> <<Go("huge:1e18"), Str(S2B("x"))>>],
               [filter |-> "batch", a |-> Arr(<<IntV(1), IntV(2), IntV(3)>>), args |-> <<Go("huge:1e300"), IntV(0)>>],
               [filter |-> "batch", a |-> Go("slice:int:1,2"), args |-> <<Go("big:int64:max"), Str(S2B("x"))>>],
               [filter |-> "round", a |-> Num(96), args |-> <<Go("huge:1e18"), Str(S2B("ceil"))>>],
               [filter |-> "slice", a |-> Arr(<<IntV(1)>>), args |-> <<Go("huge:1e18"), Go("huge:-1e19")>>],
               [filter |-> "number_format", a |-> Num(96), args |-> <<Go("huge:1e18"), Str(S2B(","))>>] >>
(* whole templates of their own: a value nested a million levels deep built by loops and handed to json_encode; a struct whose
   MarshalJSON is promoted from a nil embedded pointer *)
DeepBody == <<SetS("x", ArrE(<<>>)),
              ForS("", "i", Bin("..", IntE(1), IntE(1000)), NoE,
                   <<ForS("", "j", Bin("..", IntE(1), IntE(1000)), NoE, <<SetS("x", ArrE(<<NameE("x")>>))>>, <<>>, FALSE)>>, <<>>, FALSE),
              PrintS(Pipe(Pipe(NameE("x"), "json_encode", <<>>), "length", <<>>))>>
SpecialBodies == << [filter |-> "json_encode", a |-> Null, args |-> <<>>, body |-> DeepBody],
                    [filter |-> "json_encode", a |-> Go("embniltime"), args |-> <<>>, body |-> <<PrintS(Pipe(A, "json_encode", <<>>))>>] >>
NSp == Len(Specials) + Len(SpecialBodies)
Total == NOps + NFil
(* every filter x every value with no argument and with every single argument; two-argument lists by a seeded stride *)
NFil1 == NF * NO * (1 + NFA)
Picked == (0..(NOps + NFil1 - 1)) \cup ((NOps + NFil)..(NOps + NFil + NSp - 1))
          \cup {NOps + NFil1 + SeedMod(FStride) + FStride * m : m \in 0..((NFil - NFil1 - 1 - SeedMod(FStride)) \div FStride)}
Init == GenInit(v_lvl, v_idx)
Next == GenNext(v_lvl, v_idx, Picked, 64)

IncTpl == <<Text("<"), PrintS(NameE("k")), Text(">")>>
IncsTpl == <<SetS("q", IntE(1)), ImportS(StrE("inc"), "m"), Text("["), BlockS("eb", <<Text("d")>>), PrintS(NameE("k")), Text("]"), SetCap("c", <<Text("c")>>)>>
Vecc(j) ==
  IF j < NOps THEN
    LET c == OpsCase(j)
        ctx == ("a" :> c.a) @@ ("b" :> c.b)
        tpls == ("t" :> c.body) @@ ("inc" :> IncTpl) @@ ("incs" :> IncsTpl) @@ ("mlib" :> MLib)
        pure == IsPure(c.a) /\ IsPure(c.b)
        st == IF pure THEN Execute(tpls, "t", ctx).status ELSE "go"
    IN [id |-> "C02-" \o ToString(j), fam |-> "ops", k |-> "render", env |-> "core", tpls |-> tpls, entry |-> "t", ctx |-> ctx,
        nolog |-> TRUE, x |-> [form |-> c.form], ref |-> st]
  ELSE
    LET c == IF j >= NOps + NFil + Len(Specials) THEN SpecialBodies[j - NOps - NFil - Len(Specials) + 1]
             ELSE IF j >= NOps + NFil THEN [Specials[j - NOps - NFil + 1] EXCEPT !.a = @] @@ [body |-> <<PrintS(Pipe(A, Specials[j - NOps - NFil + 1].filter, <<NameE("p1"), NameE("p2")>>))>>]
             ELSE FCase(j - NOps)
        ctx == ("a" :> c.a) @@ [n \in {"p" \o ToString(q) : q \in 1..Len(c.args)} |->
                                   c.args[CHOOSE q \in 1..Len(c.args) : n = "p" \o ToString(q)]]
    IN [id |-> "C02-" \o ToString(j), fam |-> "filters", k |-> "render", env |-> "twig", tpls |-> ("t" :> c.body), entry |-> "t",
        ctx |-> ctx, nolog |-> TRUE, x |-> [filter |-> c.filter], ref |-> "abstract"]
Out == v_lvl < 2 \/ Emit(Vecc(v_idx))
(* the reference executor is defined on every case over template values *)
RefTotal == (v_lvl = 2 /\ v_idx < NOps) => Vecc(v_idx).ref \in {"ok", "err", "oom", "go"}
=============================================================================
