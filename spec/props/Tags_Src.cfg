INIT Init
NEXT Next
INVARIANTS Out AllValid
