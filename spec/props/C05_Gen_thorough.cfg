CONSTANTS Stride = 200
INIT Init
NEXT Next
INVARIANT Out
