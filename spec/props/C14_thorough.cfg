CONSTANTS MaxVary = 3
INIT Init
NEXT Next
INVARIANTS SpellingInvariant CanonIsCanon Out
