------------------------------ MODULE C18_Trace ------------------------------
(* Binding T for C18: calls made concurrently by N goroutines on one shared   *)
(* environment.  ret{g, round, tpl, api, ok, out, alone_ok, alone_out}: the   *)
(* result of the call and the result of the same call made alone; race{n}:    *)
(* number of data races the race detector reported inside the run.            *)
(* A run is accepted iff every call returned exactly its sequential result    *)
(* (ResultAsAlone) and no race was reported (NoSharedMutation).               *)
EXTENDS Naturals, Sequences, TLC, Json, IOUtils
Trace == ndJsonDeserialize(IOEnv.TRACE_FILE)
VARIABLE v_l
ASSUME TLCSet(1, 0)
Why(ev) == IF ev.e = "race" THEN (IF ev.n > 0 THEN "data-race" ELSE "")
           ELSE IF ev.ok # ev.alone_ok THEN "error-differs-from-sequential"
           ELSE IF ev.out # ev.alone_out THEN "output-differs-from-sequential"
           ELSE ""
Init == v_l = 1
Next == /\ v_l <= Len(Trace)
        /\ LET w == Why(Trace[v_l]) IN IF w = "" THEN TRUE ELSE PrintT(ToJson([rej |-> v_l, why |-> w]))
        /\ v_l' = v_l + 1
HighWater == TLCSet(1, IF v_l > TLCGet(1) THEN v_l ELSE TLCGet(1))
Consumed == TLCGet(1) = Len(Trace) + 1
=============================================================================
