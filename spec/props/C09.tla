--------------------------------- MODULE C09 ---------------------------------
(* C09 Template inheritance.  A configuration is data:                        *)
(*   L          chain length (t1 is the entry template, tL the root layout)   *)
(*   spec[l][b] for non-root levels: "abs" | "over" | "overp" (calls parent)  *)
(*   use[l]     "none" | "use" (imports block a from u<l>, which itself calls *)
(*              parent()) | "alias" (imports helper block h as uh, rendered   *)
(*              with block('uh') from the level's own block a)                *)
(*   layout     "flat" | "nested" (b inside a) | "loop" (b inside a loop)     *)
(*   byexpr     parent named by an expression instead of a literal            *)
(* Resolution is stated declaratively (Chain/RenderFrom below) and TLC checks *)
(* the executor's chain walk against it for every configuration.              *)
EXTENDS Vec, SequencesExt, FiniteSetsExt

CONSTANTS MaxL, Stride4
VARIABLES v_lvl, v_idx

BN == <<"a", "b">>
Specs == <<"abs", "over", "overp">>
Uses == <<"none", "use", "alias">>
Layouts == <<"flat", "nested", "loop">>

TName(l) == "t" \o ToString(l)
UName(l) == "u" \o ToString(l)
Lbl(s) == Text(s)
Who(tn) == PrintS(CallE("nul", <<StrE(tn)>>))      \* callback: the argument names the defining template

(* ---- configuration from an index (mixed radix) ---- *)
PerLevel == 27                                       \* 3 * 3 * 3
RECURSIVE Pow27(_)
Pow27(n) == IF n = 0 THEN 1 ELSE 27 * Pow27(n - 1)
CountL(L) == 12 * Pow27(L - 1)                        \* layouts x byexpr x callb x levels
RECURSIVE BaseOf(_)
BaseOf(L) == IF L = 1 THEN 0 ELSE BaseOf(L - 1) + CountL(L - 1)
Total == BaseOf(MaxL) + CountL(MaxL)
LOf(j) == CHOOSE L \in 1..MaxL : BaseOf(L) <= j /\ j < BaseOf(L) + CountL(L)
Config(j) ==
  LET L == LOf(j)
      r == j - BaseOf(L)
      lay == Layouts[(r % 3) + 1]
      bx == ((r \div 3) % 2) = 1
      cb == ((r \div 6) % 2) = 1
      rest == r \div 12
      Dig(l) == (rest \div Pow27(l - 1)) % 27
  IN [L |-> L, layout |-> lay, byexpr |-> bx, callb |-> cb,      \* callb: overrides of a render block('b') and a nested block before calling parent()
      spec |-> [l \in 1..(L - 1) |-> [a |-> Specs[(Dig(l) % 3) + 1], b |-> Specs[((Dig(l) \div 3) % 3) + 1]]],
      use |-> [l \in 1..(L - 1) |-> Uses[((Dig(l) \div 9) % 3) + 1]]]

(* ---- templates of a configuration ---- *)
OwnBlock(c, l, b) ==
  LET sp == c.spec[l][b] IN
  BlockS(b, <<Who(TName(l)), Lbl(TName(l) \o b)>>
            \o (IF c.callb /\ b = "a" THEN <<Lbl("<"), PrintS(CallE("block", <<StrE("b")>>)), Lbl(">"),
                                                BlockS("n" \o ToString(l), <<Lbl("N")>>)>> ELSE <<>>)
            \o (IF sp = "overp" THEN <<Lbl("("), PrintS(CallE("parent", <<>>)), Lbl(")")>> ELSE <<>>)
            \o (IF b = "a" /\ c.use[l] = "alias" THEN <<Lbl("|"), PrintS(CallE("block", <<StrE("uh" \o ToString(l))>>)), Lbl("|")>> ELSE <<>>))
Child(c, l) ==
  <<Lbl("JUNK"),
    ExtendsS(IF c.byexpr THEN (IF l % 2 = 1 THEN NameE("p" \o ToString(l + 1)) ELSE Bin("~", StrE("t"), IntE(l + 1)))
             ELSE StrE(TName(l + 1)))>>
  \o (CASE c.use[l] = "use" -> <<UseS(StrE(UName(l)), <<>>)>>
        [] c.use[l] = "alias" -> <<UseS(StrE(UName(l)), << <<"h", "uh" \o ToString(l)>> >>)>>
        [] OTHER -> <<>>)
  \o (IF c.spec[l].a # "abs" THEN <<OwnBlock(c, l, "a")>> ELSE <<>>)
  \o <<Lbl("junk")>>
  \o (IF c.spec[l].b # "abs" THEN <<OwnBlock(c, l, "b")>> ELSE <<>>)
UsedTpl(c, l) ==
  IF c.use[l] = "use"
  THEN <<BlockS("a", <<Who(UName(l)), Lbl(UName(l) \o "a("), PrintS(CallE("parent", <<>>)), Lbl(")")>>)>>
  ELSE <<BlockS("h", <<Who(UName(l)), Lbl(UName(l) \o "h")>>)>>
Root(c) ==
  LET L == c.L
      rb == BlockS("b", <<Who(TName(L)), Lbl(TName(L) \o "b")>>) IN
  CASE c.layout = "flat" ->
         <<Lbl("^["), BlockS("a", <<Who(TName(L)), Lbl(TName(L) \o "a")>>), Lbl("]["), rb, Lbl("]$")>>
    [] c.layout = "nested" ->
         <<Lbl("^["), BlockS("a", <<Who(TName(L)), Lbl(TName(L) \o "a"), Lbl("<"), rb, Lbl(">")>>), Lbl("]$")>>
    [] OTHER ->
         <<Lbl("^["), BlockS("a", <<Who(TName(L)), Lbl(TName(L) \o "a")>>), Lbl("]"),
           ForS("", "v", ArrE(<<IntE(1), IntE(2)>>), NoE, <<Lbl("["), rb, PrintS(NameE("v")), Lbl("]")>>, <<>>, FALSE), Lbl("$")>>

Templates(c) ==
  LET T == [n \in {TName(l) : l \in 1..c.L} \cup {UName(l) : l \in {q \in 1..(c.L - 1) : c.use[q] # "none"}} |->
              LET l == CHOOSE q \in 1..c.L : n = TName(q) \/ n = UName(q) IN
              IF n = TName(l) THEN (IF l = c.L THEN Root(c) ELSE Child(c, l)) ELSE UsedTpl(c, l)]
  IN T
Ctx == [n \in {"p2", "p3", "p4"} |-> Str(S2B("t" \o SubSeq(n, 2, 2)))]

(* ---- declarative resolution ---- *)
(* definitions of block b, most derived first: <<template name, kind>> *)
RECURSIVE ChainFrom(_, _, _)
ChainFrom(c, b, l) ==
  IF l = c.L THEN << <<TName(l), "root">> >>
  ELSE (IF c.spec[l][b] # "abs" THEN << <<TName(l), c.spec[l][b]>> >> ELSE <<>>)
       \o (IF b = "a" /\ c.use[l] = "use" THEN << <<UName(l), "used">> >> ELSE <<>>)
       \o ChainFrom(c, b, l + 1)
Chain(c, b) == ChainFrom(c, b, 1)

RECURSIVE RenderFrom(_, _, _)
RenderFrom(c, b, pos) ==
  LET ch == Chain(c, b)
      d == ch[pos]
      lev == CHOOSE q \in 1..c.L : d[1] = TName(q) \/ d[1] = UName(q) IN
  CASE d[2] = "root" -> S2B(d[1] \o b) \o (IF b = "a" /\ c.layout = "nested" THEN S2B("<") \o RenderFrom(c, "b", 1) \o S2B(">") ELSE <<>>)
    [] d[2] = "used" -> S2B(d[1] \o "a(") \o RenderFrom(c, b, pos + 1) \o S2B(")")
    [] OTHER -> S2B(d[1] \o b)
                \o (IF c.callb /\ b = "a" THEN S2B("<") \o RenderFrom(c, "b", 1) \o S2B(">N") ELSE <<>>)
                \o (IF d[2] = "overp" THEN S2B("(") \o RenderFrom(c, b, pos + 1) \o S2B(")") ELSE <<>>)
                \o (IF b = "a" /\ c.use[lev] = "alias" THEN S2B("|" \o UName(lev) \o "h|") ELSE <<>>)
Resolved(c, b) == RenderFrom(c, b, 1)
Expected(c) ==
  CASE c.layout = "flat" -> S2B("^[") \o Resolved(c, "a") \o S2B("][") \o Resolved(c, "b") \o S2B("]$")
    [] c.layout = "nested" -> S2B("^[") \o Resolved(c, "a") \o S2B("]$")
    [] OTHER -> S2B("^[") \o Resolved(c, "a") \o S2B("]") \o S2B("[") \o Resolved(c, "b") \o S2B("1]")
                \o S2B("[") \o Resolved(c, "b") \o S2B("2]") \o S2B("$")

(* ---- stand-alone users: a template that imports blocks with use but extends nothing (and may define no block itself) ---- *)
NSolo == 18
SoloU == ("u" :> <<BlockS("h", <<Who("u"), Lbl("uh")>>)>>) @@ ("u2" :> <<BlockS("h2", <<Who("u2"), Lbl("u2h")>>)>>)
SoloBody(k) ==
  CASE k = 1 -> <<UseS(StrE("u"), << <<"h", "g">> >>), Lbl("^"), PrintS(CallE("block", <<StrE("g")>>)), Lbl("$")>>
    [] k = 3 -> <<UseS(StrE("u"), <<>>), Lbl("^"), BlockS("own", <<Lbl("o")>>), PrintS(CallE("block", <<StrE("h")>>)), Lbl("$")>>
    [] k = 4 -> <<UseS(StrE("u"), <<>>), UseS(StrE("u2"), <<>>), Lbl("^"), PrintS(CallE("block", <<StrE("h2")>>)), PrintS(CallE("block", <<StrE("h")>>)), Lbl("$")>>
    [] OTHER -> <<UseS(StrE("u"), <<>>), Lbl("^"), PrintS(CallE("block", <<StrE("h")>>)), Lbl("$")>>
(* the same block library imported more than once in one rendering, with an alias at one place only: an alias belongs to
   the use statement that declares it *)
TwiceTpls(k) ==
  ("traits" :> <<BlockS("a", <<Lbl("T.a")>>)>>)
  @@ ("other" :> <<BlockS("side", <<Lbl("O.side["), PrintS(CallE("parent", <<>>)), Lbl("]")>>)>>)
  @@ ("root" :> <<Lbl("<"), BlockS("a", <<Lbl("R.a")>>), Lbl("|"), BlockS("side", <<Lbl("R.side")>>), Lbl(">")>>)
  @@ ("mid" :> <<ExtendsS(StrE("root")), UseS(StrE("traits"), << <<"a", "side">> >>),
                 BlockS("side", <<Lbl("M.side["), PrintS(CallE("parent", <<>>)), Lbl("]")>>)>>)
  @@ ("t1" :> IF k = 8 THEN <<ExtendsS(StrE("root")), UseS(StrE("traits"), <<>>), UseS(StrE("other"), <<>>), UseS(StrE("traits"), << <<"a", "side">> >>)>>
              ELSE <<ExtendsS(StrE("mid")), UseS(StrE("traits"), <<>>)>>)
(* blocks written inside the branch of an if (then, elseif, else) are blocks of their template like any other *)
PB(pre) == <<Lbl(pre \o "["), PrintS(CallE("parent", <<>>)), Lbl("]")>>
CondTpls(k) ==
  ("root" :> <<Lbl("<"), BlockS("a", <<Lbl("R.a")>>), Lbl("|"),
               IfS(BoolE(TRUE), <<BlockS("c", <<Who("root"), Lbl("R.c")>>)>>, <<>>, FALSE), Lbl(">")>>)
  @@ ("mid" :> <<ExtendsS(StrE("root")),
                 CASE k = 9 -> IfS(BoolE(TRUE), <<BlockS("a", <<Who("mid")>> \o PB("M.a"))>>, <<>>, FALSE)
                   [] k = 10 -> IfChain(<<[c |-> BoolE(FALSE), body |-> <<Lbl("no")>>], [c |-> BoolE(TRUE), body |-> <<BlockS("a", <<Who("mid")>> \o PB("M.a"))>>]>>, <<>>, FALSE)
                   [] k = 11 -> IfS(BoolE(FALSE), <<Lbl("no")>>, <<BlockS("a", <<Who("mid")>> \o PB("M.a"))>>, TRUE)
                   [] OTHER -> IfS(BoolE(TRUE), <<BlockS("c", <<Who("mid")>> \o PB("M.c"))>>, <<>>, FALSE)>>)
  @@ ("t1" :> <<ExtendsS(StrE("mid")), BlockS("a", <<Who("t1")>> \o PB("C.a")), BlockS("c", <<Who("t1")>> \o PB("C.c"))>>)
(* a block rendered more than once in one execution, where what it and its parent() print differs between the renderings *)
LoopTpls(k) ==
  ("root" :> IF k = 13 THEN <<Lbl("<"), ForS("", "v", ArrE(<<IntE(1), IntE(2), IntE(3)>>), NoE, <<BlockS("a", <<Lbl("R"), PrintS(NameE("v"))>>)>>, <<>>, FALSE), Lbl("|"),
                              ForS("", "v", ArrE(<<IntE(7), IntE(8)>>), NoE, <<PrintS(CallE("block", <<StrE("a")>>))>>, <<>>, FALSE), Lbl(">")>>
             ELSE <<Lbl("<"), SetS("v", StrE("p")), BlockS("a", <<Lbl("R"), PrintS(NameE("v"))>>), SetS("v", StrE("q")), PrintS(CallE("block", <<StrE("a")>>)), Lbl(">")>>)
  @@ ("mid" :> <<ExtendsS(StrE("root")), BlockS("a", PB("M"))>>)
  @@ ("t1" :> <<ExtendsS(StrE("mid")), BlockS("a", <<Lbl("C"), PrintS(NameE("v"))>> \o PB(""))>>)
(* aliases: parent() inside a block imported under an alias is the ancestors' version of the ALIAS name; several aliases of one
   use statement all refer to the library's own names (a swap is a swap) *)
AliasTpls(k) ==
  ("lib" :> <<BlockS("a", <<Lbl("LA")>>), BlockS("b", <<Lbl("LB")>>), BlockS("box", PB("B"))>>)
  @@ ("root" :> <<Lbl("<"), BlockS("content", <<Lbl("R.c")>>), Lbl("|"), BlockS("a", <<Lbl("Ra")>>), Lbl("|"), BlockS("b", <<Lbl("Rb")>>), Lbl(">")>>)
  @@ ("t1" :> <<ExtendsS(StrE("root")),
                UseS(StrE("lib"), CASE k = 15 -> << <<"box", "content">> >>
                                    [] k = 16 -> << <<"a", "b">>, <<"b", "a">> >>
                                    [] OTHER -> << <<"box", "content">>, <<"a", "b">>, <<"b", "a">> >>)>>)
SoloTpls(k) == IF k >= 15 THEN AliasTpls(k) ELSE IF k >= 13 THEN LoopTpls(k) ELSE IF k >= 9 THEN CondTpls(k) ELSE IF k >= 6 THEN TwiceTpls(k) ELSE SoloU @@ ("t1" :> SoloBody(k))
               @@ (CASE k = 2 -> ("top" :> <<Lbl("["), IncludeS(StrE("t1"), NoE, FALSE), Lbl("]")>>)
                     [] k = 5 -> ("top" :> <<Lbl("["), EmbedS(StrE("t1"), NoE, FALSE, <<>>), Lbl("]")>>)
                     [] OTHER -> <<>>)
SoloEntry(k) == IF k \in {2, 5} THEN "top" ELSE IF k = 6 THEN "mid" ELSE "t1"
SoloExpected(k) == CASE k = 15 -> S2B("<B[R.c]|LA|LB>") [] k = 16 -> S2B("<R.c|LB|LA>") [] k = 17 -> S2B("<B[R.c]|LB|LA>")
                     [] k = 13 -> S2B("<C1[M[R1]]C2[M[R2]]C3[M[R3]]|C7[M[R7]]C8[M[R8]]>") [] k = 14 -> S2B("<Cp[M[Rp]]Cq[M[Rq]]>")
                     [] k \in {9, 10, 11} -> S2B("<C.a[M.a[R.a]]|C.c[R.c]>") [] k = 12 -> S2B("<C.a[R.a]|C.c[M.c[R.c]]>")
                     [] k \in {6, 7} -> S2B("<T.a|M.side[T.a]>") [] k = 8 -> S2B("<T.a|O.side[T.a]>") [] k = 1 -> S2B("^uh$") [] k = 3 -> S2B("^ouh$") [] k = 4 -> S2B("^u2huh$")
                     [] k \in {2, 5} -> S2B("[^uh$]") [] OTHER -> S2B("^uh$")
IsSolo == v_idx >= Total

Small == IF MaxL >= 4 THEN BaseOf(4) ELSE Total          \* every configuration with L <= 3
Picked == (0..(Small - 1)) \cup {Small + SeedMod(Stride4) + Stride4 * m : m \in 0..((Total - Small - 1 - SeedMod(Stride4)) \div Stride4)}
          \cup (Total..(Total + NSolo - 1))
Init == GenInit(v_lvl, v_idx)
Next == GenNext(v_lvl, v_idx, Picked, 64)
Cur == Config(IF IsSolo THEN 0 ELSE v_idx)
Ref == IF IsSolo THEN Execute(SoloTpls(v_idx - Total), SoloEntry(v_idx - Total), Ctx) ELSE Execute(Templates(Cur), "t1", Ctx)
Out == v_lvl < 2 \/ IF IsSolo THEN Emit(RenderVec("C09-" \o ToString(v_idx), "use-alone", SoloTpls(v_idx - Total), SoloEntry(v_idx - Total), Ctx, [L |-> 1, over |-> TRUE])) ELSE Emit(RenderVec("C09-" \o ToString(v_idx), "inherit", Templates(Cur), "t1", Ctx,
                                   [L |-> Cur.L, over |-> \E l \in 1..(Cur.L - 1) : Cur.spec[l].a # "abs" \/ Cur.spec[l].b # "abs"]))

--------------------------------------------------------------------------
(* every block is replaced by its most-derived override; parent() is the next definition; child content
   outside blocks is not rendered *)
MostDerivedWins == v_lvl = 2 => LET R == Ref IN (R.status = "ok" /\ MainOut(R) = (IF IsSolo THEN SoloExpected(v_idx - Total) ELSE Expected(Cur)))
(* a callback run inside a block sees the name of the template that defines the block *)
NameInBlock == v_lvl = 2 =>
  LET lg == Ref.log IN \A q \in 1..Len(lg) : lg[q].e = "cb" => lg[q].args[1] = Str(S2B(lg[q].tname))
=============================================================================
