--------------------------------- MODULE C03 ---------------------------------
(* C03 Literal text, comments and verbatim sections.  Skeletons interleave     *)
(* literal chunks (multi-byte UTF-8, LF, CR LF, lone { } % #, closing          *)
(* delimiters, '-') with prints, comments, verbatim sections and the bodies    *)
(* of if/for/block/set/filter/macro.  Expected(k) is defined by structural     *)
(* recursion on the skeleton (chunks verbatim, comments empty, verbatim body   *)
(* literal); TLC checks that the executor writes exactly that.                 *)
(* Region: a literal run followed by a construct does not end in '{' (it would *)
(* form an opening delimiter with it).                                         *)
EXTENDS Vec, SequencesExt, FiniteSetsExt

CONSTANTS Deep
VARIABLES v_lvl, v_idx

Ctx == ("x" :> Str(S2B("X"))) @@ ("a" :> Bool(TRUE))

Chunks == { <<>>, S2B("a"), <<195, 169>>, <<226, 130, 172>>, <<10>>, <<13, 10>>, S2B("{"), S2B("}"), S2B("%"), S2B("#"),
            S2B("}}"), S2B("%}"), S2B("#}"), S2B("-"), S2B(" "), S2B("{ {"), S2B("a{b}c"), <<240, 159, 152, 128, 9>>,
            S2B("-#}"), S2B("-%}"), S2B("-}}") }        \* closing delimiters with a marker, as literal text
BeforeOK(ch) == ch = <<>> \/ ch[Len(ch)] # 123      \* does not end in '{'

(* a piece: [stmts, out, defs] *)
Pc(stmts, out) == [stmts |-> stmts, out |-> out, defs |-> <<>>]
ChunkP(ch) == IF ch = <<>> THEN Pc(<<>>, <<>>) ELSE Pc(<<TextB(ch)>>, ch)
PrintP == Pc(<<PrintS(NameE("x"))>>, S2B("X"))
CommentP(d) == Pc(<<[k |-> "comment", d |-> d]>>, <<>>)
VerbP(d) == Pc(<<VerbatimB(d)>>, d)
Cat(p, q) == [stmts |-> p.stmts \o q.stmts, out |-> p.out \o q.out, defs |-> p.defs \o q.defs]

Simple == { PrintP, CommentP(S2B(" c ")), CommentP(<<32, 195, 169, 10, 32>>), CommentP(S2B(" {{ x }} {% if %} ")),
            CommentP(<<>>), CommentP(S2B("- c -")),
            VerbP(S2B("v")), VerbP(S2B(" {{ x }} ")), VerbP(S2B("x {% if a %} y")), VerbP(S2B("{# c #}")),
            VerbP(S2B("{ } % #")), VerbP(<<195, 169, 10>>), VerbP(S2B("{{ x }}{% endif %}")), VerbP(S2B("{%if a%}y{%endif%}")) }

WrapKinds == {"if", "for", "block", "set", "filter", "macro", "else", "forelse", "fornull"}
Wrap(kind, n, p) ==
  CASE kind = "if" -> [stmts |-> <<IfS(NameE("a"), p.stmts, <<Text("NO")>>, TRUE)>>, out |-> p.out, defs |-> p.defs]
    [] kind = "else" -> [stmts |-> <<IfS(Un("not", NameE("a")), <<Text("NO")>>, p.stmts, TRUE)>>, out |-> p.out, defs |-> p.defs]
    [] kind = "for" -> [stmts |-> <<ForS("", "v", ArrE(<<IntE(1), IntE(2)>>), NoE, p.stmts, <<>>, FALSE)>>, out |-> p.out \o p.out, defs |-> p.defs]
    (* the else branch of a loop over nothing: its text is emitted once, whatever the (unrendered) body consists of *)
    [] kind = "forelse" -> [stmts |-> <<ForS("", "v", ArrE(<<>>), NoE, <<Text("NO")>>, p.stmts, TRUE)>>, out |-> p.out, defs |-> p.defs]
    [] kind = "fornull" -> [stmts |-> <<ForS("k", "v", NameE("nothing"), NoE, <<Text("N"), PrintS(NameE("v")), Text("O")>>, p.stmts, TRUE)>>, out |-> p.out, defs |-> p.defs]
    [] kind = "block" -> [stmts |-> <<BlockS("b" \o ToString(n), p.stmts)>>, out |-> p.out, defs |-> p.defs]
    [] kind = "set" -> [stmts |-> <<SetCap("c" \o ToString(n), p.stmts), PrintS(NameE("c" \o ToString(n)))>>, out |-> p.out, defs |-> p.defs]
    [] kind = "filter" -> [stmts |-> <<FilterS(<<"up">>, p.stmts)>>, out |-> AsciiUpper(p.out), defs |-> p.defs]
    [] OTHER -> [stmts |-> <<PrintS(AttrCall(NameE("_self"), "m" \o ToString(n), <<>>))>>, out |-> p.out,
                 defs |-> p.defs \o <<MacroS("m" \o ToString(n), <<>>, p.stmts)>>]

(* inside a body the second chunk is followed by the end tag, so it must not end in '{' either *)
Inner1 == { Cat(Cat(ChunkP(c1), s), ChunkP(c2)) : c1 \in {c \in Chunks : BeforeOK(c)}, s \in {PrintP, CommentP(S2B(" c ")), VerbP(S2B("{{ x }}"))},
            c2 \in {c \in Chunks : BeforeOK(c)} }
Around(p) == Cat(Cat(ChunkP(S2B("a")), p), ChunkP(S2B("b")))

Skeletons ==
  { Cat(Cat(ChunkP(c1), s), ChunkP(c2)) : c1 \in {c \in Chunks : BeforeOK(c)}, s \in Simple, c2 \in Chunks }
  \cup { ChunkP(c) : c \in Chunks }
  (* two constructs with a literal run between them: the first one's end must not be looked for past its own close *)
  \cup { Cat(Cat(Cat(Cat(ChunkP(c1), s1), ChunkP(c2)), s2), ChunkP(c3)) :
            c1 \in {<<>>, S2B("a")}, c3 \in {<<>>, S2B("b")}, c2 \in {c \in Chunks : BeforeOK(c)},
            s1 \in {PrintP, CommentP(S2B(" c ")), CommentP(S2B("- c -")), VerbP(S2B("{{ x }}"))},
            s2 \in {PrintP, CommentP(S2B(" d ")), CommentP(S2B("- d -")), CommentP(S2B(" d -")), VerbP(S2B("{# x #}"))} }
  \cup { Cat(ChunkP(c1), ChunkP(S2B(" ") \o c2)) : c1 \in Chunks, c2 \in Chunks }
  \cup { Around(Wrap(kd, 1, p)) : kd \in WrapKinds, p \in Inner1 }
  (* bodies that are one literal chunk and nothing else *)
  \cup { Around(Wrap(kd, 1, ChunkP(c))) : kd \in WrapKinds, c \in {ch \in Chunks : BeforeOK(ch)} }
  \cup (IF Deep THEN { Around(Wrap(k2, 2, Around(Wrap(k1, 1, p)))) : k1 \in WrapKinds, k2 \in WrapKinds,
                       p \in {q \in Inner1 : q.stmts[1].k # "verbatim"} }
        ELSE { Around(Wrap(k2, 2, Around(Wrap(k1, 1, Cat(Cat(ChunkP(c1), PrintP), ChunkP(<<10>>)))))) :
                 k1 \in WrapKinds, k2 \in WrapKinds, c1 \in {<<>>, <<195, 169>>, S2B("%}")} })

Cases == SetToSeq(Skeletons)
NC == Len(Cases)
(* every skeleton in two spellings: canonical {% if x %} and tight {%if x%} *)
Picked == 1..(2 * NC)
Init == GenInit(v_lvl, v_idx)
Next == GenNext(v_lvl, v_idx, Picked, 64)
Cur == Cases[((v_idx - 1) % NC) + 1]
Tight == v_idx > NC
Tpls == Tpl1("t", Cur.defs \o Cur.stmts)
Ref == Execute(Tpls, "t", Ctx)
Vecc == LET v == RenderVec("C03-" \o ToString(v_idx), IF Tight THEN "tight" ELSE "canonical", Tpls, "t", Ctx,
                           [nchunks |-> Len(SelectSeq(Cur.stmts, LAMBDA st : st.k = "text")), nstmts |-> Len(Cur.stmts)])
        IN IF Tight THEN [v EXCEPT !.x = [nchunks |-> v.x.nchunks, nstmts |-> v.x.nstmts]] @@ [sp |-> [tight |-> TRUE]] ELSE v
Out == v_lvl < 2 \/ Emit(Vecc)

Faithful == v_lvl = 2 => LET R == Ref IN (R.status = "ok" /\ MainOut(R) = Cur.out)
=============================================================================
