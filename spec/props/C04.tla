--------------------------------- MODULE C04 ---------------------------------
(* C04 Operator precedence and associativity.  A chain is a sequence of links *)
(* (a binary operator followed by an operand, or a test "is odd"/"is not      *)
(* even"), with optional unary prefixes and an optional conditional.          *)
(* TLC checks for every chain that the precedence-climbing reference          *)
(* (Syntax!ParseTokens) yields a Valid tree, that it is the ONLY valid tree   *)
(* with that frontier, and that parsing its fully parenthesised form gives    *)
(* the same tree; it prints the reference tree and value for replay.          *)
EXTENDS Vec, Syntax, SequencesExt, FiniteSetsExt

CONSTANTS Stride3, Stride4, MaxLen
VARIABLES v_lvl, v_idx

BinList == << "or", "and", "b-or", "b-xor", "b-and", "==", "!=", "<", "<=", ">", ">=", "not in", "in", "matches",
              "starts with", "ends with", "..", "+", "-", "~", "*", "/", "//", "%", "**" >>
(* links 1..25 binary operators, 26 = "is odd", 27 = "is not even" *)
NLink == 27
Operand(n) == CASE n = 1 -> IntE(7) [] n = 2 -> IntE(2) [] n = 3 -> IntE(3) [] n = 4 -> IntE(5) [] OTHER -> IntE(1)
Atom(x) == [t |-> "atom", x |-> x]
RECURSIVE LinkToks(_, _)
LinkToks(links, nextOpd) ==
  IF links = <<>> THEN <<>>
  ELSE IF Head(links) <= 25 THEN <<[t |-> "op", op |-> BinList[Head(links)]], Atom(Operand(nextOpd))>> \o LinkToks(Tail(links), nextOpd + 1)
  ELSE <<[t |-> "test", neg |-> (Head(links) = 27), name |-> IF Head(links) = 26 THEN "odd" ELSE "even"]>> \o LinkToks(Tail(links), nextOpd)
(* unary variants: 0 none, 1 "-" on the first operand, 2 "not" on the first, 3 "not" on the second operand, 4 "-" on the last operand,
   5 "not (a)" and 6 "-(a)" on the first operand, 7 "not not", 8 "- -", 9 "not -" before the first operand *)
RECURSIVE NthAtom(_, _, _)
NthAtom(toks, n, q) == IF q > Len(toks) THEN 0
                       ELSE IF toks[q].t = "atom" THEN (IF n = 1 THEN q ELSE NthAtom(toks, n - 1, q + 1)) ELSE NthAtom(toks, n, q + 1)
NumAtoms(toks) == Cardinality({q \in 1..Len(toks) : toks[q].t = "atom"})
InsertTok(toks, q, tk) == SubSeq(toks, 1, q - 1) \o <<tk>> \o SubSeq(toks, q, Len(toks))
WithUnary(toks, u) ==
  CASE u = 0 -> toks
    [] u = 1 -> InsertTok(toks, 1, [t |-> "un", op |-> "-"])
    [] u = 2 -> InsertTok(toks, 1, [t |-> "un", op |-> "not"])
    [] u = 3 -> IF NumAtoms(toks) >= 2 THEN InsertTok(toks, NthAtom(toks, 2, 1), [t |-> "un", op |-> "not"]) ELSE toks
    [] u = 4 -> IF NumAtoms(toks) >= 2 THEN InsertTok(toks, NthAtom(toks, NumAtoms(toks), 1), [t |-> "un", op |-> "-"]) ELSE toks
    (* 5, 6: the first operand is written in parentheses after "not" / "-" (partial parenthesisation) *)
    [] u \in {5, 6} -> <<[t |-> "un", op |-> (IF u = 5 THEN "not" ELSE "-")], [t |-> "lp"], toks[1], [t |-> "rp"]>> \o Tail(toks)
    (* 7..9: stacked prefix operators: not not a, - - a, not - a *)
    [] OTHER -> <<[t |-> "un", op |-> (IF u = 8 THEN "-" ELSE "not")], [t |-> "un", op |-> (IF u = 7 THEN "not" ELSE "-")]>> \o toks
ChainToks(links, u) == WithUnary(<<Atom(Operand(1))>> \o LinkToks(links, 2), u)
(* conditional variants: 0 none, 1 trailing (chain ? 8 : 9), 2 inner (1 ? chain : 9), 3/4 chained in the else position *)
WithTern(tree, tv) ==
  CASE tv = 0 -> tree
    [] tv = 1 -> [k |-> "tern", c |-> tree, t |-> IntE(8), f |-> IntE(9)]
    [] tv = 2 -> [k |-> "tern", c |-> IntE(1), t |-> tree, f |-> IntE(9)]
    (* chained: a ? 8 : b ? 9 : 7 groups to the right; the first condition is truthy or falsy depending on the chain *)
    [] tv = 3 -> [k |-> "tern", c |-> tree, t |-> IntE(8), f |-> [k |-> "tern", c |-> IntE(0), t |-> IntE(9), f |-> IntE(7)]]
    [] OTHER -> [k |-> "tern", c |-> IntE(1), t |-> IntE(8), f |-> [k |-> "tern", c |-> tree, t |-> IntE(9), f |-> IntE(7)]]

(* index -> configuration *)
RECURSIVE PowN(_, _)
PowN(b, n) == IF n = 0 THEN 1 ELSE b * PowN(b, n - 1)
Variants == 50
CountLen(n) == PowN(NLink, n) * Variants
RECURSIVE BaseLen(_)
BaseLen(n) == IF n = 1 THEN 0 ELSE BaseLen(n - 1) + CountLen(n - 1)
Total == BaseLen(MaxLen) + CountLen(MaxLen)
LenOf(j) == CHOOSE n \in 1..MaxLen : BaseLen(n) <= j /\ j < BaseLen(n) + CountLen(n)
Cfg(j) == LET n == LenOf(j)
              r == j - BaseLen(n)
              vr == r % Variants
              code == r \div Variants
          IN [links |-> [q \in 1..n |-> ((code \div PowN(NLink, q - 1)) % NLink) + 1], u |-> vr % 10, tv |-> vr \div 10]

Small == IF MaxLen >= 3 THEN BaseLen(3) ELSE Total
End3 == IF MaxLen >= 4 THEN BaseLen(4) ELSE Total
Picked == (0..(Small - 1))
          \cup {Small + SeedMod(Stride3) + Stride3 * m : m \in 0..((End3 - Small - 1 - SeedMod(Stride3)) \div Stride3)}
          \cup (IF MaxLen >= 4 THEN {End3 + SeedMod(Stride4) + Stride4 * m : m \in 0..((Total - End3 - 1 - SeedMod(Stride4)) \div Stride4)} ELSE {})
Init == GenInit(v_lvl, v_idx)
Next == GenNext(v_lvl, v_idx, Picked, 64)

Toks == LET c == Cfg(v_idx) IN ChainToks(c.links, c.u)
RefTree == ParseTokens(Toks)
Vecc ==
  LET c == Cfg(v_idx)
      tree == WithTern(RefTree, c.tv)
      ev == Eval(AddGroups(tree), InitState(<<>>, EmptyScope, 6))
      st == ev[2].status
      outb == IF st = "ok" THEN CoerceBytes(ev[1]) ELSE <<>>
  IN [id |-> "C04-" \o ToString(v_idx), k |-> "c04", flat |-> tree, paren |-> AddGroups(tree), ctx |-> EmptyScope,
      x |-> [len |-> Len(c.links), u |-> c.u, tv |-> c.tv],
      exp |-> [shape |-> StripGroups(tree), status |-> (IF st = "ok" /\ BytesOOM(outb) THEN "oom" ELSE st), out |-> (IF BytesOOM(outb) THEN <<>> ELSE outb)]]
Out == v_lvl < 2 \/ Emit(Vecc)

--------------------------------------------------------------------------
NoParens == \A q \in 1..Len(Toks) : Toks[q].t \notin {"lp", "rp"}
ParseIsValidTree == v_lvl = 2 => (Valid(RefTree) /\ (NoParens => Frontier(RefTree) = Toks))
(* uniqueness is checked by enumerating every bracketing of chains with up to 3 links *)
ValidTreeUnique == (v_lvl = 2 /\ Len(Cfg(v_idx).links) <= 3 /\ NoParens) => {t \in TreesOf(Toks) : Valid(t)} = {RefTree}
ParenRoundTrip == v_lvl = 2 => StripGroups(ParseTokens(ParenTokens(RefTree))) = StripGroups(RefTree)
=============================================================================
