INIT Init
NEXT Next
INVARIANTS LexesCleanly
