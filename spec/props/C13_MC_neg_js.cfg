CONSTANTS
  FnSet = {"js!5"}
  MaxPlane = 1
INIT Init
NEXT Next
INVARIANTS OutputInert Lossless1 PairsLossless
