INIT Init
NEXT Next
INVARIANTS FloorDiv ModSign DivExact RangeInclusive Trichotomy ConcatIsJuxtaposition NotInIsNegation
  AddSubInverse MulCommutes PowIsRepeatedMul NumStrNum CallLogInSourceOrder
