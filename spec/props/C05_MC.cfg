INIT Init
NEXT Next
INVARIANTS FloorDiv ModSign DivExact RangeInclusive RangeDescending Trichotomy ConcatIsJuxtaposition NotInIsNegation
  AddSubInverse MulCommutes PowIsRepeatedMul NumStrNum CallLogInSourceOrder
