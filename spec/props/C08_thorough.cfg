CONSTANTS MaxDepth = 5
INIT Init
NEXT Next
INVARIANTS Out CaptureExact FailureLeavesCaptureOut Balanced MainOnlyFromDepth0 OrderPreserved
