CONSTANTS MaxDepth = 5
INIT Init
NEXT Next
INVARIANTS Out CaptureExact Balanced MainOnlyFromDepth0 OrderPreserved
