CONSTANTS
  FnSet = {"html", "html_attr", "js", "css", "url"}
  MaxPlane = 1
INIT Init
NEXT Next
INVARIANTS OutputInert Lossless1 PairsLossless
