INIT Init
NEXT Next
INVARIANTS Out PositionalBinding ThreeFormsAgree NameInMacro
