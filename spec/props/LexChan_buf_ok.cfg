CONSTANTS
  MaxToks = 6
  CloseOnError = TRUE
  Cap = 3
  Drain = TRUE
SPECIFICATION Spec
INVARIANTS TypeOK OrderOK NoLexerAtReturn
PROPERTIES LexerExits ParserNeverStuck ParserReturns
