CONSTANTS N = 2
  M = 2
INIT Init
NEXT Next
INVARIANTS Out Decided VerbatimIsLiteral
