--------------------------------- MODULE C10 ---------------------------------
(* C10 include / embed.  A configuration is data                               *)
(*   kind   include | embed          mode  plain | with | only | withonly      *)
(*   site   top | loop | block | macro                                         *)
(*   target tv (prints variables) | ts (sets colliding names) | te (extends    *)
(*          another template) | tp (blocks p, q)                               *)
(*   over   blocks overridden in the embed body (each plain or with parent())  *)
(*   hostp  the host template defines its own block p                          *)
(*   twice  the construct appears twice, the second with the other overrides   *)
(* Expected(c) is defined by cases on this data, independently of the          *)
(* executor (fresh state, context = visible scope + with-hash, chain =         *)
(* [embed blocks, target chain]); TLC checks the executor against it.          *)
EXTENDS Vec, SequencesExt, FiniteSetsExt

VARIABLES v_lvl, v_idx

Modes == {"plain", "with", "only", "withonly", "withvar", "withvaronly", "withgo", "withgoonly", "withptr", "withptronly"}     \* withvar: the hash is a variable of the host; withgo: a Go map[string]int handed in through the context
Sites == {"top", "loop", "block", "macro"}
HasWith(m) == m \in {"with", "withonly", "withvar", "withvaronly", "withgo", "withgoonly", "withptr", "withptronly"}
WithVar(m) == m \in {"withvar", "withvaronly"}
IsOnly(m) == m \in {"only", "withonly", "withvaronly", "withgoonly", "withptronly"}
WithGo(m) == m \in {"withgo", "withgoonly"}
WithPtr(m) == m \in {"withptr", "withptronly"}          \* the same Go map behind a pointer: a hash like any other (it iterates, it has keys)
OverSpecs == {<<>>, <<"p">>, <<"q">>, <<"p", "q">>, <<"pP">>, <<"pP", "qP">>, <<"pN">>, <<"pE", "q">>}
  \* xP = override calling parent(); pN = override of p whose body contains a nested block q (which overrides the target's q as well)
OName(o) == SubSeq(o, 1, 1)
OPar(o) == Len(o) = 2 /\ SubSeq(o, 2, 2) = "P"
ONest(o) == Len(o) = 2 /\ SubSeq(o, 2, 2) = "N"
OEmb(o) == Len(o) = 2 /\ SubSeq(o, 2, 2) = "E"     \* pE = override of p whose body embeds tp again, overriding q there: overrides belong to their own embed
Complement(ov) == CASE ov = <<>> -> <<"p", "q">> [] ov = <<"p">> -> <<"q">> [] ov = <<"q">> -> <<"pP">>
                    [] ov = <<"p", "q">> -> <<>> [] ov = <<"pP">> -> <<"qP">> [] ov = <<"pN">> -> <<"q">> [] ov = <<"pE", "q">> -> <<"pP">> [] OTHER -> <<"p">>

Configs ==
  { [kind |-> "include", mode |-> m, site |-> s, target |-> t, over |-> <<>>, hostp |-> hp, twice |-> tw]
      : m \in Modes, s \in Sites, t \in {"tv", "ts", "te", "tp", "tq", "tu"}, hp \in BOOLEAN, tw \in BOOLEAN }
  \cup
  { [kind |-> "embed", mode |-> m, site |-> s, target |-> t, over |-> ov, hostp |-> hp, twice |-> tw]
      : m \in Modes, s \in Sites, t \in {"te", "tp", "tq", "tu"}, ov \in OverSpecs, hp \in BOOLEAN, tw \in BOOLEAN }

WithHash == HashE(<< <<NameE("w"), IntE(3)>>, <<NameE("a"), IntE(9)>> >>)
X(c, ov) ==
  LET with == IF WithVar(c.mode) THEN NameE("wh") ELSE IF WithGo(c.mode) THEN NameE("gw") ELSE IF WithPtr(c.mode) THEN NameE("gp") ELSE IF HasWith(c.mode) THEN WithHash ELSE NoE IN
  IF c.kind = "include" THEN IncludeS(StrE(c.target), with, IsOnly(c.mode))
  ELSE EmbedS(StrE(c.target), with, IsOnly(c.mode),
              [q \in 1..Len(ov) |-> [name |-> OName(ov[q]),
                                     body |-> <<Text("h" \o OName(ov[q])), PrintS(NameE("w"))>>
                                              \o (IF OPar(ov[q]) THEN <<Text("("), PrintS(CallE("parent", <<>>)), Text(")")>> ELSE <<>>)
                                              \o (IF ONest(ov[q]) THEN <<Text("["), BlockS("q", <<Text("nq"), PrintS(NameE("w"))>>), Text("]")>> ELSE <<>>)
                                              \o (IF OEmb(ov[q]) THEN <<Text("["), EmbedS(StrE("tp"), NoE, FALSE, <<[name |-> "q", body |-> <<Text("iq")>>]>>), Text("]")>> ELSE <<>>)]])
Constructs(c) == IF c.twice THEN <<X(c, c.over), Text("+"), X(c, Complement(c.over))>> ELSE <<X(c, c.over)>>

Host(c) ==
  LET xs == Constructs(c)
      pre == <<SetS("a", IntE(1)), SetS("b", IntE(2)), SetS("v", StrE("o")), SetS("wh", WithHash)>> \o (IF c.hostp THEN <<BlockS("p", <<Text("HP")>>), BlockS("q", <<Text("HQ")>>)>> ELSE <<>>)
      post == <<Text(";"), PrintS(NameE("a")), PrintS(NameE("n")), Text("|"), PrintS(AttrDot(NameE("wh"), "a")),
                PrintS(AttrDot(NameE("wh"), "w")), PrintS(AttrDot(NameE("wh"), "n"))>>
  IN CASE c.site = "top" -> pre \o <<Text("H1")>> \o xs \o <<Text("H2")>> \o post
       [] c.site = "loop" -> pre \o <<Text("H1"), ForS("", "v", ArrE(<<IntE(1), IntE(2)>>), NoE, xs \o <<Text(",")>>, <<>>, FALSE), Text("H2")>> \o post
       [] c.site = "block" -> pre \o <<Text("H1"), BlockS("main", xs), Text("H2")>> \o post
       [] OTHER -> <<MacroS("mm", <<"a">>, <<Text("M[")>> \o xs \o <<Text("]")>>)>> \o pre
                   \o <<Text("H1"), PrintS(AttrCall(NameE("_self"), "mm", <<StrE("A")>>)), Text("H2")>> \o post

Targets ==
  ("tv" :> <<Text("<"), PrintS(NameE("a")), Text("|"), PrintS(NameE("b")), Text("|"), PrintS(NameE("w")), Text("|"), PrintS(NameE("v")), Text(">")>>)
  @@ ("ts" :> <<SetS("a", StrE("X")), SetS("n", StrE("N")), Text("<"), PrintS(NameE("a")), PrintS(NameE("n")), Text(">")>>)
  @@ ("te" :> <<ExtendsS(StrE("tb")), BlockS("p", <<Text("ep["), PrintS(NameE("a")), Text("]")>>)>>)
  @@ ("tb" :> <<Text("B("), BlockS("p", <<Text("bp")>>), Text("|"), BlockS("q", <<Text("bq")>>), Text(")")>>)
  @@ ("tp" :> <<Text("T["), BlockS("p", <<Text("tp"), PrintS(NameE("a"))>>), Text("|"), BlockS("q", <<Text("tq")>>), Text("]")>>)
  (* tq: blocks, then assignments and an import at the top level of the embedded template *)
  @@ ("tq" :> <<Text("T["), BlockS("p", <<Text("tp"), PrintS(NameE("a"))>>), Text("|"), BlockS("q", <<Text("tq")>>), Text("]"),
                SetS("a", StrE("X")), SetS("n", StrE("N")), ImportS(StrE("tv"), "mm"), Text("<"), PrintS(NameE("a")), PrintS(NameE("n")), Text(">")>>)
  (* tu: a template without parent that imports blocks (use) and defines one of the imported names itself: the same version of p is rendered
     whether it is included or embedded, the imported q is what block('q') renders *)
  @@ ("tu" :> <<UseS(StrE("tul"), <<>>), Text("T["), BlockS("p", <<Text("tp"), PrintS(NameE("a"))>>), Text("|"), PrintS(CallE("block", <<StrE("q")>>)), Text("]")>>)
  @@ ("tul" :> <<BlockS("p", <<Text("LP")>>), BlockS("q", <<Text("tq")>>)>>)
Templates(c) == ("h" :> Host(c)) @@ Targets

(* ---- declarative expectation ---- *)
(* variables the target sees: a, b, w, v *)
VA(c) == IF HasWith(c.mode) THEN "9" ELSE IF IsOnly(c.mode) THEN "" ELSE IF c.site = "macro" THEN "A" ELSE "1"
VB(c) == IF IsOnly(c.mode) THEN "" ELSE "2"
VW(c) == IF HasWith(c.mode) THEN "3" ELSE ""
VV(c, iter) == IF IsOnly(c.mode) THEN "" ELSE IF c.site = "loop" THEN ToString(iter) ELSE "o"     \* the loop variable shadows the host's v
Has(ov, b) == \E q \in 1..Len(ov) : OName(ov[q]) = b
ParOf(ov, b) == \E q \in 1..Len(ov) : OName(ov[q]) = b /\ OPar(ov[q])
NestOf(ov, b) == \E q \in 1..Len(ov) : OName(ov[q]) = b /\ ONest(ov[q])
NestsQ(ov) == \E q \in 1..Len(ov) : ONest(ov[q])
Blk(c, ov, b, base) ==      \* block b of the embedded/included target whose own version renders `base`
  IF c.kind = "embed" /\ Has(ov, b)
  THEN "h" \o b \o VW(c) \o (IF ParOf(ov, b) THEN "(" \o base \o ")" ELSE "") \o (IF NestOf(ov, b) THEN "[nq" \o VW(c) \o "]" ELSE "")
       \o (IF \E q \in 1..Len(ov) : OName(ov[q]) = b /\ OEmb(ov[q]) THEN "[T[tp" \o VA(c) \o "|iq]]" ELSE "")
  ELSE IF c.kind = "embed" /\ b = "q" /\ NestsQ(ov) THEN "nq" \o VW(c)
  ELSE base
One(c, ov, iter) ==
  CASE c.target = "tv" -> "<" \o VA(c) \o "|" \o VB(c) \o "|" \o VW(c) \o "|" \o VV(c, iter) \o ">"
    [] c.target = "ts" -> "<XN>"
    [] c.target = "te" -> "B(" \o Blk(c, ov, "p", "ep[" \o VA(c) \o "]") \o "|" \o Blk(c, ov, "q", "bq") \o ")"
    [] c.target = "tq" -> "T[" \o Blk(c, ov, "p", "tp" \o VA(c)) \o "|" \o Blk(c, ov, "q", "tq") \o "]<XN>"
    (* stick lets the imported block win over the template's own definition of the same name (Twig: the own one); what C10
       states is that include and embed agree on it and that an embed's overrides replace exactly the named blocks *)
    [] c.target = "tu" -> "T[" \o Blk(c, ov, "p", "LP") \o "|" \o Blk(c, ov, "q", "tq") \o "]"
    [] OTHER -> "T[" \o Blk(c, ov, "p", "tp" \o VA(c)) \o "|" \o Blk(c, ov, "q", "tq") \o "]"
Both(c, iter) == IF c.twice THEN One(c, c.over, iter) \o "+" \o One(c, Complement(c.over), iter) ELSE One(c, c.over, iter)
Expected(c) ==
  (IF c.hostp THEN "HPHQ" ELSE "")
  \o (CASE c.site = "loop" -> "H1" \o Both(c, 1) \o "," \o Both(c, 2) \o "," \o "H2"
        [] c.site = "macro" -> "H1M[" \o Both(c, 0) \o "]H2"
        [] OTHER -> "H1" \o Both(c, 0) \o "H2")
  \o ";1|93"                               \* the host's a is still 1, n still undefined, and its hash wh untouched

Cases == SetToSeq(Configs)
Picked == 1..Len(Cases)
Init == GenInit(v_lvl, v_idx)
Next == GenNext(v_lvl, v_idx, Picked, 32)
Cur == Cases[v_idx]
(* gw: the same hash as WithHash, as the specification sees it and as the Go value the harness hands in (a map[string]int) *)
CtxRef == ("gw" :> Hash(<< <<S2B("w"), IntV(3)>>, <<S2B("a"), IntV(9)>> >>)) @@ ("gp" :> Hash(<< <<S2B("w"), IntV(3)>>, <<S2B("a"), IntV(9)>> >>))
CtxGo == ("gw" :> [t |-> "go", id |-> "map:si:w=3,a=9"]) @@ ("gp" :> [t |-> "go", id |-> "ptr:map:si:w=3,a=9"])
Ref == Execute(Templates(Cur), "h", CtxRef)
Out == v_lvl < 2 \/ Emit([RenderVec("C10-" \o ToString(v_idx), Cur.kind, Templates(Cur), "h", CtxRef,
                                    [nt |-> Cur.hostp \/ Cur.target = "ts" \/ HasWith(Cur.mode)]) EXCEPT !.ctx = CtxGo])

IsolationAndContext == v_lvl = 2 => LET R == Ref IN (R.status = "ok" /\ MainOut(R) = S2B(Expected(Cur)))
=============================================================================
