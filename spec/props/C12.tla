--------------------------------- MODULE C12 ---------------------------------
(* C12 Auto-escaping in an environment created by the Twig package.           *)
(* Configuration: template name (extension), print form, placement of the     *)
(* print.  The requirement is stated per form (Seg): which content type the   *)
(* payload must be escaped for, or that it passes raw; escaped payloads are   *)
(* written symbolically (Exec!Mark) and the harness substitutes the real      *)
(* escaper's output.  TLC checks the reference (visitor-equivalent rule:      *)
(* content type of the template that textually contains the print) against    *)
(* the declared segment for every configuration.                              *)
EXTENDS Vec, SequencesExt, FiniteSetsExt

VARIABLES v_lvl, v_idx

Payload == S2B("<a href=\"x\">&'b'</a>;/*{}%+ \\")
(* values with ONE kind of significant character, and with none: a short cut in an escaper shows on these *)
Payload1 == S2B("O'Reilly x")
Payload2 == S2B("say \"hi\"")
Payload3 == S2B("safe123")
Payload4 == S2B("+1.5e-3")          \* a string that reads as a number is still a string: + - . are significant in js, css, url
Ctx == ("x" :> Str(Payload)) @@ ("sh" :> Safe(Str(Payload), {"html"})) @@ ("sj" :> Safe(Str(Payload), {"js"}))
       @@ ("n" :> IntV(5)) @@ ("e" :> Str(<<>>)) @@ ("q1" :> Str(Payload1)) @@ ("q2" :> Str(Payload2)) @@ ("q3" :> Str(Payload3)) @@ ("q4" :> Str(Payload4)) @@ ("st" :> [t |-> "gostr", s |-> Payload])   \* st: a Go fmt.Stringer

Names == {"a.html", "a.js", "a.css", "a.txt", "a", "a.foo", "a.html.twig", "a.js.twig", "d.js/a", "a.url", "a.html_attr", "a.HTML", "inline",
          "a.txt.html", "a.min.js", "a.js.html", "a.html.txt.twig", "v1.2/a.css", "a.b.c.css.twig", ".js", "a."}
Forms == {"plain", "escape", "escape-js", "escape-attr", "escape-css", "escape-url", "raw", "safe-html", "safe-js", "filtered",
          "concat", "literal", "number", "empty", "escape-raw", "tern", "stringer", "stringer-escape", "stringer-js",
          "tern-raw-else", "tern-raw-then", "tern-esc-else", "tern-paren-raw", "tern-chain-raw", "plain-q1", "plain-q2", "plain-q3", "attr-q1",
          "plain-q4", "js-q4", "css-q4", "url-q4", "attr-q4", "derived-orig", "derived-new",
          "escape-bogus", "escape-empty", "escape-upper", "paren-escape", "paren-attr", "paren-raw", "paren2-js",
          "raw-replace", "safe-replace", "safe-upper"}
Places == {"top", "if", "else", "for", "block", "inherited", "included", "embedded", "override", "capture", "section", "macro", "forelse", "override2", "top-txt", "top-js"}

PrintOf(form) ==
  CASE form = "plain" -> PrintS(NameE("x"))
    [] form = "escape" -> PrintS(Pipe(NameE("x"), "escape", <<>>))
    [] form = "escape-js" -> PrintS(Pipe(NameE("x"), "escape", <<StrE("js")>>))
    [] form = "escape-attr" -> PrintS(Pipe(NameE("x"), "escape", <<StrE("html_attr")>>))
    [] form = "escape-css" -> PrintS(Pipe(NameE("x"), "escape", <<StrE("css")>>))
    [] form = "escape-url" -> PrintS(Pipe(NameE("x"), "escape", <<StrE("url")>>))
    [] form = "raw" -> PrintS(Pipe(NameE("x"), "raw", <<>>))
    [] form = "safe-html" -> PrintS(NameE("sh"))
    [] form = "safe-js" -> PrintS(NameE("sj"))
    [] form = "filtered" -> PrintS(Pipe(NameE("x"), "rec", <<>>))
    [] form = "concat" -> PrintS(Bin("~", NameE("x"), StrE("<")))
    [] form = "literal" -> PrintS(StrE("<b>"))
    [] form = "number" -> PrintS(NameE("n"))
    [] form = "empty" -> PrintS(NameE("e"))
    [] form = "escape-raw" -> PrintS(Pipe(Pipe(NameE("x"), "escape", <<>>), "raw", <<>>))
    [] form = "stringer" -> PrintS(NameE("st"))
    [] form = "plain-q1" -> PrintS(NameE("q1")) [] form = "plain-q2" -> PrintS(NameE("q2")) [] form = "plain-q3" -> PrintS(NameE("q3"))
    [] form = "attr-q1" -> PrintS(Pipe(NameE("q1"), "escape", <<StrE("html_attr")>>))
    (* a value safe for js only, from which user code derives a value that is safe for html as well: the original is unchanged *)
    [] form = "derived-orig" -> PrintS(AttrBr(ArrE(<<Pipe(NameE("sj"), "mark", <<>>), NameE("sj")>>), IntE(1)))
    [] form = "derived-new" -> PrintS(AttrBr(ArrE(<<Pipe(NameE("sj"), "mark", <<>>), NameE("sj")>>), IntE(0)))
    (* an escape filter naming no existing strategy is no way around the template's escaping *)
    [] form = "escape-bogus" -> PrintS(Pipe(NameE("x"), "escape", <<StrE("bogus")>>))
    [] form = "escape-empty" -> PrintS(Pipe(NameE("x"), "escape", <<StrE("")>>))
    [] form = "escape-upper" -> PrintS(Pipe(NameE("x"), "escape", <<StrE("HTML")>>))
    (* a filter of the twig package applied to a value marked safe gives a new, unmarked value: what was spliced in was never marked *)
    [] form = "raw-replace" -> PrintS(Pipe(Pipe(StrE("[%s%]"), "raw", <<>>), "replace", <<HashE(<< <<StrE("%s%"), NameE("x")>> >>)>>))
    [] form = "safe-replace" -> PrintS(Pipe(NameE("sh"), "replace", <<HashE(<< <<StrE("zz"), NameE("x")>> >>)>>))
    [] form = "safe-upper" -> PrintS(Pipe(NameE("sh"), "upper", <<>>))
    (* parentheses that merely restate the grouping *)
    [] form = "paren-escape" -> PrintS(Grp(Pipe(NameE("x"), "escape", <<>>)))
    [] form = "paren-attr" -> PrintS(Grp(Pipe(NameE("x"), "escape", <<StrE("html_attr")>>)))
    [] form = "paren-raw" -> PrintS(Grp(Pipe(NameE("x"), "raw", <<>>)))
    [] form = "paren2-js" -> PrintS(Grp(Grp(Pipe(NameE("x"), "escape", <<StrE("js")>>))))
    [] form = "plain-q4" -> PrintS(NameE("q4"))
    [] form = "js-q4" -> PrintS(Pipe(NameE("q4"), "escape", <<StrE("js")>>)) [] form = "css-q4" -> PrintS(Pipe(NameE("q4"), "escape", <<StrE("css")>>))
    [] form = "url-q4" -> PrintS(Pipe(NameE("q4"), "escape", <<StrE("url")>>)) [] form = "attr-q4" -> PrintS(Pipe(NameE("q4"), "escape", <<StrE("html_attr")>>))
    (* conditionals with an explicit raw/escape on ONE branch; the other branch is selected *)
    [] form = "tern-raw-else" -> PrintS(Tern(BoolE(FALSE), Pipe(NameE("x"), "raw", <<>>), NameE("x")))
    [] form = "tern-raw-then" -> PrintS(Tern(BoolE(TRUE), NameE("x"), Pipe(NameE("x"), "raw", <<>>)))
    [] form = "tern-esc-else" -> PrintS(Tern(BoolE(FALSE), Pipe(NameE("x"), "escape", <<StrE("js")>>), NameE("x")))
    [] form = "tern-paren-raw" -> PrintS(Grp(Tern(BoolE(TRUE), NameE("x"), Pipe(NameE("x"), "raw", <<>>))))
    [] form = "tern-chain-raw" -> PrintS(Tern(BoolE(FALSE), Pipe(NameE("x"), "raw", <<>>), Tern(BoolE(TRUE), NameE("x"), Pipe(NameE("x"), "raw", <<>>))))
    [] form = "stringer-escape" -> PrintS(Pipe(NameE("st"), "escape", <<>>))
    [] form = "stringer-js" -> PrintS(Pipe(NameE("st"), "escape", <<StrE("js")>>))
    [] OTHER -> PrintS(Tern(BoolE(TRUE), NameE("x"), StrE("<")))

(* what the property requires of the print, given the content type ct of its template *)
E(ct, b) == IF ct \in EscTypes THEN Mark(ct, b) ELSE b
Seg(form, ct) ==
  CASE form = "plain" -> E(ct, Payload)
    [] form = "escape" -> E("html", Payload)
    [] form = "escape-js" -> E("js", Payload)
    [] form = "escape-attr" -> E("html_attr", Payload)
    [] form = "escape-css" -> E("css", Payload)
    [] form = "escape-url" -> E("url", Payload)
    [] form = "raw" -> Payload
    [] form = "safe-html" -> IF ct = "html" THEN Payload ELSE E(ct, Payload)
    [] form = "safe-js" -> IF ct = "js" THEN Payload ELSE E(ct, Payload)
    [] form = "filtered" -> E(ct, Payload)
    [] form = "concat" -> E(ct, Payload \o <<60>>)
    [] form = "literal" -> E(ct, S2B("<b>"))
    [] form = "number" -> E(ct, <<53>>)
    [] form = "empty" -> <<>>
    [] form = "escape-raw" -> E("html", Payload)
    [] form = "stringer" -> E(ct, Payload)
    [] form = "plain-q1" -> E(ct, Payload1) [] form = "plain-q2" -> E(ct, Payload2) [] form = "plain-q3" -> E(ct, Payload3)
    [] form = "attr-q1" -> E("html_attr", Payload1)
    [] form = "derived-orig" -> IF ct = "js" THEN Payload ELSE E(ct, Payload)
    [] form = "derived-new" -> IF ct \in {"js", "html"} THEN Payload ELSE E(ct, Payload)
    [] form \in {"escape-bogus", "escape-empty", "escape-upper"} -> E(ct, Payload)
    [] form = "paren-escape" -> E("html", Payload) [] form = "paren-attr" -> E("html_attr", Payload)
    [] form = "paren-raw" -> Payload [] form = "paren2-js" -> E("js", Payload)
    [] form = "plain-q4" -> E(ct, Payload4) [] form = "js-q4" -> E("js", Payload4) [] form = "css-q4" -> E("css", Payload4)
    [] form = "url-q4" -> E("url", Payload4) [] form = "attr-q4" -> E("html_attr", Payload4)
    [] form \in {"tern-raw-else", "tern-raw-then", "tern-esc-else", "tern-paren-raw", "tern-chain-raw", "plain-q1", "plain-q2", "plain-q3", "attr-q1",
          "plain-q4", "js-q4", "css-q4", "url-q4", "attr-q4", "derived-orig", "derived-new"} -> E(ct, Payload)
    [] form = "raw-replace" -> E(ct, <<91>> \o Payload \o <<93>>)
    [] form = "safe-replace" -> E(ct, Payload)
    [] form = "safe-upper" -> E(ct, AsciiUpper(Payload))
    [] form = "stringer-escape" -> E("html", Payload)
    [] form = "stringer-js" -> E("js", Payload)
    [] OTHER -> E(ct, Payload)

(* content type required for a template name (the statement of C12, independent of Exec!CtOfName) *)
RequiredCt(name) ==
  CASE name \in {"a.html", "a.html.twig", "a.txt.html", "a.js.html"} -> "html"
    [] name \in {"a.js", "a.js.twig", "a.min.js", ".js"} -> "js"
    [] name \in {"a.css", "v1.2/a.css", "a.b.c.css.twig"} -> "css" [] name = "a.url" -> "url" [] name = "a.html_attr" -> "html_attr"
    [] name \in {"a.txt", "a.html.txt.twig"} -> "txt"
    [] OTHER -> "html"            \* no extension, unknown extension, upper-case extension, dot in a directory, inline

(* templates: the print sits in a template called `name`; other templates are html *)
Program(name, form, place) ==
  LET pr == PrintOf(form) IN
  CASE place = "top" -> (name :> <<Text("^"), pr, Text("$")>>)
    (* text after the print that ends like a file name: for an inline template the source is all the name there is *)
    [] place = "top-txt" -> (name :> <<Text("^"), pr, Text("$ see notes.txt")>>)
    [] place = "top-js" -> (name :> <<Text("^"), pr, Text("$ and app.min.js")>>)
    [] place = "if" -> (name :> <<Text("^"), IfS(BoolE(TRUE), <<pr>>, <<Text("no")>>, TRUE), Text("$")>>)
    [] place = "else" -> (name :> <<Text("^"), IfS(BoolE(FALSE), <<Text("no")>>, <<pr>>, TRUE), Text("$")>>)
    [] place = "for" -> (name :> <<Text("^"), ForS("", "v", ArrE(<<IntE(1), IntE(2)>>), NoE, <<pr, Text(",")>>, <<>>, FALSE), Text("$")>>)
    [] place = "forelse" -> (name :> <<Text("^"), ForS("", "v", ArrE(<<>>), NoE, <<Text("no")>>, <<pr>>, TRUE), Text("$")>>)
    [] place = "block" -> (name :> <<Text("^"), BlockS("b", <<pr>>), Text("$")>>)
    [] place = "inherited" -> (name :> <<ExtendsS(StrE("base.html")), BlockS("b", <<Text("c:"), pr>>)>>)
                              @@ ("base.html" :> <<Text("^"), BlockS("b", <<Text("base")>>), Text("$")>>)
    [] place = "included" -> ("host.html" :> <<Text("^"), IncludeS(StrE(name), NoE, FALSE), Text("$")>>) @@ (name :> <<Text("i:"), pr>>)
    [] place = "embedded" -> ("host.html" :> <<Text("^"), EmbedS(StrE(name), NoE, FALSE, <<>>), Text("$")>>)
                             @@ (name :> <<Text("e:"), BlockS("b", <<pr>>)>>)
    [] place = "override" -> (name :> <<Text("^"), EmbedS(StrE("tgt.js"), NoE, FALSE, <<[name |-> "b", body |-> <<Text("o:"), pr>>]>>), Text("$")>>)
                             @@ ("tgt.js" :> <<Text("t:"), BlockS("b", <<Text("tb")>>)>>)
    (* an embed overriding block b inside the override of block b of an outer embed: both bodies belong to the host *)
    [] place = "override2" -> (name :> <<Text("^"), EmbedS(StrE("tgt.js"), NoE, FALSE,
                                  <<[name |-> "b", body |-> <<Text("o:"), EmbedS(StrE("tgt.js"), NoE, FALSE, <<[name |-> "b", body |-> <<Text("i:"), pr>>]>>), pr>>]>>), Text("$")>>)
                             @@ ("tgt.js" :> <<Text("t:"), BlockS("b", <<Text("tb")>>)>>)
    [] place = "capture" -> (name :> <<Text("^"), SetCap("c", <<Text("k:"), pr>>), PrintS(Pipe(NameE("c"), "raw", <<>>)), Text("$")>>)
    [] place = "section" -> (name :> <<Text("^"), FilterS(<<"rec">>, <<Text("f:"), pr>>), Text("$")>>)
    [] OTHER -> (name :> <<MacroS("m", <<>>, <<Text("m:"), pr>>), Text("^"), PrintS(Pipe(AttrCall(NameE("_self"), "m", <<>>), "raw", <<>>)), Text("$")>>)
EntryOf(name, place) == IF place \in {"included", "embedded"} THEN "host.html" ELSE name
Decor(place, seg) ==
  CASE place \in {"top", "if", "else", "block", "forelse"} -> S2B("^") \o seg \o S2B("$")
    [] place = "top-txt" -> S2B("^") \o seg \o S2B("$ see notes.txt")
    [] place = "top-js" -> S2B("^") \o seg \o S2B("$ and app.min.js")
    [] place = "for" -> S2B("^") \o seg \o S2B(",") \o seg \o S2B(",$")
    [] place = "inherited" -> S2B("^c:") \o seg \o S2B("$")
    [] place = "included" -> S2B("^i:") \o seg \o S2B("$")
    [] place = "embedded" -> S2B("^e:") \o seg \o S2B("$")
    [] place = "override" -> S2B("^t:o:") \o seg \o S2B("$")
    [] place = "override2" -> S2B("^t:o:t:i:") \o seg \o seg \o S2B("$")
    [] place = "capture" -> S2B("^k:") \o seg \o S2B("$")
    [] place = "section" -> S2B("^f:") \o seg \o S2B("$")
    [] OTHER -> S2B("^m:") \o seg \o S2B("$")

Configs == {[name |-> nm, form |-> f, place |-> p] : nm \in Names, f \in Forms, p \in Places}
Valid(c) == ~(c.name = "inline" /\ c.place \in {"inherited", "included", "embedded", "override", "override2"})
Cases == SetToSeq({c \in Configs : Valid(c)})
Picked == 1..Len(Cases)
Init == GenInit(v_lvl, v_idx)
Next == GenNext(v_lvl, v_idx, Picked, 32)
Cur == Cases[v_idx]
Tpls == Program(Cur.name, Cur.form, Cur.place)
Ref == ExecuteTwig(Tpls, EntryOf(Cur.name, Cur.place), Ctx)
Expected == Decor(Cur.place, Seg(Cur.form, RequiredCt(Cur.name)))
(* the symbolic escaped segments expanded with the reference escapers of Escape.tla (payloads are ASCII: bytes = code points);
   css in the format stick pins (4+ hex digits, no terminator: the known finding of C13 is not C12's subject) *)
FnOfCode(c) == CASE c = 16 -> "html" [] c = 17 -> "html_attr" [] c = 18 -> "js" [] c = 19 -> "css!4" [] OTHER -> "url"
RECURSIVE FirstTwo(_, _)
FirstTwo(bs, q) == IF bs[q] = 2 THEN q ELSE FirstTwo(bs, q + 1)
RECURSIVE Concrete(_)
Concrete(bs) == IF bs = <<>> THEN <<>>
                ELSE IF bs[1] = 1 THEN LET j == FirstTwo(bs, 3) IN
                     RefEscSeq(FnOfCode(bs[2]), SubSeq(bs, 3, j - 1)) \o Concrete(SubSeq(bs, j + 1, Len(bs)))
                ELSE <<bs[1]>> \o Concrete(Tail(bs))
Vecc == LET S == Ref IN
  [id |-> "C12-" \o ToString(v_idx), fam |-> Cur.place, k |-> "render", env |-> "twig", tpls |-> Tpls,
   entry |-> EntryOf(Cur.name, Cur.place), ctx |-> Ctx, inline |-> (Cur.name = "inline"),
   x |-> [name |-> Cur.name, form |-> Cur.form],
   exp |-> [status |-> S.status, out |-> MainOut(S), outc |-> Concrete(MainOut(S)), log |-> <<>>]]
Out == v_lvl < 2 \/ Emit(Vecc)

(* every printed value is escaped for its template's content type, exactly once; raw and matching safe values pass *)
NoUnescapedPayload == v_lvl = 2 => LET R == Ref IN (R.status = "ok" /\ MainOut(R) = Expected)
(* no escaped segment inside an escaped segment *)
RECURSIVE Nest(_, _, _)
Nest(bs, q, d) == IF q > Len(bs) THEN TRUE
                  ELSE IF bs[q] = 1 THEN d = 0 /\ Nest(bs, q + 1, 1)
                  ELSE IF bs[q] = 2 THEN Nest(bs, q + 1, 0) ELSE Nest(bs, q + 1, d)
OnceOnly == v_lvl = 2 => Nest(MainOut(Ref), 1, 0)
(* the executor's content-type rule agrees with the statement for every name *)
TypeOfName == v_lvl = 2 => CtOfName(Cur.name) = RequiredCt(Cur.name)
=============================================================================
