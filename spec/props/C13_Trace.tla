------------------------------ MODULE C13_Trace ------------------------------
(* Binding T for C13: every escaper call recorded from the Go code          *)
(*   {fn, in, out, parts}   (bytes as int arrays; parts = outputs of the    *)
(*   escaper called on each character of `in` separately)                   *)
(* is accepted iff the recorded output is inert, is the concatenation of    *)
(* the per-character outputs, and decodes back to the input with the        *)
(* decoder of the target context (Escape.tla).  The escapers are pure, so a *)
(* behaviour is a sequence of independent calls: one event per step.        *)
(* An event that is not accepted is printed as {"rej": line, "why": ...}    *)
(* and the acceptor moves on, so that one run reports every rejected event. *)
EXTENDS Escape, Json, IOUtils

Trace == ndJsonDeserialize(IOEnv.TRACE_FILE)

VARIABLE l

RECURSIVE Concat(_)
Concat(ps) == IF ps = <<>> THEN <<>> ELSE Head(ps) \o Concat(Tail(ps))

Why(ev) ==
  IF ~Inert(ev.fn, ev.out) THEN "inert"
  ELSE IF Concat(ev.parts) # ev.out THEN "perchar"
  ELSE IF ~LosslessStrict(ev.fn, ev.in, ev.out) THEN "lossless"
  ELSE ""

ASSUME TLCSet(1, 0)
Init == l = 1
Next == /\ l <= Len(Trace)
        /\ LET w == Why(Trace[l]) IN IF w = "" THEN TRUE ELSE PrintT(ToJson([rej |-> l, why |-> w]))
        /\ l' = l + 1
HighWater == TLCSet(1, IF l > TLCGet(1) THEN l ELSE TLCGet(1))
Consumed == TLCGet(1) = Len(Trace) + 1
=============================================================================
