------------------------------- MODULE C05_MC -------------------------------
(* C05 on the specification: the algorithmic reference (Exec!BinOp, Eval)   *)
(* satisfies independent, declarative statements of what the operators mean *)
(* on the operand window, and callbacks are logged exactly once each in     *)
(* source order.                                                            *)
EXTENDS Vec

VARIABLES a, b      \* operands (q values), or the index of an expression form

Qs == {n * 16 : n \in (0 - 36)..36}            \* quarters in -9 .. 9
S0 == InitState(<<>>, EmptyScope, 6)
V(op, x, y) == BinOp(op, Num(x), Num(y), S0)[1]
Defined2(op, x, y) == V(op, x, y).t \notin {"oom", "err"}

Init == a \in Qs /\ b \in Qs
Next == UNCHANGED <<a, b>>

(* a // b is the integer r with r <= a/b < r + 1 *)
FloorDiv == (b # 0 /\ Defined2("//", a, b)) =>
  LET r == V("//", a, b).q IN
  /\ r % Scale = 0
  /\ IF b > 0 THEN (r \div Scale) * b <= a /\ a < ((r \div Scale) + 1) * b
              ELSE (r \div Scale) * b >= a /\ a > ((r \div Scale) + 1) * b

(* % works on the truncated operands; result has the sign of the dividend and |r| < |y| *)
ModSign == LET x == Trunc(a)  y == Trunc(b) IN (y # 0 /\ Defined2("%", a, b)) =>
  LET r == V("%", a, b).q \div Scale IN
  /\ Abs(r) < Abs(y)
  /\ (r = 0 \/ (r < 0) = (x < 0))
  /\ (Abs(x) - Abs(r)) % Abs(y) = 0

(* / is exact: (a / b) * b = a *)
DivExact == (b # 0 /\ Defined2("/", a, b)) => V("/", a, b).q * b = a * Scale

RangeInclusive == (a % Scale = 0 /\ b % Scale = 0 /\ a <= b) =>
  LET r == V("..", a, b) IN
  /\ r.t = "arr" /\ Len(r.els) = (b - a) \div Scale + 1
  /\ \A k \in 1..Len(r.els) : r.els[k] = Num(a + (k - 1) * Scale)

Trichotomy ==
  LET lt == V("<", a, b).b  gt == V(">", a, b).b  eq == V("==", a, b).b IN
  /\ (IF lt THEN 1 ELSE 0) + (IF gt THEN 1 ELSE 0) + (IF eq THEN 1 ELSE 0) = 1
  /\ V("<=", a, b).b = (lt \/ eq) /\ V(">=", a, b).b = (gt \/ eq) /\ V("!=", a, b).b = ~eq

ConcatIsJuxtaposition ==
  V("~", a, b) = Str(NumToBytes(a) \o NumToBytes(b))

NotInIsNegation == \A hay \in {Arr(<<Num(a), Num(0)>>), Arr(<<>>), Hash(<< <<S2B("k"), Num(b)>> >>)} :
  BinOp("not in", Num(a), hay, S0)[1].b = ~BinOp("in", Num(a), hay, S0)[1].b
  /\ BinOp("in", Num(b), hay, S0)[1].b = (\E k \in 1..SeqLen(hay) :
        (IF hay.t = "arr" THEN hay.els[k] ELSE hay.pairs[k][2]) = Num(b))

RangeDescending == (a % Scale = 0 /\ b % Scale = 0 /\ a > b) =>
  LET r == V("..", a, b) IN
  /\ r.t = "arr" /\ Len(r.els) = (a - b) \div Scale + 1
  /\ \A k \in 1..Len(r.els) : r.els[k] = Num(a - (k - 1) * Scale)

AddSubInverse == (InWindow(a + b)) => V("-", a + b, b) = Num(a)
MulCommutes == V("*", a, b) = V("*", b, a)
PowIsRepeatedMul == (b % Scale = 0 /\ b >= 0 /\ b <= 3 * Scale /\ Defined2("**", a, b)) =>
  V("**", a, b) = (CASE b = 0 -> IntV(1) [] b = Scale -> Num(a) [] b = 2 * Scale -> V("*", a, a)
                     [] OTHER -> BinOp("*", V("*", a, a), Num(a), S0)[1])

(* number -> string -> number is the identity on the window *)
NumStrNum == StrToNum(NumToBytes(a)) = Num(a)

(* ---- callbacks: exactly once each, arguments left to right, piped value first ---- *)
Id(n) == CallE("id", <<IntE(n)>>)
Forms == <<
  Bin("+", Id(1), Id(2)),
  Bin("and", Id(1), Id(2)),                               \* stick evaluates both operands
  Bin("~", Grp(Bin("*", Id(1), Id(2))), Id(3)),
  CallE("id", <<Id(1), Id(2), Id(3)>>),
  Pipe(Id(1), "rec", <<Id(2), Id(3)>>),
  TestE(Id(1), FALSE, "divisible by", <<Id(2)>>),
  Tern(Id(1), Id(2), Id(99)),                             \* only the selected branch runs
  Tern(Un("not", Id(1)), Id(99), Id(2)),
  ArrE(<<Id(1), Id(2), Id(3)>>),
  HashE(<< <<NameE("u"), Id(1)>>, <<NameE("v"), Id(2)>> >>),
  Interp(<<Id(1), StrE("-"), Id(2)>>),
  AttrBr(ArrE(<<Id(1), Id(2)>>), Id(3))
>>
IdArgs(log) == LET c == SelectSeq(log, LAMBDA ev : ev.e = "cb" /\ ev.kind = "func" /\ ev.name = "id" /\ Len(ev.args) = 1
                                                    /\ ev.args[1].t = "num") IN
               [k \in 1..Len(c) |-> c[k].args[1].q \div Scale]
CallLogInSourceOrder == \A f \in 1..Len(Forms) :
  LET r == Eval(Forms[f], S0)
      ids == IdArgs(r[2].log) IN
  /\ r[2].status = "ok"
  /\ 99 \notin {ids[k] : k \in 1..Len(ids)}
  /\ \A k \in 1..Len(ids) : ids[k] = k
  /\ Len(ids) >= 2
=============================================================================
