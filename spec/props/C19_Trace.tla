------------------------------ MODULE C19_Trace ------------------------------
(* Binding T for C19: the events of replayed call histories.                  *)
(*   lex.start{id} lex.exit{id} parse.ret{id}   hook events of one tokeniser  *)
(*   quiesce{g0,g1,l0,l1,f0,f1}   end of a history: goroutine, tokeniser-     *)
(*                                goroutine and descriptor counts before and  *)
(*                                after (after = at the end of the poll)      *)
(* A history is accepted iff every tokeniser that started has exited by the   *)
(* time the process is quiescent and all three counts are back.               *)
EXTENDS Naturals, Sequences, FiniteSets, TLC, Json, IOUtils

Trace == ndJsonDeserialize(IOEnv.TRACE_FILE)
VARIABLES v_l, v_started, v_exited
ASSUME TLCSet(1, 0)
Rej(why) == PrintT(ToJson([rej |-> v_l, why |-> why]))
Init == v_l = 1 /\ v_started = {} /\ v_exited = {}
Step(ev) ==
  CASE ev.e = "lex.start" -> v_started' = v_started \cup {ev.id} /\ UNCHANGED v_exited
    [] ev.e = "lex.exit" -> /\ (IF ev.id \in v_exited THEN Rej("exit-twice") ELSE TRUE)
                            /\ v_exited' = v_exited \cup {ev.id} /\ v_started' = v_started \cup {ev.id}
    [] ev.e = "parse.ret" -> UNCHANGED <<v_started, v_exited>>
    [] ev.e = "quiesce" ->
         /\ (IF v_started \ v_exited # {} THEN Rej("tokeniser-left-behind")
             ELSE IF ev.l1 > ev.l0 THEN Rej("tokeniser-goroutine-left-behind")
             ELSE IF ev.g1 > ev.g0 THEN Rej("goroutine-left-behind")
             ELSE IF ev.f1 > ev.f0 THEN Rej("descriptor-left-behind")
             ELSE TRUE)
         /\ v_started' = {} /\ v_exited' = {}
Next == v_l <= Len(Trace) /\ Step(Trace[v_l]) /\ v_l' = v_l + 1
HighWater == TLCSet(1, IF v_l > TLCGet(1) THEN v_l ELSE TLCGet(1))
Consumed == TLCGet(1) = Len(Trace) + 1
=============================================================================
