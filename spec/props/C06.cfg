CONSTANTS Stride = 1
  Deep = FALSE
INIT Init
NEXT Next
INVARIANTS Out FirstTruthyBranch ElseIffEmpty LoopClosedForm InlineIfFilters ErrorsInBodiesReported
