CONSTANTS Stride3 = 1
  Stride4 = 101
  MaxLen = 4
INIT Init
NEXT Next
INVARIANTS Out ParseIsValidTree ValidTreeUnique ParenRoundTrip
