CONSTANTS Stride3 = 3
  Stride4 = 8009
  MaxLen = 4
INIT Init
NEXT Next
INVARIANTS Out ParseIsValidTree ValidTreeUnique ParenRoundTrip
