CONSTANTS Stride3 = 5
  Stride4 = 401
  MaxLen = 4
INIT Init
NEXT Next
INVARIANTS Out ParseIsValidTree ValidTreeUnique ParenRoundTrip
