------------------------------ MODULE C20_Trace ------------------------------
(* Binding T for C20 (token positions): token streams recorded from the real  *)
(* tokeniser (hook VerifLex) on seeded random sources.  An event              *)
(*   {src, tokens: [{typ, val, line, col}]}                                   *)
(* is accepted iff, for a stream that reached EOF, the token values partition *)
(* the source in order and every token carries the line and column of its     *)
(* first byte as defined directly from the source (Lexer!PosExactFrom) -      *)
(* whatever the token boundaries are.  A stream that ends in ERROR must be a  *)
(* prefix partition with exact positions up to the error token.               *)
EXTENDS Lexer, Json, IOUtils
Trace == ndJsonDeserialize(IOEnv.TRACE_FILE)
VARIABLE v_l
ASSUME TLCSet(1, 0)
RECURSIVE Cat(_)
Cat(toks) == IF toks = <<>> THEN <<>> ELSE Head(toks).val \o Cat(Tail(toks))
Why(ev) ==
  LET ts == ev.tokens
      n == Len(ts)
      lastT == ts[n].typ
      body == IF lastT = "ERROR" THEN SubSeq(ts, 1, n - 1) ELSE ts
      cat == Cat(body) IN
  IF n = 0 \/ lastT \notin {"EOF", "ERROR"} THEN "stream-does-not-end-in-EOF-or-ERROR"
  ELSE IF \E q \in 1..(n - 1) : ts[q].typ \in {"EOF", "ERROR"} THEN "token-after-end"
  ELSE IF Len(cat) > Len(ev.src) \/ SubSeq(ev.src, 1, Len(cat)) # cat THEN "tokens-do-not-spell-the-source"
  ELSE IF lastT = "EOF" /\ ~ev.interp /\ cat # ev.src THEN "source-bytes-lost"
  ELSE IF ~PosExactFrom(ev.src, body, 0) THEN "position-not-exact"
  ELSE IF lastT = "ERROR" /\ ~ev.interp /\ (ts[n].line # 1 + CountB(cat, 10)) THEN "error-line-not-exact"
  ELSE ""
Init == v_l = 1
Next == /\ v_l <= Len(Trace)
        /\ LET w == Why(Trace[v_l]) IN IF w = "" THEN TRUE ELSE PrintT(ToJson([rej |-> v_l, why |-> w]))
        /\ v_l' = v_l + 1
HighWater == TLCSet(1, IF v_l > TLCGet(1) THEN v_l ELSE TLCGet(1))
Consumed == TLCGet(1) = Len(Trace) + 1
=============================================================================
