CONSTANTS Stride3 = 37
  Stride4 = 1
  MaxLen = 3
INIT Init
NEXT Next
INVARIANTS Out ParseIsValidTree ValidTreeUnique ParenRoundTrip
