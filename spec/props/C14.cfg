CONSTANTS MaxVary = 2
INIT Init
NEXT Next
INVARIANTS SpellingInvariant CanonIsCanon Out
