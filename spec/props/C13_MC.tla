------------------------------- MODULE C13_MC -------------------------------
(* C13 on the specification: the reference escapers of Escape.tla emit only *)
(* inert characters and are lossless, for EVERY code point as a one-        *)
(* character string and for every pair over a boundary alphabet.            *)
(* State = a node of a two-level tree over the code space (plane, block of  *)
(* 4096 code points) so that TLC's workers share the enumeration; the       *)
(* invariants quantify over the code points of the block.                   *)
EXTENDS Escape, TLC

CONSTANTS FnSet,      \* escapers under test (negative configs add defect variants)
          MaxPlane    \* 16 = the whole code space, 0 = BMP only

VARIABLE node        \* <<>> | <<plane>> | <<plane, block>> | <<(0-1), a>>

Boundary == {0, 8, 27, 48, 57, 65, 70, 71, 97, 102, 103, 32, 9, 10, 13, 12, 34, 38, 39, 60, 62, 92, 37, 43, 59, 35,
             117, 120, 123, 125, 45, 46, 95, 126, 127, 128, 159, 160, 255, 256, 2047, 2048,
             65535, 65536, 128512, 1114111}

Init == node = <<>>
Next ==
  \/ /\ node = <<>>
     /\ \/ \E p \in 0..MaxPlane : node' = <<p>>
        \/ node' = <<(0-1)>>
  \/ /\ Len(node) = 1 /\ node[1] # (0-1)
     /\ \E b \in 0..15 : node' = <<node[1], b>>
  \/ /\ node = <<(0-1)>>
     /\ \E a \in Boundary : node' = <<(0-1), a>>

Block == IF Len(node) = 2 /\ node[1] # (0-1)
         THEN {c \in (node[1] * 65536 + node[2] * 4096)..(node[1] * 65536 + node[2] * 4096 + 4095) : ~IsSurrogate(c)}
         ELSE {}

OutputInert == \A fn \in FnSet : \A c \in Block : Inert(BaseFn(fn), RefEsc(fn, c))
Lossless1   == \A fn \in FnSet : \A c \in Block : Lossless(BaseFn(fn), Utf8(c), RefEsc(fn, c))

PairOK(fn, a, b) ==
  LET out == RefEsc(fn, a) \o RefEsc(fn, b) IN
  /\ Inert(BaseFn(fn), out)
  /\ Lossless(BaseFn(fn), Utf8(a) \o Utf8(b), out)
PairsLossless == (Len(node) = 2 /\ node[1] = (0-1)) =>
                   \A fn \in FnSet : \A b \in Boundary : PairOK(fn, node[2], b)
=============================================================================
