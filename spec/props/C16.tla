--------------------------------- MODULE C16 ---------------------------------
(* C16 Attribute access and iteration.  Containers are fixture ids            *)
(* (harness/fixtures.go) with the abstract content assumed here.              *)
(*   GetAttrRef(d, key, args) in                                              *)
(*     [r |-> "elem", v]   the element exists: exactly this value             *)
(*     [r |-> "err"]       it does not exist / key or arguments unusable      *)
(*     [r |-> "either"]    the property does not decide (e.g. a float key on  *)
(*                         a map[int], a non-integral index): no panic, and a *)
(*                         returned value must be an element of the container *)
(* This module is both the generator of the cases (Init/Next/Out) and the     *)
(* library of the trace acceptor C16_Trace.                                   *)
EXTENDS Vec, SequencesExt, FiniteSetsExt

SB(s) == Str(S2B(s))
Seqc(id, els) == [id |-> id, kind |-> "seq", els |-> els]
Mapc(id, keyt, ents) == [id |-> id, kind |-> "map", keyt |-> keyt, ents |-> ents]
PersonFields == << <<"Name", SB("Ann")>>, <<"Age", IntV(30)>>, <<"Tags", Arr(<<SB("x"), SB("y")>>)>> >>

Base == {
  Seqc("slice:int:4,5,6", <<IntV(4), IntV(5), IntV(6)>>), Seqc("slice:int:", <<>>), Seqc("slice:int:7", <<IntV(7)>>),
  Seqc("slice:string:a,b", <<SB("a"), SB("b")>>), Seqc("slice:value:1,x,3", <<IntV(1), SB("x"), IntV(3)>>),
  Seqc("array3", <<IntV(7), IntV(8), IntV(9)>>), Seqc("slice:float:0,1,2,3", <<IntV(0), IntV(1), IntV(2), IntV(3)>>),   \* []float64, what a..b yields Seqc("slice:int:0,1,2,3,4,5,6,7", [q \in 1..8 |-> IntV(q - 1)]),
  Mapc("map:ss:a=x,b=y", "string", << <<SB("a"), SB("x")>>, <<SB("b"), SB("y")>> >>),
  Mapc("map:ss:k=v", "string", << <<SB("k"), SB("v")>> >>), Mapc("map:ss:", "string", <<>>),
  Mapc("map:si:a=1,b=2,c=3", "string", << <<SB("a"), IntV(1)>>, <<SB("b"), IntV(2)>>, <<SB("c"), IntV(3)>> >>),
  Mapc("map:sv:1=one", "string", << <<SB("1"), SB("one")>> >>),
  Mapc("map:is:1=a,2=b", "int", << <<IntV(1), SB("a")>>, <<IntV(2), SB("b")>> >>),
  Mapc("map:ns:1=a,3=c", "int", << <<IntV(1), SB("a")>>, <<IntV(3), SB("c")>> >>),          \* map[userID]string, type userID int
  Mapc("map:ls:0=z,2=b,8=h", "int", << <<IntV(0), SB("z")>>, <<IntV(2), SB("b")>>, <<IntV(8), SB("h")>> >>),   \* map[userLevel]string, uint8
  Mapc("map:bs:t=yes", "bool", << <<Bool(TRUE), SB("yes")>> >>),
  Mapc("map:fs:1.5=h", "float", << <<Num(96), SB("h")>> >>),
  (* a NaN key: an entry like any other for the traversal (it can be visited, never looked up) *)
  Mapc("map:fs:nan=x,1.5=h", "float", << <<[t |-> "num", f |-> "NaN"], SB("x")>>, <<Num(96), SB("h")>> >>),
  [id |-> "struct:person", kind |-> "struct"],
  (* a struct with embedded structs: type embOuter struct { Base; *hiddenBase; Own string } - the fields of the embedded structs are
     promoted (ID, Title from the exported Base; Code through a pointer to an unexported type) *)
  [id |-> "struct:emb", kind |-> "fstruct", fields |-> << <<"Own", SB("own")>>, <<"ID", IntV(7)>>, <<"Title", SB("ti")>>, <<"Code", IntV(3)>> >>,
   structs |-> {"Base"}],
  (* the same with the embedded pointer nil: Code is promoted through a nil pointer, so it is not there *)
  [id |-> "struct:embnil", kind |-> "fstruct", fields |-> << <<"Own", SB("own")>>, <<"ID", IntV(7)>>, <<"Title", SB("ti")>> >>, structs |-> {"Base"}],
  (* fields of function type: F returns "x"; N and G are nil functions; PS, PI, PE and the method Boom panic (with a string, a number,
     an error, a string): there is no element to return, the lookup is an error whatever the panic carries *)
  [id |-> "struct:funcs", kind |-> "fstruct", fields |-> << <<"F", SB("x")>> >>, structs |-> {}],
  (* map[interface{}]string: any key may be asked for, only "a" is there; a slice or hash can never be a key *)
  Mapc("map:vs:a=b", "any", << <<SB("a"), SB("b")>> >>),
  (* a key type defined over string (type colour string): read with string keys like any string-keyed map *)
  Mapc("map:cs:a=1,zz=2", "string", << <<SB("a"), IntV(1)>>, <<SB("zz"), IntV(2)>> >>),
  (* a map that contains itself (under a key no lookup uses): a missing key is an error like on any other map *)
  Mapc("map:self", "string", <<>>),
  (* unsigned keys: a negative number is no key of such a map (it must not wrap around to 2^64 - 1) *)
  Mapc("map:us:max=x", "int", << <<IntV(3), SB("three")>>, <<[t |-> "num", f |-> "1.8446744073709552e+19"], SB("x")>> >>),
  (* keys of different types whose string forms coincide: the int 1 and the string "1" are two entries *)
  Mapc("map:mixed", "any", << <<IntV(1), SB("int")>>, <<SB("1"), SB("str")>>, <<SB("true"), SB("strtrue")>>, <<Bool(TRUE), SB("bool")>> >>),
  (* named container types that also have a String method (type tagList []string, type strMap map[string]string): containers still *)
  Seqc("tags:go,twig,templates", <<SB("go"), SB("twig"), SB("templates")>>), Mapc("smap:k=v,j=w", "string", << <<SB("k"), SB("v")>>, <<SB("j"), SB("w")>> >>) }
Ptrs == {[d EXCEPT !.id = "ptr:" \o d.id] : d \in {b \in Base : b.id \in {"slice:int:4,5,6", "slice:string:a,b", "map:ss:a=x,b=y",
                                                                              "map:is:1=a,2=b", "map:ns:1=a,3=c", "struct:person", "array3", "slice:int:", "struct:emb", "struct:embnil", "struct:funcs", "map:vs:a=b", "tags:go,twig,templates", "smap:k=v,j=w"}}}
Nils == {[id |-> x, kind |-> "nil"] : x \in {"nil", "nilptr:slice", "nilptr:map", "nilptr:person", "slice:nilint", "map:nilss", "nilptr:int"}}
(* a struct whose methods Hello / PHello are promoted from an embedded pointer that is nil: they cannot be called, which is an
   error like any other unusable attribute; its own field Own is there *)
EmbNil == {[id |-> "embnilmethod", kind |-> "fstruct", fields |-> << <<"Own", SB("own")>> >>, structs |-> {}]}
Scalars == {[id |-> x, kind |-> "scalar"] : x \in {"num:int:192", "num:float64:96", "str:abc", "bool:t", "stringer:abc", "func", "chan"}}
Containers == Base \cup Ptrs \cup Nils \cup Scalars \cup EmbNil
Desc(id) == CHOOSE d \in Containers : d.id = id

HostKey(id) == [t |-> "go", id |-> id]
Keys == << SB("a"), SB("zz"), SB("1"), SB(""), IntV(0), IntV(1), IntV(2), IntV(3), IntV(8), IntV(0 - 1), Num(96), Bool(TRUE), Bool(FALSE), Null,
           SB("Name"), SB("Age"), SB("Tags"), SB("Inner"), SB("secret"), SB("Greet"), SB("Nothing"), SB("Two"), SB("Sum"), SB("Rename"),
           SB("Self"), SB("Hello"), SB("Own"), SB("hidden"), SB("Nope"), SB("k"), IntV(1000000), SB("Wait"), SB("Level"), IntV(300), SB("Own"), SB("ID"), SB("Title"), SB("Code"), SB("Base"), SB("hiddenBase"), SB("F"), SB("N"), SB("G"), SB("PS"), SB("PI"), SB("PE"), SB("Boom"),
           HostKey("slice:int:4,5,6"), HostKey("map:ss:k=v"), HostKey("func"), HostKey("unhash"), HostKey("safe:1:str:a"), HostKey("safe:2:num:int:64"), HostKey("num:int:-64"), HostKey("num:int64:-64"), HostKey("num:int8:-64"),
           (* host numbers far outside the window: no container has them as a key or index; the lookup is an error, never a panic *)
           HostKey("huge:1e19"), HostKey("huge:-1e19"), HostKey("huge:1e300"), HostKey("huge:inf"), HostKey("huge:-inf"), HostKey("huge:nan"),
           HostKey("big:uint64:max"), HostKey("big:int64:min"), HostKey("big:int64:max"), SB("1e30"), SB("Inf"), SB("-1e30"), SB("NaN") >>
ArgLists == << <<>>, <<SB("hi")>>, <<IntV(1)>>, <<IntV(1), IntV(2)>>, <<SB("a"), SB("b")>>, <<Null>>, <<Bool(TRUE)>>, <<SB("a"), IntV(2), IntV(3)>> >>

Elem(v) == [r |-> "elem", v |-> v]
ErrR == [r |-> "err"]
Either == [r |-> "either"]

(* methods of person: arity, and the result for well-typed arguments *)
MethodRef(name, args) ==
  CASE name = "Greet" -> IF Len(args) # 1 THEN ErrR ELSE IF args[1].t = "str" THEN Elem(Str(args[1].s \o S2B(" Ann"))) ELSE ErrR
    [] name = "Nothing" -> IF args = <<>> THEN Elem(Null) ELSE ErrR
    [] name = "Two" -> ErrR                                   \* two results are not supported
    [] name = "Sum" -> IF Len(args) # 2 THEN ErrR
                       ELSE IF args[1].t = "num" /\ args[2].t = "num" THEN Elem(Num(args[1].q + args[2].q)) ELSE ErrR
    [] name = "Rename" -> IF Len(args) # 1 THEN ErrR ELSE IF args[1].t = "str" THEN Elem(SB("Ann")) ELSE ErrR
    [] name = "Self" -> IF args = <<>> THEN Either ELSE ErrR    \* returns a struct (not a template value)
    [] name = "Wait" -> IF Len(args) # 1 THEN ErrR               \* parameter of a named integer type
                        ELSE IF args[1].t = "num" /\ args[1].q % Scale = 0 THEN Elem(Str(S2B("waited ") \o NumToBytes(args[1].q))) ELSE ErrR
    [] name = "Level" -> IF Len(args) # 1 THEN ErrR
                         ELSE IF args[1].t = "num" /\ args[1].q % Scale = 0 /\ args[1].q >= 0 /\ args[1].q < 255 * Scale
                              THEN Elem(Num(args[1].q + Scale)) ELSE ErrR
    [] OTHER -> ErrR

(* a key that comes wrapped as a safe value (the result of |raw or |escape) is the key inside *)
KeyNorm(key) == IF key = HostKey("safe:1:str:a") THEN SB("a") ELSE IF key = HostKey("safe:2:num:int:64") THEN IntV(1) ELSE key
GetAttrRef(d, key0, args) ==
  LET key == KeyNorm(key0) IN
  CASE d.kind = "seq" ->
         (* an index is a whole number (or the decimal numeral of one); anything else - a word, a fraction, a boolean, null, a
            host value - cannot be used as an index and is an error, not some element *)
         LET idx == IF key.t = "num" /\ key.q % Scale = 0 THEN key.q \div Scale
                    ELSE IF key.t = "str" /\ key.s # <<>> /\ Len(key.s) <= 6 /\ (\A q \in 1..Len(key.s) : key.s[q] >= 48 /\ key.s[q] <= 57) THEN DigitsVal(key.s, 0)
                    ELSE 0 - 1 IN
         IF idx >= 0 /\ idx < Len(d.els) THEN Elem(d.els[idx + 1]) ELSE ErrR
    [] d.kind = "map" ->
         IF d.id = "map:us:max=x" /\ key = HostKey("big:uint64:max") THEN Elem(SB("x"))        \* the one host number that IS a key of that map
         ELSE IF d.keyt = "string"
         THEN (IF key.t = "str"
               THEN (IF \E q \in 1..Len(d.ents) : d.ents[q][1] = key
                     THEN Elem(d.ents[CHOOSE q \in 1..Len(d.ents) : d.ents[q][1] = key][2]) ELSE ErrR)
               ELSE ErrR)                                       \* a non-string key cannot be used on a string-keyed map
         ELSE IF d.keyt = "float" /\ key.t = "num"
         THEN (IF \E q \in 1..Len(d.ents) : d.ents[q][1] = key THEN Elem(d.ents[CHOOSE q \in 1..Len(d.ents) : d.ents[q][1] = key][2]) ELSE ErrR)
         ELSE IF d.keyt = "bool" /\ key.t = "bool"
         THEN (IF \E q \in 1..Len(d.ents) : d.ents[q][1] = key THEN Elem(d.ents[CHOOSE q \in 1..Len(d.ents) : d.ents[q][1] = key][2]) ELSE ErrR)
         ELSE IF d.keyt = "any" /\ key.t = "num" /\ (\E q \in 1..Len(d.ents) : d.ents[q][1] = key)
         THEN Either                                            \* a Go int key and a template number (float64): not decided
         ELSE IF d.keyt = "any"
         THEN (IF \E q \in 1..Len(d.ents) : d.ents[q][1] = key THEN Elem(d.ents[CHOOSE q \in 1..Len(d.ents) : d.ents[q][1] = key][2]) ELSE ErrR)
         ELSE IF d.keyt = "int" /\ key.t = "num" THEN           \* every number in a template is a float64: an integral one is a usable key
              (IF key.q % Scale # 0 THEN ErrR
               ELSE IF \E q \in 1..Len(d.ents) : d.ents[q][1] = key THEN Elem(d.ents[CHOOSE q \in 1..Len(d.ents) : d.ents[q][1] = key][2])
               ELSE ErrR)
         ELSE ErrR
    [] d.kind = "struct" ->
         IF key.t # "str" THEN ErrR
         ELSE LET nm == B2S(key.s) IN
              IF \E q \in 1..Len(PersonFields) : PersonFields[q][1] = nm
              THEN Elem(PersonFields[CHOOSE q \in 1..Len(PersonFields) : PersonFields[q][1] = nm][2])
              ELSE IF nm = "Inner" THEN Either                  \* a nil *person: some representation of nil
              ELSE IF nm \in {"secret", "hidden", "Nope", "a", "zz", "1", "", "k"} THEN ErrR
              ELSE MethodRef(nm, args)
    [] d.kind = "fstruct" ->
         IF key.t # "str" \/ ~IsPrintable(key.s) THEN ErrR
         ELSE LET nm == B2S(key.s) IN
              IF \E q \in 1..Len(d.fields) : d.fields[q][1] = nm
              THEN (IF args = <<>> THEN Elem(d.fields[CHOOSE q \in 1..Len(d.fields) : d.fields[q][1] = nm][2]) ELSE Either)
              ELSE IF nm \in d.structs THEN Either               \* the embedded struct itself: a struct value, not a template value
              ELSE ErrR
    [] OTHER -> ErrR                                             \* nil containers, scalars, functions, channels

ElemValues(d) == CASE d.kind = "seq" -> {d.els[q] : q \in 1..Len(d.els)}
                   [] d.kind = "map" -> {d.ents[q][2] : q \in 1..Len(d.ents)}
                   [] OTHER -> {}

(* ---- iteration ---- *)
LoopOK(lp, j, n) == /\ lp.Index = j /\ lp.Index0 = j - 1 /\ lp.Revindex = n - j + 1 /\ lp.Revindex0 = n - j
                    /\ lp.First = (j = 1) /\ lp.Last = (j = n) /\ lp.Length = n
                    /\ lp.Index = lp.Index0 + 1 /\ lp.Index = lp.Length - lp.Revindex0 /\ lp.Index = lp.Length - lp.Revindex + 1
(* why an iterate observation is not acceptable ("" = accepted) *)
IterWhy(d, ev) ==
  IF d.kind = "seq" THEN
       IF ~ev.iter_ok \/ ev.iter_n # Len(d.els) \/ Len(ev.items) # Len(d.els) THEN "seq-count"
       ELSE IF \E j \in 1..Len(d.els) : ev.items[j].k # IntV(j - 1) \/ ev.items[j].v # d.els[j] THEN "seq-order"
       ELSE IF \E j \in 1..Len(d.els) : ~LoopOK(ev.items[j].loop, j, Len(d.els)) THEN "loop-metadata"
       ELSE IF ~ev.len_ok \/ ev.len # Len(d.els) \/ ~ev.iterable \/ ~ev.isarray \/ ev.ismap THEN "len-or-tests"
       ELSE IF ~ev.contains_all \/ ev.contains_absent \/ ev.contains_err THEN "contains"
       ELSE IF ev.twig = "panic" THEN "twig-length-or-in-panics"
       ELSE IF ev.twig = "ran" /\ (ev.twiglen # Len(d.els) \/ ~ev.twigin) THEN "twig-length-or-in-differs-from-traversal"
       ELSE ""
  ELSE IF d.kind = "map" THEN
       IF ~ev.iter_ok \/ ev.iter_n # Len(d.ents) \/ Len(ev.items) # Len(d.ents) THEN "map-count"
       ELSE IF {<<ev.items[j].k, ev.items[j].v>> : j \in 1..Len(ev.items)} # {<<d.ents[j][1], d.ents[j][2]>> : j \in 1..Len(d.ents)}
            THEN "map-elements"                                  \* every entry exactly once, in any order
       ELSE IF \E j \in 1..Len(d.ents) : ~LoopOK(ev.items[j].loop, j, Len(d.ents)) THEN "loop-metadata"
       ELSE IF ~ev.len_ok \/ ev.len # Len(d.ents) \/ ~ev.iterable \/ ev.isarray \/ ~ev.ismap THEN "len-or-tests"
       ELSE IF ~ev.contains_all \/ ev.contains_absent \/ ev.contains_err THEN "contains"
       ELSE IF ev.twig = "panic" THEN "twig-length-or-in-panics"
       ELSE IF ev.twig = "ran" /\ (ev.twiglen # Len(d.ents) \/ ~ev.twigin) THEN "twig-length-or-in-differs-from-traversal"
       ELSE ""
  ELSE IF d.kind = "nil" THEN
       IF ev.iter_ok /\ (ev.iter_n # 0 \/ ev.items # <<>>) THEN "nil-visits"
       ELSE IF d.id = "nil" /\ (~ev.iter_ok \/ ~ev.iterable \/ ~ev.len_ok \/ ev.len # 0) THEN "nil-is-empty-sequence"
       ELSE IF ev.iter_ok # ev.iterable \/ ev.len_ok # ev.iter_ok THEN "tests-disagree-with-traversal"
       ELSE ""
  ELSE IF ev.iter_ok \/ ev.iterable \/ ev.len_ok \/ ev.isarray \/ ev.ismap THEN "non-iterable-accepted"
       ELSE ""

(* ---- case enumeration (binding G side: the harness runs them, C16_Trace judges) ---- *)
VARIABLES v_lvl, v_idx
CSeq == SetToSeq(Containers)
NC == Len(CSeq)
NK == Len(Keys)
NA == Len(ArgLists)
(* get-attr cases: every container x key, with argument lists on structs (and <<>> elsewhere); iterate: every container *)
GetCase(j) == LET c == CSeq[(j % NC) + 1]
                  key == Keys[((j \div NC) % NK) + 1]
                  al == ArgLists[((j \div (NC * NK)) % NA) + 1]
              IN [id |-> "C16-g" \o ToString(j), k |-> "getattr", cid |-> c.id, v |-> [t |-> "go", id |-> c.id], key |-> key, args |-> al,
                  struct |-> c.kind = "struct"]
NGet == NC * NK * NA
Picked == {j \in 0..(NGet - 1) : CSeq[(j % NC) + 1].kind = "struct" \/ (j \div (NC * NK)) % NA = 0}
          \cup {NGet + q - 1 : q \in {m \in 1..NC : CSeq[m].id # "map:self"}}        \* (the self-containing map is not traversed: describing its element would not end)
Init == GenInit(v_lvl, v_idx)
Next == GenNext(v_lvl, v_idx, Picked, 32)
Out == v_lvl < 2 \/ Emit(IF v_idx < NGet THEN GetCase(v_idx)
                         ELSE [id |-> "C16-i" \o ToString(v_idx), k |-> "iterate", cid |-> CSeq[v_idx - NGet + 1].id,
                               v |-> [t |-> "go", id |-> CSeq[v_idx - NGet + 1].id]])
(* design-level: the reference never leaves a case undecided in an ill-typed way *)
RefTotal == (v_lvl = 2 /\ v_idx < NGet) =>
  LET c == GetCase(v_idx) IN GetAttrRef(Desc(c.cid), c.key, c.args).r \in {"elem", "err", "either"}
=============================================================================
