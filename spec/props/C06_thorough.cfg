CONSTANTS Stride = 1
  Deep = TRUE
INIT Init
NEXT Next
INVARIANTS Out FirstTruthyBranch ElseIffEmpty LoopClosedForm InlineIfFilters ErrorsInBodiesReported
