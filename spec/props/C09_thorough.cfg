CONSTANTS MaxL = 4
  Stride4 = 1
INIT Init
NEXT Next
INVARIANTS Out MostDerivedWins NameInBlock
