--------------------------------- MODULE C11 ---------------------------------
(* C11 Macros.  Configuration: call form (self | alias | from | fromas),       *)
(* number of parameters k (0..4), number of arguments na (0..6), how the       *)
(* result is used, nesting.  The value of a call is defined declaratively      *)
(* (Result below: positional binding, missing = empty, surplus ignored) and    *)
(* TLC checks the executor against it; the three call forms must agree.        *)
EXTENDS Vec, SequencesExt, FiniteSetsExt

VARIABLES v_lvl, v_idx

Forms == {"self", "alias", "from", "fromas"}
Uses == {"print", "set2", "concat", "idarg", "macroarg", "macroarg2"}
Nests == {"none", "loop", "capture"}

PName(j) == "p" \o ToString(j)
MName(k) == "m" \o ToString(k)
Home(form) == IF form = "self" THEN "t" ELSE "lib"

(* the macros with an odd number of parameters print them from inside a loop (a deeper scope that does not define them); *)
(* the macros with an even number of parameters first capture what they print about them (set ... endset) and then print the
   capture: a macro may be called while its caller is itself capturing *)
MacroDef(k, home) ==
  LET ps == [j \in 1..(2 * k) |-> IF j % 2 = 1 THEN PrintS(NameE(PName((j + 1) \div 2))) ELSE Text(",")] IN
  MacroS(MName(k), [j \in 1..k |-> PName(j)],
         <<Text(MName(k) \o "(")>>
         \o (IF k % 2 = 0 THEN <<SetCap("held", ps), PrintS(NameE("held"))>>
             ELSE <<ForS("", "once", ArrE(<<IntE(1)>>), NoE, ps, <<>>, FALSE)>>)        \* read from a scope inside the macro's own
         \o <<Text(")"), PrintS(CallE("nul", <<StrE(home)>>))>>)
CallM(form, mname, args) ==
  CASE form = "self" -> AttrCall(NameE("_self"), mname, args)
    [] form = "alias" -> AttrCall(NameE("L"), mname, args)
    [] form = "from" -> CallE(mname, args)
    [] OTHER -> CallE("x_" \o mname, args)
(* outer(p1) calls m1(p1 ~ "+") - the two macros' parameters have the same name and different values: through _self in the defining template, through its own import in the library *)
OuterDef(home) == MacroS("outer", <<"p1">>,
                         IF home = "t" THEN <<Text("<"), PrintS(AttrCall(NameE("_self"), "m1", <<Bin("~", NameE("p1"), StrE("+"))>>)), Text(">")>>
                         ELSE <<ImportS(StrE("lib"), "q"), Text("<"), PrintS(AttrCall(NameE("q"), "m1", <<Bin("~", NameE("p1"), StrE("+"))>>)), Text(">")>>)
Defs(home) == [k \in 1..5 |-> MacroDef(k - 1, home)] \o <<OuterDef(home)>>
Prelude(form) ==
  CASE form = "self" -> Defs("t")
    [] form = "alias" -> <<ImportS(StrE("lib"), "L")>>
    [] form = "from" -> <<FromS(StrE("lib"), [k \in 1..5 |-> <<MName(k - 1), MName(k - 1)>>] \o << <<"outer", "outer">> >>)>>
    [] OTHER -> <<FromS(StrE("lib"), [k \in 1..5 |-> <<MName(k - 1), "x_" \o MName(k - 1)>>] \o << <<"outer", "x_outer">> >>)>>

Args(na) == [j \in 1..na |-> IntE(j * 11)]
RECURSIVE ResultFrom(_, _, _)
ResultFrom(k, na, j) == IF j > k THEN "" ELSE (IF j <= na THEN ToString(j * 11) ELSE "") \o "," \o ResultFrom(k, na, j + 1)
Result(k, na) == MName(k) \o "(" \o ResultFrom(k, na, 1) \o ")"

UseOf(c, call) ==
  CASE c.use = "print" -> <<PrintS(call)>>
    [] c.use = "set2" -> <<SetS("r", call), PrintS(NameE("r")), PrintS(NameE("r"))>>
    [] c.use = "concat" -> <<PrintS(Bin("~", Grp(Bin("~", StrE("x"), call)), StrE("y")))>>
    [] c.use = "idarg" -> <<PrintS(CallE("id", <<call>>))>>
    [] c.use = "macroarg" -> <<PrintS(CallM(c.form, "m1", <<call>>))>>
    (* the call is the SECOND argument of another call, and the whole thing is evaluated twice *)
    [] OTHER -> <<PrintS(CallM(c.form, "m2", <<StrE("z"), call>>)), Text(";"), PrintS(CallM(c.form, "m2", <<StrE("y"), call>>))>>
UseExp(c, r) ==
  CASE c.use = "print" -> r [] c.use = "set2" -> r \o r [] c.use = "concat" -> "x" \o r \o "y"
    [] c.use = "idarg" -> r [] c.use = "macroarg" -> "m1(" \o r \o ",)"
    [] OTHER -> "m2(z," \o r \o ",);m2(y," \o r \o ",)"
NestOf(c, stmts) ==
  CASE c.nest = "none" -> stmts
    [] c.nest = "loop" -> <<ForS("", "v", ArrE(<<IntE(1), IntE(2)>>), NoE, stmts, <<>>, FALSE)>>
    [] OTHER -> <<SetCap("c", stmts), Text("["), PrintS(NameE("c")), Text("]")>>
NestExp(c, e) == CASE c.nest = "none" -> e [] c.nest = "loop" -> e \o e [] OTHER -> "[" \o e \o "]"

(* how the template that defines/imports and calls the macros is reached: as the entry, through include, embed, or as the parent
   of an entry template that only extends it *)
Hosts == {"entry", "include", "embed", "parent", "childblock"}      \* childblock: the call sits in a block of a child that overrides the defining template's block
Configs ==
  { [form |-> f, k |-> k, na |-> na, use |-> u, nest |-> n, special |-> "none", host |-> "entry"]
      : f \in Forms, k \in 0..4, na \in 0..6, u \in Uses, n \in Nests }
  \cup { [form |-> f, k |-> k, na |-> 1, use |-> u, nest |-> n, special |-> "none", host |-> h]
      : f \in Forms, k \in 1..2, u \in {"print", "macroarg"}, n \in {"none", "loop"}, h \in Hosts \ {"entry"} }
  \cup { [form |-> f, k |-> 1, na |-> na, use |-> u, nest |-> "none", special |-> "outer", host |-> h] : f \in Forms, na \in 0..2, u \in Uses, h \in Hosts }
  \cup { [form |-> f, k |-> 0, na |-> 0, use |-> "print", nest |-> "none", special |-> "unknown", host |-> "entry"] : f \in {"alias", "from"} }
  (* the caller's variables carry the parameters' names: arguments are evaluated in the caller's scope, all of them before any
     parameter is bound *)
  \cup { [form |-> "alias", k |-> 1, na |-> 1, use |-> "print", nest |-> "none", special |-> "rebind", host |-> "entry"],
         [form |-> "alias", k |-> 1, na |-> 1, use |-> "print", nest |-> "none", special |-> "nested", host |-> "entry"] }
  \cup { [form |-> f, k |-> 2, na |-> 2, use |-> u, nest |-> n, special |-> "swap", host |-> "entry"] : f \in Forms, u \in {"print", "macroarg"}, n \in {"none", "loop"} }
  (* _self: a macro called above its definition, and a macro of an extending template called from its blocks (the parent defines
     a macro of the same name with another body) *)
  \cup { [form |-> "self", k |-> k, na |-> k, use |-> u, nest |-> "none", special |-> sp, host |-> "entry"] : k \in 0..2, u \in {"print", "set2"}, sp \in {"before", "childmacro"} }
  (* a block imported with use calls a macro of the template that defines it, through _self *)
  \cup { [form |-> "self", k |-> 1, na |-> 1, use |-> "print", nest |-> "none", special |-> "useself", host |-> "entry"] }
  (* the same macro from-imported under two names in one tag: both names are bound *)
  \cup { [form |-> "from", k |-> 1, na |-> 1, use |-> "print", nest |-> "none", special |-> "fromtwice", host |-> "entry"] }

(* a second library whose macros have the same names and different bodies: importing it under an alias or name that is
   already bound replaces the binding *)
Lib2 == <<MacroS("m1", <<"p1">>, <<Text("n1("), PrintS(NameE("p1")), Text(",)"), PrintS(CallE("nul", <<StrE("lib2")>>))>>)>>
(* a library whose macros are written inside the bodies of other tags: still macros of that template for import and from *)
Lib3 == <<IfS(BoolE(TRUE), <<MacroS("m1", <<"p1">>, <<Text("i1("), PrintS(NameE("p1")), Text(",)"), PrintS(CallE("nul", <<StrE("lib3")>>))>>)>>, <<>>, FALSE),
          BlockS("holder", <<MacroS("m2", <<"p1", "p2">>, <<Text("b2("), PrintS(NameE("p1")), Text(","), PrintS(NameE("p2")), Text(",)")>>)>>),
          ForS("", "v", ArrE(<<>>), NoE, <<MacroS("m3", <<>>, <<Text("f3()")>>)>>, <<>>, FALSE)>>
Program(c) ==
  CASE c.special = "nested" ->
         <<ImportS(StrE("lib3"), "L"), FromS(StrE("lib3"), << <<"m1", "m1">>, <<"m2", "q2">>, <<"m3", "m3">> >>), Text("^"),
           PrintS(AttrCall(NameE("L"), "m1", <<IntE(1)>>)), PrintS(CallE("m1", <<IntE(2)>>)), PrintS(AttrCall(NameE("L"), "m2", <<IntE(3), IntE(4)>>)),
           PrintS(CallE("q2", <<IntE(5)>>)), PrintS(CallE("m3", <<>>)), PrintS(AttrCall(NameE("L"), "m3", <<>>)), Text("$")>>
    [] c.special = "rebind" ->
         <<Text("^"), FromS(StrE("lib"), << <<"m1", "m1">> >>), PrintS(CallE("m1", <<IntE(11)>>)),
           FromS(StrE("lib2"), << <<"m1", "m1">> >>), PrintS(CallE("m1", <<IntE(11)>>)), Text("|"),
           ImportS(StrE("lib"), "L"), PrintS(AttrCall(NameE("L"), "m1", <<IntE(11)>>)),
           ImportS(StrE("lib2"), "L"), PrintS(AttrCall(NameE("L"), "m1", <<IntE(11)>>)), Text("|"),
           ForS("", "v", ArrE(<<StrE("lib"), StrE("lib2"), StrE("lib")>>), NoE,
                <<ImportS(NameE("v"), "L"), FromS(NameE("v"), << <<"m1", "q">> >>), PrintS(AttrCall(NameE("L"), "m1", <<IntE(1)>>)), PrintS(CallE("q", <<IntE(2)>>))>>, <<>>, FALSE),
           Text("$")>>
    [] c.special = "useself" -> <<UseS(StrE("ulib"), <<>>), Text("^"), PrintS(CallE("block", <<StrE("h")>>)), Text("$")>>
    [] c.special = "fromtwice" -> <<FromS(StrE("lib"), << <<"m1", "xa">>, <<"m1", "xb">>, <<"m2", "m2">> >>), Text("^"),
                                    PrintS(CallE("xa", <<IntE(11)>>)), Text("|"), PrintS(CallE("xb", <<IntE(22)>>)), Text("$")>>
    [] c.special = "before" -> <<Text("^")>> \o UseOf(c, CallM(c.form, MName(c.k), Args(c.na))) \o <<Text("$")>> \o Defs("t")
    [] c.special = "childmacro" -> <<ExtendsS(StrE("cbase"))>> \o Defs("t") \o <<BlockS("body", UseOf(c, CallM(c.form, MName(c.k), Args(c.na))))>>
    [] c.special = "outer" -> Prelude(c.form) \o <<Text("^")>> \o UseOf(c, CallM(c.form, "outer", Args(c.na))) \o <<Text("$")>>
    [] c.special = "unknown" ->
         IF c.form = "alias" THEN <<ImportS(StrE("lib"), "L"), Text("^"), PrintS(AttrCall(NameE("L"), "nope", <<>>)), Text("$")>>
         ELSE <<Text("^"), FromS(StrE("lib"), << <<"nope", "nope">> >>), Text("$")>>
    [] c.special = "swap" ->
         Prelude(c.form) \o <<SetS("p1", StrE("A")), SetS("p2", StrE("B")), Text("^")>>
         \o (IF c.nest = "loop"
             THEN <<ForS("", "p1", ArrE(<<StrE("x"), StrE("y")>>), NoE, UseOf(c, CallM(c.form, "m2", <<AttrDot(NameE("loop"), "index"), NameE("p1")>>)), <<>>, FALSE)>>
             ELSE UseOf(c, CallM(c.form, "m2", <<NameE("p2"), NameE("p1")>>)))
         \o <<Text("$")>>
    [] OTHER -> Prelude(c.form) \o <<Text("^")>> \o NestOf(c, UseOf(c, CallM(c.form, MName(c.k), Args(c.na)))) \o <<Text("$")>>
CallStmts(c) == IF c.special = "outer" THEN UseOf(c, CallM(c.form, "outer", Args(c.na)))
                ELSE NestOf(c, UseOf(c, CallM(c.form, MName(c.k), Args(c.na))))
Templates(c) == ("t" :> IF c.host = "childblock"
                        THEN Prelude(c.form) \o <<Text("^"), BlockS("body", <<Text("base")>>), Text("$")>>
                        ELSE Program(c))
                @@ ("lib" :> Defs("lib")) @@ ("lib2" :> Lib2) @@ ("lib3" :> Lib3)
                @@ ("ulib" :> <<MacroS("um", <<"p1">>, <<Text("um("), PrintS(NameE("p1")), Text(")")>>), BlockS("h", <<PrintS(AttrCall(NameE("_self"), "um", <<IntE(11)>>))>>)>>)
                @@ ("cbase" :> <<MacroS("m0", <<>>, <<Text("P0")>>), MacroS("m1", <<"p1">>, <<Text("P1")>>), MacroS("m2", <<"p1", "p2">>, <<Text("P2")>>),
                                Text("^"), BlockS("body", <<Text("base")>>), Text("$")>>)
                @@ (IF c.host = "entry" THEN <<>>
                    ELSE ("top" :> CASE c.host = "include" -> <<IncludeS(StrE("t"), NoE, FALSE)>>
                                     [] c.host = "embed" -> <<EmbedS(StrE("t"), NoE, FALSE, <<>>)>>
                                     [] c.host = "childblock" -> <<ExtendsS(StrE("t")), BlockS("body", CallStmts(c))>>
                                     [] OTHER -> <<ExtendsS(StrE("t"))>>))
Entry(c) == IF c.host = "entry" THEN "t" ELSE "top"
Expected(c) ==
  CASE c.special = "nested" -> "^i1(1,)i1(2,)b2(3,4,)b2(5,,)f3()f3()$"
    [] c.special = "rebind" -> "^m1(11,)n1(11,)|m1(11,)n1(11,)|m1(1,)m1(2,)n1(1,)n1(2,)m1(1,)m1(2,)$"
    [] c.special = "useself" -> "^um(11)$"
    [] c.special = "fromtwice" -> "^m1(11,)|m1(22,)$"
    [] c.special \in {"before", "childmacro"} -> "^" \o UseExp(c, Result(c.k, c.na)) \o "$"
    [] c.special = "outer" -> "^" \o UseExp(c, "<m1(" \o (IF c.na >= 1 THEN "11" ELSE "") \o "+,)>") \o "$"
    [] c.special = "unknown" -> "^"
    [] c.special = "swap" -> IF c.nest = "loop" THEN "^" \o UseExp(c, "m2(1,x,)") \o UseExp(c, "m2(2,y,)") \o "$"
                             ELSE "^" \o UseExp(c, "m2(B,A,)") \o "$"
    [] OTHER -> "^" \o NestExp(c, UseExp(c, Result(c.k, c.na))) \o "$"

Cases == SetToSeq(Configs)
Picked == 1..Len(Cases)
Init == GenInit(v_lvl, v_idx)
Next == GenNext(v_lvl, v_idx, Picked, 32)
Cur == Cases[v_idx]
Ref == Execute(Templates(Cur), Entry(Cur), EmptyScope)
Out == v_lvl < 2 \/ Emit(RenderVec("C11-" \o ToString(v_idx), Cur.form, Templates(Cur), Entry(Cur), EmptyScope,
                                   [nt |-> Cur.k # Cur.na \/ Cur.special = "outer" \/ Cur.use = "macroarg", special |-> Cur.special]))

--------------------------------------------------------------------------
(* positional binding, missing arguments empty, surplus ignored; the call's value is the rendered body *)
PositionalBinding == v_lvl = 2 => LET R == Ref IN
  /\ MainOut(R) = S2B(Expected(Cur))
  /\ R.status = (IF Cur.special = "unknown" THEN "err" ELSE "ok")
(* the call forms agree (they all equal the same declarative value; stated directly for the self form) *)
ThreeFormsAgree == (v_lvl = 2 /\ Cur.special \in {"none", "swap"}) =>
  MainOut(Ref) = MainOut(Execute(Templates([Cur EXCEPT !.form = "self"]), Entry(Cur), EmptyScope))
(* a callback inside a macro body sees the name of the template that defines the macro *)
NameInMacro == v_lvl = 2 =>
  LET lg == Ref.log IN \A q \in 1..Len(lg) : (lg[q].e = "cb" /\ lg[q].name = "nul") => lg[q].args[1] = Str(S2B(lg[q].tname))
=============================================================================
