CONSTANTS
  MaxToks = 4
  CloseOnError = FALSE
  Drain = TRUE
SPECIFICATION Spec
INVARIANTS TypeOK OrderOK
PROPERTIES LexerExits ParserNeverStuck
