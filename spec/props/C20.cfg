CONSTANTS Stride2 = 7
  Stride3 = 9001
  TruncStride = 211
INIT Init
NEXT Next
INVARIANTS Out AnchorsAreTokenPositions
