CONSTANTS Stride3 = 4001
  TruncStride = 97
INIT Init
NEXT Next
INVARIANTS Out AnchorsAreTokenPositions
