INIT Init
NEXT Next
INVARIANTS Out ErrorStopsOutput BasesSucceed
