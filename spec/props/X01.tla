--------------------------------- MODULE X01 ---------------------------------
(* X01 (beyond the listed properties): the implemented Twig filters return    *)
(* what spec/Filters.tla says.  Every filter x every value of a catalogue x    *)
(* its argument lists; the result is handed to a recording callback so that    *)
(* its TYPE is observed, not only its printed form.  Cases Filters.tla does    *)
(* not decide (OOM) are counted and skipped.                                   *)
EXTENDS Filters, Vec, SequencesExt

VARIABLES v_lvl, v_idx

SB(s) == Str(S2B(s))
Vals == << Null, Bool(TRUE), Bool(FALSE), IntV(0), IntV(3), IntV(0 - 2), Num(96), Num(0 - 160), Num(32), Num(0 - 32),
           SB(""), SB("hello world"), SB(" a b  "), SB("o'reilly-x_y z"), SB("ab"), SB("a b&c/d~e"), Str(<<195, 169, 97>>), SB("0"), SB("-1.5"), SB("q\"<b>&\\"), Str(<<97, 10, 9, 1, 127>>),
           Arr(<<Null, Bool(TRUE), Num(48), SB("s"), Arr(<<IntV(1)>>), Hash(<< <<S2B("z"), Null>>, <<S2B("a<"), Arr(<<>>)>> >>)>>),
           Arr(<<>>), Arr(<<IntV(1), SB("b"), IntV(3)>>), Arr(<<SB("x")>>), Arr(<<IntV(1), IntV(2), IntV(3), IntV(4), IntV(5)>>),
           Hash(<<>>), Hash(<< <<S2B("k"), IntV(1)>> >>), Hash(<< <<S2B("b"), IntV(2)>>, <<S2B("a"), IntV(1)>> >>) >>
NoArg == << <<>> >>
ArgsOf(f) ==
  CASE f = "default" -> << <<>>, <<SB("d")>>, <<IntV(7)>> >>
    [] f = "join" -> << <<>>, <<SB(",")>>, <<IntV(1)>>, <<SB(" - ")>> >>
    [] f = "merge" -> << <<Arr(<<IntV(9)>>)>>, <<Arr(<<>>)>>, <<Hash(<< <<S2B("z"), IntV(9)>> >>)>>, <<Hash(<<>>)>> >>
    [] f = "batch" -> << <<IntV(2)>>, <<IntV(2), SB("-")>>, <<IntV(3), IntV(0)>>, <<IntV(4), Null>> >>
    [] f = "replace" -> << <<Hash(<< <<S2B("l"), SB("L")>> >>)>>, <<Hash(<< <<S2B("o w"), SB("")>> >>)>>, <<Hash(<<>>)>>, <<SB("x")>> >>
    [] f = "slice" -> << <<IntV(1), IntV(2)>>, <<IntV(0)>> >>
    [] f = "split" -> << <<SB(",")>>, <<SB(""), IntV(2)>> >>
    [] f = "format" -> << <<>>, <<SB("x"), IntV(1)>> >>
    [] f = "round" -> << <<>>, <<IntV(0), SB("ceil")>>, <<IntV(0), SB("floor")>>, <<IntV(0 - 1)>> >>
    [] OTHER -> NoArg
Fs == << "upper", "lower", "capitalize", "title", "trim", "url_encode", "abs", "default", "length", "first", "last", "reverse", "keys", "join",
         "merge", "batch", "replace", "round", "json_encode", "slice", "sort", "split", "striptags", "format", "nl2br", "number_format",
         "convert_encoding", "date_modify" >>
CaseSeq == LET RECURSIVE All(_)
               All(fi) == IF fi > Len(Fs) THEN <<>>
                          ELSE LET f == Fs[fi]  as == ArgsOf(f) IN
                               [q \in 1..(Len(Vals) * Len(as)) |-> [f |-> f, v |-> Vals[((q - 1) % Len(Vals)) + 1], args |-> as[((q - 1) \div Len(Vals)) + 1]]] \o All(fi + 1)
           IN All(1)
Picked == 1..Len(CaseSeq)
Init == GenInit(v_lvl, v_idx)
Next == GenNext(v_lvl, v_idx, Picked, 32)

Case(j) ==
  LET c == CaseSeq[j]
      r == FilterRef(c.f, c.v, c.args)
      names == [q \in 1..Len(c.args) |-> NameE("p" \o ToString(q))]
      ctx == ("a" :> c.v) @@ [n \in {"p" \o ToString(q) : q \in 1..Len(c.args)} |-> c.args[CHOOSE q \in 1..Len(c.args) : n = "p" \o ToString(q)]]
      tpls == ("t" :> <<DoS(CallE("id", <<Pipe(NameE("a"), c.f, names)>>))>>) IN
  IF IsOOM(r) THEN [id |-> "X01-" \o ToString(j), fam |-> c.f, oom |-> TRUE]
  ELSE [id |-> "X01-" \o ToString(j), fam |-> c.f, k |-> "render", env |-> "twig", tpls |-> tpls, entry |-> "t", ctx |-> ctx, x |-> [filter |-> c.f],
        exp |-> [status |-> "ok", out |-> <<>>, log |-> <<[e |-> "load", name |-> S2B("t")], [e |-> "cb", kind |-> "func", name |-> "id", args |-> <<r>>, tname |-> "t"]>>]]
Out == v_lvl < 2 \/ Emit(Case(v_idx))
(* design-level laws of the filter model *)
Laws == v_lvl = 2 =>
  LET c == CaseSeq[v_idx]  r == FilterRef(c.f, c.v, c.args) IN
  /\ (c.f = "reverse" /\ c.v.t = "arr" /\ Decided(r)) => FilterRef("reverse", r, <<>>) = c.v
  /\ (c.f \in {"upper", "lower", "trim"} /\ Decided(r)) => FilterRef(c.f, r, <<>>) = r                 \* idempotent
  /\ (c.f = "keys" /\ c.v.t \in {"arr", "hash"} /\ Decided(r)) => FilterRef("length", r, <<>>) = FilterRef("length", c.v, <<>>)
  /\ (c.f = "abs" /\ Decided(r)) => r.q >= 0
  /\ (c.f = "batch" /\ Decided(r) /\ Len(c.args) = 1) => FilterRef("length", FilterRef("merge", Arr(<<>>), <<Arr(<<>>)>>), <<>>) = IntV(0)
=============================================================================
