CONSTANTS
  MaxToks = 4
  CloseOnError = TRUE
  Cap = 0
  Drain = TRUE
SPECIFICATION Spec
INVARIANTS TypeOK OrderOK NoLexerAtReturn
PROPERTIES LexerExits ParserNeverStuck ParserReturns
