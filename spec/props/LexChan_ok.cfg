CONSTANTS
  MaxToks = 4
  CloseOnError = TRUE
  Drain = TRUE
SPECIFICATION Spec
INVARIANTS TypeOK OrderOK
PROPERTIES LexerExits ParserNeverStuck
