--------------------------------- MODULE C20 ---------------------------------
(* C20 Syntax errors are detected, and all reported positions are exact.      *)
(* A template is a sequence of pieces <<bytes, kind>>; kind names the node    *)
(* whose anchor token starts at the first byte of the piece ("" = none).      *)
(* The expected position of an anchor is defined directly from the source:    *)
(*   line = 1 + number of LF before its offset, col = bytes since the last LF *)
(* Families: positions (every construct, white-space slots filled with blank, *)
(* LF, CRLF+blank or two LF; newlines in text, strings, comments), truncation *)
(* at every byte offset (error iff inside a delimiter pair or an open block), *)
(* injected errors (unknown tag name, illegal character, surplus literal at   *)
(* every slot; located at the injected token), errors in named templates.     *)
(* TLC also runs Lexer.tla on every source and checks that the positions of   *)
(* its tokens agree with the direct definition (AnchorsAreTokenPositions).    *)
EXTENDS Lexer, Seed, Json, FiniteSets

CONSTANTS Stride2, Stride3, TruncStride
VARIABLES v_lvl, v_idx

P(s, kd) == <<S2B(s), kd>>
PB(b, kd) == <<b, kd>>
W == <<<<>>, "W">>             \* a white-space slot (at least one white-space character)
O == <<<<>>, "O">>             \* an optional slot (canonically a blank; may hold an injected token)

(* simple constructs *)
Simple == <<
  << P("ab", "text") >>,
  << PB(<<97, 10, 98, 10>>, "text") >>,
  << PB(<<195, 169, 13, 10, 120>>, "text") >>,
  << P("{{", "print"), O, P("x", "name"), O, P("}}", "") >>,
  << P("{{", "print"), O, P("x", "name"), O, P("+", ""), O, P("12", "num"), O, P("}}", "") >>,
  << P("{{", "print"), O, PB(<<39, 97, 10, 98, 39>>, "str"), O, P("~", ""), O, P("y", "name"), O, P("}}", "") >>,
  << P("{#", ""), PB(<<32, 99, 10, 100, 32>>, ""), P("#}", "") >>,
  << P("{%", ""), O, P("set", "tag"), W, P("y", ""), O, P("=", ""), O, P("1.5", "num"), O, P("%}", "") >>,
  << P("{%", ""), O, P("include", "tag"), W, P("'p'", "str"), O, P("%}", "") >>,
  << P("{%", ""), O, P("do", "tag"), W, P("true", "bool"), O, P("%}", "") >>,
  (* the body of a verbatim section is a text run: its anchor is its own first byte *)
  << P("{%", ""), O, P("verbatim", ""), O, P("%}", ""), PB(<<32, 123, 123, 32, 118, 10, 125, 125>>, "text"), P("{%", ""), O, P("endverbatim", ""), O, P("%}", "") >>,
  << P("{{", "print"), O, P("null", "null"), O, P("?", ""), O, P("a", "name"), O, P(":", ""), O, P("b", "name"), O, P("}}", "") >>,
  << P("{{", "print"), O, P("f", "call"), P("(", ""), O, P("a", "name"), O, P(",", ""), O, P("3", "num"), O, P(")", ""), O, P("}}", "") >>,
  << P("{%", ""), O, P("import", "tag"), W, P("'p'", "str"), W, P("as", ""), W, P("q", ""), O, P("%}", "") >>,
  << P("{{", "print"), O, P("a", "name"), P(".", ""), P("b", "str"), P("[", ""), O, P("0", "num"), O, P("]", ""), O, P("|", ""), O, P("up", ""), O, P("}}", "") >>
>>
NS == Len(Simple)

(* constructs with a body: the inner construct goes between the tags *)
OpenClose == <<
  << << P("{%", ""), O, P("if", "tag"), W, P("x", "name"), O, P("%}", "") >>, << P("{%", ""), O, P("endif", ""), O, P("%}", "") >> >>,
  << << P("{%", ""), O, P("for", "tag"), W, P("v", ""), W, P("in", ""), W, P("s", "name"), O, P("%}", "") >>, << P("{%", ""), O, P("endfor", ""), O, P("%}", "") >> >>,
  << << P("{%", ""), O, P("block", "tag"), W, P("b", ""), O, P("%}", "") >>, << P("{%", ""), O, P("endblock", ""), O, P("%}", "") >> >>,
  << << P("{%", ""), O, P("macro", "tag"), W, P("m", ""), P("(", ""), O, P("p", ""), O, P(")", ""), O, P("%}", "") >>, << P("{%", ""), O, P("endmacro", ""), O, P("%}", "") >> >>,
  << << P("{%", ""), O, P("filter", "tag"), W, P("up", ""), O, P("%}", "") >>, << P("{%", ""), O, P("endfilter", ""), O, P("%}", "") >> >>,
  << << P("{%", ""), O, P("set", "tag"), W, P("c", ""), O, P("%}", "") >>, << P("{%", ""), O, P("endset", ""), O, P("%}", "") >> >>,
  (* a block inside an embed: its position is that of its own tag name, on whatever line it stands *)
  << << P("{%", ""), O, P("embed", "tag"), W, P("'p'", "str"), O, P("%}", ""), PB(<<10, 32>>, ""), P("{%", ""), O, P("block", "tag"), W, P("b", ""), O, P("%}", "") >>,
     << P("{%", ""), O, P("endblock", ""), O, P("%}", ""), P("{%", ""), O, P("endembed", ""), O, P("%}", "") >> >>,
  << << P("{%", ""), O, P("if", "tag"), W, P("x", "name"), O, P("%}", ""), P("t", "text"), P("{%", ""), O, P("else", ""), O, P("%}", "") >>,
     << P("{%", ""), O, P("endif", ""), O, P("%}", "") >> >>,
  << << P("{%", ""), O, P("if", "tag"), W, P("x", "name"), O, P("%}", ""), P("t", "text"), P("{%", ""), O, P("elseif", "tag"), W, P("a", "name"), O, P("%}", "") >>,
     << P("{%", ""), O, P("endif", ""), O, P("%}", "") >> >>,
  << << P("{%", ""), O, P("if", "tag"), W, P("x", "name"), O, P("%}", ""), P("{%", ""), O, P("elseif", "tag"), W, P("a", "name"), O, P("%}", ""), P("u", "text"),
        P("{%", ""), O, P("elseif", "tag"), W, P("b", "name"), O, P("%}", "") >>,
     << P("{%", ""), O, P("else", ""), O, P("%}", ""), P("e", "text"), P("{%", ""), O, P("endif", ""), O, P("%}", "") >> >>
>>
NOC == Len(OpenClose)
(* construct number c: 1..NS simple; then NS + (o-1)*NS + s : body construct o around simple s *)
NCon == NS + NOC * NS
Con(c) == IF c <= NS THEN Simple[c]
          ELSE LET o == ((c - NS - 1) \div NS) + 1  s == ((c - NS - 1) % NS) + 1 IN
               LET op == OpenClose[o][1]
                   fc == CHOOSE r \in 1..Len(op) : op[r][1] = <<37, 125>> /\ \A r2 \in 1..(r - 1) : op[r2][1] # <<37, 125>>
               IN SubSeq(op, 1, fc) \o <<<<<<>>, "B+">>>> \o SubSeq(op, fc + 1, Len(op)) \o Simple[s] \o OpenClose[o][2] \o <<<<<<>>, "B-">>>>
(* between two top-level constructs a separating text keeps "{{" from following "{" etc. *)
Sepr == << P(";", "text") >>

WsVariants == << <<32>>, <<10>>, <<13, 10, 32>>, <<10, 10>>, <<13>> >>      \* the last: a lone CR is white space and not a line break
Fill(pieces, ws) == [q \in 1..Len(pieces) |->
                       IF pieces[q][2] = "W" THEN <<WsVariants[ws], "">>
                       ELSE IF pieces[q][2] = "O" THEN <<(IF ws = 1 THEN <<32>> ELSE WsVariants[ws]), "">>
                       ELSE pieces[q]]
RECURSIVE CatP(_)
CatP(ps) == IF ps = <<>> THEN <<>> ELSE Head(ps)[1] \o CatP(Tail(ps))

(* adjacent text pieces form one text run: only the first is a node *)
MergeText(ps) == [q \in 1..Len(ps) |-> IF ps[q][2] = "text" /\ q > 1 /\ ps[q - 1][2] = "text" THEN <<ps[q][1], "">> ELSE ps[q]]

(* ---- the direct definition of a position ---- *)
LineAt(src, off) == 1 + CountB(SubSeq(src, 1, off), 10)
ColAt(src, off) == LET RECURSIVE Back(_)
                       Back(q) == IF q = 0 THEN 0 ELSE IF src[q] = 10 THEN q ELSE Back(q - 1)
                   IN off - Back(off)
RECURSIVE AnchorsFrom(_, _, _, _)
AnchorsFrom(src, ps, q, off) ==
  IF q > Len(ps) THEN <<>>
  ELSE (IF ps[q][2] \in {"", "B+", "B-"} THEN <<>> ELSE <<[kind |-> ps[q][2], line |-> LineAt(src, off), col |-> ColAt(src, off)]>>)
       \o AnchorsFrom(src, ps, q + 1, off + Len(ps[q][1]))
Anchors(ps) == AnchorsFrom(CatP(ps), ps, 1, 0)

(* ---- templates of the positions family: 1..3 constructs ---- *)
RECURSIVE PowC(_)
PowC(n) == IF n = 0 THEN 1 ELSE NCon * PowC(n - 1)
Count(n) == PowC(n) * Len(WsVariants)
RECURSIVE BaseT(_)
BaseT(n) == IF n = 1 THEN 0 ELSE BaseT(n - 1) + Count(n - 1)
TotalT == BaseT(3) + Count(3)
NOfT(j) == CHOOSE n \in 1..3 : BaseT(n) <= j /\ j < BaseT(n) + Count(n)
RECURSIVE Seq3(_, _)
Seq3(code, n) == IF n = 0 THEN <<>> ELSE (IF n > 1 THEN Sepr ELSE <<>>) \o Con((code % NCon) + 1) \o Seq3(code \div NCon, n - 1)
Template(j) == LET n == NOfT(j)  r == j - BaseT(n) IN
               MergeText(Fill(Seq3(r \div Len(WsVariants), n), (r % Len(WsVariants)) + 1))
SmallT == BaseT(3)
PickedT == (0..(BaseT(2) - 1))
           \cup {BaseT(2) + SeedMod(Stride2) + Stride2 * m : m \in 0..((SmallT - BaseT(2) - 1 - SeedMod(Stride2)) \div Stride2)}
           \cup {SmallT + SeedMod(Stride3) + Stride3 * m : m \in 0..((TotalT - SmallT - 1 - SeedMod(Stride3)) \div Stride3)}

(* ---- truncation: error iff the cut is inside a delimiter pair or inside an open body ---- *)
RECURSIVE OpenAt(_, _, _, _, _)       \* keeping the first `cut` bytes: does the source end inside a delimiter pair or an open body ?
OpenAt(ps, q, off, cut, depth) ==
  IF q > Len(ps) THEN depth > 0
  ELSE LET pc == ps[q]
           ln == Len(pc[1])
           d2 == IF pc[2] = "B+" THEN depth + 1 ELSE IF pc[2] = "B-" THEN depth - 1 ELSE depth
       IN IF pc[1] \in {<<123, 123>>, <<123, 37>>, <<123, 35>>}
          THEN LET RECURSIVE CloseIdx(_)
                   CloseIdx(r) == IF ps[r][1] \in {<<125, 125>>, <<37, 125>>, <<35, 125>>} THEN r ELSE CloseIdx(r + 1)
                   c == CloseIdx(q + 1)
                   RECURSIVE LenTo(_, _)
                   LenTo(x, y) == IF x > y THEN 0 ELSE Len(ps[x][1]) + LenTo(x + 1, y)
                   endOff == off + LenTo(q, c)
               IN IF cut <= off + 1 THEN depth > 0                 \* nothing, or a lone "{" which is text
                  ELSE IF cut < endOff THEN TRUE                   \* the pair is open (or its closing delimiter is cut)
                  ELSE OpenAt(ps, c + 1, endOff, cut, depth)
          ELSE IF ln > 0 /\ cut <= off + ln THEN depth > 0
          ELSE IF ln = 0 THEN OpenAt(ps, q + 1, off, cut, d2)       \* a marker: the body opens/closes here
          ELSE OpenAt(ps, q + 1, off + ln, cut, d2)

(* ---- injection: a token put into slot q of a construct ---- *)
InjKinds == <<"illegal", "surplus", "unknowntag">>
SlotsOf(ps) == {q \in 1..Len(ps) : ps[q][2] \in {"O", "W"}}
BeforeClose(ps, q) == q < Len(ps) /\ ps[q + 1][1] \in {<<125, 125>>, <<37, 125>>}
Inject(ps, q, ik) ==
  [r \in 1..Len(ps) |->
     IF r = q THEN (CASE ik = "illegal" -> <<<<32, 36, 32>>, "inj1">>
                      [] ik = "illegalmb" -> <<<<32, 226, 130, 172, 32>>, "inj1">>          \* a 3-byte character right after white space
                      [] OTHER -> <<<<32, 55, 55, 32>>, "inj1">>)
     ELSE IF ps[r][2] \in {"W", "O"} THEN <<<<32>>, "">> ELSE ps[r]]
UnknownTag(ps) == [r \in 1..Len(ps) |-> IF ps[r][2] = "tag" THEN <<S2B("foo"), "inj0">>
                                       ELSE IF ps[r][2] \in {"W", "O"} THEN <<<<32>>, "">> ELSE ps[r]]
InjectionCases ==
  { [c |-> c, q |-> q, ik |-> ik, pre |-> pre] :
      c \in (1..NS) \cup {NS + (o - 1) * NS + 1 : o \in 1..NOC},      \* every simple construct, and every body construct around the first
      q \in 1..45, ik \in {"illegal", "surplus", "illegalmb"}, pre \in 1..2 }
InjOK(x) == LET ps == Con(x.c) IN x.q \in SlotsOf(ps) /\ (x.ik \in {"illegal", "illegalmb"} \/ BeforeClose(ps, x.q))
                                  /\ ps[1][1] \in {<<123, 123>>, <<123, 37>>}
                                  (* a malformed endverbatim tag is body text of the verbatim section, not a tag *)
                                  /\ ~\E q \in 1..Len(ps) : ps[q][1] = S2B("verbatim")
Prefixes == << <<>>, << PB(<<108, 49, 10, 108, 50, 10, 32, 32>>, "") >> >>      \* "l1\nl2\n  " before the construct

(* ---- case index space: positions templates, then truncations, injections ---- *)
Init == v_lvl = 0 /\ v_idx = <<"", 0, 0>>
(* (the verbatim construct is left out of the truncations: OpenAt does not know that a verbatim body is an open block) *)
TruncTemplates == {j \in 0..(SmallT - 1) : j % TruncStride = SeedMod(TruncStride) /\ ~\E q \in 1..Len(Template(j)) : Template(j)[q][1] = S2B("verbatim")}
Next ==
  \/ /\ v_lvl = 0 /\ v_lvl' = 1 /\ \E c \in 0..31 : v_idx' = <<"chunk", c, 0>>
  \/ /\ v_lvl = 1 /\ v_lvl' = 2
     /\ \/ \E j \in {q \in PickedT : q % 32 = v_idx[2]} : v_idx' = <<"pos", j, 0>>
        \/ \E j \in {q \in TruncTemplates : q % 32 = v_idx[2]} : \E cut \in 0..Len(CatP(Template(j))) : v_idx' = <<"trunc", j, cut>>
        \/ /\ v_idx[2] = 0
           /\ \/ \E x \in {y \in InjectionCases : InjOK(y)} : v_idx' = <<"inj", x.c * 1000 + x.q * 10 + (CASE x.ik = "illegal" -> 0 [] x.ik = "surplus" -> 1 [] OTHER -> 2), x.pre>>
              \/ \E c \in 1..NCon : \E pre \in 1..2 : Con(c)[1][1] = <<123, 37>> /\ Con(c)[3][2] = "tag" /\ v_idx' = <<"tag", c, pre>>

Kind == v_idx[1]
PosPieces == Template(v_idx[2])
InjPieces == LET c == v_idx[2] \div 1000  q == (v_idx[2] % 1000) \div 10  ik == CASE v_idx[2] % 10 = 0 -> "illegal" [] v_idx[2] % 10 = 1 -> "surplus" [] OTHER -> "illegalmb" IN
             Prefixes[v_idx[3]] \o Inject(Con(c), q, ik)
TagPieces == Prefixes[v_idx[3]] \o UnknownTag(Con(v_idx[2]))
InjAnchor(ps) == LET a == SelectSeq(Anchors(ps), LAMBDA x : x.kind \in {"inj0", "inj1"}) IN
                 IF a[1].kind = "inj1" THEN [a[1] EXCEPT !.col = @ + 1] ELSE a[1]     \* inj1 pieces start with a blank

Vecc ==
  CASE Kind = "pos" -> [id |-> "C20-p" \o ToString(v_idx[2]), k |-> "parsepos", fam |-> "positions", src |-> CatP(PosPieces),
                        exp |-> [ok |-> TRUE, anchors |-> SelectSeq(Anchors(PosPieces), LAMBDA x : TRUE)]]
    [] Kind = "trunc" -> LET ps == Template(v_idx[2])  src == CatP(ps) IN
                         [id |-> "C20-t" \o ToString(v_idx[2]) \o "-" \o ToString(v_idx[3]), k |-> "parsepos", fam |-> "truncation",
                          src |-> SubSeq(src, 1, v_idx[3]),
                          exp |-> [ok |-> ~OpenAt(ps, 1, 0, v_idx[3], 0), anchors |-> <<>>]]
    [] Kind = "inj" -> [id |-> "C20-i" \o ToString(v_idx[2]) \o "-" \o ToString(v_idx[3]), k |-> "parsepos", fam |-> "injection",
                        src |-> CatP(InjPieces), exp |-> [ok |-> FALSE, at |-> InjAnchor(InjPieces), anchors |-> <<>>]]
    [] OTHER -> [id |-> "C20-u" \o ToString(v_idx[2]) \o "-" \o ToString(v_idx[3]), k |-> "parsepos", fam |-> "unknown-tag",
                 src |-> CatP(TagPieces), exp |-> [ok |-> FALSE, at |-> InjAnchor(TagPieces), anchors |-> <<>>]]
Out == v_lvl = 2 => PrintT(ToJson(Vecc))

(* the tokeniser's bookkeeping agrees with the direct definition on every source of the positions family *)
AnchorsAreTokenPositions == (v_lvl = 2 /\ Kind = "pos") =>
  LET src == CatP(PosPieces)
      st == Lex(src)
      an == Anchors(PosPieces) IN
  /\ PosExact(src, st) /\ st.toks[Len(st.toks)].typ = "EOF"
  /\ \A q \in 1..Len(an) : an[q].kind = "str" \/ \E r \in 1..Len(st.toks) : st.toks[r].line = an[q].line /\ st.toks[r].col = an[q].col
=============================================================================
