------------------------------ MODULE C06_Src ------------------------------
(* C06 on BYTES.  Sources are sequences of fragments: opening, continuing    *)
(* and closing tags of if and for, text, prints of the loop variable and of  *)
(* loop.index.  Three families:                                              *)
(*   all   every sequence of up to Exh fragments (most are not templates)    *)
(*   bal   every BALANCED sequence of up to Bal fragments (the grammar below) *)
(*   del   every balanced sequence of up to Del fragments with one fragment  *)
(*         deleted (an open block never closed, an else / elseif / end tag   *)
(*         with nothing to belong to, or still a template)                   *)
(* The specification decides each source from its bytes - Lexer.tla,         *)
(* Parser.tla, Exec.tla -: it is either not a template or it renders a       *)
(* definite output.  The real code must agree on both.                       *)
EXTENDS Parser, Seed, SequencesExt, FiniteSetsExt

CONSTANTS Exh, Bal, Del
VARIABLES v_lvl, v_idx

Frags == << "{% if t %}", "{% if f %}", "{% elseif t %}", "{% elseif f %}", "{% else %}", "{% endif %}",
            "{% for v in [1, 2] %}", "{% for v in [] %}", "{% endfor %}", "A", "{{ v }}", "{{ loop.index }}" >>
NF == Len(Frags)
IfOpen == {1, 2}   ElseIf == {3, 4}   ElseT == 5   EndIf == 6   ForOpen == {7, 8}   EndFor == 9   Atoms == {10, 11, 12}
Ctx == ("t" :> Bool(TRUE)) @@ ("f" :> Bool(FALSE))

(* ---- the grammar of balanced sequences, by number of fragments ---- *)
RECURSIVE Body(_), Stmt(_), Chain(_)
Body(n) == IF n = 0 THEN {<<>>}
           ELSE UNION { {st \o rest : st \in Stmt(k), rest \in Body(n - k)} : k \in 1..n }
Stmt(k) == IF k = 1 THEN {<<a>> : a \in Atoms}
           ELSE { <<o>> \o c \o <<EndIf>> : o \in IfOpen, c \in Chain(k - 2) }
                \cup { <<o>> \o b \o <<EndFor>> : o \in ForOpen, b \in Body(k - 2) }
                \cup (IF k >= 3 THEN UNION { { <<o>> \o b1 \o <<ElseT>> \o b2 \o <<EndFor>> : o \in ForOpen, b1 \in Body(i), b2 \in Body(k - 3 - i) } : i \in 0..(k - 3) }
                      ELSE {})
(* what stands between an if's opening tag and its endif: a body, then elseif-bodies, then at most one else-body *)
Chain(m) == Body(m)
            \cup (IF m >= 1 THEN UNION { { b \o <<e>> \o c : b \in Body(i), e \in ElseIf, c \in Chain(m - 1 - i) } : i \in 0..(m - 1) } ELSE {})
            \cup (IF m >= 1 THEN UNION { { b \o <<ElseT>> \o b2 : b \in Body(i), b2 \in Body(m - 1 - i) } : i \in 0..(m - 1) } ELSE {})
Balanced(n) == UNION {Body(k) : k \in 1..n}
DeleteOne(s) == { SubSeq(s, 1, q - 1) \o SubSeq(s, q + 1, Len(s)) : q \in 1..Len(s) }
AllUpTo(n) == UNION {[1..k -> 1..NF] : k \in 1..n}

CaseSet == AllUpTo(Exh) \cup Balanced(Bal) \cup UNION {DeleteOne(s) : s \in Balanced(Del)}
Cases == SetToSeq(CaseSet \ {<<>>})
Picked == 1..Len(Cases)
Init == GenInit(v_lvl, v_idx)
Next == GenNext(v_lvl, v_idx, Picked, 64)

RECURSIVE CatF(_)
CatF(s) == IF s = <<>> THEN <<>> ELSE S2B(Frags[Head(s)]) \o CatF(Tail(s))

Case(j) ==
  LET fs == Cases[j]
      src == CatF(fs)
      pr == ParseSrc(src)
      S == IF pr.ok THEN Execute(("t" :> pr.tree), "t", Ctx) ELSE [status |-> "err", outs |-> << <<>> >>, log |-> <<>>] IN
  [id |-> "C06s-" \o ToString(j), fam |-> (IF pr.ok THEN "src-valid" ELSE "src-rejected"), k |-> "render", env |-> "core",
   srcs |-> ("t" :> src), entry |-> "t", ctx |-> Ctx, nolog |-> TRUE,
   x |-> [n |-> Len(fs), at |-> pr.at, bal |-> fs \in Balanced(Len(fs)), strayelseif |-> \E q \in 1..Len(fs) : fs[q] \in ElseIf],
   exp |-> [status |-> S.status, out |-> S.outs[1], log |-> <<>>]]
Out == v_lvl < 2 \/ Emit(Case(v_idx))
(* design: the parser accepts exactly the balanced sequences of the grammar (an elseif with no if to belong to was read as an
   if by the code until abda998; the model followed that leniency and this invariant named it - both are gone);
   the reference decides every case *)
AcceptsExactlyBalanced == v_lvl = 2 => LET c == Case(v_idx) IN
  (c.x.bal <=> c.fam = "src-valid")
Decided == v_lvl = 2 => Case(v_idx).exp.status \in {"ok", "err"}
=============================================================================
