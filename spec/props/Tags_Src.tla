------------------------------ MODULE Tags_Src ------------------------------
(* Every header form of every tag, written as source and decided by          *)
(* Lexer.tla -> Parser.tla -> Exec.tla: the branches of parse_tag.go          *)
(* (optional with / only / if / as / alias lists / parameter lists / filter   *)
(* chains) each followed by something that shows what was parsed.  Each case  *)
(* names the property whose check replays it.                                 *)
EXTENDS Parser, Seed, SequencesExt

VARIABLES v_lvl, v_idx

Lib == ("i" :> S2B("<{{ x }}|{{ y }}>")) @@ ("e" :> S2B("E[{% block eb %}d{{ x }}{% endblock %}|{% block ec %}c{% endblock %}]"))
       @@ ("lib" :> S2B("{% macro m1(a) %}m1({{ a }}){% endmacro %}{% macro m2(a, b) %}m2({{ a }},{{ b }}){% endmacro %}"))
       @@ ("u" :> S2B("{% block ub %}UB{{ x }}{% endblock %}{% block uc %}UC{% endblock %}"))
       @@ ("base" :> S2B("^{% block a %}Ba{% endblock %}|{% block b %}Bb{% endblock %}$"))
       @@ ("base2" :> S2B("{% block sidebar %}base-sidebar{% endblock %}/{% block box %}base-box{% endblock %}/{% block main %}{% endblock %}"))
       @@ ("mid2" :> S2B("{% extends 'base2' %}{% block sidebar %}mid({{ parent() }}){% endblock %}"))
       @@ ("up" :> S2B("{% block box %}[box:{{ parent() }}]{% endblock %}"))
       @@ ("lib2" :> S2B("{% macro j(items, sep, acc) %}{% for i in items %}{% set acc = acc ~ i ~ sep %}{% endfor %}[{{ acc }}]{% endmacro %}"))
Ctx == ("x" :> Str(S2B("q"))) @@ ("y" :> IntV(2)) @@ ("h" :> Hash(<< <<S2B("x"), IntV(7)>> >>)) @@ ("t" :> Bool(TRUE)) @@ ("name" :> Str(S2B("i")))
       @@ ("arr" :> Arr(<<IntV(1), IntV(2), IntV(3)>>))

C(p, s) == [prop |-> p, src |-> s]
Sources == <<
  (* include / embed: C10 *)
  C("C10", "{% include 'i' %}"), C("C10", "{% include 'i' with {x: 1} %}"), C("C10", "{% include 'i' with {x: 1} only %}"), C("C10", "{% include 'i' only %}"),
  C("C10", "{% include 'i' with h %}"), C("C10", "{% include 'i' with h only %}"), C("C10", "{% include name %}"), C("C10", "{% include name ~ '' with {y: x} %}"),
  C("C10", "{% include 'i' with {x: 1, y: {a: [1, 2]}.a[1]} %}"), C("C10", "{% include t ? 'i' : 'e' %}"),
  C("C10", "{% embed 'e' %}{% endembed %}"), C("C10", "{% embed 'e' %}{% block eb %}o{% endblock %}{% endembed %}"),
  C("C10", "{% embed 'e' with {x: 1} %}{% block ec %}o{{ x }}{% endblock %}{% block eb %}p{{ parent() }}{% endblock %}{% endembed %}"),
  C("C10", "{% embed 'e' only %}{% block eb %}[{{ x }}]{% endblock %}{% endembed %}"), C("C10", "{% embed 'e' with h only %} junk {{ ignored }} {% block ec %}k{% endblock %} more {% endembed %}"),
  C("C10", "{% for v in arr %}{% include 'i' with {y: v} %}{% endfor %}"),
  (* use / extends / block: C09 *)
  C("C09", "{% use 'u' %}{{ block('ub') }}"), C("C09", "{% use 'u' with ub as z %}{{ block('z') }}"), C("C09", "{% use 'u' with ub as z, uc as w %}{{ block('w') }}{{ block('z') }}"),
  C("C09", "{% extends 'base' %}{% block a %}A{% endblock %}"), C("C09", "{% extends 'base' %}{% block a %}A({{ parent() }}){% endblock %}{% block b %}{{ block('a') }}{% endblock %}"),
  C("C09", "{% extends 'ba' ~ 'se' %}junk{% block b %}B{% endblock %}junk"), C("C09", "{% extends 'base' %}{% use 'u' %}{% block a %}{{ block('uc') }}{% endblock %}"),
  C("C09", "{% block o %}O{% block n %}N{% endblock %}{% endblock %}{{ block('n') }}"),
  (* macro / import / from: C11 *)
  C("C11", "{% macro m() %}M{% endmacro %}{{ _self.m() }}"), C("C11", "{% macro m(a) %}M{{ a }}{% endmacro %}{{ _self.m(1) }}{{ _self.m() }}"),
  C("C11", "{% macro m(a, b) %}M{{ a }}{{ b }}{% endmacro %}{{ _self.m(1, 2) }}{{ _self.m(1, 2, 3) }}"), C("C11", "{% macro m(a, b, ) %}M{{ b }}{% endmacro %}{{ _self.m(1, 2) }}"),
  C("C11", "{% import 'lib' as L %}{{ L.m1(1) }}{{ L.m2(1, 2) }}"), C("C11", "{% import 'l' ~ 'ib' as L %}{{ L.m1(x) }}"),
  C("C11", "{% from 'lib' import m1 %}{{ m1(1) }}"), C("C11", "{% from 'lib' import m1 as q %}{{ q(1) }}"), C("C11", "{% from 'lib' import m1, m2 as r %}{{ m1(1) }}{{ r(1, 2) }}"),
  C("C11", "{% from 'lib' import m1 as a, m2 as b, %}{{ b(a(1), 2) }}"), C("C11", "{% import 'lib' as L %}{% set r = L.m1(5) %}{{ r ~ r }}"),
  (* set / do / filter: C07, C08 *)
  C("C07", "{% set a = 1 %}{{ a }}"), C("C07", "{% set a = x ~ y %}{{ a }}{% set a = a ~ a %}{{ a }}"), C("C07", "{% for v in arr %}{% set s = v %}{% endfor %}[{{ s }}]{{ v }}"),
  C("C07", "{% set a = 1 %}{% for v in arr %}{% set a = a + v %}{% endfor %}{{ a }}"), C("C07", "{% do 1 + 2 %}{% do x %}ok"),
  C("C08", "{% set c %}cap{{ x }}{% endset %}[{{ c }}][{{ c }}]"), C("C08", "{% filter up %}a{{ x }}{% endfilter %}"), C("C08", "{% filter up|wrap %}a{% endfilter %}"),
  C("C08", "{% filter wrap | up | wrap %}a{% filter up %}b{% endfilter %}{% endfilter %}"), C("C08", "{% set c %}{% filter up %}k{% endfilter %}{% endset %}{{ c|wrap }}"),
  (* for / if: C06 *)
  C("C06", "{% for v in arr %}{{ v }}{% endfor %}"), C("C06", "{% for k, v in arr %}{{ k }}={{ v }};{% endfor %}"), C("C06", "{% for k , v in h %}{{ k }}={{ v }};{% endfor %}"),
  C("C06", "{% for v in arr if v > 1 %}{{ v }}{{ loop.index }}{% endfor %}"), C("C06", "{% for v in [] %}x{% else %}E{% endfor %}"), C("C06", "{% for v in 1..3 %}{{ v }}{% endfor %}"),
  C("C06", "{% for v in arr if v is odd %}{{ v }}{% else %}E{% endfor %}"), C("C06", "{% if x %}A{% elseif y %}B{% else %}C{% endif %}"), C("C06", "{% if not x %}A{% elseif y > 1 %}B{% elseif t %}D{% endif %}"),
  C("C06", "{% if x is divisible by(2) %}A{% else %}{% if y is divisible by(2) %}B{% endif %}C{% endif %}"),
  (* conditions that are literals, in every spelling: the branch is chosen by the value, a zero is a zero however it is written *)
  C("C06", "{% if 0.0 %}yes{% else %}no{% endif %}"), C("C06", "{% if 00 %}y{% else %}n{% endif %}"), C("C06", "{% if 0.00 %}A{% elseif 0.5 %}B{% else %}C{% endif %}"),
  C("C06", "{% for i in 1..3 %}{% if 0.0 %}A{% elseif i > 1 %}B{% else %}C{% endif %}{% endfor %}"), C("C06", "{% if 0 %}A{% elseif 000 %}B{% elseif 007 %}C{% else %}D{% endif %}"),
  C("C06", "{% if '' %}A{% elseif 'a' %}B{% endif %}|{% if null %}A{% elseif false %}B{% elseif true %}C{% endif %}|{% if (0.0) %}A{% elseif 1 %}B{% endif %}"),
  C("C06", "{% if 0.25 %}A{% endif %}{% if 1.0 %}B{% endif %}{% if 0.50 %}C{% endif %}{% if 10 %}D{% endif %}"),
  C("C06", "{% for v in arr if 0.0 %}{{ v }}{% else %}E{% endfor %}{% for v in arr if 1 %}{{ v }}{% endfor %}{{ 0.0 ? 'a' : 'b' }}{{ 00 ? 'a' : 'b' }}"),
  (* a name bound to null is bound: an assignment from a nested scope updates it (a parameter left out or passed as null, a
     variable set to null) *)
  C("C11", "{% macro j(items, sep, acc) %}{% for i in items %}{% set acc = acc ~ i ~ sep %}{% endfor %}[{{ acc }}]{% endmacro %}{{ _self.j([1, 2, 3], ',') }}{{ _self.j([1, 2], ';', null) }}{{ _self.j([1], ',', '') }}"),
  C("C11", "{% from 'lib2' import j %}{{ j([1, 2], '+') }}{% import 'lib2' as L %}{{ L.j([3], '-', null) }}{% for q in [1, 2] %}{{ j([q], '.') }}{% endfor %}"),
  C("C07", "{% set a = null %}{% for v in arr %}{% set a = a ~ v %}{% endfor %}[{{ a }}]{% set b = null %}{% if t %}{% for v in arr %}{% set b = v %}{% endfor %}{% endif %}[{{ b }}]"),
  (* a block reached by block(alias): parent() inside it climbs the chain of the name it was reached by *)
  C("C09", "{% extends 'base2' %}{% use 'up' with box as sidebar %}{% block main %}{{ block('sidebar') }}{% endblock %}"),
  C("C09", "{% extends 'base2' %}{% use 'up' with box as sidebar %}"),
  C("C09", "{% extends 'mid2' %}{% use 'up' with box as sidebar %}{% block main %}{{ block('sidebar') }}|{{ block('box') }}{% endblock %}"),
  C("C09", "{% extends 'base2' %}{% use 'up' %}{% block main %}{{ block('box') }}{% endblock %}"),
  (* a block that renders itself through block() until a counter of its own stops it: each level's text is the captured value, *)
  (* printed, captured and printed twice, passed through a filter section, and two blocks that render each other (C08)        *)
  C("C08", "{% set n = 0 %}{% block r %}({{ n }}{% if n < 3 %}{% set n = n + 1 %}{{ block('r') }}{% endif %}){% endblock %}."),
  C("C08", "{% set n = 0 %}{% block tree %}<{{ n }}{% if n < 2 %}{% set n = n + 1 %}{% set sub %}{{ block('tree') }}{% endset %}{{ sub }}|{{ sub }}{% endif %}>{% endblock %}!"),
  C("C08", "{% set n = 0 %}{% block f %}a{{ n }}{% if n < 1 %}{% set n = n + 1 %}{% filter up %}{{ block('f') }}{% endfilter %}{% endif %}z{% endblock %}"),
  C("C08", "{% set n = 0 %}{% block p %}p{{ n }}{% if n < 2 %}{% set n = n + 1 %}{{ block('q') }}{% endif %}{% endblock %}/{% block q %}q[{{ block('p') }}]{% endblock %}")
>>
Picked == 1..Len(Sources)
Init == GenInit(v_lvl, v_idx)
Next == GenNext(v_lvl, v_idx, Picked, 16)

Case(j) ==
  LET c == Sources[j]
      srcs == ("t" :> S2B(c.src)) @@ Lib
      pr == ParseSrc(S2B(c.src))
      S == RenderSrc(srcs, "t", Ctx) IN
  [id |-> "TAG-" \o ToString(j), fam |-> "src-tags", prop |-> c.prop, k |-> "render", env |-> "core", srcs |-> srcs, entry |-> "t", ctx |-> Ctx, nolog |-> TRUE,
   x |-> [valid |-> pr.ok, n |-> 3], oom |-> S.status = "oom",
   exp |-> [status |-> S.status, out |-> S.outs[1], log |-> <<>>]]
Out == v_lvl < 2 \/ Emit(Case(v_idx))
(* every source of the list is a template, and the reference decides it *)
AllValid == v_lvl = 2 => (Case(v_idx).x.valid /\ Case(v_idx).exp.status = "ok")
=============================================================================
