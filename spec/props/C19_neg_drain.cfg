CONSTANTS MaxHist = 1
  Stride3 = 1
  CloseFiles = TRUE
  Drain = FALSE
SPECIFICATION Spec
PROPERTIES ReturnedLeadsToClean
