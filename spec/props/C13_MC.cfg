CONSTANTS
  FnSet = {"html", "html_attr", "js", "css", "url"}
  MaxPlane = 16
INIT Init
NEXT Next
INVARIANTS OutputInert Lossless1 PairsLossless
