--------------------------------- MODULE C14 ---------------------------------
(* C14 Formatting inside delimiters does not change meaning (tokeniser part). *)
(* For one instance of every tag kind and expression form, written in its     *)
(* canonical spelling, every re-spelling is generated that puts one of        *)
(*   nothing (only where CanAbut) | blank | TAB | LF | CR LF | two blanks | CR *)
(* at every token boundary inside the delimiters; string quotes are switched  *)
(* and '-' markers added where no white space is adjacent.  Theorem checked   *)
(* by TLC on Lexer.tla: the non-space tokens of every re-spelling are the     *)
(* tokens of the canonical spelling (SpellingInvariant).                      *)
EXTENDS Lexer, Seed, Json, FiniteSets

CONSTANTS MaxVary      \* at most this many boundaries deviate from the canonical blank at a time
VARIABLES v_lvl, v_idx

Snips == <<
  "{{ a + b }}", "{{ a.b[c]|f(d, 1) }}", "{{ not a and b or c }}", "{{ a is not divisible by(3) }}", "{{ a ? b : c }}",
  "{{ [a, b, 1] }}", "{{ {a: b, 'c': d} }}", "{{ f(a, b) }}", "{{ \"x#{a}y\" }}", "{{ a starts with b }}", "{{ a not in b }}",
  "{{ - a ** 2 }}", "{{ 1 .. 3 }}", "{{ a b-and c }}", "{{ a matches 'x' }}", "{{ (a) }}", "{{ a|f|g }}", "{{ not (a) }}", "{{ a in (b) }}", "{{ {a: {b: \"x#{c}z\"}}.a.b }}", "{{ [{a: \"#{c}\"}] }}", "{{ f({a: \"x#{c}\"}, [1]) }}", "{{ {a: (\"#{c}\")} }}",
  "{{ x }}", "{{ d ~ x }}", "{{ x ? d : v }}",
  "{{ 1 .. - 1 }}", "{{ - a .. + b }}", "{{ [- a, + b] }}", "{{ f(- a, not b) }}", "{{ a == - b }}", "{{ {a: - b} }}",
  "{{ not inactive }}", "{{ a is nothing }}", "{{ a in index }}", "{{ isa or b }}",
  "{{ a.0.b }}", "{{ 1.5 + a }}", "{{ [2.25, s.1.k] }}",
  "{% if a %}", "{% elseif a == 1 %}", "{% else %}", "{% endif %}", "{% for k, v in s if v %}", "{% endfor %}", "{% set x = a ~ b %}",
  "{% include 'p' with {a: 1} only %}", "{% macro m(a, b) %}", "{% import 'p' as q %}", "{% from 'p' import a as b, c %}",
  "{% use 'p' with a as b %}", "{% filter f|g %}", "{% block b %}", "{% extends 'p' %}", "{% embed 'p' %}", "{% endembed %}", "{% do a %}",
  "{% verbatim %}", "{% endverbatim %}", "{% set x %}", "{% endset %}", "{% endblock %}", "{% endmacro %}", "{% endfilter %}",
  (* an assignment above the extends tag that the extends expression reads: what stands above is decided by the order of the
     tags in the source, which no formatting changes *)
  "{% set x = 'q' %}", "{% extends x ~ '' %}" >>

(* what completes a snippet to a template that parses and renders: <<before, after>> *)
Wrap(n) == LET sn == Snips[n] IN
  CASE sn = "{% if a %}" -> <<"", "x{% endif %}">>
    [] sn = "{% elseif a == 1 %}" -> <<"{% if b %}y", "z{% endif %}">>
    [] sn = "{% else %}" -> <<"{% if b %}y", "z{% endif %}">>
    [] sn = "{% endif %}" -> <<"{% if b %}y", "">>
    [] sn = "{% for k, v in s if v %}" -> <<"", "{{ k }}{{ v }}{% endfor %}">>
    [] sn = "{% endfor %}" -> <<"{% for v in s %}{{ v }}", "">>
    [] sn = "{% macro m(a, b) %}" -> <<"", "{{ a }}{% endmacro %}{{ _self.m(1, 2) }}">>
    [] sn = "{% filter f|g %}" -> <<"", "x{% endfilter %}">>
    [] sn = "{% block b %}" -> <<"", "x{% endblock %}">>
    [] sn = "{% embed 'p' %}" -> <<"", "{% block a %}e{% endblock %}{% endembed %}">>
    [] sn = "{% endembed %}" -> <<"{% embed 'p' %}{% block a %}e{% endblock %}", "">>
    [] sn = "{% verbatim %}" -> <<"", "{{ v }}{% if a %}y{# c #}{% endverbatim %}z">>
    [] sn = "{% endverbatim %}" -> <<"w{% verbatim %}{{ v }}{% endif %}", "">>
    [] sn = "{% set x %}" -> <<"", "y{% endset %}{{ x }}">>
    [] sn = "{% endset %}" -> <<"{% set x %}y", "{{ x }}">>
    [] sn = "{% endblock %}" -> <<"{% block b %}x", "">>
    [] sn = "{% endmacro %}" -> <<"{% macro m() %}x", "{{ _self.m() }}">>
    [] sn = "{% endfilter %}" -> <<"{% filter f %}x", "">>
    [] sn = "{% extends 'p' %}" -> <<"", "{% block a %}c{% endblock %}">>
    [] sn = "{% use 'p' with a as b %}" -> <<"{% extends 'q' %}", "">>
    [] sn = "{% set x = a ~ b %}" -> <<"", "{{ x }}">>
    [] sn = "{% set x = 'q' %}" -> <<"wwwwwwww", "{%extends x %}{% block a %}c{% endblock %}">>
    [] sn = "{% extends x ~ '' %}" -> <<"wwwwwwww{%set x='q'%}", "{% block a %}c{% endblock %}">>
    [] sn = "{% import 'p' as q %}" -> <<"", "{{ q.a(1) }}">>
    [] sn = "{% from 'p' import a as b, c %}" -> <<"", "{{ b(1) }}{{ c() }}">>
    [] OTHER -> <<"", "">>

Seps == << <<>>, <<32>>, <<9>>, <<10>>, <<13, 10>>, <<32, 32>>, <<13>> >>      \* the last: a carriage return on its own
(* a delimiter token carries its white-space-control marker ({%- and -%}); the marker is formatting, not meaning *)
NoMarker(t) == IF t.typ \in {"PRINT_OPEN", "TAG_OPEN", "PRINT_CLOSE", "TAG_CLOSE"} THEN SelectSeq(t.val, LAMBDA b : b # 45) ELSE t.val
NonSpace(toks) == LET ns == SelectSeq(toks, LAMBDA t : t.typ \notin {"WHITESPACE", "EOF"}) IN
                  [q \in 1..Len(ns) |-> [typ |-> ns[q].typ, val |-> NoMarker(ns[q])]]        \* positions legitimately differ
CanonTab == [n \in 1..Len(Snips) |-> NonSpace(Tokens(S2B(Snips[n])))]
Canon(n) == CanonTab[n]

IsOpenT(t) == t.typ \in {"PRINT_OPEN", "TAG_OPEN"}
IsCloseT(t) == t.typ \in {"PRINT_CLOSE", "TAG_CLOSE"}
IsWordT(t) == t.typ \in {"NAME", "NUMBER"} \/ (t.typ = "OPERATOR" /\ IsAlphaB(t.val[Len(t.val)]))
SafeSymOp(t) == t.typ = "OPERATOR" /\ t.val \in {<<43>>, <<126>>, <<61, 61>>, <<33, 61>>, <<60>>, <<62>>}       \* + ~ == != < >
IsSignOp(t) == t.typ = "OPERATOR" /\ t.val \in {<<45>>, <<43>>}
IsBracketT(t) == t.typ \in {"PARENS_OPEN", "PARENS_CLOSE", "ARRAY_OPEN", "ARRAY_CLOSE"}
IsQuoteT(t) == t.typ \in {"STRING_OPEN", "STRING_CLOSE"}
(* may the two tokens be written without anything between them?  Deliberately conservative. *)
CanAbut(a, b) ==
  \/ (IsOpenT(a) /\ (b.typ \in {"NAME", "NUMBER", "PARENS_OPEN", "ARRAY_OPEN", "STRING_OPEN"} \/ (b.typ = "OPERATOR" /\ b.val = S2B("not"))))
  \/ (IsCloseT(b) /\ a.typ \in {"NAME", "NUMBER", "PARENS_CLOSE", "ARRAY_CLOSE", "STRING_CLOSE"})
  \/ (a.typ = "PUNCTUATION" /\ b.typ \in {"NAME", "NUMBER", "STRING_OPEN", "PARENS_OPEN", "ARRAY_OPEN", "HASH_OPEN"} /\ ~(a.val = <<46>> /\ b.typ = "NUMBER"))
  \/ (b.typ = "PUNCTUATION" /\ a.typ \in {"NAME", "STRING_CLOSE", "PARENS_CLOSE", "ARRAY_CLOSE", "HASH_CLOSE"})
  \/ (IsBracketT(a) /\ b.typ \in {"NAME", "NUMBER", "STRING_OPEN"}) \/ (IsBracketT(b) /\ a.typ \in {"NAME", "NUMBER", "STRING_CLOSE"})
  \/ (IsBracketT(a) /\ IsBracketT(b))
  \/ (IsWordT(a) /\ b.typ = "PARENS_OPEN") \/ (a.typ = "PARENS_CLOSE" /\ b.typ = "OPERATOR" /\ IsAlphaB(b.val[1]))
  \/ (SafeSymOp(a) /\ b.typ \in {"NAME", "NUMBER", "STRING_OPEN", "PARENS_OPEN"}) \/ (SafeSymOp(b) /\ a.typ \in {"NAME", "NUMBER", "STRING_CLOSE", "PARENS_CLOSE"})
  (* a sign after a range operator, a comparison, an opening bracket or a separator: no operator of the language is formed *)
  \/ (IsSignOp(b) /\ ((a.typ = "OPERATOR" /\ a.val \in {<<46, 46>>, <<61, 61>>, <<33, 61>>, <<60>>, <<62>>})
                       \/ a.typ \in {"PARENS_OPEN", "ARRAY_OPEN"} \/ (a.typ = "PUNCTUATION" /\ a.val \in {<<44>>, <<58>>})))
  \/ (a.typ = "HASH_OPEN" /\ b.typ \in {"NAME", "STRING_OPEN"}) \/ (b.typ = "HASH_CLOSE" /\ a.typ \in {"NAME", "NUMBER", "STRING_CLOSE"})
(* boundaries inside a string literal or an interpolation are not varied *)
Fixed(ts, q) == ts[q].typ \in {"STRING_OPEN", "TEXT", "INTERPOLATE_OPEN", "INTERPOLATE_CLOSE"} /\ ts[q + 1].typ \in {"TEXT", "STRING_CLOSE", "INTERPOLATE_OPEN", "INTERPOLATE_CLOSE", "NAME"}
             /\ ~(ts[q].typ = "STRING_OPEN" /\ FALSE)
Inside(ts, q) == \E a \in 1..q : ts[a].typ = "STRING_OPEN" /\ \A b \in a..q : ts[b].typ # "STRING_CLOSE"
(* the separators of the canonical spelling, read off its token stream *)
RECURSIVE SepsOf(_)
SepsOf(all) ==      \* all: tokens incl. WHITESPACE, without EOF; result: one separator after each non-space token but the last
  IF Len(all) <= 1 THEN <<>>
  ELSE IF all[2].typ = "WHITESPACE" THEN (IF Len(all) = 2 THEN <<>> ELSE <<all[2].val>> \o SepsOf(SubSeq(all, 3, Len(all))))
  ELSE <<<<>>>> \o SepsOf(Tail(all))
CanonSepsTab == [n \in 1..Len(Snips) |-> SepsOf(SelectSeq(Tokens(S2B(Snips[n])), LAMBDA t : t.typ # "EOF"))]
CanonSeps(n) == CanonSepsTab[n]
CanonSep(n, q) == CanonSeps(n)[q]

RECURSIVE SpellFrom(_, _, _)
SpellFrom(ts, q, sv) == IF q > Len(ts) THEN <<>>
                        ELSE ts[q].val \o (IF q < Len(ts) THEN sv[q] ELSE <<>>) \o SpellFrom(ts, q + 1, sv)
Spell(ts, sv) == SpellFrom(ts, 1, sv)

(* the boundaries that may vary, and the choices at each *)
Vary(ts) == {q \in 1..(Len(ts) - 1) : ~Inside(ts, q)}
ChoicesAt(ts, q) == {s \in 1..Len(Seps) : Seps[s] # <<>> \/ CanAbut(ts[q], ts[q + 1])}
SepVectors(n, ts) ==
  UNION { { [q \in 1..(Len(ts) - 1) |-> IF q \in DOMAIN ch THEN Seps[ch[q]] ELSE CanonSep(n, q)] :
              ch \in {f \in [sub -> 1..Len(Seps)] : \A q \in sub : f[q] \in ChoicesAt(ts, q)} }
          : sub \in {s \in SUBSET Vary(ts) : Cardinality(s) <= MaxVary /\ Cardinality(s) >= 1} }

(* white-space-control markers: 0 none, 1 on the opening delimiter, 2 on the closing one, 3 both; combined with the canonical
   separators and with every vector that varies one boundary *)
SepVectors1(n, ts) ==
  {CanonSeps(n)} \cup
  UNION { { [q \in 1..(Len(ts) - 1) |-> IF q = b THEN Seps[c] ELSE CanonSep(n, q)] : c \in ChoicesAt(ts, b) } : b \in Vary(ts) }
WithMarkers(ts, tr) ==
  [q \in 1..Len(ts) |-> [typ |-> ts[q].typ,
                         val |-> IF q = 1 /\ tr \in {1, 3} THEN ts[q].val \o <<45>>
                                 ELSE IF q = Len(ts) /\ tr \in {2, 3} THEN <<45>> \o ts[q].val ELSE ts[q].val]]
AllAtOnce(n, ts) ==
  { [q \in 1..(Len(ts) - 1) |-> IF q \in Vary(ts) /\ CanAbut(ts[q], ts[q + 1]) THEN <<>> ELSE CanonSep(n, q)],
    [q \in 1..(Len(ts) - 1) |-> IF q \in Vary(ts) THEN <<10>> ELSE CanonSep(n, q)],
    [q \in 1..(Len(ts) - 1) |-> IF q \in Vary(ts) THEN <<9>> ELSE CanonSep(n, q)],
    [q \in 1..(Len(ts) - 1) |-> IF q \in Vary(ts) THEN <<13, 10>> ELSE CanonSep(n, q)],
    [q \in 1..(Len(ts) - 1) |-> IF q \in Vary(ts) THEN <<13>> ELSE CanonSep(n, q)] }
Init == v_lvl = 0 /\ v_idx = <<0, <<>>, 0>>
Next == \/ v_lvl = 0 /\ v_lvl' = 1 /\ \E n \in 1..Len(Snips) : v_idx' = <<n, <<>>, 0>>
        \/ v_lvl = 1 /\ v_lvl' = 2 /\ \E sv \in SepVectors(v_idx[1], Canon(v_idx[1])) : v_idx' = <<v_idx[1], sv, 0>>
        \/ v_lvl = 1 /\ v_lvl' = 2 /\ \E sv \in SepVectors1(v_idx[1], Canon(v_idx[1])), tr \in 1..3 : v_idx' = <<v_idx[1], sv, tr>>
        (* the tightest spelling (nothing wherever two tokens may abut: for many snippets no white space is left at all) and
           the loosest ones (a line break / a tab at every boundary) *)
        \/ v_lvl = 1 /\ v_lvl' = 2 /\ \E sv \in AllAtOnce(v_idx[1], Canon(v_idx[1])) : v_idx' = <<v_idx[1], sv, 0>>

Spelled == Spell(WithMarkers(Canon(v_idx[1]), v_idx[3]), v_idx[2])
SpellingInvariant == v_lvl = 2 => NonSpace(Tokens(Spelled)) = Canon(v_idx[1])
CanonIsCanon == v_lvl = 1 => (LET ts == Canon(v_idx[1]) IN Spell(ts, CanonSeps(v_idx[1])) = S2B(Snips[v_idx[1]]))
Out == v_lvl = 2 => PrintT(ToJson([id |-> "C14-" \o ToString(v_idx[1]) \o "-" \o ToString(Len(Spelled)) \o "-" \o ToString(CountB(Spelled, 10)) \o "-" \o ToString(v_idx[3]),
                                   k |-> "spelleq", canon |-> S2B(Wrap(v_idx[1])[1]) \o S2B(Snips[v_idx[1]]) \o S2B(Wrap(v_idx[1])[2]),
                                   spelled |-> S2B(Wrap(v_idx[1])[1]) \o Spelled \o S2B(Wrap(v_idx[1])[2]), snip |-> v_idx[1],
                                   nvar |-> Cardinality({q \in 1..Len(v_idx[2]) : v_idx[2][q] # CanonSep(v_idx[1], q)}) + (IF v_idx[3] > 0 THEN 1 ELSE 0)]))
=============================================================================
