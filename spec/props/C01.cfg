CONSTANTS NFrag = 3
  Stride = 211
  ELen = 5
INIT Init
NEXT Next
INVARIANTS NoPanic CursorsInRange StepsBounded ErrorLast Ends Partition PositionsExact Out
