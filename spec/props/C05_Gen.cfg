CONSTANTS Stride = 8000
INIT Init
NEXT Next
INVARIANT Out
