INIT Init
NEXT Next
INVARIANTS Out NoUnescapedPayload OnceOnly TypeOfName
