INIT Init
NEXT Next
INVARIANTS Out RefTotal
