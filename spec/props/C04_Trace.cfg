INIT Init
NEXT Next
CONSTRAINT HighWater
POSTCONDITION Consumed
