CONSTANTS Exh = 4
  Bal = 6
  Del = 5
INIT Init
NEXT Next
INVARIANTS Out Decided AcceptsExactlyBalanced
