CONSTANTS Exh = 3
  Bal = 5
  Del = 5
INIT Init
NEXT Next
INVARIANTS Out Decided AcceptsExactlyBalanced
