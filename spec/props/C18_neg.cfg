CONSTANTS Callers = {1, 2}
  Locked = FALSE
  NPrints = 2
SPECIFICATION Spec
INVARIANTS OwnContentType
