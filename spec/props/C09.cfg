CONSTANTS MaxL = 4
  Stride4 = 40
INIT Init
NEXT Next
INVARIANTS Out MostDerivedWins NameInBlock
