CONSTANTS N = 3
  M = 3
INIT Init
NEXT Next
INVARIANTS Out Decided VerbatimIsLiteral
