--------------------------------- MODULE C07 ---------------------------------
(* C07 Variable scoping.  Programs  pre ; K ; post  with probes              *)
(* {{ _p('pre') }} before, {{ _p('in') }} inside and {{ _p('post') }} after   *)
(* the construct K; names drawn from {x, y, loop, k, w}, colliding or fresh.  *)
(* TLC checks the frame rule and its companions on the reference executor     *)
(* for every program and prints the vector (probed scopes, output).           *)
EXTENDS Vec, SequencesExt, FiniteSetsExt

CONSTANTS Deep
VARIABLES v_lvl, v_idx

Ctx == ("z" :> IntV(9))
PStr(s) == PrintS(CallE("_p", <<StrE(s)>>))

(* template-level definitions before K *)
Pres == { <<>>, <<SetS("x", IntE(1))>>, <<SetS("y", IntE(2))>>, <<SetS("x", IntE(1)), SetS("y", IntE(2))>>,
          <<SetS("loop", IntE(3))>>, <<SetS("k", IntE(4)), SetS("x", IntE(1))>>, <<SetS("w", IntE(6)), SetS("x", StrE("s"))>>,
          (* a variable that exists and holds null exists: a set in a loop body updates it *)
          <<SetS("w", NullE)>>, <<SetS("x", NullE), SetS("u", NullE)>> }

(* bodies: <<statements, names assigned by set>> *)
BodiesFor(vars) ==
  { <<<<PStr("in")>>, {}>>,
    <<<<SetS("w", IntE(8)), PStr("in")>>, {"w"}>>,
    <<<<PStr("in"), SetS("w", Bin("+", Grp(Bin("+", NameE("z"), IntE(1))), IntE(0)))>>, {"w"}>>,
    <<<<IfS(BoolE(TRUE), <<SetS("u", IntE(5))>>, <<>>, FALSE), PStr("in")>>, {"u"}>> }
  \cup (IF "y" \notin vars THEN { <<<<SetS("y", IntE(7)), PStr("in")>>, {"y"}>>,
                                  <<<<IfS(BoolE(TRUE), <<SetS("y", IntE(7))>>, <<>>, FALSE), PStr("in")>>, {"y"}>> } ELSE {})
  \cup (IF "x" \notin vars THEN { <<<<SetS("x", Bin("~", NameE("x"), StrE("!"))), PStr("in")>>, {"x"}>> } ELSE {})

Items == { ArrE(<<IntE(10), IntE(20)>>), ArrE(<<>>), HashE(<< <<NameE("hk"), IntE(30)>> >>) }

(* K: [stmts, assigned, locals (names bound by the construct), kind] *)
ForK == { [stmts |-> <<ForS(kn, vn, it, NoE, b[1], <<>>, FALSE)>>, assigned |-> b[2],
           locals |-> (IF kn = "" THEN {vn} ELSE {kn, vn}) \cup {"loop"}, kind |-> "for", scoped |-> TRUE]
          : kn \in {"", "k", "x"}, vn \in {"x", "y", "v"}, it \in Items,
            b \in BodiesFor({"x", "y", "k", "v"}) \cup BodiesFor({}) }
ForKOK == {c \in ForK : c.assigned \cap c.locals = {} /\ (c.stmts[1].kn # c.stmts[1].vn)}

IfK == { [stmts |-> <<IfS(BoolE(bv), b[1], <<PStr("in")>>, TRUE)>>, assigned |-> IF bv THEN b[2] ELSE {},
          locals |-> {}, kind |-> "if", scoped |-> FALSE] : bv \in BOOLEAN, b \in BodiesFor({}) }

SetK == { [stmts |-> <<SetS(n, IntE(11))>>, assigned |-> {n}, locals |-> {}, kind |-> "set", scoped |-> FALSE] : n \in {"x", "w"} }
        \cup { [stmts |-> <<SetCap(n, <<Text("c"), PStr("in")>>)>>, assigned |-> {n}, locals |-> {}, kind |-> "setcap", scoped |-> FALSE]
               : n \in {"x", "w"} }
        (* a capture body is not a scope: what it assigns is assigned in the enclosing scope *)
        \cup { [stmts |-> <<SetCap(n, <<SetS(u, IntE(5)), Text("c"), PStr("in"), IfS(BoolE(TRUE), <<SetS("u2", IntE(6))>>, <<>>, FALSE)>>), PStr("after")>>,
                 assigned |-> {n, u, "u2"}, locals |-> {}, kind |-> "setcap-set", scoped |-> FALSE]
               : n \in {"x", "w"}, u \in {"u", "y"} }

(* macro call: parameters shadow; the body only touches its parameters and fresh names *)
MacroBodies == { <<<<PStr("in")>>, {}>>, <<<<SetS("q", IntE(8)), PStr("in")>>, {"q"}>> }
MacroK == { [stmts |-> <<PrintS(AttrCall(NameE("_self"), "m", args))>>,
             macro |-> MacroS("m", ps, bf[1]), assigned |-> {}, locals |-> {ps[q] : q \in 1..Len(ps)} \cup bf[2],
             kind |-> "macro", scoped |-> TRUE]
            : ps \in {<<>>, <<"x">>, <<"x", "y">>, <<"k", "loop">>},
              args \in {<<>>, <<IntE(5)>>, <<NameE("x"), StrE("b"), IntE(3)>>},
              bf \in MacroBodies }

(* nested constructs (same names at both levels) *)
NestK == { [stmts |-> <<ForS("", "x", ArrE(<<IntE(10), IntE(20)>>), NoE,
                           <<ForS("", inner, ArrE(<<IntE(30)>>), NoE, <<PStr("in2")>> \o b[1], <<>>, FALSE), PStr("in")>>, <<>>, FALSE)>>,
            assigned |-> b[2], locals |-> {"x", inner, "loop"}, kind |-> "for-for", scoped |-> TRUE]
           : inner \in {"x", "y"}, b \in BodiesFor({"x", "y"}) }
         \cup { [stmts |-> <<ForS("", "x", ArrE(<<IntE(10)>>), NoE,
                               <<IfS(BoolE(TRUE), b[1], <<>>, FALSE), PStr("in")>>, <<>>, FALSE)>>,
                 assigned |-> b[2], locals |-> {"x", "loop"}, kind |-> "for-if", scoped |-> TRUE]
                : b \in BodiesFor({"x"}) }

(* three scopes deep: a name defined in the root and in the outer loop, read in the inner loop (and in a macro called from a loop) *)
Nest3K == { [stmts |-> <<ForS("", "x", ArrE(<<IntE(10), IntE(20)>>), NoE,
                            <<ForS("", "y", ArrE(<<IntE(30)>>), NoE, <<PStr("in2"), PrintS(NameE("x")), PrintS(AttrDot(AttrDot(NameE("loop"), "parent"), "index"))>>, <<>>, FALSE), PStr("in")>>, <<>>, FALSE)>>,
             assigned |-> {}, locals |-> {"x", "y", "loop"}, kind |-> "for-for-read", scoped |-> TRUE],
            [stmts |-> <<ForS("", "x", ArrE(<<IntE(10), IntE(20)>>), NoE, <<PrintS(AttrCall(NameE("_self"), "m", <<StrE("arg")>>)), PStr("in")>>, <<>>, FALSE)>>,
             macro |-> MacroS("m", <<"x">>, <<ForS("", "w", ArrE(<<IntE(1)>>), NoE, <<PStr("in2"), PrintS(NameE("x"))>>, <<>>, FALSE)>>),
             assigned |-> {}, locals |-> {"x", "w", "loop"}, kind |-> "macro", scoped |-> TRUE],
            (* a macro call among the later arguments of a macro call, repeatedly: each call binds its own parameters to its own
               arguments, which shadow the outer x and y *)
            [stmts |-> <<ForS("", "w", ArrE(<<IntE(1), IntE(2)>>), NoE,
                            <<PrintS(AttrCall(NameE("_self"), "m", <<StrE("arg"), AttrCall(NameE("_self"), "m", <<StrE("ia"), NameE("w")>>)>>)), PStr("in")>>, <<>>, FALSE)>>,
             macro |-> MacroS("m", <<"x", "y">>, <<PStr("in2"), Text("<"), PrintS(NameE("x")), Text("/"), PrintS(NameE("y")), Text(">")>>),
             assigned |-> {}, locals |-> {"x", "y", "w", "loop"}, kind |-> "macro", scoped |-> TRUE] }
Ks == ForKOK \cup IfK \cup SetK \cup MacroK \cup Nest3K \cup (IF Deep THEN NestK ELSE {c \in NestK : c.kind = "for-if" \/ c.stmts[1].body[1].vn = "y"})

Program(pre, c) ==
  (IF c.kind = "macro" THEN <<c.macro>> ELSE <<>>) \o pre \o <<PStr("pre")>> \o c.stmts \o <<PStr("post")>>

CaseSet == { [pre |-> pre, c |-> c] : pre \in Pres, c \in Ks }
Cases == SetToSeq(CaseSet)
Picked == 1..(Len(Cases) + 2)
Init == GenInit(v_lvl, v_idx)
Next == GenNext(v_lvl, v_idx, Picked, 32)

(* one more case: assignments at the top level of a template that extends another are visible to everything that follows -
   its own blocks and the parent's body *)
ChildTpls == ("t" :> <<ExtendsS(StrE("base")), SetS("x", StrE("one")), SetCap("y", <<Text("cap"), PrintS(NameE("x"))>>), BlockS("b", <<PrintS(NameE("x")), Text("+"), PrintS(NameE("y"))>>)>>)
             @@ ("base" :> <<Text("["), BlockS("b", <<Text("none")>>), Text("/"), PrintS(NameE("x")), Text("]")>>)
(* ... and to the extends tag itself when they stand above it *)
Child2Tpls == ("t" :> <<SetS("layout", StrE("base")), SetS("x", StrE("one")), ExtendsS(NameE("layout")), BlockS("b", <<PrintS(NameE("x")), Text("+"), PrintS(NameE("layout"))>>)>>)
              @@ ("base" :> <<Text("["), BlockS("b", <<Text("none")>>), Text("/"), PrintS(NameE("x")), Text("]")>>)
              @@ ("other" :> <<Text("OTHER")>>)
IsChild2 == v_idx = Len(Cases) + 2
IsChild == v_idx = Len(Cases) + 1
Cur == Cases[IF IsChild \/ IsChild2 THEN 1 ELSE v_idx]
Ref == IF IsChild2 THEN Execute(Child2Tpls, "t", Ctx @@ ("layout" :> Str(S2B("other")))) ELSE IF IsChild THEN Execute(ChildTpls, "t", Ctx) ELSE Execute(Tpl1("t", Program(Cur.pre, Cur.c)), "t", Ctx)
Out == v_lvl < 2 \/ (IF IsChild2 THEN Emit(RenderVec("C07-child2", "childset", Child2Tpls, "t", Ctx @@ ("layout" :> Str(S2B("other"))), [collide |-> FALSE]))
                    ELSE IF IsChild THEN Emit(RenderVec("C07-child", "childset", ChildTpls, "t", Ctx, [collide |-> FALSE]))
                    ELSE Emit(RenderVec("C07-" \o ToString(v_idx), Cur.c.kind, Tpl1("t", Program(Cur.pre, Cur.c)), "t", Ctx,
                                   [collide |-> \E q \in 1..Len(Cur.pre) : Cur.pre[q].name \in Cur.c.locals])))
ChildSetVisible == /\ (v_lvl = 2 /\ IsChild) => (Ref.status = "ok" /\ MainOut(Ref) = S2B("[one+capone/one]"))
                   /\ (v_lvl = 2 /\ IsChild2) => (Ref.status = "ok" /\ MainOut(Ref) = S2B("[one+base/one]"))

--------------------------------------------------------------------------
ProbeScope(S, tag) == LET ps == SelectSeq(S.log, LAMBDA ev : ev.e = "probe" /\ ev.k = Str(S2B(tag))) IN
                      IF ps = <<>> THEN EmptyScope ELSE ps[Len(ps)].scope
ProbeScopes(S, tag) == SelectSeq(S.log, LAMBDA ev : ev.e = "probe" /\ ev.k = Str(S2B(tag)))

(* names the body did not assign are exactly as they were *)
FrameRule == (v_lvl = 2 /\ ~IsChild /\ ~IsChild2) =>
  LET S == Ref  pre == ProbeScope(S, "pre")  post == ProbeScope(S, "post") IN
  S.status = "ok" /\ \A nm \in DOMAIN pre : nm \notin Cur.c.assigned => (nm \in DOMAIN post /\ post[nm] = pre[nm])
(* names that did not exist before and were bound inside a loop or macro call are undefined again *)
FreshNamesUndefinedAfter == (v_lvl = 2 /\ ~IsChild /\ ~IsChild2 /\ Cur.c.scoped) =>
  LET S == Ref  pre == ProbeScope(S, "pre")  post == ProbeScope(S, "post") IN
  \A nm \in (Cur.c.locals \cup Cur.c.assigned) : nm \notin DOMAIN pre => nm \notin DOMAIN post
(* a set at template level (also inside an if) is visible to everything that follows *)
TemplateSetPersists == (v_lvl = 2 /\ ~IsChild /\ ~IsChild2 /\ ~Cur.c.scoped) =>
  LET S == Ref  post == ProbeScope(S, "post") IN \A nm \in Cur.c.assigned : nm \in DOMAIN post
(* a set inside a loop body to an existing, unshadowed outer variable updates it *)
OuterSetUpdates == (v_lvl = 2 /\ ~IsChild /\ ~IsChild2 /\ Cur.c.kind = "for" /\ Cur.c.stmts[1].x.k = "arr" /\ Cur.c.stmts[1].x.els # <<>>) =>
  LET S == Ref  pre == ProbeScope(S, "pre")  post == ProbeScope(S, "post")  ins == ProbeScopes(S, "in") IN
  \A nm \in Cur.c.assigned : nm \in DOMAIN pre => (nm \in DOMAIN post /\ post[nm] = ins[Len(ins)].scope[nm])
(* inside the construct its own names shadow outer ones *)
LocalsShadow == (v_lvl = 2 /\ ~IsChild /\ ~IsChild2 /\ Cur.c.kind = "for" /\ Cur.c.stmts[1].x.k = "arr" /\ Cur.c.stmts[1].x.els # <<>>) =>
  LET S == Ref  ins == ProbeScopes(S, "in") IN
  Len(ins) = 2 /\ ins[1].scope[Cur.c.stmts[1].vn] = IntV(10) /\ ins[2].scope[Cur.c.stmts[1].vn] = IntV(20)
=============================================================================
