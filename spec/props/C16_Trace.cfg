INIT TInitAll
NEXT TNext
CONSTRAINT HighWater
POSTCONDITION Consumed
