INIT Init
NEXT Next
INVARIANTS Out CoercionsAgree KindUniform NumStrNumIdentity DecimalStringSpells
