CONSTANTS Bal = 4
  Stride = 7
INIT Init
NEXT Next
INVARIANTS Out BalancedParses
