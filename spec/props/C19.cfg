CONSTANTS MaxHist = 3
  Stride3 = 301
  CloseFiles = TRUE
  Drain = TRUE
SPECIFICATION Spec
INVARIANTS NoFileBetweenCalls Emit19
PROPERTIES ReturnedLeadsToClean
