CONSTANTS Deep = FALSE
INIT Init
NEXT Next
INVARIANTS Out Faithful
