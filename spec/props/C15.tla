--------------------------------- MODULE C15 ---------------------------------
(* C15 Coercions.  The catalogue lists Go values by fixture id (the harness    *)
(* builds them, harness/fixtures.go) together with the abstract content the    *)
(* specification assumes; Expected(d) states what the three coercions must     *)
(* return ("any" where the property is silent: truthiness of negative numbers  *)
(* and of the string "0", numbers outside the fixed-point window).             *)
EXTENDS Vec, SequencesExt, FiniteSetsExt

VARIABLES v_lvl, v_idx

Signed == {"int", "int8", "int16", "int32", "int64"}
Unsigned == {"uint", "uint8", "uint16", "uint32", "uint64"}
Floats == {"float32", "float64"}
Bits(kd) == CASE kd \in {"int8", "uint8"} -> 8 [] kd \in {"int16", "uint16"} -> 16 [] OTHER -> 32

IntValsOf(kd) ==
  {0, 1, 3, 100, 127}
  \cup (IF kd \in Signed THEN {0 - 1, 0 - 3, 0 - 128} ELSE {})
  \cup (IF kd \in Unsigned THEN {255} ELSE {})
  \cup (IF Bits(kd) >= 16 THEN {255, 256, 32767} \cup (IF kd \in Signed THEN {0 - 32768} ELSE {65535}) ELSE {})
  \cup (IF Bits(kd) >= 32 THEN {65536, 999999, 1000000, 1234567, 16777216} \cup (IF kd \in Signed THEN {0 - 999999, 0 - 1000000} ELSE {}) ELSE {})
FloatQs == {0, 64, 0 - 64, 192, 96, 16, 0 - 160, 63999936, 6400, 1}

NumD(kd, q) == [id |-> "num:" \o kd \o ":" \o ToString(q), cls |-> "num", q |-> q]
Nums == UNION {{NumD(kd, n * Scale) : n \in IntValsOf(kd)} : kd \in Signed \cup Unsigned}
        \cup {NumD(kd, q) : kd \in Floats, q \in FloatQs}
        \cup {NumD(kd, n * Scale) : kd \in Floats, n \in {3, 100, 127, 0 - 3}}
        (* from a million up: the same number reads the same whether an integer or a float carries it *)
        \cup {NumD(kd, n * Scale) : kd \in Floats, n \in {1000000, 1234567, 16777216, 0 - 1000000}}
        \cup {NumD("float64", 1234567 * Scale + 32)}
Bigs == { [id |-> "big:int64:max", cls |-> "big", s |-> "9223372036854775807", pos |-> TRUE],
          [id |-> "big:int64:min", cls |-> "big", s |-> "-9223372036854775808", pos |-> FALSE],
          [id |-> "big:uint64:max", cls |-> "big", s |-> "18446744073709551615", pos |-> TRUE],
          [id |-> "big:int32:max", cls |-> "big", s |-> "2147483647", pos |-> TRUE],
          [id |-> "big:uint32:max", cls |-> "big", s |-> "4294967295", pos |-> TRUE],
          (* integral floats beyond 2^24: the float32 that IS 33554448 reads 33554448, not its shortest float32 numeral 33554450 *)
          [id |-> "big:float32:33554448", cls |-> "big", s |-> "33554448", pos |-> TRUE],
          [id |-> "big:float32:-67108872", cls |-> "big", s |-> "-67108872", pos |-> FALSE],
          [id |-> "big:float64:9007199254740993", cls |-> "big", s |-> "9007199254740992", pos |-> TRUE],
          [id |-> "big:float64:123456789012", cls |-> "big", s |-> "123456789012", pos |-> TRUE],
          (* an integer no float64 holds reads exactly, whichever integer type carries it: a defined type, a uintptr *)
          [id |-> "big:serial:max", cls |-> "big", s |-> "9223372036854775807", pos |-> TRUE],
          [id |-> "big:serial:min", cls |-> "big", s |-> "-9223372036854775808", pos |-> FALSE],
          [id |-> "big:uintptr:max", cls |-> "big", s |-> "18446744073709551615", pos |-> TRUE],
          [id |-> "big:serial:9007199254740993", cls |-> "big", s |-> "9007199254740993", pos |-> TRUE],
          [id |-> "big:serial:-9007199254740993", cls |-> "big", s |-> "-9007199254740993", pos |-> FALSE],
          [id |-> "big:uintptr:9007199254740993", cls |-> "big", s |-> "9007199254740993", pos |-> TRUE],
          [id |-> "big:int64:9007199254740993", cls |-> "big", s |-> "9007199254740993", pos |-> TRUE],
          [id |-> "big:uint64:9007199254740993", cls |-> "big", s |-> "9007199254740993", pos |-> TRUE],
          [id |-> "big:int:9007199254740995", cls |-> "big", s |-> "9007199254740995", pos |-> TRUE] }
StrTexts == {"", "abc", "1", "1.5", "-2", "007", "0.5", "0", "a%20b", "-0.25", "12abc", ".5", "5.", "+3", "-", ".", "1.5.2",
             (* decimal means decimal: a leading zero is not octal, letters and digit separators make the string non-numeric *)
             "010", "0100", "012", "08", "0b11", "0o17", "1_000", "-010", "0777.5"}
(* words and spellings that some number parsers accept and that are not decimal numerals: as numbers they are 0 *)
NonDecimal == {"nan", "NaN", "inf", "Inf", "Infinity", "-inf", "0x1p4", "0x10", "1_0", "infinity"}
Unescape(s) == IF s = "a%20b" THEN "a b" ELSE s
Strs == {[id |-> "str:" \o t, cls |-> "str", s |-> Unescape(t)] : t \in StrTexts}
        \cup {[id |-> "str:" \o t, cls |-> "word", s |-> t] : t \in NonDecimal}
Bools == {[id |-> "bool:t", cls |-> "bool", b |-> TRUE], [id |-> "bool:f", cls |-> "bool", b |-> FALSE]}
Fallbacks == {[id |-> x, cls |-> "fallback"] : x \in
  {"nil", "nilptr:int", "nilptr:string", "nilptr:struct", "nilptr:slice", "nilptr:map", "nilptr:vstringer", "nilptr:pstringer",
   "nilptr:vnumber", "nilptr:vboolean", "nilptrsafe", "embnilstringer", "embnilmethod", "embnilsafe",
   (* nil pointers to types whose methods have POINTER receivers: methods that dereference (a call would panic) and methods
      that tolerate nil and answer something (a call would return it instead of the fallback) *)
   "nilptr:pstrict", "nilptr:pnumber", "nilptr:pboolean", "nilptr:ptolerant", "slice:int:1,2", "slice:int:", "slice:nilint", "map:ss:k=v", "map:nilss", "struct:person",
   "struct:empty", "chan", "func", "complex", "ptr:num:int:192", "ptr:str:abc", "ptr:struct:person", "array3", "ptr:slice:int:1"}}
Stringers == {[id |-> p \o t, cls |-> "str", s |-> Unescape(t)] : p \in {"stringer:", "pstringer:", "ptr:stringer:"},
                                                                t \in {"abc", "1.5", "", "42", "-2"}}
Numbers == {[id |-> "number:" \o ToString(q), cls |-> "num", q |-> q] : q \in {0, 64, 96, 0 - 64, 640}}
Booleans == {[id |-> "boolean:t", cls |-> "bool", b |-> TRUE], [id |-> "boolean:f", cls |-> "bool", b |-> FALSE]}
Decimals == {[id |-> "decimal:" \o ToString(q), cls |-> "num", q |-> q] : q \in {0, 64, 96, 192, 0 - 96, 16, 6400}}
(* a value whose type implements Stringer, Number and Boolean at once, with answers that do not follow from one another:
   each coercion asks its own interface *)
Alls == {[id |-> "all:" \o s \o ":" \o ToString(q) \o ":" \o b, cls |-> "all", s |-> s, q |-> q, b |-> (b = "t")]
           : s \in {"abc", "0", ""}, q \in {0, 96, 0 - 64}, b \in {"t", "f"}}
(* defined types over the basic kinds (type serial int64, type weight float64, type colour string, type onoff bool) and uintptr:
   the value is carried by its kind, whichever type name it has *)
Named == {[id |-> "named:int64:" \o n[1], cls |-> "num", q |-> n[2] * Scale] : n \in {<<"5", 5>>, <<"0", 0>>, <<"-3", 0 - 3>>, <<"127", 127>>}}
         \cup {[id |-> "named:uintptr:" \o n[1], cls |-> "num", q |-> n[2] * Scale] : n \in {<<"5", 5>>, <<"0", 0>>, <<"255", 255>>}}
         \cup {[id |-> "named:float64:1.5", cls |-> "num", q |-> 96], [id |-> "named:float64:0", cls |-> "num", q |-> 0]}
         \cup {[id |-> "named:string:" \o t, cls |-> "str", s |-> t] : t \in {"abc", "1.5", ""}}
         \cup {[id |-> "named:bool:t", cls |-> "bool", b |-> TRUE], [id |-> "named:bool:f", cls |-> "bool", b |-> FALSE]}
(* a million nested wrappers of an application's own SafeValue type: the depth of nesting is data, not a recursion budget *)
Deep == {[id |-> "csafedeep:1000000", cls |-> "str", s |-> "abc"]}
Plain == Deep \cup Nums \cup Bigs \cup Strs \cup Bools \cup Fallbacks \cup Stringers \cup Numbers \cup Booleans \cup Decimals \cup Alls \cup Named
SafeInner == {d \in Plain : d.id \in {"num:int8:192", "num:float64:96", "str:abc", "str:1.5", "str:", "bool:t", "bool:f", "nil",
                                     "stringer:abc", "number:96", "boolean:t", "decimal:96", "nilptr:vstringer", "slice:int:1,2",
                                     "num:uint16:4194240", "num:float32:-160", "nilptr:pstrict", "nilptr:pnumber", "nilptr:ptolerant",
                                     "decimal:0", "decimal:-96", "number:0", "number:-64", "boolean:f", "stringer:", "stringer:1.5",
                                     "all:abc:0:f", "all:0:96:t", "all::-64:t", "all:abc:96:f"}}
Safes == {[d EXCEPT !.id = "safe:" \o ToString(n) \o ":" \o d.id] : d \in SafeInner, n \in 1..3}
(* wrappers that are not stick's own safeValue type (an application's implementation of the SafeValue interface), nested *)
CSafes == {[d EXCEPT !.id = "csafe:" \o ToString(n) \o ":" \o d.id] : d \in SafeInner, n \in 1..3}
          \cup {[d EXCEPT !.id = "safe:1:csafe:2:" \o d.id] : d \in SafeInner}
Catalogue == Plain \cup Safes \cup CSafes

(* ---- what the property requires ---- *)
AnyV == [any |-> TRUE]
Expected(d) ==
  CASE d.cls = "num" -> [str |-> Str(NumToBytes(d.q)), num |-> Num(d.q),
                         bool |-> IF d.q > 0 THEN "t" ELSE IF d.q = 0 THEN "f" ELSE "any"]
    [] d.cls = "big" -> [str |-> Str(S2B(d.s)), num |-> AnyV, bool |-> IF d.pos THEN "t" ELSE "any"]
    [] d.cls = "str" -> LET n == StrToNum(S2B(d.s)) IN
                        [str |-> Str(S2B(d.s)), num |-> (IF IsOOM(n) THEN AnyV ELSE n),
                         bool |-> IF d.s = "" THEN "f" ELSE IF d.s = "0" THEN "any" ELSE "t"]
    [] d.cls = "word" -> [str |-> Str(S2B(d.s)), num |-> IntV(0), bool |-> "t"]
    [] d.cls = "bool" -> [str |-> Str(IF d.b THEN <<49>> ELSE <<>>), num |-> IntV(IF d.b THEN 1 ELSE 0), bool |-> IF d.b THEN "t" ELSE "f"]
    [] d.cls = "all" -> [str |-> Str(S2B(d.s)), num |-> Num(d.q), bool |-> IF d.b THEN "t" ELSE "f"]
    [] OTHER -> [str |-> Str(<<>>), num |-> IntV(0), bool |-> "f"]

Cases == SetToSeq(Catalogue)
Picked == 1..Len(Cases)
Init == GenInit(v_lvl, v_idx)
Next == GenNext(v_lvl, v_idx, Picked, 16)
Cur == Cases[v_idx]
Out == v_lvl < 2 \/ Emit([id |-> "C15-" \o ToString(v_idx), k |-> "coerce", v |-> [t |-> "go", id |-> Cur.id],
                          cls |-> Cur.cls, exp |-> Expected(Cur)])

--------------------------------------------------------------------------
(* on the specification's own coercions (Values.tla) *)
TlaValue(d) == CASE d.cls = "num" -> Num(d.q) [] d.cls = "str" -> Str(S2B(d.s)) [] d.cls = "bool" -> Bool(d.b) [] OTHER -> Null
(* the algorithmic coercions agree with the requirement for every descriptor that has a template value *)
CoercionsAgree == (v_lvl = 2 /\ Cur.cls \in {"num", "str", "bool"} /\ Cur.id \notin {"nil"}) =>
  LET v == TlaValue(Cur)  e == Expected(Cur) IN
  /\ Str(CoerceBytes(v)) = e.str
  /\ ("any" \in DOMAIN e.num \/ CoerceNumber(v) = e.num)
  /\ (e.bool = "any" \/ CoerceBool3(v) = e.bool)
(* the same integral number coerces identically whichever Go numeric type carries it *)
KindUniform == v_lvl = 2 => \A d \in Nums : (Cur.cls = "num" /\ d.q = Cur.q) => Expected(d) = Expected(Cur)
(* number -> string -> number is the identity; integral values are printed as plain integers *)
NumStrNumIdentity == v_lvl = 1 =>
  \A q \in {((v_idx * 4001 + m * 37) % 2000000) - 1000000 : m \in 0..400} :
     /\ StrToNum(NumToBytes(q)) = Num(q)
     /\ (q % Scale = 0) => NumToBytes(q) = (IF q < 0 THEN <<45>> ELSE <<>>) \o DecB(Abs(q) \div Scale)
(* a decimal numeric string coerces to the number it spells: sign, integer part, fraction digits *)
DecimalStringSpells == v_lvl = 1 =>
  \A ip \in {0, 7, 12, 305} : \A fr \in {<<>>, <<53>>, <<50, 53>>, <<49, 50, 53>>, <<48, 54, 50, 53>>} : \A neg \in BOOLEAN :
    LET s == (IF neg THEN <<45>> ELSE <<>>) \o DecB(ip) \o (IF fr = <<>> THEN <<>> ELSE <<46>> \o fr)
        den == Pow10(Len(fr))
        want == (IF neg THEN 0 - 1 ELSE 1) * (ip * Scale + (DigitsVal(fr, 0) * Scale) \div den)
    IN (ip = 0 /\ DigitsVal(fr, 0) = 0 /\ neg) \/ StrToNum(s) = Num(want)
=============================================================================
