------------------------------ MODULE ExecTrace ------------------------------
(* Binding T for the executor family (C02, C05-C11): programs chosen by the   *)
(* harness (seeded random ASTs over the whole schema, nestings to depth 5),   *)
(* each followed by the public events recorded while Env.Execute ran it:      *)
(*   prog{tpls, entry, ctx}  w{d}  load{name}  cb{kind,fn,args,tname}          *)
(*   probe{k,scope,tname}    ret{ok}                                           *)
(* For every prog event the acceptor evaluates the reference Execute(..) of   *)
(* Exec.tla and then consumes the recorded events one by one against the      *)
(* reference's public event log: writes are compared as a byte stream (how    *)
(* output is chunked into Write calls is free), loads, callbacks (arguments,  *)
(* order, count, template name) and probes (flattened scope) one for one.     *)
(* A program whose reference leaves the model (status "oom") is only          *)
(* required to return (C02).                                                   *)
EXTENDS Exec, Json, IOUtils

Trace == ndJsonDeserialize(IOEnv.TRACE_FILE)
VARIABLES v_l, v_ref, v_pos, v_pend, v_bad
(* v_ref: [status, log] of the current program (log = public events, writes merged);
   v_pos: next reference event; v_pend: bytes of the current reference write not yet seen; v_bad: this run already rejected *)
ASSUME TLCSet(1, 0)
Rej(why) == PrintT(ToJson([rej |-> v_l, why |-> why]))

(* values: hashes compare as sets of pairs (Go map order is not an observation) *)
RECURSIVE NormV(_)
NormV(v) == CASE v.t = "hash" -> [t |-> "hash", pairs |-> {<<v.pairs[q][1], NormV(v.pairs[q][2])>> : q \in 1..Len(v.pairs)}]
              [] v.t = "arr" -> [t |-> "arr", els |-> [q \in 1..Len(v.els) |-> NormV(v.els[q])]]
              [] v.t = "safe" -> [t |-> "safe", v |-> NormV(v.v)]
              [] v.t = "macros" -> [t |-> "macros"]
              [] OTHER -> v
NormScope(sc) == [n \in DOMAIN sc |-> NormV(sc[n])]

RECURSIVE MergeW(_)
MergeW(log) == IF log = <<>> THEN <<>>
               ELSE IF Head(log).e = "w" THEN
                    LET rest == MergeW(Tail(log)) IN
                    IF Head(log).d = <<>> THEN rest
                    ELSE IF rest # <<>> /\ rest[1].e = "w" THEN <<[e |-> "w", d |-> Head(log).d \o rest[1].d]>> \o Tail(rest)
                    ELSE <<Head(log)>> \o rest
               ELSE <<Head(log)>> \o MergeW(Tail(log))

Init == v_l = 1 /\ v_ref = [status |-> "none", log |-> <<>>] /\ v_pos = 1 /\ v_pend = <<>> /\ v_bad = FALSE

RefEv == v_ref.log[v_pos]
AtW == v_pos <= Len(v_ref.log) /\ RefEv.e = "w"
Strong == v_ref.status \in {"ok", "err"} /\ ~v_bad
RejRun(why) == Rej(why) /\ v_bad' = TRUE /\ UNCHANGED <<v_ref, v_pos, v_pend>>

Step(ev) ==
  CASE ev.e = "prog" ->
         LET S == Execute(ev.tpls, ev.entry, ev.ctx) IN
         /\ PrintT(ToJson([stat |-> S.status]))         \* how many runs the reference decides (ok/err) and how many fall out of the model
         /\ v_ref' = [status |-> S.status, log |-> MergeW(Public(S.log))]
         /\ v_pos' = 1 /\ v_pend' = <<>> /\ v_bad' = FALSE
    [] ev.e = "w" ->
         IF ~Strong \/ ev.d = <<>> THEN UNCHANGED <<v_ref, v_pos, v_pend, v_bad>>
         ELSE LET have == IF v_pend # <<>> THEN v_pend ELSE IF AtW THEN RefEv.d ELSE <<>> IN
              IF Len(ev.d) > Len(have) \/ SubSeq(have, 1, Len(ev.d)) # ev.d THEN RejRun("output-differs")
              ELSE /\ v_pend' = SubSeq(have, Len(ev.d) + 1, Len(have))
                   /\ v_pos' = IF v_pend = <<>> THEN v_pos + 1 ELSE v_pos
                   /\ UNCHANGED <<v_ref, v_bad>>
    [] ev.e \in {"load", "cb", "probe"} ->
         IF ~Strong THEN UNCHANGED <<v_ref, v_pos, v_pend, v_bad>>
         ELSE IF v_pend # <<>> THEN RejRun("output-missing-before-" \o ev.e)
         ELSE IF v_pos > Len(v_ref.log) \/ RefEv.e # ev.e THEN RejRun("unexpected-" \o ev.e)
         ELSE IF ev.e = "load" /\ RefEv.name # ev.name THEN RejRun("load-differs")
         ELSE IF ev.e = "cb" /\ (RefEv.kind # ev.kind \/ RefEv.name # ev.fn \/ RefEv.tname # ev.tname
                                  \/ [q \in 1..Len(RefEv.args) |-> NormV(RefEv.args[q])] # [q \in 1..Len(ev.args) |-> NormV(ev.args[q])])
              THEN RejRun("callback-differs")
         ELSE IF ev.e = "probe" /\ (NormV(RefEv.k) # NormV(ev.k) \/ RefEv.tname # ev.tname \/ NormScope(RefEv.scope) # NormScope(ev.scope))
              THEN RejRun("scope-differs")
         ELSE v_pos' = v_pos + 1 /\ UNCHANGED <<v_ref, v_pend, v_bad>>
    [] ev.e = "ret" ->
         /\ (IF ~Strong THEN TRUE
             ELSE IF v_pend # <<>> \/ v_pos <= Len(v_ref.log) THEN Rej("events-missing-at-return")
             ELSE IF ev.ok # (v_ref.status = "ok") THEN Rej("status-differs")
             ELSE TRUE)
         /\ UNCHANGED <<v_ref, v_pos, v_pend, v_bad>>
Next == v_l <= Len(Trace) /\ Step(Trace[v_l]) /\ v_l' = v_l + 1
HighWater == TLCSet(1, IF v_l > TLCGet(1) THEN v_l ELSE TLCGet(1))
Consumed == TLCGet(1) = Len(Trace) + 1
=============================================================================
