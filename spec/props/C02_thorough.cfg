CONSTANTS FStride = 1
INIT Init
NEXT Next
INVARIANTS Out RefTotal
