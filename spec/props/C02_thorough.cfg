CONSTANTS FStride = 4
INIT Init
NEXT Next
INVARIANTS Out RefTotal
