--------------------------------- MODULE C06 ---------------------------------
(* C06 Conditionals and loops.  One module for both roles:                   *)
(*  - model checking: the invariants below state, declaratively, which       *)
(*    branch / which elements the reference (Exec!WalkIf, ForIter) renders;  *)
(*  - binding G: Out prints every case with the reference output.            *)
EXTENDS Vec, SequencesExt, FiniteSetsExt

CONSTANTS Stride, Deep
VARIABLES v_lvl, v_idx

Ctx == ("x" :> IntV(5)) @@ ("arr" :> Arr(<<IntV(1), IntV(2), IntV(3)>>)) @@ ("empty" :> Arr(<<>>))
       @@ ("h" :> Hash(<< <<S2B("k"), IntV(2)>> >>)) @@ ("n" :> Null) @@ ("t" :> Bool(TRUE)) @@ ("f" :> Bool(FALSE)) @@ ("quarter" :> Num(16)) @@ ("zero" :> IntV(0))
       @@ ("strs" :> Arr(<<Str(S2B("a")), Str(S2B("b"))>>))
       @@ ("nest" :> Arr(<<Arr(<<IntV(1), IntV(2)>>), Arr(<<>>), Arr(<<IntV(3)>>)>>))

RangeE(l, r) == Bin("..", IntE(l), IntE(r))
ArrN(n) == ArrE([k \in 1..n |-> IntE(k + 6)])
(* sequences: <<expression, length or -1 for non-iterable>> *)
Seqs == { <<ArrE(<<>>), 0>>, <<ArrN(1), 1>>, <<ArrN(2), 2>>, <<ArrN(3), 3>>, <<RangeE(1, 3), 3>>, <<RangeE(0, 7), 8>>,
          <<RangeE(2, 2), 1>>, <<NameE("arr"), 3>>, <<NameE("empty"), 0>>, <<NameE("n"), 0>>, <<NameE("undef"), 0>>,
          <<NameE("h"), 1>>, <<HashE(<< <<NameE("a"), IntE(1)>> >>), 1>>, <<NameE("strs"), 2>>, <<NullE, 0>>,
          <<IntE(5), 0 - 1>>, <<StrE("ab"), 0 - 1>>, <<BoolE(TRUE), 0 - 1>>, <<NameE("x"), 0 - 1>> }
Iterables == {s \in Seqs : s[2] >= 0}

L(f) == AttrDot(NameE("loop"), f)
P(x) == PrintS(x)
Sep(s) == Text(s)
AllFields == <<P(L("index")), Sep(","), P(L("index0")), Sep(","), P(L("revindex")), Sep(","), P(L("revindex0")), Sep(","),
               P(L("first")), Sep(","), P(L("last")), Sep(","), P(L("length")), Sep(";")>>
KV == <<P(NameE("k")), Sep("="), P(NameE("v")), Sep(";")>>

Conds == { <<BoolE(TRUE), "T">>, <<BoolE(FALSE), "F">>, <<Bin(">", NameE("v"), IntE(1)), ">1">>,
           <<TestE(NameE("v"), FALSE, "odd", <<>>), "odd">>, <<Bin("==", NameE("v"), IntE(8)), "=8">>,
           <<Bin("<", L("index0"), IntE(2)), "loop<2">>, <<Un("not", L("first")), "notfirst">>, <<L("last"), "last">>,
           <<Bin("/", L("index0"), IntE(4)), "index0/4">>, <<NameE("quarter"), "quarter">> }

C1(s, he)      == [tag |-> "for-fields", n |-> s[2],
                   body |-> <<ForS("", "v", s[1], NoE, <<P(NameE("v")), Sep(":")>> \o AllFields, IF he THEN <<Text("E")>> ELSE <<>>, he)>>]
C2(s, he)      == [tag |-> "for-kv", n |-> s[2],
                   body |-> <<ForS("k", "v", s[1], NoE, KV, IF he THEN <<Text("E")>> ELSE <<>>, he), Text(".")>>]
C3(s, c, he)   == [tag |-> "for-if", n |-> s[2],
                   body |-> <<Text("["), ForS("", "v", s[1], c[1], <<P(NameE("v")), Sep(",")>>, IF he THEN <<Text("E")>> ELSE <<>>, he), Text("]")>>]
C4(s1, s2)     == [tag |-> "for-for", n |-> s1[2],
                   body |-> <<ForS("empty", "x", s1[1], NoE,       \* key and value carry the names of context variables
                               <<ForS("", "b", s2[1], NoE,
                                   <<P(NameE("x")), P(NameE("b")), P(NameE("empty")), Sep("/"), P(L("index")), Sep("/"),
                                     P(AttrDot(L("parent"), "index")), Sep("/"), P(AttrDot(L("parent"), "length")), Sep(";")>>,
                                   <<Text("e")>>, TRUE),
                                 P(L("index")), Sep("|")>>, <<Text("E")>>, TRUE)>>]
(* a failure inside a loop body (at any depth) stops the rendering with an error *)
CErr(s, k)     == [tag |-> "for-err", n |-> s[2],
                   body |-> <<Text("["), ForS("", "v", s[1], NoE,
                               <<P(NameE("v")),
                                 CASE k = 1 -> P(Pipe(NameE("v"), "nosuchfilter", <<>>))
                                   [] k = 2 -> ForS("", "w", ArrE(<<IntE(1), IntE(2)>>), NoE, <<P(NameE("w")), P(CallE("nosuchfunc", <<>>))>>, <<>>, FALSE)
                                   [] OTHER -> IfS(L("last"), <<ForS("", "w", IntE(5), NoE, <<Text("x")>>, <<>>, FALSE)>>, <<>>, FALSE),
                                 Text(",")>>, <<Text("E")>>, TRUE), Text("]")>>]
C5(s)          == [tag |-> "for-ifchain", n |-> s[2],
                   body |-> <<ForS("", "v", s[1], NoE,
                               <<IfChain(<<[c |-> L("first"), body |-> <<Text("F")>>],
                                           [c |-> L("last"), body |-> <<Text("L")>>]>>, <<Text("M")>>, TRUE)>>, <<>>, FALSE)>>]
C6             == [tag |-> "for-nest", n |-> 3,
                   body |-> <<ForS("", "row", NameE("nest"), NoE,
                               <<ForS("", "c", NameE("row"), NoE, <<P(NameE("c")), P(AttrDot(L("parent"), "index0"))>>, <<Text("-")>>, TRUE),
                                 Sep(";")>>, <<>>, FALSE)>>]

(* if / elseif / else: branch k has a literal or computed condition with truth value bits[k] *)
CondFor(bit, k) == CASE k = 1 -> BoolE(bit) [] k = 2 -> NameE(IF bit THEN "t" ELSE "f")
                     [] k = 3 -> Bin(IF bit THEN ">" ELSE "<", NameE("x"), IntE(3))
                     [] OTHER -> IF bit THEN StrE("a") ELSE StrE("")
(* conditions that are numbers, not booleans: every positive number is truthy, fractions included; zero and null are not *)
CondNum(bit, k) == CASE k = 1 -> (IF bit THEN NumE(32) ELSE IntE(0)) [] k = 2 -> NameE(IF bit THEN "quarter" ELSE "zero")
                     [] k = 3 -> (IF bit THEN Bin("/", IntE(1), IntE(4)) ELSE Bin("-", IntE(2), IntE(2)))
                     [] OTHER -> IF bit THEN NumE(96) ELSE NullE
Label(k) == <<Text(CASE k = 1 -> "A" [] k = 2 -> "B" [] k = 3 -> "C" [] OTHER -> "D")>>
CIf(bits, he)  == [tag |-> "ifchain", n |-> Len(bits), bits |-> bits, he |-> he,
                   body |-> <<Text("<"), IfChain([k \in 1..Len(bits) |-> [c |-> CondFor(bits[k], k), body |-> Label(k)]],
                                                 IF he THEN <<Text("Z")>> ELSE <<>>, he), Text(">")>>]
CIfNum(bits, he) == [tag |-> "ifchain", n |-> Len(bits), bits |-> bits, he |-> he,
                   body |-> <<Text("<"), IfChain([k \in 1..Len(bits) |-> [c |-> CondNum(bits[k], k), body |-> Label(k)]],
                                                 IF he THEN <<Text("Z")>> ELSE <<>>, he), Text(">")>>]
BitSeqs == UNION {[1..k -> BOOLEAN] : k \in 1..4}
(* nested: if inside if, for inside if *)
CNest(b1, b2, s) == [tag |-> "if-for", n |-> s[2],
                     body |-> <<IfS(BoolE(b1), <<IfS(NameE(IF b2 THEN "t" ELSE "f"), <<Text("tt")>>, <<Text("tf")>>, TRUE)>>,
                                    <<ForS("", "v", s[1], NoE, <<P(NameE("v"))>>, <<Text("E")>>, TRUE)>>, TRUE)>>]
(* depth 3-4 (thorough): loops in loops in conditionals *)
CDeep(s1, s2, b) == [tag |-> "deep", n |-> s1[2],
                     body |-> <<ForS("", "x", s1[1], NoE,
                                 <<IfS(IF b THEN L("first") ELSE Un("not", L("first")),
                                       <<ForS("j", "b", s2[1], NoE,
                                            <<IfS(L("last"), <<P(NameE("b")), P(NameE("x")), Text("!")>>, <<P(NameE("j")), Text("?")>>, TRUE),
                                              P(AttrDot(L("parent"), "revindex"))>>, <<Text("e")>>, TRUE)>>,
                                       <<Text("-")>>, TRUE)>>, <<Text("E")>>, TRUE)>>]

(* an else body (of an if, of an elseif chain, of a for) that itself begins or ends with a nested if and has more content:
   an elseif is an else body consisting of exactly one if, anything else is not *)
NestIf(b2, he2) == IfS(NameE(IF b2 THEN "t" ELSE "f"), <<Text("B")>>, IF he2 THEN <<Text("C")>> ELSE <<>>, he2)
ElseBody(sh, b2) ==
  CASE sh = 1 -> <<NestIf(b2, FALSE), Text("-tail")>>
    [] sh = 2 -> <<NestIf(b2, TRUE), Text("-tail")>>
    [] sh = 3 -> <<Text("pre-"), NestIf(b2, FALSE)>>
    [] sh = 4 -> <<NestIf(b2, FALSE), NestIf(~b2, TRUE)>>
    [] sh = 5 -> <<NestIf(b2, TRUE)>>
    [] OTHER -> <<NestIf(b2, FALSE), P(NameE("x"))>>
CElse(b1, b2, sh, host) ==
  [tag |-> "else-nested", n |-> sh,
   body |-> <<Text("<"),
              CASE host = 1 -> IfS(BoolE(b1), <<Text("A")>>, ElseBody(sh, b2), TRUE)
                [] host = 2 -> IfChain(<<[c |-> BoolE(FALSE), body |-> <<Text("A")>>], [c |-> BoolE(b1), body |-> <<Text("A2")>>]>>, ElseBody(sh, b2), TRUE)
                [] host = 3 -> ForS("", "v", IF b1 THEN ArrN(1) ELSE ArrE(<<>>), NoE, <<Text("A")>>, ElseBody(sh, b2), TRUE)
                [] OTHER -> IfS(BoolE(b1), ElseBody(sh, b2), <<Text("Z")>>, TRUE),
              Text(">")>>]

(* a loop inside the else branch of an empty loop: its parent is the enclosing RUNNING loop (the empty one never started) *)
CParentElse(s1, emp, dp) ==
  [tag |-> "for-else-parent", n |-> s1[2],
   body |-> <<ForS("", "a", s1[1], NoE,
               <<ForS("", "b", emp, NoE, <<Text("never")>>,
                      <<ForS("", "c", ArrN(2), NoE,
                             <<P(AttrDot(L("parent"), "index")), Sep("."), P(L("index")), Sep("/"), P(AttrDot(L("parent"), "length")), Sep(" ")>>
                             \o (IF dp THEN <<ForS("", "d", ArrN(1), NoE, <<P(AttrDot(AttrDot(L("parent"), "parent"), "index")), P(AttrDot(L("parent"), "index")), Sep(";")>>, <<>>, FALSE)>> ELSE <<>>),
                             <<>>, FALSE)>>, TRUE),
                 P(L("index")), Sep("|")>>, <<Text("E")>>, TRUE)>>]

CaseSet ==
  {CParentElse(s1, emp, dp) : s1 \in Iterables, emp \in {ArrE(<<>>), NameE("empty"), NameE("n"), NullE}, dp \in BOOLEAN} \cup
  {CElse(b1, b2, sh, host) : b1 \in BOOLEAN, b2 \in BOOLEAN, sh \in 1..6, host \in 1..4} \cup
  {C1(s, he) : s \in Seqs, he \in BOOLEAN} \cup {C2(s, he) : s \in Seqs, he \in BOOLEAN}
  \cup {C3(s, c, he) : s \in Seqs, c \in Conds, he \in BOOLEAN}
  \cup {C4(s1, s2) : s1 \in Iterables, s2 \in Seqs} \cup {C5(s) : s \in Seqs} \cup {C6}
  \cup {CErr(s, k) : s \in Iterables, k \in 1..3}
  \cup {CIf(bits, he) : bits \in BitSeqs, he \in BOOLEAN} \cup {CIfNum(bits, he) : bits \in BitSeqs, he \in BOOLEAN}
  \cup {CNest(b1, b2, s) : b1 \in BOOLEAN, b2 \in BOOLEAN, s \in Seqs}
  \cup (IF Deep THEN {CDeep(s1, s2, b) : s1 \in Iterables, s2 \in Seqs, b \in BOOLEAN} ELSE {})
Cases == SetToSeq(CaseSet)

Picked == {j \in 1..Len(Cases) : Stride = 1 \/ j % Stride = SeedMod(Stride)}
Init == GenInit(v_lvl, v_idx)
Next == GenNext(v_lvl, v_idx, Picked, 32)

Ref(c) == Execute(Tpl1("t", c.body), "t", Ctx)
Out == v_lvl < 2 \/ Emit(RenderVec("C06-" \o ToString(v_idx), Cases[v_idx].tag, Tpl1("t", Cases[v_idx].body), "t", Ctx, [n |-> Cases[v_idx].n]))

--------------------------------------------------------------------------
(* declarative statements, evaluated on every case TLC visits *)
Cur == Cases[v_idx]
(* exactly the first truthy branch, or the else branch, or nothing *)
FirstTruthyBranch == (v_lvl = 2 /\ Cur.tag = "ifchain") =>
  LET S == Ref(Cur)
      tr == {k \in 1..Len(Cur.bits) : Cur.bits[k]}
      want == IF tr = {} THEN (IF Cur.he THEN S2B("Z") ELSE <<>>) ELSE Label(Min(tr))[1].d
  IN S.status = "ok" /\ MainOut(S) = S2B("<") \o want \o S2B(">")
(* else branch exactly when the sequence is empty or null; non-iterable is an error *)
ElseIffEmpty == (v_lvl = 2 /\ Cur.tag = "for-kv") =>
  LET S == Ref(Cur) IN
  IF Cur.n < 0 THEN S.status = "err"
  ELSE /\ S.status = "ok"
       /\ (Cur.n = 0) <=> (MainOut(S) = (IF Cur.body[1].he THEN S2B("E.") ELSE S2B(".")))
       /\ (Cur.n > 0) => CountB(MainOut(S), 59) = Cur.n            \* one ';' per element
(* loop metadata in closed form: element j of n prints j,j-1,n-j+1,n-j,first,last,n *)
LoopClosedForm == (v_lvl = 2 /\ Cur.tag = "for-fields" /\ Cur.n > 0) =>
  LET S == Ref(Cur)
      RECURSIVE Skip(_, _)      \* drop "value:" up to and including the first ':'
      Skip(bs, k) == IF bs[k] = 58 THEN k + 1 ELSE Skip(bs, k + 1)
      RECURSIVE Chk(_, _, _)
      Chk(bs, pos, j) ==
        IF j > Cur.n THEN pos = Len(bs) + 1
        ELSE LET p0 == Skip(bs, pos)
                 line == DecB(j) \o <<44>> \o DecB(j - 1) \o <<44>> \o DecB(Cur.n - j + 1) \o <<44>> \o DecB(Cur.n - j) \o <<44>>
                         \o (IF j = 1 THEN <<49>> ELSE <<>>) \o <<44>> \o (IF j = Cur.n THEN <<49>> ELSE <<>>) \o <<44>>
                         \o DecB(Cur.n) \o <<59>>
             IN HasPrefixAt(bs, p0, line) /\ Chk(bs, p0 + Len(line), j + 1)
  IN S.status = "ok" /\ Chk(MainOut(S), 1, 1)
(* an inline condition that is constantly false renders no element and not the else branch either *)
(* an error in a loop body is reported whenever the body runs; an inner loop over a non-iterable value is an error *)
ErrorsInBodiesReported == (v_lvl = 2 /\ Cur.tag \in {"for-err", "for-for"}) =>
  LET S == Ref(Cur) IN
  /\ (Cur.tag = "for-err" /\ Cur.n > 0) => S.status = "err"
  /\ (Cur.tag = "for-err" /\ Cur.n = 0) => (S.status = "ok" /\ MainOut(S) = S2B("[E]"))
  /\ (Cur.tag = "for-for" /\ Cur.n > 0 /\ Cur.body[1].body[1].x \in {sq[1] : sq \in {x \in Seqs : x[2] < 0}}) => S.status = "err"
InlineIfFilters == (v_lvl = 2 /\ Cur.tag = "for-if" /\ Cur.n >= 0) =>
  LET S == Ref(Cur)
      cnd == Cur.body[2].cond IN
  /\ S.status \in {"ok", "oom"}
  /\ (S.status = "ok" /\ cnd = BoolE(FALSE) /\ Cur.n > 0) => MainOut(S) = S2B("[]")
  /\ (S.status = "ok" /\ cnd = BoolE(TRUE)) => CountB(MainOut(S), 44) = Cur.n
=============================================================================
