CONSTANTS
  FnSet = {"css!4"}
  MaxPlane = 0
INIT Init
NEXT Next
INVARIANTS OutputInert Lossless1 PairsLossless
