CONSTANTS MaxDepth = 3
INIT Init
NEXT Next
INVARIANTS Out CaptureExact FailureLeavesCaptureOut Balanced MainOnlyFromDepth0 OrderPreserved
