CONSTANTS MaxDepth = 3
INIT Init
NEXT Next
INVARIANTS Out CaptureExact Balanced MainOnlyFromDepth0 OrderPreserved
