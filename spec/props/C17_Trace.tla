------------------------------ MODULE C17_Trace ------------------------------
(* Binding T for C17.  The trace is a sequence of runs of programs against a   *)
(* destination writer and a loader that fail at chosen calls:                  *)
(*   prog{tpls, entry, ctx}   the program (AST); the acceptor computes the     *)
(*                            reference behaviour Execute(..) of Exec.tla      *)
(*   run{safe, wk, lk}        a new Execute / ExecuteSafe call                 *)
(*   w{d, ok}                 a Write call on the destination writer           *)
(*   load{name, ok}           a Load call                                      *)
(*   ret{ok}                  the call returned (ok = nil error)               *)
(* The machine keeps the bytes accepted so far and whether a call failed; an   *)
(* event is rejected (printed, and the acceptor moves on) when it breaks        *)
(*   FailedWriteIsLast, MainIsPrefixOfSuccess, ErrReturned, SafeAllOrNothing.  *)
EXTENDS Exec, Json, IOUtils

Trace == ndJsonDeserialize(IOEnv.TRACE_FILE)

VARIABLES v_l, v_ref, v_acc, v_wfailed, v_lfailed, v_safe
vars == <<v_l, v_ref, v_acc, v_wfailed, v_lfailed, v_safe>>

IsPrefixB(p, s) == Len(p) <= Len(s) /\ SubSeq(s, 1, Len(p)) = p
Rej(why) == PrintT(ToJson([rej |-> v_l, why |-> why]))

ASSUME TLCSet(1, 0)
Init == v_l = 1 /\ v_ref = [status |-> "none", out |-> <<>>] /\ v_acc = <<>> /\ v_wfailed = FALSE /\ v_lfailed = FALSE /\ v_safe = FALSE

Step(ev) ==
  CASE ev.e = "prog" ->
         LET S == Execute(ev.tpls, ev.entry, ev.ctx) IN
         /\ v_ref' = [status |-> S.status, out |-> MainOut(S)]
         /\ v_acc' = <<>> /\ v_wfailed' = FALSE /\ v_lfailed' = FALSE /\ v_safe' = FALSE
    [] ev.e = "run" ->
         /\ v_acc' = <<>> /\ v_wfailed' = FALSE /\ v_lfailed' = FALSE /\ v_safe' = ev.safe /\ UNCHANGED v_ref
    [] ev.e = "w" ->
         /\ (IF v_wfailed THEN Rej("write-after-failed-write")                 \* FailedWriteIsLast
             ELSE IF v_ref.status # "oom" /\ ev.ok /\ ~IsPrefixB(v_acc \o ev.d, v_ref.out) THEN Rej("not-a-prefix")   \* MainIsPrefixOfSuccess
             ELSE TRUE)
         /\ v_acc' = IF ev.ok THEN v_acc \o ev.d ELSE v_acc
         /\ v_wfailed' = (v_wfailed \/ ~ev.ok)
         /\ UNCHANGED <<v_ref, v_lfailed, v_safe>>
    [] ev.e = "load" ->
         /\ v_lfailed' = (v_lfailed \/ ~ev.ok) /\ UNCHANGED <<v_ref, v_acc, v_wfailed, v_safe>>
    [] ev.e = "ret" ->
         /\ (IF (v_wfailed \/ v_lfailed \/ v_ref.status = "err") /\ ev.ok THEN Rej("error-not-returned")       \* ErrReturned
             ELSE IF v_ref.status = "oom" THEN TRUE              \* reference outside the model: only the fault clauses apply
             ELSE IF ev.ok /\ v_acc # v_ref.out THEN Rej("incomplete-output")
             ELSE IF ~ev.ok /\ ~(v_wfailed \/ v_lfailed \/ v_ref.status = "err") THEN Rej("unexpected-error")
             ELSE IF v_safe /\ ~ev.ok /\ v_acc # <<>> THEN Rej("safe-partial-output")                           \* SafeAllOrNothing
             ELSE TRUE)
         /\ UNCHANGED <<v_ref, v_acc, v_wfailed, v_lfailed, v_safe>>

Next == v_l <= Len(Trace) /\ Step(Trace[v_l]) /\ v_l' = v_l + 1
HighWater == TLCSet(1, IF v_l > TLCGet(1) THEN v_l ELSE TLCGet(1))
Consumed == TLCGet(1) = Len(Trace) + 1
=============================================================================
