------------------------------ MODULE C16_Trace ------------------------------
(* Binding T for C16: every GetAttr call and every traversal recorded from the *)
(* Go code is judged against the abstract content of its container (C16.tla).  *)
EXTENDS C16, IOUtils

Trace == ndJsonDeserialize(IOEnv.TRACE_FILE)
VARIABLE v_l
ASSUME TLCSet(1, 0)

ApiWhy(ev) ==
  LET d == Desc(ev.cid)
      ref == GetAttrRef(d, ev.key, ev.args) IN
  IF ev.panicked THEN "panic"
  ELSE IF ref.r = "err" THEN (IF ev.ok THEN "missing-or-unusable-accepted" ELSE "")
  ELSE IF ref.r = "elem" THEN (IF ~ev.ok THEN "existing-element-rejected" ELSE IF ev.val # ref.v THEN "wrong-element" ELSE "")
  ELSE IF ev.ok /\ d.kind \in {"seq", "map"} /\ ev.val \notin ElemValues(d) THEN "not-an-element"
  ELSE ""
(* the same lookup written c[k] in a template yields GetAttr's element, and null where GetAttr reports an error *)
TplWhy(ev) ==
  IF ev.tpl = "panic" THEN "template-subscript-panics"
  ELSE IF ev.tpl = "ran" /\ ev.ok /\ ev.tplval # ev.val THEN "template-subscript-differs-from-GetAttr"
  ELSE IF ev.tpl = "ran" /\ ~ev.ok /\ ev.tplval # Null THEN "template-subscript-invents-an-element"
  ELSE ""
GetWhy(ev) == LET a == ApiWhy(ev) IN IF a # "" THEN a ELSE TplWhy(ev)
Why(ev) == IF ev.k = "getattr" THEN GetWhy(ev)
           ELSE IF ev.panicked THEN "panic" ELSE IterWhy(Desc(ev.cid), ev)
TInit == v_l = 1
TNext == /\ v_l <= Len(Trace)
         /\ LET w == Why(Trace[v_l]) IN IF w = "" THEN TRUE ELSE PrintT(ToJson([rej |-> v_l, why |-> w]))
         /\ v_l' = v_l + 1
         /\ UNCHANGED <<v_lvl, v_idx>>
TInitAll == TInit /\ v_lvl = 0 /\ v_idx = 0
HighWater == TLCSet(1, IF v_l > TLCGet(1) THEN v_l ELSE TLCGet(1))
Consumed == TLCGet(1) = Len(Trace) + 1
=============================================================================
