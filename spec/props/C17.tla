--------------------------------- MODULE C17 ---------------------------------
(* C17 programs for fault enumeration: bases taken from the C03/C08/C09/C10    *)
(* shapes, and a run-time error of every kind placed at every position.        *)
(* The vectors carry the program only; every fault point of every program is   *)
(* run by the harness and the recorded runs are judged by C17_Trace.           *)
EXTENDS Vec, SequencesExt, FiniteSetsExt

VARIABLES v_lvl, v_idx
Ctx == ("x" :> Str(S2B("X"))) @@ ("five" :> IntV(5)) @@ ("hh" :> Hash(<< <<S2B("q"), IntV(7)>> >>))

Lib == <<MacroS("m", <<"p">>, <<Text("m("), PrintS(NameE("p")), Text(")")>>)>>
Base == <<Text("^"), BlockS("a", <<Text("ba")>>), Text("|"), BlockS("b", <<Text("bb"), PrintS(NameE("x"))>>), Text("$")>>
Mid == <<ExtendsS(StrE("base")), BlockS("a", <<Text("ma("), PrintS(CallE("parent", <<>>)), Text(")")>>)>>
Inc == <<Text("<"), PrintS(NameE("x")), Text(">")>>
(* templates that load but do not parse: 21 different ways of not being a template (harness/ast.go badSources), among them the
   four the parser reports without a position *)
NBad == 21
Bad(v) == <<[k |-> "syntaxerror", v |-> v]>>
BadName(v) == "bad" \o ToString(v)
(* "missing/inner" makes the name "missing" a directory under the filesystem loader: a name that opens and is not a template *)
Others == ("lib" :> Lib) @@ ("base" :> Base) @@ ("mid" :> Mid) @@ ("inc" :> Inc) @@ ("bad" :> Bad(0)) @@ ("missing/inner" :> <<Text("in")>>)
          @@ [nm \in {BadName(v) : v \in 0..(NBad - 1)} |-> Bad(CHOOSE v \in 0..(NBad - 1) : BadName(v) = nm)]

Bases == <<
  <<Text("a"), PrintS(NameE("x")), Text("b"), PrintS(NameE("x")), Text("c")>>,
  <<Text("a"), FilterS(<<"up">>, <<Text("b"), PrintS(NameE("x"))>>), Text("c")>>,
  <<Text("a"), FilterS(<<"up", "wrap">>, <<Text("b"), FilterS(<<"wrap">>, <<Text("i")>>), Text("d")>>), Text("c"), PrintS(NameE("x"))>>,
  <<Text("a"), SetCap("c", <<Text("b"), PrintS(NameE("x"))>>), Text("["), PrintS(NameE("c")), Text("]"), PrintS(NameE("c"))>>,
  <<MacroS("mm", <<>>, <<Text("M"), PrintS(NameE("x"))>>), Text("a"), PrintS(AttrCall(NameE("_self"), "mm", <<>>)), Text("b")>>,
  <<Text("a"), ForS("", "v", ArrE(<<IntE(1), IntE(2)>>), NoE, <<PrintS(NameE("v")), Text(",")>>, <<>>, FALSE), Text("b")>>,
  <<ExtendsS(StrE("mid")), BlockS("a", <<Text("ta("), PrintS(CallE("parent", <<>>)), Text(")")>>), BlockS("b", <<Text("tb")>>)>>,
  <<Text("a"), ForS("", "v", ArrE(<<IntE(1), IntE(2)>>), NoE, <<IncludeS(StrE("inc"), NoE, FALSE)>>, <<>>, FALSE), Text("b")>>,
  <<Text("a"), EmbedS(StrE("base"), NoE, FALSE, <<[name |-> "a", body |-> <<Text("ea")>>]>>), Text("b")>>,
  <<ImportS(StrE("lib"), "L"), Text("a"), PrintS(AttrCall(NameE("L"), "m", <<IntE(1)>>)), FromS(StrE("lib"), << <<"m", "m">> >>), PrintS(CallE("m", <<IntE(2)>>)), Text("b")>>,
  <<Text("a"), BlockS("k", <<Text("b"), PrintS(CallE("block", <<StrE("j")>>))>>), BlockS("j", <<Text("J")>>), Text("c")>>,
  <<Text("a"), IfS(NameE("x"), <<Text("t"), FilterS(<<"up">>, <<Text("q")>>)>>, <<Text("e")>>, TRUE), Text("c")>>,
  (* loops over a hash literal and over a hash of the context: the body's failure ends the loop and the rendering *)
  <<Text("a"), ForS("k", "v", HashE(<< <<NameE("hk"), IntE(1)>> >>), NoE, <<PrintS(NameE("k")), Text("="), PrintS(NameE("v"))>>, <<>>, FALSE), Text("b")>>,
  <<Text("a"), ForS("", "v", NameE("hh"), NoE, <<Text("["), PrintS(NameE("v")), Text("]")>>, <<Text("E")>>, TRUE), Text("b")>>,
  (* a macro whose result is not printed as it is: assigned, concatenated, filtered, passed on - what the macro had rendered
     before it failed goes nowhere *)
  <<MacroS("mm", <<>>, <<Text("M"), PrintS(NameE("x")), Text("N")>>), Text("a"), SetS("r", AttrCall(NameE("_self"), "mm", <<>>)), Text("b"),
    PrintS(Bin("~", StrE("k"), AttrCall(NameE("_self"), "mm", <<>>))), PrintS(Pipe(AttrCall(NameE("_self"), "mm", <<>>), "up", <<>>)), Text("c"), PrintS(NameE("r"))>>,
  <<MacroS("mo", <<"p">>, <<Text("<"), PrintS(NameE("p")), Text(">")>>), MacroS("mi", <<>>, <<Text("I"), PrintS(NameE("x"))>>), Text("a"),
    PrintS(AttrCall(NameE("_self"), "mo", <<AttrCall(NameE("_self"), "mi", <<>>)>>)), Text("b")>>
>>

ErrKinds == <<"filter", "func", "test", "noniter", "block", "include", "syntax", "argfirst", "argmid", "argfilter", "macro">>
DivZero == Bin("%", IntE(1), IntE(0))
NoFn == CallE("nosuchfunc", <<StrE("q")>>)
ErrStmt(kind) ==
  CASE kind = "filter" -> PrintS(Pipe(NameE("x"), "nosuchfilter", <<>>))
    [] kind = "func" -> PrintS(CallE("nosuchfunc", <<>>))
    [] kind = "test" -> PrintS(TestE(NameE("x"), FALSE, "nosuchtest", <<>>))
    [] kind = "noniter" -> ForS("", "v", NameE("five"), NoE, <<Text("never")>>, <<>>, FALSE)
    [] kind = "block" -> PrintS(CallE("block", <<StrE("nosuchblock")>>))
    [] kind = "include" -> IncludeS(StrE("missing"), NoE, FALSE)
    [] kind = "syntax" -> IncludeS(StrE("bad"), NoE, FALSE)
    (* a failing argument that is not the last one: every argument's error counts *)
    [] kind = "argfirst" -> PrintS(CallE("id", <<NoFn, StrE("x")>>))
    [] kind = "argmid" -> PrintS(CallE("nul", <<StrE("a"), DivZero, StrE("x")>>))
    [] kind = "argfilter" -> PrintS(Pipe(NameE("x"), "wrap", <<DivZero, StrE("y")>>))
    [] OTHER -> <<>>

InsAt(stmts, p, st) == SubSeq(stmts, 1, p) \o <<st>> \o SubSeq(stmts, p + 1, Len(stmts))
(* insert into the body of the first top-level statement that has one *)
HasBody(st) == st.k \in {"filter", "setcap", "for", "block", "macro"}
FirstBody(stmts) == LET idx == {q \in 1..Len(stmts) : HasBody(stmts[q])} IN IF idx = {} THEN 0 ELSE Min(idx)
InsertInBody(stmts, st) ==
  LET q == FirstBody(stmts) IN
  [stmts EXCEPT ![q] = [@ EXCEPT !.body = InsAt(@, 1, st)]]

Programs ==
  { [t |-> Bases[b], tag |-> "base"] : b \in 1..Len(Bases) }
  \cup UNION { { [t |-> InsAt(Bases[b], p, ErrStmt(ErrKinds[e])), tag |-> "err-" \o ErrKinds[e]]
                   : p \in 0..Len(Bases[b]), e \in 1..10 }
                 : b \in {q \in 1..Len(Bases) : Bases[q][1].k # "extends"} }
  \cup { [t |-> InsertInBody(Bases[b], ErrStmt(ErrKinds[e])), tag |-> "errbody-" \o ErrKinds[e]]
           : b \in {q \in 1..Len(Bases) : FirstBody(Bases[q]) # 0}, e \in 1..10 }
  \cup { [t |-> <<ImportS(StrE("lib"), "L"), Text("a"), PrintS(AttrCall(NameE("L"), "nope", <<>>)), Text("b")>>, tag |-> "err-macro"],
         [t |-> <<FromS(StrE("lib"), << <<"m", "m">> >>), Text("a"), PrintS(CallE("m", <<DivZero, StrE("x")>>)), Text("b")>>, tag |-> "err-argmacro"],
         [t |-> <<ImportS(StrE("lib"), "L"), Text("a"), PrintS(AttrCall(NameE("L"), "m", <<DivZero, StrE("x")>>)), Text("b")>>, tag |-> "err-argmacro"],
         [t |-> <<FromS(StrE("lib"), << <<"m", "m">> >>), Text("a"), PrintS(CallE("m", <<NoFn, StrE("x")>>)), Text("b")>>, tag |-> "err-argmacro"],
         [t |-> <<ImportS(StrE("lib"), "L"), Text("a"), PrintS(AttrCall(NameE("L"), "m", <<NoFn, StrE("x")>>)), Text("b")>>, tag |-> "err-argmacro"] }
  (* every unparseable template, reached as the entry itself, by include, extends, embed, import, from and use *)
  \cup UNION { { [t |-> Bad(v), tag |-> "err-unparseable-entry"],
                 [t |-> <<Text("a"), IncludeS(StrE(BadName(v)), NoE, FALSE), Text("b")>>, tag |-> "err-unparseable-include"],
                 [t |-> <<ExtendsS(StrE(BadName(v))), BlockS("a", <<Text("x")>>)>>, tag |-> "err-unparseable-extends"],
                 [t |-> <<Text("a"), EmbedS(StrE(BadName(v)), NoE, FALSE, <<>>), Text("b")>>, tag |-> "err-unparseable-embed"],
                 [t |-> <<Text("a"), ImportS(StrE(BadName(v)), "L"), Text("b")>>, tag |-> "err-unparseable-import"],
                 [t |-> <<Text("a"), FromS(StrE(BadName(v)), << <<"m", "m">> >>), Text("b")>>, tag |-> "err-unparseable-from"],
                 [t |-> <<UseS(StrE(BadName(v)), <<>>), Text("a"), BlockS("a", <<Text("x")>>)>>, tag |-> "err-unparseable-use"] }
              : v \in 0..(NBad - 1) }
Valid(pr) == \A q \in 1..Len(pr.t) : pr.t[q] # <<>>
Cases == SetToSeq({pr \in Programs : Valid(pr)})
Picked == 1..Len(Cases)
Init == GenInit(v_lvl, v_idx)
Next == GenNext(v_lvl, v_idx, Picked, 32)
Cur == Cases[v_idx]
Tpls == ("t" :> Cur.t) @@ Others
Out == v_lvl < 2 \/ Emit([RenderVec("C17-" \o ToString(v_idx), Cur.tag, Tpls, "t", Ctx, [tag |-> Cur.tag]) EXCEPT !.k = "faults"])

(* design-level statement on the reference: an error stops execution, so the output at the error is a prefix of
   the output of the same program without the erroring statement *)
ErrorStopsOutput == (v_lvl = 2 /\ SubSeq(Cur.tag, 1, 3) = "err") =>
  LET R == Execute(Tpls, "t", Ctx) IN R.status \in {"err", "oom"} /\ (Cur.tag \in {"err-argfirst", "err-argmid", "err-argfilter", "err-argmacro"} => R.status = "err")
BasesSucceed == (v_lvl = 2 /\ Cur.tag = "base") => Execute(Tpls, "t", Ctx).status = "ok"
=============================================================================
