------------------------------ MODULE C03_Src ------------------------------
(* C03 on BYTES: literal text, comments and verbatim sections written as      *)
(* source fragments and decided by the whole specification pipeline           *)
(* (Lexer.tla -> Parser.tla -> Exec.tla).  Two families:                      *)
(*   seq   every sequence of up to N fragments of the alphabet below (lone    *)
(*         delimiter characters, multi-byte text, prints, comments with and   *)
(*         without markers, verbatim tags in every marker spelling, an if     *)
(*         pair): a text run that happens to form a delimiter with what       *)
(*         follows is decided by the lexer, not excluded                      *)
(*   verb  verbatim sandwiches: each spelling of the opening tag, a body of   *)
(*         up to M fragments that would be tags, prints, comments or broken   *)
(*         syntax outside a verbatim section, each spelling of the closing tag*)
(* Each source is either not a template or renders a definite output; the     *)
(* real code must agree.                                                      *)
EXTENDS Parser, Seed, SequencesExt, FiniteSetsExt

CONSTANTS N, M
VARIABLES v_lvl, v_idx

Frags == << <<97>>, <<123>>, <<125>>, <<37>>, <<35>>, <<45>>, <<32>>, <<10>>, <<195, 169>>,
            S2B("{{ x }}"), S2B("{# c #}"), S2B("{#- c -#}"), S2B("{##}"),
            S2B("{% verbatim %}"), S2B("{% verbatim -%}"), S2B("{%- verbatim %}"), S2B("{% endverbatim %}"), S2B("{%- endverbatim -%}"),
            S2B("{% if a %}"), S2B("{% endif %}") >>
NF == Len(Frags)
VOpen == << S2B("{% verbatim %}"), S2B("{% verbatim -%}"), S2B("{%- verbatim %}"), S2B("{%verbatim%}"), S2B("{%-  verbatim  -%}") >>
VClose == << S2B("{% endverbatim %}"), S2B("{%- endverbatim -%}"), S2B("{%endverbatim%}") >>
VBody == << <<118>>, S2B("{{ x }}"), S2B("{% if a %}"), S2B("{% endif %}"), S2B("{# c #}"), <<123>>, S2B("%}"), S2B("{{"), S2B("{% endverbatim"), <<10>> >>
Ctx == ("x" :> Str(S2B("X"))) @@ ("a" :> Bool(TRUE))

SeqsUpTo(n, k) == UNION {[1..q -> 1..k] : q \in 1..n}
RECURSIVE CatB(_, _)
CatB(tab, s) == IF s = <<>> THEN <<>> ELSE tab[Head(s)] \o CatB(tab, Tail(s))
SeqCases == { [fam |-> "seq", src |-> CatB(Frags, s), n |-> Len(s)] : s \in SeqsUpTo(N, NF) }
VerbCases == { [fam |-> "verb", src |-> <<119>> \o VOpen[o] \o CatB(VBody, b) \o VClose[c] \o <<122>>, n |-> Len(b) + 2]
               : o \in 1..Len(VOpen), c \in 1..Len(VClose), b \in SeqsUpTo(M, Len(VBody)) \cup {<<>>} }
Cases == SetToSeq(SeqCases \cup VerbCases)
Picked == 1..Len(Cases)
Init == GenInit(v_lvl, v_idx)
Next == GenNext(v_lvl, v_idx, Picked, 64)

Case(j) ==
  LET c == Cases[j]
      pr == ParseSrc(c.src)
      S == IF pr.ok THEN Execute(("t" :> pr.tree), "t", Ctx) ELSE [status |-> "err", outs |-> << <<>> >>, log |-> <<>>] IN
  [id |-> "C03s-" \o ToString(j), fam |-> "src-" \o c.fam, k |-> "render", env |-> "core",
   srcs |-> ("t" :> c.src), entry |-> "t", ctx |-> Ctx, nolog |-> TRUE, x |-> [n |-> c.n, valid |-> pr.ok],
   exp |-> [status |-> S.status, out |-> S.outs[1], log |-> <<>>]]
Out == v_lvl < 2 \/ Emit(Case(v_idx))
Decided == v_lvl = 2 => Case(v_idx).exp.status \in {"ok", "err"}
(* a verbatim sandwich whose body does not contain the closing tag's beginning is a template, and renders its body byte for byte *)
VerbatimIsLiteral == (v_lvl = 2 /\ Cases[v_idx].fam = "verb") =>
  LET c == Cases[v_idx]  r == Case(v_idx) IN
  r.x.valid => (r.exp.status = "ok" /\ Len(r.exp.out) >= 2 /\ r.exp.out[1] = 119 /\ r.exp.out[Len(r.exp.out)] = 122)
=============================================================================
