CONSTANTS Stride2 = 3
  Stride3 = 2003
  TruncStride = 71
INIT Init
NEXT Next
INVARIANTS Out AnchorsAreTokenPositions
