CONSTANTS Stride2 = 1
  Stride3 = 307
  TruncStride = 11
INIT Init
NEXT Next
INVARIANTS Out AnchorsAreTokenPositions
