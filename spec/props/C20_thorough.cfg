CONSTANTS Stride3 = 101
  TruncStride = 7
INIT Init
NEXT Next
INVARIANTS Out AnchorsAreTokenPositions
