CONSTANTS Stride2 = 2
  Stride3 = 1201
  TruncStride = 47
INIT Init
NEXT Next
INVARIANTS Out AnchorsAreTokenPositions
