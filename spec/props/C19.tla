--------------------------------- MODULE C19 ---------------------------------
(* C19 No goroutines or file handles are left behind.                         *)
(* A history is a sequence of calls; a call is [loader, kind, api] with       *)
(*   loader  "string" | "memory" | "fs"                                       *)
(*   kind    "ok" | "syn0".."syn8" (syntax error after that many tokens of    *)
(*           the template) | "lexerr" | "runtime" | "missing"                 *)
(* Each call unfolds into the steps of the implementation for every template  *)
(* it loads:  Open (fs) -> Close -> Spawn(tokeniser) -> ParserReturn, with    *)
(* the tokeniser's exit an independent, asynchronous step that is enabled     *)
(* once it has sent everything or the parser has signalled `done`.            *)
(* Property: when the history has returned, eventually no tokeniser is alive  *)
(* and no file is open (Quiescent), and it stays so.                          *)
(* CloseFiles / Drain = FALSE model the defects (negative configurations).    *)
EXTENDS Naturals, Sequences, FiniteSets, TLC, Json, Seed

CONSTANTS MaxHist, Stride3, CloseFiles, Drain
VARIABLES hist,      \* calls still to make
          pc,        \* step within the current load: "idle" | "opened" | "read" | "parsing"
          loads,     \* templates the current call still has to load (ids)
          live,      \* tokenisers alive: id -> "running" | "blocked" (parser gone, token pending)
          files,     \* open file handles
          nextid, v_emit
vars == <<hist, pc, loads, live, files, nextid, v_emit>>

Loaders == <<"string", "memory", "fs">>
Kinds == <<"ok", "syn0", "syn1", "syn2", "syn3", "syn5", "syn8", "lexerr", "runtime", "missing", "incsyn", "dir", "incdir",
          "extuse", "extusealias", "lexuni", "opsplit", "bigtail", "deeprej">>   \* deeprej: a template read to its end and then refused because its tree is too deep (a long interpolated string); whatever examines the tree ends with the call; bigtail: a syntax error followed by 16 MB of source the parser never asks for (a tokeniser that reads on after the call has returned is still a goroutine held by the library); opsplit: after a syntax error, two-word operators whose words are apart by more than one blank; dir: the name is a directory; extuse*: a template that extends a parent and whose use fails at run time; lexuni: a non-ASCII letter where an expression is expected
Apis == <<"execute", "parse">>
NOp == Len(Loaders) * Len(Kinds) * Len(Apis)
Op(j) == [loader |-> Loaders[(j % 3) + 1], kind |-> Kinds[((j \div 3) % Len(Kinds)) + 1], api |-> Apis[((j \div (3 * Len(Kinds))) % 2) + 1]]
(* number of templates a call loads (entry + include) and whether the parser stops early in the last of them *)
NLoads(op) == CASE op.kind \in {"missing", "dir"} -> 0 [] op.kind \in {"ok", "runtime", "incsyn", "extuse"} /\ op.api = "execute" -> 2
                [] op.kind = "extusealias" /\ op.api = "execute" -> 3 [] OTHER -> 1
StopsEarly(op) == op.kind \notin {"ok", "runtime", "missing", "extuse", "extusealias", "deeprej"}

RECURSIVE PowO(_)
PowO(n) == IF n = 0 THEN 1 ELSE NOp * PowO(n - 1)
RECURSIVE BaseH(_)
BaseH(n) == IF n = 1 THEN 0 ELSE BaseH(n - 1) + PowO(n - 1)
TotalH == BaseH(MaxHist) + PowO(MaxHist)
LenH(j) == CHOOSE n \in 1..MaxHist : BaseH(n) <= j /\ j < BaseH(n) + PowO(n)
History(j) == LET n == LenH(j)  r == j - BaseH(n) IN [q \in 1..n |-> Op((r \div PowO(q - 1)) % NOp)]
SmallH == IF MaxHist >= 3 THEN BaseH(3) ELSE TotalH
PickedH == (0..(SmallH - 1)) \cup {SmallH + SeedMod(Stride3) + Stride3 * m : m \in 0..((TotalH - SmallH - 1 - SeedMod(Stride3)) \div Stride3)}

Init == /\ \E j \in PickedH : hist = History(j) /\ v_emit = j
        /\ pc = "idle" /\ loads = 0 /\ live = [x \in {} |-> ""] /\ files = {} /\ nextid = 1

Cur == Head(hist)
StartCall == /\ pc = "idle" /\ loads = 0 /\ hist # <<>>
             /\ IF NLoads(Cur) = 0 THEN hist' = Tail(hist) /\ UNCHANGED <<pc, loads>>        \* missing template: Load fails at once
                ELSE loads' = NLoads(Cur) /\ pc' = "load" /\ UNCHANGED hist
             /\ UNCHANGED <<live, files, nextid, v_emit>>
OpenT == /\ pc = "load"
         /\ files' = IF Cur.loader = "fs" THEN files \cup {nextid} ELSE files
         /\ pc' = "opened" /\ UNCHANGED <<hist, loads, live, nextid, v_emit>>
ReadClose == /\ pc = "opened"
             /\ files' = IF CloseFiles THEN files \ {nextid} ELSE files
             /\ pc' = "read" /\ UNCHANGED <<hist, loads, live, nextid, v_emit>>
Spawn == /\ pc = "read"
         /\ live' = [x \in (DOMAIN live) \cup {nextid} |-> IF x = nextid THEN "running" ELSE live[x]]
         /\ pc' = "parsing" /\ UNCHANGED <<hist, loads, files, nextid, v_emit>>
(* the parser of this template returns: early (syntax error) only in the last load of a failing call *)
ParserReturn ==
  /\ pc = "parsing"
  /\ LET early == StopsEarly(Cur) /\ loads = 1 IN
     /\ live' = IF nextid \in DOMAIN live /\ early /\ ~Drain THEN [live EXCEPT ![nextid] = "blocked"] ELSE live
     /\ IF loads > 1 THEN loads' = loads - 1 /\ pc' = "load" /\ UNCHANGED hist
        ELSE loads' = 0 /\ pc' = "idle" /\ hist' = Tail(hist)
  /\ nextid' = nextid + 1 /\ UNCHANGED <<files, v_emit>>
(* a running tokeniser reaches the end of its input (or finds `done` closed) and exits; a blocked one never does *)
LexerExit == \E x \in DOMAIN live : /\ live[x] = "running" /\ (x < nextid \/ pc = "idle")
                                     /\ live' = [y \in (DOMAIN live) \ {x} |-> live[y]]
                                     /\ UNCHANGED <<hist, pc, loads, files, nextid, v_emit>>
Quiet == hist = <<>> /\ pc = "idle" /\ UNCHANGED vars
Next == StartCall \/ OpenT \/ ReadClose \/ Spawn \/ ParserReturn \/ LexerExit \/ Quiet
Spec == Init /\ [][Next]_vars /\ WF_vars(StartCall \/ OpenT \/ ReadClose \/ Spawn \/ ParserReturn) /\ WF_vars(LexerExit)

Returned == hist = <<>> /\ pc = "idle"
Clean == DOMAIN live = {} /\ files = {}
ReturnedLeadsToClean == Returned ~> Clean
(* a file is never open while no call is in progress *)
NoFileBetweenCalls == (pc = "idle") => files = {}
Emit19 == (pc = "idle" /\ loads = 0 /\ nextid = 1 /\ hist = History(v_emit)) =>
            PrintT(ToJson([id |-> "C19-" \o ToString(v_emit), k |-> "history", ops |-> hist]))
=============================================================================
