--------------------------------- MODULE C01 ---------------------------------
(* C01 Parsing is total.  Sources are concatenations of fragments of an       *)
(* alphabet that contains every delimiter (with and without '-'), white space *)
(* kinds, numbers, names, every kind of operator, quotes, "#{", brackets,     *)
(* punctuation, a 2-byte rune, an invalid byte and tag keywords - and every   *)
(* byte-prefix of such a source.  For each source TLC runs the tokeniser      *)
(* (Lexer.tla) one state-function call per transition and checks in every     *)
(* state that the cursors stay in range and the number of steps is bounded,   *)
(* and at the end that the stream ends with EOF or ERROR (last token), that   *)
(* the tokens partition the source and that every position is exact.          *)
EXTENDS Lexer, Seed, Json, FiniteSets

CONSTANTS NFrag, Stride, ELen
VARIABLES v_lvl, v_idx, v_st

Frags == <<
  <<123,123>>, <<123,123,45>>, <<125,125>>, <<45,125,125>>, <<123,37>>, <<123,37,45>>, <<37,125>>, <<45,37,125>>,
  <<123,35>>, <<123,35,45>>, <<35,125>>, <<45,35,125>>, <<32>>, <<9>>, <<10>>, <<13>>, <<13,10>>,
  S2B("1"), S2B("12"), S2B("a"), S2B("ab"), S2B("_x"), S2B("and"), S2B("not"), S2B("in"), S2B("is"), S2B("is not"), S2B("not in"),
  S2B("b-and"), S2B("starts with"), S2B("+"), S2B("-"), S2B("*"), S2B("**"), S2B("/"), S2B("//"), S2B("%"), S2B("~"), S2B(".."),
  S2B("=="), S2B("<"), S2B("<="), S2B("'"), S2B("\""), S2B("#{"), S2B("("), S2B(")"), S2B("["), S2B("]"), S2B("{"), S2B("}"),
  S2B("."), S2B(","), S2B("|"), S2B(":"), S2B("?"), S2B("="), <<195,169>>, <<255>>, S2B("if"), S2B("endif"), S2B("for"), S2B("set"),
  S2B("verbatim"), S2B("endverbatim"), S2B("block"), S2B("x"), S2B("$"), S2B("include"), S2B("order") >>
NF == Len(Frags)

RECURSIVE PowF(_)
PowF(n) == IF n = 0 THEN 1 ELSE NF * PowF(n - 1)
RECURSIVE BaseF(_)
BaseF(n) == IF n = 1 THEN 0 ELSE BaseF(n - 1) + PowF(n - 1)
TotalF == BaseF(NFrag) + PowF(NFrag)
NOfIdx(j) == CHOOSE n \in 1..NFrag : BaseF(n) <= j /\ j < BaseF(n) + PowF(n)
RECURSIVE CatFrags(_, _)
CatFrags(code, n) == IF n = 0 THEN <<>> ELSE Frags[(code % NF) + 1] \o CatFrags(code \div NF, n - 1)
(* second family: inside a print, every sequence of up to ELen string/interpolation fragments (quotes nested in
   interpolations nested in quotes ...), with and without the closing delimiter *)
EFrags == << S2B("\""), S2B("#{"), S2B("}"), S2B(" "), S2B("x"), S2B("'") >>
NE == Len(EFrags)
RECURSIVE PowE(_)
PowE(n) == IF n = 0 THEN 1 ELSE NE * PowE(n - 1)
RECURSIVE BaseE(_)
BaseE(n) == IF n = 1 THEN 0 ELSE BaseE(n - 1) + PowE(n - 1)
TotalE == IF ELen = 0 THEN 0 ELSE BaseE(ELen) + PowE(ELen)
RECURSIVE CatE(_, _)
CatE(code, n) == IF n = 0 THEN <<>> ELSE EFrags[(code % NE) + 1] \o CatE(code \div NE, n - 1)
ESrc(e) == LET n == CHOOSE m \in 1..ELen : BaseE(m) <= e /\ e < BaseE(m) + PowE(m) IN <<123, 123>> \o CatE(e - BaseE(n), n) \o <<125, 125>>
FullSrc(j) == IF j >= TotalF THEN ESrc(j - TotalF) ELSE LET n == NOfIdx(j) IN CatFrags(j - BaseF(n), n)
PrefixLens(j) == IF j >= TotalF THEN {Len(FullSrc(j)) - 2, Len(FullSrc(j))} ELSE 1..Len(FullSrc(j))

Small == IF NFrag >= 3 THEN BaseF(3) ELSE TotalF
PickedIdx == (0..(Small - 1)) \cup {Small + SeedMod(Stride) + Stride * m : m \in 0..((TotalF - Small - 1 - SeedMod(Stride)) \div Stride)}
             \cup (TotalF..(TotalF + TotalE - 1))

(* v_lvl 0: root; 1: chunk; 2: a source chosen (v_idx = <<index, prefix length>>), lexer running *)
Init == v_lvl = 0 /\ v_idx = <<0, 0>> /\ v_st = InitLex(<<>>)
Src == SubSeq(FullSrc(v_idx[1]), 1, v_idx[2])
Next ==
  \/ /\ v_lvl = 0 /\ v_lvl' = 1 /\ \E c \in 0..63 : v_idx' = <<c, 0>> /\ UNCHANGED v_st
  \/ /\ v_lvl = 1 /\ v_lvl' = 2
     /\ \E j \in {q \in PickedIdx : q % 64 = v_idx[1]} : \E p \in PrefixLens(j) :
          /\ v_idx' = <<j, p>>
          /\ v_st' = InitLex(SubSeq(FullSrc(j), 1, p))
  \/ /\ v_lvl = 2 /\ v_st.fn # "stop" /\ v_st.steps <= 4 * Len(Src) + 8
     /\ v_st' = Step(Src, v_st) /\ UNCHANGED <<v_lvl, v_idx>>

Done == v_lvl = 2 /\ v_st.fn = "stop"
(* ---- invariants ---- *)
NoPanic == v_lvl = 2 => ~v_st.panic
CursorsInRange == v_lvl = 2 => CursorInRange(Src, v_st)
StepsBounded == v_lvl = 2 => v_st.steps <= 4 * Len(Src) + 8
ErrorLast == v_lvl = 2 => ErrorIsLast(v_st)
Ends == Done => EndsProperly(v_st)
Partition == Done => TokensPartitionSource(Src, v_st)
PositionsExact == Done => PosExact(Src, v_st)
Out == Done => PrintT(ToJson([id |-> "C01-" \o ToString(v_idx[1]) \o "-" \o ToString(v_idx[2]), k |-> "total", src |-> Src,
                              exp |-> [tokens |-> v_st.toks]]))
=============================================================================
