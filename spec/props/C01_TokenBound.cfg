INIT Init
NEXT Next
INVARIANTS TokenBound
