CONSTANTS Bal = 5
  Stride = 9
INIT Init
NEXT Next
INVARIANTS Out BalancedParses
