INIT Init
NEXT Next
INVARIANTS Out OneLevel
