--------------------------------- MODULE Vec ---------------------------------
(* Binding G: vectors printed by the *_Gen specifications, one JSON object per *)
(* case, replayed into the Go code by the harness.                             *)
EXTENDS Exec, Seed, Json

(* AST construction helpers *)
Text(s)      == [k |-> "text", d |-> S2B(s)]
TextB(b)     == [k |-> "text", d |-> b]
PrintS(x)    == [k |-> "print", x |-> x]
NameE(n)     == [k |-> "name", n |-> n]
NumE(q)      == [k |-> "num", q |-> q]
IntE(n)      == [k |-> "num", q |-> n * Scale]
StrE(s)      == [k |-> "str", s |-> S2B(s)]
NullE        == [k |-> "null"]
BoolE(b)     == [k |-> "bool", b |-> b]
Grp(x)       == [k |-> "group", x |-> x]
Bin(op, l, r) == [k |-> "bin", op |-> op, l |-> l, r |-> r]
Un(op, x)    == [k |-> "un", op |-> op, x |-> x]
Tern(c, t, f) == [k |-> "tern", c |-> c, t |-> t, f |-> f]
CallE(name, args) == [k |-> "call", name |-> name, args |-> args]
Pipe(x, name, args) == [k |-> "pipe", x |-> x, name |-> name, args |-> args]
TestE(x, neg, name, args) == [k |-> "test", x |-> x, neg |-> neg, name |-> name, args |-> args]
AttrDot(c, key) == [k |-> "attr", c |-> c, key |-> StrE(key), br |-> FALSE, args |-> <<>>, call |-> FALSE]
AttrCall(c, key, args) == [k |-> "attr", c |-> c, key |-> StrE(key), br |-> FALSE, args |-> args, call |-> TRUE]
AttrBr(c, key) == [k |-> "attr", c |-> c, key |-> key, br |-> TRUE, args |-> <<>>, call |-> FALSE]
ArrE(els)    == [k |-> "arr", els |-> els]
HashE(pairs) == [k |-> "hash", pairs |-> pairs]
Interp(parts) == [k |-> "interp", parts |-> parts]
SetS(n, x)   == [k |-> "set", name |-> n, x |-> x]
SetCap(n, body) == [k |-> "setcap", name |-> n, body |-> body]
DoS(x)       == [k |-> "do", x |-> x]
IfS(c, body, els, he) == [k |-> "if", branches |-> <<[c |-> c, body |-> body]>>, els |-> els, he |-> he]
IfChain(branches, els, he) == [k |-> "if", branches |-> branches, els |-> els, he |-> he]
ForS(kn, vn, x, cond, body, els, he) ==
  [k |-> "for", kn |-> kn, vn |-> vn, x |-> x, cond |-> cond, body |-> body, els |-> els, he |-> he]
BlockS(n, body) == [k |-> "block", name |-> n, body |-> body]
ExtendsS(x)  == [k |-> "extends", x |-> x]
UseS(x, aliases) == [k |-> "use", x |-> x, aliases |-> aliases]
IncludeS(x, with, only) == [k |-> "include", x |-> x, with |-> with, only |-> only]
EmbedS(x, with, only, blocks) == [k |-> "embed", x |-> x, with |-> with, only |-> only, blocks |-> blocks]
MacroS(n, params, body) == [k |-> "macro", name |-> n, params |-> params, body |-> body]
ImportS(x, alias) == [k |-> "import", x |-> x, alias |-> alias]
FromS(x, imports) == [k |-> "from", x |-> x, imports |-> imports]
FilterS(names, body) == [k |-> "filter", names |-> names, body |-> body]
CommentS(s)  == [k |-> "comment", d |-> S2B(s)]
VerbatimB(b) == [k |-> "verbatim", d |-> b]
Probe(k)     == PrintS(CallE("_p", <<k>>))

Tpl1(name, stmts) == (name :> stmts)

(* the vector for one render case and its reference behaviour *)
RenderVec(id, fam, tpls, entry, ctx, extra) ==
  LET S == Execute(tpls, entry, ctx) IN
  IF S.status = "oom" THEN [id |-> id, fam |-> fam, oom |-> TRUE]
  ELSE [id |-> id, fam |-> fam, k |-> "render", env |-> "core", tpls |-> tpls, entry |-> entry, ctx |-> ctx,
        x |-> extra,
        exp |-> [status |-> S.status, out |-> MainOut(S), log |-> Public(S.log)]]

Emit(v) == PrintT(ToJson(v))

(* NOTE (TLC): a state variable must never share its name with a bound identifier used anywhere in the
   modules it extends (i, j, k, n, s, ...): TLC's level analysis goes by name, treats every operator using
   that identifier as state-dependent and stops caching constant definitions (measured: 100x slower).
   State variables of the props modules are therefore named v_xxx.
   Enumeration skeleton shared by the *_Gen specifications: a two-level tree (chunk, case index) so that
   TLC's workers share the evaluation of the cases.  Picked is the set of case indices of the tier. *)
GenInit(lvl, i) == lvl = 0 /\ i = 0
GenNext(lvl, i, Picked, K) ==
  \/ lvl = 0 /\ lvl' = 1 /\ i' \in 0..(K - 1)
  \/ lvl = 1 /\ lvl' = 2 /\ i' \in {j \in Picked : j % K = i}

=============================================================================
