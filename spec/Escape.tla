------------------------------- MODULE Escape -------------------------------
(* The five escapers of twig/escape/escape.go as per-code-point            *)
(* substitutions (the *intended* design), the decoders of their target     *)
(* contexts, and the predicates of property C13:                           *)
(*   Inert(fn, out)      only characters that cannot alter the context     *)
(*   Lossless(fn,in,out) the context's standard decoder recovers the input *)
(*   PerChar             e(s \o t) = e(s) \o e(t)                          *)
(* The predicates are stated on *outputs*, independently of how an         *)
(* escaper produces them, so that they can judge both the reference        *)
(* escapers below (model checking) and outputs recorded from the Go code   *)
(* (trace validation).                                                     *)
EXTENDS Bytes, TLC

Fns == {"html", "html_attr", "js", "css", "url"}


AMP == 38  LT == 60  GT == 62  QUOT == 34  APOS == 39  BSL == 92  PCT == 37
SEMI == 59 HASH == 35

EntQuot == <<38,113,117,111,116,59>>      \* &quot;
EntAmp  == <<38,97,109,112,59>>           \* &amp;
EntLt   == <<38,108,116,59>>              \* &lt;
EntGt   == <<38,103,116,59>>              \* &gt;
EntApos39 == <<38,35,51,57,59>>           \* &#39;
EntFFFD == <<38,35,120,70,70,70,68,59>>   \* &#xFFFD;

--------------------------------------------------------------------------
(* Reference escapers (per code point).                                    *)

IsCc(c) == c <= 31 \/ (c >= 127 /\ c <= 159)

RefHTML(c) ==
  CASE c = 34 -> EntQuot [] c = 38 -> EntAmp [] c = 39 -> EntApos39
    [] c = 60 -> EntLt   [] c = 62 -> EntGt  [] OTHER -> Utf8(c)

AttrSafe(c) == (c < 128 /\ IsAlnumB(c)) \/ (c >= 44 /\ c <= 46) \/ c = 95
RefAttr(c) ==
  IF AttrSafe(c) THEN <<c>>
  ELSE CASE c = 34 -> EntQuot [] c = 38 -> EntAmp [] c = 60 -> EntLt [] c = 62 -> EntGt
         [] OTHER -> IF c <= 31 /\ c # 9 /\ c # 10 /\ c # 13 THEN EntFFFD
                     ELSE <<38, 35>> \o DecB(c) \o <<59>>

JsSafe(c) == (c < 128 /\ IsAlnumB(c)) \/ c = 44 \/ c = 46 \/ c = 95
JsU(u) == <<92, 117>> \o HexUPad(u, 4)
RefJS(c) ==
  IF JsSafe(c) THEN <<c>>
  ELSE IF c <= 65535 THEN JsU(c)
  ELSE LET v == c - 65536 IN JsU(55296 + (v \div 1024)) \o JsU(56320 + (v % 1024))

CssSafe(c) == c < 128 /\ IsAlnumB(c)
RefCSS(c) == IF CssSafe(c) THEN <<c>> ELSE <<92>> \o HexU(c) \o <<32>>

UrlSafeB(b) == IsAlnumB(b) \/ b = 45 \/ b = 46 \/ b = 95 \/ b = 126
RECURSIVE UrlBytes(_)
UrlBytes(bs) == IF bs = <<>> THEN <<>>
                ELSE (IF UrlSafeB(Head(bs)) THEN <<Head(bs)>> ELSE <<37>> \o HexUPad(Head(bs), 2))
                     \o UrlBytes(Tail(bs))
RefURL(c) == UrlBytes(Utf8(c))

(* Named defect variants (used only in negative configs).                  *)
Defect_JSFiveDigits(c)    == IF JsSafe(c) THEN <<c>> ELSE <<92, 117>> \o HexUPad(c, 4)
Defect_CSSNoTerminator(c) == IF CssSafe(c) THEN <<c>> ELSE <<92>> \o HexUPad(c, 4)

RefEsc(fn, c) ==
  CASE fn = "html" -> RefHTML(c) [] fn = "html_attr" -> RefAttr(c)
    [] fn = "js" -> RefJS(c) [] fn = "css" -> RefCSS(c) [] fn = "url" -> RefURL(c)
    [] fn = "js!5" -> Defect_JSFiveDigits(c) [] fn = "css!4" -> Defect_CSSNoTerminator(c)

RECURSIVE RefEscSeq(_, _)
RefEscSeq(fn, cs) == IF cs = <<>> THEN <<>> ELSE RefEsc(fn, Head(cs)) \o RefEscSeq(fn, Tail(cs))

BaseFn(fn) == CASE fn = "js!5" -> "js" [] fn = "css!4" -> "css" [] OTHER -> fn

--------------------------------------------------------------------------
(* Decoders of the target contexts, bytes -> bytes.                        *)

RECURSIVE DigitsEnd(_, _)      \* first index >= i holding a non-digit
DigitsEnd(s, i) == IF i <= Len(s) /\ IsDigitB(s[i]) THEN DigitsEnd(s, i + 1) ELSE i
RECURSIVE HexEnd(_, _, _)      \* first index >= i holding a non-hex byte, at most max digits
HexEnd(s, i, max) == IF max > 0 /\ i <= Len(s) /\ IsHexB(s[i]) THEN HexEnd(s, i + 1, max - 1) ELSE i
RECURSIVE AlnumEnd(_, _)
AlnumEnd(s, i) == IF i <= Len(s) /\ IsAlnumB(s[i]) THEN AlnumEnd(s, i + 1) ELSE i

Cap == 2000000   \* numeric references larger than this are "out of range" anyway
RECURSIVE DecVal(_, _, _, _)
DecVal(s, i, j, acc) == IF i >= j THEN acc
                        ELSE DecVal(s, i + 1, j, IF acc > Cap THEN acc ELSE acc * 10 + (s[i] - 48))
RECURSIVE HexValSeq(_, _, _, _)
HexValSeq(s, i, j, acc) == IF i >= j THEN acc
                           ELSE HexValSeq(s, i + 1, j, IF acc > Cap THEN acc ELSE acc * 16 + HexVal(s[i]))

(* What an HTML parser makes of the numeric character reference v.         *)
HtmlNumRef(v) == IF v = 0 \/ v > 1114111 \/ IsSurrogate(v) THEN Utf8(65533)
                 ELSE IF v >= 128 /\ v <= 159 THEN <<255>>   \* remapped (windows-1252): never the input
                 ELSE Utf8(v)

(* Entity starting at s[i] = '&': <<decoded bytes, index after>> or <<>>.   *)
HtmlEntity(s, i) ==
  IF HasPrefixAt(s, i, EntAmp) THEN <<<<38>>, i + 5>>
  ELSE IF HasPrefixAt(s, i, EntLt) THEN <<<<60>>, i + 4>>
  ELSE IF HasPrefixAt(s, i, EntGt) THEN <<<<62>>, i + 4>>
  ELSE IF HasPrefixAt(s, i, EntQuot) THEN <<<<34>>, i + 6>>
  ELSE IF HasPrefixAt(s, i, <<38,97,112,111,115,59>>) THEN <<<<39>>, i + 6>>
  ELSE IF HasPrefixAt(s, i, <<38, 35>>) THEN
    IF i + 2 <= Len(s) /\ (s[i+2] = 120 \/ s[i+2] = 88) THEN
      LET j == HexEnd(s, i + 3, 8) IN
      IF j > i + 3 /\ j <= Len(s) /\ s[j] = 59 THEN <<HtmlNumRef(HexValSeq(s, i + 3, j, 0)), j + 1>> ELSE <<>>
    ELSE
      LET j == DigitsEnd(s, i + 2) IN
      IF j > i + 2 /\ j - (i + 2) <= 9 /\ j <= Len(s) /\ s[j] = 59
      THEN <<HtmlNumRef(DecVal(s, i + 2, j, 0)), j + 1>> ELSE <<>>
  ELSE <<>>

RECURSIVE DecHTMLFrom(_, _)
DecHTMLFrom(s, i) ==
  IF i > Len(s) THEN <<>>
  ELSE IF s[i] = 38 THEN
    LET e == HtmlEntity(s, i) IN
    IF e = <<>> THEN <<38>> \o DecHTMLFrom(s, i + 1) ELSE e[1] \o DecHTMLFrom(s, e[2])
  ELSE <<s[i]>> \o DecHTMLFrom(s, i + 1)
DecHTML(s) == DecHTMLFrom(s, 1)

(* JavaScript string literal contents -> UTF-16 code units -> bytes.       *)
JsShort == [x \in {92, 47, 39, 34} |-> x] @@ (98 :> 8) @@ (102 :> 12) @@ (110 :> 10)
           @@ (114 :> 13) @@ (116 :> 9) @@ (118 :> 11) @@ (48 :> 0)
Is4Hex(s, i) == i + 3 <= Len(s) /\ IsHexB(s[i]) /\ IsHexB(s[i+1]) /\ IsHexB(s[i+2]) /\ IsHexB(s[i+3])

RECURSIVE JsUnits(_, _)      \* sequence of UTF-16 code units (ASCII/raw bytes kept as units < 256 are
JsUnits(s, i) ==             \* only ever ASCII here; raw non-ASCII bytes are carried as 1000000 + b)
  IF i > Len(s) THEN <<>>
  ELSE IF s[i] # 92 THEN <<(IF s[i] < 128 THEN s[i] ELSE 1000000 + s[i])>> \o JsUnits(s, i + 1)
  ELSE IF i + 1 > Len(s) THEN <<92>>
  ELSE IF s[i+1] = 117 /\ Is4Hex(s, i + 2) THEN <<HexValSeq(s, i + 2, i + 6, 0)>> \o JsUnits(s, i + 6)
  ELSE IF s[i+1] = 117 /\ i + 2 <= Len(s) /\ s[i+2] = 123 THEN
       LET j == HexEnd(s, i + 3, 6) IN
       IF j > i + 3 /\ j <= Len(s) /\ s[j] = 125
       THEN LET v == HexValSeq(s, i + 3, j, 0) IN
            (IF v > 65535 /\ v <= 1114111
             THEN <<55296 + ((v - 65536) \div 1024), 56320 + ((v - 65536) % 1024)>> ELSE <<v % 65536>>)
            \o JsUnits(s, j + 1)
       ELSE <<117>> \o JsUnits(s, i + 2)
  ELSE IF s[i+1] = 120 /\ i + 3 <= Len(s) /\ IsHexB(s[i+2]) /\ IsHexB(s[i+3])
       THEN <<HexValSeq(s, i + 2, i + 4, 0)>> \o JsUnits(s, i + 4)
  ELSE IF s[i+1] \in DOMAIN JsShort THEN <<JsShort[s[i+1]]>> \o JsUnits(s, i + 2)
  ELSE JsUnits(s, i + 1)     \* \c = c for any other c

RECURSIVE UnitsToBytes(_)
UnitsToBytes(u) ==
  IF u = <<>> THEN <<>>
  ELSE LET h == Head(u) IN
    IF h >= 1000000 THEN <<h - 1000000>> \o UnitsToBytes(Tail(u))
    ELSE IF h >= 55296 /\ h <= 56319 /\ Len(u) >= 2 /\ u[2] >= 56320 /\ u[2] <= 57343
      THEN Utf8(65536 + (h - 55296) * 1024 + (u[2] - 56320)) \o UnitsToBytes(Tail(Tail(u)))
    ELSE IF IsSurrogate(h) THEN Utf8(65533) \o UnitsToBytes(Tail(u))
    ELSE Utf8(h) \o UnitsToBytes(Tail(u))
DecJS(s) == UnitsToBytes(JsUnits(s, 1))

(* CSS: backslash, 1-6 hex digits, one optional white space.               *)
IsCssWs(b) == b = 32 \/ b = 9 \/ b = 10 \/ b = 12 \/ b = 13
CssCp(v) == IF v = 0 \/ v > 1114111 \/ IsSurrogate(v) THEN Utf8(65533) ELSE Utf8(v)
RECURSIVE DecCSSFrom(_, _)
DecCSSFrom(s, i) ==
  IF i > Len(s) THEN <<>>
  ELSE IF s[i] # 92 THEN <<s[i]>> \o DecCSSFrom(s, i + 1)
  ELSE IF i + 1 > Len(s) THEN Utf8(65533)
  ELSE IF IsHexB(s[i+1]) THEN
    LET j == HexEnd(s, i + 1, 6)
        k == IF j <= Len(s) /\ IsCssWs(s[j])
             THEN (IF s[j] = 13 /\ j + 1 <= Len(s) /\ s[j+1] = 10 THEN j + 2 ELSE j + 1) ELSE j
    IN CssCp(HexValSeq(s, i + 1, j, 0)) \o DecCSSFrom(s, k)
  ELSE IF s[i+1] = 10 \/ s[i+1] = 12 \/ s[i+1] = 13 THEN DecCSSFrom(s, i + 2)   \* line continuation
  ELSE <<s[i+1]>> \o DecCSSFrom(s, i + 2)
DecCSS(s) == DecCSSFrom(s, 1)

RECURSIVE DecURLFrom(_, _)
DecURLFrom(s, i) ==
  IF i > Len(s) THEN <<>>
  ELSE IF s[i] = 37 /\ i + 2 <= Len(s) /\ IsHexB(s[i+1]) /\ IsHexB(s[i+2])
    THEN <<HexVal(s[i+1]) * 16 + HexVal(s[i+2])>> \o DecURLFrom(s, i + 3)
  ELSE IF s[i] = 43 THEN <<32>> \o DecURLFrom(s, i + 1)        \* '+' is a blank in a query string
  ELSE <<s[i]>> \o DecURLFrom(s, i + 1)
DecURL(s) == DecURLFrom(s, 1)

Decode(fn, s) ==
  CASE fn = "html" -> DecHTML(s) [] fn = "html_attr" -> DecHTML(s)
    [] fn = "js" -> DecJS(s) [] fn = "css" -> DecCSS(s) [] fn = "url" -> DecURL(s)

--------------------------------------------------------------------------
(* Inertness.                                                              *)

HtmlAmpOK(s, i) ==
  \/ HasPrefixAt(s, i, EntAmp) \/ HasPrefixAt(s, i, EntLt) \/ HasPrefixAt(s, i, EntGt)
  \/ HasPrefixAt(s, i, EntQuot) \/ HasPrefixAt(s, i, EntApos39)
  \/ HasPrefixAt(s, i, <<38,35,48,51,57,59>>)          \* &#039;
  \/ HasPrefixAt(s, i, <<38,35,120,50,55,59>>)         \* &#x27;
  \/ HasPrefixAt(s, i, <<38,97,112,111,115,59>>)       \* &apos;
InertHTML(s) == \A i \in 1..Len(s) :
  /\ s[i] \notin {60, 62, 34, 39}
  /\ s[i] = 38 => HtmlAmpOK(s, i)

(* index after the entity starting at i, or 0 *)
AttrEntityEnd(s, i) ==
  IF i + 1 > Len(s) THEN 0
  ELSE IF s[i+1] = 35 THEN
    IF i + 2 <= Len(s) /\ (s[i+2] = 120 \/ s[i+2] = 88)
    THEN LET j == HexEnd(s, i + 3, 8) IN IF j > i + 3 /\ j <= Len(s) /\ s[j] = 59 THEN j + 1 ELSE 0
    ELSE LET j == DigitsEnd(s, i + 2) IN IF j > i + 2 /\ j <= Len(s) /\ s[j] = 59 THEN j + 1 ELSE 0
  ELSE LET j == AlnumEnd(s, i + 1) IN IF j > i + 1 /\ j <= Len(s) /\ s[j] = 59 THEN j + 1 ELSE 0
RECURSIVE InertAttrFrom(_, _)
InertAttrFrom(s, i) ==
  IF i > Len(s) THEN TRUE
  ELSE IF AttrSafe(s[i]) THEN InertAttrFrom(s, i + 1)
  ELSE IF s[i] = 38 THEN LET j == AttrEntityEnd(s, i) IN j # 0 /\ InertAttrFrom(s, j)
  ELSE FALSE

JsEscEnd(s, i) ==     \* s[i] = '\' : index after the escape sequence, or 0
  IF i + 1 > Len(s) THEN 0
  ELSE IF s[i+1] = 117 /\ Is4Hex(s, i + 2) THEN i + 6
  ELSE IF s[i+1] = 120 /\ i + 3 <= Len(s) /\ IsHexB(s[i+2]) /\ IsHexB(s[i+3]) THEN i + 4
  ELSE IF s[i+1] \in {92, 47, 98, 102, 110, 114, 116} THEN i + 2
  ELSE 0
RECURSIVE InertJSFrom(_, _)
InertJSFrom(s, i) ==
  IF i > Len(s) THEN TRUE
  ELSE IF JsSafe(s[i]) THEN InertJSFrom(s, i + 1)
  ELSE IF s[i] = 92 THEN LET j == JsEscEnd(s, i) IN j # 0 /\ InertJSFrom(s, j)
  ELSE FALSE

RECURSIVE InertCSSFrom(_, _)
InertCSSFrom(s, i) ==
  IF i > Len(s) THEN TRUE
  ELSE IF CssSafe(s[i]) THEN InertCSSFrom(s, i + 1)
  ELSE IF s[i] = 92 THEN
    LET j == HexEnd(s, i + 1, 6) IN
    j > i + 1 /\ InertCSSFrom(s, IF j <= Len(s) /\ s[j] = 32 THEN j + 1 ELSE j)
  ELSE FALSE

RECURSIVE InertURLFrom(_, _)
InertURLFrom(s, i) ==
  IF i > Len(s) THEN TRUE
  ELSE IF UrlSafeB(s[i]) THEN InertURLFrom(s, i + 1)
  ELSE IF s[i] = 37 THEN i + 2 <= Len(s) /\ IsHexB(s[i+1]) /\ IsHexB(s[i+2]) /\ InertURLFrom(s, i + 3)
  ELSE FALSE

Inert(fn, s) ==
  CASE fn = "html" -> InertHTML(s) [] fn = "html_attr" -> InertAttrFrom(s, 1)
    [] fn = "js" -> InertJSFrom(s, 1) [] fn = "css" -> InertCSSFrom(s, 1) [] fn = "url" -> InertURLFrom(s, 1)

--------------------------------------------------------------------------
(* Losslessness on valid UTF-8 input `in` (a byte sequence).               *)
HasCc(cs) == \E k \in 1..Len(cs) : IsCc(cs[k])
ValidUtf8(in) == Utf8Seq(Runes(in)) = in

(* the statement itself: no exemption beyond the two it names (invalid UTF-8; html_attr's control characters).  U+0000 under css
   violates it whatever the escaper does - CSS has no way to write U+0000, \0 decodes to U+FFFD - which the trace acceptor reports
   (a recorded known finding) and the reference model sets aside *)
LosslessStrict(fn, in, out) ==
  \/ ~ValidUtf8(in)
  \/ (fn = "html_attr" /\ HasCc(Runes(in)))       \* replaced deliberately (statement)
  \/ Decode(fn, out) = in
Lossless(fn, in, out) ==
  \/ (fn = "css" /\ \E k \in 1..Len(in) : in[k] = 0) \* CSS cannot represent U+0000 at all (\0 decodes to U+FFFD)
  \/ LosslessStrict(fn, in, out)
=============================================================================
