------------------------------- MODULE Parser -------------------------------
(* The statement and expression parser (parse/parse.go, parse_expr.go,        *)
(* parse_tag.go) as a function from the token stream of Lexer.tla to the AST  *)
(* of Exec.tla: recursive descent shaped like the code, one operator per      *)
(* parse function.  With it the specification covers the whole pipeline       *)
(*      bytes --Lexer--> tokens --Parser--> tree --Exec--> output             *)
(* so that RenderSrc(sources, entry, ctx) is defined on BYTES, without the    *)
(* harness's unparser.                                                        *)
(*                                                                            *)
(* Every operator returns [ok, p, n]: success, the index of the next token    *)
(* to read (white-space tokens are skipped where the code calls               *)
(* nextNonSpace / peekNonSpace, and NOT skipped where it calls next / peek:   *)
(* the decimal point of a number literal), and the node.  On failure p is the *)
(* index of the offending token (C20: "the error is located at that token").  *)
(*                                                                            *)
(* The parser accepts what the language defines; where parse_tag.go is more   *)
(* lenient (any name for "in", any punctuation for "=", junk between the      *)
(* blocks of an embed body) this parser follows the language for "in"/"=" and *)
(* the code for the embed body, which Twig ignores as well.                   *)
(* Not modelled: the bound of 10000 levels the real parser puts on the nesting of expressions and elseif chains (a longer
   flat run is a syntax error there); every source of the families is far below it.  C01's flat-run cases exercise it. *)
EXTENDS Vec, Syntax

LX == INSTANCE Lexer

POk(p, n) == [ok |-> TRUE, p |-> p, n |-> n]
PErr(p) == [ok |-> FALSE, p |-> p, n |-> <<>>]

RECURSIVE NS(_, _)
NS(ts, p) == IF p < Len(ts) /\ ts[p].typ = "WHITESPACE" THEN NS(ts, p + 1) ELSE p      \* the last token is EOF or ERROR
IsP(ts, p, v) == ts[p].typ = "PUNCTUATION" /\ ts[p].val = S2B(v)
IsNm(ts, p, v) == ts[p].typ = "NAME" /\ ts[p].val = S2B(v)
IsWord(ts, p, v) == ts[p].typ \in {"NAME", "OPERATOR"} /\ ts[p].val = S2B(v)
Pos(ts, p) == <<ts[p].line, ts[p].col>>

(* number literal: integer part and optional fraction, exact on the fixed-point grid or out of model *)
NumLit(ip, fp) ==
  LET v == StrToNum(IF fp = <<>> THEN ip ELSE ip \o <<46>> \o fp) IN
  IF IsOOM(v) THEN [k |-> "numoom"] ELSE NumE(v.q)
Reserved == {"null", "NULL", "none", "NONE", "true", "TRUE", "false", "FALSE"}

RECURSIVE PExprT(_, _), PBin(_, _, _), PBinLoop(_, _, _, _), PInner(_, _), POuter(_, _, _), PArgs(_, _, _), PTest(_, _),
          PList(_, _, _), PPairs(_, _, _), PStr(_, _, _)

(* parseExpr: a binary chain, then at most one conditional whose branches are expressions again *)
PExprT(ts, p0) ==
  LET c == PBin(ts, p0, 0) IN
  IF ~c.ok THEN c
  ELSE LET q == NS(ts, c.p) IN
       IF ~IsP(ts, q, "?") THEN c
       ELSE LET t == PExprT(ts, q + 1) IN
            IF ~t.ok THEN t
            ELSE LET q2 == NS(ts, t.p) IN
                 IF ~IsP(ts, q2, ":") THEN PErr(q2)
                 ELSE LET f == PExprT(ts, q2 + 1) IN
                      IF ~f.ok THEN f ELSE POk(f.p, Tern(c.n, t.n, f.n))

(* parseBinaryExpr: an operand with its postfix forms, then operators of precedence >= minp *)
PBin(ts, p0, minp) ==
  LET i == PInner(ts, p0) IN
  IF ~i.ok THEN i
  ELSE LET o == POuter(ts, i.p, i.n) IN
       IF ~o.ok THEN o ELSE PBinLoop(ts, o.p, o.n, minp)
PBinLoop(ts, p0, left, minp) ==
  LET q == NS(ts, p0) IN
  IF ts[q].typ # "OPERATOR" THEN POk(p0, left)
  ELSE LET op == B2S(ts[q].val) IN
       IF op \notin BinOpNames THEN PErr(q)
       ELSE IF Prec(op) < minp THEN POk(p0, left)
       ELSE IF op \in {"is", "is not"} THEN
            LET t == PTest(ts, q + 1) IN
            IF ~t.ok THEN t ELSE PBinLoop(ts, t.p, TestE(left, op = "is not", t.n.name, t.n.args), minp)
       ELSE LET r == PBin(ts, q + 1, IF LeftAssoc(op) THEN Prec(op) + 1 ELSE Prec(op)) IN
            IF ~r.ok THEN r ELSE PBinLoop(ts, r.p, Bin(op, left, r.n), minp)

(* parseRightTestOperand: a test is named by one or two words, the last of which may carry arguments *)
PTest(ts, p0) ==
  LET a == PInner(ts, p0) IN
  IF ~a.ok THEN a
  ELSE IF a.n.k = "name" /\ ts[NS(ts, a.p)].typ = "NAME" THEN
       LET b == PInner(ts, a.p) IN
       IF ~b.ok THEN b
       ELSE IF b.n.k = "name" THEN POk(b.p, [name |-> a.n.n \o " " \o b.n.n, args |-> <<>>])
       ELSE IF b.n.k = "call" THEN POk(b.p, [name |-> a.n.n \o " " \o b.n.name, args |-> b.n.args])
       ELSE PErr(NS(ts, a.p))
  ELSE IF a.n.k = "name" THEN POk(a.p, [name |-> a.n.n, args |-> <<>>])
  ELSE IF a.n.k = "call" THEN POk(a.p, [name |-> a.n.name, args |-> a.n.args])
  ELSE PErr(NS(ts, p0))

(* parseInnerExpr *)
PInner(ts, p0) ==
  LET q == NS(ts, p0)
      tk == ts[q] IN
  CASE tk.typ = "OPERATOR" ->
         LET op == B2S(tk.val) IN
         IF op \notin DOMAIN UnTable THEN PErr(q)
         ELSE LET r == PBin(ts, q + 1, UnTable[op]) IN IF ~r.ok THEN r ELSE POk(r.p, Un(op, r.n))
    [] tk.typ = "PARENS_OPEN" ->
         LET r == PExprT(ts, q + 1) IN
         IF ~r.ok THEN r
         ELSE LET c == NS(ts, r.p) IN IF ts[c].typ # "PARENS_CLOSE" THEN PErr(c) ELSE POk(c + 1, Grp(r.n))
    [] tk.typ = "HASH_OPEN" -> PPairs(ts, q + 1, <<>>)
    [] tk.typ = "ARRAY_OPEN" -> PList(ts, q + 1, <<>>)
    [] tk.typ = "NUMBER" ->
         (* a decimal is NUMBER "." NUMBER, white space between them or not; a "." followed by anything else is left to the
            caller (it begins an attribute access: a.0.b) *)
         LET d == NS(ts, q + 1)
             f == NS(ts, d + 1) IN
         IF IsP(ts, d, ".") /\ ts[f].typ = "NUMBER" THEN POk(f + 1, NumLit(tk.val, ts[f].val))
         ELSE POk(q + 1, NumLit(tk.val, <<>>))
    [] tk.typ = "NAME" ->
         LET nm == B2S(tk.val) IN
         IF nm \in {"null", "NULL", "none", "NONE"} THEN POk(q + 1, NullE)
         ELSE IF nm \in {"true", "TRUE"} THEN POk(q + 1, BoolE(TRUE))
         ELSE IF nm \in {"false", "FALSE"} THEN POk(q + 1, BoolE(FALSE))
         ELSE LET c == NS(ts, q + 1) IN
              IF ts[c].typ = "PARENS_OPEN"
              THEN LET a == PArgs(ts, c + 1, <<>>) IN IF ~a.ok THEN a ELSE POk(a.p, CallE(nm, a.n))
              ELSE POk(q + 1, NameE(nm))
    [] tk.typ = "STRING_OPEN" -> PStr(ts, q + 1, <<>>)
    [] OTHER -> PErr(q)

(* parseFunc: arguments up to the closing parenthesis; a trailing comma is accepted *)
PArgs(ts, p0, acc) ==
  LET q == NS(ts, p0) IN
  IF ts[q].typ \in {"EOF", "ERROR"} THEN PErr(q)
  ELSE IF ts[q].typ = "PARENS_CLOSE" THEN POk(q + 1, acc)
  ELSE LET a == PExprT(ts, q) IN
       IF ~a.ok THEN a
       ELSE LET c == NS(ts, a.p) IN
            IF ts[c].typ = "PARENS_CLOSE" THEN POk(c + 1, Append(acc, a.n))
            ELSE IF IsP(ts, c, ",") THEN PArgs(ts, c + 1, Append(acc, a.n))
            ELSE PErr(c)

(* array literal: elements, a comma after an element is optional *)
PList(ts, p0, acc) ==
  LET q == NS(ts, p0) IN
  IF ts[q].typ = "ARRAY_CLOSE" THEN POk(q + 1, ArrE(acc))
  ELSE LET e == PExprT(ts, q) IN
       IF ~e.ok THEN e
       ELSE LET c == NS(ts, e.p) IN
            IF ts[c].typ = "PUNCTUATION" THEN (IF IsP(ts, c, ",") THEN PList(ts, c + 1, Append(acc, e.n)) ELSE PErr(c))
            ELSE PList(ts, e.p, Append(acc, e.n))
(* hash literal: key : value pairs *)
PPairs(ts, p0, acc) ==
  LET q == NS(ts, p0) IN
  IF ts[q].typ = "HASH_CLOSE" THEN POk(q + 1, HashE(acc))
  ELSE LET kx == PExprT(ts, q) IN
       IF ~kx.ok THEN kx
       ELSE LET c == NS(ts, kx.p) IN
            IF ~IsP(ts, c, ":") THEN PErr(c)
            ELSE LET vx == PExprT(ts, c + 1) IN
                 IF ~vx.ok THEN vx
                 ELSE LET d == NS(ts, vx.p) IN
                      IF ts[d].typ = "PUNCTUATION" THEN (IF IsP(ts, d, ",") THEN PPairs(ts, d + 1, Append(acc, <<kx.n, vx.n>>)) ELSE PErr(d))
                      ELSE PPairs(ts, vx.p, Append(acc, <<kx.n, vx.n>>))

(* string literal: text runs and interpolated expressions up to the closing quote *)
PStr(ts, p0, parts) ==
  LET q == NS(ts, p0) IN
  CASE ts[q].typ = "TEXT" -> PStr(ts, q + 1, Append(parts, [k |-> "str", s |-> ts[q].val]))
    [] ts[q].typ = "INTERPOLATE_OPEN" ->
         LET e == PExprT(ts, q + 1) IN
         IF ~e.ok THEN e
         ELSE LET c == NS(ts, e.p) IN
              IF ts[c].typ # "INTERPOLATE_CLOSE" THEN PErr(c) ELSE PStr(ts, c + 1, Append(parts, e.n))
    [] ts[q].typ = "STRING_CLOSE" ->
         POk(q + 1, IF parts = <<>> THEN [k |-> "str", s |-> <<>>] ELSE IF Len(parts) = 1 THEN parts[1] ELSE Interp(parts))
    [] OTHER -> PErr(q)

(* parseOuterExpr: attribute access, subscripts, method calls and filters bind tighter than any operator *)
POuter(ts, p0, e) ==
  LET q == NS(ts, p0)
      tk == ts[q] IN
  IF tk.typ = "PARENS_OPEN" THEN PErr(q)                      \* only a name can be called, and that was decided in PInner
  ELSE IF tk.typ = "ARRAY_OPEN" THEN
       LET kx == PExprT(ts, q + 1) IN
       IF ~kx.ok THEN kx
       ELSE LET c == NS(ts, kx.p) IN
            IF ts[c].typ # "ARRAY_CLOSE" THEN PErr(c) ELSE POuter(ts, c + 1, AttrBr(e, kx.n))
  ELSE IF IsP(ts, q, ".") THEN
       LET a == NS(ts, q + 1) IN
       IF ts[a].typ = "NAME" /\ B2S(ts[a].val) \notin Reserved THEN
            LET c == NS(ts, a + 1) IN
            IF ts[c].typ = "PARENS_OPEN"
            THEN LET ar == PArgs(ts, c + 1, <<>>) IN
                 IF ~ar.ok THEN ar ELSE POuter(ts, ar.p, AttrCall(e, B2S(ts[a].val), ar.n))
            ELSE POuter(ts, a + 1, AttrDot(e, B2S(ts[a].val)))
       ELSE IF ts[a].typ = "NUMBER" /\ ~IsP(ts, a + 1, ".") THEN POuter(ts, a + 1, AttrDot(e, B2S(ts[a].val)))
       ELSE PErr(q)
  ELSE IF IsP(ts, q, "|") THEN
       LET f == PInner(ts, q + 1) IN
       IF ~f.ok THEN f
       ELSE IF f.n.k = "name" THEN POuter(ts, f.p, Pipe(e, f.n.n, <<>>))
       ELSE IF f.n.k = "call" THEN POuter(ts, f.p, Pipe(e, f.n.name, f.n.args))
       ELSE PErr(q)
  ELSE POk(p0, e)

--------------------------------------------------------------------------
(* Statements.                                                             *)
RECURSIVE PStmt(_, _), PBody(_, _, _, _), PTag(_, _), PIfRest(_, _, _), PEmbedBody(_, _, _), PNames(_, _, _, _), PUseAliases(_, _, _),
          PFromImports(_, _, _), PVerb(_, _, _), PFilterNames(_, _, _)

(* expect a closing %} (skipping white space): index after it, or 0 *)
AfterClose(ts, p) == LET q == NS(ts, p) IN IF ts[q].typ = "TAG_CLOSE" THEN q + 1 ELSE 0
CloseErr(ts, p) == PErr(NS(ts, p))

(* parse(): one node, or the marker "eof" *)
PStmt(ts, p0) ==
  LET q == NS(ts, p0)
      tk == ts[q] IN
  CASE tk.typ = "TEXT" -> POk(q + 1, TextB(tk.val))
    [] tk.typ = "PRINT_OPEN" ->
         LET e == PExprT(ts, q + 1) IN
         IF ~e.ok THEN e
         ELSE LET c == NS(ts, e.p) IN IF ts[c].typ # "PRINT_CLOSE" THEN PErr(c) ELSE POk(c + 1, PrintS(e.n))
    [] tk.typ = "TAG_OPEN" -> PTag(ts, q + 1)
    [] tk.typ = "COMMENT_OPEN" ->
         LET a == NS(ts, q + 1) IN
         IF ts[a].typ # "TEXT" THEN PErr(a)
         ELSE LET c == NS(ts, a + 1) IN
              IF ts[c].typ # "COMMENT_CLOSE" THEN PErr(c) ELSE POk(c + 1, [k |-> "comment", d |-> ts[a].val])
    [] tk.typ = "EOF" -> POk(q, [k |-> "eof"])
    [] OTHER -> PErr(q)

(* parseUntilTag: nodes up to a tag whose name is in ends; returns the nodes, the end tag's name, and the index after that name *)
PBody(ts, p0, ends, acc) ==
  IF ts[p0].typ = "EOF" \/ ts[p0].typ = "ERROR" THEN PErr(p0)
  ELSE IF ts[p0].typ = "TAG_OPEN" /\ ts[NS(ts, p0 + 1)].typ = "NAME" /\ B2S(ts[NS(ts, p0 + 1)].val) \in ends
       THEN POk(NS(ts, p0 + 1) + 1, [body |-> acc, tag |-> B2S(ts[NS(ts, p0 + 1)].val)])
  ELSE LET s == PStmt(ts, p0) IN
       IF ~s.ok THEN s
       ELSE IF s.n.k = "eof" THEN PErr(s.p)
       ELSE PBody(ts, s.p, ends, Append(acc, s.n))
(* body up to {% end<name> %} *)
BodyTo(ts, p0, endname) ==
  LET b == PBody(ts, p0, {endname}, <<>>) IN
  IF ~b.ok THEN b
  ELSE LET c == AfterClose(ts, b.p) IN IF c = 0 THEN CloseErr(ts, b.p) ELSE POk(c, b.n.body)

(* the rest of an if after its condition's %}: body, then else / elseif / endif *)
PIfRest(ts, p0, cond) ==
  LET b == PBody(ts, p0, {"else", "elseif", "endif"}, <<>>) IN
  IF ~b.ok THEN b
  ELSE CASE b.n.tag = "endif" ->
              LET c == AfterClose(ts, b.p) IN
              IF c = 0 THEN CloseErr(ts, b.p) ELSE POk(c, IfChain(<<[c |-> cond, body |-> b.n.body]>>, <<>>, FALSE))
         [] b.n.tag = "else" ->
              LET c == AfterClose(ts, b.p) IN
              IF c = 0 THEN CloseErr(ts, b.p)
              ELSE LET e == BodyTo(ts, c, "endif") IN
                   IF ~e.ok THEN e ELSE POk(e.p, IfChain(<<[c |-> cond, body |-> b.n.body]>>, e.n, TRUE))
         [] OTHER ->       \* elseif: the rest is an if of its own, whose branches continue this chain
              LET cx == PExprT(ts, b.p) IN
              IF ~cx.ok THEN cx
              ELSE LET c == AfterClose(ts, cx.p) IN
                   IF c = 0 THEN CloseErr(ts, cx.p)
                   ELSE LET r == PIfRest(ts, c, cx.n) IN
                        IF ~r.ok THEN r
                        ELSE POk(r.p, IfChain(<<[c |-> cond, body |-> b.n.body]>> \o r.n.branches, r.n.els, r.n.he))

(* {% include x [with h] [only] %} : the parameters; returns [x, with, only] *)
IncParams(ts, p0) ==
  LET x == PExprT(ts, p0) IN
  IF ~x.ok THEN x
  ELSE LET q == NS(ts, x.p) IN
       IF ts[q].typ = "TAG_CLOSE" THEN POk(q + 1, [x |-> x.n, with |-> NoE, only |-> FALSE])
       ELSE IF IsNm(ts, q, "only") THEN
            (LET c == AfterClose(ts, q + 1) IN IF c = 0 THEN CloseErr(ts, q + 1) ELSE POk(c, [x |-> x.n, with |-> NoE, only |-> TRUE]))
       ELSE IF IsNm(ts, q, "with") THEN
            LET w == PExprT(ts, q + 1) IN
            IF ~w.ok THEN w
            ELSE LET r == NS(ts, w.p) IN
                 IF ts[r].typ = "TAG_CLOSE" THEN POk(r + 1, [x |-> x.n, with |-> w.n, only |-> FALSE])
                 ELSE IF IsNm(ts, r, "only") THEN
                      (LET c == AfterClose(ts, r + 1) IN IF c = 0 THEN CloseErr(ts, r + 1) ELSE POk(c, [x |-> x.n, with |-> w.n, only |-> TRUE]))
                 ELSE PErr(r)
       ELSE PErr(q)

(* the body of an embed: blocks up to endembed; anything else between them is ignored *)
PEmbedBody(ts, p0, acc) ==
  LET q == NS(ts, p0) IN
  IF ts[q].typ \in {"EOF", "ERROR"} THEN PErr(q)
  ELSE IF ts[q].typ = "TEXT" THEN PEmbedBody(ts, q + 1, acc)
  (* a print or a comment between the blocks is not part of the embed, but it is source: it has to be well formed *)
  ELSE IF ts[q].typ # "TAG_OPEN" THEN (LET st == PStmt(ts, q) IN IF ~st.ok THEN st ELSE PEmbedBody(ts, st.p, acc))
  ELSE LET a == NS(ts, q + 1) IN
       IF ts[a].typ # "NAME" THEN PErr(a)
       ELSE IF IsNm(ts, a, "endembed") THEN
            (LET c == AfterClose(ts, a + 1) IN IF c = 0 THEN CloseErr(ts, a + 1) ELSE POk(c, acc))
       ELSE IF IsNm(ts, a, "block") THEN
            LET nm == NS(ts, a + 1) IN
            IF ts[nm].typ # "NAME" THEN PErr(nm)
            ELSE LET c == AfterClose(ts, nm + 1) IN
                 IF c = 0 THEN CloseErr(ts, nm + 1)
                 ELSE LET b == BodyTo(ts, c, "endblock") IN
                      IF ~b.ok THEN b ELSE PEmbedBody(ts, b.p, Append(acc, [name |-> B2S(ts[nm].val), body |-> b.n]))
       ELSE PErr(a)

(* name lists: macro parameters  ( a , b )  *)
PNames(ts, p0, acc, closer) ==
  LET q == NS(ts, p0) IN
  IF ts[q].typ = "NAME" THEN PNames(ts, q + 1, Append(acc, B2S(ts[q].val)), closer)
  ELSE IF IsP(ts, q, ",") THEN PNames(ts, q + 1, acc, closer)
  ELSE IF ts[q].typ = closer THEN POk(q + 1, acc)
  ELSE PErr(q)
(* use ... with a as b, c as d %} *)
PUseAliases(ts, p0, acc) ==
  LET a == NS(ts, p0) IN
  IF ts[a].typ # "NAME" THEN PErr(a)
  ELSE LET b == NS(ts, a + 1) IN
       IF ~IsNm(ts, b, "as") THEN PErr(b)
       ELSE LET c == NS(ts, b + 1) IN
            IF ts[c].typ # "NAME" THEN PErr(c)
            ELSE LET d == NS(ts, c + 1)
                     acc2 == Append(acc, <<B2S(ts[a].val), B2S(ts[c].val)>>) IN
                 IF ts[d].typ = "TAG_CLOSE" THEN POk(d + 1, acc2)
                 ELSE IF IsP(ts, d, ",") THEN PUseAliases(ts, d + 1, acc2)
                 ELSE PErr(d)
(* from x import a [as b] , c ... %} *)
PFromImports(ts, p0, acc) ==
  LET a == NS(ts, p0) IN
  IF ts[a].typ = "TAG_CLOSE" THEN POk(a + 1, acc)
  ELSE IF IsP(ts, a, ",") THEN PFromImports(ts, a + 1, acc)
  ELSE IF ts[a].typ = "NAME" THEN
       LET b == NS(ts, a + 1) IN
       IF ts[b].typ = "NAME" THEN
            (IF ~IsNm(ts, b, "as") THEN PErr(b)
             ELSE LET c == NS(ts, b + 1) IN
                  IF ts[c].typ # "NAME" THEN PErr(c) ELSE PFromImports(ts, c + 1, Append(acc, <<B2S(ts[a].val), B2S(ts[c].val)>>)))
       ELSE PFromImports(ts, a + 1, Append(acc, <<B2S(ts[a].val), B2S(ts[a].val)>>))
  ELSE PErr(a)
(* filter a|b|c %} *)
PFilterNames(ts, p0, acc) ==
  LET a == NS(ts, p0) IN
  IF ts[a].typ # "NAME" THEN PErr(a)
  ELSE LET b == NS(ts, a + 1)
           acc2 == Append(acc, B2S(ts[a].val)) IN
       IF ts[b].typ = "TAG_CLOSE" THEN POk(b + 1, acc2)
       ELSE IF IsP(ts, b, "|") THEN PFilterNames(ts, b + 1, acc2)
       ELSE PErr(b)
(* verbatim: the token values up to {% endverbatim %}, verbatim *)
PVerb(ts, p0, acc) ==
  IF ts[p0].typ \in {"EOF", "ERROR"} THEN PErr(p0)
  ELSE IF ts[p0].typ = "TAG_OPEN" /\ IsNm(ts, NS(ts, p0 + 1), "endverbatim") THEN
       (LET c == AfterClose(ts, NS(ts, p0 + 1) + 1) IN
        IF c = 0 THEN CloseErr(ts, NS(ts, p0 + 1) + 1) ELSE POk(c, VerbatimB(acc)))
  ELSE PVerb(ts, p0 + 1, acc \o ts[p0].val)

(* parseTag: p0 is the index after {% *)
PTag(ts, p0) ==
  LET q == NS(ts, p0) IN
  IF ts[q].typ # "NAME" THEN PErr(q)
  ELSE LET nm == B2S(ts[q].val)
           p1 == q + 1 IN
  CASE nm = "extends" ->
         LET x == PExprT(ts, p1) IN
         IF ~x.ok THEN x ELSE (LET c == AfterClose(ts, x.p) IN IF c = 0 THEN CloseErr(ts, x.p) ELSE POk(c, ExtendsS(x.n)))
    [] nm = "block" ->
         LET a == NS(ts, p1) IN
         IF ts[a].typ # "NAME" THEN PErr(a)
         ELSE LET c == AfterClose(ts, a + 1) IN
              IF c = 0 THEN CloseErr(ts, a + 1)
              ELSE LET b == BodyTo(ts, c, "endblock") IN IF ~b.ok THEN b ELSE POk(b.p, BlockS(B2S(ts[a].val), b.n))
    [] nm = "if" ->       \* (an elseif is parsed by PIfRest; anywhere else the word is no tag)
         LET cx == PExprT(ts, p1) IN
         IF ~cx.ok THEN cx
         ELSE LET c == AfterClose(ts, cx.p) IN IF c = 0 THEN CloseErr(ts, cx.p) ELSE PIfRest(ts, c, cx.n)
    [] nm = "for" ->
         LET a == NS(ts, p1) IN
         IF ts[a].typ # "NAME" \/ B2S(ts[a].val) \in Reserved THEN PErr(a)
         ELSE LET b == NS(ts, a + 1)
                  two == IsP(ts, b, ",")
                  v2 == NS(ts, b + 1) IN
              IF two /\ (ts[v2].typ # "NAME" \/ B2S(ts[v2].val) \in Reserved) THEN PErr(v2)
              ELSE LET kn == IF two THEN B2S(ts[a].val) ELSE ""
                       vn == IF two THEN B2S(ts[v2].val) ELSE B2S(ts[a].val)
                       inp == NS(ts, IF two THEN v2 + 1 ELSE a + 1) IN
                   IF ~IsWord(ts, inp, "in") THEN PErr(inp)
                   ELSE LET x == PExprT(ts, inp + 1) IN
                        IF ~x.ok THEN x
                        ELSE LET r == NS(ts, x.p)
                                 cnd == IF IsNm(ts, r, "if") THEN PExprT(ts, r + 1) ELSE POk(x.p, NoE) IN
                             IF ts[r].typ # "TAG_CLOSE" /\ ~IsNm(ts, r, "if") THEN PErr(r)
                             ELSE IF ~cnd.ok THEN cnd
                             ELSE LET c == AfterClose(ts, cnd.p) IN
                                  IF c = 0 THEN CloseErr(ts, cnd.p)
                                  ELSE LET bd == PBody(ts, c, {"endfor", "else"}, <<>>) IN
                                       IF ~bd.ok THEN bd
                                       ELSE LET c2 == AfterClose(ts, bd.p) IN
                                            IF c2 = 0 THEN CloseErr(ts, bd.p)
                                            ELSE IF bd.n.tag = "endfor" THEN POk(c2, ForS(kn, vn, x.n, cnd.n, bd.n.body, <<>>, FALSE))
                                            ELSE LET e == BodyTo(ts, c2, "endfor") IN
                                                 IF ~e.ok THEN e ELSE POk(e.p, ForS(kn, vn, x.n, cnd.n, bd.n.body, e.n, TRUE))
    [] nm = "include" ->
         LET ip == IncParams(ts, p1) IN IF ~ip.ok THEN ip ELSE POk(ip.p, IncludeS(ip.n.x, ip.n.with, ip.n.only))
    [] nm = "embed" ->
         LET ip == IncParams(ts, p1) IN
         IF ~ip.ok THEN ip
         ELSE LET b == PEmbedBody(ts, ip.p, <<>>) IN IF ~b.ok THEN b ELSE POk(b.p, EmbedS(ip.n.x, ip.n.with, ip.n.only, b.n))
    [] nm = "use" ->
         LET x == PExprT(ts, p1) IN
         IF ~x.ok THEN x
         ELSE LET r == NS(ts, x.p) IN
              IF ts[r].typ = "TAG_CLOSE" THEN POk(r + 1, UseS(x.n, <<>>))
              ELSE IF IsNm(ts, r, "with") THEN (LET al == PUseAliases(ts, r + 1, <<>>) IN IF ~al.ok THEN al ELSE POk(al.p, UseS(x.n, al.n)))
              ELSE PErr(r)
    [] nm = "set" ->
         LET a == NS(ts, p1) IN
         IF ts[a].typ # "NAME" THEN PErr(a)
         ELSE LET b == NS(ts, a + 1) IN
              IF IsP(ts, b, "=") THEN
                   LET x == PExprT(ts, b + 1) IN
                   IF ~x.ok THEN x ELSE (LET c == AfterClose(ts, x.p) IN IF c = 0 THEN CloseErr(ts, x.p) ELSE POk(c, SetS(B2S(ts[a].val), x.n)))
              ELSE IF ts[b].typ = "TAG_CLOSE" THEN
                   (LET bd == BodyTo(ts, b + 1, "endset") IN IF ~bd.ok THEN bd ELSE POk(bd.p, SetCap(B2S(ts[a].val), bd.n)))
              ELSE PErr(b)
    [] nm = "do" ->
         LET x == PExprT(ts, p1) IN
         IF ~x.ok THEN x ELSE (LET c == AfterClose(ts, x.p) IN IF c = 0 THEN CloseErr(ts, x.p) ELSE POk(c, DoS(x.n)))
    [] nm = "filter" ->
         LET f == PFilterNames(ts, p1, <<>>) IN
         IF ~f.ok THEN f ELSE (LET b == BodyTo(ts, f.p, "endfilter") IN IF ~b.ok THEN b ELSE POk(b.p, FilterS(f.n, b.n)))
    [] nm = "macro" ->
         LET a == NS(ts, p1) IN
         IF ts[a].typ # "NAME" THEN PErr(a)
         ELSE LET o == NS(ts, a + 1) IN
              IF ts[o].typ # "PARENS_OPEN" THEN PErr(o)
              ELSE LET ps == PNames(ts, o + 1, <<>>, "PARENS_CLOSE") IN
                   IF ~ps.ok THEN ps
                   ELSE LET c == AfterClose(ts, ps.p) IN
                        IF c = 0 THEN CloseErr(ts, ps.p)
                        ELSE LET b == BodyTo(ts, c, "endmacro") IN IF ~b.ok THEN b ELSE POk(b.p, MacroS(B2S(ts[a].val), ps.n, b.n))
    [] nm = "import" ->
         LET x == PExprT(ts, p1) IN
         IF ~x.ok THEN x
         ELSE LET a == NS(ts, x.p) IN
              IF ~IsNm(ts, a, "as") THEN PErr(a)
              ELSE LET b == NS(ts, a + 1) IN
                   IF ts[b].typ # "NAME" THEN PErr(b)
                   ELSE LET c == AfterClose(ts, b + 1) IN IF c = 0 THEN CloseErr(ts, b + 1) ELSE POk(c, ImportS(x.n, B2S(ts[b].val)))
    [] nm = "from" ->
         LET x == PExprT(ts, p1) IN
         IF ~x.ok THEN x
         ELSE LET a == NS(ts, x.p) IN
              IF ~IsNm(ts, a, "import") THEN PErr(a)
              ELSE LET im == PFromImports(ts, a + 1, <<>>) IN IF ~im.ok THEN im ELSE POk(im.p, FromS(x.n, im.n))
    [] nm = "verbatim" ->
         LET c == AfterClose(ts, p1) IN IF c = 0 THEN CloseErr(ts, p1) ELSE PVerb(ts, c, <<>>)
    [] OTHER -> PErr(q)              \* unknown tag name (also a stray end tag, else, elseif)

RECURSIVE PModule(_, _, _)
PModule(ts, p0, acc) ==
  LET s == PStmt(ts, p0) IN
  IF ~s.ok THEN s
  ELSE IF s.n.k = "eof" THEN POk(s.p, acc)
  ELSE PModule(ts, s.p, Append(acc, s.n))

(* a template has at most one extends, anywhere *)
RECURSIVE CountExt(_)
CountExt(stmts) == IF stmts = <<>> THEN 0
                   ELSE LET n == Head(stmts)
                            own == IF n.k = "extends" THEN 1 ELSE 0
                            sub == CASE n.k \in {"block", "setcap", "filter", "macro"} -> CountExt(n.body)
                                     [] n.k = "for" -> CountExt(n.body) + CountExt(n.els)
                                     [] n.k = "if" -> CountExt(n.els) + (LET RECURSIVE Br(_) Br(bs) == IF bs = <<>> THEN 0 ELSE CountExt(Head(bs).body) + Br(Tail(bs)) IN Br(n.branches))
                                     [] OTHER -> 0
                        IN own + sub + CountExt(Tail(stmts))

(* Parse of a token stream / of a source: [ok, tree, at] ; at = <<line, col>> of the offending token *)
ParseTokens2(ts) ==
  LET r == PModule(ts, 1, <<>>) IN
  IF ~r.ok THEN [ok |-> FALSE, tree |-> <<>>, at |-> Pos(ts, r.p), attok |-> r.p]
  ELSE IF CountExt(r.n) > 1 THEN [ok |-> FALSE, tree |-> <<>>, at |-> <<0, 0>>, attok |-> 0]
  ELSE [ok |-> TRUE, tree |-> r.n, at |-> <<0, 0>>, attok |-> 0]
ParseSrc(src) == ParseTokens2(LX!Tokens(src))

(* the whole pipeline on bytes: every template of the set is parsed; one that does not parse is a template that loads and
   fails (Exec's "syntaxerror" marker), as the loader finds out only when the template is asked for *)
TreesOfSources(srcs) == [nm \in DOMAIN srcs |-> LET r == ParseSrc(srcs[nm]) IN IF r.ok THEN r.tree ELSE <<[k |-> "syntaxerror", v |-> 0]>>]
RenderSrc(srcs, entry, ctx) == Execute(TreesOfSources(srcs), entry, ctx)
RenderSrcTwig(srcs, entry, ctx) == ExecuteTwig(TreesOfSources(srcs), entry, ctx)
=============================================================================
