------------------------------ MODULE Filters ------------------------------
(* The filters of the Twig environment (twig/filter/filter.go) on the        *)
(* specification's values: numbers on the fixed-point grid, byte strings,    *)
(* arrays, hashes, null, booleans.  This module goes beyond the twenty        *)
(* listed properties (they only require that a filter never panics, C02, and  *)
(* that length agrees with the traversal, C16): it states what the            *)
(* implemented filters RETURN, in the region where stick and Twig agree;      *)
(* OOM elsewhere (non-ASCII case mapping, hashes with several entries whose   *)
(* order Go does not fix, results off the number grid).  The filters stick has *)
(* registered and not implemented (slice, sort, split, striptags, format,     *)
(* nl2br, number_format, ...) pass their value through: PassThrough.          *)
EXTENDS Exec, FiniteSets

FAscii(bs) == \A i \in 1..Len(bs) : bs[i] < 128
UpB(b) == IF b >= 97 /\ b <= 122 THEN b - 32 ELSE b
LowB(b) == IF b >= 65 /\ b <= 90 THEN b + 32 ELSE b
FUpper(bs) == [i \in 1..Len(bs) |-> UpB(bs[i])]
FLower(bs) == [i \in 1..Len(bs) |-> LowB(bs[i])]
IsWs(b) == b \in {32, 9, 10, 13, 11, 12}
RECURSIVE TrimL(_), TrimR(_)
TrimL(bs) == IF bs # <<>> /\ IsWs(bs[1]) THEN TrimL(Tail(bs)) ELSE bs
TrimR(bs) == IF bs # <<>> /\ IsWs(bs[Len(bs)]) THEN TrimR(SubSeq(bs, 1, Len(bs) - 1)) ELSE bs
(* strings.Title: the first letter of every word; letters, digits and '_' continue a word, everything else (an apostrophe too) ends it *)
FTitle(bs) == [i \in 1..Len(bs) |-> IF i = 1 \/ ~(IsAlnumB(bs[i - 1]) \/ bs[i - 1] = 95) THEN UpB(bs[i]) ELSE bs[i]]
RevSeq(s) == [i \in 1..Len(s) |-> s[Len(s) + 1 - i]]
(* url.QueryEscape *)
QSafe(b) == IsAlnumB(b) \/ b \in {45, 46, 95, 126}
HexDigit(n) == IF n < 10 THEN 48 + n ELSE 55 + n
RECURSIVE QEsc(_)
QEsc(bs) == IF bs = <<>> THEN <<>>
            ELSE (IF QSafe(bs[1]) THEN <<bs[1]>> ELSE IF bs[1] = 32 THEN <<43>> ELSE <<37, HexDigit(bs[1] \div 16), HexDigit(bs[1] % 16)>>) \o QEsc(Tail(bs))
(* number of code points of valid UTF-8 *)
RuneCount(bs) == Cardinality({i \in 1..Len(bs) : bs[i] < 128 \/ bs[i] >= 192})
(* all occurrences of a non-empty pattern, left to right *)
RECURSIVE JoinB(_, _)
JoinB(parts, sep) == IF parts = <<>> THEN <<>> ELSE IF Len(parts) = 1 THEN parts[1] ELSE parts[1] \o sep \o JoinB(Tail(parts), sep)
RECURSIVE Chunks(_, _)
Chunks(els, n) == IF els = <<>> THEN <<>> ELSE IF Len(els) <= n THEN <<Arr(els)>> ELSE <<Arr(SubSeq(els, 1, n))>> \o Chunks(SubSeq(els, n + 1, Len(els)), n)
(* sorted keys of a hash (byte-wise order, as sort.Strings) *)
LessB(a, b) == \E k \in 0..Len(a) : /\ k <= Len(b) /\ SubSeq(a, 1, k) = SubSeq(b, 1, k)
                                     /\ ((k = Len(a) /\ k < Len(b)) \/ (k < Len(a) /\ k < Len(b) /\ a[k + 1] < b[k + 1]))
SortedKeys(ps) == LET ks == {ps[i][1] : i \in 1..Len(ps)} IN
                  IF Cardinality(ks) # Len(ps) THEN <<>>
                  ELSE CHOOSE s \in [1..Len(ps) -> ks] : (\A i \in 1..(Len(ps) - 1) : LessB(s[i], s[i + 1]))

(* encoding/json: a string literal (ASCII input): the quote, the backslash, < > & and control characters are escaped *)
JHex4(b) == <<92, 117, 48, 48, HexDigit(b \div 16) + (IF b \div 16 >= 10 THEN 32 ELSE 0), HexDigit(b % 16) + (IF b % 16 >= 10 THEN 32 ELSE 0)>>
JChar(b) == CASE b = 34 -> <<92, 34>> [] b = 92 -> <<92, 92>> [] b = 10 -> <<92, 110>> [] b = 13 -> <<92, 114>> [] b = 9 -> <<92, 116>>
              [] b \in {60, 62, 38} \/ b < 32 -> JHex4(b) [] OTHER -> <<b>>
RECURSIVE JStr(_)
JStr(bs) == IF bs = <<>> THEN <<>> ELSE JChar(bs[1]) \o JStr(Tail(bs))
JQuoted(bs) == <<34>> \o JStr(bs) \o <<34>>
(* json.Marshal of a template value; <<-1>> where not decided (non-ASCII strings, numbers off the grid or beyond 1e21, hashes with
   duplicate keys).  A hash is a Go map: keys in byte order *)
RECURSIVE JsonOf(_)
JsonOf(v) ==
  CASE v.t = "null" -> S2B("null")
    [] v.t = "bool" -> IF v.b THEN S2B("true") ELSE S2B("false")
    [] v.t = "num" -> (IF v.q > 1000000 * Scale \/ v.q < 0 - 1000000 * Scale THEN <<-1>> ELSE NumToBytes(v.q))
    [] v.t = "str" -> IF FAscii(v.s) THEN JQuoted(v.s) ELSE <<-1>>
    [] v.t = "arr" -> LET ps == [i \in 1..Len(v.els) |-> JsonOf(v.els[i])] IN
                      IF \E i \in 1..Len(ps) : BytesOOM(ps[i]) THEN <<-1>> ELSE <<91>> \o JoinB(ps, <<44>>) \o <<93>>
    [] v.t = "hash" -> LET ks == SortedKeys(v.pairs)
                           val(k) == v.pairs[CHOOSE i \in 1..Len(v.pairs) : v.pairs[i][1] = k][2]
                           ps == [i \in 1..Len(ks) |-> JsonOf(val(ks[i]))] IN
                       IF Len(ks) # Len(v.pairs) \/ (\E i \in 1..Len(ks) : BytesOOM(ps[i]) \/ ~FAscii(ks[i])) THEN <<-1>>
                       ELSE <<123>> \o JoinB([i \in 1..Len(ks) |-> JQuoted(ks[i]) \o <<58>> \o ps[i]], <<44>>) \o <<125>>
    [] OTHER -> <<-1>>
(* filters stick registers and has not implemented: the value passes through unchanged (a named deviation from Twig) *)
PassThrough == {"slice", "sort", "split", "striptags", "format", "nl2br", "number_format", "convert_encoding", "date_modify"}

Strish(v) == v.t \in {"str", "num", "bool", "null"}        \* values whose string form is decided
Bs(v) == CoerceBytes(v)

(* the value of  v|name(args) ; OOM where it is not decided *)
FilterRef(name, v, args) ==
  CASE name = "upper" -> IF Strish(v) /\ ~BytesOOM(Bs(v)) /\ FAscii(Bs(v)) THEN Str(FUpper(Bs(v))) ELSE OOM
    [] name = "lower" -> IF Strish(v) /\ ~BytesOOM(Bs(v)) /\ FAscii(Bs(v)) THEN Str(FLower(Bs(v))) ELSE OOM
    [] name = "capitalize" -> IF Strish(v) /\ ~BytesOOM(Bs(v)) /\ FAscii(Bs(v))
                              THEN (IF Bs(v) = <<>> THEN Str(<<>>) ELSE Str(<<UpB(Bs(v)[1])>> \o Tail(Bs(v)))) ELSE OOM
    [] name = "title" -> IF Strish(v) /\ ~BytesOOM(Bs(v)) /\ FAscii(Bs(v)) THEN Str(FTitle(Bs(v))) ELSE OOM
    [] name = "trim" -> IF Strish(v) /\ ~BytesOOM(Bs(v)) /\ FAscii(Bs(v)) THEN Str(TrimR(TrimL(Bs(v)))) ELSE OOM
    [] name = "url_encode" -> IF Strish(v) /\ ~BytesOOM(Bs(v)) THEN Str(QEsc(Bs(v))) ELSE OOM
    [] name = "abs" -> LET n == CoerceNumber(v) IN IF IsOOM(n) THEN OOM ELSE Num(IF n.q < 0 THEN 0 - n.q ELSE n.q)
    [] name = "default" -> IF ~Strish(v) \/ BytesOOM(Bs(v)) THEN OOM
                           ELSE IF Bs(v) = <<>> THEN (IF args = <<>> THEN Null ELSE args[1]) ELSE v
    [] name = "length" -> CASE v.t = "str" -> IntV(RuneCount(v.s)) [] v.t = "arr" -> IntV(Len(v.els)) [] v.t = "hash" -> IntV(Len(v.pairs))
                            [] v.t = "null" -> IntV(0) [] OTHER -> OOM
    [] name = "first" -> CASE v.t = "arr" -> (IF v.els = <<>> THEN Null ELSE v.els[1]) [] v.t = "hash" -> OOM
                           [] v.t = "str" /\ FAscii(v.s) -> (IF v.s = <<>> THEN Null ELSE Str(<<v.s[1]>>)) [] OTHER -> OOM
    [] name = "last" -> CASE v.t = "arr" -> (IF v.els = <<>> THEN Null ELSE v.els[Len(v.els)]) [] v.t = "hash" -> OOM
                          [] v.t = "str" /\ FAscii(v.s) -> (IF v.s = <<>> THEN Null ELSE Str(<<v.s[Len(v.s)]>>)) [] OTHER -> OOM
    [] name = "reverse" -> CASE v.t = "arr" -> Arr(RevSeq(v.els)) [] v.t = "hash" -> v
                             [] v.t = "str" /\ FAscii(v.s) -> (IF v.s = <<>> THEN Null ELSE Str(RevSeq(v.s))) [] OTHER -> OOM
    [] name = "keys" -> CASE v.t = "arr" -> Arr([i \in 1..Len(v.els) |-> IntV(i - 1)])
                          [] v.t = "hash" -> (LET ks == SortedKeys(v.pairs) IN IF Len(ks) # Len(v.pairs) THEN OOM ELSE Arr([i \in 1..Len(ks) |-> Str(ks[i])]))
                          [] OTHER -> Arr(<<>>)
    [] name = "join" -> LET sep == IF Len(args) = 1 THEN Bs(args[1]) ELSE <<>> IN
                        IF BytesOOM(sep) THEN OOM
                        ELSE CASE v.t = "arr" -> (IF \E i \in 1..Len(v.els) : BytesOOM(Bs(v.els[i])) THEN OOM
                                                  ELSE Str(JoinB([i \in 1..Len(v.els) |-> Bs(v.els[i])], sep)))
                               [] v.t = "hash" -> (IF Len(v.pairs) > 1 \/ (\E i \in 1..Len(v.pairs) : BytesOOM(Bs(v.pairs[i][2]))) THEN OOM
                                                   ELSE Str(JoinB([i \in 1..Len(v.pairs) |-> Bs(v.pairs[i][2])], sep)))
                               [] v.t = "null" -> Str(<<>>)
                               [] OTHER -> IF BytesOOM(Bs(v)) THEN OOM ELSE Str(Bs(v))
    [] name = "merge" -> IF Len(args) # 1 THEN OOM
                         ELSE CASE v.t = "arr" /\ args[1].t = "arr" -> Arr(v.els \o args[1].els)
                                [] v.t = "hash" /\ args[1].t = "hash" /\ Len(v.pairs) + Len(args[1].pairs) <= 1 -> Hash(v.pairs \o args[1].pairs)
                                [] OTHER -> OOM
    [] name = "batch" -> IF Len(args) \notin {1, 2} \/ v.t # "arr" THEN OOM
                         ELSE LET n == CoerceNumber(args[1]) IN
                              IF IsOOM(n) \/ ~IsIntV(n) \/ n.q < 2 * Scale THEN OOM
                              ELSE LET per == n.q \div Scale
                                       ch == Chunks(v.els, per)
                                       fill == IF Len(args) = 2 /\ args[2].t # "null" /\ ch # <<>> THEN [i \in 1..(per - Len(ch[Len(ch)].els)) |-> args[2]] ELSE <<>>
                                   IN IF ch = <<>> THEN Arr(<<>>) ELSE Arr(SubSeq(ch, 1, Len(ch) - 1) \o <<Arr(ch[Len(ch)].els \o fill)>>)
    [] name = "replace" -> IF Len(args) # 1 \/ ~Strish(v) \/ BytesOOM(Bs(v)) THEN OOM
                           ELSE IF args[1].t # "hash" THEN Str(Bs(v))
                           ELSE IF Len(args[1].pairs) = 0 THEN Str(Bs(v))
                           ELSE IF Len(args[1].pairs) > 1 \/ args[1].pairs[1][1] = <<>> \/ BytesOOM(Bs(args[1].pairs[1][2])) THEN OOM
                           ELSE Str(ReplAll(Bs(v), args[1].pairs[1][1], Bs(args[1].pairs[1][2])))
    [] name = "round" -> LET n == CoerceNumber(v) IN
                         IF IsOOM(n) \/ Len(args) > 2 THEN OOM
                         ELSE LET pr == IF args = <<>> THEN IntV(0) ELSE CoerceNumber(args[1])
                                  algo == IF Len(args) = 2 THEN Bs(args[2]) ELSE <<>> IN
                              IF IsOOM(pr) \/ ~IsIntV(pr) \/ pr.q > 0 \/ BytesOOM(algo) THEN OOM      \* precision 0 (negative precisions count as 0)
                              ELSE LET fl == (IF n.q >= 0 THEN n.q \div Scale ELSE 0 - ((0 - n.q + Scale - 1) \div Scale))        \* floor
                                       frac == n.q - fl * Scale
                                       r == CASE algo = S2B("ceil") -> (IF frac = 0 THEN fl ELSE fl + 1)
                                              [] algo = S2B("floor") -> fl
                                              [] OTHER -> (IF n.q >= 0 THEN (IF 2 * frac >= Scale THEN fl + 1 ELSE fl)
                                                           ELSE (IF 2 * frac > Scale THEN fl + 1 ELSE fl))       \* half away from zero
                                   IN IF r = 0 /\ n.q < 0 THEN OOM ELSE IntV(r)         \* -0
    [] name = "json_encode" -> LET j == JsonOf(v) IN IF BytesOOM(j) THEN OOM ELSE Str(j)
    [] name \in PassThrough -> v
    [] OTHER -> OOM
Decided(v) == ~IsOOM(v)
=============================================================================
