-------------------------------- MODULE Lexer --------------------------------
(* The tokeniser of parse/lex.go as a state machine over bytes.             *)
(*                                                                          *)
(* A lexer state is a record                                                *)
(*   [fn, pos, start, line, col, lim, mode, parens, braces, verb, toks,     *)
(*    saved, panic, steps]                                                  *)
(* fn is the name of the next state function ("stop" when tokenising has    *)
(* ended), pos/start are 0-based byte offsets as in the Go code, lim is the *)
(* effective end of input (lex.go truncates `input` while it is inside an   *)
(* interpolated string), saved holds what lexString keeps on its Go stack   *)
(* during an interpolation, toks the tokens emitted so far.                 *)
(* Step(src, st) is ONE state-function call of lex.go (one `l.state(l)`).   *)
(* Every slice or index expression of the Go code is an explicit            *)
(* precondition here; where it could fail the specification sets `panic`    *)
(* (it never does for the intended behaviour modelled here: invariant       *)
(* NoPanic of C01).  The stream ends with EOF or with ERROR (ErrorIsLast).   *)
EXTENDS Bytes

TokText == "TEXT"
Tok(typ, val, line, col) == [typ |-> typ, val |-> val, line |-> line, col |-> col]

At(src, st, q) == IF q >= 0 /\ q < st.lim THEN src[q + 1] ELSE 0 - 1            \* byte at 0-based offset q, -1 at end
PrefixAt(src, st, q, p) == q + Len(p) <= st.lim /\ SubSeq(src, q + 1, q + Len(p)) = p

IsSpaceB(b) == b = 32 \/ b = 9 \/ b = 10 \/ b = 13
IsNameB(b) == b = 95 \/ (b >= 0 /\ b < 128 /\ IsAlnumB(b))
IsPunctB(b) == b \in {44, 124, 63, 58, 46, 61}                                     \* , | ? : . =

OpenTag == <<123, 37>>   CloseTag == <<37, 125>>   OpenPrint == <<123, 123>>   ClosePrint == <<125, 125>>
OpenComment == <<123, 35>>   CloseComment == <<35, 125>>   OpenInterp == <<35, 123>>

(* operatorMatcher: alternatives in the order of the regular expression (leftmost alternative wins) *)
OpOrder == << S2B("not in"), S2B("not"), S2B("**"), S2B("is not"), S2B("//"), S2B(">="), S2B("<="),
              S2B("or"), S2B("and"), S2B("b-or"), S2B("b-xor"), S2B("b-and"), S2B("=="), S2B("!="), S2B("<"), S2B(">"),
              S2B("in"), S2B("matches"), S2B("starts with"), S2B("ends with"), S2B(".."), S2B("+"), S2B("-"), S2B("~"),
              S2B("*"), S2B("/"), S2B("%"), S2B("is") >>
MatchOp(src, st) == LET idx == {q \in 1..Len(OpOrder) : PrefixAt(src, st, st.pos, OpOrder[q])} IN
                    IF idx = {} THEN <<>> ELSE OpOrder[CHOOSE q \in idx : \A r \in idx : q <= r]

(* emit: the token starts at `start`, carries the line/column of its first byte; line and column advance over its value *)
Emit(src, st, typ) ==
  LET val == SubSeq(src, st.start + 1, st.pos)
      nl == CountB(val, 10)
      RECURSIVE LastNL(_)
      LastNL(q) == IF q = 0 THEN 0 ELSE IF val[q] = 10 THEN q ELSE LastNL(q - 1)
  IN [st EXCEPT !.toks = Append(@, Tok(typ, val, st.line, st.col)),
                !.line = @ + nl,
                !.col = IF nl > 0 THEN Len(val) - LastNL(Len(val)) ELSE @ + Len(val),
                !.start = st.pos,
                !.fn = IF typ = "EOF" THEN "stop" ELSE @]
ErrorTok(st) == [st EXCEPT !.toks = Append(@, Tok("ERROR", <<>>, st.line, st.col)), !.fn = "stop"]
Goto(st, fn) == [st EXCEPT !.fn = fn]

InClass(cls, b) == CASE cls = "space" -> IsSpaceB(b) [] cls = "digit" -> IsDigitB(b) [] cls = "name" -> IsNameB(b) [] OTHER -> IsPunctB(b)
RECURSIVE SkipWhile(_, _, _, _)
SkipWhile(src, st, q, cls) == IF q < st.lim /\ InClass(cls, src[q + 1]) THEN SkipWhile(src, st, q + 1, cls) ELSE q

(* first offset >= q at which the byte sequence p occurs (below lim), or -1 *)
RECURSIVE IndexFrom(_, _, _, _)
IndexFrom(src, st, q, p) == IF q + Len(p) > st.lim THEN 0 - 1
                            ELSE IF SubSeq(src, q + 1, q + Len(p)) = p THEN q ELSE IndexFrom(src, st, q + 1, p)

TrimSkip(src, st, q) == IF At(src, st, q) = 45 THEN q + 1 ELSE q                  \* optional '-' whitespace-control marker

(* {% [ws] verbatim [ws] [-] %} ... and its end tag *)
VerbatimAhead(src, st, q) ==
  LET a == SkipWhile(src, st, q, "space")
      w == S2B("verbatim")
      b == IF PrefixAt(src, st, a, w) THEN SkipWhile(src, st, a + Len(w), "space") ELSE 0 - 1
  IN b >= 0 /\ PrefixAt(src, st, TrimSkip(src, st, b), CloseTag)
EndVerbatimAt(src, st, q) ==     \* does {%[-][ws]endverbatim[ws][-]%} start at q ?
  /\ PrefixAt(src, st, q, OpenTag)
  /\ LET a == SkipWhile(src, st, TrimSkip(src, st, q + 2), "space")
         w == S2B("endverbatim") IN
     /\ PrefixAt(src, st, a, w)
     /\ PrefixAt(src, st, TrimSkip(src, st, SkipWhile(src, st, a + Len(w), "space")), CloseTag)
RECURSIVE FindEndVerbatim(_, _, _)
FindEndVerbatim(src, st, q) == IF q >= st.lim THEN st.lim ELSE IF EndVerbatimAt(src, st, q) THEN q ELSE FindEndVerbatim(src, st, q + 1)

--------------------------------------------------------------------------
LexData(src, st) ==
  LET RECURSIVE Scan(_)
      Scan(q) == IF q >= st.lim THEN st.lim
                 ELSE IF PrefixAt(src, st, q, OpenComment) \/ PrefixAt(src, st, q, OpenTag) \/ PrefixAt(src, st, q, OpenPrint) THEN q
                 ELSE Scan(q + 1)
      q == Scan(st.pos)
      s1 == [st EXCEPT !.pos = q]
      s2 == IF q > st.start THEN Emit(src, s1, "TEXT") ELSE s1
  IN IF q >= st.lim THEN Emit(src, s2, "EOF")
     ELSE IF PrefixAt(src, st, q, OpenComment) THEN Goto(s2, "comment")
     ELSE IF PrefixAt(src, st, q, OpenTag) THEN Goto(s2, "tagopen")
     ELSE Goto(s2, "printopen")

(* tryLexOperator: the operator recognised at the cursor, or <<>>.  The alternatives of the matcher are tried in order;
   an alternative is passed over when it is really the start of a delimiter ("%}", "-}}", "-%}") or runs into a name
   ("include", "is_x"; "not inactive" is the operator "not" followed by a name, not "not in") *)
OpAcceptable(src, st, op) ==
  LET after == st.pos + Len(op) IN
  /\ ~(op = <<37>> /\ At(src, st, st.pos + 1) = 125)
  /\ ~(op = <<45>> /\ (PrefixAt(src, st, st.pos + 1, ClosePrint) \/ PrefixAt(src, st, st.pos + 1, CloseTag)))
  /\ ~(IsAlphaB(op[Len(op)]) /\ IsNameB(At(src, st, after)))
OperatorHere(src, st) ==
  LET idx == {q \in 1..Len(OpOrder) : PrefixAt(src, st, st.pos, OpOrder[q]) /\ OpAcceptable(src, st, OpOrder[q])} IN
  IF idx = {} THEN <<>> ELSE OpOrder[CHOOSE q \in idx : \A r \in idx : q <= r]

LexExpression(src, st) ==
  LET op == OperatorHere(src, st)
      b == At(src, st, st.pos) IN
  IF op # <<>> THEN Emit(src, [st EXCEPT !.pos = @ + Len(op)], "OPERATOR")                        \* stays in "expr"
  ELSE IF b = 0 - 1 THEN Goto(st, "data")
  ELSE IF PrefixAt(src, st, st.pos, CloseTag) \/ PrefixAt(src, st, st.pos, <<45>> \o CloseTag) THEN Goto(st, "tagclose")
  ELSE IF st.braces = 0 /\ (PrefixAt(src, st, st.pos, ClosePrint) \/ PrefixAt(src, st, st.pos, <<45>> \o ClosePrint)) THEN Goto(st, "printclose")
  ELSE IF IsPunctB(b) THEN Emit(src, [st EXCEPT !.pos = SkipWhile(src, st, st.pos, "punct")], "PUNCTUATION")
  ELSE IF b \in {40, 91, 123} THEN                                                                 \* ( [ {
       LET s1 == Emit(src, [st EXCEPT !.pos = @ + 1],
                      CASE b = 40 -> "PARENS_OPEN" [] b = 91 -> "ARRAY_OPEN" [] OTHER -> "HASH_OPEN") IN
       [s1 EXCEPT !.parens = @ + 1, !.braces = IF b = 123 THEN @ + 1 ELSE @]
  ELSE IF b \in {41, 93} THEN
       [Emit(src, [st EXCEPT !.pos = @ + 1], IF b = 41 THEN "PARENS_CLOSE" ELSE "ARRAY_CLOSE") EXCEPT !.parens = @ - 1]
  ELSE IF b = 125 THEN
       IF st.parens = 0 /\ st.mode = "interp"
       THEN (* end of the interpolation: lexString resumes (the "}" is emitted as INTERPOLATE_CLOSE) *)
            LET s1 == Emit(src, [st EXCEPT !.pos = @ + 1, !.parens = st.saved.parens, !.braces = st.saved.braces, !.mode = "normal"],
                           "INTERPOLATE_CLOSE") IN
            Goto(s1, "strbody")
       ELSE [Emit(src, [st EXCEPT !.pos = @ + 1], "HASH_CLOSE") EXCEPT !.parens = @ - 1, !.braces = IF @ > 0 THEN @ - 1 ELSE @]
  ELSE IF b \in {34, 39} THEN Goto(st, "string")
  ELSE IF IsDigitB(b) THEN Emit(src, [st EXCEPT !.pos = SkipWhile(src, st, st.pos, "digit")], "NUMBER")
  ELSE IF IsNameB(b) THEN Emit(src, [st EXCEPT !.pos = SkipWhile(src, st, st.pos, "name")], "NAME")
  ELSE IF IsSpaceB(b) THEN Emit(src, [st EXCEPT !.pos = SkipWhile(src, st, st.pos, "space")], "WHITESPACE")
  ELSE ErrorTok(st)                                                                                \* unknown expression

(* lexString up to the body; the body of an interpolated string is lexed piecewise by "strbody" *)
LexString(src, st) ==
  LET q == st.pos
      quote == src[q + 1]
      s1 == Emit(src, [st EXCEPT !.pos = q + 1], "STRING_OPEN")
      close == IndexFrom(src, s1, q + 1, <<quote>>) IN
  IF close < 0 THEN ErrorTok(s1)                                                                   \* unclosed string
  ELSE IF quote = 34 /\ IndexFrom(src, [s1 EXCEPT !.lim = close], q + 1, OpenInterp) >= 0
       THEN Goto([s1 EXCEPT !.saved = [lim |-> s1.lim, parens |-> s1.parens, braces |-> s1.braces], !.lim = close], "strbody")
       ELSE LET s2 == Emit(src, [s1 EXCEPT !.pos = close], "TEXT") IN
            Goto(Emit(src, [s2 EXCEPT !.pos = close + 1], "STRING_CLOSE"), "expr")
(* inside an interpolated string, input is truncated to the closing quote (lim) *)
StrBody(src, st) ==
  LET p == IndexFrom(src, st, st.pos, OpenInterp) IN
  IF p >= 0 THEN
       LET s1 == Emit(src, [st EXCEPT !.pos = p], "TEXT")
           s2 == Emit(src, [s1 EXCEPT !.pos = p + 2], "INTERPOLATE_OPEN") IN
       Goto([s2 EXCEPT !.mode = "interp", !.parens = 0, !.braces = 0], "expr")
  ELSE LET s1 == IF st.pos < st.lim THEN Emit(src, [st EXCEPT !.pos = st.lim], "TEXT") ELSE st
           s2 == [s1 EXCEPT !.lim = st.saved.lim]
       IN Goto(Emit(src, [s2 EXCEPT !.pos = @ + 1], "STRING_CLOSE"), "expr")

LexComment(src, st) ==
  LET s1 == Emit(src, [st EXCEPT !.pos = TrimSkip(src, st, st.pos + 2)], "COMMENT_OPEN")
      c == IndexFrom(src, s1, s1.pos, CloseComment)
      endp == IF c < 0 THEN s1.lim ELSE c
      (* a '-' right before "#}" belongs to the closing delimiter, if the body is not empty *)
      bodyEnd == IF endp > s1.start /\ At(src, s1, endp - 1) = 45 THEN endp - 1 ELSE endp
      s2 == Emit(src, [s1 EXCEPT !.pos = bodyEnd], "TEXT") IN
  IF c < 0 THEN ErrorTok([s2 EXCEPT !.pos = endp])                                                  \* expected comment close
  ELSE Goto(Emit(src, [s2 EXCEPT !.pos = c + 2], "COMMENT_CLOSE"), "data")

LexTagOpen(src, st) ==
  LET s1 == Emit(src, [st EXCEPT !.pos = TrimSkip(src, st, st.pos + 2)], "TAG_OPEN") IN
  Goto([s1 EXCEPT !.verb = VerbatimAhead(src, s1, s1.pos)], "expr")
LexPrintOpen(src, st) == Goto(Emit(src, [st EXCEPT !.pos = TrimSkip(src, st, st.pos + 2)], "PRINT_OPEN"), "expr")
LexTagClose(src, st) ==
  IF st.pos > st.start THEN ErrorTok(st)
  ELSE IF st.parens > 0 THEN ErrorTok(st)                                                           \* unclosed parenthesis
  ELSE LET s1 == Emit(src, [st EXCEPT !.pos = TrimSkip(src, st, st.pos) + 2], "TAG_CLOSE") IN
       IF st.verb THEN Goto([s1 EXCEPT !.verb = FALSE], "verbatim") ELSE Goto(s1, "data")
LexPrintClose(src, st) ==
  IF st.pos > st.start THEN ErrorTok(st)
  ELSE IF st.parens > 0 THEN ErrorTok(st)
  ELSE Goto(Emit(src, [st EXCEPT !.pos = TrimSkip(src, st, st.pos) + 2], "PRINT_CLOSE"), "data")
LexVerbatim(src, st) ==
  LET q == FindEndVerbatim(src, st, st.pos)
      s1 == [st EXCEPT !.pos = q] IN
  Goto(IF q > st.start THEN Emit(src, s1, "TEXT") ELSE s1, "data")

(* one state-function call; an error inside an interpolation ends tokenising like any other error *)
Step(src, st) ==
  LET s1 == CASE st.fn = "data" -> LexData(src, st)      \* in an unclosed "#{" this emits EOF at the end of the string body
              [] st.fn = "expr" -> LexExpression(src, st)
              [] st.fn = "string" -> LexString(src, st)
              [] st.fn = "strbody" -> StrBody(src, st)
              [] st.fn = "comment" -> LexComment(src, st)
              [] st.fn = "tagopen" -> LexTagOpen(src, st)
              [] st.fn = "printopen" -> LexPrintOpen(src, st)
              [] st.fn = "tagclose" -> LexTagClose(src, st)
              [] st.fn = "printclose" -> LexPrintClose(src, st)
              [] st.fn = "verbatim" -> LexVerbatim(src, st)
              [] OTHER -> st
  IN [s1 EXCEPT !.steps = @ + 1]

InitLex(src) == [fn |-> "data", pos |-> 0, start |-> 0, line |-> 1, col |-> 0, lim |-> Len(src), mode |-> "normal",
                 parens |-> 0, braces |-> 0, verb |-> FALSE, toks |-> <<>>,
                 saved |-> [lim |-> Len(src), parens |-> 0, braces |-> 0], panic |-> FALSE, steps |-> 0]
RECURSIVE RunLex(_, _)
RunLex(src, st) == IF st.fn = "stop" \/ st.steps > 4 * Len(src) + 8 THEN st ELSE RunLex(src, Step(src, st))
Lex(src) == RunLex(src, InitLex(src))
Tokens(src) == Lex(src).toks

(* ---- properties of a finished or running lexer state (C01, C03, C20) ---- *)
CursorInRange(src, st) == 0 <= st.start /\ st.start <= st.pos /\ st.pos <= st.lim /\ st.lim <= Len(src)
Terminated(src, st) == st.fn = "stop" /\ st.steps <= 4 * Len(src) + 8
ErrorIsLast(st) == \A q \in 1..Len(st.toks) : st.toks[q].typ \in {"ERROR", "EOF"} => q = Len(st.toks)
EndsProperly(st) == st.toks # <<>> /\ st.toks[Len(st.toks)].typ \in {"ERROR", "EOF"}
(* every byte of the source belongs to exactly one token, in order, unless tokenising stopped at an error *)
RECURSIVE CatVals(_)
CatVals(toks) == IF toks = <<>> THEN <<>> ELSE Head(toks).val \o CatVals(Tail(toks))
TokensPartitionSource(src, st) == (st.toks[Len(st.toks)].typ = "EOF" /\ st.mode = "normal") => CatVals(st.toks) = src
(* positions are exact: line = 1 + number of LF before the token's first byte, col = bytes since the last LF *)
RECURSIVE PosExactFrom(_, _, _)
PosExactFrom(src, toks, off) ==
  IF toks = <<>> THEN TRUE
  ELSE LET t == Head(toks)
           before == SubSeq(src, 1, off)
           RECURSIVE LastNLB(_)
           LastNLB(q) == IF q = 0 THEN 0 ELSE IF before[q] = 10 THEN q ELSE LastNLB(q - 1)
       IN /\ t.line = 1 + CountB(before, 10)
          /\ t.col = off - LastNLB(off)
          /\ PosExactFrom(src, Tail(toks), off + Len(t.val))
PosExact(src, st) == (st.toks[Len(st.toks)].typ = "EOF" /\ st.mode = "normal") => PosExactFrom(src, st.toks, 0)
=============================================================================
