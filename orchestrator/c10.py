"""C10 include and embed render the target with the right variables, in isolation."""
import exectrace
import simple


def nontrivial(v):
    return bool(v["x"].get("nt"))


def check(run, only=None):
    run.rule = ("include/embed x {plain, with, only, with+only} x call site {top, loop, block, macro} x targets {prints variables, "
                "sets colliding names, extends another template, defines blocks p/q} x embed overrides {none, p, q, p+q, with "
                "parent()} x host defines its own block p or not x construct used twice with complementary overrides; "
                "non-trivial = host/target share a variable or block name, or a with-hash is passed")
    run.assumptions = ["with-expression is a hash literal; values passed are scalars"]
    simple.gen_and_replay(run, "C10", nontrivial=nontrivial, only=only)

    if only is None:
        simple.tags_src(run, "C10")
        # binding T: seeded random programs over the whole schema, accepted by TLC against the reference executor
        exectrace.run_exec_trace(run, 10000 if run.tier == "thorough" else 600, 10)


def replay(run, path):
    simple.replay_file(run, path, check)
