"""C14 Formatting inside delimiters does not change meaning."""
import json
import random

import common

SEPS = ["", " ", "\t", "\n", "\r\n", "  "]


def check_spelleq(run, vecs):
    obs, hooks = common.run_pool(vecs, deadline_ms=4000)
    run.hooks = hooks
    for v in vecs:
        o = obs[v["id"]]
        src = common.show(bytes(v["spelled"]))
        run.count(src, v.get("nvar", 1) >= 1)
        if len(run.samples) < 3 and o["st"] == "ok":
            run.sample({"canonical": common.show(bytes(v["canon"])), "respelled": src})
        if o["st"] != "ok":
            run.mismatch("C14 respelling %s" % common.crash_sig(o), v, "did not terminate normally: " + o["st"], observed={"src": src})
            continue
        ob = o["obs"]
        why = None
        if not ob["canon"]["parse_ok"]:
            # every snippet is a valid construct in its canonical spelling
            run.mismatch("C14 canonical spelling does not parse [snippet %s]" % v.get("snip"), v, "a valid construct does not parse",
                         expected="a tree", observed={"src": common.show(bytes(v["canon"])), "err": ob["canon"].get("err")})
            continue
        if ob.get("hooks") and not ob["tokens_equal"]:
            why = "token sequence changes"
        elif not ob["spelled"]["parse_ok"]:
            why = "re-spelling does not parse"
        elif not ob["shape_equal"]:
            why = "re-spelling parses to a different tree"
        elif ob["canon"]["exec_ok"] != ob["spelled"]["exec_ok"] or ob["canon"]["out"] != ob["spelled"]["out"]:
            why = "re-spelling renders differently"
        elif not ob.get("inline_equal", True):
            why = "re-spelling renders differently as an inline template of an auto-escaping environment"
        if why:
            seps = []
            s = bytes(v["spelled"])
            for name, b in (("CR", b"\r"), ("LF", b"\n"), ("TAB", b"\t")):
                if b in s:
                    seps.append(name)
            sig = "C14 %s [snippet %s; %s]" % (why, v.get("snip"), "+".join(seps) or "blank/none")
            if v.get("snip") == "inner-quote":
                sig = "C14 inner-quote: double quotes around a string inside the interpolation of a double-quoted string"
            run.mismatch(sig, v, why,
                         expected={"src": common.show(bytes(v["canon"])), "out": common.show(bytes(ob["canon"]["out"]))},
                         observed={"src": src, "parse_ok": ob["spelled"]["parse_ok"], "err": ob["spelled"].get("err"),
                                   "out": common.show(bytes(ob["spelled"]["out"]))})


def respell(run, module, cfg, nvar, rng, limit):
    """takes the vectors of another executor family and replays them in random spellings; the reference output must not change"""
    r = common.run_tlc(module, cfg, env={"VERIF_SEED": run.seed}, timeout=1800)
    # a vector whose canonical spelling already is a recorded known finding of its own property (C11: one macro from-imported
    # under two names) fails in every spelling alike: it says nothing about formatting and is left to its owner
    vecs = [v for v in r["lines"] if not v.get("oom") and (v.get("x") or {}).get("special") != "fromtwice"]
    rng.shuffle(vecs)
    out = []
    for v in vecs[:limit]:
        for j in range(nvar):
            v2 = dict(v)
            v2["id"] = "%s-s%d" % (v["id"], j)
            v2["sp"] = {"seed": rng.randrange(1, 2 ** 31), "seps": SEPS, "tight": rng.random() < 0.3,
                        "quote": rng.choice(["", "'", "\""]), "comma": rng.random() < 0.5, "trim": rng.random() < 0.3}
            v2["fam"] = "respell-" + module
            out.append(v2)
    return out


def check(run, only=None):
    thorough = run.tier == "thorough"
    run.rule = ("(a) 66 canonical snippets (one per tag kind and expression form), every re-spelling that changes up to 2 (quick) / 3 "
                "(thorough) token boundaries to one of none (only where CanAbut), blank, TAB, LF, CRLF, two blanks, a lone CR: tokens, parse "
                "result, tree and rendering must equal the canonical spelling's; (b) programs of the C06/C07/C10/C11 families unparsed "
                "with random separators at every boundary, tight delimiters, either quote, trailing commas and '-' markers: output "
                "must equal the reference; non-trivial = spelling differs from canonical at >= 1 boundary")
    run.assumptions = ["CanAbut is deliberately conservative (spec/props/C14.tla); white space is not varied inside strings or multi-word operators"]
    if only is not None:
        if only[0].get("k") == "spelleq":
            check_spelleq(run, only)
        else:
            common.replay_vectors(run, only, check_log=False)
        return
    r = common.run_tlc("C14", "C14_thorough" if thorough else "C14", env={"VERIF_SEED": run.seed}, timeout=3000, heap="10g")
    for n, v in enumerate(r["lines"]):
        v["id"] = "C14-%d" % n          # the spec's ids are not unique per re-spelling
    check_spelleq(run, r["lines"])
    run.traces += len(r["lines"])
    # quote choice for a string WITHOUT interpolation that stands inside the interpolation of another string (written out here:
    # the tokeniser model of Lexer.tla follows the code's way of finding the closing quote, so TLC cannot generate these)
    quoted = []
    for i, (a, b) in enumerate([("{{ \"a#{ h['k'] }b\" }}", "{{ \"a#{ h[\"k\"] }b\" }}"),
                                ("{{ \"#{ f('x', 'y') }\" }}", "{{ \"#{ f(\"x\", 'y') }\" }}"),
                                ("{% set s = \"<#{ 'v'|f }>\" %}{{ s }}", "{% set s = \"<#{ \"v\"|f }>\" %}{{ s }}")]):
        quoted.append({"id": "C14-q%d" % i, "k": "spelleq", "canon": list(a.encode()), "spelled": list(b.encode()), "snip": "inner-quote", "nvar": 1})
    check_spelleq(run, quoted)
    run.traces += len(quoted)
    rng = random.Random(run.seed)
    extra = []
    for module, cfg in (("C06", "C06"), ("C07", "C07"), ("C10", "C10"), ("C11", "C11")):
        extra += respell(run, module, cfg, 6 if thorough else 2, rng, 3000 if thorough else 500)

    def sigfn(v, o, why):
        if o["st"] != "ok":
            return "C14 %s %s" % (v["fam"], common.crash_sig(o))
        err = ((o["obs"].get("err") or {}).get("msg") or "")[:60]
        return "C14 %s %s %s" % (v["fam"], why.split(" at event")[0], err)
    common.replay_vectors(run, extra, check_log=False, sigfn=sigfn, deadline_ms=4000)
    run.traces += len(extra)


def replay(run, path):
    m = json.load(open(path))
    check(run, only=[{k: x for k, x in m["case"].items() if not k.startswith("_")}])
