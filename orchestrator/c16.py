"""C16 Attribute access and iteration are total and visit what is there."""
import json

import common

NULL = {"t": "null"}


def to_event(c, o):
    if o["st"] != "ok":
        return None
    ob = o["obs"]
    if c["k"] == "getattr":
        ev = {"k": "getattr", "cid": c["cid"], "key": c["key"], "args": c["args"], "panicked": "panic" in ob,
              "ok": bool(ob.get("ok")), "val": ob.get("val", NULL), "tpl": ob.get("tpl", ""), "tplval": ob.get("tplval", NULL)}
        return ev
    pan = any(k.endswith("_panic") for k in ob)
    return {"k": "iterate", "cid": c["cid"], "panicked": pan, "iter_ok": bool(ob.get("iter_ok")), "iter_n": ob.get("iter_n", 0),
            "items": ob.get("items", []), "len_ok": bool(ob.get("len_ok")), "len": ob.get("len", 0),
            "iterable": bool(ob.get("iterable")), "isarray": bool(ob.get("isarray")), "ismap": bool(ob.get("ismap")),
            "contains_all": bool(ob.get("contains_all")), "contains_absent": bool(ob.get("contains_absent")),
            "contains_err": bool(ob.get("contains_err")), "tpl": ob.get("tpl", ""),
            "twig": ob.get("twig", ""), "twiglen": ob.get("twiglen", 0), "twigin": bool(ob.get("twigin", True))}


def keyclass(c):
    k = c.get("key", {})
    return k.get("t", "-")


def check(run, only=None):
    run.rule = ("35 containers (slices/arrays of ints, strings, Values, empty; maps with string, int, bool and float keys; a struct "
                "with exported/unexported fields and value/pointer-receiver methods; pointers and nil pointers to them; nil; scalars, "
                "func, chan) x 29 keys (strings, numbers incl. negative/fractional/huge, booleans, nil) with 8 argument lists on "
                "structs, and a traversal of every container; non-trivial = key type differs from the container's key type, or "
                "container behind a pointer, or length >= 2")
    run.assumptions = ["abstract content of each fixture id is the one listed in spec/props/C16.tla",
                       "where the property does not decide (float key on map[int], non-integral index) only 'no panic, result is an "
                       "element' is required"]
    if only is not None:
        cases = only
    else:
        r = common.run_tlc("C16", "C16_thorough" if run.tier == "thorough" else "C16", env={"VERIF_SEED": run.seed}, timeout=900)
        cases = r["lines"]
    obs, hooks = common.run_pool(cases, deadline_ms=2000)
    run.hooks = hooks
    events, idx = [], []
    for c in cases:
        o = obs[c["id"]]
        nt = c["cid"].startswith(("ptr:", "nilptr")) or (c["k"] == "getattr" and keyclass(c) != "str") or c["k"] == "iterate"
        run.count(json.dumps([c["cid"], c.get("key"), c.get("args")], sort_keys=True), nt)
        ev = to_event(c, o)
        if ev is None:
            run.mismatch("C16 %s %s" % (c["k"], common.crash_sig(o)), c, "did not return: " + o["st"], observed=o)
            continue
        events.append(ev)
        idx.append((c, o))
    for k in (0, len(events) // 2, len(events) - 1):
        run.sample(events[k])
    rej, n = common.validate_trace("C16_Trace", events, batch=4000)
    run.traces += n
    for i, why in rej:
        c, o = idx[i]
        kind = c["cid"].split(":")[0] + (":" + c["cid"].split(":")[1] if ":" in c["cid"] else "")
        detail = ""
        if c["k"] == "getattr":
            detail = " key=%s nargs=%d" % (keyclass(c), len(c["args"]))
            if "panic" in o["obs"]:
                detail += " [" + o["obs"]["panic"].split(":")[0][:60] + "]"
        run.mismatch("C16 %s %s on %s%s" % (c["k"], why, kind, detail), c, "rejected by C16_Trace: " + why, observed=o["obs"])


def replay(run, path):
    m = json.load(open(path))
    check(run, only=[m["case"]])
