"""C07 Variable scoping: locals do not leak, assignments persist where they should."""
import exectrace
import simple


def nontrivial(v):
    return bool(v["x"].get("collide"))


def check(run, only=None):
    run.rule = ("programs pre;K;post with probes before/inside/after K; pre in 7 sets of template-level definitions over "
                "{x,y,loop,k,w}; K in for (3 key x 3 value names x 3 sequences x 7 bodies), if, set, set-capture, macro "
                "calls (4 parameter lists x 3 argument lists x 2 bodies), nested for/if (thorough: for in for); "
                "non-trivial = a local of K collides with a name defined before K")
    run.assumptions = ["bodies do not assign to their own loop/parameter names (excluded by the property statement)",
                       "macro bodies only touch their parameters and fresh names"]
    simple.gen_and_replay(run, "C07", nontrivial=nontrivial, only=only)

    if only is None:
        simple.tags_src(run, "C07")
        # binding T: seeded random programs over the whole schema, accepted by TLC against the reference executor
        exectrace.run_exec_trace(run, 20000 if run.tier == "thorough" else 1000, 7)


def replay(run, path):
    simple.replay_file(run, path, check)
