"""C01 Parsing is total: any source yields a tree or an error, never a crash or hang."""
import json

import common


def tokens_equal(exp, got):
    if len(exp) != len(got):
        return False
    for a, b in zip(exp, got):
        if a["typ"] != b["typ"] or a["line"] != b["line"] or a["col"] != b["col"]:
            return False
        if a["typ"] != "ERROR" and bytes(a["val"]) != bytes(b["val"]):
            return False
    return True


def klass(src):
    """coarse class of a failing source, used in signatures"""
    s = bytes(src)
    opens = [d for d in (b"{{", b"{%", b"{#") if d in s]
    last = max(opens, key=lambda d: s.rfind(d)) if opens else b""
    closed = {b"{{": b"}}", b"{%": b"%}", b"{#": b"#}"}.get(last, b"") in s[s.rfind(last):] if last else True
    return "%s %s" % (last.decode() or "text", "closed" if closed else "unclosed")


def run_cases(run, cases, exp_tokens=None):
    obs, hooks = common.run_pool(cases, deadline_ms=3000)
    run.hooks = hooks
    drift = 0
    for c in cases:
        o = obs[c["id"]]
        src = bytes(c["src"])
        run.count(src, any(d in src for d in (b"{{", b"{%", b"{#")))
        if len(run.samples) < 5 and (b"{" in src) and o["st"] == "ok":
            run.sample({"src": common.show(src), "parse_ok": o["obs"].get("parse_ok"), "tokens": len(o["obs"].get("tokens") or [])})
        if o["st"] != "ok":
            run.mismatch("C01 %s [%s]" % (common.crash_sig(o), klass(c["src"])), c, "parsing did not terminate normally: " + o["st"],
                         expected="a tree or an error", observed={"src": common.show(src), "detail": (o.get("err") or o.get("stderr") or "")[:800]})
            continue
        if exp_tokens and not o["obs"].get("nohooks"):
            if not tokens_equal(exp_tokens[c["id"]], o["obs"].get("tokens") or []):
                drift += 1
                if len(run.extra.setdefault("token_drift_samples", [])) < 5:
                    run.extra["token_drift_samples"].append({"src": common.show(src),
                                                             "spec": [(t["typ"], common.show(bytes(t["val"]))) for t in exp_tokens[c["id"]]],
                                                             "code": [(t["typ"], common.show(bytes(t["val"]))) for t in o["obs"].get("tokens") or []]})
    return drift


def check(run, only=None):
    thorough = run.tier == "thorough"
    run.rule = ("sources = concatenations of <= 3 fragments of a 70-fragment alphabet (every delimiter with and without '-', blank/TAB/"
                "LF/CR/CRLF, numbers, names, alphabetic and symbolic operators, quotes, '#{', brackets, punctuation, a 2-byte rune, "
                "an invalid byte, tag keywords) and every byte-prefix of them (all with <= 2 fragments, seeded stride of 3); plus "
                "every prefix and single-byte deletion of 14 corpus templates and seeded random byte strings, fragment strings, "
                "insertions and deletions; plus the structured sources of C20_Src.tla, Mix_Src.tla and C06_Src.tla (tag nestings, closers, "
                "else/elseif placement); 28 long flat runs (300000 prefix operators, postfix steps, conditionals, ** links, elseif "
                "branches, list elements, prints; a million + and ~ links) under a 64 MB stack limit; observed: parse.Parse, Env.Parse, Env.Execute (core and Twig) return; non-trivial = source "
                "contains an opening delimiter")
    run.assumptions = ["a token stream that differs from spec/Lexer.tla is counted as spec drift, not as a C01 violation (C14/C20 judge tokens)"]
    if only is not None:
        run_cases(run, only)
        return
    # negative configuration: "every token consumes input" must be refuted by TLC (the reason a channel buffer sized by the
    # source length cannot replace draining the tokeniser, see LexChan.tla Cap)
    common.run_tlc("C01_TokenBound", "C01_TokenBound_ok", count=False, timeout=300)
    neg = common.run_tlc("C01_TokenBound", "C01_TokenBound", expect_fail=True, count=False, timeout=300)
    if neg["ok"]:
        raise common.Infra("negative configuration C01_TokenBound was not refuted")
    r = common.run_tlc("C01", "C01_thorough" if thorough else "C01", env={"VERIF_SEED": run.seed}, timeout=3000, heap="12g")
    vecs = r["lines"]
    exp = {v["id"]: v["exp"]["tokens"] for v in vecs}
    cases = [{"id": v["id"], "k": "total", "src": v["src"]} for v in vecs]
    drift = run_cases(run, cases, exp)
    # structured sources: the block-structure family (every body-opening tag against every closer, nested two deep, cut off,
    # else/elseif in and out of place, stray closers, split operators) and the balanced/unbalanced tag nestings of the
    # byte-level grammars - the parser, not only the tokeniser, must return on each
    for mod in ("C20_Src", "Mix_Src", "C06_Src"):
        # (the quick configurations at both tiers: the thorough ones belong to C03/C06 and take half an hour each under load)
        rr = common.run_tlc(mod, mod, env={"VERIF_SEED": run.seed}, timeout=1800)
        sc = [{"id": "C01-s-" + v["id"], "k": "total", "noexec": True, "src": v["srcs"][v["entry"]]} for v in rr["lines"] if "srcs" in v and not v.get("oom")]
        run_cases(run, sc)
        run.traces += len(sc)
    # long FLAT runs (no bracket or tag nesting): prefix operators, postfix chains, conditionals, right- and left-associative
    # operator chains, sibling elseif branches - parsed under a 64 MB stack limit: the recursion depth of the parser must not be
    # proportional to the length of such a run
    n = 300000
    flat = [("{{ ", "-", "a }}", n), ("{{ ", "not ", "a }}", n), ("{{ a", ".a", " }}", n), ("{{ a", "|f", " }}", n), ("{{ a", "[0]", " }}", n),
            ("{{ ", "a?a:", "a }}", n), ("{{ a", "**a", " }}", n), ("{% if a %}", "{% elseif a %}", "{% endif %}", n),
            ("{{ a", "+a", " }}", 1000000), ("{{ a", " ~ 'x'", " }}", 1000000), ("{{ [", "a,", "a] }}", n), ("", "{{ a }}x", "", n),
            # the parts of an interpolated string; a sum of sums in parentheses (levels x links)
            ('{{ "', "#{a}", '" }}', 1000000), ("{{ " + "(" * 300, "a" + "+1" * 5000 + ")", " }}", 300),
            # every list the parser reads and every place where one more word may follow: names after a test, chained tests,
            # juxtaposed names, arguments, hash entries, import lists, parameter lists, alias lists, loop variables, filter chains
            ("{{ a is", " b", " }}", 1000000), ("{{ a is not", " b", " }}", 1000000), ("{{ a", " is b", " }}", n), ("{{ a", " b", " }}", n),
            ("{{ f(", "a,", "a) }}", n), ("{{ {", "a:1,", "a:1} }}", n), ("{% from 'p' import ", "a,", "a %}", n),
            ("{% macro m(", "a,", "a) %}{% endmacro %}", n), ("{% use 'p' with ", "a as b,", "a as b %}", n),
            ("{% for ", "a,", "a in b %}{% endfor %}", n), ("{% filter f", "|f", " %}{% endfilter %}", n), ("{{ 1", ".1", " }}", n),
            ("{{ a is divisible", " by", "(3) }}", n), ("{% import 'p' as ", "a ", "%}", n)]
    fc = [{"id": "C01-flat-%d" % i, "k": "total", "noexec": True, "rep": [a, b, c], "repn": k, "maxstack": 64, "src": [], "dl": 60000}
          for i, (a, b, c, k) in enumerate(flat)]
    fobs, _ = common.run_pool(fc, deadline_ms=60000, workers=4)
    for c in fc:
        o = fobs[c["id"]]
        run.count(json.dumps(c["rep"]), True)
        if o["st"] != "ok":
            run.mismatch("C01 flat run %s [%s]" % (common.crash_sig(o), c["rep"][1]), c,
                         "parsing a long flat run (%d x %r) did not terminate normally: %s" % (c["repn"], c["rep"][1], o["st"]),
                         observed=(o.get("err") or o.get("stderr") or "")[:600])
    run.traces += len(fc)
    rnd = common.run_gen("c01", 200000 if thorough else 6000, run.seed, run.tier)
    run_cases(run, rnd)
    run.extra["token_streams_differing_from_spec"] = drift
    run.traces += len(cases) + len(rnd)


def replay(run, path):
    m = json.load(open(path))
    check(run, only=[{k: x for k, x in m["case"].items() if not k.startswith("_")}])
