"""Shared shape of the executor-family checks: one TLA+ module per property holds the declarative invariants
(model checking on the reference executor) and prints the case vectors (binding G); the vectors are replayed
into the real code."""
import json

import common


def gen_and_replay(run, module, nontrivial=None, only=None, sigfn=None, check_log=True, timeout=3000, heap="8g",
                   quick_cfg=None, thorough_cfg=None, extra_env=None, deadline_ms=4000):
    thorough = run.tier == "thorough"
    if only is not None:
        vecs = only
    else:
        cfg = (thorough_cfg or module + "_thorough") if thorough else (quick_cfg or module)
        env = {"VERIF_SEED": run.seed}
        env.update(extra_env or {})
        r = common.run_tlc(module, cfg, env=env, timeout=timeout, heap=heap)
        vecs = r["lines"]
        if not vecs:
            raise common.Infra("%s/%s printed no vectors" % (module, cfg))
    before = run.oom
    common.replay_vectors(run, vecs, nontrivial=nontrivial, sigfn=sigfn, check_log=check_log, deadline_ms=deadline_ms)
    run.traces += len(vecs) - (run.oom - before)
    return vecs


def replay_file(run, path, checkfn):
    m = json.load(open(path))
    case = dict(m["case"])
    case.pop("_src", None)
    checkfn(run, only=[case])


def tags_src(run, prop, sigfn=None):
    """Header forms of the tags that belong to `prop`, written as source and decided by Lexer.tla -> Parser.tla -> Exec.tla
    (spec/props/Tags_Src.tla); the real code must render what the pipeline says."""
    r = common.run_tlc("Tags_Src", "Tags_Src", env={"VERIF_SEED": run.seed}, timeout=900)
    vecs = [v for v in r["lines"] if v.get("prop") == prop]
    if not vecs:
        raise common.Infra("Tags_Src has no case for %s" % prop)
    for v in vecs:
        v.pop("oom", None)
    common.replay_vectors(run, vecs, nontrivial=lambda v: True, sigfn=sigfn, check_log=False)
    run.traces += len(vecs)
