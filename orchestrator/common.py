"""Shared machinery of the checks: building the harness from /repo's working tree,
running TLC (model checking, vector generation, trace acceptance), running cases in the
worker pool, known-findings handling, evidence files, exit codes.

Exit codes of every check: 0 property held on everything explored; 1 + VIOLATION line for a
reproduced mismatch that is not a listed known finding; 2 infrastructure trouble (never a verdict).
"""
import atexit
import hashlib
import json
import os
import re
import shutil
import subprocess
import sys
import tempfile
import time

VERIF = os.path.dirname(os.path.dirname(os.path.abspath(__file__)))
REPO = os.environ.get("VERIF_REPO", "/repo")
SPEC = os.path.join(VERIF, "spec")
HARNESS = os.path.join(VERIF, "harness")
NCPU = os.cpu_count() or 4

GOENV = dict(GOFLAGS="-mod=mod", GOPROXY="off", GOSUMDB="off", GOTOOLCHAIN="local")


class Infra(Exception):
    """Infrastructure trouble: exit 2, never a violation."""


_scratch = None


def scratch():
    global _scratch
    if _scratch is None:
        _scratch = tempfile.mkdtemp(prefix="verif-")
        atexit.register(lambda: shutil.rmtree(_scratch, ignore_errors=True))
    return _scratch


def log(*a):
    print(*a, file=sys.stderr, flush=True)


# ----------------------------------------------------------------------------- harness build

_built = {}


def build_harness(race=False):
    """go build the harness against /repo's current working tree. Tries -tags verif first;
    if the tree only builds without the tag (someone edited a hooked line) falls back to a
    no-hook build and reports hooks=False."""
    key = ("race" if race else "plain")
    if key in _built:
        return _built[key]
    env = dict(os.environ)
    env.update(GOENV)
    if REPO != "/repo":
        env["GOFLAGS"] = "-mod=mod"
    out = os.path.join(scratch(), "verifh" + ("-race" if race else ""))
    # go.sum must match the repository's
    try:
        shutil.copyfile(os.path.join(REPO, "go.sum"), os.path.join(HARNESS, "go.sum"))
    except OSError:
        pass
    moddir = HARNESS
    if REPO != "/repo":
        # private copy of the harness module with the replace directive pointing at REPO
        moddir = os.path.join(scratch(), "harness-src")
        if not os.path.isdir(moddir):
            shutil.copytree(HARNESS, moddir)
            gm = open(os.path.join(moddir, "go.mod")).read().replace("=> /repo", "=> " + REPO)
            open(os.path.join(moddir, "go.mod"), "w").write(gm)
    last = None
    for tags, hooks in ((["-tags", "verif"], True), ([], False)):
        cmd = ["go", "build"] + (["-race"] if race else []) + tags + ["-o", out, "."]
        p = subprocess.run(cmd, cwd=moddir, env=env, capture_output=True, text=True)
        if p.returncode == 0:
            _built[key] = (out, hooks)
            return _built[key]
        last = p.stderr
    raise Infra("harness does not build against %s:\n%s" % (REPO, last))


# ----------------------------------------------------------------------------- TLC

_tlc_stats = {"distinct": 0, "generated": 0, "runs": []}

STATE_RE = re.compile(r"(\d+) states generated, (\d+) distinct states found")


def _spec_copy():
    d = os.path.join(scratch(), "spec")
    if not os.path.isdir(d):
        shutil.copytree(SPEC, d)
        # flatten props/ next to the modules they extend
        pd = os.path.join(d, "props")
        if os.path.isdir(pd):
            for f in os.listdir(pd):
                shutil.copy(os.path.join(pd, f), os.path.join(d, f))
    return d


def run_tlc(module, cfg=None, env=None, workers=None, timeout=600, heap="6g", simulate=None,
            deadlock=False, expect_fail=False, count=True, extra=None):
    """Runs TLC on spec/<module>.tla with spec/<cfg>.cfg in a scratch copy.
    Returns dict(ok, states, distinct, lines (decoded JSON objects printed by the spec), text)."""
    d = _spec_copy()
    cfg = cfg or module
    md = tempfile.mkdtemp(prefix="md-", dir=scratch())
    e = dict(os.environ)
    e["JAVA_TOOL_OPTIONS"] = "-Xss512m -Xmx%s" % heap
    if env:
        e.update({k: str(v) for k, v in env.items()})
    cmd = ["timeout", str(timeout), "tlc", "-workers", str(workers or NCPU), "-metadir", md,
           "-config", cfg + ".cfg"]
    if not deadlock:
        cmd.append("-deadlock")   # -deadlock DISABLES deadlock checking in TLC
    if simulate:
        cmd += ["-simulate", simulate]
    if extra:
        cmd += extra
    cmd.append(module + ".tla")
    t0 = time.time()
    p = subprocess.run(cmd, cwd=d, env=e, capture_output=True, text=True, errors="replace")
    wall = time.time() - t0
    shutil.rmtree(md, ignore_errors=True)
    text = p.stdout + p.stderr
    lines = []
    for ln in p.stdout.splitlines():
        if ln.startswith('"{') or ln.startswith('"['):
            try:
                lines.append(json.loads(json.loads(ln)))
            except ValueError:
                pass
    states = distinct = 0
    for m in STATE_RE.finditer(text):
        states, distinct = int(m.group(1)), int(m.group(2))
    ok = (p.returncode == 0) and ("Model checking completed. No error has been found." in text
                                  or (simulate is not None))
    if p.returncode == 124:
        raise Infra("TLC timed out after %ss on %s/%s" % (timeout, module, cfg))
    if count:
        _tlc_stats["distinct"] += distinct
        _tlc_stats["generated"] += states
        _tlc_stats["runs"].append({"module": module, "cfg": cfg, "generated": states, "distinct": distinct,
                                   "wall_s": round(wall, 1), "ok": ok,
                                   "cmd": " ".join(cmd[2:])})
    if not ok and not expect_fail:
        tail = "\n".join(text.splitlines()[-40:])
        raise Infra("TLC failed on %s/%s (exit %s):\n%s" % (module, cfg, p.returncode, tail))
    return dict(ok=ok, states=states, distinct=distinct, lines=lines, text=text, wall=wall)


def tlc_totals():
    return _tlc_stats


# ----------------------------------------------------------------------------- pool

def run_pool(cases, deadline_ms=2000, workers=None, race=False):
    """Runs cases (dicts with 'id' and 'k') against the real code. Returns (id -> observation), hooks."""
    binary, hooks = build_harness(race=race)
    inp = os.path.join(scratch(), "cases-%d.ndjson" % (time.time_ns()))
    n = 0
    with open(inp, "w") as f:
        for c in cases:
            f.write(json.dumps(c, separators=(",", ":")))
            f.write("\n")
            n += 1
    outp = inp + ".obs"
    with open(inp) as fi, open(outp, "w") as fo:
        p = subprocess.run([binary, "pool", "-workers", str(workers or NCPU), "-deadline", str(deadline_ms)],
                           stdin=fi, stdout=fo, stderr=subprocess.PIPE, text=True)
    if p.returncode != 0:
        raise Infra("worker pool failed: " + p.stderr[-2000:])
    res = {}
    with open(outp) as f:
        for ln in f:
            try:
                o = json.loads(ln)
            except ValueError:
                raise Infra("unparseable observation line: " + ln[:200])
            res[o.get("id")] = o
    os.unlink(inp)
    os.unlink(outp)
    if len(res) != n:
        raise Infra("pool returned %d observations for %d cases" % (len(res), n))
    bad = [o for o in res.values() if o.get("st") in ("badcase", "badobs")]
    if bad:
        raise Infra("harness rejected a case: " + json.dumps(bad[0])[:500])
    return res, hooks


def run_gen(family, n, seed, tier):
    """Seeded random cases from the Go-side generators."""
    binary, _ = build_harness()
    p = subprocess.run([binary, "gen", "-family", family, "-n", str(n), "-seed", str(seed), "-tier", tier],
                       capture_output=True, text=True)
    if p.returncode != 0:
        raise Infra("gen %s failed: %s" % (family, p.stderr[-2000:]))
    return [json.loads(l) for l in p.stdout.splitlines() if l.strip()]


# ----------------------------------------------------------------------------- trace acceptance

def validate_trace(module, events, cfg=None, batch=20000, env=None, timeout=900, heap="4g", par=None):
    """Binding T. events: list of dicts (one trace event each). The trace spec consumes one event per
    step, prints a {"rej": l, "why": ..} record for every event it cannot accept, and its
    POSTCONDITION requires that the whole file was consumed. Returns (rejections as list of
    (event index, why), number of events validated)."""
    import concurrent.futures
    files = []
    for b in range(0, len(events), batch):
        fn = os.path.join(scratch(), "trace-%s-%d-%d.ndjson" % (module, time.time_ns(), b))
        with open(fn, "w") as f:
            for ev in events[b:b + batch]:
                f.write(json.dumps(ev, separators=(",", ":")))
                f.write("\n")
        files.append((b, fn, min(batch, len(events) - b)))
    rej = []

    def one(item):
        b, fn, cnt = item
        e = dict(env or {})
        e["TRACE_FILE"] = fn
        r = run_tlc(module, cfg or module, env=e, workers=1, timeout=timeout, heap=heap, expect_fail=True)
        os.unlink(fn)
        if not r["ok"]:
            # the spec itself failed (evaluation error / not fully consumed): infrastructure
            tail = "\n".join(r["text"].splitlines()[-30:])
            raise Infra("trace spec %s did not run to completion on batch %d:\n%s" % (module, b, tail))
        out = []
        for o in r["lines"]:
            if isinstance(o, dict) and "rej" in o:
                out.append((b + o["rej"] - 1, o.get("why", "?")))
        return out

    par = par or max(1, min(8, NCPU // 2))
    with concurrent.futures.ThreadPoolExecutor(max_workers=par) as ex:
        for out in ex.map(one, files):
            rej.extend(out)
    return rej, len(events)


# ----------------------------------------------------------------------------- findings / verdict

def load_known(prop):
    known, fixed = [], []
    fn = os.path.join(VERIF, "known_findings.jsonl")
    if os.path.exists(fn):
        for ln in open(fn):
            ln = ln.strip()
            if not ln or ln.startswith("#"):
                continue
            r = json.loads(ln)
            if r.get("property") != prop:
                continue
            (known if r.get("status") == "known" else fixed).append(r)
    return known, fixed


class Run:
    """One check run: collects mismatches, coverage counts, writes evidence, decides the exit code."""

    def __init__(self, prop, tier, seed):
        self.prop, self.tier, self.seed = prop, tier, seed
        self.t0 = time.time()
        self.mismatches = []      # dicts: sig, case, expected, observed, why
        self.evaluations = 0
        self.nontrivial = set()
        self.samples = []
        self.traces = 0
        self.extra = {}
        self.assumptions = []
        self.rule = ""
        self.hooks = None
        self.oom = 0

    def count(self, case_key, nontrivial):
        self.evaluations += 1
        if nontrivial:
            self.nontrivial.add(hashlib.sha1(case_key.encode() if isinstance(case_key, str) else case_key).digest()[:8])

    def sample(self, s, cap=6):
        if len(self.samples) < cap:
            self.samples.append(s)

    def mismatch(self, sig, case, why, expected=None, observed=None):
        self.mismatches.append(dict(sig=sig, case=case, why=why, expected=expected, observed=observed))

    def finish(self):
        known, fixed = load_known(self.prop)
        known_sigs = {k["sig"]: k for k in known}
        hit = {}
        viol = []
        for m in self.mismatches:
            if m["sig"] in known_sigs:
                hit[m["sig"]] = hit.get(m["sig"], 0) + 1
            else:
                viol.append(m)
        for k in known:
            print("KNOWN-FINDING: property=%s %s [%s; observed %d time(s) in this run]" %
                  (self.prop, k.get("what", ""), k["sig"], hit.get(k["sig"], 0)))
        rdir = os.path.join(VERIF, "replays", self.prop)
        seen = set()
        nrep = 0
        for m in viol:
            if m["sig"] in seen and nrep >= 5:
                continue
            seen.add(m["sig"])
            os.makedirs(rdir, exist_ok=True)
            h = hashlib.sha1(json.dumps(m["case"], sort_keys=True).encode()).hexdigest()[:12]
            path = os.path.join(rdir, "%s-%s.json" % (self.prop, h))
            with open(path, "w") as f:
                json.dump(m, f, indent=1)
            print("VIOLATION property=%s replay=%s" % (self.prop, path))
            print("  why: %s | sig: %s" % (m["why"], m["sig"]))
            nrep += 1
            if nrep >= 20:
                break
        self.write_evidence(len(viol), hit)
        return 1 if viol else 0

    def write_evidence(self, nviol, hit=None):
        tot = tlc_totals()
        cov = {
            "states": tot["distinct"],
            "transitions": tot["generated"],
            "traces_validated_against_impl": self.traces,
            "samples": self.samples or ["(none)"],
            "evaluations": self.evaluations,
            "distinct_nontrivial": len(self.nontrivial),
            "rule": self.rule,
            "tlc_runs": tot["runs"],
            "hooks_build": self.hooks,
            "out_of_model": self.oom,
            "known_findings_observed": hit or {},
        }
        cov.update(self.extra)
        ev = {
            "property_id": self.prop, "tier": self.tier, "seed": self.seed, "level": "model_checking",
            "coverage": cov, "assumptions": self.assumptions,
            "wall_s": round(time.time() - self.t0, 1), "violations": nviol,
        }
        os.makedirs(os.path.join(VERIF, "evidence"), exist_ok=True)
        with open(os.path.join(VERIF, "evidence", self.prop + ".json"), "w") as f:
            json.dump(ev, f, indent=1)
