"""Shared machinery of the checks: building the harness from /repo's working tree,
running TLC (model checking, vector generation, trace acceptance), running cases in the
worker pool, known-findings handling, evidence files, exit codes.

Exit codes of every check: 0 property held on everything explored; 1 + VIOLATION line for a
reproduced mismatch that is not a listed known finding; 2 infrastructure trouble (never a verdict).
"""
import atexit
import hashlib
import json
import os
import re
import shutil
import subprocess
import sys
import tempfile
import threading
import time

VERIF = os.path.dirname(os.path.dirname(os.path.abspath(__file__)))
REPO = os.environ.get("VERIF_REPO", "/repo")
SPEC = os.path.join(VERIF, "spec")
HARNESS = os.path.join(VERIF, "harness")
NCPU = os.cpu_count() or 4

GOENV = dict(GOFLAGS="-mod=mod", GOPROXY="off", GOSUMDB="off", GOTOOLCHAIN="local")


class Infra(Exception):
    """Infrastructure trouble: exit 2, never a violation."""


_scratch = None


_scratch_lock = threading.Lock()


def scratch():
    global _scratch
    with _scratch_lock:
        if _scratch is None:
            _scratch = tempfile.mkdtemp(prefix="verif-")
            atexit.register(lambda: shutil.rmtree(_scratch, ignore_errors=True))
        return _scratch


def log(*a):
    print(*a, file=sys.stderr, flush=True)


# ----------------------------------------------------------------------------- harness build

_built = {}


def build_harness(race=False):
    """go build the harness against /repo's current working tree. Tries -tags verif first;
    if the tree only builds without the tag (someone edited a hooked line) falls back to a
    no-hook build and reports hooks=False."""
    key = ("race" if race else "plain")
    if key in _built:
        return _built[key]
    env = dict(os.environ)
    env.update(GOENV)
    if REPO != "/repo":
        env["GOFLAGS"] = "-mod=mod"
    out = os.path.join(scratch(), "verifh" + ("-race" if race else ""))
    # go.sum must match the repository's
    try:
        shutil.copyfile(os.path.join(REPO, "go.sum"), os.path.join(HARNESS, "go.sum"))
    except OSError:
        pass
    moddir = HARNESS
    if REPO != "/repo":
        # private copy of the harness module with the replace directive pointing at REPO
        moddir = os.path.join(scratch(), "harness-src")
        if not os.path.isdir(moddir):
            shutil.copytree(HARNESS, moddir)
            gm = open(os.path.join(moddir, "go.mod")).read().replace("=> /repo", "=> " + REPO)
            open(os.path.join(moddir, "go.mod"), "w").write(gm)
    last = None
    for tags, hooks in ((["-tags", "verif"], True), ([], False)):
        cmd = ["go", "build"] + (["-race"] if race else []) + tags + ["-o", out, "."]
        p = subprocess.run(cmd, cwd=moddir, env=env, capture_output=True, text=True)
        if p.returncode == 0:
            _built[key] = (out, hooks)
            return _built[key]
        last = p.stderr
    raise Infra("harness does not build against %s:\n%s" % (REPO, last))


# ----------------------------------------------------------------------------- TLC

_tlc_stats = {"distinct": 0, "generated": 0, "runs": []}

STATE_RE = re.compile(r"(\d+) states generated, (\d+) distinct states found")


_spec_lock = threading.Lock()


def _spec_copy():
    # trace batches are validated by several threads: the first TLC run of a check may be one of them
    with _spec_lock:
        d = os.path.join(scratch(), "spec")
        if not os.path.isdir(d):
            tmp = d + ".part"
            shutil.copytree(SPEC, tmp)
            # flatten props/ next to the modules they extend
            pd = os.path.join(tmp, "props")
            if os.path.isdir(pd):
                for f in os.listdir(pd):
                    shutil.copy(os.path.join(pd, f), os.path.join(tmp, f))
            os.rename(tmp, d)
        return d


def run_tlc(module, cfg=None, env=None, workers=None, timeout=600, heap="6g", simulate=None,
            deadlock=False, expect_fail=False, count=True, extra=None):
    """Runs TLC on spec/<module>.tla with spec/<cfg>.cfg in a scratch copy.
    Returns dict(ok, states, distinct, lines (decoded JSON objects printed by the spec), text)."""
    d = _spec_copy()
    cfg = cfg or module
    md = tempfile.mkdtemp(prefix="md-", dir=scratch())
    e = dict(os.environ)
    e["JAVA_TOOL_OPTIONS"] = "-Xss512m -Xmx%s -Djava.io.tmpdir=%s" % (heap, md)      # TLC leaves an empty tlc-<n> directory in its tmpdir
    if env:
        e.update({k: str(v) for k, v in env.items()})
    cmd = ["timeout", str(timeout), "tlc", "-workers", str(workers or NCPU), "-metadir", md,
           "-config", cfg + ".cfg"]
    if not deadlock:
        cmd.append("-deadlock")   # -deadlock DISABLES deadlock checking in TLC
    if simulate:
        cmd += ["-simulate", simulate]
    if extra:
        cmd += extra
    cmd.append(module + ".tla")
    t0 = time.time()
    p = subprocess.run(cmd, cwd=d, env=e, capture_output=True, text=True, errors="replace")
    wall = time.time() - t0
    shutil.rmtree(md, ignore_errors=True)
    text = p.stdout + p.stderr
    lines = []
    for ln in p.stdout.splitlines():
        if ln.startswith('"{') or ln.startswith('"['):
            try:
                lines.append(json.loads(json.loads(ln)))
            except ValueError:
                pass
    states = distinct = 0
    for m in STATE_RE.finditer(text):
        states, distinct = int(m.group(1)), int(m.group(2))
    ok = (p.returncode == 0) and ("Model checking completed. No error has been found." in text
                                  or (simulate is not None))
    if p.returncode == 124:
        raise Infra("TLC timed out after %ss on %s/%s" % (timeout, module, cfg))
    if count:
        _tlc_stats["distinct"] += distinct
        _tlc_stats["generated"] += states
        _tlc_stats["runs"].append({"module": module, "cfg": cfg, "generated": states, "distinct": distinct,
                                   "wall_s": round(wall, 1), "ok": ok,
                                   "cmd": " ".join(cmd[2:])})
    if not ok and not expect_fail:
        tail = "\n".join(text.splitlines()[-40:])
        raise Infra("TLC failed on %s/%s (exit %s):\n%s" % (module, cfg, p.returncode, tail))
    return dict(ok=ok, states=states, distinct=distinct, lines=lines, text=text, wall=wall)


def tlc_totals():
    return _tlc_stats


# ----------------------------------------------------------------------------- pool

def run_pool(cases, deadline_ms=2000, workers=None, race=False):
    """Runs cases (dicts with 'id' and 'k') against the real code. Returns (id -> observation), hooks."""
    binary, hooks = build_harness(race=race)
    penv = dict(os.environ)
    if race:
        # race reports go to <log_path>.<pid>; the conc handler reads its own file back
        penv["GORACE"] = "log_path=%s halt_on_error=0" % os.path.join(scratch(), "race")
    inp = os.path.join(scratch(), "cases-%d.ndjson" % (time.time_ns()))
    n = 0
    with open(inp, "w") as f:
        for c in cases:
            f.write(json.dumps(c, separators=(",", ":")))
            f.write("\n")
            n += 1
    outp = inp + ".obs"
    with open(inp) as fi, open(outp, "w") as fo:
        p = subprocess.run([binary, "pool", "-workers", str(workers or NCPU), "-deadline", str(deadline_ms)],
                           stdin=fi, stdout=fo, stderr=subprocess.PIPE, text=True, env=penv)
    if p.returncode != 0:
        raise Infra("worker pool failed: " + p.stderr[-2000:])
    res = {}
    with open(outp) as f:
        for ln in f:
            try:
                o = json.loads(ln)
            except ValueError:
                raise Infra("unparseable observation line: " + ln[:200])
            res[o.get("id")] = o
    os.unlink(inp)
    os.unlink(outp)
    if len(res) != n:
        raise Infra("pool returned %d observations for %d cases" % (len(res), n))
    bad = [o for o in res.values() if o.get("st") in ("badcase", "badobs")]
    if bad:
        raise Infra("harness rejected a case: " + json.dumps(bad[0])[:500])
    return res, hooks


def run_gen(family, n, seed, tier):
    """Seeded random cases from the Go-side generators."""
    binary, _ = build_harness()
    p = subprocess.run([binary, "gen", "-family", family, "-n", str(n), "-seed", str(seed), "-tier", tier],
                       capture_output=True, text=True)
    if p.returncode != 0:
        raise Infra("gen %s failed: %s" % (family, p.stderr[-2000:]))
    return [json.loads(l) for l in p.stdout.splitlines() if l.strip()]


# ----------------------------------------------------------------------------- trace acceptance

TRACE_STATS = {}


APALACHE_RUNS = []


def run_apalache(module, args, expect_fail=False, timeout=300):
    """A bonus step, never relied on for a verdict (DESIGN.md 5): Apalache on spec/<module>.tla. Returns "ok", "violated" or
    "unavailable" (tool missing, time-out, tool error) and records the run for the evidence file."""
    d = _spec_copy()
    out = tempfile.mkdtemp(prefix="apa-", dir=scratch())
    cmd = ["timeout", str(timeout), "apalache-mc", "check", "--out-dir=" + out] + args + [module + ".tla"]
    t0 = time.time()
    try:
        p = subprocess.run(cmd, cwd=d, stdout=subprocess.PIPE, stderr=subprocess.STDOUT, universal_newlines=True)
        txt = p.stdout
    except OSError as ex:
        txt, p = str(ex), None
    if p is not None and "EXITCODE: OK" in txt:
        res = "ok"
    elif p is not None and "EXITCODE: ERROR (12)" in txt:
        res = "violated"
    else:
        res = "unavailable"
    APALACHE_RUNS.append({"module": module, "args": " ".join(args), "result": res, "expected": "violated" if expect_fail else "ok",
                          "wall_s": round(time.time() - t0, 1)})
    shutil.rmtree(out, ignore_errors=True)
    return res


def validate_trace(module, events, cfg=None, batch=20000, env=None, timeout=900, heap="4g", par=None):
    """Binding T. events: list of dicts (one trace event each). The trace spec consumes one event per
    step, prints a {"rej": l, "why": ..} record for every event it cannot accept, and its
    POSTCONDITION requires that the whole file was consumed. Returns (rejections as list of
    (event index, why), number of events validated)."""
    import concurrent.futures
    files = []
    for b in range(0, len(events), batch):
        fn = os.path.join(scratch(), "trace-%s-%d-%d.ndjson" % (module, time.time_ns(), b))
        with open(fn, "w") as f:
            for ev in events[b:b + batch]:
                f.write(json.dumps(ev, separators=(",", ":")))
                f.write("\n")
        files.append((b, fn, min(batch, len(events) - b)))
    rej = []

    def one(item):
        b, fn, cnt = item
        e = dict(env or {})
        e["TRACE_FILE"] = fn
        r = run_tlc(module, cfg or module, env=e, workers=1, timeout=timeout, heap=heap, expect_fail=True)
        os.unlink(fn)
        if not r["ok"]:
            # the spec itself failed (evaluation error / not fully consumed): infrastructure
            tail = "\n".join(r["text"].splitlines()[-30:])
            raise Infra("trace spec %s did not run to completion on batch %d:\n%s" % (module, b, tail))
        out = []
        for o in r["lines"]:
            if isinstance(o, dict) and "rej" in o:
                out.append((b + o["rej"] - 1, o.get("why", "?")))
            elif isinstance(o, dict) and "stat" in o:
                TRACE_STATS.setdefault(module, {}).setdefault(o["stat"], 0)
                TRACE_STATS[module][o["stat"]] += 1
        return out

    par = par or max(1, min(8, NCPU // 2))
    with concurrent.futures.ThreadPoolExecutor(max_workers=par) as ex:
        for out in ex.map(one, files):
            rej.extend(out)
    return rej, len(events)


# ----------------------------------------------------------------------------- findings / verdict

def load_known(prop):
    known, fixed = [], []
    fn = os.path.join(VERIF, "known_findings.jsonl")
    if os.path.exists(fn):
        for ln in open(fn):
            ln = ln.strip()
            if not ln or ln.startswith("#"):
                continue
            r = json.loads(ln)
            if r.get("property") != prop:
                continue
            (known if r.get("status") == "known" else fixed).append(r)
    return known, fixed


class Run:
    """One check run: collects mismatches, coverage counts, writes evidence, decides the exit code."""

    def __init__(self, prop, tier, seed):
        self.prop, self.tier, self.seed = prop, tier, seed
        self.t0 = time.time()
        self.mismatches = []      # dicts: sig, case, expected, observed, why
        self.evaluations = 0
        self.nontrivial = set()
        self.samples = []
        self.traces = 0
        self.extra = {}
        self.assumptions = []
        self.rule = ""
        self.hooks = None
        self.oom = 0

    def count(self, case_key, nontrivial):
        self.evaluations += 1
        if nontrivial:
            self.nontrivial.add(hashlib.sha1(case_key.encode() if isinstance(case_key, str) else case_key).digest()[:8])

    def sample(self, s, cap=6):
        if len(self.samples) < cap:
            self.samples.append(s)

    def mismatch(self, sig, case, why, expected=None, observed=None):
        self.mismatches.append(dict(sig=sig, case=case, why=why, expected=expected, observed=observed))

    def finish(self):
        known, fixed = load_known(self.prop)
        known_sigs = {k["sig"]: k for k in known}
        hit = {}
        viol = []
        for m in self.mismatches:
            if m["sig"] in known_sigs:
                hit[m["sig"]] = hit.get(m["sig"], 0) + 1
            else:
                viol.append(m)
        for k in known:
            print("KNOWN-FINDING: property=%s %s [%s; observed %d time(s) in this run]" %
                  (self.prop, k.get("what", ""), k["sig"], hit.get(k["sig"], 0)))
        if viol:
            cnt = {}
            for m in viol:
                cnt[m["sig"]] = cnt.get(m["sig"], 0) + 1
            for sg, n in sorted(cnt.items(), key=lambda kv: -kv[1])[:60]:
                log("  %6d x %s" % (n, sg))
        rdir = os.path.join(VERIF, "replays", self.prop)
        seen = set()
        nrep = 0
        for m in viol:
            if m["sig"] in seen and nrep >= 5:
                continue
            seen.add(m["sig"])
            os.makedirs(rdir, exist_ok=True)
            h = hashlib.sha1(json.dumps(m["case"], sort_keys=True).encode()).hexdigest()[:12]
            path = os.path.join(rdir, "%s-%s.json" % (self.prop, h))
            with open(path, "w") as f:
                json.dump(m, f, indent=1)
            print("VIOLATION property=%s replay=%s" % (self.prop, path))
            print("  why: %s | sig: %s" % (m["why"], m["sig"]))
            nrep += 1
            if nrep >= 20:
                break
        self.write_evidence(len(viol), hit)
        return 1 if viol else 0

    def write_evidence(self, nviol, hit=None):
        tot = tlc_totals()
        cov = {
            "states": tot["distinct"],
            "transitions": tot["generated"],
            "traces_validated_against_impl": self.traces,
            "samples": self.samples or ["(none)"],
            "evaluations": self.evaluations,
            "distinct_nontrivial": len(self.nontrivial),
            "rule": self.rule,
            "tlc_runs": tot["runs"],
            "hooks_build": self.hooks,
            "out_of_model": self.oom,
            "known_findings_observed": hit or {},
        }
        if TRACE_STATS:
            cov["reference_status_of_validated_runs"] = TRACE_STATS
        if APALACHE_RUNS:
            cov["apalache_runs"] = APALACHE_RUNS
        cov.update(self.extra)
        ev = {
            "property_id": self.prop, "tier": self.tier, "seed": self.seed, "level": "model_checking",
            "coverage": cov, "assumptions": self.assumptions,
            "wall_s": round(time.time() - self.t0, 1), "violations": nviol,
        }
        # evidence under /verif describes /repo itself; runs against another tree (revert/seeded self-tests) write elsewhere
        evdir = os.path.join(VERIF, "evidence") if REPO == "/repo" else os.path.join(tempfile.gettempdir(), "verif-evidence-other-tree")
        if not self.prop.startswith("C"):
            evdir = os.path.join(VERIF, "evidence_extra")          # checks beyond the listed properties (X01 ...)
        os.makedirs(evdir, exist_ok=True)
        with open(os.path.join(evdir, self.prop + ".json"), "w") as f:
            json.dump(ev, f, indent=1)


# ----------------------------------------------------------------------------- binding G for render vectors

def normval(v):
    """Canonical form of a value JSON (spec side and Go side)."""
    if not isinstance(v, dict):
        return v
    t = v.get("t")
    if t == "hash":
        ps = [(bytes(p[0]).decode("latin1"), normval(p[1])) for p in v.get("pairs", [])]
        d = {}
        for k, x in ps:
            d[k] = x
        return ("hash", tuple(sorted(d.items(), key=lambda kv: kv[0])))
    if t == "arr":
        return ("arr", tuple(normval(x) for x in v.get("els", [])))
    if t == "num":
        return ("num", v["q"]) if "q" in v else ("numf", v.get("f"))
    if t == "str":
        return ("str", bytes(v.get("s", [])).decode("latin1"))
    if t == "bool":
        return ("bool", bool(v.get("b")))
    if t == "safe":
        return ("safe", normval(v.get("v")), tuple(sorted(v.get("types") or [])))
    if t == "macros":
        return ("macros",)
    return (t,)


def normlog(log, writes=True):
    out = []
    for ev in log or []:
        e = ev["e"]
        if e == "w":
            if not writes:
                continue
            d = bytes(ev.get("d") or [])
            if not d:
                continue
            if out and out[-1][0] == "w":
                out[-1] = ("w", out[-1][1] + d)
            else:
                out.append(("w", d))
        elif e == "load":
            out.append(("load", bytes(ev.get("name") or []).decode("latin1")))
        elif e == "cb":
            out.append(("cb", ev.get("kind"), ev.get("fn", ev.get("name")),
                        tuple(normval(a) for a in ev.get("args") or []), ev.get("tname")))
        elif e == "probe":
            sc = ev.get("scope") or {}
            if isinstance(sc, list):
                sc = {}
            out.append(("probe", normval(ev.get("k")), tuple(sorted((n, normval(x)) for n, x in sc.items())),
                        ev.get("tname")))
    return out


def show(x):
    if isinstance(x, bytes):
        return x.decode("utf-8", "replace")
    return x


def compare_render(vec, o, check_log=True):
    """Compares the observation of a render case with the reference. Returns None or (why, expected, observed)."""
    exp = vec["exp"]
    if o["st"] != "ok":
        return ("did not terminate normally: " + o["st"], exp["status"], (o.get("err") or o.get("stderr") or "")[:1500])
    ob = o["obs"]
    if ob["status"] != exp["status"]:
        return ("status: expected %s, observed %s" % (exp["status"], ob["status"]), exp["status"],
                {"status": ob["status"], "err": ob.get("err"), "out": show(bytes(ob["out"]))})
    if bytes(ob["out"]) != bytes(exp["out"]):
        return ("output differs", show(bytes(exp["out"])), show(bytes(ob["out"])))
    if "buf_out" in ob and (bytes(ob["buf_out"]) != bytes(exp["out"]) or ob["buf_err"] != (exp["status"] == "err")):
        return ("output differs when the writer is a *bytes.Buffer", show(bytes(exp["out"])),
                {"out": show(bytes(ob["buf_out"])), "error": ob["buf_err"]})
    if check_log:
        a, b = normlog(exp.get("log")), normlog(ob.get("log"))
        if a != b:
            for i in range(max(len(a), len(b))):
                x = a[i] if i < len(a) else None
                y = b[i] if i < len(b) else None
                if x != y:
                    kind = (x or y)[0]
                    return ("event log differs at event %d (%s)" % (i, kind), repr(x), repr(y))
    return None


def crash_sig(o):
    """A stable signature for panics/crashes: the first stick frame of the stack."""
    txt = o.get("stack") or o.get("stderr") or ""
    fn = "?"
    for ln in txt.splitlines():
        ln = ln.strip()
        if ln.startswith("github.com/tyler-sommer/stick") and "(" in ln:
            fn = ln[:ln.rindex("(")].split("/")[-1]
            break
    msg = (o.get("err") or "")
    if not msg:
        m2 = re.search(r"(panic: [^\n]*|fatal error: [^\n]*)", txt)
        msg = m2.group(1) if m2 else ""
    msg = re.sub(r"\[[^\]]*\]|0x[0-9a-f]+|\d+", "#", msg)[:80]
    return "%s in %s: %s" % (o.get("st"), fn, msg)


def replay_vectors(run, vectors, nontrivial=None, sigfn=None, check_log=True, deadline_ms=2000):
    """Binding G: replays TLC-printed vectors into the real code and compares the observables."""
    cases = []
    for v in vectors:
        if v.get("oom"):
            run.oom += 1
            continue
        cases.append(v)
    if not cases:
        return
    send = []
    for v in cases:
        c = {k: x for k, x in v.items() if k not in ("exp",)}
        send.append(c)
    obs, hooks = run_pool(send, deadline_ms=deadline_ms)
    run.hooks = hooks
    for v in cases:
        o = obs[v["id"]]
        key = json.dumps([v.get("tpls"), v.get("srcs"), v.get("ctx"), v.get("fault"), v.get("sp")], sort_keys=True)
        run.count(key, nontrivial(v) if nontrivial else True)
        m = compare_render(v, o, check_log=check_log)
        srcs = (o.get("obs") or {}).get("srcs")
        if len(run.samples) < 4 and o["st"] == "ok":
            run.sample({"id": v["id"], "src": srcs, "expected_out": show(bytes(v["exp"]["out"])),
                        "expected_status": v["exp"]["status"]})
        if m:
            why, e, g = m
            if sigfn:
                sig = sigfn(v, o, why)
            elif o["st"] != "ok":
                sig = "%s %s %s" % (run.prop, v.get("fam", ""), crash_sig(o))
            else:
                sig = "%s %s %s" % (run.prop, v.get("fam", ""), why.split(" at event")[0])
            case = dict(v)
            case["_src"] = srcs
            run.mismatch(sig, case, why, expected=e, observed=g)
