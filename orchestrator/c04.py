"""C04 Operator precedence and associativity follow the operator table."""
import json

import common


def numtext(q):
    neg = q < 0
    q = abs(q)
    ip, fr = q // 64, (q % 64) * 15625
    s = str(ip)
    if fr:
        s += "." + ("%06d" % fr).rstrip("0")
    return "-" + s if neg else s


def norm_ref(t):
    k = t["k"]
    if k == "bin":
        return ("bin", t["op"], norm_ref(t["l"]), norm_ref(t["r"]))
    if k == "un":
        return ("un", t["op"], norm_ref(t["x"]))
    if k == "test":
        return ("test", bool(t["neg"]), t["name"], norm_ref(t["x"]))
    if k == "tern":
        return ("tern", norm_ref(t["c"]), norm_ref(t["t"]), norm_ref(t["f"]))
    if k == "group":
        return norm_ref(t["x"])
    if k == "num":
        return ("num", numtext(t["q"]))
    return (k,)


def norm_obs(t):
    k = t["k"]
    kids = t.get("kids") or []
    if k == "bin":
        return ("bin", t.get("op"), norm_obs(kids[0]), norm_obs(kids[1])) if len(kids) == 2 else ("bin?",)
    if k == "un":
        return ("un", t.get("op"), norm_obs(kids[0])) if kids else ("un?",)
    if k == "test":
        return ("test", bool(t.get("neg")), t.get("name"), norm_obs(kids[0])) if kids else ("test?",)
    if k == "tern":
        return ("tern",) + tuple(norm_obs(x) for x in kids)
    if k == "group":
        return norm_obs(kids[0]) if kids else ("group?",)
    if k == "num":
        return ("num", t.get("txt"))
    return (k,)


def show_tree(t):
    if t[0] == "bin":
        return "(%s %s %s)" % (show_tree(t[2]), t[1], show_tree(t[3]))
    if t[0] == "un":
        return "(%s %s)" % (t[1], show_tree(t[2]))
    if t[0] == "test":
        return "(%s is%s %s)" % (show_tree(t[3]), " not" if t[1] else "", t[2])
    if t[0] == "tern":
        return "(%s ? %s : %s)" % tuple(show_tree(x) for x in t[1:])
    if t[0] == "num":
        return t[1]
    return str(t)


def judge(v, o):
    if o["st"] != "ok":
        return "parsing or rendering did not terminate normally: " + o["st"], None, (o.get("err") or o.get("stderr") or "")[:600]
    ob, exp = o["obs"], v["exp"]
    want = norm_ref(exp["shape"])
    if not ob.get("parse_ok"):
        return "does not parse", show_tree(want), ob.get("parse_err")
    got = norm_obs(ob["shape"])
    if got != want:
        return "grouping differs from the operator table", show_tree(want), show_tree(got)
    if ob["flat_ok"] != ob["paren_ok"] or ob["flat_out"] != ob["paren_out"]:
        return ("unparenthesised form evaluates differently from its fully parenthesised form",
                common.show(bytes(ob["paren_out"])), common.show(bytes(ob["flat_out"])))
    if "compact_ok" in ob and (ob["compact_ok"] != ob["flat_ok"] or ob["compact_out"] != ob["flat_out"]):
        return ("the unparenthesised form evaluates differently when no blank separates an alphabetic operator from a sign, quote or bracket",
                common.show(bytes(ob["flat_out"])), {"src": ob.get("compact_src"), "out": common.show(bytes(ob["compact_out"])), "err": ob.get("compact_err")})
    if "condflat_ok" in ob and (ob["condflat_ok"] != ob["condparen_ok"] or ob["condflat_out"] != ob["condparen_out"]):
        return ("as a condition (if, elseif, for-if, set, ?:) the unparenthesised form decides differently from its fully parenthesised form",
                common.show(bytes(ob["condparen_out"])), {"src": ob.get("condflat_src"), "out": common.show(bytes(ob["condflat_out"])), "err": ob.get("condflat_err")})
    if exp["status"] == "ok" and (not ob["flat_ok"] or bytes(ob["flat_out"]) != bytes(exp["out"])):
        return "value differs from the reference", common.show(bytes(exp["out"])), common.show(bytes(ob["flat_out"])) if ob["flat_ok"] else ob.get("flat_err")
    if exp["status"] == "err" and ob["flat_ok"]:
        return "reference evaluation fails but rendering succeeded", "error", common.show(bytes(ob["flat_out"]))
    return None


def check_chains(run, cases):
    """binding T: random chains rendered by the real code, judged by C04_Trace (reference parser + reference executor)"""
    obs, hooks = common.run_pool(cases, deadline_ms=4000)
    events, owner = [], []
    for c in cases:
        o = obs[c["id"]]
        run.count(json.dumps(c["toks"], sort_keys=True), sum(1 for t in c["toks"] if t["t"] == "op") >= 2)
        if o["st"] != "ok":
            run.mismatch("C04 random chain %s" % common.crash_sig(o), c, "parsing or rendering did not terminate normally: " + o["st"],
                         observed=(o.get("err") or o.get("stderr") or "")[:600])
            continue
        events.append({"toks": c["toks"], "ok": o["obs"]["ok"], "out": o["obs"]["out"]})
        owner.append((c, o["obs"]))
    rej, n = common.validate_trace("C04_Trace", events, batch=4000, heap="4g")
    run.traces += n
    for i, why in rej:
        c, ob = owner[i]
        case = dict(c)
        case["_src"] = ob["src"]
        run.mismatch("C04 random chain %s" % why, case, "recorded rendering rejected by C04_Trace: " + why,
                     observed={"src": ob["src"], "ok": ob["ok"], "out": common.show(bytes(ob["out"])), "err": ob.get("err")})
    if len(run.samples) < 6 and owner:
        run.sample({"random_chain": owner[0][1]["src"], "rendered": common.show(bytes(owner[0][1]["out"]))})


def check(run, only=None):
    run.rule = ("chains of 1..3 links (quick: all with <= 2 links, seeded stride of 3; thorough: every third with 3 links and a stride of 4) over 27 "
                "links (25 binary operators, 'is odd', 'is not even') x 5 unary-prefix variants x 3 conditional variants (none, "
                "trailing ?:, inner ?:); observed: AST shape from Env.Parse, rendering of the flat and of the fully parenthesised "
                "spelling, value; non-trivial = >= 2 links; plus (binding T) 4000 (thorough 60000) seeded random chains of 2..8 operands "
                "with stacked prefix operators, tests and parenthesised sub-chains, rendered by the real code and accepted or rejected "
                "by C04_Trace.tla (reference parser and executor)")
    run.assumptions = ["the documented operator table is parse/operator.go's, read as data in spec/Syntax.tla",
                       "chains whose reference evaluation leaves the C05 window are compared on shape and flat-vs-parenthesised only"]
    if only is not None and only[0].get("k") == "c04toks":
        check_chains(run, only)
        return
    if only is None:
        check_chains(run, common.run_gen("c04chain", 60000 if run.tier == "thorough" else 4000, run.seed * 1000 + 4, run.tier))
    if only is not None:
        vecs = only
    else:
        r = common.run_tlc("C04", "C04_thorough" if run.tier == "thorough" else "C04", env={"VERIF_SEED": run.seed}, timeout=3000, heap="10g")
        vecs = r["lines"]
    send = [{k: x for k, x in v.items() if k != "exp"} for v in vecs]
    obs, hooks = common.run_pool(send, deadline_ms=4000)
    run.hooks = hooks
    for v in vecs:
        o = obs[v["id"]]
        run.count(json.dumps(v["flat"], sort_keys=True), v["x"]["len"] >= 2)
        if len(run.samples) < 4 and o["st"] == "ok" and v["x"]["len"] == 3:
            run.sample({"src": o["obs"]["flat_src"], "reference_tree": show_tree(norm_ref(v["exp"]["shape"])), "value": common.show(bytes(v["exp"]["out"]))})
        j = judge(v, o)
        if j:
            why, e, g = j
            case = dict(v)
            case["_src"] = (o.get("obs") or {}).get("flat_src")
            run.mismatch("C04 %s" % why.split(":")[0], case, why, expected=e, observed=g)
    run.traces += len(vecs)


def replay(run, path):
    m = json.load(open(path))
    check(run, only=[{k: x for k, x in m["case"].items() if not k.startswith("_")}])
