"""C06 Conditionals and loops select and repeat bodies correctly."""
import json

import common
import simple
import exectrace


def nontrivial(v):
    if "tpls" not in v:
        return v["x"].get("n", 0) >= 3          # byte-level family: three or more fragments
    s = json.dumps(v["tpls"])
    return s.count('"k": "for"') + s.count('"k":"for"') >= 1 and (v["x"].get("n", 0) >= 2) or s.count("branches") >= 1 and s.count('"c"') >= 2


def check(run, only=None):
    thorough = run.tier == "thorough"
    run.rule = ("nestings of if/elseif/else (all truth assignments of 1-4 conditions, with/without else) and for (19 sequence "
                "expressions: array literals, ranges, context arrays, null, undefined, single-entry hashes, non-iterables) "
                "printing key, value and every loop field, inline conditions, loops in loops (x all pairs), conditionals "
                "in loops; thorough adds depth-3/4 nestings; non-trivial = a loop over >= 2 elements or >= 2 branches")
    run.assumptions = ["multi-entry hash iteration (Go map order) is outside the generated family"]
    if only is not None:
        vecs = only
    else:
        r = common.run_tlc("C06", "C06_thorough" if thorough else "C06", env={"VERIF_SEED": run.seed}, timeout=3000, heap="8g")
        vecs = r["lines"]
        # the same property decided from BYTES by the whole specification pipeline (Lexer -> Parser -> Exec): fragment sequences
        r2 = common.run_tlc("C06_Src", "C06_Src_thorough" if thorough else "C06_Src", env={"VERIF_SEED": run.seed}, timeout=3000, heap="8g")
        vecs = vecs + r2["lines"]
    common.replay_vectors(run, vecs, nontrivial=nontrivial)
    run.traces += len(vecs) - run.oom

    if only is None:
        simple.tags_src(run, "C06")
        # binding T: seeded random programs over the whole schema, accepted by TLC against the reference executor
        exectrace.run_exec_trace(run, 20000 if run.tier == "thorough" else 1000, 6)


def replay(run, path):
    m = json.load(open(path))
    check(run, only=[m["case"]])
