"""Binding T for the executor family: seeded random programs (harness generator `exec`), executed by Env.Execute with the
recording writer/loader/callbacks, and accepted or rejected by TLC against the reference executor (spec/props/ExecTrace.tla)."""
import json

import common

NULL = {"t": "null"}


def events_of(case, o):
    evs = [{"e": "prog", "tpls": case["tpls"], "entry": case["entry"], "ctx": case["ctx"]}]
    for ev in o["obs"].get("log") or []:
        if ev["e"] == "w":
            evs.append({"e": "w", "d": ev.get("d") or []})
        elif ev["e"] == "load":
            evs.append({"e": "load", "name": ev.get("name") or []})
        elif ev["e"] == "cb":
            evs.append({"e": "cb", "kind": ev.get("kind"), "fn": ev.get("fn"), "args": ev.get("args") or [], "tname": ev.get("tname", "")})
        elif ev["e"] == "probe":
            evs.append({"e": "probe", "k": ev.get("k") or NULL, "scope": ev.get("scope") or {}, "tname": ev.get("tname", "")})
    evs.append({"e": "ret", "ok": o["obs"]["status"] == "ok"})
    return evs


def run_exec_trace(run, n, seed_salt, cases=None):
    if cases is None:
        cases = common.run_gen("exec", n, run.seed * 1000 + seed_salt, run.tier)
    obs, hooks = common.run_pool(cases, deadline_ms=5000)
    batches, cur, owners, curown = [], [], [], []
    for c in cases:
        o = obs[c["id"]]
        key = json.dumps([c["tpls"], c["entry"]], sort_keys=True)
        run.count(key, key.count('"k": "') + key.count('"k":"') > 12)
        if o["st"] != "ok":
            run.mismatch("%s random-program %s" % (run.prop, common.crash_sig(o)), c, "execution did not terminate normally: " + o["st"],
                         observed=(o.get("err") or o.get("stderr") or "")[:1200])
            continue
        evs = events_of(c, o)
        cur.extend(evs)
        curown.extend([(c, o)] * len(evs))
        if len(cur) > 12000:
            batches.append(cur)
            owners.append(curown)
            cur, curown = [], []
    if cur:
        batches.append(cur)
        owners.append(curown)
    nprog = 0
    for b, own in zip(batches, owners):
        rej, _ = common.validate_trace("ExecTrace", b, batch=10 ** 9, heap="6g")
        nprog += sum(1 for e in b if e["e"] == "prog")
        seen = set()
        for i, why in rej:
            c, o = own[i]
            if c["id"] in seen:
                continue
            seen.add(c["id"])
            case = dict(c)
            case["_src"] = o["obs"].get("srcs")
            run.mismatch("%s random-program %s" % (run.prop, why), case, "recorded run rejected by ExecTrace: " + why,
                         observed={"out": common.show(bytes(o["obs"]["out"])), "status": o["obs"]["status"], "err": o["obs"].get("err")})
    run.traces += nprog
    run.extra["random_programs_trace_validated"] = run.extra.get("random_programs_trace_validated", 0) + nprog
    return nprog
