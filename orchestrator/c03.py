"""C03 Literal text, comments and verbatim sections are rendered faithfully."""
import simple


def nontrivial(v):
    if "srcs" in v:
        return v["x"].get("n", 0) >= 2          # byte-level family: two or more fragments
    return v["x"].get("nchunks", 0) >= 2 and v["x"].get("nstmts", 0) >= 3


def sigfn(v, o, why):
    import common
    src = ((o.get("obs") or {}).get("srcs") or {}).get("t", "")
    feat = []
    if "verbatim" in src:
        feat.append("verbatim")
    if v.get("fam") == "tight":
        feat.append("tight")
    if o["st"] != "ok":
        return "C03 %s %s" % ("+".join(feat), common.crash_sig(o))
    return "C03 %s %s" % ("+".join(feat), why.split(" at event")[0])


LITERALS = ["just text", "a{b}c %} #} -", "line1\r\nline2\n", "\u00e9\u20ac {", "x" * 5000]
FAILING = ["<<stale literal>>{{ nosuch() }}tail", "T{% include 'missing' %}U", "P{{ 1 % 0 }}Q", "{% for v in [1, 2] %}L{{ v }}{% if v == 2 %}{{ x|nosuchfilter }}{% endif %}{% endfor %}",
           "B{% block b %}in{{ block('nosuchblock') }}{% endblock %}", "{% filter upper %}F{{ nosuch() }}{% endfilter %}"]


def history_cases():
    """a template without delimiters renders to itself - also right after a render that failed part-way, through Execute and
    ExecuteSafe, on one environment (nothing a call leaves behind may reach the next)"""
    out = []
    n = 0
    for env in ("core", "twig"):
        for fi, f in enumerate(FAILING):
            for first_safe in (True, False):
                for second_safe in (True, False):
                    srcs = {"f": list(f.encode())}
                    calls = [{"entry": "f", "safe": first_safe}]
                    for li, lit in enumerate(LITERALS):
                        srcs["l%d" % li] = list(lit.encode())
                        calls.append({"entry": "l%d" % li, "safe": second_safe})
                        calls.append({"entry": "f", "safe": first_safe})
                    n += 1
                    out.append({"id": "C03-h%d" % n, "k": "seqrender", "env": env, "srcs": srcs, "calls": calls, "fresh": True})
    return out


def size_cases():
    """a template without delimiters renders to itself whatever its size and whichever loader delivers it (sizes around the
    usual buffer sizes), as the entry and as an included template; the expectation is the statement itself"""
    out = []
    n = 0
    for size in (1, 511, 512, 4095, 4096, 4097, 8191, 8192, 8193, 32768, 65537, 200001):
        unit = "0123456789abcdef{ } % # \u00e9\n"
        lit = (unit * (size // len(unit.encode()) + 1)).encode()[:size]
        if lit and lit[-1] >= 0x80:            # do not cut a multi-byte character (not required, keeps samples readable)
            lit = lit[:-1] + b"."
        for loader in ("", "memory", "fs"):
            for how in ("entry", "include", "extends"):
                n += 1
                srcs = {"big": list(lit)}
                if how == "entry":
                    entry, want = "big", lit
                elif how == "include":
                    srcs["t"] = list(b"head{% include 'big' %}tail")
                    entry, want = "t", b"head" + lit + b"tail"
                else:
                    srcs["t"] = list(b"{% extends 'big' %}{% block nothing %}x{% endblock %}")
                    entry, want = "t", lit
                out.append({"id": "C03-z%d" % n, "fam": "size", "k": "render", "env": ("core", "twig")[n % 2], "srcs": srcs, "entry": entry,
                            "ctx": {}, "loader": loader, "nolog": True, "x": {"n": 2, "size": size, "how": how},
                            "exp": {"status": "ok", "out": list(want), "log": []}})
    return out


def check_history(run, cases):
    import common
    obs, _ = common.run_pool(cases, deadline_ms=10000)
    for c in cases:
        o = obs[c["id"]]
        run.count(c["id"], True)
        if o["st"] != "ok":
            run.mismatch("C03 history %s" % common.crash_sig(o), c, "did not terminate normally: " + o["st"], observed=o)
            continue
        for call, res in zip(c["calls"], o["obs"]["results"]):
            if call["entry"] == "f":
                continue
            want = bytes(c["srcs"][call["entry"]])
            if not res["ok"] or bytes(res["out"]) != want:
                run.mismatch("C03 history: literal template after a failed render is not rendered to itself", c,
                             "a template without delimiters must render to itself", expected=common.show(want)[:200],
                             observed={"ok": res["ok"], "out": common.show(bytes(res["out"]))[:300], "safe": call["safe"]})
                break
    run.traces += len(cases)


def check(run, only=None):
    if only is not None and only[0].get("k") == "seqrender":
        check_history(run, only)
        return
    run.rule = ("skeletons: chunk construct chunk for 18 chunks (multi-byte UTF-8, LF, CRLF, lone { } % #, closing delimiters, '-') "
                "x 14 simple constructs (print, comments, verbatim bodies with prints/tags/comments), chunks alone and adjacent, "
                "and the same inside if/else/for/block/set/filter/macro bodies (depth 2; thorough depth 3), each in canonical and "
                "tight ({%if x%}) spelling; non-trivial = >= 2 literal chunks and >= 1 construct; plus byte-level sources decided by "
                "Lexer.tla+Parser.tla+Exec.tla: all sequences of up to 2 (thorough 3) of 20 source fragments, and verbatim "
                "sandwiches (5 spellings of the opening tag x bodies of up to 2 (3) fragments that would be syntax elsewhere x 3 "
                "spellings of the closing tag); delimiter-free templates of 12 sizes from 1 to 200001 bytes through the recording, "
                "memory and filesystem loaders, as entry, included and extended")
    run.assumptions = ["AST-level family: a literal run followed by a construct does not end in '{' (the byte-level family has no such exclusion)"]
    simple.gen_and_replay(run, "C03", nontrivial=nontrivial, only=only, sigfn=sigfn, check_log=False, deadline_ms=3000)
    if only is None:
        import common
        common.replay_vectors(run, size_cases(), nontrivial=lambda v: v["x"]["size"] > 1, check_log=False, deadline_ms=5000,
                              sigfn=lambda v, o, why: "C03 size %s [%s loader, %s]" % (why.split(":")[0], v["loader"] or "recording", v["x"]["how"]))
        check_history(run, history_cases())
        # the same property decided from BYTES by the whole specification pipeline (Lexer -> Parser -> Exec)
        simple.gen_and_replay(run, "C03_Src", nontrivial=nontrivial, sigfn=sigfn, check_log=False, deadline_ms=3000)
        # text inside any nesting of the body-opening tags (balanced fragment sequences of a grammar), again from bytes
        simple.gen_and_replay(run, "Mix_Src", nontrivial=nontrivial, sigfn=sigfn, check_log=False, deadline_ms=3000)


def replay(run, path):
    simple.replay_file(run, path, check)
