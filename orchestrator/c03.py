"""C03 Literal text, comments and verbatim sections are rendered faithfully."""
import simple


def nontrivial(v):
    if "srcs" in v:
        return v["x"].get("n", 0) >= 2          # byte-level family: two or more fragments
    return v["x"].get("nchunks", 0) >= 2 and v["x"].get("nstmts", 0) >= 3


def sigfn(v, o, why):
    import common
    src = ((o.get("obs") or {}).get("srcs") or {}).get("t", "")
    feat = []
    if "verbatim" in src:
        feat.append("verbatim")
    if v.get("fam") == "tight":
        feat.append("tight")
    if o["st"] != "ok":
        return "C03 %s %s" % ("+".join(feat), common.crash_sig(o))
    return "C03 %s %s" % ("+".join(feat), why.split(" at event")[0])


def check(run, only=None):
    run.rule = ("skeletons: chunk construct chunk for 18 chunks (multi-byte UTF-8, LF, CRLF, lone { } % #, closing delimiters, '-') "
                "x 14 simple constructs (print, comments, verbatim bodies with prints/tags/comments), chunks alone and adjacent, "
                "and the same inside if/else/for/block/set/filter/macro bodies (depth 2; thorough depth 3), each in canonical and "
                "tight ({%if x%}) spelling; non-trivial = >= 2 literal chunks and >= 1 construct; plus byte-level sources decided by "
                "Lexer.tla+Parser.tla+Exec.tla: all sequences of up to 2 (thorough 3) of 20 source fragments, and verbatim "
                "sandwiches (5 spellings of the opening tag x bodies of up to 2 (3) fragments that would be syntax elsewhere x 3 "
                "spellings of the closing tag)")
    run.assumptions = ["AST-level family: a literal run followed by a construct does not end in '{' (the byte-level family has no such exclusion)"]
    simple.gen_and_replay(run, "C03", nontrivial=nontrivial, only=only, sigfn=sigfn, check_log=False, deadline_ms=3000)
    if only is None:
        # the same property decided from BYTES by the whole specification pipeline (Lexer -> Parser -> Exec)
        simple.gen_and_replay(run, "C03_Src", nontrivial=nontrivial, sigfn=sigfn, check_log=False, deadline_ms=3000)
        # text inside any nesting of the body-opening tags (balanced fragment sequences of a grammar), again from bytes
        simple.gen_and_replay(run, "Mix_Src", nontrivial=nontrivial, sigfn=sigfn, check_log=False, deadline_ms=3000)


def replay(run, path):
    simple.replay_file(run, path, check)
