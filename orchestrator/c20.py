"""C20 Syntax errors are detected, and all reported positions are exact."""
import collections
import json

import common


def judge(v, o):
    if o["st"] != "ok":
        return "parsing did not terminate normally: " + o["st"], None, (o.get("err") or o.get("stderr") or "")[:500]
    ob, exp = o["obs"], v["exp"]
    if exp["ok"] and not ob["ok"]:
        return "well-formed source rejected", "a tree", ob.get("err")
    if not exp["ok"] and ob["ok"]:
        return "malformed source accepted", "an error", "a tree"
    if not exp["ok"]:
        at = exp.get("at")
        if at:
            e = ob.get("err") or {}
            if (e.get("line"), e.get("col")) != (at["line"], at["col"]):
                return "error not located at the offending token", (at["line"], at["col"]), (e.get("line"), e.get("col"), e.get("msg"))
        return None
    if v["fam"] == "truncation":
        return None
    want = collections.Counter()
    strs = []
    for a in exp["anchors"]:
        if a["kind"] == "str":
            strs.append((a["line"], a["col"]))
        else:
            want[(a["kind"], a["line"], a["col"])] += 1
    got = collections.Counter()
    gstrs = []
    for a in ob["anchors"]:
        if a["kind"] == "str":
            gstrs.append((a["line"], a["col"]))
        else:
            got[(a["kind"], a["line"], a["col"])] += 1
    if want != got:
        miss = sorted((want - got).elements())
        extra = sorted((got - want).elements())
        kinds = sorted({k for k, _, _ in miss} | {k for k, _, _ in extra})
        return "node position differs (%s)" % ",".join(kinds), miss, extra
    # the first byte of a string literal is its opening quote
    for (l, c) in sorted(strs):
        if (l, c) in gstrs:
            gstrs.remove((l, c))
        else:
            return "node position differs (str)", (l, c), sorted(gstrs)
    if gstrs:
        return "node position differs (str)", [], sorted(gstrs)
    return None


NAMES = ["inc.html", "dir/x.twig", "lib", "my%20page.twig", "100%done", "%s.twig", "%%.twig", "a b.html", "\u00fc.twig", "v1.2/a+b.twig", "%!d(x)%v"]
LOADERS = {
    "include": "{%% include '%s' %%}", "extends": "{%% extends '%s' %%}", "embed": "{%% embed '%s' %%}{%% endembed %%}",
    "import": "{%% import '%s' as m %%}", "from": "{%% from '%s' import a %%}", "use": "{%% extends 'ok' %%}{%% use '%s' %%}",
}
BAD = ["{% if %}", "a\n{{ 1 + }}", "{% foo %}", "x{% block b %}", "{{ 'unclosed }}",
       # what stands where a name is expected: in a for tag, after is / is not, and the word after the sequence of a for tag
       "line one\n{% for k, 5 in items %}{% endfor %}", "{% for 1 in items %}{% endfor %}", "a\nb {{ a is 5 }}", "{{ a is not 'x' }}",
       "{% for v in items\n  unless %}{% endfor %}",
       # an elseif with no if to belong to, a for tag without its keyword
       "x{% elseif a %}y{% endif %}", "{% for a b items %}{% endfor %}", "{% for a, b true items %}{% endfor %}",
       # a malformed print between the blocks of an embed
       "{% embed 'ok' %}\n{{ a 5 }}{% block b %}x{% endblock %}{% endembed %}", "{% embed 'ok' %}{{ }}{% endembed %}"]


def named_cases():
    out = []
    for n in NAMES:
        for kind, tpl in LOADERS.items():
            for bi, bad in enumerate(BAD):
                srcs = {"main": list((tpl % n).encode()), n: list(bad.encode()), "ok": list(b"O{% block b %}{% endblock %}")}
                out.append({"id": "C20-n-%s-%s-%d" % (n, kind, bi), "k": "render", "env": "core", "srcs": srcs, "entry": "main", "ctx": {},
                            "fam": "named-" + kind, "nolog": True, "expname": n})
                # nested: main includes mid which loads the bad template
                srcs2 = dict(srcs)
                srcs2["mid"] = srcs["main"]
                srcs2["main"] = list(b"{% include 'mid' %}")
                out.append({"id": "C20-nn-%s-%s-%d" % (n, kind, bi), "k": "render", "env": "core", "srcs": srcs2, "entry": "main", "ctx": {},
                            "fam": "named-nested-" + kind, "nolog": True, "expname": n})
        for bi, bad in enumerate(BAD):
            out.append({"id": "C20-ne-%s-%d" % (n, bi), "k": "render", "env": "core", "srcs": {n: list(bad.encode())}, "entry": n, "ctx": {},
                        "fam": "named-entry", "nolog": True, "expname": n})
        # the named template does not exist: the error of the library's own loaders says which one was asked for
        for kind, tpl in LOADERS.items():
            for ld in ("memory", "fs"):
                srcs = {"main": list((tpl % n).encode()), "ok": list(b"O{% block b %}{% endblock %}")}
                out.append({"id": "C20-nm-%s-%s-%s" % (n, kind, ld), "k": "render", "env": "core", "srcs": srcs, "entry": "main", "ctx": {},
                            "fam": "named-missing-" + kind, "nolog": True, "expname": n, "loader": ld, "msgonly": True})
    return out


def check_blocks(run, vecs):
    """byte-level block structure: acceptance and the offending tag name's position as decided by Parser.tla"""
    obs, hooks = common.run_pool([{k: x for k, x in v.items() if k != "exp"} for v in vecs], deadline_ms=4000)
    for v in vecs:
        o = obs[v["id"]]
        src = common.show(bytes(v["srcs"]["t"]))
        run.count(src, True)
        if o["st"] != "ok":
            run.mismatch("C20 blocks %s" % common.crash_sig(o), v, "did not terminate normally", observed=o)
            continue
        ob, exp = o["obs"], v["exp"]
        err = ob.get("err") or {}
        if exp["ok"] and not ob["ok"]:
            run.mismatch("C20 blocks: a template is rejected", v, "the specification's parser accepts this source, the parser rejects it",
                         expected="a tree", observed={"src": src, "err": err})
        elif not exp["ok"] and ob["ok"]:
            run.mismatch("C20 blocks: malformed block structure accepted", v,
                         "the source is not a template (offending token %s %s at %d:%d) but was parsed" %
                         (exp["attyp"], common.show(bytes(exp["atname"])), exp["line"], exp["col"]),
                         expected="an error", observed={"src": src})
        elif v.get("fam") == "trunc":
            if not exp["ok"] and err.get("line") and [err.get("line"), err.get("col")] not in [list(a) for a in exp["anchors"]]:
                run.mismatch("C20 trunc: the error of a cut-off source names no anchor", v,
                             "the position is neither the end of the input, the tokeniser's error, the last token nor a tag name",
                             expected={"one of": exp["anchors"]}, observed={"src": src, "err": err})
        elif not exp["ok"] and exp["attyp"] in ("NAME", "OPERATOR") and (err.get("line"), err.get("col")) != (exp["line"], exp["col"]) \
                and not (exp["attyp"] == "OPERATOR" and not err.get("line")):       # an error that reports no position reports no wrong one
            run.mismatch("C20 blocks: error not located at the offending tag name", v,
                         "the tag name %s at %d:%d has nothing to belong to" % (common.show(bytes(exp["atname"])), exp["line"], exp["col"]),
                         expected={"line": exp["line"], "col": exp["col"]}, observed={"src": src, "err": err})
    run.traces += len(vecs)


def check(run, only=None):
    thorough = run.tier == "thorough"
    if only is not None and only[0].get("fam") == "blocks":
        check_blocks(run, only)
        return
    if only is None:
        check_blocks(run, common.run_tlc("C20_Src", "C20_Src", env={"VERIF_SEED": run.seed}, timeout=900)["lines"])
    run.rule = ("templates of 1..3 constructs out of 112 (14 simple: text with LF/CRLF, prints, string with a newline, comment with a "
                "newline, set, include, do, conditional, call, import, attribute/filter chain; each also inside if/for/block/macro/"
                "filter/set/if-else bodies) with every white-space slot filled by blank, LF, CRLF+blank or LFLF: positions of text, "
                "print, tag, name, number, bool, null, string and call nodes; truncation at every byte offset of a stride of these; an "
                "illegal character or surplus literal injected at every slot, unknown tag name for every tag, after a 2-line prefix; "
                "errors in templates loaded by name through 6 constructs, nested and as entry (11 names, the message must contain the name); "
                "block structure on bytes (C20_Src.tla: 8 body-opening tags x 8 closers, two levels with matching and swapped closers, cut "
                "off, else/elseif in and out of place, stray closers) decided by Parser.tla: acceptance and the position of the offending "
                "tag name; non-trivial = >= 1 LF before the compared "
                "position, or a truncation/injection")
    run.assumptions = ["positions are compared for the node kinds the property lists; the anchor of a string literal is its opening quote; "
                       "for truncations the error must name an anchor (C20_Src) or, in the AST-level family, only be present"]
    if only is not None:
        vecs = only
    else:
        r = common.run_tlc("C20", "C20_thorough" if thorough else "C20", env={"VERIF_SEED": run.seed}, timeout=3000, heap="12g")
        vecs = r["lines"] + named_cases()
        # the source reaches the parser through a loader: two thirds of the cases go through the library's own MemoryLoader
        # and FilesystemLoader instead of the harness's recording loader (a loader must hand the bytes over unchanged)
        for n, v in enumerate(vecs):
            if (v.get("k") == "parsepos" or (v.get("k") == "render" and "srcs" in v)) and "loader" not in v:
                v["loader"] = ("", "memory", "fs")[n % 3]
    send = [{k: x for k, x in v.items() if k not in ("exp", "msgonly")} for v in vecs]
    obs, hooks = common.run_pool(send, deadline_ms=4000)
    run.hooks = hooks
    for v in vecs:
        o = obs[v["id"]]
        if v["k"] == "render":
            run.count(v["id"], True)
            if o["st"] != "ok":
                run.mismatch("C20 %s %s" % (v["fam"], common.crash_sig(o)), v, "did not terminate normally", observed=o)
                continue
            err = o["obs"].get("err") or {}
            if o["obs"]["status"] != "err":
                run.mismatch("C20 %s error not reported" % v["fam"], v, "a template with a syntax error was accepted", observed=o["obs"])
            elif (not v.get("msgonly") and err.get("name") != v["expname"]) or v["expname"] not in (err.get("msg") or ""):
                run.mismatch("C20 %s error does not name the template" % v["fam"], v,
                             "the error raised while loading '%s' does not identify it" % v["expname"],
                             expected=v["expname"], observed={"name": err.get("name"), "msg": err.get("msg")})
            continue
        src = bytes(v["src"])
        run.count(src, b"\n" in src or v["fam"] != "positions")
        if len(run.samples) < 4 and v["fam"] in ("positions", "injection") and b"\n" in src:
            run.sample({"family": v["fam"], "src": common.show(src), "expected": v["exp"]})
        j = judge(v, o)
        if j:
            why, e, g = j
            case = dict(v)
            case["_src"] = common.show(src)
            run.mismatch("C20 %s: %s" % (v["fam"], why.split(":")[0]), case, why, expected=e, observed=g)
    run.traces += len(vecs)
    if only is None:
        token_positions(run, 60000 if thorough else 1500)


def token_positions(run, n):
    """binding T: token streams of the real tokeniser on seeded random sources, accepted by C20_Trace.tla"""
    cases = [dict(c, k="lex") for c in common.run_gen("c01", n, run.seed * 17 + 3, run.tier)]
    obs, hooks = common.run_pool(cases, deadline_ms=4000)
    if not hooks:
        run.extra["token_position_traces"] = "skipped: tree does not build with -tags verif"
        return
    events, idx = [], []
    for c in cases:
        o = obs[c["id"]]
        if o["st"] != "ok" or not o["obs"].get("tokens"):
            continue            # termination is C01's subject
        src = bytes(c["src"])
        # inside an unclosed "#{" the tokeniser stops at the end of the string literal (not the whole source)
        events.append({"src": c["src"], "tokens": o["obs"]["tokens"], "interp": b"#{" in src})
        idx.append(c)
        run.count(b"T" + src, b"\n" in src)
    rej, cnt = common.validate_trace("C20_Trace", events, batch=4000)
    run.traces += cnt
    run.extra["token_position_traces"] = cnt
    for i, why in rej:
        c = idx[i]
        case = dict(c)
        case["_src"] = common.show(bytes(c["src"]))
        run.mismatch("C20 token stream: %s" % why, case, "token stream rejected by C20_Trace: " + why,
                     observed=[(t["typ"], common.show(bytes(t["val"])), t["line"], t["col"]) for t in events[i]["tokens"]][:40])


def replay(run, path):
    m = json.load(open(path))
    case = {k: x for k, x in m["case"].items() if not k.startswith("_")}
    if case.get("k") == "lex":
        obs, _ = common.run_pool([case])
        o = obs[case["id"]]
        ev = {"src": case["src"], "tokens": o["obs"]["tokens"], "interp": b"#{" in bytes(case["src"])}
        rej, _ = common.validate_trace("C20_Trace", [ev])
        for i, why in rej:
            run.mismatch(m["sig"], case, why)
        run.count(b"a", True)
        run.count(b"b", True)
        run.sample(common.show(bytes(case["src"])))
        return
    check(run, only=[case])
