"""X01 (beyond the listed properties): the implemented Twig filters return what spec/Filters.tla says."""
import common
import simple


def check(run, only=None):
    run.rule = ("19 implemented Twig filters (incl. json_encode) and the 9 registered-but-unimplemented ones (pass-through) x 29 values (null, booleans, numbers incl. negative and fractional, strings incl. blanks, "
                "punctuation and multi-byte, arrays, hashes) x their argument lists; the result is handed to a recording callback and "
                "compared as a typed value with spec/Filters.tla; undecided cases (out of model) are counted")
    run.assumptions = ["not one of the twenty listed properties: an extra check of the specification's coverage of the Twig filter "
                       "package (DESIGN.md 7.6); never run by MANIFEST.json commands"]
    simple.gen_and_replay(run, "X01", nontrivial=lambda v: True, only=only, check_log=True)


def replay(run, path):
    simple.replay_file(run, path, check)
