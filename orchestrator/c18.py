"""C18 A configured environment can be used concurrently."""
import json

import common


def check(run, only=None):
    thorough = run.tier == "thorough"
    run.rule = ("runs of N goroutines (8 quick; 8, 16 and 64 thorough) x rounds of Execute/Parse calls on ONE environment (Twig with "
                "auto-escaping, and core) over 11 templates of different content types (html, js, css, txt, inherited, embedding, "
                "importing, failing), each call with its own context map and writer, harness built with the race detector; "
                "observed: every call's output and error against the same call made alone, and the race detector's reports; "
                "non-trivial = every call of a run (calls of different content types overlap by construction: goroutines start "
                "together and interleave templates); plus gated runs in which a blocking user function holds all 64 (thorough: up to 128) "
                "callers at the same point inside Execute at the same moment - nine gated templates, the barrier inside a three-deep include, a "
                "loop body, an overriding block that calls parent(), a macro body, an embed override, a filter section and a capture, "
                "interpolations and filter arguments, between imported macro calls, after use")
    run.assumptions = ["the race detector observes the memory accesses of the traced run only; user callbacks and loader are race-free",
                       "absence of data races on unmodelled memory is observed, not model-checked"]
    # role 1: the design: with the traversal holding the visitor's lock every interleaving of 3 callers keeps OwnContentType
    common.run_tlc("C18", "C18", timeout=900)
    r = common.run_tlc("C18", "C18_neg", expect_fail=True, count=False, timeout=600)
    if r["ok"]:
        raise common.Infra("negative configuration C18_neg (shared visitor stack) was not rejected")
    if only is not None:
        cases = only
    else:
        cases = []
        shapes = [(8, 60)] * 6 if not thorough else [(8, 300)] * 10 + [(16, 200)] * 6 + [(64, 60)] * 4
        for i, (n, rounds) in enumerate(shapes):
            for env in ("twig", "core"):
                cases.append({"id": "C18-%s-%d" % (env, i), "k": "conc", "n": n, "rounds": rounds, "env": env,
                              "seed": run.seed * 31 + i, "dl": 120000, "fresh": True})
        # the same with the library's FilesystemLoader (templates in a directory): loading is part of a call
        for i, (n, rounds) in enumerate([(16, 40), (32, 20)] if not thorough else [(16, 200)] * 4 + [(64, 60)] * 2):
            for env in ("twig", "core"):
                cases.append({"id": "C18-fs-%s-%d" % (env, i), "k": "conc", "n": n, "rounds": rounds, "env": env, "loader": "fs",
                              "seed": run.seed * 31 + 7 + i, "dl": 120000, "fresh": True})
        # a race-free caching loader that hands the same stick.Template to concurrent calls (over the memory and the filesystem loader)
        for i, (n, rounds) in enumerate([(16, 30), (16, 30)] if not thorough else [(16, 200)] * 4):
            for env in ("twig", "core"):
                cases.append({"id": "C18-cache-%s-%d" % (env, i), "k": "conc", "n": n, "rounds": rounds, "env": env, "cache": True,
                              "loader": "fs" if i % 2 == 0 else "", "seed": run.seed * 31 + 11 + i, "dl": 120000, "fresh": True})
        # the schedule "every caller is inside Execute at once" (all pc = "print" in C18.tla), forced with a blocking user
        # function as scheduler gate: 64 callers x 3 nested includes
        for i, (n, rounds) in enumerate([(64, 9), (17, 18)] if not thorough else [(64, 45), (128, 18), (33, 36)]):
            for env in ("twig", "core"):
                cases.append({"id": "C18-gate-%s-%d" % (env, i), "k": "conc", "n": n, "rounds": rounds, "env": env, "gate": True,
                              "loader": "fs" if i % 2 else "",
                              "seed": run.seed * 31 + i, "dl": 120000, "fresh": True})
    obs, hooks = common.run_pool(cases, deadline_ms=120000, workers=4, race=True)
    run.hooks = hooks
    events, owner = [], []
    for c in cases:
        o = obs[c["id"]]
        if o["st"] != "ok":
            run.mismatch("C18 %s run %s" % (c["env"], common.crash_sig(o)), c, "concurrent run did not complete: " + o["st"],
                         observed=(o.get("err") or o.get("stderr") or "")[:2000])
            continue
        ob = o["obs"]
        for ev in ob["events"]:
            events.append(ev)
            owner.append((c, ob))
            run.count(json.dumps([c["id"], ev["g"], ev["round"]]), True)
        events.append({"e": "race", "n": ob["races"], "g": 0, "round": 0, "tpl": "", "api": "", "ok": True, "out": [], "alone_ok": True, "alone_out": []})
        owner.append((c, ob))
        if len(run.samples) < 2:
            e0 = ob["events"][len(ob["events"]) // 2]
            run.sample({"run": {k: c.get(k) for k in ("n", "rounds", "env", "gate")}, "call": {"g": e0["g"], "tpl": e0["tpl"], "api": e0["api"]},
                        "out": common.show(bytes(e0["out"])), "races_reported": ob["races"]})
    rej, n = common.validate_trace("C18_Trace", events, batch=6000)
    run.traces += n
    for i, why in rej:
        c, ob = owner[i]
        ev = events[i]
        if why == "data-race":
            rep = ob.get("race_report", "")
            fn = "?"
            for ln in rep.splitlines():
                ln = ln.strip()
                if ln.startswith("github.com/tyler-sommer/stick"):
                    fn = ln.split("(")[0].split("/")[-1] if "(" in ln else ln
                    fn = ln[:ln.rindex("(")].split("/")[-1] if "(" in ln else fn
                    break
            run.mismatch("C18 %s data race in %s" % (c["env"], fn), c, "the race detector reported %d data race(s)" % ob["races"], observed=rep[:3000])
        else:
            run.mismatch("C18 %s %s [%s]" % (c["env"], why, ev["tpl"]), c, "call rejected by C18_Trace: " + why,
                         expected=common.show(bytes(ev["alone_out"])), observed=common.show(bytes(ev["out"])))


def replay(run, path):
    m = json.load(open(path))
    check(run, only=[{k: x for k, x in m["case"].items() if not k.startswith("_")}])
