"""C08 Captured output goes only to its target; the main output resumes in order."""
import exectrace
import simple


def nontrivial(v):
    return v["x"].get("ncap", 0) >= 2


def check(run, only=None):
    run.rule = ("all nestings to depth 3 (quick) / 5 (thorough) of set-capture (value printed 0-2 times), filter sections with "
                "1-3 filters, macro calls, block(), loops, around text+print or a parent() call in an inheriting template; "
                "also two consecutive constructs; non-trivial = at least 2 captures are opened during the run")
    run.assumptions = ["expected output is defined structurally per construct in spec/props/C08.tla (independent of the writer stack)"]
    simple.gen_and_replay(run, "C08", nontrivial=nontrivial, only=only)

    if only is None:
        simple.tags_src(run, "C08")
        # binding T: seeded random programs over the whole schema, accepted by TLC against the reference executor
        exectrace.run_exec_trace(run, 20000 if run.tier == "thorough" else 1000, 8)


def replay(run, path):
    simple.replay_file(run, path, check)
