"""C19 No goroutines or file handles are left behind."""
import json

import common


def check(run, only=None):
    thorough = run.tier == "thorough"
    run.rule = ("call histories of length 1..3 over 66 calls = loader {string, memory, filesystem} x kind {valid, syntax error after "
                "0,1,2,3,5 constructs, unclosed tag at end of input, lexer error, run-time failure, missing template, syntax error "
                "in an included template} x API {Execute, Parse} (all of length <= 2, seeded stride of 3), plus long histories of "
                "failing calls; each history runs in a fresh worker process; observed: goroutine count, tokeniser goroutines (from "
                "runtime.Stack), open descriptors (/proc/self/fd) before and after a poll of up to 2 s, and the hook events "
                "lex.start/lex.exit/parse.ret; non-trivial = the history contains a failing call")
    run.assumptions = ["a blocked goroutine never leaves and an exiting one leaves within microseconds, so polling for up to 2 s cannot "
                       "raise a false alarm"]
    # the design: with close-on-return and close-after-read every history becomes quiescent and clean; the defect variants are caught
    common.run_tlc("LexChan", "LexChan_ok", deadlock=True, timeout=600)
    common.run_tlc("LexChan", "LexChan_buf_ok", deadlock=True, timeout=600)
    # a buffer instead of draining: rejected as soon as the tokens still to come exceed the capacity
    for neg, dl in (("LexChan_nodrain", True), ("LexChan_noclose", True), ("LexChan_buf_nodrain", True)):
        r = common.run_tlc("LexChan", neg, deadlock=dl, expect_fail=True, count=False, timeout=600)
        if r["ok"]:
            raise common.Infra("negative configuration %s was not rejected" % neg)
    # bonus (never decides the verdict): the same protocol for token streams of ANY length - Apalache proves IndInv of
    # spec/LexChanInd.tla inductive (base, step, per-step variant) and rejects the variant that does not signal `done`
    for args, neg in ((["--cinit=CInit", "--init=Init", "--inv=Safe", "--length=0"], False),
                      (["--cinit=CInit", "--init=IndInit", "--inv=Safe", "--length=1"], False),
                      (["--cinit=CInit", "--init=IndInit", "--inv=Variant", "--length=1"], False),
                      (["--cinit=CInitNoDrain", "--init=IndInit", "--inv=Safe", "--length=1"], True)):
        common.run_apalache("LexChanInd", args, expect_fail=neg)
    for neg in ("C19_neg_drain", "C19_neg_files"):
        r = common.run_tlc("C19", neg, expect_fail=True, count=False, timeout=600)
        if r["ok"]:
            raise common.Infra("negative configuration %s was not rejected" % neg)
    if only is not None:
        cases = only
    else:
        r = common.run_tlc("C19", "C19_thorough" if thorough else "C19", env={"VERIF_SEED": run.seed}, timeout=3000, heap="10g")
        cases = [c for c in r["lines"] if c.get("k") == "history"]
        # long histories: the same failing call many times (a leak per call adds up)
        n = 10000 if thorough else 300
        for i, op in enumerate([{"loader": "memory", "kind": "syn1", "api": "execute"}, {"loader": "fs", "kind": "incsyn", "api": "execute"},
                                {"loader": "string", "kind": "lexerr", "api": "parse"}, {"loader": "fs", "kind": "ok", "api": "execute"}]):
            cases.append({"id": "C19-long%d" % i, "k": "history", "ops": [op], "repeat": n, "dl": 60000})
    for c in cases:
        c.setdefault("dl", 6000)
    obs, hooks = common.run_pool(cases, deadline_ms=6000, workers=8)
    run.hooks = hooks
    events, owner = [], []
    for c in cases:
        o = obs[c["id"]]
        failing = any(op["kind"] not in ("ok",) for op in c["ops"])
        run.count(json.dumps([c["ops"], c.get("repeat", 1)]), failing)
        if o["st"] != "ok":
            run.mismatch("C19 history %s" % common.crash_sig(o), c, "history did not run to completion: " + o["st"], observed=o)
            continue
        ob = o["obs"]
        if len(run.samples) < 3 and failing:
            run.sample({"ops": c["ops"], "goroutines": [ob["goroutines_before"], ob["goroutines_after"]],
                        "fds": [ob["fds_before"], ob["fds_after"]], "events": (ob["events"] or [])[:12]})
        for ev in (ob["events"] or []):
            events.append({"e": ev["e"], "id": ev["id"]})
            owner.append(c)
        events.append({"e": "quiesce", "id": 0, "g0": ob["goroutines_before"], "g1": ob["goroutines_after"], "l0": ob["lexers_before"],
                       "l1": ob["lexers_after"], "f0": ob["fds_before"], "f1": ob["fds_after"]})
        owner.append(c)
    # batches must end on a quiesce event
    batches, cur = [], []
    for ev in events:
        cur.append(ev)
        if ev["e"] == "quiesce" and len(cur) > 20000:
            batches.append(cur)
            cur = []
    if cur:
        batches.append(cur)
    base = 0
    for b in batches:
        rej, n = common.validate_trace("C19_Trace", b, batch=10 ** 9)
        run.traces += sum(1 for e in b if e["e"] == "quiesce")
        for i, why in rej:
            c = owner[base + i]
            loaders = "+".join(sorted({op["loader"] for op in c["ops"]}))
            kinds = "+".join(sorted({op["kind"][:3] for op in c["ops"]}))
            run.mismatch("C19 %s [%s; %s]" % (why, loaders, kinds), c, "history rejected by C19_Trace: " + why, observed=obs[c["id"]]["obs"])
        base += len(b)


def replay(run, path):
    m = json.load(open(path))
    check(run, only=[{k: x for k, x in m["case"].items() if not k.startswith("_")}])
