"""C12 Auto-escaping: no unescaped data reaches the output of a Twig environment."""
import json

import common

CODES = {16: "html", 17: "html_attr", 18: "js", 19: "css", 20: "url"}


def segments(bs):
    """Splits reference output into literal bytes and symbolic escaped payloads (1, code, payload.., 2)."""
    out, i, n = [], 0, len(bs)
    lit = bytearray()
    while i < n:
        if bs[i] == 1:
            if lit:
                out.append(("lit", bytes(lit)))
                lit = bytearray()
            j = bs.index(2, i)
            out.append(("esc", CODES[bs[i + 1]], bytes(bs[i + 2:j])))
            i = j + 1
        else:
            lit.append(bs[i])
            i += 1
    if lit:
        out.append(("lit", bytes(lit)))
    return out


def check(run, only=None):
    run.rule = ("13 template names (html, js, css, txt, url, html_attr, .twig suffixes, no extension, unknown and upper-case "
                "extension, dot in a directory name, inline source) x 16 print forms (plain, explicit escape for 5 types, raw, values "
                "marked safe for the same/another type, filtered, concatenated, literal, number, empty, escape|raw, conditional) x 13 "
                "placements (top, if, else, for, for-else, block, inherited, included, embedded, embed override, capture, filter "
                "section, macro); payloads: one with every character significant in HTML/JS/CSS/URL, one with only an apostrophe, one with only quotes, one with none; non-trivial = a payload is printed "
                "below a construct or in a non-html template; plus 4 x 16 goroutines x 60 calls on one Twig environment over templates of "
                "four content types, each call compared with the same call made alone")
    run.assumptions = ["escaped payloads are expanded by TLC with the reference escapers of Escape.tla (css in the pinned 4-hex-digit format, see the C13 known finding)",
                       "results of captures/macros are re-printed with |raw (stick returns plain strings; statement judges the inner print)"]
    if only is not None:
        vecs = only
    else:
        r = common.run_tlc("C12", "C12_thorough" if run.tier == "thorough" else "C12", env={"VERIF_SEED": run.seed}, timeout=1800)
        vecs = r["lines"]
    # 1. the symbolic escaped segments were expanded by TLC with the REFERENCE escapers (exp.outc); the symbolic form is kept for display
    conc = []
    for v in vecs:
        segs = segments(v["exp"]["out"])
        exp = bytes(v["exp"]["outc"])
        v2 = dict(v)
        v2["exp"] = dict(v["exp"])
        v2["exp"]["out"] = list(exp)
        v2["exp"].pop("outc", None)
        v2["symbolic"] = [[sg[0], common.show(sg[1])] if sg[0] == "lit" else [sg[0], sg[1], common.show(sg[2])] for sg in segs]
        conc.append(v2)

    def nontrivial(v):
        return v["fam"] != "top" or v["x"]["name"] != "a.html"

    def sigfn(v, o, why):
        if o["st"] != "ok":
            return "C12 %s" % common.crash_sig(o)
        return "C12 %s name=%s form=%s" % (why.split(" at event")[0], v["x"]["name"], v["x"]["form"])
    common.replay_vectors(run, conc, nontrivial=nontrivial, sigfn=sigfn, check_log=False)
    run.traces += len(conc)
    if only is None:
        concurrent(run, [{"id": "C12-conc-%d" % i, "k": "conc", "n": 16, "rounds": 60 if run.tier != "thorough" else 400, "env": "twig",
                          "seed": run.seed * 17 + i, "dl": 120000, "fresh": True} for i in range(4 if run.tier != "thorough" else 8)])


def concurrent(run, cases):
    """templates of different content types (html, js, css, txt) parsed and executed from 16 goroutines on ONE Twig environment:
    the content type a print is escaped for is its own template's, whatever the other callers are parsing at that moment; each call
    is compared with the same call made alone (whose escaping the sequential part of this check has established)"""
    obs, _ = common.run_pool(cases, deadline_ms=120000, workers=4)
    for c in cases:
        o = obs[c["id"]]
        if o["st"] != "ok":
            run.mismatch("C12 concurrent run %s" % common.crash_sig(o), c, "concurrent run did not complete: " + o["st"],
                         observed=(o.get("err") or o.get("stderr") or "")[:2000])
            continue
        bad = [ev for ev in o["obs"]["events"] if ev["api"] == "execute" and (ev["ok"] != ev["alone_ok"] or ev["out"] != ev["alone_out"])]
        for ev in o["obs"]["events"]:
            run.count(json.dumps([c["id"], ev["g"], ev["round"]]), True)
        if bad:
            ev = bad[0]
            run.mismatch("C12 concurrent: escaped for another template's content type [%s]" % ev["tpl"], c,
                         "%d of %d concurrent calls differ from the same call made alone" % (len(bad), len(o["obs"]["events"])),
                         expected=common.show(bytes(ev["alone_out"])), observed=common.show(bytes(ev["out"])))
    run.traces += len(cases)


def replay(run, path):
    m = json.load(open(path))
    case = {k: x for k, x in m["case"].items() if not k.startswith("_")}

    def sigfn(v, o, why):
        return m["sig"]
    if case.get("k") == "conc":
        concurrent(run, [case])
        return
    common.replay_vectors(run, [case], sigfn=sigfn, check_log=False)
