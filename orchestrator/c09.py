"""C09 Template inheritance resolves every block to its most-derived override."""
import simple


def nontrivial(v):
    return v["x"].get("L", 1) >= 2 and bool(v["x"].get("over"))


def check(run, only=None):
    run.rule = ("inheritance configurations: chain length 1..4 x blocks {a,b} x each non-root level {absent, override, override "
                "calling parent()} x per-level use {none, use (imported block itself calls parent()), use..with alias rendered by "
                "block()} x layout {flat, nested block, block in a loop} x parent named by literal or expression; all with "
                "L<=3, and L=4 by seeded stride (quick) / all 118k (thorough); non-trivial = chain >= 2 with >= 1 override")
    run.assumptions = ["use appears only in extending templates; templates of a chain are distinct"]
    simple.gen_and_replay(run, "C09", nontrivial=nontrivial, only=only)

    if only is None:
        simple.tags_src(run, "C09")

def replay(run, path):
    simple.replay_file(run, path, check)
