"""C15 Coercions are total, uniform across Go types and mutually consistent."""
import json

import common


def judge(v, o):
    """-> list of (why, expected, observed)"""
    if o["st"] != "ok":
        return [("coercion did not return: " + o["st"], None, (o.get("err") or o.get("stderr") or "")[:800])]
    ob, exp, out = o["obs"], v["exp"], []
    for fn, key in (("CoerceString", "str_panic"), ("CoerceNumber", "num_panic"), ("CoerceBool", "bool_panic"), ("print", "print_panic")):
        if key in ob:
            out.append(("panic in " + fn, "no panic", ob[key]))
    if "str" in ob and bytes(ob["str"]) != bytes(exp["str"]["s"]):
        out.append(("CoerceString value", common.show(bytes(exp["str"]["s"])), common.show(bytes(ob["str"]))))
    if "num" in ob and "any" not in exp["num"] and common.normval(ob["num"]) != common.normval(exp["num"]):
        out.append(("CoerceNumber value", exp["num"], ob["num"]))
    if "bool" in ob and exp["bool"] != "any" and ob["bool"] != (exp["bool"] == "t"):
        out.append(("CoerceBool value", exp["bool"], ob["bool"]))
    if "printed" in ob and "str" in ob and bytes(ob["printed"]) != bytes(ob["str"]):
        out.append(("printed form differs from CoerceString", common.show(bytes(ob["str"])), common.show(bytes(ob["printed"]))))
    if "use_panic" in ob:
        out.append(("panic when a template uses the value as a number", "no panic", ob["use_panic"]))
    if "plus0" in ob and "any" not in exp["num"]:
        if common.normval(ob["plus0"]) != common.normval(exp["num"]) and exp["num"].get("q") != 0:      # -0 aside
            out.append(("value + 0 in a template differs from the coerced number", exp["num"], ob["plus0"]))
        q = exp["num"].get("q")
        if q is not None and "cmp" in ob:
            lt, gt = q < 80, q > 80                                   # 1.25 on the 1/64 grid
            want = [lt, gt, lt, gt, gt or q == 80, lt or q == 80]
            want[4], want[5] = (80 >= q), (80 <= q)
            if list(ob["cmp"]) != want:
                out.append(("ordering against 1.25 in a template differs from the coerced number", {"num": exp["num"], "want": want}, ob["cmp"]))
    return out


def check(run, only=None):
    thorough = run.tier == "thorough"
    run.rule = ("catalogue of 263 Go values (every numeric kind at 0, +-1, 3, 100, 127 and its range edges inside the window, "
                "fractions for floats, int64/uint64 extremes, strings numeric/non-numeric/empty/malformed, booleans, nil, typed nil "
                "pointers, slices, maps, structs, chan/func/complex, Stringer/Number/Boolean implementers by value and pointer, "
                "decimals, safe wrappers nested 1-3 deep) x three coercions and the printed form; plus float64 -> string -> "
                "number round trips on boundary and seeded random bit patterns (trace validation); non-trivial = not one of "
                "the literal values 0/1/3 of the existing tests")
    run.assumptions = ["fixture catalogue harness/fixtures.go builds the Go value each id denotes",
                       "truthiness of negative numbers and of the string '0' is not compared (stick and Twig differ; not claimed)"]
    if only is not None:
        vecs = only
    else:
        r = common.run_tlc("C15", "C15_thorough" if thorough else "C15", env={"VERIF_SEED": run.seed}, timeout=900)
        vecs = r["lines"]
    cases = [{k: x for k, x in v.items() if k != "exp"} for v in vecs]
    obs, hooks = common.run_pool(cases, deadline_ms=2000)
    run.hooks = hooks
    for v in vecs:
        o = obs[v["id"]]
        fid = v["v"]["id"]
        run.count(fid, fid not in ("num:int:0", "num:int:64", "num:int:192", "num:float64:192"))
        if len(run.samples) < 4:
            run.sample({"value": fid, "expected": v["exp"], "observed": o.get("obs")})
        for why, e, g in judge(v, o):
            cls = fid.split(":")[0] + (":" + fid.split(":")[1] if fid.startswith(("nilptr:", "safe:", "named:")) else "")
            run.mismatch("C15 %s on %s" % (why, cls), v, why, expected=e, observed=g)
    run.traces += len(vecs)
    if only is None:
        fc = common.run_gen("c15floats", 1000000 if thorough else 20000, run.seed, run.tier)
        fobs, _ = common.run_pool(fc, deadline_ms=2000)
        events, idx = [], []
        for c in fc:
            o = fobs[c["id"]]
            if o["st"] != "ok":
                run.mismatch("C15 float round trip " + o["st"], c, "did not return", observed=o)
                continue
            ev = dict(o["obs"])
            ev.setdefault("ival", 0)
            events.append(ev)
            idx.append(c)
            run.count("f" + c["bits"], True)
        run.sample({"float_roundtrip": events[len(events) // 2]})
        rej, n = common.validate_trace("C15_Trace", events, batch=50000)
        run.traces += n
        for i, why in rej:
            run.mismatch("C15 float " + why, idx[i], "round trip rejected by C15_Trace: " + why, observed=events[i])


def replay(run, path):
    m = json.load(open(path))
    if m["case"].get("k") == "floatrt":
        c = m["case"]
        fobs, _ = common.run_pool([c])
        ev = dict(fobs[c["id"]]["obs"])
        ev.setdefault("ival", 0)
        rej, n = common.validate_trace("C15_Trace", [ev])
        for i, why in rej:
            run.mismatch("C15 float " + why, c, "round trip rejected by C15_Trace: " + why, observed=ev)
        run.count("f" + c["bits"], True)
        run.count("f2" + c["bits"], True)
        run.sample(ev)
        return
    check(run, only=[m["case"]])
