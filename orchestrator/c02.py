"""C02 Execution is total: a parsed template renders or returns an error, never panics."""
import json

import common
import exectrace


def sigfn(v, o):
    what = v["x"].get("filter") or ("form%s" % v["x"].get("form"))
    return "C02 %s %s %s" % (v["fam"], what, common.crash_sig(o))


NAME_VALUES = [{"t": "str", "s": list(x.encode())} for x in
               ("", "inc", "missing", "/inc", "a/../inc", "inc/", ".", "..", "sub", "sub/x", "//", " ", "\u00e9", "inc\u0000x", "a" * 300)] \
    + [{"t": "null"}, {"t": "bool", "b": False}, {"t": "bool", "b": True}, {"t": "num", "q": 64}, {"t": "arr", "els": []},
       {"t": "hash", "pairs": []}]
LOADING = {
    "include": "A{% include n %}B", "include-only": "A{% include n with {a: 1} only %}B", "extends": "{% extends n %}{% block b %}x{% endblock %}",
    "embed": "A{% embed n %}{% block b %}x{% endblock %}{% endembed %}B", "use": "{% use n %}{{ block('b') }}",
    "import": "{% import n as L %}{{ L.m() }}", "from": "{% from n import m %}{{ m() }}",
}


def loader_cases():
    """every template-loading construct x the library's own loaders x names that are empty, missing, odd or not strings"""
    out = []
    files = {"inc": "I{% block b %}ib{% endblock %}{% macro m() %}M{% endmacro %}", "sub/x": "S{% block b %}sb{% endblock %}{% macro m() %}M{% endmacro %}"}
    for kind, src in LOADING.items():
        for loader in ("memory", "fs", ""):
            for i, nv in enumerate(NAME_VALUES):
                srcs = {"main": list(src.encode())}
                srcs.update({k: list(v.encode()) for k, v in files.items()})
                out.append({"id": "C02-ld-%s-%s-%d" % (kind, loader or "rec", i), "k": "render", "env": "core", "srcs": srcs, "entry": "main",
                            "ctx": {"n": nv}, "loader": loader, "nolog": True, "fam": "loaders", "x": {"form": kind + "/" + (loader or "rec")},
                            "tpls": {}})
    return out


def chain_cases():
    """depths add up at run time: a plain chain of 150 different macros (no recursion), each printing an expression nested 9000
    parentheses deep (below the parser's bound) - the execution ends with output or an error, not with the process"""
    deep = "(" * 9000 + "1" + ")" * 9000
    src = "".join("{%% macro m%d() %%}{{ %s }}{{ _self.m%d() }}{%% endmacro %%}" % (i, deep if i % 2 else "1", i + 1) for i in range(150))
    src += "{% macro m150() %}x{% endmacro %}{{ _self.m0() }}"
    # the nesting must sit on the call path: every macro prints (((...m_next()...)))
    src2 = "".join("{%% macro m%d() %%}{{ %s_self.m%d()%s }}{%% endmacro %%}" % (i, "(" * 9000, i + 1, ")" * 9000) for i in range(150))
    src2 += "{% macro m150() %}x{% endmacro %}{{ _self.m0() }}"
    return [{"id": "C02-chain-%d" % i, "k": "render", "env": env, "srcs": {"main": list(sx.encode())}, "entry": "main", "ctx": {},
             "nolog": True, "fam": "chain", "x": {"form": "macro-chain"}, "tpls": {}}
            for i, (env, sx) in enumerate([("core", src2), ("twig", src2), ("core", src)])]


def check(run, only=None):
    run.rule = ("ops: 25 binary operators and 36 other forms (unary, conditional, tests, attribute/method access with right and wrong "
                "arity, calls, filters, for with and without key/inline condition, ranges, if, set, interpolation, array/hash "
                "literals and indexing, include with/by a value, block(), captures) x 39 x 39 operands (null, booleans, numbers incl. "
                "negative/fraction/large, strings incl. multi-byte, arrays, hashes, and Go fixtures: slices, maps with int keys, "
                "structs, pointers, nil pointers, Stringer, int8/uint64, decimal, safe values, func, chan); filters: 31 built-in Twig "
                "filters x 39 piped values x 0..2 arguments from 11 values (seeded stride in quick, all in thorough), as expression "
                "and as filter section; loaders: 7 template-loading forms x the library's MemoryLoader and FilesystemLoader (and the "
                "harness's) x 21 name values (empty, missing, absolute, with .., a directory, blank, non-ASCII, NUL, 300 bytes, null, "
                "booleans, a number, an empty list and hash); non-trivial = operand is not a plain literal of matching type (every case here)")
    run.assumptions = ["harness callbacks and fixture methods never panic; ranges stay below 10^6 elements",
                       "only termination (output or error) is observed; values are C05's subject"]
    if only is not None:
        vecs = only
    else:
        r = common.run_tlc("C02", "C02_thorough" if run.tier == "thorough" else "C02", env={"VERIF_SEED": run.seed}, timeout=3000, heap="10g")
        vecs = r["lines"] + loader_cases() + chain_cases()
    obs, hooks = common.run_pool(vecs, deadline_ms=10000)
    run.hooks = hooks
    for v in vecs:
        o = obs[v["id"]]
        run.count(json.dumps([v["tpls"], v["ctx"]], sort_keys=True), True)
        if len(run.samples) < 4 and o["st"] == "ok" and v["fam"] == "filters":
            run.sample({"src": o["obs"]["srcs"].get("t"), "ctx": v["ctx"], "status": o["obs"]["status"], "out": common.show(bytes(o["obs"]["out"]))})
        if o["st"] != "ok":
            case = dict(v)
            run.mismatch(sigfn(v, o), case, "execution did not terminate normally: " + o["st"],
                         expected="output or error", observed=(o.get("err") or o.get("stderr") or "")[:1200])
    run.traces += len(vecs)

    if only is None:
        # binding T: seeded random programs over the whole schema, accepted by TLC against the reference executor
        exectrace.run_exec_trace(run, 30000 if run.tier == "thorough" else 1000, 2)


def replay(run, path):
    m = json.load(open(path))
    check(run, only=[{k: x for k, x in m["case"].items() if not k.startswith("_")}])
