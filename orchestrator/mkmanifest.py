#!/usr/bin/env python3
"""Writes /verif/MANIFEST.json from the table below (one source of truth for the interface)."""
import json
import os

VERIF = os.path.dirname(os.path.dirname(os.path.abspath(__file__)))

CHECKS = {
    "C13": dict(
        text="TLC checks on spec/Escape.tla that the reference escapers are inert, per-character and lossless on every "
             "Unicode code point and on all pairs over a boundary alphabet (the named defect variants js!5/css!4 must be "
             "rejected); every output recorded from the Go escapers (all code points in thorough, all < U+3000 + edges + "
             "stride in quick, invalid bytes, boundary pairs, random strings) is then accepted or rejected by TLC against "
             "the same predicates (trace validation, decoders of the target contexts written in TLA+).",
        note="Trusted: the TLA+ transcription of the HTML/JS/CSS/URL decoders; TLC; the Go harness that records calls. "
             "html_attr inputs with control characters and css inputs with U+0000 are judged on inertness only.",
        technique="TLA+ spec (Escape.tla) model-checked with TLC + trace validation of recorded escaper calls",
        design="3/C13"),
}

CHECKS["C05"] = dict(
    text="TLC checks on spec/Values.tla+Exec.tla that the reference operators satisfy independent declarative laws on the "
         "operand window (floor division, sign of %, exact division, inclusive ranges, trichotomy, concatenation, in/not in, "
         "power, number->string->number, callbacks once each in source order). TLC then enumerates expression trees (all "
         "depth-1 trees over 25 binary operators and 45 other forms x 28 operands, a seeded stride of depth 2-3), evaluates "
         "the reference and prints value, output and callback log; each vector is replayed into Env.Execute and compared.",
    note="Trusted: the reference semantics in spec/Exec.tla (written from the Twig documentation, region where stick's "
         "coercions and Twig agree; other cases are dropped as out of model and counted), the Go unparser and recording "
         "callbacks of the harness, TLC.",
    technique="TLA+ reference interpreter model-checked with TLC; TLC-generated vectors replayed into the Go code",
    design="3/C05")

CHECKS["C06"] = dict(
    text="One TLA+ module (spec/props/C06.tla) over the reference executor: TLC checks declarative invariants on every case "
         "(exactly the first truthy branch for all truth assignments of 1-4 conditions; else branch iff the sequence is empty "
         "or null; non-iterable is an error; loop metadata equals its closed form for every element; inline condition "
         "filters elements) and prints each case with the reference output; every vector is replayed into Env.Execute.",
    note="Trusted: reference semantics in spec/Exec.tla, harness unparser/recorder, TLC. Multi-entry hash iteration order is not "
         "determined by the property and is outside the generated family.",
    technique="TLA+ reference executor model-checked with TLC; TLC-generated vectors replayed into the Go code",
    design="3/C06")

_EXEC_NOTE = ("Trusted: reference semantics in spec/Exec.tla, the harness (Go unparser of the AST schema, recording "
              "writer/loader/callbacks), TLC. Verdicts come only from the real code's observable behaviour.")
CHECKS["C07"] = dict(
    text="spec/props/C07.tla: programs pre;K;post with probes before/inside/after the construct K (for, if, set, set-capture, "
         "macro call, nested) over colliding and fresh names. TLC checks FrameRule, FreshNamesUndefinedAfter, "
         "TemplateSetPersists, OuterSetUpdates, LocalsShadow on the reference scope stack for every program and prints the "
         "vectors; replay compares output and the flattened scope seen by every probe (ctx.Scope().All()).",
    note=_EXEC_NOTE, technique="TLA+ reference executor model-checked with TLC; TLC-generated vectors replayed into the Go code",
    design="3/C07")
CHECKS["C08"] = dict(
    text="spec/props/C08.tla: all nestings (depth 3 quick / 5 thorough) of set-capture, filter sections, macro calls, block(), "
         "loops and parent(). Each construction step defines structurally what the piece contributes to its enclosing writer; "
         "TLC checks CaptureExact (destination output = structural expectation), Balanced, MainOnlyFromDepth0, OrderPreserved on "
         "the reference writer stack's event log, prints vectors; replay compares the bytes the destination writer received.",
    note=_EXEC_NOTE, technique="TLA+ reference executor model-checked with TLC; TLC-generated vectors replayed into the Go code",
    design="3/C08")
CHECKS["C09"] = dict(
    text="spec/props/C09.tla: inheritance configurations as data (chain 1..4, per-level absent/override/override+parent(), use with "
         "and without alias, nested/loop layouts, parent by expression). Resolution is defined declaratively (Chain/RenderFrom); "
         "TLC checks MostDerivedWins and NameInBlock of the executor's chain walk for every configuration (all 118k in thorough) "
         "and prints vectors; replay compares output and the template name every callback sees.",
    note=_EXEC_NOTE, technique="TLA+ reference executor model-checked with TLC; TLC-generated vectors replayed into the Go code",
    design="3/C09")

CHECKS["C10"] = dict(
    text="spec/props/C10.tla: include/embed configurations as data (mode plain/with/only/with+only, call site top/loop/block/macro, "
         "targets that print variables, set colliding names, extend another template or define blocks, embed overrides with and "
         "without parent(), host defining a block of the same name, construct used twice). Expected output is defined by cases on "
         "the data (context = visible scope + with-hash, host unchanged, chain = embed blocks + target chain); TLC checks the "
         "executor against it and prints vectors; replay compares the rendered output.",
    note=_EXEC_NOTE, technique="TLA+ reference executor model-checked with TLC; TLC-generated vectors replayed into the Go code",
    design="3/C10")
CHECKS["C11"] = dict(
    text="spec/props/C11.tla: macro configurations (4 call forms x 0..4 parameters x 0..6 arguments x 5 uses of the result x 3 "
         "nestings, macro calling macro, unknown macro). The value of a call is defined declaratively (positional binding, "
         "missing empty, surplus ignored); TLC checks PositionalBinding, ThreeFormsAgree, NameInMacro on the executor and prints "
         "vectors; replay compares output, error presence and the template name callbacks see.",
    note=_EXEC_NOTE, technique="TLA+ reference executor model-checked with TLC; TLC-generated vectors replayed into the Go code",
    design="3/C11")

CHECKS["C03"] = dict(
    text="spec/props/C03.tla: skeletons interleaving literal chunks (multi-byte UTF-8, LF, CRLF, lone { } % #, closing delimiters) "
         "with prints, comments, verbatim sections and bodies of if/else/for/block/set/filter/macro, each in canonical and tight "
         "spelling. Expected output is defined by structural recursion on the skeleton; TLC checks Faithful (executor output = "
         "structural expectation) for every skeleton and prints vectors; replay compares the bytes the writer received.",
    note=_EXEC_NOTE + " Region: a literal run directly followed by a construct does not end in '{'.",
    technique="TLA+ reference executor model-checked with TLC; TLC-generated vectors replayed into the Go code",
    design="3/C03")

CHECKS["C17"] = dict(
    text="spec/props/C17.tla enumerates programs (12 bases from the capture/inheritance/include shapes, each also with a run-time "
         "error of 8 kinds at every position) and checks on the reference that errors stop execution; the harness runs every "
         "program fault-free, with the writer failing at its k-th write for every k, the loader failing at its k-th load for every "
         "k, and through ExecuteSafe, recording write/load/return events. spec/props/C17_Trace.tla is a state machine over these "
         "events (accepted bytes, failed flags, reference output computed from the AST by Exec.tla) and TLC rejects any run that "
         "breaks FailedWriteIsLast, MainIsPrefixOfSuccess, ErrReturned or SafeAllOrNothing.",
    note=_EXEC_NOTE + " How output is chunked into Write calls is not fixed by the reference: a failure may occur at any chunk boundary.",
    technique="TLA+ trace validation (TLC accepts recorded fault-injection runs against the spec's state machine and reference output)",
    design="3/C17")

CHECKS["C15"] = dict(
    text="spec/props/C15.tla: a catalogue of 263 Go values by fixture id with the abstract content the spec assumes; Expected(d) "
         "states what the three coercions must return. TLC checks CoercionsAgree (the spec's own coercions meet the requirement), "
         "KindUniform, NumStrNumIdentity, DecimalStringSpells and prints one vector per descriptor; replay calls CoerceString/"
         "CoerceNumber/CoerceBool and {{ v }} on the real value (panic = violation). float64 -> string -> number round trips on "
         "boundary and random bit patterns (20k quick / 1M thorough) are accepted by TLC (C15_Trace.tla) iff the bit pattern "
         "comes back and integral values below a million print as plain integers.",
    note="Trusted: the fixture catalogue (harness/fixtures.go) builds the Go value each id denotes; TLC has no floating point, so "
         "the float clause is a relation over recorded bit patterns (trace acceptance), not an enumeration.",
    technique="TLA+ spec of the coercions model-checked with TLC; generated vectors replayed; trace validation of float round trips",
    design="3/C15")

CHECKS["C16"] = dict(
    text="spec/props/C16.tla gives every container fixture an abstract content and defines GetAttrRef(d, key, args) in "
         "{element, error, undecided} and the traversal requirements (every element once, slices in index order, loop metadata "
         "relations, Len/IsIterable/IsArray/IsMap/Contains agreeing with the traversal); TLC enumerates containers x keys x "
         "argument lists, the harness performs every GetAttr call and traversal on the real value (recovering panics per call), "
         "and TLC (C16_Trace.tla) accepts or rejects each recorded call against the abstract content (maps: any order).",
    note="Trusted: fixture catalogue and its abstract content in C16.tla; where the property does not decide (float key on map[int], "
         "non-integral index) only 'no panic and the result is an element of the container' is required.",
    technique="TLA+ spec of attribute access/iteration; TLC-generated cases; TLC trace validation of the recorded calls",
    design="3/C16")

CHECKS["C12"] = dict(
    text="spec/Exec.tla models the Twig environment's auto-escaping (content type of the template that textually contains the "
         "print, safe values, escape/raw filters) with escaped payloads written symbolically; spec/props/C12.tla states the "
         "requirement per configuration (13 template names x 16 print forms x 13 placements) independently (RequiredCt, Seg) and "
         "TLC checks NoUnescapedPayload, OnceOnly, TypeOfName on the reference, then prints vectors; the harness substitutes the "
         "real escaper's output for each symbolic payload and compares with what twig.New(loader).Execute writes.",
    note=_EXEC_NOTE + " The escapers themselves are judged by C13; here only where and how often they are applied.",
    technique="TLA+ reference executor with auto-escaping model-checked with TLC; TLC-generated vectors replayed into the Go code",
    design="3/C12")

CHECKS["C02"] = dict(
    text="spec/props/C02.tla enumerates (a) 61 operator/tag forms x 39 x 39 operands (template values and Go fixtures: slices, "
         "int-keyed maps, structs, pointers, nil pointers, Stringer, int8/uint64, decimal, safe, func, chan) and (b) the 31 "
         "built-in Twig filters x 39 piped values x 0..2 arguments (as expression and as filter section). TLC checks RefTotal: the "
         "reference executor of Exec.tla is defined (ok/err/out-of-model) on every case over template values; each vector is "
         "replayed into Env.Execute in a worker process and must return output or error (no panic, stack overflow or deadline).",
    note=_EXEC_NOTE + " Twig filters are modelled abstractly (total, value unconstrained): the spec contributes the exhaustive "
         "operand/argument matrix and the obligation to return.",
    technique="TLA+ case enumeration + reference totality checked with TLC; vectors replayed into the Go code under a process-level watchdog",
    design="3/C02")

CHECKS["C04"] = dict(
    text="spec/Syntax.tla holds the operator table as data, a precedence-climbing reference parser and an independent declarative "
         "predicate Valid(tree); spec/props/C04.tla enumerates chains over 27 links x 5 unary-prefix x 3 conditional variants and "
         "TLC checks ParseIsValidTree, ValidTreeUnique (by enumerating every bracketing) and ParenRoundTrip for each, then prints "
         "the reference tree and value; replay compares the public AST shape from Env.Parse, the rendering of the flat against the "
         "fully parenthesised spelling (real vs real) and against the reference value.",
    note="Trusted: the operator table transcribed from parse/operator.go; the harness's AST walker over exported parse.Node fields; "
         "values outside the C05 window are compared on shape and flat-vs-parenthesised only.",
    technique="TLA+ operator-precedence spec model-checked with TLC (validity + uniqueness); generated chains replayed into parser and executor",
    design="3/C04")

CHECKS["C01"] = dict(
    text="spec/Lexer.tla is the tokeniser as a byte-level state machine (one transition per state-function call of lex.go, every "
         "slice bound an explicit precondition). spec/props/C01.tla runs it with TLC on every concatenation of <= 3 fragments of a "
         "70-fragment alphabet and every byte-prefix of those, checking in every state CursorsInRange and StepsBounded, and at the "
         "end ErrorLast, Ends, Partition and PositionsExact; each source is then replayed into parse.Parse, Env.Parse and "
         "Env.Execute (core and Twig) in a worker process and must return (no panic in the tokeniser goroutine, no deadlock, no "
         "deadline); seeded random byte strings and mutations of 14 corpus templates are replayed the same way.",
    note="Trusted: TLC, the worker pool's watchdog (a case that dies or hangs twice is a violation). Token streams that differ from "
         "Lexer.tla are counted as spec drift in the evidence, not as C01 violations (tokens are judged by C14/C20). Nesting beyond "
         "the generators' depth is outside the claim.",
    technique="TLA+ tokeniser state machine model-checked with TLC; TLC-enumerated sources and random mutations replayed under a process watchdog",
    design="3/C01")

CHECKS["C14"] = dict(
    text="spec/props/C14.tla: for one canonical instance of every tag kind and expression form (44 snippets) TLC generates every "
         "re-spelling that changes up to 2/3 token boundaries to none (only where the conservative CanAbut allows), blank, TAB, LF, "
         "CRLF or two blanks, and checks on spec/Lexer.tla that the non-space token sequence is unchanged (SpellingInvariant); every "
         "re-spelling is replayed: tokens (hook VerifLex), parse result, tree and rendering must equal the canonical spelling's. "
         "In addition programs of the C06/C07/C10/C11 families are unparsed with random separators, tight delimiters, either "
         "quote, trailing commas and '-' markers and must render the reference output.",
    note="Trusted: Lexer.tla, CanAbut (conservative by construction), the Go unparser's spelling options. White space is not varied "
         "inside strings or multi-word operators; '-' markers only next to non-white-space text.",
    technique="TLA+ tokeniser spec model-checked with TLC over generated re-spellings; re-spellings replayed into lexer, parser and executor",
    design="3/C14")

CHECKS["C20"] = dict(
    text="spec/props/C20.tla builds templates from pieces <<bytes, node kind>> (112 constructs, white-space slots filled with blank, "
         "LF, CRLF+blank, LFLF; newlines in text, strings, comments, multi-line tags) and defines every expected position directly "
         "from the source (line = 1 + LF count before the offset, column = bytes since the last LF). TLC checks on spec/Lexer.tla that "
         "the tokeniser's incremental bookkeeping yields exactly these positions (AnchorsAreTokenPositions, PosExact) and prints "
         "vectors for four families: node positions, truncation at every byte offset (error iff inside a delimiter pair or an open "
         "body), injected errors located at the offending token, errors in named templates; replay compares Node.Start() of the "
         "listed node kinds, error presence, error Line/Offset and Name().",
    note="Trusted: the piece grammar and OpenAt (what counts as inside a delimiter pair/open body) in C20.tla; the AST walker. String "
         "literals may report their quote or first content byte; for truncations only error presence is compared.",
    technique="TLA+ position semantics + tokeniser spec model-checked with TLC; generated templates, truncations and injections replayed into Env.Parse",
    design="3/C20")

CHECKS["C19"] = dict(
    text="spec/LexChan.tla models the tokeniser goroutine, the parser as an arbitrary consumer and the unbuffered channel (TLC: "
         "deadlock freedom, LexerExits and ParserNeverStuck under weak fairness for every token stream up to length 4; the defect "
         "variants NoDrain and NoCloseOnError must be rejected). spec/props/C19.tla unfolds call histories (loader x outcome x API) "
         "into Open/Close/Spawn/ParserReturn/LexerExit steps and TLC checks Returned ~> Clean (negative configs for a missing "
         "drain and unclosed files must fail), printing the histories; each history is replayed in a fresh worker with garbage "
         "collection disabled, recording hook events and goroutine/tokeniser/descriptor counts, and TLC (C19_Trace.tla) accepts a "
         "history iff every started tokeniser exited and all counts are back at quiescence.",
    note="Trusted: runtime.NumGoroutine, runtime.Stack and /proc/self/fd as observation instruments; a 2 s poll bound (blocked goroutines "
         "never leave, exiting ones leave in microseconds). Without the verif hooks only the counts are checked.",
    technique="TLA+ model of goroutines/channel/handles model-checked with TLC (liveness); TLC-generated histories replayed; TLC trace validation",
    design="3/C19")

CHECKS["C18"] = dict(
    text="spec/props/C18.tla models N callers stepping through Load / VisitEnter / VisitPrint / VisitLeave / Run on the visitor state "
         "shared through the Env; TLC explores every interleaving of 3 callers and checks OwnContentType, ResultAsAlone, "
         "NoSharedMutation and that every call returns (the variant without the traversal lock must violate OwnContentType). The "
         "harness, built with the Go race detector, runs 8..64 goroutines of Execute/Parse calls on one Twig and one core "
         "environment over templates of different content types, records every result next to the same call made alone, and TLC "
         "(C18_Trace.tla) rejects a run if any result differs from its sequential result or a data race was reported.",
    note="Trusted: the Go race detector as the instrument for unmodelled memory accesses (it sees the traced runs only); goroutine "
         "scheduling is the Go runtime's (many rounds, all goroutines released together), not enumerated.",
    technique="TLA+ interleaving model checked with TLC; race-detector-instrumented concurrent runs validated as traces by TLC",
    design="3/C18")

NOT_YET = {}

props = [json.loads(l)["id"] for l in open(os.path.join(VERIF, "properties.jsonl"))]
checks = []
# what was added after the first build (DESIGN.md 7.2, 7.5): appended to the description of each check
SRC = ("spec/Parser.tla turns the token stream of Lexer.tla into the tree of Exec.tla, so the specification decides a template from "
       "its bytes (RenderSrc); ")
RANDOM = (" Binding T as well: seeded random programs (harness/g_exec.go) are executed with recording writer/loader/callbacks and "
          "every recorded run is accepted or rejected event by event by spec/props/ExecTrace.tla, which computes the reference run from the "
          "program it finds in the trace; header forms of the property's tags are replayed from source bytes (Tags_Src.tla).")
ADD = {
    "C01": " A negative module (C01_TokenBound) has TLC refute 'every token consumes input'; tokeniser-failing fragments are injected at every position of a corpus; the structured sources of the byte-level grammars (C20_Src, Mix_Src, C06_Src) are parsed too; 28 long flat runs (prefix and postfix chains, conditionals, sums, interpolation parts, elseif branches, names after a test, argument / parameter / import / alias lists) are parsed under a 64 MB stack limit.",
    "C02": RANDOM + " Loader family: every template-loading form x the library's own loaders x empty/missing/odd/non-string names.",
    "C03": " Byte-level families: " + SRC + "C03_Src.tla (lone delimiter characters next to constructs, verbatim sandwiches) and Mix_Src.tla (balanced "
           "sequences over all body-opening tags) are decided by that pipeline and rendered by the real code; delimiter-free templates of 12 sizes through the recording, memory and filesystem loaders.",
    "C04": " Binding T: seeded random operator chains are rendered by the real code and judged by C04_Trace.tla (reference parser + executor); the unparenthesised form is also rendered with no blank between an alphabetic operator and a sign, quote or bracket, and both spellings are compared where the expression is a condition (if, elseif, for-if, set, ?:).",
    "C05": RANDOM + " String equality/membership on strings a number parser would accept and ordering of numeric strings are families of their own, as is membership of fractions, numerals and computed needles in inclusive ranges and arrays.", "C06": RANDOM + " Byte-level family C06_Src.tla: " + SRC + "every balanced fragment sequence of a grammar (TLC checks the parser accepts exactly those) and one-deletion variants.",
    "C07": RANDOM, "C08": RANDOM + " Failing leaves inside every nesting of captures; every render case of every check runs a second time into a *bytes.Buffer; blocks that render themselves through block() under a counter are replayed from source bytes (Tags_Src.tla).", "C09": " Header forms of extends/use/block are replayed from source bytes (Tags_Src.tla).",
    "C10": RANDOM + " The with-hash is a literal, a host variable, a Go map and a Go map behind a pointer.", "C11": RANDOM,
    "C12": " Escaped segments are expanded by TLC with the reference escapers of Escape.tla (not with the escaper under test); one source under five names on one environment, each call compared with the same call on an environment of its own; a concurrent phase parses templates of four content types from 16 goroutines on one environment; filters of the twig package (replace, upper) applied to values marked safe.",
    "C13": " The same inputs go through the escapers a Twig environment registers and through its escape filter on values marked safe for another content type, and through an explicit escape('<strategy>') printed in a template named for another content type.",
    "C15": " The value is also used as a number by a template (v + 0, ordering against 1.25) and compared with the coerced number.",
    "C16": " Every lookup is also written c[k] in a template (the template sees GetAttr's element, null on error); the Twig length filter and 'in' are compared with the traversal.",
    "C17": " Random programs with write and load faults are validated by C17_Trace.tla; 21 unparseable sources reached through every loading construct; load faults include templates whose contents cannot be read to the end; every program also runs through MemoryLoader and FilesystemLoader and into a *bytes.Buffer (macros failing part-way whose result is assigned, concatenated, filtered).",
    "C18": " Every call is compared with the same call made alone on an environment of its own; a user function that re-wraps safe values through the public constructors runs under the race detector. Gated runs: a blocking user function holds all callers at the same point inside Execute (nine gated templates); runs with the library's FilesystemLoader; values shared between callers; per-caller objects with pointer-receiver methods; calls that fail part-way inside a macro, capture, filter section or block(); a caching loader that re-serves Template values.",
    "C19": " LexChan.tla has a buffered-channel variant (Cap) with its own negative configuration; all goroutines are counted at quiescence (also after a template that was read to its end and then refused for its depth); bonus: LexChanInd.tla restates the protocol for streams of any length and Apalache proves its invariant inductive.",
    "C20": " Byte-level family C20_Src.tla: " + SRC + "block structure of every tag kind (acceptance and the position of the offending tag name); sources reach the parser through the library's own loaders in two thirds of the cases; two-word operators split by other white space; 8 multi-line templates cut at every byte, where the reported position must be one of the anchors computed from Lexer.tla's tokens.",
}

for pid in props:
    if pid not in CHECKS:
        continue
    c = CHECKS[pid]
    checks.append({
        "property_id": pid,
        "quick_cmd": "./check %s --tier quick" % pid,
        "thorough_cmd": "./check %s --tier thorough" % pid,
        "evidence_file": "/verif/evidence/%s.json" % pid,
        "replay_cmd_template": "./check %s --replay {path}" % pid,
        "engine": "tla-model",
        "level_claimed": {"category": "model_checking", "text": c["text"] + ADD.get(pid, ""), "design_ref": "DESIGN.md §" + c["design"]},
        "level_note": c["note"],
        "technique": c["technique"],
    })
na = [{"property_id": p, "reason": NOT_YET.get(p, "check not built yet in this session (work in progress; see DESIGN.md §6 order of work)")}
      for p in props if p not in CHECKS]
m = {
    "version": 1,
    "setup_cmd": "cd /verif/harness && cp /repo/go.sum . && GOFLAGS=-mod=mod GOPROXY=off GOSUMDB=off GOTOOLCHAIN=local go build -tags verif -o /dev/null . ; true",
    "hooks": {
        "guard": "verif",
        "enable": "go build -tags verif (the harness module replaces github.com/tyler-sommer/stick with /repo)",
        "baseline_off_cmd": "cd /repo && GOFLAGS=-mod=mod GOPROXY=off GOSUMDB=off GOTOOLCHAIN=local go test -vet=off -count=1 ./...",
        "source_commits": [],
        "add_only": True,
    },
    "engines": [{"name": "tla-model", "path": "/verif/spec", "serves_properties": [c["property_id"] for c in checks],
                 "kind_free_text": "explicit TLA+ specification checked with TLC; bound to the Go code by TLC-generated vectors "
                                   "replayed into the code and by TLC acceptance of traces recorded from the code"}],
    "checks": checks,
    "not_applicable": na,
    "notes": "Every check: ./check <ID> --tier quick|thorough. Exit 0 held, 1 VIOLATION, 2 infrastructure trouble.",
}
HOOKS = os.path.join(VERIF, "hook_commits.txt")
if os.path.exists(HOOKS):
    m["hooks"]["source_commits"] = [l.strip() for l in open(HOOKS) if l.strip()]
json.dump(m, open(os.path.join(VERIF, "MANIFEST.json"), "w"), indent=1)
print("MANIFEST.json:", len(checks), "checks,", len(na), "not applicable")
