"""C11 Macros bind arguments by position and return their output as a value."""
import exectrace
import simple


def nontrivial(v):
    return bool(v["x"].get("nt"))


def sigfn(v, o, why):
    import common
    if (v.get("x") or {}).get("special") == "fromtwice" and o["st"] == "ok":
        # a recorded known finding: identified by the construct, not by the generic mismatch text
        return "C11 from-twice: the same macro from-imported under two names in one tag, only one name is bound"
    if o["st"] != "ok":
        return "C11 %s %s" % (v.get("fam", ""), common.crash_sig(o))
    return "C11 %s %s" % (v.get("fam", ""), why.split(" at event")[0])


def check(run, only=None):
    run.rule = ("call form {_self, import alias, from-import, from-import renamed} x 0..4 parameters x 0..6 arguments x use of the "
                "result {print, set and print twice, concatenate, argument of a function, argument of another macro call} x "
                "nesting {none, loop, capture}; macro calling a macro; unknown macro of an imported set; "
                "non-trivial = arity mismatch or nested call")
    run.assumptions = ["definitions precede use; an imported macro does not itself use _self (excluded by the property statement)"]
    simple.gen_and_replay(run, "C11", nontrivial=nontrivial, only=only, sigfn=sigfn)

    if only is None:
        simple.tags_src(run, "C11")
        # binding T: seeded random programs over the whole schema, accepted by TLC against the reference executor
        exectrace.run_exec_trace(run, 10000 if run.tier == "thorough" else 600, 11)


def replay(run, path):
    simple.replay_file(run, path, check)
