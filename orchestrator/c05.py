"""C05 Expressions evaluate to the documented values."""
import json

import common
import exectrace


def nontrivial(v):
    # tree has at least 2 operator nodes
    return json.dumps(v["tpls"]).count('"k": "bin"') + json.dumps(v["tpls"]).count('"k":"bin"') >= 2 or v["x"].get("depth", 1) >= 2


def check(run, only=None):
    thorough = run.tier == "thorough"
    run.rule = ("expression trees: every depth-1 tree (25 binary operators x 28 x 28 operands; 45 other forms: unary, "
                "conditional, tests, attribute access, calls, filters, interpolation, literals with callbacks) and a "
                "seeded stride of the depth-2/3 trees; non-trivial = at least 2 operator nodes")
    run.assumptions = ["region: operands/results in the fixed-point window (multiples of 1/64, |v| < 10^6); cases where "
                       "stick's documented coercions and Twig disagree are out of model and dropped (counted)"]
    if only is None:
        # role 1: the reference operators satisfy their declarative definitions on the window
        common.run_tlc("C05_MC", timeout=900)
    if only is not None:
        vecs = only
    else:
        r = common.run_tlc("C05_Gen", "C05_Gen_thorough" if thorough else "C05_Gen",
                           env={"VERIF_SEED": run.seed}, timeout=3000, heap="12g")
        vecs = r["lines"]
    common.replay_vectors(run, vecs, nontrivial=nontrivial)
    run.traces += len(vecs) - run.oom

    if only is None:
        # binding T: seeded random programs over the whole schema, accepted by TLC against the reference executor
        exectrace.run_exec_trace(run, 30000 if run.tier == "thorough" else 1500, 5)


def replay(run, path):
    m = json.load(open(path))
    check(run, only=[m["case"]])
