"""C13 The escapers emit only inert characters and lose no information."""
import json

import common


def sig_of(ev, why):
    fn = ev["fn"]
    inp = bytes(ev["in"])
    if why == "lossless" and fn == "css":
        # an escaped (non-alphanumeric) character directly followed by a literal hex digit:
        # stick's 4-digit escape has no terminator, so the decoder swallows the digit
        try:
            s = inp.decode("utf-8")
        except UnicodeDecodeError:
            s = ""
        if "\x00" in s:
            return "C13 css lossless: U+0000 (CSS has no escape for it)"
        for a, b in zip(s, s[1:]):
            if not (a.isascii() and a.isalnum()) and b in "0123456789abcdefABCDEF":
                return "C13 css lossless: unterminated escape followed by a hex digit"
        return "C13 css lossless: other"
    if why == "lossless" and fn == "js":
        try:
            s = inp.decode("utf-8")
        except UnicodeDecodeError:
            s = ""
        if any(ord(c) > 0xFFFF for c in s):
            return "C13 js lossless: code point above U+FFFF"
        return "C13 js lossless: other"
    return "C13 %s %s" % (fn, why)


def check(run, only_cases=None):
    thorough = run.tier == "thorough"
    run.rule = ("inputs: every code point (thorough) or all < U+3000 + range edges + a seeded stride (quick) as "
                "one-character strings, every invalid byte, all pairs over a 43-character boundary alphabet, seeded "
                "random strings; x 5 escapers, each called directly, as registered in the Twig environment, and through the escape filter on a value marked safe for another content type, and through an explicit escape('<strategy>') printed in a template named for another content type. non-trivial = the input contains a character the escaper rewrites "
                "(output differs from input)")
    run.assumptions = ["decoders of the target contexts are the ones transcribed in spec/Escape.tla",
                       "html_attr: inputs with control characters are judged on inertness only (the statement's own exception)"]
    # role 1: the reference escapers satisfy C13 on the whole code space
    common.run_tlc("C13_MC", "C13_MC" if thorough else "C13_MC_quick", timeout=1500, heap="8g")
    # the named defect variants must be caught (guards against vacuous predicates)
    for neg in ("C13_MC_neg_js", "C13_MC_neg_css"):
        r = common.run_tlc("C13_MC", neg, expect_fail=True, count=False, timeout=600)
        if r["ok"]:
            raise common.Infra("negative config %s was not rejected: predicates are vacuous" % neg)
    # binding T: real outputs accepted by the spec
    cases = only_cases or common.run_gen("c13", 2000 if thorough else 200, run.seed, run.tier)
    if only_cases is None:
        # the same inputs through the escapers the Twig environment registers (what templates and the escape filter call)
        types = ["html", "html_attr", "js", "css", "url"]
        def other(c, k):
            return [t for t in types if t != c["fn"]][k % 4]
        def tplvia(c, k):
            return "tpl:" + [t for t in types + ["txt", "twig"] if t != c["fn"]][k % 6]
        if thorough:
            # every code point x 5 escapers is 5.6 M direct calls already: each of them goes through ONE of the three indirect
            # routes as well, in rotation (the quick tier, with its smaller input set, sends every input through all three)
            extra = []
            for k, c in enumerate(cases):
                r = k % 3
                if r == 0:
                    extra.append(dict(c, id=c["id"] + "/env", via="env"))
                elif r == 1:
                    extra.append(dict(c, id=c["id"] + "/flt", via="filter:" + other(c, k // 3)))
                else:
                    extra.append(dict(c, id=c["id"] + "/tpl", via=tplvia(c, k // 3)))
            cases = cases + extra
        else:
            cases = (cases + [dict(c, id=c["id"] + "/env", via="env") for c in cases]
                     # ... and through the escape filter, on a value marked safe for one of the OTHER four content types
                     + [dict(c, id=c["id"] + "/flt", via="filter:" + other(c, k)) for k, c in enumerate(cases)]
                     # ... and through {{ v|escape('<fn>') }} in a template whose name selects one of the other content types (or none)
                     + [dict(c, id=c["id"] + "/tpl", via=tplvia(c, k)) for k, c in enumerate(cases)])
    obs, hooks = common.run_pool(cases, deadline_ms=5000)
    run.hooks = hooks
    events, idx = [], []
    for c in cases:
        o = obs[c["id"]]
        inp = c["in"]
        if o["st"] != "ok":
            run.mismatch("C13 %s %s" % (c["fn"], o["st"]), c, "escaper did not return: " + o["st"], observed=o)
            run.count(json.dumps([c["fn"], inp]), True)
            continue
        out = o["obs"]["out"]
        events.append({"fn": c["fn"], "in": inp, "out": out, "parts": o["obs"]["parts"]})
        idx.append(c)
        run.count(json.dumps([c["fn"], inp]), out != inp)
    for k in (0, len(events) // 2, len(events) - 1):
        run.sample(events[k])
    rej, n = common.validate_trace("C13_Trace", events, batch=12000 if thorough else 8000)
    run.traces += n
    for i, why in rej:
        ev = events[i]
        run.mismatch(sig_of(ev, why), idx[i], "trace event rejected by C13_Trace: " + why, observed=ev)


def replay(run, path):
    m = json.load(open(path))
    check(run, only_cases=[m["case"]])
