"""C17 Failures are reported, never swallowed, and safe execution is all-or-nothing."""
import json

import common


def check(run, only=None):
    run.rule = ("12 base programs (text/prints, filter sections, captures, macro, loop, 3-level inheritance with parent(), include in "
                "a loop, embed, import/from, block(), if) plus a run-time error of 8 kinds (undefined filter/function/test, "
                "non-iterable, unknown block, missing template, template with a syntax error, unknown macro) inserted at every "
                "top-level position and into the first body; every program is run fault-free, with the destination writer "
                "failing at its k-th write for every k, with the loader failing at its k-th load for every k (an error from Load, and a "
                "template whose contents cannot be read to the end), and the same "
                "through ExecuteSafe; non-trivial = a run with an injected fault or a run-time error")
    run.assumptions = ["the reference output before an error is the one of spec/Exec.tla; output chunking into Write calls is free"]
    if only is not None:
        vecs = only
    else:
        r = common.run_tlc("C17", "C17_thorough" if run.tier == "thorough" else "C17", env={"VERIF_SEED": run.seed}, timeout=1800)
        vecs = r["lines"]
    if only is None:
        # seeded random programs (harness generator `exec`) go through the same fault enumeration; the reference output is
        # computed by TLC from the AST in the trace, programs outside the model are dropped there
        rnd = common.run_gen("exec", 3000 if run.tier == "thorough" else 150, run.seed * 1000 + 17, run.tier)
        for c in rnd:
            c["k"] = "faults"
            c["fam"] = "random-program"
            c["exp"] = {"status": "?"}
        vecs = vecs + rnd
    if only is None or (only and only[0].get("k") == "render"):
        # the same programs once more through the library's own loaders (no fault injection there): a name that is missing, that is
        # a directory, or that does not parse is a template that cannot be loaded
        lv = []
        src = only if only is not None else [v for v in vecs if v.get("fam") != "random-program" and not v.get("oom")]
        for j, v in enumerate(src):
            if only is not None:
                lv.append(v)
            else:
                lv.append(dict(v, k="render", loader=("fs", "memory")[j % 2], id=v["id"] + "/ldr", nolog=True))
                # ... and plainly, which also runs the program into a *bytes.Buffer: what the caller's writer holds after a failure
                # is the same prefix whatever the writer's type
                lv.append(dict(v, k="render", id=v["id"] + "/buf", nolog=True))
        common.replay_vectors(run, lv, nontrivial=lambda v: v["exp"]["status"] == "err", check_log=False,
                              sigfn=lambda v, o, why: "C17 through the %s loader: %s [%s]" % (v.get("loader") or "recording", why.split(":")[0], v.get("fam")))
        if only is not None:
            return
    progs = [v for v in vecs if not v.get("oom")]
    run.oom += len(vecs) - len(progs)
    send = [{k: x for k, x in v.items() if k != "exp"} for v in progs]
    obs, hooks = common.run_pool(send, deadline_ms=5000)
    run.hooks = hooks
    events, owner = [], []
    for v in progs:
        o = obs[v["id"]]
        if o["st"] != "ok":
            run.mismatch("C17 %s %s" % (v.get("fam"), common.crash_sig(o)), v, "fault enumeration did not terminate normally: " + o["st"],
                         observed=(o.get("err") or o.get("stderr") or "")[:1500])
            continue
        events.append({"e": "prog", "tpls": v["tpls"], "entry": v["entry"], "ctx": v["ctx"]})
        owner.append((v, None))
        for r in o["obs"]["runs"]:
            events.append({"e": "run", "safe": r["safe"], "wk": r["wk"], "lk": r["lk"]})
            owner.append((v, r))
            for ev in r["events"]:
                if ev["e"] == "w":
                    events.append({"e": "w", "d": ev.get("d") or [], "ok": ev["ok"]})
                else:
                    events.append({"e": "load", "name": ev.get("name") or [], "ok": ev["ok"]})
                owner.append((v, r))
            events.append({"e": "ret", "ok": r["ret_ok"]})
            owner.append((v, r))
            key = json.dumps([v["tpls"], r["safe"], r["wk"], r["lk"], r.get("rk", 0)], sort_keys=True)
            run.count(key, r["wk"] > 0 or r["lk"] > 0 or v["exp"]["status"] == "err")
            if len(run.samples) < 3 and r["wk"] == 2:
                run.sample({"src": o["obs"]["srcs"].get("t"), "run": {"safe": r["safe"], "write_fails_at": r["wk"]},
                            "events": [(e["e"], common.show(bytes(e.get("d") or e.get("name") or [])), e["ok"]) for e in r["events"]],
                            "returned_ok": r["ret_ok"]})
    # one trace file must start with a prog event: batch on program boundaries
    batches, cur = [], []
    for ev in events:
        if ev["e"] == "prog" and len(cur) > 15000:
            batches.append(cur)
            cur = []
        cur.append(ev)
    if cur:
        batches.append(cur)
    base = 0
    for b in batches:
        rej, n = common.validate_trace("C17_Trace", b, batch=10 ** 9)
        run.traces += sum(1 for e in b if e["e"] == "run")
        for i, why in rej:
            v, r = owner[base + i]
            srcs = (obs[v["id"]].get("obs") or {}).get("srcs", {})
            feat = "safe" if r and r["safe"] else "exec"
            kind = "write-fault" if r and r["wk"] else ("read-fault" if r and r.get("rk") else ("load-fault" if r and r["lk"] else "no-fault"))
            case = dict(v)
            case["_src"] = srcs
            case["_run"] = {"safe": r["safe"], "wk": r["wk"], "lk": r["lk"], "rk": r.get("rk", 0)} if r else None
            run.mismatch("C17 %s %s %s %s" % (why, feat, kind, v.get("fam")), case,
                         "run rejected by C17_Trace: " + why, expected=v["exp"],
                         observed={"events": [(e["e"], common.show(bytes(e.get("d") or e.get("name") or [])), e["ok"]) for e in r["events"]],
                                   "returned_ok": r["ret_ok"], "err": r.get("err")} if r else None)
        base += len(b)


def replay(run, path):
    m = json.load(open(path))
    case = {k: x for k, x in m["case"].items() if not k.startswith("_")}
    check(run, only=[case])
