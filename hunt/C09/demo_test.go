// Demonstrations for property C09 (template inheritance resolves every block to
// its most-derived override). Place this file in the repository root; it is
// package stick_test. Every test FAILS on the unmodified library.
package stick_test

import (
	"bytes"
	"testing"

	"github.com/tyler-sommer/stick"
	"github.com/tyler-sommer/stick/twig"
)

func c09Name(ctx stick.Context, args ...stick.Value) stick.Value { return ctx.Name() }

func c09Core(tpls map[string]string) *stick.Env {
	env := stick.New(&stick.MemoryLoader{Templates: tpls})
	env.Functions["tn"] = c09Name
	return env
}

func c09Twig(tpls map[string]string) *stick.Env {
	env := twig.New(&stick.MemoryLoader{Templates: tpls})
	env.Functions["tn"] = c09Name
	return env
}

func c09Run(env *stick.Env, name string) string {
	var buf bytes.Buffer
	if err := env.Execute(name, &buf, nil); err != nil {
		return buf.String() + "<<ERROR: " + err.Error() + ">>"
	}
	return buf.String()
}

// 1. parent() inside a block imported under an alias looks up the ancestor
// block by the block's ORIGINAL name instead of the name it was imported as.
func TestC09_AliasedBlockParent(t *testing.T) {
	tpls := map[string]string{
		"root":  "[{% block content %}rootContent{% endblock %}]",
		"u":     "{% block box %}box({{ parent() }}){% endblock %}",
		"child": "{% extends 'root' %}{% use 'u' with box as content %}",
	}
	want := "[box(rootContent)]"
	if got := c09Run(c09Core(tpls), "child"); got != want {
		t.Errorf("templates %v\nExecute(child): expected %q, observed %q", tpls, want, got)
	}
	// Variant: the root happens to have a block with the original name too;
	// parent() then silently yields the WRONG block.
	tpls["root"] = "[{% block content %}rootContent{% endblock %}|{% block box %}rootBox{% endblock %}]"
	tpls["child"] = "{% extends 'root' %}{% use 'u' with box as content %}{% block box %}childBox{% endblock %}"
	want = "[box(rootContent)|childBox]"
	if got := c09Run(c09Core(tpls), "child"); got != want {
		t.Errorf("templates %v\nExecute(child): expected %q, observed %q", tpls, want, got)
	}
}

// 2. In the Twig environment the result of parent() and block(name) is passed
// through the auto-escaper, so the ancestor's block comes out HTML-escaped
// (once more per level of the chain).
func TestC09_TwigEnvParentAndBlockEscaped(t *testing.T) {
	tpls := map[string]string{
		"root":  "[{% block a %}<b>root</b>{% endblock %}]",
		"mid":   "{% extends 'root' %}{% block a %}<i>{{ parent() }}</i>{% endblock %}",
		"child": "{% extends 'mid' %}{% block a %}<u>{{ parent() }}</u>{% endblock %}",
		"root2": "[{% block a %}<b>root</b>{% endblock %}|{{ block('a') }}]",
	}
	want := "[<u><i><b>root</b></i></u>]"
	if got := c09Run(c09Core(tpls), "child"); got != want {
		t.Errorf("core env: expected %q, observed %q", want, got)
	}
	if got := c09Run(c09Twig(tpls), "child"); got != want {
		t.Errorf("twig env, templates %v\nExecute(child): expected %q, observed %q", tpls, want, got)
	}
	want = "[<b>root</b>|<b>root</b>]"
	if got := c09Run(c09Twig(tpls), "root2"); got != want {
		t.Errorf("twig env, block('a'): expected %q, observed %q", want, got)
	}
}

// 3. Several aliases in one use statement are applied one after the other on the
// same map, in map-iteration order: swapping two names (or chaining a->b, b->c)
// reads entries that were already overwritten, and the outcome is random.
func TestC09_UseAliasesAppliedInPlace(t *testing.T) {
	tpls := map[string]string{
		"root":  "[{% block a %}rootA{% endblock %}|{% block b %}rootB{% endblock %}|{% block c %}rootC{% endblock %}]",
		"u":     "{% block a %}uA{% endblock %}{% block b %}uB{% endblock %}",
		"child": "{% extends 'root' %}{% use 'u' with a as b, b as a %}",
	}
	want := "[uB|uA|rootC]"
	seen := map[string]int{}
	for i := 0; i < 40; i++ {
		seen[c09Run(c09Core(tpls), "child")]++
	}
	if len(seen) != 1 || seen[want] == 0 {
		t.Errorf("templates %v\nExecute(child) x40: expected always %q, observed %v", tpls, want, seen)
	}
	// a as b, b as c: block c must be u's b.
	tpls["child"] = "{% extends 'root' %}{% use 'u' with a as b, b as c %}"
	seen = map[string]int{}
	for i := 0; i < 200; i++ {
		seen[c09Run(c09Core(tpls), "child")]++
	}
	for got := range seen {
		if len(got) < 4 || got[len(got)-4:] != "|uB]" {
			t.Errorf("templates %v\nExecute(child) x200: block c expected to be u's block b (\"...|uB]\"), observed %v", tpls, seen)
			break
		}
	}
}

// 4. Blocks imported with use by a template that does NOT extend anything (the
// root of a chain, or a chain of one) rank ABOVE that template's own blocks.
func TestC09_RootUseOutranksOwnBlocks(t *testing.T) {
	tpls := map[string]string{
		"root":  "{% use 'u' %}[{% block a %}rootA{% endblock %}]",
		"u":     "{% block a %}usedA{% endblock %}",
		"child": "{% extends 'root' %}{% block a %}child({{ parent() }}){% endblock %}",
	}
	want := "[rootA]"
	if got := c09Run(c09Core(tpls), "root"); got != want {
		t.Errorf("templates %v\nExecute(root): expected %q (own block wins over imported one), observed %q", tpls, want, got)
	}
	want = "[child(rootA)]"
	if got := c09Run(c09Core(tpls), "child"); got != want {
		t.Errorf("templates %v\nExecute(child): expected %q, observed %q", tpls, want, got)
	}
}

// 5. "use ... with a as b" imports the block under BOTH names: the original
// name is kept, so it also overrides the ancestors' block a.
func TestC09_AliasKeepsOriginalName(t *testing.T) {
	tpls := map[string]string{
		"root":  "[{% block a %}rootA{% endblock %}|{% block b %}rootB{% endblock %}]",
		"u":     "{% block a %}usedA{% endblock %}",
		"child": "{% extends 'root' %}{% use 'u' with a as b %}",
	}
	want := "[rootA|usedA]"
	if got := c09Run(c09Core(tpls), "child"); got != want {
		t.Errorf("templates %v\nExecute(child): expected %q, observed %q", tpls, want, got)
	}
}

// 6. A block defined by a template whose name is the empty string does not
// switch the current template name: a callback inside it sees the name of
// whichever template was current before.
func TestC09_CallbackNameInBlockOfEmptyNamedTemplate(t *testing.T) {
	tpls := map[string]string{
		"":      "[{% block a %}root sees '{{ tn() }}'{% endblock %}]",
		"child": "{% extends '' %}{% block a %}child sees '{{ tn() }}'; {{ parent() }}{% endblock %}",
	}
	want := "[child sees 'child'; root sees '']"
	if got := c09Run(c09Core(tpls), "child"); got != want {
		t.Errorf("templates %v\nExecute(child): expected %q, observed %q", tpls, want, got)
	}
}
