// Demonstrations for property C16 (attribute access and iteration are total
// and visit what is there).
//
// Placement: the repository root of github.com/tyler-sommer/stick, as package
// stick_test (copy this file next to value.go and run
// `go test -run 'TestC16' .`). Every test FAILS on the unmodified library.
package stick_test

import (
	"bytes"
	"fmt"
	"net/url"
	"os"
	"os/exec"
	"strings"
	"testing"
	"time"

	"github.com/tyler-sommer/stick"
)

// c16GetAttr calls stick.GetAttr and converts a panic into a reported value.
func c16GetAttr(v, k stick.Value, args ...stick.Value) (res stick.Value, err error, panicked interface{}) {
	defer func() {
		if r := recover(); r != nil {
			panicked = r
		}
	}()
	res, err = stick.GetAttr(v, k, args...)
	return
}

// ---------------------------------------------------------------------------
// Finding 1: a method promoted through a nil embedded pointer (or a nil
// embedded interface) is called anyway, and GetAttr panics.

type c16Inner struct{ N int }

func (c16Inner) Hello() string    { return "hi" }
func (p *c16Inner) Count() string { return fmt.Sprint(p.N) }

type c16OuterPtr struct{ *c16Inner }      // embedded pointer, nil in the zero value
type c16OuterIface struct{ fmt.Stringer } // embedded interface, nil in the zero value

func TestC16_PromotedMethodThroughNilEmbeddedPointerPanics(t *testing.T) {
	cases := []struct {
		name string
		v    stick.Value
		attr string
	}{
		{"c16OuterPtr{} . Hello (value receiver on nil *c16Inner)", c16OuterPtr{}, "Hello"},
		{"c16OuterPtr{} . Count (pointer receiver dereferencing nil)", c16OuterPtr{}, "Count"},
		{"&c16OuterPtr{} . Hello", &c16OuterPtr{}, "Hello"},
		{"c16OuterIface{} . String (nil embedded interface)", c16OuterIface{}, "String"},
	}
	for _, c := range cases {
		res, err, p := c16GetAttr(c.v, c.attr)
		if p != nil {
			t.Errorf("input: GetAttr(%s)\n expected: an error (the attribute cannot be reached), no panic\n observed: PANIC %v", c.name, p)
			continue
		}
		if err == nil {
			t.Errorf("input: GetAttr(%s): expected an error, got %#v", c.name, res)
		}
	}

	// The same through a template.
	func() {
		defer func() {
			if r := recover(); r != nil {
				t.Errorf("input: template `{{ o.Hello }}` with o = c16OuterPtr{}\n expected: Execute returns (error or empty output), no panic\n observed: PANIC %v", r)
			}
		}()
		var b bytes.Buffer
		stick.New(nil).Execute(`{{ o.Hello }}`, &b, map[string]stick.Value{"o": c16OuterPtr{}})
	}()
}

// ---------------------------------------------------------------------------
// Finding 2: a slice/array "index" that is not a number (a name, nil, a bool,
// a fraction, a negative fraction) is coerced to an int and an unrelated
// element is returned instead of an error.

func TestC16_SliceIndexWithUnusableKeyReturnsAnElement(t *testing.T) {
	sl := []int{10, 20}
	arr := [2]string{"a", "b"}
	cases := []struct {
		name string
		v    stick.Value
		key  stick.Value
	}{
		{`[]int{10,20} key "foo"`, sl, "foo"},
		{`[]int{10,20} key nil`, sl, nil},
		{`[]int{10,20} key true`, sl, true},
		{`[]int{10,20} key 1.5`, sl, 1.5},
		{`[]int{10,20} key -0.5 (out of range, below 0)`, sl, -0.5},
		{`[2]string{"a","b"} key "zzz"`, arr, "zzz"},
		{`&[2]string{"a","b"} key nil`, &arr, nil},
	}
	for _, c := range cases {
		res, err, p := c16GetAttr(c.v, c.key)
		if p != nil {
			t.Errorf("%s: panic %v", c.name, p)
			continue
		}
		if err == nil {
			t.Errorf("input: GetAttr(%s)\n expected: an error (no such element / key of the wrong type cannot be used as an index)\n observed: element %#v, err=nil", c.name, res)
		}
	}

	// Template form: `people.name` on a LIST silently yields the first person.
	type person struct{ Name string }
	var b bytes.Buffer
	err := stick.New(nil).Execute(`{{ people.nosuch.Name }}`, &b, map[string]stick.Value{"people": []person{{"alice"}, {"bob"}}})
	if b.String() == "alice" {
		t.Errorf("input: template `{{ people.nosuch.Name }}` with people = []person{{alice},{bob}}\n expected: people.nosuch does not exist (error, or nothing rendered)\n observed: output %q err=%v (people.nosuch evaluated to people[0])", b.String(), err)
	}
}

// ---------------------------------------------------------------------------
// Finding 3: the error for a missing attribute formats the container with %v;
// for a self-referential map or slice that recursion never ends and the
// process dies with "fatal error: stack overflow" (not even recoverable).

func TestC16_MissingAttributeOnCyclicContainerOverflowsTheStack(t *testing.T) {
	if mode := os.Getenv("C16_CYCLIC_CHILD"); mode != "" {
		// Child process: perform the lookup and report.
		var res stick.Value
		var err error
		switch mode {
		case "map":
			m := map[string]interface{}{"a": 1}
			m["self"] = m
			res, err = stick.GetAttr(m, "missing")
		case "slice":
			s := []interface{}{nil}
			s[0] = s
			res, err = stick.GetAttr(s, 5)
		}
		fmt.Printf("CHILD-OK res=%v errIsNil=%v\n", res, err == nil)
		return
	}
	for _, mode := range []string{"map", "slice"} {
		cmd := exec.Command(os.Args[0], "-test.run=^TestC16_MissingAttributeOnCyclicContainerOverflowsTheStack$")
		cmd.Env = append(os.Environ(), "C16_CYCLIC_CHILD="+mode)
		out, err := cmd.CombinedOutput()
		s := string(out)
		if err != nil || !strings.Contains(s, "CHILD-OK") {
			idx := strings.Index(s, "fatal error")
			snippet := s
			if idx >= 0 {
				snippet = s[idx:]
			}
			if len(snippet) > 200 {
				snippet = snippet[:200]
			}
			t.Errorf("input: self-referential %s (m[\"self\"]=m / s[0]=s); GetAttr(container, <missing key>)\n expected: an error value is returned\n observed: child process died (%v): %s", mode, err, snippet)
		}
	}
}

// ---------------------------------------------------------------------------
// Finding 4: a key whose static type is comparable but whose dynamic content
// is not hashable (struct or array holding a slice in an interface field)
// panics in a map with an interface key type.

type c16Key struct{ X interface{} }

func TestC16_UnhashableDynamicKeyPanics(t *testing.T) {
	m := map[interface{}]string{1: "one"}
	cases := []struct {
		name string
		key  stick.Value
	}{
		{"struct{X interface{}}{[]int{1}}", c16Key{[]int{1}}},
		{"[1]interface{}{[]int{1}}", [1]interface{}{[]int{1}}},
	}
	for _, c := range cases {
		res, err, p := c16GetAttr(m, c.key)
		if p != nil {
			t.Errorf("input: GetAttr(map[interface{}]string{1:\"one\"}, %s)\n expected: an error (key cannot be used), no panic\n observed: PANIC %v", c.name, p)
			continue
		}
		if err == nil {
			t.Errorf("%s: expected error, got %#v", c.name, res)
		}
	}
	// Reachable from a template through a context variable used as a key.
	func() {
		defer func() {
			if r := recover(); r != nil {
				t.Errorf("input: template `{{ m[k] }}` with m = map[interface{}]string, k = c16Key{[]int{1}}\n expected: no panic\n observed: PANIC %v", r)
			}
		}()
		var b bytes.Buffer
		stick.New(nil).Execute(`{{ m[k] }}`, &b, map[string]stick.Value{"m": m, "k": c16Key{[]int{1}}})
	}()
}

// ---------------------------------------------------------------------------
// Finding 5: a map whose key type is a named string type cannot be read with
// a string key (numbers are converted between named numeric kinds, strings are
// not), so an element that exists is reported as unusable-key.

type c16Color string

func TestC16_MapWithNamedStringKeyTypeCannotBeRead(t *testing.T) {
	m := map[c16Color]int{"red": 1}
	res, err, p := c16GetAttr(m, "red")
	if p != nil {
		t.Fatalf("panic %v", p)
	}
	if err != nil || res != 1 {
		t.Errorf("input: GetAttr(map[c16Color]int{\"red\":1}, \"red\") with `type c16Color string`\n expected: 1 (the element exists; cf. map[c16Num]int with `type c16Num int` which IS readable with key 1.0)\n observed: res=%#v err=%v", res, err)
	}
	// control: the numeric analogue works
	type c16Num int
	if r, e := stick.GetAttr(map[c16Num]int{1: 7}, 1.0); e != nil || r != 7 {
		t.Logf("control (named int key) unexpectedly failed: %v %v", r, e)
	}
	var b bytes.Buffer
	stick.New(nil).Execute(`{{ m.red }}|{{ m['red'] }}`, &b, map[string]stick.Value{"m": m})
	if b.String() != "1|1" {
		t.Errorf("input: template `{{ m.red }}|{{ m['red'] }}` with m = map[c16Color]int{\"red\":1}\n expected: \"1|1\"\n observed: %q", b.String())
	}
}

// ---------------------------------------------------------------------------
// Finding 6: methods are only looked up on struct values. On a named map,
// slice or scalar type the method is not found (map, scalar) or, worse, the
// method name is coerced to index 0 and an element is returned (slice).

type c16List []int

func (l c16List) Sum() int {
	s := 0
	for _, x := range l {
		s += x
	}
	return s
}

type c16Bag map[string]int

func (b c16Bag) Total() int { return 42 }

func TestC16_MethodsOnNonStructValuesAreNotFound(t *testing.T) {
	cases := []struct {
		name string
		v    stick.Value
		attr string
		args []stick.Value
		want stick.Value
	}{
		{`url.Values{"a":{"1"}} . Get("a")`, url.Values{"a": {"1"}}, "Get", []stick.Value{"a"}, "1"},
		{`c16Bag{"x":1} . Total()`, c16Bag{"x": 1}, "Total", nil, 42},
		{`c16List{7,8} . Sum()`, c16List{7, 8}, "Sum", nil, 15},
		{`time.Duration(90s) . Seconds()`, 90 * time.Second, "Seconds", nil, 90.0},
	}
	for _, c := range cases {
		res, err, p := c16GetAttr(c.v, c.attr, c.args...)
		if p != nil {
			t.Errorf("%s: panic %v", c.name, p)
			continue
		}
		if err != nil || res != c.want {
			t.Errorf("input: GetAttr(%s)\n expected: %#v (the method exists and the arguments fit)\n observed: res=%#v err=%v", c.name, c.want, res, err)
		}
	}
}
