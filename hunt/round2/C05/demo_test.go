// Demonstrations for property C05 (second round).
//
// Placement: the repository root of github.com/tyler-sommer/stick, as package
// stick_test (next to exec_test.go). Run with
//
//	GOFLAGS=-mod=mod GOPROXY=off GOSUMDB=off GOTOOLCHAIN=local go test -run 'TestC05R2_' .
//
// Every test fails on the unmodified library and names input, expected and
// observed values in its message.
package stick_test

import (
	"bytes"
	"fmt"
	"testing"

	"github.com/tyler-sommer/stick"
)

type c05Case struct {
	tpl  string
	ctx  map[string]stick.Value
	want string
}

// c05Render executes tpl in a fresh core environment (stick.New(nil)).
func c05Render(env *stick.Env, tpl string, ctx map[string]stick.Value) (string, error) {
	if env == nil {
		env = stick.New(nil)
	}
	var buf bytes.Buffer
	err := env.Execute(tpl, &buf, ctx)
	return buf.String(), err
}

func c05Check(t *testing.T, cases []c05Case) {
	t.Helper()
	for _, c := range cases {
		got, err := c05Render(nil, c.tpl, c.ctx)
		if err != nil {
			t.Errorf("input %q ctx=%v: expected output %q, observed error: %v", c.tpl, c.ctx, c.want, err)
			continue
		}
		if got != c.want {
			t.Errorf("input %q ctx=%v: expected %q, observed %q", c.tpl, c.ctx, c.want, got)
		}
	}
}

// Finding 1: value.go CoerceBool tests numbers with "> 0", so every negative
// number is false in not / and / or / the conditional.
func TestC05R2_NegativeNumbersAreFalsy(t *testing.T) {
	c05Check(t, []c05Case{
		{`{{ -1 ? 'T' : 'F' }}`, nil, "T"},
		{`{{ not -1 }}`, nil, ""},
		{`{{ -1 and true }}`, nil, "1"},
		{`{{ -0.5 or false }}`, nil, "1"},
		{`{{ n ? 'T' : 'F' }}`, map[string]stick.Value{"n": -2}, "T"},
		{`{{ (1 - 2) ? 'T' : 'F' }}`, nil, "T"},
		// controls that hold today: zero is false, positive is true
		{`{{ 0 ? 'T' : 'F' }}|{{ 2 ? 'T' : 'F' }}`, nil, "F|T"},
	})
}

// Finding 2: value.go CoerceBool has no arm for slices, arrays and maps: a
// non-empty array or hash falls through to "return false".
func TestC05R2_NonEmptyArraysAndHashesAreFalsy(t *testing.T) {
	c05Check(t, []c05Case{
		{`{{ [1, 2] ? 'T' : 'F' }}`, nil, "T"},
		{`{{ not [1] }}`, nil, ""},
		{`{{ {a: 1} ? 'T' : 'F' }}`, nil, "T"},
		{`{{ [1] and true }}`, nil, "1"},
		{`{{ arr or false }}`, map[string]stick.Value{"arr": []stick.Value{1, 2, 3}}, "1"},
		{`{{ (1..3) ? 'T' : 'F' }}`, nil, "T"},
		// control that holds today: the empty array is false
		{`{{ [] ? 'T' : 'F' }}`, nil, "F"},
	})
}

// Finding 3: value.go Equal compares CoerceString(left) with
// CoerceString(right). Every array and hash renders as "", so any two of them
// are equal (and equal to null, false and ''); booleans render as "1"/"" so
// 0 == false and 2 == true are false.
func TestC05R2_EqualityComparesStringRenderings(t *testing.T) {
	c05Check(t, []c05Case{
		{`{{ [1] == [2] }}`, nil, ""},
		{`{{ [1] != [2] }}`, nil, "1"},
		{`{{ [1, 2] == [] }}`, nil, ""},
		{`{{ {a: 1} == {a: 2} }}`, nil, ""},
		{`{{ [3] in [[1], [2]] }}`, nil, ""},
		{`{{ [3] not in [[1], [2]] }}`, nil, "1"},
		{`{{ 0 == false }}`, nil, "1"},
		{`{{ 2 == true }}`, nil, "1"},
		{`{{ null == 0 }}`, nil, "1"},
		// controls that hold today
		{`{{ [1] == [1] }}|{{ 1 == 1.0 }}|{{ 1 == true }}|{{ null == false }}`, nil, "1|1|1|1"},
	})
}

// Finding 4: parse/parse_expr.go parseRightTestOperand reads the test name with
// parseInnerExpr, which turns the words null/none/true/false into literal
// nodes; the switch then answers "expected name or function". A test registered
// under one of those names (Twig's standard "null"/"none") can never be called.
func TestC05R2_TestNamedNullOrNoneCannotBeCalled(t *testing.T) {
	for _, c := range []struct {
		tpl, name, want string
	}{
		{`{{ x is null ? 'yes' : 'no' }}`, "null", "yes"},
		{`{{ x is none ? 'yes' : 'no' }}`, "none", "yes"},
		{`{{ 1 is not null ? 'yes' : 'no' }}`, "null", "yes"},
		{`{{ x is same as(null) ? 'yes' : 'no' }}`, "same as", "yes"}, // control: holds today
	} {
		var calls []string
		env := stick.New(nil)
		isNil := func(ctx stick.Context, v stick.Value, args ...stick.Value) bool {
			calls = append(calls, fmt.Sprintf("%v%v", v, args))
			return v == nil
		}
		env.Tests["null"] = isNil
		env.Tests["none"] = isNil
		env.Tests["same as"] = isNil
		got, err := c05Render(env, c.tpl, map[string]stick.Value{"x": nil})
		if err != nil {
			t.Errorf("input %q with env.Tests[%q] registered: expected %q and one call of the test, observed error: %v (calls: %v)", c.tpl, c.name, c.want, err, calls)
			continue
		}
		if got != c.want || len(calls) != 1 {
			t.Errorf("input %q: expected %q and exactly one call, observed %q and calls %v", c.tpl, c.want, got, calls)
		}
	}
}

// Finding 5: parse/lex.go lexExpression checks for "}}" (print close) before it
// looks at anything else, also while it is tokenizing the inside of "#{ ... }".
// When the text that follows an interpolation begins with "}", the brace that
// ends the interpolation and that text are taken for the end of the print.
func TestC05R2_InterpolationFollowedByClosingBrace(t *testing.T) {
	ctx := map[string]stick.Value{"a": 1}
	c05Check(t, []c05Case{
		{`{{ "#{a}}" }}`, ctx, "1}"},
		{`{{ "{#{a}}" }}`, ctx, "{1}"},
		{`{% set s = "x{y:#{a}}" %}{{ s }}`, ctx, "x{y:1}"},
		// controls that hold today: the same text with anything between the braces
		{`{{ "#{a} }" }}|{{ "{#{a}" ~ "}" }}|{{ "a}#{a}" }}`, ctx, "1 }|{1}|a}1"},
	})
}

// Finding 6: parse/lex.go isName / lexExpression / lexName classify one BYTE at a
// time (l.peek and l.next return input[pos:pos+1]) but test it with
// unicode.IsLetter: a byte >= 0x80 decodes to U+FFFD, which is no letter, so a
// name containing a non-ASCII letter is "unknown expression".
func TestC05R2_NonASCIIVariableName(t *testing.T) {
	ctx := map[string]stick.Value{
		"größe": 5,
		"x_é":   3,
		"h":     map[string]stick.Value{"é": "v"},
	}
	c05Check(t, []c05Case{
		{`{{ größe + 1 }}`, ctx, "6"},
		{`{{ x_é }}`, ctx, "3"},
		{`{{ h.é }}`, ctx, "v"},
		{`{{ {é: 1}['é'] }}`, ctx, "1"},
		// control that holds today: the same key through a string
		{`{{ h['é'] }}`, ctx, "v"},
	})
}
