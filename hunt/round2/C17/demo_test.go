// Demonstrations for property C17 (second round).
//
// Placement: copy this file into the repository root of
// github.com/tyler-sommer/stick as demo_test.go. It is in the external test
// package stick_test and only uses the public API of the root package and of
// the twig sub-package.
//
//	export GOFLAGS=-mod=mod GOPROXY=off GOSUMDB=off GOTOOLCHAIN=local
//	go test -run 'TestC17_' -count=1 -v .
//
// Every TestC17_* test FAILS on the unmodified library (that is the point);
// TestC17Helper is the child process of the two crash demonstrations and is
// skipped when run directly.
package stick_test

import (
	"bytes"
	"fmt"
	"os"
	"os/exec"
	"strings"
	"testing"
	"time"

	"github.com/tyler-sommer/stick"
	"github.com/tyler-sommer/stick/twig"
)

// ---------------------------------------------------------------------------
// Child process for the demonstrations that end the process: a Go "fatal
// error: stack overflow" cannot be recovered, so the call is made in a copy of
// the test binary and the parent looks at how that copy ended.
// ---------------------------------------------------------------------------

const c17HelperEnv = "C17_HELPER"

func c17InterpolatedSource(n int) string {
	return `{{ "` + strings.Repeat("#{1}", n) + `" }}`
}

func c17NestedDataSource(n int) string {
	return fmt.Sprintf("{%% set a = [] %%}{%% for i in 1..%d %%}{%% set a = [a] %%}{%% endfor %%}{{ a|json_encode|length }}", n)
}

func TestC17Helper(t *testing.T) {
	mode := os.Getenv(c17HelperEnv)
	if mode == "" {
		t.Skip("helper process only")
	}
	var kind string
	var n int
	fmt.Sscanf(mode, "%s %d", &kind, &n)
	var out bytes.Buffer
	var err error
	switch kind {
	case "interp":
		err = stick.New(nil).ExecuteSafe(c17InterpolatedSource(n), &out, nil)
	case "nested":
		err = twig.New(nil).ExecuteSafe(c17NestedDataSource(n), &out, nil)
	}
	// Either answer is fine for C17: the complete output, or a non-nil error.
	fmt.Printf("HELPER-RETURNED len(out)=%d err=%v\n", out.Len(), err)
}

// c17RunChild reports whether ExecuteSafe returned in the child, and the
// beginning of what the child printed.
func c17RunChild(t *testing.T, mode string) (returned bool, overflow bool, head string) {
	start := time.Now()
	cmd := exec.Command(os.Args[0], "-test.run=^TestC17Helper$", "-test.v")
	cmd.Env = append(os.Environ(), c17HelperEnv+"="+mode)
	outb, err := cmd.CombinedOutput()
	out := string(outb)
	t.Logf("child %q ran %v, exit error: %v", mode, time.Since(start).Round(time.Second), err)
	head = out
	if len(head) > 300 {
		head = head[:300]
	}
	return err == nil && strings.Contains(out, "HELPER-RETURNED"), strings.Contains(out, "stack overflow"), head
}

// ---------------------------------------------------------------------------
// Finding 1: a flat string literal with many interpolations ends the process.
//
// The parser bounds the depth of every expression chain (a concatenation of
// 10001 terms written with ~ is answered with a NestingError), but the
// concatenation chain it builds for "#{a}#{a}#{a}..." in parseInnerExpr
// (case tokenStringOpen / tokenStringClose) is assembled in a loop that never
// passes Tree.deeper(): n interpolations give a left-deep BinaryExpr tree n
// levels deep. state.evalExpr recurses over it and the Go runtime kills the
// process with "fatal error: stack overflow"; Execute / ExecuteSafe never
// return an error.
// ---------------------------------------------------------------------------

func TestC17_LongInterpolatedStringEndsProcess(t *testing.T) {
	// For contrast: the same chain written with the ~ operator is refused.
	{
		var out bytes.Buffer
		err := stick.New(nil).Execute("{{ 1"+strings.Repeat("~1", 10001)+" }}", &out, nil)
		msg := fmt.Sprint(err)
		if len(msg) > 90 {
			msg = msg[:90] + "..."
		}
		t.Logf("contrast: {{ 1~1~...~1 }} with 10001 links => err=%s", msg)
	}
	const n = 1200000 // 4.8 MB of template source: one flat string literal
	returned, overflow, head := c17RunChild(t, fmt.Sprintf("interp %d", n))
	if !returned {
		t.Fatalf("input: stick.New(nil).ExecuteSafe(`{{ \"#{1}#{1}...#{1}\" }}`) with %d interpolations (flat, nothing nested)\n"+
			"expected: ExecuteSafe returns - the complete output, or a non-nil error like the NestingError the 10001-term ~ chain gets\n"+
			"observed: the process ended before ExecuteSafe returned (fatal error: stack overflow = %v); the child printed:\n%s",
			n, overflow, head)
	}
}

// ---------------------------------------------------------------------------
// Finding 2: a 95-byte template with no nesting and no recursion ends the
// process in the Twig environment. A for loop wraps a list into a new list a
// million times ({% set a = [a] %}); the loop itself is iterative and well
// inside the 2^24 limit of the .. operator. json_encode then hands the value to
// encoding/json, which recurses once per level of the data and has no depth
// limit when encoding: "fatal error: stack overflow". filterJSONEncode only
// looks at the error json.Marshal returns.
// ---------------------------------------------------------------------------

func TestC17_JSONEncodeOfLoopBuiltNestingEndsProcess(t *testing.T) {
	// The same template with a small bound works.
	{
		var out bytes.Buffer
		err := twig.New(nil).ExecuteSafe(c17NestedDataSource(1000), &out, nil)
		t.Logf("contrast: %s => %q, err=%v", c17NestedDataSource(1000), out.String(), err)
	}
	const n = 1200000
	returned, overflow, head := c17RunChild(t, fmt.Sprintf("nested %d", n))
	if !returned {
		t.Fatalf("input: twig.New(nil).ExecuteSafe(%q)\n"+
			"expected: ExecuteSafe returns - %q, or a non-nil error\n"+
			"observed: the process ended before ExecuteSafe returned (fatal error: stack overflow = %v); the child printed:\n%s",
			c17NestedDataSource(n), fmt.Sprint(2*n+2), overflow, head)
	}
}

// ---------------------------------------------------------------------------
// Finding 3: Execute is not a function of its input when a use / from tag
// gives two names the same alias, so ExecuteSafe's output is not byte-identical
// to Execute's. The parser stores the import list of both tags in a Go map
// (UseNode.Aliases, FromNode.Imports: original name -> alias) and the executor
// ranges over that map (walkUseNode, walkFromNode), so which of the two
// definitions ends up under the alias depends on Go's randomised map iteration
// order. No hash value and no context variable is involved.
// ---------------------------------------------------------------------------

func TestC17_AliasCollisionMakesOutputRandom(t *testing.T) {
	cases := map[string]map[string]string{
		"use": {
			"blocks.twig": "{% block a %}A{% endblock %}{% block b %}B{% endblock %}",
			"main.twig":   "{% use 'blocks.twig' with a as x, b as x %}[{{ block('x') }}]",
		},
		"from": {
			"macros.twig": "{% macro a() %}A{% endmacro %}{% macro b() %}B{% endmacro %}",
			"main.twig":   "{% from 'macros.twig' import a as x, b as x %}[{{ x() }}]",
		},
	}
	for _, tag := range []string{"use", "from"} {
		tpls := cases[tag]
		env := stick.New(&stick.MemoryLoader{Templates: tpls})
		var ref bytes.Buffer
		if err := env.Execute("main.twig", &ref, nil); err != nil {
			t.Fatalf("%s: Execute: %v", tag, err)
		}
		const runs = 300
		distinct := map[string]int{}
		for i := 0; i < runs; i++ {
			var b bytes.Buffer
			if err := env.ExecuteSafe("main.twig", &b, nil); err != nil {
				t.Fatalf("%s: ExecuteSafe: %v", tag, err)
			}
			distinct[b.String()]++
		}
		if len(distinct) != 1 || distinct[ref.String()] != runs {
			t.Errorf("%s tag, input: main.twig=%q %v\n"+
				"expected: every ExecuteSafe delivers exactly the bytes Execute wrote (%q)\n"+
				"observed: Execute wrote %q; %d x ExecuteSafe (same env, same input, nil context) wrote %v",
				tag, tpls["main.twig"], tpls, ref.String(), ref.String(), runs, distinct)
		}
	}
}
