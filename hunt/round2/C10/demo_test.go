// Placement: repository root, package stick_test (copy next to exec.go and run
//   GOFLAGS=-mod=mod GOPROXY=off GOSUMDB=off GOTOOLCHAIN=local go test -run TestC10 . )
//
// Round 2 of the C10 audit found NO new violation (see findings.json = [] and
// tried.txt). There is therefore no failing demonstration. The single test below
// is a PASSING sanity matrix: it pins the behaviours that were probed hardest, so
// that the "nothing found" verdict can be re-checked mechanically. It passes on
// the unmodified library.
package stick_test

import (
	"bytes"
	"testing"

	"github.com/tyler-sommer/stick"
	"github.com/tyler-sommer/stick/twig"
)

func c10run(tw bool, tpls map[string]string, ctx map[string]stick.Value) string {
	l := &stick.MemoryLoader{Templates: tpls}
	env := stick.New(l)
	if tw {
		env = twig.New(l)
	}
	var b bytes.Buffer
	if err := env.Execute("m", &b, ctx); err != nil {
		return b.String() + "|ERR:" + err.Error()
	}
	return b.String()
}

func TestC10NoFindingSanityMatrix(t *testing.T) {
	type tc struct {
		name string
		tpls map[string]string
		ctx  map[string]stick.Value
		want string
	}
	cases := []tc{
		{"include plain: sees call-site vars, its sets do not leak", map[string]string{"m": "{% set a = 1 %}{% include 'p' %}|{{ a }}{{ z }}", "p": "[{{ a }}{{ b }}{% set a = 9 %}{% set z = 5 %}{{ a }}]"}, map[string]stick.Value{"b": "B"}, "[1B9]|1"},
		{"include with", map[string]string{"m": "{% set a = 1 %}{% include 'p' with {b: 2, a: 3} %}|{{ a }}{{ b }}", "p": "[{{ a }}{{ b }}]"}, map[string]stick.Value{"b": "B"}, "[32]|1B"},
		{"include only", map[string]string{"m": "{% set a = 1 %}{% include 'p' only %}|{{ a }}", "p": "[{{ a }}{{ b }}]"}, map[string]stick.Value{"b": "B"}, "[]|1"},
		{"include with only", map[string]string{"m": "{% set a = 1 %}{% include 'p' with {b: a} only %}|{{ a }}", "p": "[{{ a }}{{ b }}]"}, map[string]stick.Value{"b": "B"}, "[1]|1"},
		{"include no spaces", map[string]string{"m": "{%include 'p'with{a:1}only%}", "p": "[{{ a }}{{ b }}]"}, map[string]stick.Value{"b": "B"}, "[1]"},
		{"include of a child template sharing block names with the host", map[string]string{"m": "{% block x %}MX{% endblock %}{% include 'c' %}", "c": "{% extends 'b' %}{% block y %}cy{% endblock %}", "b": "<{% block x %}bx{% endblock %}{% block y %}{% endblock %}>"}, nil, "MX<bxcy>"},
		{"include in imported macro in loop", map[string]string{"m": "{% import 'mm' as k %}{% for i in 1..2 %}{{ k.f(i) }}{% endfor %}", "mm": "{% macro f(q) %}{% include 'p' with {r: q} only %}{% endmacro %}", "p": "[{{ q }}{{ r }}{{ i }}]"}, nil, "[1][2]"},
		{"embed: override, parent(), sets stay inside", map[string]string{"m": "{% set a = 1 %}{% embed 'p' %}{% block x %}X{{ a }}{% set a = 7 %}{{ parent() }}{% endblock %}{% endembed %}|{{ a }}", "p": "[{{ a }}{% block x %}px{{ a }}{% endblock %}{% block y %}py{% endblock %}]"}, nil, "[1X1px7py]|1"},
		{"embed: host blocks of the same name are unrelated", map[string]string{"m": "{% block y %}HY{% endblock %}{% embed 'p' %}{% block x %}X{% endblock %}{% endembed %}{% block x %}HX{% endblock %}", "p": "[{% block x %}px{% endblock %}{% block y %}py{% endblock %}]"}, nil, "HY[Xpy]HX"},
		{"embed: child of host overriding the same name", map[string]string{"m": "{% extends 'b' %}{% block x %}CX{% endblock %}", "b": "{% embed 'p' %}{% block x %}EX{% endblock %}{% endembed %}{% block x %}bx{% endblock %}{% embed 'p' %}{% endembed %}", "p": "[{% block x %}px{% endblock %}]"}, nil, "[EX]CX[px]"},
		{"embed of a template that extends", map[string]string{"m": "{% embed 'c' %}{% block x %}X{{ parent() }}{% endblock %}{% block z %}Z{% endblock %}{% endembed %}", "c": "{% extends 'p' %}{% block x %}cx{{ parent() }}{% endblock %}", "p": "[{% block x %}px{% endblock %}{% block z %}pz{% endblock %}]"}, nil, "[XcxpxZ]"},
		{"embed: overrides hold for that embed only", map[string]string{"m": "{% embed 'p' %}{% block x %}1{% endblock %}{% endembed %}{% embed 'p' %}{% endembed %}{% embed 'p' %}{% block x %}3{% endblock %}{% endembed %}", "p": "[{% block x %}px{% endblock %}]"}, nil, "[1][px][3]"},
		{"embed with only in loop", map[string]string{"m": "{% for i in 1..3 %}{% embed 'p' with {j: i} only %}{% block x %}{{ j }}{{ i }}{{ loop.index }}{% endblock %}{% endembed %}{% endfor %}", "p": "[{% block x %}px{% endblock %}]"}, nil, "[1][2][3]"},
		{"embed nested in embed of an embedding template", map[string]string{"m": "{% embed 'p' %}{% block x %}MX{% endblock %}{% endembed %}", "p": "[{% block x %}px{% endblock %}{% embed 'q' %}{% block x %}PQX{% endblock %}{% endembed %}{% embed 'q' %}{% endembed %}]", "q": "<{% block x %}qx{% endblock %}>"}, nil, "[MX<PQX><qx>]"},
		{"embed in a macro of another template", map[string]string{"m": "{% import 'mm' as k %}{% block x %}HX{% endblock %}{{ k.f(3) }}", "mm": "{% macro f(v) %}{% embed 'p' only %}{% block x %}E{{ v }}{% endblock %}{% endembed %}{% endmacro %}", "p": "[{% block x %}{% endblock %}{{ v }}]"}, nil, "HX[E]"},
	}
	for _, c := range cases {
		for _, tw := range []bool{false, true} {
			if got := c10run(tw, c.tpls, c.ctx); got != c.want {
				t.Errorf("%s (twig=%v)\n templates: %v\n expected: %q\n observed: %q", c.name, tw, c.tpls, c.want, got)
			}
		}
	}
}
