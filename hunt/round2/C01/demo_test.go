// Demonstrations for property C01 (parsing is total), second round.
//
// Where it belongs: copy this file into the parse/ directory of the stick
// worktree (package parse_test) and run
//
//	go test ./parse -run 'TestC01_' -v -timeout 30m
//
// Both inputs make the UNMODIFIED library die with "fatal error: stack
// overflow" (runtime.throw: not a panic, not recoverable, it ends the whole
// process). So that the test binary itself survives and can print a verdict,
// every test re-executes the test binary as a child process, lets the child do
// the one parse.Parse call, and inspects how the child ended. The test FAILS
// when the child did not come back with "a tree or an error".
//
// Cost: each child needs about 5-6 GB of memory and 50-90 s (the inputs are
// about 25 MB; the parser spends some microseconds per token).
package parse_test

import (
	"fmt"
	"os"
	"os/exec"
	"strings"
	"testing"

	"github.com/tyler-sommer/stick/parse"
)

const childEnv = "C01_DEMO_CHILD"

// inChild runs the parse in the child process and prints a marker line that
// the parent looks for. It reports whether the caller is the child.
func inChild(t *testing.T, mk func() string) bool {
	if os.Getenv(childEnv) != "1" {
		return false
	}
	src := mk()
	tree, err := parse.Parse(src)
	switch {
	case err != nil:
		fmt.Printf("CHILD-RESULT error: %.200s\n", err.Error())
	case tree != nil:
		fmt.Printf("CHILD-RESULT tree\n")
	default:
		fmt.Printf("CHILD-RESULT neither\n")
	}
	return true
}

// runChild re-executes this test binary for the one named test.
func runChild(t *testing.T, name string) (string, error) {
	cmd := exec.Command(os.Args[0], "-test.run=^"+name+"$", "-test.v", "-test.timeout=25m")
	cmd.Env = append(os.Environ(), childEnv+"=1")
	out, err := cmd.CombinedOutput()
	return string(out), err
}

func verdict(t *testing.T, input, out string, err error) {
	if strings.Contains(out, "CHILD-RESULT tree") || strings.Contains(out, "CHILD-RESULT error") {
		return // a tree or an error: the property holds for this input
	}
	// keep the report short: the Go runtime prints the whole 10^7 frame stack
	head := out
	if len(head) > 600 {
		head = head[:600] + " ..."
	}
	t.Fatalf("C01 violated.\n input:    %s\n expected: parse.Parse returns a tree or an error value\n observed: the process that called parse.Parse died (%v); its output begins:\n%s",
		input, err, head)
}

// Finding 1. A double-quoted string with N interpolations is turned into a
// left-deep chain of N-1 nested '~' BinaryExpr nodes by the loop in
// parseInnerExpr (case tokenStringOpen). Nothing counts these links: the
// 10000-level bound (Tree.deeper, and the links counter in parseBinaryExpr)
// is not consulted there. Tree.Parse then walks the tree with the recursive
// Tree.traverse and exhausts the goroutine stack.
func TestC01_InterpolationChainKillsProcess(t *testing.T) {
	const n = 6000000 // 24 MB of source, flat: bracket nesting depth is 1
	mk := func() string { return `{{ "` + strings.Repeat("#{a}", n) + `" }}` }
	if inChild(t, mk) {
		return
	}
	out, err := runChild(t, "TestC01_InterpolationChainKillsProcess")
	verdict(t, fmt.Sprintf(`{{ "%s" }} with "#{a}" repeated %d times (%d bytes, no nesting at all)`, "#{a}#{a}...", n, 4*n+8), out, err)
}

// Finding 2. The bound on left-associative chains is a counter local to one
// invocation of parseBinaryExpr (links), and Tree.depth only counts the
// recursion of the parser, not the depth of the tree it returns. A chain of
// 9999 '+' sits 9999 levels deep in the tree but costs nothing in Tree.depth
// once it is built; wrapping it in parentheses and using it as the LEFT
// operand of the next chain adds another 9999 levels, and so on. 1300 levels
// of parentheses (far below the ~10^4 the property leaves out, and below the
// parser's own limit) give a tree about 1.3*10^7 levels deep, and Tree.traverse
// dies on it.
func TestC01_NestedChainsMultiplyTreeDepth(t *testing.T) {
	const d = 1300
	mk := func() string {
		var sb strings.Builder
		sb.WriteString("{{ ")
		sb.WriteString(strings.Repeat("(", d))
		sb.WriteString("a")
		chain := strings.Repeat("+a", 9999)
		for i := 0; i < d; i++ {
			sb.WriteString(chain)
			sb.WriteString(")")
		}
		sb.WriteString(" }}")
		return sb.String()
	}
	if inChild(t, mk) {
		return
	}
	out, err := runChild(t, "TestC01_NestedChainsMultiplyTreeDepth")
	verdict(t, fmt.Sprintf(`{{ (((...(a+a+...+a)+a+...+a)...) }}: %d levels of parentheses, each closing after a chain of 9999 "+a" (about %d bytes)`, d, d*19999), out, err)
}
