// Demonstrations for property C14 (formatting inside delimiters does not change meaning).
//
// Placement: the repository root of github.com/tyler-sommer/stick, as package stick_test
// (copy this file next to exec_test.go and run `go test -run TestC14 .`).
// Every test FAILS on the unmodified library while the violation is present.
package stick_test

import (
	"bytes"
	"testing"

	"github.com/tyler-sommer/stick"
	"github.com/tyler-sommer/stick/twig"
)

// c14Render executes src as template "main" of a MemoryLoader in both environments
// and returns the outputs and errors (index 0: stick.New, index 1: twig.New).
func c14Render(src string, ctx map[string]stick.Value) (outs [2]string, errs [2]error) {
	for i := 0; i < 2; i++ {
		l := &stick.MemoryLoader{Templates: map[string]string{
			"main":   src,
			"macros": "{% macro m() %}M{% endmacro %}{% macro n() %}N{% endmacro %}",
		}}
		var env *stick.Env
		if i == 0 {
			env = stick.New(l)
		} else {
			env = twig.New(l)
		}
		c := map[string]stick.Value{}
		for k, v := range ctx {
			c[k] = v
		}
		var buf bytes.Buffer
		errs[i] = env.Execute("main", &buf, c)
		outs[i] = buf.String()
	}
	return
}

var c14EnvNames = [2]string{"stick.New", "twig.New"}

// Finding 1: inside the #{ } of an interpolated string, a string literal WITHOUT
// interpolation may be written with single quotes only; with double quotes the
// template no longer parses.
func TestC14_QuoteChoiceInsideInterpolation(t *testing.T) {
	ctx := map[string]stick.Value{"h": map[string]stick.Value{"k": "v"}}
	pairs := [][2]string{
		{`{{ "a#{ h['k'] }b" }}`, `{{ "a#{ h["k"] }b" }}`},
		{`{{ "a#{ 'x' }b" }}`, `{{ "a#{ "x" }b" }}`},
	}
	for _, p := range pairs {
		so, se := c14Render(p[0], ctx)
		do, de := c14Render(p[1], ctx)
		for i := 0; i < 2; i++ {
			if se[i] != nil {
				t.Fatalf("[%s] baseline %q does not render: %v", c14EnvNames[i], p[0], se[i])
			}
			if de[i] != nil || do[i] != so[i] {
				t.Errorf("[%s] quote choice around a string without interpolation changed the outcome\n  single quotes: %q -> %q (err=%v)\n  double quotes: %q -> %q (err=%v)\n  expected both to render %q",
					c14EnvNames[i], p[0], so[i], se[i], p[1], do[i], de[i], so[i])
			}
		}
	}
}

// Finding 2: the tokeniser glues adjacent punctuation characters (, | ? : . =) into ONE
// punctuation token, although no such token exists; a blank between them makes
// them two tokens. Whether a template parses therefore depends on that blank.
func TestC14_AdjacentPunctuationIsGluedIntoOneToken(t *testing.T) {
	pairs := [][2]string{
		// accepted with a blank between the commas, rejected without
		{`{% macro m(a, , b) %}[{{ a }}{{ b }}]{% endmacro %}{{ _self.m(1, 2) }}`, `{% macro m(a,,b) %}[{{ a }}{{ b }}]{% endmacro %}{{ _self.m(1, 2) }}`},
		{`{% from 'macros' import m, , n %}{{ n() }}`, `{% from 'macros' import m,,n %}{{ n() }}`},
		// rejected with a blank between '=' and '|', accepted without
		{`{% set q = | 1 %}{{ q }}`, `{% set q =| 1 %}{{ q }}`},
	}
	for _, p := range pairs {
		ao, ae := c14Render(p[0], nil)
		bo, be := c14Render(p[1], nil)
		for i := 0; i < 2; i++ {
			if (ae[i] == nil) != (be[i] == nil) || ao[i] != bo[i] {
				t.Errorf("[%s] white space between two punctuation characters changed the outcome\n  spaced:   %q -> %q (err=%v)\n  unspaced: %q -> %q (err=%v)\n  expected the same outcome for both spellings",
					c14EnvNames[i], p[0], ao[i], ae[i], p[1], bo[i], be[i])
			}
		}
	}
}

// Finding 3: with the default StringLoader (stick.New(nil) / twig.New(nil)) the name
// of a template is its source text, and _self.templateName prints it: what the
// template renders changes with the white space inside its own delimiters.
func TestC14_StringLoaderNameIsTheSpelling(t *testing.T) {
	spellings := []string{
		"{{ _self.templateName|length }}|{{ _self.templateName }}",
		"{{_self.templateName|length}}|{{_self.templateName}}",
		"{{\t_self . templateName | length\n}}|{{ _self.templateName }}",
	}
	for i, mk := range []func() *stick.Env{func() *stick.Env { return stick.New(nil) }, func() *stick.Env { return twig.New(nil) }} {
		var outs []string
		for _, src := range spellings {
			env := mk()
			env.Filters["length"] = func(ctx stick.Context, v stick.Value, a ...stick.Value) stick.Value {
				return len(stick.CoerceString(v))
			}
			var buf bytes.Buffer
			if err := env.Execute(src, &buf, map[string]stick.Value{}); err != nil {
				t.Fatalf("[%s] %q: %v", c14EnvNames[i], src, err)
			}
			outs = append(outs, buf.String())
		}
		// Only the first number (the length of the name) is compared: it must not
		// depend on the spelling of the tags.
		first := func(s string) string {
			for j := 0; j < len(s); j++ {
				if s[j] == '|' {
					return s[:j]
				}
			}
			return s
		}
		for j := 1; j < len(outs); j++ {
			if first(outs[j]) != first(outs[0]) {
				t.Errorf("[%s] re-spelling the tags changed what {{ _self.templateName|length }} renders\n  %q -> %q\n  %q -> %q\n  expected the same value for every spelling",
					c14EnvNames[i], spellings[0], outs[0], spellings[j], outs[j])
			}
		}
	}
}
