// Demonstrations for property C04 (operator precedence and associativity follow
// the operator table; parentheses that merely restate the grouping never change
// the result).
//
// Belongs in the repository root as package stick_test
// (copy to <repo>/c04_demo_test.go and run `go test -run TestC04 .`).
// Each test FAILS on the unmodified library while the violation is present.
package stick_test

import (
	"bytes"
	"fmt"
	"strings"
	"testing"

	"github.com/tyler-sommer/stick"
)

func c04Render(env *stick.Env, tpl string, ctx map[string]stick.Value) (string, error) {
	var buf bytes.Buffer
	err := env.Execute(tpl, &buf, ctx)
	return buf.String(), err
}

func c04Short(s string) string {
	if len(s) > 70 {
		return s[:50] + " ... " + s[len(s)-15:]
	}
	return s
}

// Finding 1: a chain of a few thousand operators evaluates when written without
// parentheses, but its fully parenthesised form is rejected as "nested too deeply
// (more than 10000 levels)" although it nests only 3400..6000 levels: the depth
// counter is charged two or three times per parenthesis level.
func TestC04_FullyParenthesisedLongChainIsRejected(t *testing.T) {
	env := stick.New(nil)
	type pair struct{ what, flat, full string }
	var cases []pair

	n := 3400 // right-associative chain: 2 ** 1 ** 1 ** ... versus 2 ** (1 ** (1 ** ...))
	cases = append(cases, pair{
		fmt.Sprintf("%d ** operators", n),
		"2" + strings.Repeat(" ** 1", n),
		"2" + strings.Repeat(" ** (1", n) + strings.Repeat(")", n),
	})
	n = 3400 // unary prefixes: - - - 1 versus (- (- (- 1)))
	cases = append(cases, pair{
		fmt.Sprintf("%d unary minus prefixes", n),
		"0 + " + strings.Repeat("- ", n) + "1",
		"0 + " + strings.Repeat("(- ", n) + "1" + strings.Repeat(")", n),
	})
	n = 5100 // left-associative chain: 1 + 1 + 1 ... versus (((1 + 1) + 1) + 1) ...
	cases = append(cases, pair{
		fmt.Sprintf("%d + operators", n),
		"1" + strings.Repeat(" + 1", n),
		strings.Repeat("(", n) + "1" + strings.Repeat(" + 1)", n),
	})

	for _, c := range cases {
		fo, fe := c04Render(env, "{{ "+c.flat+" }}", nil)
		po, pe := c04Render(env, "{{ "+c.full+" }}", nil)
		if (fe == nil) != (pe == nil) || fo != po {
			pes := fmt.Sprint(pe)
			if len(pes) > 90 {
				pes = pes[:90] + "..."
			}
			t.Errorf("%s:\n  input (flat): {{ %s }}\n  input (full): {{ %s }}\n  expected: both forms render the same value\n  observed: flat -> %q (err=%v); fully parenthesised -> %q (err=%s)",
				c.what, c04Short(c.flat), c04Short(c.full), fo, fe, po, pes)
		}
	}
}

// Finding 2: a test (is / is not) at the end of an expression swallows the tag
// keyword that follows the expression (only, with, if, as, import) as the second
// word of a two-word test name, so the unparenthesised expression fails while the
// parenthesised one evaluates.
func TestC04_TestAtEndOfExpressionSwallowsTagKeyword(t *testing.T) {
	odd := func(ctx stick.Context, v stick.Value, args ...stick.Value) bool {
		return int(stick.CoerceNumber(v))%2 != 0
	}
	ctx := func() map[string]stick.Value { return map[string]stick.Value{"a": 3, "h": map[string]stick.Value{"k": "v"}} }
	cases := []struct{ flat, full string }{
		{"{% include 'row' ~ a is odd only %}", "{% include ('row' ~ (a is odd)) only %}"},
		{"{% include 'row' ~ a is odd with h %}", "{% include ('row' ~ (a is odd)) with h %}"},
		{"{% for i in 1..a is odd if i %}[{{ i }}]{% endfor %}", "{% for i in (1..(a is odd)) if i %}[{{ i }}]{% endfor %}"},
	}
	for _, c := range cases {
		env := stick.New(&stick.MemoryLoader{Templates: map[string]string{
			"flat": c.flat,
			"full": c.full,
			"row1": "ROW1{{ k }}",
		}})
		env.Tests["odd"] = odd
		fo, fe := c04Render(env, "flat", ctx())
		po, pe := c04Render(env, "full", ctx())
		if (fe == nil) != (pe == nil) || fo != po {
			t.Errorf("\n  input (flat): %s\n  input (full): %s\n  expected: both forms render the same\n  observed: flat -> %q (err=%v); parenthesised -> %q (err=%v)",
				c.flat, c.full, fo, fe, po, pe)
		}
	}
}
