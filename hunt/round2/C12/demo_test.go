// Belongs in the twig/ directory of the worktree, as package twig_test
// (cp demo_test.go /tmp/hunt2/C12/twig/c12_demo_test.go && go test ./twig/ -run TestC12).
package twig_test

import (
	"bytes"
	"testing"

	"github.com/tyler-sommer/stick"
	"github.com/tyler-sommer/stick/twig"
	"github.com/tyler-sommer/stick/twig/escape"
)

// An explicit escape filter that IS the outermost node of the print, but whose
// strategy argument is anything other than a bare string literal (a variable, a
// parenthesised literal, a concatenation, an interpolated string, a ternary),
// is not recognised by autoEscapeVisitor.escapesItself, so the print is wrapped
// in a second escape for the template's type: the value is escaped twice.
func TestC12ExplicitEscapeWithComputedStrategyIsEscapedTwice(t *testing.T) {
	const x = `<a href="x" title='y'>&</a>`
	cases := []struct {
		name, tplName, src string
		want                string
	}{
		{"variable strategy, html template", "page.html", `{{ x|escape(s) }}`, escape.HTMLAttribute(x)},
		{"parenthesised literal, html template", "page.html", `{{ x|escape(('html_attr')) }}`, escape.HTMLAttribute(x)},
		{"concatenated literal, html template", "page.html", `{{ x|escape('html_' ~ 'attr') }}`, escape.HTMLAttribute(x)},
		{"ternary strategy, html template", "page.html", `{{ x|escape(true ? 'html_attr' : 'html') }}`, escape.HTMLAttribute(x)},
		{"variable strategy 'html', js template", "page.js", `{{ x|escape(h) }}`, escape.HTML(x)},
	}
	for _, c := range cases {
		// reference: the same print with the strategy written as a plain literal
		lit := `{{ x|escape('html_attr') }}`
		if c.tplName == "page.js" {
			lit = `{{ x|escape('html') }}`
		}
		env := twig.New(&stick.MemoryLoader{Templates: map[string]string{c.tplName: c.src, "lit." + c.tplName: lit}})
		ctx := func() map[string]stick.Value {
			return map[string]stick.Value{"x": x, "s": "html_attr", "h": "html"}
		}
		var got, ref bytes.Buffer
		if err := env.Execute(c.tplName, &got, ctx()); err != nil {
			t.Errorf("%s: unexpected error: %v", c.name, err)
			continue
		}
		if err := env.Execute("lit."+c.tplName, &ref, ctx()); err != nil {
			t.Errorf("%s: unexpected error: %v", c.name, err)
			continue
		}
		if ref.String() != c.want {
			t.Errorf("%s: reference %s\n  expected %q\n  observed %q", c.name, lit, c.want, ref.String())
		}
		if got.String() != c.want {
			t.Errorf("%s: template %q = %s with x=%q, s=\"html_attr\", h=\"html\"\n  expected (escaped once, same as %s): %q\n  observed (escaped twice):            %q",
				c.name, c.tplName, c.src, x, lit, c.want, got.String())
		}
	}
}
