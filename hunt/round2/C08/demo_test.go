// Demo for property C08. Belongs in the repository root (next to exec.go) as
// package stick_test:
//
//	cp demo_test.go <worktree>/c08_demo_test.go && go test -run TestC08 .
package stick_test

import (
	"bytes"
	"testing"

	"github.com/tyler-sommer/stick"
	"github.com/tyler-sommer/stick/twig"
)

// A set..endset capture at the top level of a template that extends (such a
// capture is executed: its value is visible in the blocks) around block() or
// around a block whose body calls parent(). With three templates in the chain
// the block maps of the ancestors beyond the direct parent have not been
// appended to the state yet when the capture runs, so block()/parent() fail
// with "Unable to locate block" although the block exists, and nothing is
// rendered. The very same capture placed inside a block body, or the same
// templates with only two levels, work.
func TestC08_BlockFunctionInTopLevelCaptureOfGrandchild(t *testing.T) {
	type tc struct {
		name  string
		tpls  map[string]string
		entry string
		want  string
	}
	cases := []tc{
		{
			name: "block() of a block defined in the grandparent",
			tpls: map[string]string{
				"base":  "[{% block a %}BA{% endblock %}|{% block b %}BB{% endblock %}]",
				"mid":   "{% extends 'base' %}{% block a %}MA{% endblock %}",
				"child": "{% extends 'mid' %}{% set x %}<{{ block('b') }}>{% endset %}{% block a %}CA{{ x }}{{ x }}{% endblock %}",
			},
			entry: "child",
			want:  "[CA<BB><BB>|BB]",
		},
		{
			name: "block() of a block whose parent() chain reaches the grandparent",
			tpls: map[string]string{
				"base":  "[{% block a %}BA{% endblock %}|{% block b %}BB{% endblock %}]",
				"mid":   "{% extends 'base' %}{% block a %}MA({{ parent() }}){% endblock %}",
				"child": "{% extends 'mid' %}{% set x %}<{{ block('a') }}>{% endset %}{% block b %}CB{{ x }}{% endblock %}",
			},
			entry: "child",
			want:  "[MA(BA)|CB<MA(BA)>]",
		},
		{
			name: "control: the same capture inside a block body (works)",
			tpls: map[string]string{
				"base":  "[{% block a %}BA{% endblock %}|{% block b %}BB{% endblock %}]",
				"mid":   "{% extends 'base' %}{% block a %}MA{% endblock %}",
				"child": "{% extends 'mid' %}{% block a %}{% set x %}<{{ block('b') }}>{% endset %}CA{{ x }}{{ x }}{% endblock %}",
			},
			entry: "child",
			want:  "[CA<BB><BB>|BB]",
		},
		{
			name: "control: two levels only (works)",
			tpls: map[string]string{
				"base":  "[{% block a %}BA{% endblock %}|{% block b %}BB{% endblock %}]",
				"child": "{% extends 'base' %}{% set x %}<{{ block('b') }}>{% endset %}{% block a %}CA{{ x }}{{ x }}{% endblock %}",
			},
			entry: "child",
			want:  "[CA<BB><BB>|BB]",
		},
	}
	envs := map[string]func(stick.Loader) *stick.Env{"stick.New": stick.New}
	for ename, mk := range envs {
		for _, c := range cases {
			env := mk(&stick.MemoryLoader{Templates: c.tpls})
			var out bytes.Buffer
			err := env.Execute(c.entry, &out, map[string]stick.Value{})
			if err != nil || out.String() != c.want {
				t.Errorf("%s / %s:\n templates: %v\n entry:     %s\n expected:  %q (no error)\n observed:  %q, error: %v",
					ename, c.name, c.tpls, c.entry, c.want, out.String(), err)
			}
		}
	}
	// The Twig environment behaves the same (its output escapes '<' when the
	// captured string is printed, which is not the point here: use no markup).
	tpls := map[string]string{
		"base":  "[{% block a %}BA{% endblock %}|{% block b %}BB{% endblock %}]",
		"mid":   "{% extends 'base' %}{% block a %}MA{% endblock %}",
		"child": "{% extends 'mid' %}{% set x %}({{ block('b') }}){% endset %}{% block a %}CA{{ x }}{{ x }}{% endblock %}",
	}
	env := twig.New(&stick.MemoryLoader{Templates: tpls})
	var out bytes.Buffer
	err := env.ExecuteSafe("child", &out, nil)
	if want := "[CA(BB)(BB)|BB]"; err != nil || out.String() != want {
		t.Errorf("twig.New / ExecuteSafe:\n templates: %v\n expected:  %q (no error)\n observed:  %q, error: %v", tpls, want, out.String(), err)
	}
}
