// Belongs in the repository root (next to exec.go) as package stick_test.
// Run: go test -run 'TestC06' .
package stick_test

import (
	"bytes"
	"testing"

	"github.com/tyler-sommer/stick"
)

// LOW-CONFIDENCE finding (the only candidate the second round produced):
// a Go slice wrapped by the library's own stick.NewSafeValue is not iterated.
// CoerceString/CoerceNumber/CoerceBool all look through a SafeValue
// (value.go: unwrapSafe), Iterate (value.go) does not, so the for loop reports
// the sequence as a non-iterable struct instead of rendering one body per element.
func TestC06SafeValueWrappedSliceIsNotIterated(t *testing.T) {
	env := stick.New(nil)
	tpl := `{% for k, v in s %}{{ k }}={{ v }}{% if loop.last %}.{% else %},{% endif %}{% else %}EMPTY{% endfor %}`
	plain := []string{"a", "b"}

	var ref bytes.Buffer
	if err := env.Execute(tpl, &ref, map[string]stick.Value{"s": plain}); err != nil {
		t.Fatalf("reference run over the plain slice failed: %v", err)
	}
	want := "0=a,1=b."
	if ref.String() != want {
		t.Fatalf("reference run over the plain slice: got %q, want %q", ref.String(), want)
	}

	var out bytes.Buffer
	err := env.Execute(tpl, &out, map[string]stick.Value{"s": stick.NewSafeValue(plain, "html")})
	if err != nil || out.String() != want {
		t.Fatalf("template %q with s = stick.NewSafeValue([]string{\"a\",\"b\"}, \"html\")\n expected: %q, nil error (same as for the unwrapped slice)\n observed: %q, error: %v",
			tpl, want, out.String(), err)
	}
}
