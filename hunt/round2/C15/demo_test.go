// Demonstrations for property C15 (second round).
// Place this file in the repository root (package stick_test) and run
//   go test -run 'TestC15R2_' .
// Every test FAILS on the unmodified library while the violation is present.
package stick_test

import (
	"bytes"
	"fmt"
	"math"
	"strings"
	"testing"
	"time"

	"github.com/shopspring/decimal"
	"github.com/tyler-sommer/stick"
)

// ---------------------------------------------------------------------------
// 1. float32 is rendered with 32-bit shortest digits, but converted to a number
//    by widening: an integral float32 above 2^24 prints as a DIFFERENT integer.
// ---------------------------------------------------------------------------

type c15r2DefinedF32 float32

func TestC15R2_Float32IntegralPrintsAnotherInteger(t *testing.T) {
	const n = 33554448 // 2^25+16, exactly representable in float32, int and float64
	f32 := float32(n)
	if int64(f32) != n {
		t.Fatalf("test bug: %d is not exactly representable in float32", n)
	}
	want := "33554448"
	carriers := []struct {
		name string
		v    stick.Value
	}{
		{"int", int(n)},
		{"int64", int64(n)},
		{"uint32", uint32(n)},
		{"float64", float64(n)},
		{"defined type over float32", c15r2DefinedF32(n)},
		{"float32", f32},
		{"safe(float32)", stick.NewSafeValue(f32)},
	}
	for _, c := range carriers {
		if got := stick.CoerceString(c.v); got != want {
			t.Errorf("CoerceString(%s(%d)): expected %q (what every other numeric type gives), observed %q",
				c.name, n, want, got)
		}
		if got := stick.CoerceNumber(c.v); got != n {
			t.Errorf("CoerceNumber(%s(%d)): expected %d, observed %v", c.name, n, n, got)
		}
	}
	// mutual consistency: the string of the value must spell the number of the value
	if s, num := stick.CoerceString(f32), stick.CoerceNumber(f32); stick.CoerceNumber(s) != num {
		t.Errorf("float32(%d): CoerceString gives %q which spells %v, but CoerceNumber gives %v",
			n, s, stick.CoerceNumber(s), num)
	}
	// and inside a template
	var buf bytes.Buffer
	env := stick.New(nil)
	err := env.Execute(`{{ a }}|{{ a + 0 }}|{% if a == b %}eq{% else %}ne{% endif %}`, &buf,
		map[string]stick.Value{"a": f32, "b": int(n)})
	if err != nil {
		t.Fatal(err)
	}
	if got, want := buf.String(), "33554448|33554448|eq"; got != want {
		t.Errorf("template with a=float32(%d), b=int(%d): expected %q, observed %q", n, n, want, got)
	}
}

// ---------------------------------------------------------------------------
// 2. unwrapSafe calls SafeValue.Value() unguarded: a struct that embeds a nil
//    SafeValue (or a nil pointer to one) satisfies the interface, and every
//    coercion - and Execute - panics with a nil dereference.
// ---------------------------------------------------------------------------

type c15r2EmbedsSafe struct {
	stick.SafeValue // nil
	Label           string
}

type c15r2Safe struct{ v stick.Value }

func (s c15r2Safe) Value() stick.Value { return s.v }
func (s c15r2Safe) IsSafe(string) bool { return true }
func (s c15r2Safe) SafeFor() []string  { return []string{"html"} }

type c15r2EmbedsSafePtr struct {
	*c15r2Safe // nil
}

func c15r2Try(f func()) (p interface{}) {
	defer func() { p = recover() }()
	f()
	return nil
}

func TestC15R2_NilEmbeddedSafeValuePanics(t *testing.T) {
	inputs := []struct {
		name string
		v    stick.Value
	}{
		{"struct{ stick.SafeValue }{nil}", c15r2EmbedsSafe{}},
		{"&struct{ stick.SafeValue }{nil}", &c15r2EmbedsSafe{}},
		{"struct{ *safeImpl }{nil}", c15r2EmbedsSafePtr{}},
	}
	for _, in := range inputs {
		if p := c15r2Try(func() {
			if s := stick.CoerceString(in.v); s != "" {
				t.Errorf("CoerceString(%s): expected \"\", observed %q", in.name, s)
			}
		}); p != nil {
			t.Errorf("CoerceString(%s): expected the fallback \"\", observed panic: %v", in.name, p)
		}
		if p := c15r2Try(func() {
			if n := stick.CoerceNumber(in.v); n != 0 {
				t.Errorf("CoerceNumber(%s): expected 0, observed %v", in.name, n)
			}
		}); p != nil {
			t.Errorf("CoerceNumber(%s): expected the fallback 0, observed panic: %v", in.name, p)
		}
		if p := c15r2Try(func() {
			if b := stick.CoerceBool(in.v); b {
				t.Errorf("CoerceBool(%s): expected false, observed true", in.name)
			}
		}); p != nil {
			t.Errorf("CoerceBool(%s): expected the fallback false, observed panic: %v", in.name, p)
		}
	}
	// The whole Execute call panics too (core environment, plain print).
	if p := c15r2Try(func() {
		var buf bytes.Buffer
		err := stick.New(nil).Execute(`[{{ x }}]`, &buf, map[string]stick.Value{"x": c15r2EmbedsSafe{}})
		if err != nil || buf.String() != "[]" {
			t.Errorf("Execute `[{{ x }}]`: expected \"[]\" and no error, observed %q, %v", buf.String(), err)
		}
	}); p != nil {
		t.Errorf("Execute `[{{ x }}]` with x = struct{ stick.SafeValue }{nil}: expected \"[]\", observed panic: %v", p)
	}
}

// ---------------------------------------------------------------------------
// 3. CoerceBool special-cases decimal.Decimal by value only. The same decimal
//    behind a pointer (or embedded in a struct) falls to the Stringer arm, so
//    zero and negative decimals become true.
// ---------------------------------------------------------------------------

type c15r2Money struct{ decimal.Decimal }

func TestC15R2_DecimalPointerTruthDiffers(t *testing.T) {
	for _, d := range []decimal.Decimal{decimal.Zero, decimal.New(0, -2), decimal.New(-5, 0), decimal.New(5, 0)} {
		d := d
		byValue := stick.CoerceBool(d)
		number := stick.CoerceNumber(d)
		if got := stick.CoerceBool(&d); got != byValue {
			t.Errorf("CoerceBool(&decimal %s): expected %v (CoerceBool of the decimal by value; its number is %v), observed %v",
				d.String(), byValue, number, got)
		}
		if got := stick.CoerceBool(c15r2Money{d}); got != byValue {
			t.Errorf("CoerceBool(struct{decimal.Decimal}{%s}): expected %v (as the decimal by value), observed %v",
				d.String(), byValue, got)
		}
		// the other two coercions do agree between value and pointer
		if stick.CoerceString(&d) != stick.CoerceString(d) || stick.CoerceNumber(&d) != stick.CoerceNumber(d) {
			t.Errorf("string/number of &decimal %s differ from the value's", d.String())
		}
	}
	var buf bytes.Buffer
	zero := decimal.Zero
	err := stick.New(nil).Execute(`{% if v %}T{% else %}F{% endif %}{% if p %}T{% else %}F{% endif %}`, &buf,
		map[string]stick.Value{"v": zero, "p": &zero})
	if err != nil {
		t.Fatal(err)
	}
	if got := buf.String(); got != "FF" {
		t.Errorf("`{%% if v %%}..{%% if p %%}..` with v = decimal 0, p = &v: expected \"FF\", observed %q", got)
	}
}

// ---------------------------------------------------------------------------
// 4. stringToFloat throws away the +-Inf that strconv.ParseFloat returns with
//    ErrRange: a decimal numeral just above MaxFloat64 coerces to 0.
// ---------------------------------------------------------------------------

func TestC15R2_NumericStringAboveFloatRangeIsZero(t *testing.T) {
	plain := "1" + strings.Repeat("0", 309) // the decimal numeral of 10^309, no exponent
	for _, s := range []string{"1e309", plain, "-" + plain, "1.7976931348623159e308"} {
		want := math.Inf(1)
		if s[0] == '-' {
			want = math.Inf(-1)
		}
		got := stick.CoerceNumber(s)
		short := s
		if len(short) > 30 {
			short = short[:12] + "...(" + fmt.Sprint(len(s)) + " chars)"
		}
		if got != want {
			t.Errorf("CoerceNumber(%q): expected %v (the float64 nearest to the number spelled; strconv.ParseFloat and "+
				"CoerceNumber(decimal of the same value) both give it), observed %v", short, want, got)
		}
		// cross-check with the decimal carrying the same number
		d, err := decimal.NewFromString(s)
		if err != nil {
			t.Fatal(err)
		}
		if dn := stick.CoerceNumber(d); dn != got {
			t.Errorf("the number %s: CoerceNumber(decimal) = %v but CoerceNumber(string) = %v", short, dn, got)
		}
		// and CoerceString(decimal) -> CoerceNumber must agree with CoerceNumber(decimal)
		if a, b := stick.CoerceNumber(stick.CoerceString(d)), stick.CoerceNumber(d); a != b {
			t.Errorf("decimal %s: number of its string = %v, its number = %v", short, a, b)
		}
	}
	var buf bytes.Buffer
	if err := stick.New(nil).Execute(`{% if x > 1 %}big{% else %}small{% endif %}`, &buf,
		map[string]stick.Value{"x": plain}); err != nil {
		t.Fatal(err)
	}
	if got := buf.String(); got != "big" {
		t.Errorf("`{%% if x > 1 %%}` with x = \"1\" followed by 309 zeros: expected \"big\", observed %q", got)
	}
}

// ---------------------------------------------------------------------------
// 5. CoerceBool(decimal) compares with decimal.Zero through Cmp, which rescales
//    one operand by 10^|exp|: for a 12-byte decimal with a large exponent the
//    coercion does not come back (minutes of CPU, hundreds of MB), although only
//    the sign is needed. CoerceNumber has the same cost through Float64().
// ---------------------------------------------------------------------------

func TestC15R2_DecimalLargeExponentDoesNotReturn(t *testing.T) {
	for _, in := range []string{"1e60000000", "1e-60000000"} {
		d, err := decimal.NewFromString(in) // parses instantly: value 1, exp +-6e7
		if err != nil {
			t.Fatal(err)
		}
		done := make(chan bool, 1)
		start := time.Now()
		go func() { done <- stick.CoerceBool(d) }()
		select {
		case b := <-done:
			if !b {
				t.Errorf("CoerceBool(decimal %s): expected true, observed false", in)
			}
			t.Logf("CoerceBool(decimal %s) = %v after %v", in, b, time.Since(start))
		case <-time.After(3 * time.Second):
			t.Errorf("CoerceBool(decimal.NewFromString(%q)): expected true at once (the sign is known), "+
				"observed no answer after 3s (it is computing 10^60000000)", in)
		}
	}
}
