// Demonstrations for property C16 (second round).
//
// Placement: the repository root (next to value.go), package stick_test.
// Run with: go test -run 'TestC16R2_' .
//
// Every test FAILS on the unmodified library (the violation is present) and
// is meant to pass once the corresponding root cause is repaired.
package stick_test

import (
	"bytes"
	"fmt"
	"math"
	"strings"
	"testing"

	"github.com/tyler-sommer/stick"
)

func c16r2Render(t *testing.T, tpl string, ctx map[string]stick.Value) (out string, err error) {
	t.Helper()
	defer func() {
		if r := recover(); r != nil {
			err = fmt.Errorf("PANIC: %v", r)
		}
	}()
	var b bytes.Buffer
	err = stick.New(nil).Execute(tpl, &b, ctx)
	return b.String(), err
}

type c16r2Svc struct{}

// U64 echoes the parameter it received.
func (c16r2Svc) U64(u uint64) uint64 { return u }

// Add has a signed parameter.
func (c16r2Svc) Add(i int) int { return 1 + i }

// Join is variadic.
func (c16r2Svc) Join(sep string, parts ...string) string { return strings.Join(parts, sep) }

// T is the typical translation helper: a key plus optional arguments.
func (c16r2Svc) T(key string, args ...interface{}) string { return fmt.Sprintf(key, args...) }

// Finding 1: convertArg accepts a numeric key/argument whenever the conversion
// round-trips, and signed<->unsigned two's complement wrapping round-trips:
// int(-1) -> uint64(18446744073709551615) -> int(-1). A key or argument that
// cannot be represented in the target type is therefore not refused; it
// silently selects an UNRELATED element / passes a different number.
func TestC16R2_SignWrappedKeySelectsUnrelatedElement(t *testing.T) {
	// (a) map key: -1 is not a key of the map, yet the element stored under
	// 18446744073709551615 is returned.
	mu := map[uint64]string{math.MaxUint64: "element stored under 18446744073709551615"}
	if v, err := stick.GetAttr(mu, int(-1)); err == nil {
		t.Errorf("GetAttr(map[uint64]string{MaxUint64: ...}, int(-1)): expected an error (no element has key -1, and -1 cannot be a uint64), got %q, nil", v)
	}
	// (b) the other direction: uint8(200) is not a key of a map[int8]string.
	mi := map[int8]string{-56: "element stored under -56"}
	if v, err := stick.GetAttr(mi, uint8(200)); err == nil {
		t.Errorf("GetAttr(map[int8]string{-56: ...}, uint8(200)): expected an error (200 does not fit int8), got %q, nil", v)
	}
	// (c) method arguments: the method receives a different number than the caller gave.
	if v, err := stick.GetAttr(c16r2Svc{}, "U64", int(-1)); err == nil {
		t.Errorf("GetAttr(svc, \"U64\", int(-1)): expected an error (argument -1 cannot be used as uint64), the method was called and received %v", v)
	}
	if v, err := stick.GetAttr(c16r2Svc{}, "Add", uint64(math.MaxUint64)); err == nil {
		t.Errorf("GetAttr(svc, \"Add\", uint64(MaxUint64)): expected an error (argument does not fit int), the method was called and 1+arg = %v", v)
	}
	// (d) reachable from a template alone: the bitwise operators yield a Go int.
	out, err := c16r2Render(t, "[{{ mu[0 b-or -1] }}]", map[string]stick.Value{"mu": mu})
	if err != nil || out != "[]" {
		t.Errorf("template %q with mu=map[uint64]string{MaxUint64: ...}: expected \"[]\" (key -1 does not exist; failed lookups are null), got %q, err=%v", "[{{ mu[0 b-or -1] }}]", out, err)
	}
}

// Finding 2: in a dotted attribute chain two consecutive numeric indexes are
// glued into one decimal number: xss.0.1 is read as xss["0.1"], not as
// (xss.0).1, so the element that exists is not returned.
func TestC16R2_DotChainOfTwoIndexes(t *testing.T) {
	ctx := map[string]stick.Value{"xss": [][]string{{"a", "b"}, {"c", "d"}}}
	want, err := c16r2Render(t, "{{ xss[0][1] }}|{{ (xss.0).1 }}|{{ xss.0[1] }}", ctx)
	if err != nil || want != "b|b|b" {
		t.Fatalf("control failed: %q %v", want, err)
	}
	for _, tpl := range []string{"{{ xss.0.1 }}", "{{ xss.1.0 }}", "{{ xss.0 .1 }}"} {
		exp := "b"
		if tpl == "{{ xss.1.0 }}" {
			exp = "c"
		}
		out, err := c16r2Render(t, tpl, ctx)
		if err != nil || out != exp {
			t.Errorf("template %q with xss=[][]string{{a b} {c d}}: expected %q (the element exists: the bracket forms print it), got %q, err=%v", tpl, exp, out, err)
		}
	}
}

// Finding 3: a variadic method exists and the arguments fit, yet GetAttr
// always answers an arity error (with a self-contradicting message).
func TestC16R2_VariadicMethodIsNeverCallable(t *testing.T) {
	cases := []struct {
		name string
		args []stick.Value
		want string
	}{
		{"Join", []stick.Value{"-", "a", "b"}, "a-b"},
		{"Join", []stick.Value{"-", "a"}, "a"},
		{"Join", []stick.Value{"-"}, ""},
		{"T", []stick.Value{"hello %v", "bob"}, "hello bob"},
		{"T", []stick.Value{"hello"}, "hello"},
	}
	for _, c := range cases {
		v, err := stick.GetAttr(c16r2Svc{}, c.name, c.args...)
		if err != nil || v != c.want {
			t.Errorf("GetAttr(svc, %q, %v): expected %q, nil (the method exists and accepts these arguments), got %v, err=%v", c.name, c.args, c.want, v, err)
		}
	}
	out, err := c16r2Render(t, "{{ svc.T('hello %v', 'bob') }}", map[string]stick.Value{"svc": c16r2Svc{}})
	if err != nil || out != "hello bob" {
		t.Errorf("template {{ svc.T('hello %%v', 'bob') }}: expected %q, got %q, err=%v", "hello bob", out, err)
	}
}

// Finding 4: the dot notation cannot read the map keys / fields named null,
// none, true or false: the name after the dot is parsed as a literal and the
// whole template is rejected, although the element exists (m['none'] prints it).
func TestC16R2_DotAttributeNamedLikeALiteral(t *testing.T) {
	ctx := map[string]stick.Value{"m": map[string]string{"null": "N", "none": "O", "true": "T", "false": "F"}}
	if out, err := c16r2Render(t, "{{ m['null'] }}{{ m['none'] }}{{ m['true'] }}{{ m['false'] }}", ctx); err != nil || out != "NOTF" {
		t.Fatalf("control failed: %q %v", out, err)
	}
	for key, want := range map[string]string{"null": "N", "none": "O", "true": "T", "false": "F"} {
		tpl := "{{ m." + key + " }}"
		out, err := c16r2Render(t, tpl, ctx)
		if err != nil || out != want {
			t.Errorf("template %q with m=map[string]string{%q: %q}: expected %q, got %q, err=%v", tpl, key, want, want, out, err)
		}
	}
}

type c16r2Page struct{ Title string }

// Finding 5: attribute access and iteration look through exactly one pointer.
// A pointer to a pointer to a struct / slice / map is neither readable nor
// iterable, though the element is there.
func TestC16R2_OnlyOnePointerLevel(t *testing.T) {
	p := &c16r2Page{"home"}
	pp := &p
	if v, err := stick.GetAttr(pp, "Title"); err != nil || v != "home" {
		t.Errorf("GetAttr(**Page{Title: home}, \"Title\"): expected \"home\", nil, got %v, err=%v", v, err)
	}
	xs := []int{1, 2, 3}
	pxs := &xs
	ppxs := &pxs
	if v, err := stick.GetAttr(ppxs, 1); err != nil || v != 2 {
		t.Errorf("GetAttr(**[]int{1,2,3}, 1): expected 2, nil, got %v, err=%v", v, err)
	}
	var seen []stick.Value
	n, err := stick.Iterate(ppxs, func(k, v stick.Value, l stick.Loop) (bool, error) {
		seen = append(seen, v)
		return false, nil
	})
	if err != nil || n != 3 || len(seen) != 3 {
		t.Errorf("Iterate(**[]int{1,2,3}): expected 3 elements visited, got n=%d seen=%v err=%v", n, seen, err)
	}
	if l, err := stick.Len(ppxs); err != nil || l != 3 {
		t.Errorf("Len(**[]int{1,2,3}): expected 3, nil, got %d, err=%v", l, err)
	}
	if !stick.IsIterable(ppxs) || !stick.IsArray(ppxs) {
		t.Errorf("IsIterable/IsArray(**[]int{1,2,3}): expected true, got %v/%v", stick.IsIterable(ppxs), stick.IsArray(ppxs))
	}
	if ok, err := stick.Contains(ppxs, 2); err != nil || !ok {
		t.Errorf("Contains(**[]int{1,2,3}, 2): expected true, nil, got %v, err=%v", ok, err)
	}
}

// Finding 6: arguments given to an attribute that is not callable (a plain
// struct field, a map element, a slice element) are silently discarded: no
// arity error, the call syntax answers as if no arguments had been written.
func TestC16R2_ArgumentsToNonCallableAreDropped(t *testing.T) {
	if v, err := stick.GetAttr(c16r2Page{"home"}, "Title", "x", 2); err == nil {
		t.Errorf("GetAttr(Page{Title: home}, \"Title\", \"x\", 2): expected an error (Title is a string field, it takes no arguments: wrong arity), got %v, nil", v)
	}
	if v, err := stick.GetAttr(map[string]int{"a": 1}, "a", "x"); err == nil {
		t.Errorf("GetAttr(map[string]int{a: 1}, \"a\", \"x\"): expected an error (the element is an int, arguments cannot be used), got %v, nil", v)
	}
	if v, err := stick.GetAttr([]string{"p", "q"}, 1, nil, nil, nil); err == nil {
		t.Errorf("GetAttr([]string{p, q}, 1, nil, nil, nil): expected an error (the element is a string, arguments cannot be used), got %v, nil", v)
	}
}
