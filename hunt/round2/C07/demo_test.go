// Place this file in the repository root (package stick_test) and run
//
//	GOFLAGS=-mod=mod GOPROXY=off GOSUMDB=off GOTOOLCHAIN=local go test -run 'TestC07' .
package stick_test

import (
	"bytes"
	"testing"

	"github.com/tyler-sommer/stick"
	"github.com/tyler-sommer/stick/twig"
)

func c07Render(env *stick.Env, name string, ctx map[string]stick.Value) (string, error) {
	var b bytes.Buffer
	err := env.Execute(name, &b, ctx)
	return b.String(), err
}

var c07Envs = []struct {
	name string
	mk   func(stick.Loader) *stick.Env
}{
	{"stick.New", stick.New},
	{"twig.New", twig.New},
}

// Finding 1: a template-level set that precedes {% extends <expr> %} is not
// visible to the extends expression: the parent is resolved before any of the
// child's top-level assignments run.
func TestC07_SetBeforeExtendsIsNotVisibleToExtends(t *testing.T) {
	tpls := map[string]string{
		"base":  `BASE[{% block b %}base-b{% endblock %}]`,
		"other": `OTHER[{% block b %}other-b{% endblock %}]`,
		"child": `{% set layout = 'base' %}{% extends layout %}{% block b %}child sees layout={{ layout }}{% endblock %}`,
		// the same thing one level up the chain
		"mid":  `{% set lay = 'base' %}{% extends lay %}{% block b %}mid{% endblock %}`,
		"leaf": `{% extends 'mid' %}{% block b %}leaf{% endblock %}`,
	}
	for _, e := range c07Envs {
		env := e.mk(&stick.MemoryLoader{Templates: tpls})

		// (a) the variable does not exist before: extends sees "undefined".
		want := "BASE[child sees layout=base]"
		got, err := c07Render(env, "child", nil)
		if err != nil || got != want {
			t.Errorf("%s: template %q with empty context:\n  expected %q (the set precedes the extends tag)\n  observed %q, err=%v", e.name, tpls["child"], want, got, err)
		}

		// (b) the variable exists in the context with another value: extends
		// uses the stale value although the set has (textually) already
		// happened; the block, rendered later, sees the new value.
		got, err = c07Render(env, "child", map[string]stick.Value{"layout": "other"})
		if err != nil || got != want {
			t.Errorf("%s: template %q with context {layout: other}:\n  expected %q\n  observed %q, err=%v", e.name, tpls["child"], want, got, err)
		}

		// (c) in the middle of an inheritance chain.
		want = "BASE[leaf]"
		got, err = c07Render(env, "leaf", nil)
		if err != nil || got != want {
			t.Errorf("%s: leaf -> mid (%q) -> base:\n  expected %q\n  observed %q, err=%v", e.name, tpls["mid"], want, got, err)
		}
	}
}

// Finding 2: at the top level of a template that extends another one, a set
// that is nested in an if or for body is never executed (only bare set tags
// are), so it does not update the variable that exists outside.
func TestC07_SetInsideIfOrForAtTopLevelOfChildIsNotExecuted(t *testing.T) {
	tpls := map[string]string{
		"base":      `BASE[{% block b %}base-b{% endblock %}]`,
		"child_if":  `{% extends 'base' %}{% set x = 1 %}{% if true %}{% set x = 2 %}{% endif %}{% block b %}x={{ x }}{% endblock %}`,
		"child_for": `{% extends 'base' %}{% set x = 0 %}{% for i in 1..3 %}{% set x = i %}{% endfor %}{% block b %}x={{ x }}{% endblock %}`,
		// control: the same source without extends
		"plain_if": `{% set x = 1 %}{% if true %}{% set x = 2 %}{% endif %}{% block b %}x={{ x }}{% endblock %}`,
	}
	for _, e := range c07Envs {
		env := e.mk(&stick.MemoryLoader{Templates: tpls})
		if got, err := c07Render(env, "plain_if", nil); err != nil || got != "x=2" {
			t.Fatalf("%s: control %q: expected %q, observed %q, err=%v", e.name, tpls["plain_if"], "x=2", got, err)
		}
		for _, c := range []struct{ name, want string }{
			{"child_if", "BASE[x=2]"},
			{"child_for", "BASE[x=3]"},
		} {
			got, err := c07Render(env, c.name, nil)
			if err != nil || got != c.want {
				t.Errorf("%s: template %q:\n  expected %q (the set in the if/for body updates x, which exists outside)\n  observed %q, err=%v", e.name, tpls[c.name], c.want, got, err)
			}
		}
	}
}
