// Demo tests for property C13 (second round).
// Place this file in twig/escape/ of the worktree (package escape_test) and run
//   go test ./twig/escape/ -run 'TestC13' -v
package escape_test

import (
	"html"
	"strings"
	"testing"

	"github.com/tyler-sommer/stick/twig/escape"
)

// htmlTextDecode is what the standard decoder of the html context - an HTML
// parser (WHATWG HTML, section 13.2) - does to a run of escaped text placed in
// element content, restricted to the steps that matter here:
//
//  1. 13.2.3.5 "Preprocessing the input stream": newlines are normalised, every
//     CR LF pair and every remaining CR becomes a single LF. This happens on the
//     raw input, before tokenisation, so a character REFERENCE to CR (&#13;) is
//     not touched by it.
//  2. 13.2.5.1 data state + 13.2.6.4.7 "in body": a raw U+0000 is a parse error
//     and the character token is ignored (in RCDATA and attribute values it
//     becomes U+FFFD instead - lost either way).
//  3. character references are resolved (html.UnescapeString implements exactly
//     this step and nothing else).
//
// golang.org/x/net/html (the Go HTML5 parser) gives the same results: for
// <p>a\rb</p> the text node is "a\nb", for <p>a\x00b</p> it is "ab", for
// <textarea>a\x00b</textarea> it is "a�b", and for id="a&#13;b" the
// attribute value is "a\rb".
func htmlTextDecode(escaped string) string {
	s := strings.Replace(escaped, "\r\n", "\n", -1)
	s = strings.Replace(s, "\r", "\n", -1)
	s = strings.Replace(s, "\x00", "", -1)
	return html.UnescapeString(s)
}

// Finding 1: the html escaper copies U+000D through raw; HTML normalises it to LF.
func TestC13HTMLCarriageReturnIsNotLossless(t *testing.T) {
	// sanity of the reference decoder: a lossless, inert rendering of CR exists
	// (the html_attr escaper of this very package uses it).
	if got := htmlTextDecode("a&#13;b"); got != "a\rb" {
		t.Fatalf("reference decoder broken: a&#13;b -> %q", got)
	}
	for _, in := range []string{"\r", "a\rb", "a\r\nb", "\r\r\n"} {
		out := escape.HTML(in)
		got := htmlTextDecode(out)
		if got != in {
			t.Errorf("html escaper is lossy on CR:\n  input    %q\n  escaped  %q\n  expected the HTML decoder to recover %q\n  observed %q", in, out, in, got)
		}
	}
	// the same thing seen as context-dependent decoding of a pair: the two
	// one-character strings CR and LF decode to one character each, their
	// concatenation decodes to ONE character, not two.
	pair := escape.HTML("\r") + escape.HTML("\n")
	if n := len(htmlTextDecode(pair)); n != 2 {
		t.Errorf("html escaper: escape(CR)+escape(LF) = %q decodes to %d character(s) %q, expected the 2 characters %q",
			pair, n, htmlTextDecode(pair), "\r\n")
	}
}

// Finding 2: the html escaper copies U+0000 through raw; HTML drops it (text) or
// turns it into U+FFFD (RCDATA, attribute values).
func TestC13HTMLNulIsNotLossless(t *testing.T) {
	for _, in := range []string{"\x00", "a\x00b"} {
		out := escape.HTML(in)
		got := htmlTextDecode(out)
		if got != in {
			t.Errorf("html escaper is lossy on U+0000:\n  input    %q\n  escaped  %q\n  expected the HTML decoder to recover %q\n  observed %q", in, out, in, got)
		}
	}
}
