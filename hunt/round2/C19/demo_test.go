// Belongs in the repository root, package stick_test:
//   cp demo_test.go <repo>/c19_demo_test.go && go test -run TestC19 -v .
package stick_test

import (
	"bytes"
	"runtime"
	"testing"
	"time"

	"github.com/tyler-sommer/stick"
	"github.com/tyler-sommer/stick/twig"
)

// C19: "After any sequence of Parse and Execute calls has returned ... the
// process's goroutine count ... return[s] to [its value] before the sequence."
//
// parse.(*Tree).Parse joins the tokenizer with `<-t.lex.exited`, but `exited`
// is closed by a deferred call INSIDE tokenize, i.e. by the tokenizer goroutine
// itself while it is still alive. Parse (and so Env.Parse / Env.Execute) can
// therefore return - on another P - before the tokenizer goroutine has
// terminated, and runtime.NumGoroutine() read right after the call returned
// still counts it. No syntax error is needed: it happens for valid templates.
func TestC19GoroutineStillCountedAfterCallReturned(t *testing.T) {
	if runtime.GOMAXPROCS(0) < 4 {
		defer runtime.GOMAXPROCS(runtime.GOMAXPROCS(4))
	}
	time.Sleep(10 * time.Millisecond) // let the test harness settle

	type call struct {
		what string
		do   func()
	}
	core := stick.New(nil)
	tw := twig.New(&stick.MemoryLoader{Templates: map[string]string{"t.html.twig": "hello {{ name }}"}})
	calls := []call{
		{`stick.New(nil).Parse("x")  [valid template]`, func() { core.Parse("x") }},
		{`stick.New(nil).Execute("hello {{ name }}", buf, {name: "w"})  [valid template]`, func() {
			core.Execute("hello {{ name }}", &bytes.Buffer{}, map[string]stick.Value{"name": "w"})
		}},
		{`twig.New(MemoryLoader).Execute("t.html.twig", buf, nil)  [valid template]`, func() {
			tw.Execute("t.html.twig", &bytes.Buffer{}, nil)
		}},
		{`stick.New(nil).Parse("{% if %}")  [syntax error]`, func() { core.Parse("{% if %}") }},
	}

	const perCall = 150000
	for _, c := range calls {
		base := runtime.NumGoroutine()
		over, first := 0, -1
		deadline := time.Now().Add(20 * time.Second)
		n := 0
		for ; n < perCall && time.Now().Before(deadline); n++ {
			c.do()
			// The call has returned. The property says the count is back to base.
			if g := runtime.NumGoroutine(); g != base {
				over++
				if first < 0 {
					first = n
				}
			}
		}
		// Make sure the baseline itself did not drift (nothing else is running).
		time.Sleep(5 * time.Millisecond)
		settled := runtime.NumGoroutine()
		if over > 0 {
			t.Errorf("input: %s, repeated %d times\n  expected: runtime.NumGoroutine() == %d (value before the call) right after every call returned\n  observed: %d calls returned with NumGoroutine() == %d (first at call #%d); count after a 5ms pause: %d",
				c.what, n, base, over, base+1, first, settled)
		}
	}
}
