package stick_test

// Demonstrations for property C11 (second round).
// Location: repository root, package stick_test (next to exec_test.go).
// Run: GOFLAGS=-mod=mod GOPROXY=off GOSUMDB=off GOTOOLCHAIN=local go test -run 'TestC11R2_' .
// Every test FAILS on the unmodified library while the violation it shows is present.

import (
	"bytes"
	"strings"
	"testing"

	"github.com/tyler-sommer/stick"
	"github.com/tyler-sommer/stick/twig"
)

func c11r2Envs(tpls map[string]string) map[string]*stick.Env {
	return map[string]*stick.Env{
		"stick.New": stick.New(&stick.MemoryLoader{Templates: tpls}),
		"twig.New":  twig.New(&stick.MemoryLoader{Templates: tpls}),
	}
}

func c11r2Run(env *stick.Env, name string) (string, error) {
	var b bytes.Buffer
	err := env.Execute(name, &b, map[string]stick.Value{})
	return b.String(), err
}

// Finding 1: one macro from-imported under two names in one tag: only one of
// the names is bound (FromNode.Imports is a map keyed by the ORIGINAL name).
func TestC11R2_FromImportSameMacroUnderTwoNames(t *testing.T) {
	lib := `{% macro m(a,b) %}[{{ a }}|{{ b }}]{% endmacro %}`
	cases := []struct{ main, want string }{
		{`{% from 'lib' import m as x, m as y %}{{ x(1,2) }}{{ y(3,4) }}`, "[1|2][3|4]"},
		{`{% from 'lib' import m, m as y %}{{ m(1,2) }}{{ y(3,4) }}`, "[1|2][3|4]"},
	}
	for _, c := range cases {
		for label, env := range c11r2Envs(map[string]string{"lib": lib, "main": c.main}) {
			got, err := c11r2Run(env, "main")
			if err != nil || got != c.want {
				t.Errorf("%s\n  lib:      %s\n  main:     %s\n  expected: %q, no error (every from-import name, renamed or not, calls lib's m)\n  observed: %q, error: %v",
					label, lib, c.main, c.want, got, err)
			}
		}
		// The same two calls written as two tags work, which is the reference.
	}
	ref := `{% from 'lib' import m as x %}{% from 'lib' import m as y %}{{ x(1,2) }}{{ y(3,4) }}`
	for label, env := range c11r2Envs(map[string]string{"lib": lib, "main": ref}) {
		if got, err := c11r2Run(env, "main"); err != nil || got != "[1|2][3|4]" {
			t.Logf("%s: reference form gave %q, %v", label, got, err)
		}
	}
}

// Finding 2: a callback run inside a macro that is defined in the template whose
// name is the empty string sees the CALLER's name (Origin == "" is used as the
// "has no origin" sentinel in callMacro).
func TestC11R2_CallbackInMacroOfTemplateNamedEmptyString(t *testing.T) {
	tpls := map[string]string{
		"":     `{% macro w() %}{{ who() }}{% endmacro %}`,
		"main": `{% import '' as l %}{% from '' import w %}{{ l.w() }}{{ w() }}`,
	}
	for label, env := range c11r2Envs(tpls) {
		env.Functions["who"] = func(ctx stick.Context, args ...stick.Value) stick.Value {
			return "(" + ctx.Name() + ")"
		}
		got, err := c11r2Run(env, "main")
		want := "()()"
		if err != nil || got != want {
			t.Errorf("%s\n  MemoryLoader: %q\n  executed:     \"main\"\n  expected: %q (who() runs inside macro w, which the template named \"\" defines)\n  observed: %q, error: %v",
				label, tpls, want, got, err)
		}
	}
	// Control: the same with a non-empty name is right, so the name really is what matters.
	ctl := map[string]string{
		"lib":  `{% macro w() %}{{ who() }}{% endmacro %}`,
		"main": `{% import 'lib' as l %}{% from 'lib' import w %}{{ l.w() }}{{ w() }}`,
	}
	for label, env := range c11r2Envs(ctl) {
		env.Functions["who"] = func(ctx stick.Context, args ...stick.Value) stick.Value {
			return "(" + ctx.Name() + ")"
		}
		if got, _ := c11r2Run(env, "main"); got != "(lib)(lib)" {
			t.Logf("%s: control gave %q", label, got)
		}
	}
}

// Finding 3: a macro definition that is not a direct child of the template body
// (inside an if, a block, another macro ...) is known to import / from-import
// (parse.Tree.Macros has it) but not to _self until execution happens to walk
// over the tag: the three call forms give different results for one definition.
func TestC11R2_NestedDefinitionSelfDiffersFromImports(t *testing.T) {
	cases := []struct{ label, main string }{
		{"definition in an if that is not taken",
			`{% if false %}{% macro q(a) %}Q{{ a }}{% endmacro %}{% endif %}` +
				`{% import 'main' as s %}{% from 'main' import q %}{{ s.q(1) }}|{{ q(1) }}|{{ _self.q(1) }}`},
		{"definition in a block below the call",
			`{% import 'main' as s %}{% from 'main' import q %}{{ s.q(1) }}|{{ q(1) }}|{{ _self.q(1) }}` +
				`{% block helpers %}{% macro q(a) %}Q{{ a }}{% endmacro %}{% endblock %}`},
		{"two definitions, the later one nested",
			`{% macro q(a) %}OLD{{ a }}{% endmacro %}{% if true %}{% macro q(a) %}Q{{ a }}{% endmacro %}{% endif %}` +
				`{% import 'main' as s %}{% from 'main' import q %}{{ s.q(1) }}|{{ q(1) }}|{{ _self.q(1) }}`},
	}
	for _, c := range cases {
		for label, env := range c11r2Envs(map[string]string{"main": c.main}) {
			got, err := c11r2Run(env, "main")
			parts := strings.Split(got, "|")
			if err != nil || len(parts) != 3 || parts[0] != parts[1] || parts[1] != parts[2] {
				t.Errorf("%s, %s\n  main:     %s\n  expected: import alias | from-import | _self give identical results, e.g. %q\n  observed: %q, error: %v",
					label, c.label, c.main, "Q1|Q1|Q1", got, err)
			}
		}
	}
}
