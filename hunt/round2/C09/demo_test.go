// Demo tests for property C09 (template inheritance), second round.
//
// Placement: the repository root (next to exec.go), package stick_test.
// Run:  GOFLAGS=-mod=mod GOPROXY=off GOSUMDB=off GOTOOLCHAIN=local go test -run 'TestC09R2' -v .
//
// Each test FAILS on the unmodified library while the defect is present.
package stick_test

import (
	"bytes"
	"testing"

	"github.com/tyler-sommer/stick"
)

func c09r2Render(tpls map[string]string, entry string, ctx map[string]stick.Value) (string, error) {
	env := stick.New(&stick.MemoryLoader{Templates: tpls})
	var b bytes.Buffer
	err := env.Execute(entry, &b, ctx)
	return b.String(), err
}

// Finding 1: the chain of block scopes is assembled lazily, one ancestor per
// walked module. Whatever a child evaluates at its top level (a set) sees only
// its own blocks and those of its DIRECT parent: block(name) (and parent()
// reached through it) cannot see the grandparent's blocks, nor blocks a use
// statement further down imports.
func TestC09R2_BlockFunctionAtChildTopLevelSeesOnlyDirectParent(t *testing.T) {
	// Control: with a chain of two the very same child works.
	two := map[string]string{
		"r": "<{% block title %}R{% endblock %}|{% block body %}{% endblock %}>",
		"c": "{% extends 'r' %}{% set t = block('title') %}{% block body %}[{{ t }}]{% endblock %}",
	}
	if got, err := c09r2Render(two, "c", nil); err != nil || got != "<R|[R]>" {
		t.Fatalf("control (chain of 2) changed: got %q, err %v", got, err)
	}

	// (a) Chain of three: an intermediate template that overrides nothing.
	three := map[string]string{
		"r": "<{% block title %}R{% endblock %}|{% block body %}{% endblock %}>",
		"m": "{% extends 'r' %}",
		"c": "{% extends 'm' %}{% set t = block('title') %}{% block body %}[{{ t }}]{% endblock %}",
	}
	want := "<R|[R]>"
	got, err := c09r2Render(three, "c", nil)
	if err != nil || got != want {
		t.Errorf("chain c -> m -> r, templates %v:\n  expected output %q (block('title') is the resolved block, here r's)\n  observed output %q, error: %v", three, want, got, err)
	}

	// (b) Chain of two, wrong VALUE instead of an error: the use statement that
	// follows the set has not been applied yet, so block('a') yields the
	// ancestor's block although an imported block outranks it.
	useAfter := map[string]string{
		"r": "<{% block a %}Ra{% endblock %}|{% block b %}{% endblock %}>",
		"x": "{% block a %}Xa{% endblock %}",
		"c": "{% extends 'r' %}{% set t = block('a') %}{% use 'x' %}{% block b %}{{ t }}{% endblock %}",
	}
	want = "<Xa|Xa>"
	got, err = c09r2Render(useAfter, "c", nil)
	if err != nil || got != want {
		t.Errorf("chain c -> r, c uses x, templates %v:\n  expected output %q (the layout itself renders a as Xa: imported blocks rank above the ancestors')\n  observed output %q, error: %v", useAfter, want, got, err)
	}
}

// Finding 2: the expression naming the parent is evaluated BEFORE the top-level
// assignments of the template that contains it, although those assignments are
// in effect for everything else (the template's blocks, and the extends
// expressions of its ancestors). The parent is resolved from a stale value.
func TestC09R2_ExtendsExpressionIgnoresTheTemplatesOwnSet(t *testing.T) {
	// Control: an ancestor's extends expression does see the child's set.
	ctl := map[string]string{
		"r": "<{% block a %}Ra{% endblock %}>",
		"m": "{% extends lay %}",
		"c": "{% extends 'm' %}{% set lay = 'r' %}{% block a %}Ca{% endblock %}",
	}
	if got, err := c09r2Render(ctl, "c", nil); err != nil || got != "<Ca>" {
		t.Fatalf("control changed: got %q, err %v", got, err)
	}

	tpls := map[string]string{
		"r":  "<{% block a %}Ra{% endblock %}>",
		"r2": "({% block a %}R2a{% endblock %})",
		"c":  "{% set lay = 'r' %}{% extends lay %}{% block a %}Ca+{{ lay }}+{{ parent() }}{% endblock %}",
	}
	// (a) nothing in the context: the parent is named "" -> loader error.
	want := "<Ca+r+Ra>"
	got, err := c09r2Render(tpls, "c", nil)
	if err != nil || got != want {
		t.Errorf("templates %v, empty context:\n  expected %q (c extends lay, lay is 'r')\n  observed %q, error: %v", tpls, want, got, err)
	}
	// (b) a stale context value wins over the template's own assignment: the
	// WRONG layout is rendered, while the block itself prints lay == 'r'.
	got, err = c09r2Render(tpls, "c", map[string]stick.Value{"lay": "r2"})
	if err != nil || got != want {
		t.Errorf("templates %v, context {lay: 'r2'}:\n  expected %q (the set precedes the extends tag)\n  observed %q, error: %v", tpls, want, got, err)
	}
	// (c) StringLoader: the parent is the template named "" whose source is "",
	// so the whole page silently renders as nothing, without an error.
	env := stick.New(nil)
	var b bytes.Buffer
	src := `{% set lay = "<{% block a %}Ra{% endblock %}>" %}{% extends lay %}{% block a %}Ca{% endblock %}`
	err = env.Execute(src, &b, nil)
	if err != nil || b.String() != "<Ca>" {
		t.Errorf("StringLoader, source %q:\n  expected %q\n  observed %q, error: %v", src, "<Ca>", b.String(), err)
	}
}

// Finding 3 (low confidence, depends on reading "imports with use" as Twig
// defines it): a used template's own use statements are ignored, so the blocks
// it imports are missing from what the extending template imports and the
// ancestors' versions win.
func TestC09R2_UseOfATemplateThatUsesAnother(t *testing.T) {
	tpls := map[string]string{
		"r": "<{% block a %}Ra{% endblock %}|{% block b %}Rb{% endblock %}>",
		"y": "{% block b %}Yb{% endblock %}",
		"x": "{% use 'y' %}{% block a %}Xa{% endblock %}",
		"c": "{% extends 'r' %}{% use 'x' %}",
	}
	want := "<Xa|Yb>"
	got, err := c09r2Render(tpls, "c", nil)
	if err != nil || got != want {
		t.Errorf("templates %v:\n  expected %q (x offers a and, through its own use, b; imported blocks rank above the ancestors')\n  observed %q, error: %v", tpls, want, got, err)
	}
}
