// Demonstrations for property C02 (execution is total), second round.
//
// Location: the repository root, package stick_test (file demo_test.go).
// Run:      go test -run 'TestC02' -count=1 -v .
//
// Every test FAILS on the unmodified library exactly when the violation is
// present. Violations that end the whole process (fatal stack overflow, fatal
// concurrent map access) cannot be observed from inside the process, so those
// tests re-run themselves in a child process (the same test binary, selected
// with -test.run and the C02_CHILD environment variable) and inspect how the
// child ended.
package stick_test

import (
	"bytes"
	"context"
	"fmt"
	"os"
	"os/exec"
	"strings"
	"sync"
	"testing"
	"time"

	"github.com/tyler-sommer/stick"
	"github.com/tyler-sommer/stick/twig"
)

// inChild reports whether this process is the child started by runInChild for
// the given test.
func inChild(t *testing.T) bool {
	return os.Getenv("C02_CHILD") == t.Name()
}

// runInChild re-runs the calling test in a child process and fails the test
// when the child did not end normally. what describes the input.
func runInChild(t *testing.T, what, expected string) {
	t.Helper()
	ctx, cancel := context.WithTimeout(context.Background(), 10*time.Minute)
	defer cancel()
	cmd := exec.CommandContext(ctx, os.Args[0], "-test.run=^"+t.Name()+"$", "-test.count=1", "-test.v", "-test.timeout=9m")
	cmd.Env = append(os.Environ(), "C02_CHILD="+t.Name())
	var out bytes.Buffer
	cmd.Stdout = &out
	cmd.Stderr = &out
	start := time.Now()
	err := cmd.Run()
	if err == nil {
		t.Logf("child ended normally after %v: %s", time.Since(start), lastLines(out.String(), 3))
		return
	}
	o := out.String()
	reason := "(no fatal error line found)"
	for _, line := range strings.Split(o, "\n") {
		if strings.HasPrefix(line, "fatal error:") || strings.HasPrefix(line, "panic:") || strings.Contains(line, "goroutine stack exceeds") {
			reason = line
			if strings.HasPrefix(line, "fatal error:") {
				break
			}
		}
	}
	t.Fatalf("\ninput:    %s\nexpected: %s\nobserved: the process running Execute died after %v (%v): %s\nfirst lines of the child's output:\n%s",
		what, expected, time.Since(start), err, reason, firstLines(o, 12))
}

func firstLines(s string, n int) string {
	l := strings.Split(s, "\n")
	if len(l) > n {
		l = l[:n]
	}
	for i := range l {
		if len(l[i]) > 200 {
			l[i] = l[i][:200] + "..."
		}
	}
	return strings.Join(l, "\n")
}

func lastLines(s string, n int) string {
	l := strings.Split(strings.TrimSpace(s), "\n")
	if len(l) > n {
		l = l[len(l)-n:]
	}
	return strings.Join(l, " / ")
}

// Finding 1 (first input): a string literal with many interpolations and no
// bracket nesting at all is folded into a left-deep chain of "~" expressions,
// one level per interpolation, without the parser's nesting bound (10000) ever
// being consulted. Evaluating (and already traversing) that chain recurses once
// per level: 800000 interpolations (a 3.2 MB template) exhaust the 1 GB stack,
// which is a fatal error that ends the process.
func TestC02_InterpolationChainOverflowsStack(t *testing.T) {
	const n = 800000
	if inChild(t) {
		src := `{{ "` + strings.Repeat("#{a}", n) + `" }}`
		var buf bytes.Buffer
		err := stick.New(nil).Execute(src, &buf, map[string]stick.Value{"a": "x"})
		fmt.Printf("CHILD: Execute returned: %d bytes of output, err=%v\n", buf.Len(), err)
		return
	}
	runInChild(t,
		fmt.Sprintf("stick.New(nil).Execute(`{{ \"`+strings.Repeat(\"#{a}\", %d)+`\" }}`, w, {\"a\": \"x\"}) - one flat string literal, nesting depth 1", n),
		"Execute returns the rendered output (800000 times \"x\") or an error, e.g. the parser's \"nested too deeply\" error")
}

// Finding 1 (second input): the parser bounds the recursion depth (10000) and,
// separately, the number of links of ONE operator chain (10000), but a chain
// whose first operand is a parenthesis holding another chain adds the two up:
// 200 levels of parentheses x 9000 "+1" links is a tree 1.8 million levels deep
// that passes both bounds (3.6 MB template, bracket nesting 200).
func TestC02_ChainTimesNestingOverflowsStack(t *testing.T) {
	const levels, links = 200, 9000
	if inChild(t) {
		src := "{{ " + strings.Repeat("(", levels) + "1" + strings.Repeat(strings.Repeat("+1", links)+")", levels) + " }}"
		var buf bytes.Buffer
		err := stick.New(nil).Execute(src, &buf, nil)
		fmt.Printf("CHILD: Execute returned: output %q, err=%v\n", buf.String(), err)
		return
	}
	runInChild(t,
		fmt.Sprintf("stick.New(nil).Execute(\"{{ \"+strings.Repeat(\"(\", %d)+\"1\"+strings.Repeat(strings.Repeat(\"+1\", %d)+\")\", %d)+\" }}\", w, nil)", levels, links, levels),
		fmt.Sprintf("Execute returns \"%d\" or an error (\"nested too deeply\")", levels*links+1))
}

// Finding 2: a 140 byte template builds a value nested 2.25 million levels deep
// at run time ({% set x = [x] %} in two nested loops of 1500, both far below the
// million-element range limit) and hands it to the Twig filter json_encode.
// encoding/json recurses once per level and overflows the stack: fatal.
func TestC02_JSONEncodeOfDeepRuntimeValueOverflowsStack(t *testing.T) {
	const src = `{% set x = [] %}{% for i in 1..1500 %}{% for j in 1..1500 %}{% set x = [x] %}{% endfor %}{% endfor %}{{ x|json_encode|length }}`
	if inChild(t) {
		var buf bytes.Buffer
		err := twig.New(nil).Execute(src, &buf, nil)
		fmt.Printf("CHILD: Execute returned: output %q, err=%v\n", buf.String(), err)
		return
	}
	runInChild(t,
		"twig.New(nil).Execute(`"+src+"`, w, nil)",
		"Execute returns the length of the JSON text (4500002) or an error")
}

type c02Stamp struct {
	*time.Time // optional, nil here; promotes Time's MarshalJSON / MarshalText
	Name       string
}

// Finding 3: json_encode hands the value to json.Marshal, which calls the
// MarshalJSON method that a struct gets promoted from an embedded nil pointer
// and re-panics whatever that call raises. The library recovers such calls in
// GetAttr and in the coercions, but not here.
func TestC02_JSONEncodeOfPromotedNilMarshalerPanics(t *testing.T) {
	const src = `{{ v|json_encode }}`
	ctx := map[string]stick.Value{"v": c02Stamp{Name: "x"}}
	var buf bytes.Buffer
	var err error
	panicked := func() (p interface{}) {
		defer func() { p = recover() }()
		err = twig.New(nil).Execute(src, &buf, ctx)
		return nil
	}()
	if panicked != nil {
		t.Fatalf("\ninput:    twig.New(nil).Execute(%q, w, {\"v\": struct{ *time.Time; Name string }{nil, \"x\"}})\nexpected: rendered output or an error\nobserved: Execute panicked: %v", src, panicked)
	}
	t.Logf("no panic: output %q, err=%v", buf.String(), err)
}

// Finding 4: Execute stores every top-level {% set %} (and {% import %}) in the
// caller's context map. Two goroutines that render through one Env (which the
// library supports) with the same map of shared variables therefore write one
// Go map concurrently, which the runtime answers with a fatal error.
func TestC02_SharedContextConcurrentExecuteIsFatal(t *testing.T) {
	const src = `{% set greeting = 'hi ' ~ user %}{{ greeting }}`
	if inChild(t) {
		env := stick.New(nil)
		shared := map[string]stick.Value{"user": "bob"}
		var wg sync.WaitGroup
		for g := 0; g < 8; g++ {
			wg.Add(1)
			go func() {
				defer wg.Done()
				for i := 0; i < 100000; i++ {
					var buf bytes.Buffer
					if err := env.Execute(src, &buf, shared); err != nil || buf.String() != "hi bob" {
						fmt.Printf("CHILD: unexpected result %q, %v\n", buf.String(), err)
						return
					}
				}
			}()
		}
		wg.Wait()
		fmt.Println("CHILD: 8 x 100000 executions returned \"hi bob\"")
		return
	}
	runInChild(t,
		"8 goroutines, each 100000 x env.Execute(`"+src+"`, &buf, shared) with one env := stick.New(nil) and one shared := map[string]stick.Value{\"user\": \"bob\"}",
		"every call returns \"hi bob\" (or an error)")
}
