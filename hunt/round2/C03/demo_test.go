// Demo for property C03, second round.
// Belongs in the repository root (next to stick.go) as package stick_test.
// Run: GOFLAGS=-mod=mod GOPROXY=off GOSUMDB=off GOTOOLCHAIN=local go test -run 'TestC03' .
package stick_test

import (
	"bytes"
	"testing"

	"github.com/tyler-sommer/stick"
	"github.com/tyler-sommer/stick/twig"
)

// A parent template that defines a macro and calls it through _self renders
// the literal text of the CHILD's macro of the same name instead of its own:
// the text of the parent's macro body is never emitted, the child's is emitted
// in its place.
func TestC03ParentSelfMacroRendersChildsMacroText(t *testing.T) {
	tpls := map[string]string{
		"base":  "{% macro m() %}BASE-TEXT{% endmacro %}B1({{ _self.m() }})B2{% block a %}ba{% endblock %}B3",
		"child": "{% extends 'base' %}{% macro m() %}CHILD-TEXT{% endmacro %}{% block a %}[{{ _self.m() }}]{% endblock %}",
	}
	const want = "B1(BASE-TEXT)B2[CHILD-TEXT]B3"
	for _, e := range []struct {
		name string
		env  *stick.Env
	}{
		{"stick.New", stick.New(&stick.MemoryLoader{Templates: tpls})},
		{"twig.New", twig.New(&stick.MemoryLoader{Templates: tpls})},
	} {
		var out bytes.Buffer
		if err := e.env.Execute("child", &out, nil); err != nil {
			t.Errorf("%s: templates %q: unexpected error: %v", e.name, tpls, err)
			continue
		}
		if got := out.String(); got != want {
			t.Errorf("%s: templates %q, Execute(\"child\")\n expected %q\n observed %q", e.name, tpls, want, got)
		}
	}
	// Control: rendered on its own, the parent does emit its macro text.
	var out bytes.Buffer
	if err := stick.New(&stick.MemoryLoader{Templates: tpls}).Execute("base", &out, nil); err != nil || out.String() != "B1(BASE-TEXT)B2baB3" {
		t.Errorf("control: Execute(\"base\") = %q, %v", out.String(), err)
	}
}
