// Demonstrations for property C20 (syntax errors are detected, positions are exact).
//
// Place this file in the root of the repository (next to stick.go); it is an
// external test of package stick:   package stick_test
// Run:  go test -run 'TestC20' .
package stick_test

import (
	"bytes"
	"fmt"
	"regexp"
	"strconv"
	"strings"
	"testing"

	"github.com/tyler-sommer/stick"
	"github.com/tyler-sommer/stick/parse"
)

var c20PosRe = regexp.MustCompile(`on line (\d+), column (\d+)`)

// c20ErrPos extracts the position a parse error reports.
func c20ErrPos(err error) (parse.Pos, bool) {
	m := c20PosRe.FindStringSubmatch(err.Error())
	if m == nil {
		return parse.Pos{}, false
	}
	l, _ := strconv.Atoi(m[1])
	c, _ := strconv.Atoi(m[2])
	return parse.Pos{Line: l, Offset: c}, true
}

// c20TruePos is the 1-based line / 0-based byte column of byte offset off in src.
func c20TruePos(src string, off int) parse.Pos {
	return parse.Pos{
		Line:   1 + strings.Count(src[:off], "\n"),
		Offset: off - (strings.LastIndex(src[:off], "\n") + 1),
	}
}

func c20Walk(n parse.Node, f func(parse.Node)) {
	if n == nil {
		return
	}
	f(n)
	for _, c := range n.All() {
		c20Walk(c, f)
	}
}

// c20ExpectErrorAt parses src and requires a parse error located at byte offset off.
func c20ExpectErrorAt(t *testing.T, src string, off int, what string) {
	t.Helper()
	want := c20TruePos(src, off)
	_, err := parse.Parse(src)
	if err == nil {
		t.Errorf("input %q: expected a syntax error at %s (%s); observed: parsed without error", src, want, what)
		return
	}
	got, ok := c20ErrPos(err)
	if !ok || got != want {
		t.Errorf("input %q: expected the error at %s (%s); observed %q", src, want, what, err)
	}
}

// Finding 1: a string literal reports the position of the byte AFTER its
// opening quote, not of the first byte of the literal.
func TestC20StringLiteralPosition(t *testing.T) {
	for _, src := range []string{
		"{{ 'x' }}",
		"a\nb{{ \"xy\" }}",
		"{% include\n  'p.twig' %}",
		"{{ {'k': 1} }}",
		"{{ f('') }}",
	} {
		tree, err := parse.Parse(src)
		if err != nil {
			t.Fatalf("input %q: unexpected error %v", src, err)
		}
		off := strings.IndexAny(src, `'"`)
		want := c20TruePos(src, off)
		found := false
		c20Walk(tree.Root(), func(n parse.Node) {
			if s, ok := n.(*parse.StringExpr); ok {
				found = true
				if s.Start() != want {
					t.Errorf("input %q: string literal %s begins at %s (its opening quote); observed node position %s", src, s, want, s.Start())
				}
			}
		})
		if !found {
			t.Fatalf("input %q: no StringExpr in tree", src)
		}
	}
	// The same value is used to locate errors: the offending token is the
	// literal, whose first byte is the quote.
	src := "{% for 'x' in y %}{% endfor %}"
	c20ExpectErrorAt(t, src, strings.Index(src, "'"), "the string literal that stands where a name is required")
	src = "{{ a is\n  'x' }}"
	c20ExpectErrorAt(t, src, strings.Index(src, "'"), "the string literal that stands where a test name is required")
}

// Finding 2: a template that cannot be loaded through the built-in
// MemoryLoader yields an error that does not say which template it was.
func TestC20LoadErrorNamesTemplate(t *testing.T) {
	env := stick.New(&stick.MemoryLoader{Templates: map[string]string{
		"main.twig":  `a{% include "missing.twig" %}`,
		"child.twig": `{% extends "nobase.twig" %}`,
	}})
	for _, c := range []struct{ run, name string }{
		{"main.twig", "missing.twig"},
		{"child.twig", "nobase.twig"},
		{"absent.twig", "absent.twig"},
	} {
		err := env.Execute(c.run, &bytes.Buffer{}, nil)
		if err == nil {
			t.Errorf("Execute(%q): expected an error for the missing template %q, got none", c.run, c.name)
			continue
		}
		named := strings.Contains(err.Error(), c.name)
		if n, ok := err.(interface{ Name() string }); ok && n.Name() == c.name {
			named = true
		}
		if !named {
			t.Errorf("Execute(%q) with MemoryLoader: expected the error raised while loading %q to identify that template; observed %q (%T)", c.run, c.name, err, err)
		}
	}
	if _, err := env.Parse("other.twig"); err == nil || !strings.Contains(err.Error(), "other.twig") {
		t.Errorf("Parse(%q) with MemoryLoader: expected an error naming the template; observed %v", "other.twig", err)
	}
}

// Finding 3: a literal standing where a filter or attribute name is required
// is reported at the preceding "|" / "." token, not at the offending literal.
func TestC20ErrorLocatedAtOffendingOperand(t *testing.T) {
	for _, c := range []struct{ src, tok string }{
		{"{{ a|1 }}", "1"},
		{"{{ a |\n 1 }}", "1"},
		{"{{ a.[1] }}", "["},
		{"{{ a|(b) }}", "("},
	} {
		c20ExpectErrorAt(t, c.src, strings.Index(c.src, c.tok), fmt.Sprintf("the offending token %q", c.tok))
	}
}

// Finding 4: a surplus literal before the closing "]" of a list (and a pair
// before the closing "}" of a hash) is accepted: the separating comma is optional.
func TestC20SurplusLiteralInList(t *testing.T) {
	src := "{{ [1 2] }}"
	c20ExpectErrorAt(t, src, strings.Index(src, "2"), "surplus literal 2 before the closing ]")
	src = "{{ [1, 2 'x'] }}"
	c20ExpectErrorAt(t, src, strings.Index(src, "'"), "surplus literal 'x' before the closing ]")
	src = "{% set h = {a: 1 'b': 2} %}"
	c20ExpectErrorAt(t, src, strings.Index(src, "'"), "surplus literal 'b' after a complete pair")
}

// Finding 5: a surplus literal (true / false / null / none) before the closing
// "%}" of a filter or from tag is swallowed as one more name of the list.
func TestC20SurplusLiteralInNameList(t *testing.T) {
	for _, c := range []struct{ src, lit string }{
		{"{% filter upper true %}x{% endfilter %}", "true"},
		{"{% filter upper|lower null %}x{% endfilter %}", "null"},
		{"{% from 'm.twig' import a as b false %}", "false"},
	} {
		c20ExpectErrorAt(t, c.src, strings.Index(c.src, c.lit), "surplus literal "+c.lit+" before the closing %}")
	}
}

// Finding 6: a syntax error inside an endverbatim tag is not located at the
// offending token: it is reported as "unexpected end of input" at the end of
// the source (or, when another endverbatim follows, not reported at all).
func TestC20ErrorInEndverbatimTag(t *testing.T) {
	src := "x{% verbatim %}a{% endverbatim @ %}\nmore text\n"
	c20ExpectErrorAt(t, src, strings.Index(src, "@"), "illegal character @ in the endverbatim tag")
	src = "x{% verbatim %}a{% endverbatim 1 %}\nmore text\n"
	c20ExpectErrorAt(t, src, strings.Index(src, "1"), "surplus literal 1 before the closing %}")
	src = "{% verbatim %}a{% endverbatim 1 %}b{% verbatim %}c{% endverbatim %}"
	c20ExpectErrorAt(t, src, strings.Index(src, "1"), "surplus literal 1 before the closing %}")
}
