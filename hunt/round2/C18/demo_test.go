// Demonstrations for property C18 (second round).
//
// Placement: the repository root, as package stick_test
// (cp demo_test.go <worktree>/c18_demo_test.go && go test -race -run TestC18 .).
package stick_test

import (
	"bytes"
	"fmt"
	"sort"
	"strings"
	"sync"
	"testing"
	"time"

	"github.com/tyler-sommer/stick"
	"github.com/tyler-sommer/stick/parse"
	"github.com/tyler-sommer/stick/twig"
)

// ---------------------------------------------------------------------------
// Finding 1: the auto-escape visitor holds its (non re-entrant) mutex while the
// other node visitors of the environment run. A Parse call that overlaps with a
// traversal in progress - issued from a race-free user NodeVisitor - never
// returns, and from then on no Parse/Execute on the environment returns either.
// ---------------------------------------------------------------------------

// c18IncludeChecker is a race-free user callback (it has no state of its own):
// for every {% include '<literal>' %} it meets, it parses the included template
// through the same environment, e.g. to report a missing or broken include when
// the including template is parsed instead of when it is rendered.
type c18IncludeChecker struct {
	env *stick.Env
}

func (v *c18IncludeChecker) Enter(n parse.Node) {
	if inc, ok := n.(*parse.IncludeNode); ok {
		if s, ok := inc.Tpl.(*parse.StringExpr); ok {
			v.env.Parse(s.Text) // a second Parse on the same Env while the first is in progress
		}
	}
}

func (v *c18IncludeChecker) Leave(n parse.Node) {}

func TestC18_ParseDuringTraversalWedgesTwigEnv(t *testing.T) {
	templates := map[string]string{
		"main.html.twig": `<h1>{{ title }}</h1>{% include 'part.html.twig' %}`,
		"part.html.twig": `<p>{{ title }}</p>`,
	}
	type result struct {
		out string
		err error
	}
	run := func(env *stick.Env) (result, bool) {
		done := make(chan result, 1)
		go func() {
			var buf bytes.Buffer
			err := env.Execute("main.html.twig", &buf, map[string]stick.Value{"title": "a<b"})
			done <- result{buf.String(), err}
		}()
		select {
		case r := <-done:
			return r, true
		case <-time.After(5 * time.Second):
			return result{}, false
		}
	}

	// Reference: the very same visitor on the core environment works.
	core := stick.New(&stick.MemoryLoader{Templates: templates})
	core.Visitors = append(core.Visitors, &c18IncludeChecker{core})
	if r, ok := run(core); !ok || r.err != nil {
		t.Fatalf("core environment: returned=%v result=%+v (the probe itself is broken)", ok, r)
	}

	// Reference: the Twig environment without the visitor.
	plain := twig.New(&stick.MemoryLoader{Templates: templates})
	want, ok := run(plain)
	if !ok || want.err != nil {
		t.Fatalf("twig environment without visitor: returned=%v result=%+v", ok, want)
	}

	env := twig.New(&stick.MemoryLoader{Templates: templates})
	env.Visitors = append(env.Visitors, &c18IncludeChecker{env})
	got, ok := run(env)
	if !ok {
		// Show that the whole environment is dead now, not only that call.
		other := make(chan error, 1)
		go func() {
			_, err := env.Parse("part.html.twig")
			other <- err
		}()
		wedged := "an unrelated env.Parse(\"part.html.twig\") issued afterwards from another goroutine "
		select {
		case err := <-other:
			wedged += fmt.Sprintf("returned %v", err)
		case <-time.After(2 * time.Second):
			wedged += "does not return either"
		}
		t.Fatalf("input: twig.New(MemoryLoader%v) plus a NodeVisitor whose Enter calls env.Parse(<included name>); env.Execute(\"main.html.twig\")\n"+
			"expected: the call returns %q, <nil> (the nested env.Parse returns the tree it returns when called alone)\n"+
			"observed: no return after 5s - autoEscapeVisitor.Enter(*ModuleNode) blocks on the mutex its own goroutine took when it entered the outer module; %s",
			templates, want.out, wedged)
	}
	if got.err != nil || got.out != want.out {
		t.Fatalf("expected %q, <nil>; observed %q, %v", want.out, got.out, got.err)
	}
}

// ---------------------------------------------------------------------------
// Helper for findings 2 and 3: run a template alone, then 64 at a time.
// ---------------------------------------------------------------------------

func c18Render(env *stick.Env, name string) string {
	var buf bytes.Buffer
	err := env.Execute(name, &buf, map[string]stick.Value{})
	if err != nil {
		return fmt.Sprintf("output %q, error %q", buf.String(), err.Error())
	}
	return fmt.Sprintf("output %q, error <nil>", buf.String())
}

// c18AloneVsConcurrent returns what the call returns when run alone and the
// distinct results (with their frequency) of rounds x 64 concurrent calls.
func c18AloneVsConcurrent(env *stick.Env, name string, rounds int) (string, map[string]int) {
	alone := c18Render(env, name)
	got := map[string]int{}
	var mu sync.Mutex
	for r := 0; r < rounds; r++ {
		var wg sync.WaitGroup
		for g := 0; g < 64; g++ {
			wg.Add(1)
			go func() {
				defer wg.Done()
				s := c18Render(env, name)
				mu.Lock()
				got[s]++
				mu.Unlock()
			}()
		}
		wg.Wait()
	}
	return alone, got
}

func c18Describe(m map[string]int) string {
	var keys []string
	for k := range m {
		keys = append(keys, k)
	}
	sort.Strings(keys)
	var sb strings.Builder
	for _, k := range keys {
		fmt.Fprintf(&sb, "\n    %4d x %s", m[k], k)
	}
	return sb.String()
}

// ---------------------------------------------------------------------------
// Finding 2: stick.Iterate walks a hash with reflect's MapRange, i.e. in Go's
// randomised map order. Every consumer of a hash (for, join, replace, merge,
// batch) therefore renders differently from one identical call to the next.
// ---------------------------------------------------------------------------

func TestC18_HashOrderMakesIdenticalCallsDiffer(t *testing.T) {
	templates := map[string]string{
		"for.txt.twig":     `{% for k, v in {a: 1, b: 2, c: 3, d: 4, e: 5, f: 6} %}{{ k }}={{ v }};{% endfor %}`,
		"join.txt.twig":    `{{ {a: 1, b: 2, c: 3, d: 4, e: 5, f: 6}|join(',') }}`,
		"replace.txt.twig": `{{ 'abc'|replace({'a': 'X', 'ab': 'Y', 'abc': 'Z'}) }}`,
	}
	env := twig.New(&stick.MemoryLoader{Templates: templates})
	for _, name := range []string{"for.txt.twig", "join.txt.twig", "replace.txt.twig"} {
		alone, conc := c18AloneVsConcurrent(env, name, 4)
		if len(conc) != 1 || conc[alone] == 0 {
			t.Errorf("input: %s = %s, empty context, twig.New(MemoryLoader)\n"+
				"expected: each of the 256 concurrent calls returns what the call returned alone: %s\n"+
				"observed: %d distinct results:%s",
				name, templates[name], alone, len(conc), c18Describe(conc))
		}
	}
}

// ---------------------------------------------------------------------------
// Finding 3: the alias lists of {% use .. with %} and {% from .. import %} are
// kept in Go maps by the parser and applied in map order by the executor, so
// which error is reported (several names missing) and which definition wins
// (two names imported under one alias) changes from call to call.
// ---------------------------------------------------------------------------

func TestC18_UseFromAliasOrderMakesIdenticalCallsDiffer(t *testing.T) {
	templates := map[string]string{
		"macros.twig":     `{% macro a() %}A{% endmacro %}{% macro b() %}B{% endmacro %}`,
		"blocks.twig":     `{% block a %}A{% endblock %}{% block b %}B{% endblock %}`,
		"from_err.twig":   `{% from 'macros.twig' import x, y, z %}ok`,
		"use_err.twig":    `{% extends 'blocks.twig' %}{% use 'blocks.twig' with x as p, y as q, z as r %}`,
		"from_clash.twig": `{% from 'macros.twig' import a as f, b as f %}{{ f() }}`,
	}
	for _, mk := range []struct {
		kind string
		env  *stick.Env
	}{
		{"stick.New", stick.New(&stick.MemoryLoader{Templates: templates})},
		{"twig.New", twig.New(&stick.MemoryLoader{Templates: templates})},
	} {
		for _, name := range []string{"from_err.twig", "use_err.twig", "from_clash.twig"} {
			alone, conc := c18AloneVsConcurrent(mk.env, name, 8)
			if len(conc) != 1 || conc[alone] == 0 {
				t.Errorf("input: %s = %s, empty context, %s(MemoryLoader)\n"+
					"expected: each of the 512 concurrent calls returns what the call returned alone: %s\n"+
					"observed: %d distinct results:%s",
					name, templates[name], mk.kind, alone, len(conc), c18Describe(conc))
			}
		}
	}
}
