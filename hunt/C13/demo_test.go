// Place in <repo>/twig/ (package twig_test). Run: go test ./twig/ -run 'TestC13'
package twig_test

import (
	"bytes"
	"fmt"
	"html"
	"strings"
	"testing"
	"unicode/utf8"

	"github.com/tyler-sommer/stick"
	"github.com/tyler-sommer/stick/twig"
	"github.com/tyler-sommer/stick/twig/escape"
)

func c13IsHex(c byte) bool {
	return c >= '0' && c <= '9' || c >= 'a' && c <= 'f' || c >= 'A' && c <= 'F'
}

func c13HexVal(c byte) rune {
	switch {
	case c >= '0' && c <= '9':
		return rune(c - '0')
	case c >= 'a' && c <= 'f':
		return rune(c-'a') + 10
	}
	return rune(c-'A') + 10
}

// c13CSSDecode is the standard CSS decoder: CSS Syntax Module Level 3,
// section 4.3.7 "consume an escaped code point" (as many as SIX hex digits,
// then one optional whitespace; zero, surrogates and values above U+10FFFF
// become U+FFFD). CSS 2.1 section 4.1.3 describes the same rule.
func c13CSSDecode(s string) string {
	var b strings.Builder
	for i := 0; i < len(s); {
		if s[i] != '\\' {
			b.WriteByte(s[i])
			i++
			continue
		}
		i++
		if i >= len(s) {
			b.WriteRune(0xFFFD)
			break
		}
		if !c13IsHex(s[i]) {
			r, w := utf8.DecodeRuneInString(s[i:])
			b.WriteRune(r)
			i += w
			continue
		}
		var v rune
		for n := 0; i < len(s) && n < 6 && c13IsHex(s[i]); n++ {
			v = v*16 + c13HexVal(s[i])
			i++
		}
		if i < len(s) && strings.IndexByte(" \t\n\r\f", s[i]) >= 0 {
			i++
		}
		if v == 0 || (v >= 0xD800 && v <= 0xDFFF) || v > 0x10FFFF {
			v = 0xFFFD
		}
		b.WriteRune(v)
	}
	return b.String()
}

// c13Render runs `{{ v|escape(<typ>) }}` through the Twig environment.
func c13Render(t *testing.T, typ, v string) string {
	t.Helper()
	var buf bytes.Buffer
	env := twig.New(nil)
	if err := env.Execute("{{ v|escape('"+typ+"') }}", &buf, map[string]stick.Value{"v": v}); err != nil {
		t.Fatalf("execute: %v", err)
	}
	return buf.String()
}

// Finding 1: the css escape sequence is a backslash and four hex digits with no
// terminator, so a following literal hex digit (0-9a-fA-F pass unescaped) is
// swallowed into the escape by any CSS decoder.
func TestC13CSSEscapeAbsorbsFollowingHexDigit(t *testing.T) {
	for _, in := range []string{" a", "!B", "some \" bad content", "\U0001F600A", "#fff; color: red"} {
		out := escape.CSS(in)
		if viaTpl := c13Render(t, "css", in); viaTpl != out {
			t.Fatalf("template path differs from escape.CSS: %q vs %q", viaTpl, out)
		}
		if got := c13CSSDecode(out); got != in {
			t.Errorf("css escaper is lossy (context-dependent decoding)\n   input:    %q\n   escaped:  %q\n   expected: CSS decoding gives back %q\n   observed: CSS decoding gives %q", in, out, in, got)
		}
	}
}

// Finding 2: U+0000 is emitted as the escape \0000, which CSS defines to mean U+FFFD.
func TestC13CSSNulIsNotRecoverable(t *testing.T) {
	in := "\x00"
	out := escape.CSS(in)
	if viaTpl := c13Render(t, "css", in); viaTpl != out {
		t.Fatalf("template path differs from escape.CSS: %q vs %q", viaTpl, out)
	}
	if got := c13CSSDecode(out); got != in {
		t.Errorf("css escaper is lossy on a one-character string\n   input:    %q\n   escaped:  %q\n   expected: CSS decoding gives back %q\n   observed: CSS decoding gives %q", in, out, in, got)
	}
}

// Finding 3: html_attr writes U+0080..U+009F as decimal references &#128;..&#159;
// (it neither passes nor replaces them); HTML defines those references to mean
// the windows-1252 characters, e.g. &#128; is U+20AC.
func TestC13HTMLAttrC1ReferencesAreRemapped(t *testing.T) {
	var bad []string
	for r := rune(0x7F); r <= 0xA0; r++ {
		in := string(r)
		out := escape.HTMLAttribute(in)
		if viaTpl := c13Render(t, "html_attr", in); viaTpl != out {
			t.Fatalf("template path differs from escape.HTMLAttribute: %q vs %q", viaTpl, out)
		}
		got := html.UnescapeString(out)
		if got == in || got == "\uFFFD" {
			// recovered, or deliberately replaced by the replacement character
			continue
		}
		bad = append(bad, fmt.Sprintf("input %q (U+%04X) -> escaped %q -> HTML-decoded %q (U+%04X)", in, r, out, got, []rune(got)[0]))
	}
	if len(bad) > 0 {
		t.Errorf("html_attr escaper is lossy for %d code points in U+007F..U+00A0\n   expected: HTML decoding of the output gives back the input (or U+FFFD where the escaper deliberately replaces a control character)\n   observed:\n     %s", len(bad), strings.Join(bad, "\n     "))
	}
}
