// Place this file in the repository root (next to exec.go); it is an external
// test package: package stick_test. Run with
//   go test -run 'TestC05_' .
//
// Every test below FAILS on the unmodified library: each one demonstrates one
// violation of property C05 (expressions evaluate to the documented values).
package stick_test

import (
	"bytes"
	"testing"

	"github.com/tyler-sommer/stick"
	"github.com/tyler-sommer/stick/twig"
)

type c05Case struct {
	src  string
	want string
}

// c05Check executes every case in the core environment (stick.New) and, when
// alsoTwig is set, in the Twig environment (twig.New) and reports each case whose
// output differs from the value the language defines.
func c05Check(t *testing.T, ctx map[string]stick.Value, alsoTwig bool, cases []c05Case) {
	t.Helper()
	envs := []struct {
		name string
		env  *stick.Env
	}{{"stick.New", stick.New(nil)}}
	if alsoTwig {
		envs = append(envs, struct {
			name string
			env  *stick.Env
		}{"twig.New", twig.New(nil)})
	}
	for _, e := range envs {
		for _, c := range cases {
			var buf bytes.Buffer
			err := e.env.Execute(c.src, &buf, ctx)
			if err != nil {
				t.Errorf("%s: input %s\n    expected output %q\n    observed error  %v (output %q)", e.name, c.src, c.want, err, buf.String())
				continue
			}
			if got := buf.String(); got != c.want {
				t.Errorf("%s: input %s\n    expected %q\n    observed %q", e.name, c.src, c.want, got)
			}
		}
	}
}

// Finding 1: integer results of 1000000 and above (and fractions below 0.0001)
// are rendered, concatenated and compared in Go's exponent notation.
func TestC05_LargeIntegersUseExponentNotation(t *testing.T) {
	c05Check(t, nil, true, []c05Case{
		{`{{ 1000000 }}`, "1000000"},
		{`{{ 1000 * 1000 }}`, "1000000"},
		{`{{ 9 ** 7 }}`, "4782969"},
		{`{{ 999999 + 1 }}`, "1000000"},
		{`{{ 'n=' ~ 100 * 100 * 100 }}`, "n=1000000"},
		{`{{ 1000 * 1000 == '1000000' ? 'equal' : 'different' }}`, "equal"},
		{`{{ '1000000' in [1000 * 1000] ? 'yes' : 'no' }}`, "yes"},
	})
}

// Finding 2: integer arithmetic yields IEEE negative zero, which prints as "-0"
// and is not equal to 0.
func TestC05_NegativeZero(t *testing.T) {
	c05Check(t, map[string]stick.Value{"z": 0}, true, []c05Case{
		{`{{ 0 * -1 }}`, "0"},
		{`{{ -0 }}`, "0"},
		{`{{ -z }}`, "0"},
		{`{{ 0 // -1 }}`, "0"},
		{`{{ (0 * -1) == 0 ? 'equal' : 'different' }}`, "equal"},
		{`{{ 0 in [0 * -1] ? 'yes' : 'no' }}`, "yes"},
		{`{{ 'v' ~ (z * -1) }}`, "v0"},
	})
}

// Finding 3: ".." has the same precedence as "in" (Twig: 25 against 20), so
// "x in a..b" groups as "(x in a)..b".
func TestC05_InBindsLooserThanRange(t *testing.T) {
	c05Check(t, map[string]stick.Value{"x": 2}, true, []c05Case{
		{`{{ 2 in 1..3 ? 'yes' : 'no' }}`, "yes"},
		{`{{ x in 1..3 ? 'yes' : 'no' }}`, "yes"},
		{`{{ 5 not in 1..3 ? 'yes' : 'no' }}`, "yes"},
		{`{% if x in 0..9 %}digit{% endif %}`, "digit"},
	})
}

// Finding 4: "in" / "not in" with a string on the right-hand side is an error
// instead of a substring test.
func TestC05_InOnStrings(t *testing.T) {
	c05Check(t, map[string]stick.Value{"s": "abc"}, true, []c05Case{
		{`{{ 'b' in 'abc' ? 'yes' : 'no' }}`, "yes"},
		{`{{ 'bc' in s ? 'yes' : 'no' }}`, "yes"},
		{`{{ 'x' in 'abc' ? 'yes' : 'no' }}`, "no"},
		{`{{ 'x' not in 'abc' ? 'yes' : 'no' }}`, "yes"},
	})
}

// Finding 5: a hash entry whose key is a number cannot be read back with [key]:
// the literal stores the key as a string, the lookup does not convert the number.
func TestC05_NumericHashKeyLookup(t *testing.T) {
	c05Check(t, map[string]stick.Value{"x": 3}, true, []c05Case{
		{`{{ {2: 'two'}[2] }}`, "two"},
		{`{{ {(x): 'three'}[x] }}`, "three"},
		{`{{ {(1 + 1): 'two'}[1 + 1] }}`, "two"},
		{`{{ {'1': 'one'}[1] }}`, "one"},
	})
}

// Finding 6: backslash escapes in string literals are not processed; an escaped
// delimiter ends the string.
func TestC05_StringLiteralEscapes(t *testing.T) {
	c05Check(t, nil, false, []c05Case{
		{`{{ 'It\'s good' }}`, `It's good`},
		{`{{ "say \"hi\"" }}`, `say "hi"`},
		{`{{ 'a\\b' }}`, `a\b`},
		{`{{ 'It\'s' ~ '!' }}`, `It's!`},
	})
}
