// Demonstrations for property C14 (formatting inside delimiters does not change meaning).
//
// Placement: repository root of github.com/tyler-sommer/stick, package stick_test
// (copy to <repo>/c14_demo_test.go and run `go test -run TestC14 .`).
package stick_test

import (
	"bytes"
	"fmt"
	"testing"

	"github.com/tyler-sommer/stick"
	"github.com/tyler-sommer/stick/twig"
)

func c14Envs() map[string]*stick.Env {
	envs := map[string]*stick.Env{"stick.New": stick.New(nil), "twig.New": twig.New(nil)}
	for _, e := range envs {
		e.Tests["odd"] = func(ctx stick.Context, val stick.Value, args ...stick.Value) bool {
			return int(stick.CoerceNumber(val))%2 != 0
		}
	}
	return envs
}

func c14Render(env *stick.Env, src string, ctx map[string]stick.Value) string {
	var b bytes.Buffer
	if err := env.Execute(src, &b, ctx); err != nil {
		return fmt.Sprintf("ERROR(%v)", err)
	}
	return fmt.Sprintf("%q", b.String())
}

type c14Pair struct {
	base, respelled string
}

func c14Check(t *testing.T, ctx map[string]stick.Value, pairs []c14Pair) {
	t.Helper()
	for name, env := range c14Envs() {
		for _, p := range pairs {
			want := c14Render(env, p.base, ctx)
			got := c14Render(env, p.respelled, ctx)
			if want != got {
				t.Errorf("[%s] whitespace-only re-spelling changes the result\n  input      %q renders %s\n  re-spelled %q renders %s\n  expected: both spellings parse and render the same",
					name, p.base, want, p.respelled, got)
			}
		}
	}
}

// Finding 1: the two-word operators "not in", "is not", "starts with" and
// "ends with" are only recognised when their words are separated by exactly
// one U+0020. Any other amount or kind of whitespace between the two words
// (two spaces, tab, newline, CR) makes the template fail to parse.
func TestC14_TwoWordOperatorWhitespace(t *testing.T) {
	ctx := map[string]stick.Value{"s": "abc", "l": []interface{}{1, 2, 3}, "x": 4}
	c14Check(t, ctx, []c14Pair{
		{"{% if 9 not in l %}yes{% endif %}", "{% if 9 not  in l %}yes{% endif %}"},
		{"{% if 9 not in l %}yes{% endif %}", "{% if 9 not\nin l %}yes{% endif %}"},
		{"{{ s starts with 'a' }}", "{{ s starts\twith 'a' }}"},
		{"{{ s starts with 'a' }}", "{{ s starts\r\nwith 'a' }}"},
		{"{{ s ends with 'c' }}", "{{ s ends  with 'c' }}"},
		{"{% if x is not odd %}even{% endif %}", "{% if x is\tnot odd %}even{% endif %}"},
		{"{% if x is not odd %}even{% endif %}", "{% if x is\n   not odd %}even{% endif %}"},
	})
}

// Finding 2: a number token is glued to a following "." by the parser only
// when there is NO whitespace between them (Tree.peek is used, not
// peekNonSpace), while whitespace after the "." is skipped. So whitespace
// around the "." after a number changes both meaning and parseability.
func TestC14_NumberDotWhitespace(t *testing.T) {
	ctx := map[string]stick.Value{
		"a": []interface{}{map[string]interface{}{"b": "B"}},
	}
	c14Check(t, ctx, []c14Pair{
		// "0", ".", "b" cannot merge into anything, yet the compact spelling does not parse.
		{"{{ a.0 .b }}", "{{ a.0.b }}"},
		{"{{ a . 0 . b }}", "{{a.0.b}}"},
		// Same three tokens 1 . 5 with whitespace on one side of the dot or the other.
		{"{{ 1. 5 }}", "{{ 1 .5 }}"},
		{"{{ 1.\n5 }}", "{{ 1\n.5 }}"},
	})
}
