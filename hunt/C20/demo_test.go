// Demonstrations for property C20 (syntax errors are detected, all reported
// positions are exact). Belongs in the repository root, package stick_test:
//
//	cp demo_test.go <worktree>/c20_demo_test.go && go test -run 'TestC20' .
//
// Every test fails on the unmodified library.
package stick_test

import (
	"strings"
	"testing"

	"github.com/tyler-sommer/stick"
	"github.com/tyler-sommer/stick/parse"
)

// c20PosAt returns the 1-based line / 0-based byte column of the first
// occurrence of needle in src (counted from byte offset "from").
func c20PosAt(t *testing.T, src, needle string, from int) parse.Pos {
	t.Helper()
	i := strings.Index(src[from:], needle)
	if i < 0 {
		t.Fatalf("needle %q not in %q", needle, src)
	}
	off := from + i
	return parse.Pos{
		Line:   1 + strings.Count(src[:off], "\n"),
		Offset: off - (strings.LastIndex(src[:off], "\n") + 1),
	}
}

// c20Find walks the tree depth first and returns the first node accepted by f.
func c20Find(n parse.Node, f func(parse.Node) bool) parse.Node {
	if n == nil {
		return nil
	}
	defer func() { recover() }() // typed nil children (e.g. a nil With expression)
	if f(n) {
		return n
	}
	for _, c := range n.All() {
		if r := c20Find(c, f); r != nil {
			return r
		}
	}
	return nil
}

// Finding 1: a block inside an embed body reports the position of the *embed*
// tag name instead of its own tag name.
func TestC20EmbedBlockPosition(t *testing.T) {
	src := "{% embed 'p' %}\n  {% block a %}x{% endblock %}\n{% endembed %}"
	tree, err := parse.Parse(src)
	if err != nil {
		t.Fatalf("unexpected parse error: %v", err)
	}
	n := c20Find(tree.Root(), func(n parse.Node) bool { _, ok := n.(*parse.BlockNode); return ok })
	if n == nil {
		t.Fatal("no BlockNode in the tree")
	}
	want := c20PosAt(t, src, "block", 0) // 2:5
	if got := n.Start(); got != want {
		t.Errorf("input %q\nBlockNode %q: expected position %v (its tag name \"block\"), observed %v (the tag name \"embed\")",
			src, n.(*parse.BlockNode).Name, want, got)
	}
}

// Finding 2: several parse errors are plain errors.New / fmt.Errorf values:
// they carry no position at all and do not name the template being loaded.
func TestC20ErrorsWithoutPositionOrName(t *testing.T) {
	cases := []struct{ name, src, offending string }{
		{"loop.twig", "line one\n{% for k, 5 in items %}{% endfor %}", "5"},
		{"loop2.twig", "{% for v in items 5 x %}{% endfor %}", "5"}, // passes: positioned (control)
		{"loop3.twig", "{% for v in items\n  unless %}{% endfor %}", "unless"},
		{"test.twig", "a\nb {{ a is 5 }}", "5"},
	}
	tpls := map[string]string{}
	for _, c := range cases {
		tpls[c.name] = c.src
	}
	env := stick.New(&stick.MemoryLoader{Templates: tpls})
	for _, c := range cases {
		_, err := env.Parse(c.name)
		if err == nil {
			t.Errorf("%s: %q: expected a syntax error, got none", c.name, c.src)
			continue
		}
		want := c20PosAt(t, c.src, c.offending, 0)
		p, ok := err.(interface{ Start() parse.Pos })
		if !ok {
			t.Errorf("%s: input %q\nexpected an error located at %v (token %q); observed %T %q which reports no position",
				c.name, c.src, want, c.offending, err, err.Error())
		} else if p.Start() != want {
			t.Errorf("%s: input %q: expected error at %v, observed %v (%v)", c.name, c.src, want, p.Start(), err)
		}
		if !strings.Contains(err.Error(), c.name) {
			t.Errorf("%s: input %q\nexpected the error to identify template %q; observed %q",
				c.name, c.src, c.name, err.Error())
		}
	}
}

// Finding 3: everything between the blocks of an embed body is skipped token by
// token and never parsed, so syntax errors there go undetected.
func TestC20EmbedBodySyntaxErrorsAccepted(t *testing.T) {
	for _, c := range []struct{ print, offending string }{
		{"{{ a 5 }}", "5"},     // surplus literal before the closing delimiter
		{"{{ a 'x' }}", "'x'"}, // surplus string literal
		{"{{ }}", "}}"},        // empty print
	} {
		// control: outside an embed the same print statement is rejected
		if _, err := parse.Parse(c.print); err == nil {
			t.Fatalf("control %q unexpectedly accepted", c.print)
		}
		src := "{% embed 'p' %}\n" + c.print + "{% block a %}x{% endblock %}{% endembed %}"
		_, err := parse.Parse(src)
		if err == nil {
			t.Errorf("input %q\nexpected a syntax error located at %v (token %q); observed: accepted without error",
				src, c20PosAt(t, src, c.offending, 16), c.offending)
			continue
		}
		want := c20PosAt(t, src, c.offending, 16)
		if p, ok := err.(interface{ Start() parse.Pos }); !ok || p.Start() != want {
			t.Errorf("input %q: expected error at %v, observed %v", src, want, err)
		}
	}
}

// Finding 4: a filter application reports the position of the "|" when the
// filter has no argument list and the position of the filter name when it has
// one. Whatever the anchor is meant to be, one of the two is wrong; the anchor
// list of the property names "a literal or name", i.e. the filter name.
func TestC20FilterExprPosition(t *testing.T) {
	for _, src := range []string{"{{ a |\n upper }}", "{{ a |\n upper() }}", "{{ a |\n join(', ') }}"} {
		tree, err := parse.Parse(src)
		if err != nil {
			t.Fatalf("%q: unexpected parse error: %v", src, err)
		}
		n := c20Find(tree.Root(), func(n parse.Node) bool { _, ok := n.(*parse.FilterExpr); return ok })
		if n == nil {
			t.Fatalf("%q: no FilterExpr", src)
		}
		f := n.(*parse.FilterExpr)
		want := c20PosAt(t, src, f.Name, 0) // 2:1
		if got := f.Start(); got != want {
			t.Errorf("input %q\nFilterExpr %q: expected position %v (the filter name, as reported for the form with arguments), observed %v (the \"|\")",
				src, f.Name, want, got)
		}
	}
}

// Finding 5: a two-word test ("divisible by", "same as") reports the position
// of its second word.
func TestC20TwoWordTestPosition(t *testing.T) {
	for _, src := range []string{"{{ a is divisible by(3) }}", "{{ a is not same\n as(b) }}", "{{ a is divisible by }}"} {
		tree, err := parse.Parse(src)
		if err != nil {
			t.Fatalf("%q: unexpected parse error: %v", src, err)
		}
		n := c20Find(tree.Root(), func(n parse.Node) bool { _, ok := n.(*parse.TestExpr); return ok })
		if n == nil {
			t.Fatalf("%q: no TestExpr", src)
		}
		te := n.(*parse.TestExpr)
		first := strings.Fields(te.Name)[0]
		want := c20PosAt(t, src, first, 0)
		if got := te.Start(); got != want {
			t.Errorf("input %q\nTestExpr %q: expected position %v (first byte of the test name, %q), observed %v",
				src, te.Name, want, first, got)
		}
	}
}

// Finding 6: the IfNode made for the "if" clause of a for tag reports the
// position of the tag's closing delimiter "%}" (a token that is none of the
// anchors), not that of the "if" it stands for.
func TestC20ForIfClausePosition(t *testing.T) {
	src := "{% for v in items\n   if v.ok %}x{% endfor %}"
	tree, err := parse.Parse(src)
	if err != nil {
		t.Fatalf("unexpected parse error: %v", err)
	}
	n := c20Find(tree.Root(), func(n parse.Node) bool { _, ok := n.(*parse.IfNode); return ok })
	if n == nil {
		t.Fatal("no IfNode")
	}
	want := c20PosAt(t, src, "if", 0) // 2:3
	if got := n.Start(); got != want {
		t.Errorf("input %q\nIfNode of the for tag's if clause: expected position %v (the name \"if\"), observed %v (the closing \"%%}\" at %v)",
			src, want, got, c20PosAt(t, src, "%}", 0))
	}
}
