// Demo tests for property C07 (variable scoping).
//
// Placement: repository root of github.com/tyler-sommer/stick, package stick_test
// (e.g. /tmp/hunt1/C07/c07_demo_test.go). Run with
//
//	GOFLAGS=-mod=mod GOPROXY=off GOSUMDB=off GOTOOLCHAIN=local go test -run 'TestC07' .
//
// Every test FAILS on the unmodified library (the violation is present) and
// would pass once the behaviour matches the property.
package stick_test

import (
	"bytes"
	"testing"

	"github.com/tyler-sommer/stick"
	"github.com/tyler-sommer/stick/twig"
)

// c07Envs returns the core and the Twig environment, each with a helper
// function defined('name') that prints D when the name is bound in the scope
// of the running template and U when it is undefined. (The library renders an
// undefined variable as the empty string, so a helper is needed to tell
// "undefined" from "null".)
func c07Envs(tpls map[string]string) map[string]*stick.Env {
	mk := func(f func(stick.Loader) *stick.Env) *stick.Env {
		var ld stick.Loader
		if tpls != nil {
			ld = &stick.MemoryLoader{Templates: tpls}
		}
		env := f(ld)
		env.Functions["defined"] = func(ctx stick.Context, args ...stick.Value) stick.Value {
			if len(args) == 0 {
				return "?"
			}
			if _, ok := ctx.Scope().Get(stick.CoerceString(args[0])); ok {
				return "D"
			}
			return "U"
		}
		return env
	}
	return map[string]*stick.Env{"stick.New": mk(stick.New), "twig.New": mk(twig.New)}
}

func c07Run(t *testing.T, env *stick.Env, tpl string, ctx map[string]stick.Value) string {
	t.Helper()
	var b bytes.Buffer
	if err := env.Execute(tpl, &b, ctx); err != nil {
		t.Fatalf("template %q: unexpected error: %v", tpl, err)
	}
	return b.String()
}

// Finding 1: a set at the template level of a template that has an
// {% extends %} tag is never executed, so it is not visible to the blocks that
// follow it.
func TestC07_ChildTemplateLevelSetIsDropped(t *testing.T) {
	tpls := map[string]string{
		"parent": "[{% block b %}{% endblock %}]",
		"child":  "{% extends 'parent' %}{% set x = 'one' %}{% block b %}{{ x }}/{{ defined('x') }}{% endblock %}",
		// Control: the same set and block without inheritance.
		"plain": "{% set x = 'one' %}[{% block b %}{{ x }}/{{ defined('x') }}{% endblock %}]",
	}
	for name, env := range c07Envs(tpls) {
		if got := c07Run(t, env, "plain", nil); got != "[one/D]" {
			t.Errorf("%s control: template %q: got %q, want %q", name, tpls["plain"], got, "[one/D]")
		}
		got := c07Run(t, env, "child", nil)
		if want := "[one/D]"; got != want {
			t.Errorf("%s: templates %v, Execute(\"child\"):\n expected %q (the template-level set is visible to the block that follows it)\n observed %q (the set was never executed: x is undefined in the block)", name, tpls, want, got)
		}
	}
}

// Finding 2: a macro call does not get a scope of its own: it runs on top of
// the caller's scope stack. (a) A macro that is defined outside a loop and
// called from the loop body sees the loop's value and loop variables; (b) a
// set inside the macro lands in the caller's outermost variable of that name,
// so a loop whose body does not itself assign to its loop variable changes the
// outer variable of the same name.
func TestC07_MacroRunsInCallerScope(t *testing.T) {
	for name, env := range c07Envs(nil) {
		// (a)
		tplA := "{% macro probe() %}{{ defined('item') }}{{ defined('loop') }}{{ item }}{{ loop.index }}{% endmacro %}" +
			"{% for item in ['a','b'] %}{{ _self.probe() }};{% endfor %}"
		if got, want := c07Run(t, env, tplA, nil), "UU;UU;"; got != want {
			t.Errorf("%s (a): template %q:\n expected %q (item and loop are visible only inside the loop body; the macro body is not inside it)\n observed %q", name, tplA, want, got)
		}
		// (b)
		tplB := "{% macro helper() %}{% set i = 'clobbered' %}{% endmacro %}" +
			"{% set i = 'outer' %}{% for i in [1, 2] %}{{ _self.helper() }}{{ i }}{% endfor %}|{{ i }}"
		if got, want := c07Run(t, env, tplB, nil), "12|outer"; got != want {
			t.Errorf("%s (b): template %q:\n expected %q (the loop body does not itself assign to i, so the outer i is exactly as it was)\n observed %q", name, tplB, want, got)
		}
	}
}

// Finding 3: the names _self, true, false, null and none are accepted as the
// target of set, as a macro parameter and (_self) as a loop variable, but a
// later read of the name never sees the assigned value.
func TestC07_ReservedNamesAssignedButNeverVisible(t *testing.T) {
	cases := []struct{ tpl, want, why string }{
		{"{% set _self = 'five' %}{{ _self }}", "five", "a set at template level is visible to everything that follows"},
		{"{% set true = 'five' %}{{ true }}", "five", "a set at template level is visible to everything that follows"},
		{"{% set none = 'five' %}{{ none }}", "five", "a set at template level is visible to everything that follows"},
		{"{% for _self in ['a', 'b'] %}{{ _self }}{% endfor %}", "ab", "the loop's value variable is visible inside the loop body"},
		{"{% macro m(true, _self) %}{{ true }}{{ _self }}{% endmacro %}{{ _self.m('x', 'y') }}", "xy", "a macro's parameters are visible inside the macro call"},
	}
	for name, env := range c07Envs(nil) {
		for _, c := range cases {
			var b bytes.Buffer
			err := env.Execute(c.tpl, &b, nil)
			if err != nil {
				// Rejecting the template would be a legitimate way to reserve the name.
				continue
			}
			if got := b.String(); got != c.want {
				t.Errorf("%s: template %q accepted without error:\n expected %q (%s)\n observed %q", name, c.tpl, c.want, c.why, got)
			}
		}
	}
}

// Finding 4: a variable first set in the else branch of a for loop survives
// the loop (the else branch runs in the enclosing scope, not in a loop scope).
func TestC07_ForElseFreshSetSurvivesLoop(t *testing.T) {
	for name, env := range c07Envs(nil) {
		// Control: the same set in the main branch does not survive.
		ctl := "{% for i in [1] %}{% set fresh = 1 %}{% else %}{% endfor %}{{ defined('fresh') }}"
		if got := c07Run(t, env, ctl, nil); got != "U" {
			t.Errorf("%s control: template %q: got %q, want %q", name, ctl, got, "U")
		}
		tpl := "{% for i in [] %}{% else %}{% set fresh = 1 %}{% endfor %}{{ defined('fresh') }}"
		if got, want := c07Run(t, env, tpl, nil), "U"; got != want {
			t.Errorf("%s: template %q:\n expected %q (a variable first set inside a loop does not survive the loop)\n observed %q", name, tpl, want, got)
		}
	}
}

// Finding 5: the map passed to Execute is used as the outermost scope itself,
// so a template-level set is written into the caller's map: it survives the
// execution and is defined in an unrelated later execution with the same map.
// (With two goroutines sharing one context map the same write ends the process
// with "fatal error: concurrent map read and map write".)
func TestC07_TemplateLevelSetLeaksIntoCallersContext(t *testing.T) {
	for name, env := range c07Envs(nil) {
		shared := map[string]stick.Value{"site": "example"}
		first := "{% set secret = site ~ '!' %}"
		second := "{{ defined('secret') }}{{ secret }}"
		c07Run(t, env, first, shared)
		if _, leaked := shared["secret"]; leaked {
			t.Errorf("%s: Execute(%q, ctx) with ctx = {site: example}:\n expected ctx unchanged after the execution\n observed ctx = %v", name, first, shared)
		}
		if got, want := c07Run(t, env, second, shared), "U"; got != want {
			t.Errorf("%s: after Execute(%q, ctx), Execute(%q, ctx) with the same map:\n expected %q (secret never existed for this template)\n observed %q", name, first, second, want, got)
		}
	}
}

// Finding 6: a loop whose key or value variable is called "loop" never sees
// that variable: it is overwritten by the loop's own bookkeeping variable.
func TestC07_LoopKeyOrValueNamedLoopIsInvisible(t *testing.T) {
	for name, env := range c07Envs(nil) {
		tpl := "{% for loop in ['a', 'b'] %}{{ loop }}{% endfor %}"
		if got, want := c07Run(t, env, tpl, nil), "ab"; got != want {
			t.Errorf("%s: template %q:\n expected %q (the loop's value variable is visible inside the loop body)\n observed %q", name, tpl, want, got)
		}
		tpl = "{% for loop, v in ['a', 'b'] %}{{ loop }}{{ v }}{% endfor %}"
		if got, want := c07Run(t, env, tpl, nil), "0a1b"; got != want {
			t.Errorf("%s: template %q:\n expected %q (the loop's key variable is visible inside the loop body)\n observed %q", name, tpl, want, got)
		}
	}
}
