// Demonstrations for property C08 (captured output goes only to its target).
//
// Place this file in the repository root (next to exec.go); it is package
// stick_test and only uses the public API. Run with:
//
//	export GOFLAGS=-mod=mod GOPROXY=off GOSUMDB=off GOTOOLCHAIN=local
//	go test -run 'TestC08_' .
//
// Each test FAILS on the unmodified library while the violation is present.
package stick_test

import (
	"bytes"
	"reflect"
	"testing"

	"github.com/tyler-sommer/stick"
)

func c08run(t *testing.T, env *stick.Env, tpl string, ctx map[string]stick.Value) string {
	t.Helper()
	var b bytes.Buffer
	if err := env.Execute(tpl, &b, ctx); err != nil {
		t.Fatalf("template %q: unexpected error: %v", tpl, err)
	}
	return b.String()
}

// Finding 1: a set..endset capture whose target name is also defined in an
// OUTER scope (context variable, enclosing macro's parameter, enclosing loop
// variable) stores the captured value in the outer variable instead of the
// variable the name denotes where the capture is written. The print that
// follows the capture does not see the captured value, and an unrelated outer
// variable is overwritten with it.
func TestC08_CaptureTargetShadowedByOuterName(t *testing.T) {
	env := stick.New(nil)
	cases := []struct {
		name string
		tpl  string
		ctx  map[string]stick.Value
		want string
	}{
		{
			// Macro parameter x, context variable x.
			name: "macro parameter vs context variable",
			tpl:  `{% macro m(x) %}{% set x %}cap{% endset %}[{{ x }}]{% endmacro %}{{ _self.m('arg') }}/{{ x }}`,
			ctx:  map[string]stick.Value{"x": "outer"},
			want: "[cap]/outer",
		},
		{
			// Nested macro calls (depth 2) whose parameters share a name; no context at all.
			name: "nested macro calls, same parameter name",
			tpl: `{% macro wrap(v) %}{% set v %}[{{ v }}]{% endset %}{{ v }}{% endmacro %}` +
				`{% macro outer(v) %}{{ _self.wrap(v) }}+{{ v }}{% endmacro %}` +
				`{{ _self.outer('a') }}`,
			want: "[a]+a",
		},
		{
			// Capture inside nested loops that reuse the loop variable name.
			name: "nested loops, same loop variable",
			tpl:  `{% for v in ['a'] %}{% for v in ['b'] %}{% set v %}[{{ v }}]{% endset %}{{ v }}{% endfor %}{{ v }}{% endfor %}`,
			want: "[b]a",
		},
	}
	for _, c := range cases {
		orig := map[string]stick.Value{}
		for k, v := range c.ctx {
			orig[k] = v
		}
		got := c08run(t, env, c.tpl, c.ctx)
		if got != c.want {
			t.Errorf("%s:\n  input:    %s\n  context:  %v\n  expected: %q (the capture's value is what the next print of the target shows; outer variable untouched)\n  observed: %q",
				c.name, c.tpl, orig, c.want, got)
		}
	}
}

// Finding 2 (low confidence, see findings.json): the root scope of an
// execution IS the caller's context map, so a top-level capture is written
// into the caller's map. A second execution that is handed the same map sees
// output captured by the first one although it has not produced it (and two
// goroutines doing so crash with "concurrent map writes").
func TestC08_CaptureLeaksThroughCallerContextMap(t *testing.T) {
	env := stick.New(nil)
	const tpl = `[{{ note }}]{% set note %}N{% endset %}`
	ctx := map[string]stick.Value{"site": "S"}
	before := map[string]stick.Value{"site": "S"}

	first := c08run(t, env, tpl, ctx)
	second := c08run(t, env, tpl, ctx)

	if first != "[]" || second != "[]" {
		t.Errorf("input: %s executed twice with the same context map %v\n  expected: %q then %q (nothing has been captured yet when note is printed)\n  observed: %q then %q",
			tpl, before, "[]", "[]", first, second)
	}
	if !reflect.DeepEqual(ctx, before) {
		t.Errorf("input: %s\n  expected: caller's context map unchanged: %v\n  observed: %v (captured output stored in the caller's map)", tpl, before, ctx)
	}
}
