// Demonstrations for property C15 (coercions are total, uniform across Go
// types and mutually consistent).
//
// Placement: the repository root of github.com/tyler-sommer/stick, as package
// stick_test (copy to <repo>/demo_test.go and run `go test -run 'TestC15_' .`).
// Every test FAILS on the unmodified library.
package stick_test

import (
	"bytes"
	"fmt"
	"os"
	"os/exec"
	"strings"
	"testing"
	"time"

	"github.com/tyler-sommer/stick"
)

// coerceAll runs the three coercions and reports a panic instead of crashing.
func c15coerceAll(v stick.Value) (s string, n float64, b bool, panicked interface{}) {
	defer func() {
		if r := recover(); r != nil {
			panicked = r
		}
	}()
	s = stick.CoerceString(v)
	n = stick.CoerceNumber(v)
	b = stick.CoerceBool(v)
	return
}

// ---------------------------------------------------------------------------
// 1. The same integral number prints differently when a float carries it:
// float64(1000000) -> "1e+06" but int(1000000) -> "1000000". Because Equal
// compares the string coercions, the two are not even == in a template.
func TestC15_IntegralFloatFromOneMillionPrintsAsExponent(t *testing.T) {
	type carrier struct {
		name string
		v    stick.Value
	}
	for _, n := range []int64{1000000, 16777216, 123456789} {
		want := fmt.Sprintf("%d", n)
		for _, c := range []carrier{
			{"int", int(n)}, {"int32", int32(n)}, {"int64", n}, {"uint32", uint32(n)}, {"uint64", uint64(n)},
			{"float32", float32(n)}, {"float64", float64(n)},
		} {
			if got := stick.CoerceString(c.v); got != want {
				t.Errorf("CoerceString(%s(%d)): expected %q (what every integer type gives), observed %q", c.name, n, want, got)
			}
		}
	}
	// Template-level consequence.
	env := stick.New(nil)
	var buf bytes.Buffer
	src := `{{ i }}/{{ f }}/{% if i == f %}equal{% else %}different{% endif %}/{% if (1000000 b-or 0) == 1000000 %}equal{% else %}different{% endif %}`
	if err := env.Execute(src, &buf, map[string]stick.Value{"i": int(1000000), "f": float64(1000000)}); err != nil {
		t.Fatal(err)
	}
	if want := "1000000/1000000/equal/equal"; buf.String() != want {
		t.Errorf("template %q with i=int(1000000), f=float64(1000000): expected %q, observed %q", src, want, buf.String())
	}
}

// ---------------------------------------------------------------------------
// 2. uintptr is a built-in Go integer type, but it has no arm in any of the
// three type switches.
func TestC15_UintptrIsNotCoerced(t *testing.T) {
	s, n, b, p := c15coerceAll(uintptr(5))
	if p != nil {
		t.Fatalf("panic: %v", p)
	}
	ws, wn, wb, _ := c15coerceAll(uint64(5))
	if s != ws || n != wn || b != wb {
		t.Errorf("uintptr(5): expected the same as uint64(5) = (%q, %v, %v), observed (%q, %v, %v)", ws, wn, wb, s, n, b)
	}
	env := stick.New(nil)
	var buf bytes.Buffer
	src := `{{ u }}|{{ u + 1 }}|{% if u %}T{% else %}F{% endif %}`
	if err := env.Execute(src, &buf, map[string]stick.Value{"u": uintptr(5)}); err != nil {
		t.Fatal(err)
	}
	if want := "5|6|T"; buf.String() != want {
		t.Errorf("template %q with u=uintptr(5): expected %q, observed %q", src, want, buf.String())
	}
}

// ---------------------------------------------------------------------------
// 3. Defined types whose kind is numeric (string, bool) only match the type
// switch by exact type, so they fall to the "unsupported" fallback although
// their kind is supported. time.Duration (kind int64, has String) becomes
// "5ns"/0/true: the number it carries is lost.
type c15Celsius float64
type c15ID int64
type c15Name string
type c15Flag bool

func TestC15_DefinedNumericTypesFallBack(t *testing.T) {
	cases := []struct {
		name string
		v    stick.Value
		like stick.Value
	}{
		{"c15ID(5) [type c15ID int64]", c15ID(5), int64(5)},
		{"c15Celsius(5) [type c15Celsius float64]", c15Celsius(5), float64(5)},
		{"c15Name(\"5\") [type c15Name string]", c15Name("5"), "5"},
		{"c15Flag(true) [type c15Flag bool]", c15Flag(true), true},
	}
	for _, c := range cases {
		s, n, b, p := c15coerceAll(c.v)
		if p != nil {
			t.Errorf("%s: panic %v", c.name, p)
			continue
		}
		ws, wn, wb, _ := c15coerceAll(c.like)
		if s != ws || n != wn || b != wb {
			t.Errorf("%s: expected the same as %T(%v) = (%q, %v, %v), observed (%q, %v, %v)", c.name, c.like, c.like, ws, wn, wb, s, n, b)
		}
	}
	// time.Duration is a Go numeric type (int64) carrying the integral number 5.
	if n := stick.CoerceNumber(time.Duration(5)); n != 5 {
		t.Errorf("CoerceNumber(time.Duration(5)): expected 5 (same as int64(5)), observed %v (string coercion is %q)", n, stick.CoerceString(time.Duration(5)))
	}
}

// ---------------------------------------------------------------------------
// 4. A typed nil pointer whose type implements SafeValue with value receivers
// panics in all three coercions: the SafeValue arm calls vc.Value() without
// the isNilPointer guard the Stringer/Number/Boolean arms have.
type c15Safe struct{ v stick.Value }

func (s c15Safe) Value() stick.Value { return s.v }
func (s c15Safe) IsSafe(string) bool { return true }
func (s c15Safe) SafeFor() []string  { return []string{"html"} }

var _ stick.SafeValue = (*c15Safe)(nil)

func TestC15_TypedNilSafeValuePointerPanics(t *testing.T) {
	s, n, b, p := c15coerceAll((*c15Safe)(nil))
	if p != nil {
		t.Errorf("Coerce*((*c15Safe)(nil)): expected no panic and ('', 0, false), observed panic: %v", p)
	} else if s != "" || n != 0 || b {
		t.Errorf("Coerce*((*c15Safe)(nil)): expected ('', 0, false), observed (%q, %v, %v)", s, n, b)
	}
	// Same through a template.
	func() {
		defer func() {
			if r := recover(); r != nil {
				t.Errorf("Execute(`{{ v }}`, v=(*c15Safe)(nil)): expected no panic, observed panic: %v", r)
			}
		}()
		var buf bytes.Buffer
		_ = stick.New(nil).Execute(`{{ v }}`, &buf, map[string]stick.Value{"v": (*c15Safe)(nil)})
	}()
}

// ---------------------------------------------------------------------------
// 5. A struct (or non-nil pointer to one) that gets its String method from an
// embedded interface / embedded pointer which is nil: the coercions call the
// promoted method and panic with a nil dereference. isNilPointer only looks at
// the outermost value.
type c15Embeds struct{ fmt.Stringer }

type c15Inner struct{ s string }

func (i c15Inner) String() string { return i.s }

type c15EmbedsPtr struct{ *c15Inner }

func TestC15_StructWithNilEmbeddedStringerPanics(t *testing.T) {
	for _, c := range []struct {
		name string
		v    stick.Value
	}{
		{"struct{ fmt.Stringer }{} (nil embedded interface)", c15Embeds{}},
		{"&struct{ fmt.Stringer }{}", &c15Embeds{}},
		{"struct{ *c15Inner }{} (nil embedded pointer, value-receiver String)", c15EmbedsPtr{}},
	} {
		s, n, b, p := c15coerceAll(c.v)
		if p != nil {
			t.Errorf("Coerce*(%s): expected no panic and the fallback ('', 0, false), observed panic: %v", c.name, p)
		} else if s != "" || n != 0 || b {
			t.Errorf("Coerce*(%s): expected ('', 0, false), observed (%q, %v, %v)", c.name, s, n, b)
		}
	}
}

// ---------------------------------------------------------------------------
// 6. Safe-value wrappers are unwrapped by recursion, one Go stack frame per
// level, so a deep enough (finite) nesting of user-defined SafeValue wrappers
// kills the process with "fatal error: stack overflow" (not recoverable).
// Run in a child process so the test binary survives.
type c15Wrap struct{ v stick.Value }

func (w *c15Wrap) Value() stick.Value { return w.v }
func (w *c15Wrap) IsSafe(string) bool { return true }
func (w *c15Wrap) SafeFor() []string  { return nil }

func TestC15_DeeplyNestedSafeValueOverflowsStack(t *testing.T) {
	const depth = 10000000
	if os.Getenv("C15_DEEP_CHILD") == "1" {
		var v stick.Value = 5
		for i := 0; i < depth; i++ {
			v = &c15Wrap{v}
		}
		fmt.Printf("RESULT %q %v %v\n", stick.CoerceString(v), stick.CoerceNumber(v), stick.CoerceBool(v))
		return
	}
	cmd := exec.Command(os.Args[0], "-test.run", "^TestC15_DeeplyNestedSafeValueOverflowsStack$")
	cmd.Env = append(os.Environ(), "C15_DEEP_CHILD=1")
	out, err := cmd.CombinedOutput()
	text := string(out)
	if len(text) > 300 {
		text = text[:300] + "..."
	}
	if err != nil || !strings.Contains(string(out), `RESULT "5" 5 true`) {
		t.Errorf("coercing the int 5 under %d nested SafeValue wrappers: expected (\"5\", 5, true) exactly like the value inside, observed child process failure: %v\n%s", depth, err, text)
	}
}
