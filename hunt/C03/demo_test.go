// Demonstrations for property C03 (literal text, comments and verbatim
// sections are rendered faithfully).
//
// Placement: copy this file into the ROOT of the stick repository; it is an
// external test of the root package (package stick_test) and also imports the
// twig sub-package.  Run with
//
//	GOFLAGS=-mod=mod GOPROXY=off GOSUMDB=off GOTOOLCHAIN=local go test -run 'TestC03_' .
//
// Every test FAILS on the unmodified library.  A test passes when the library
// either renders the literal text faithfully or refuses the template with an
// error (an error is not a silent fidelity violation).
package stick_test

import (
	"bytes"
	"os"
	"os/exec"
	"strings"
	"testing"

	"github.com/tyler-sommer/stick"
	"github.com/tyler-sommer/stick/twig"
)

func c03render(env *stick.Env, name string) (string, error) {
	var b bytes.Buffer
	err := env.Execute(name, &b, map[string]stick.Value{})
	return b.String(), err
}

// Finding 1: in the Twig environment the literal text of a macro body, of a
// {% set %}...{% endset %} body and of a block rendered through parent() /
// block() is HTML-escaped on its way out, so "<b>" in the template source is
// emitted as "&lt;b&gt;".
func TestC03_TwigEnvEscapesLiteralTextOfMacroSetAndBlockCaptures(t *testing.T) {
	cases := []struct{ name, src, want string }{
		{"macro body", `{% macro m() %}<b>&</b>{% endmacro %}[{{ _self.m() }}]`, `[<b>&</b>]`},
		{"set body", `{% set x %}<i>"q"</i>{% endset %}[{{ x }}]`, `[<i>"q"</i>]`},
		{"block() of own block", `{% block a %}<p>{% endblock %}[{{ block('a') }}]`, `<p>[<p>]`},
	}
	for _, c := range cases {
		got, err := c03render(twig.New(nil), c.src)
		if err != nil {
			t.Errorf("%s: template %q: unexpected error %v", c.name, c.src, err)
			continue
		}
		if got != c.want {
			t.Errorf("%s (twig.New, StringLoader)\n template: %q\n expected: %q\n observed: %q", c.name, c.src, c.want, got)
		}
	}
	// Same thing through inheritance: parent() re-emits the literal text of the parent block.
	env := twig.New(&stick.MemoryLoader{Templates: map[string]string{
		"base.html":  `{% block a %}<hr>{% endblock %}`,
		"child.html": `{% extends "base.html" %}{% block a %}<div>{{ parent() }}</div>{% endblock %}`,
	}})
	got, err := c03render(env, "child.html")
	if want := `<div><hr></div>`; err != nil || got != want {
		t.Errorf("parent() (twig.New, MemoryLoader)\n expected: %q\n observed: %q (err %v)", want, got, err)
	}
}

// Finding 2: two blocks with the same name in one template are accepted; the
// text of the first is never emitted and the text of the second is emitted in
// both places (even from the branch of an if that is not taken).
func TestC03_DuplicateBlockNameEmitsSecondBodyTwice(t *testing.T) {
	cases := []struct{ src, want string }{
		{`{% block a %}1{% endblock %}-{% block a %}2{% endblock %}`, `1-2`},
		{`{% if true %}{% block x %}YES{% endblock %}{% else %}{% block x %}NO{% endblock %}{% endif %}`, `YES`},
	}
	for _, c := range cases {
		got, err := c03render(stick.New(nil), c.src)
		if err != nil {
			continue // rejecting the template (as PHP Twig does) is fine
		}
		if got != c.want {
			t.Errorf("stick.New(nil).Execute\n template: %q\n expected: %q (or an error)\n observed: %q", c.src, c.want, got)
		}
	}
}

// Finding 3: in a template that does not extend anything, {% use %} makes the
// blocks of the used template take precedence over the template's OWN blocks,
// so the literal text of the template's own block body is replaced.
func TestC03_UseOverridesTheTemplatesOwnBlock(t *testing.T) {
	env := stick.New(&stick.MemoryLoader{Templates: map[string]string{
		"blocks": `{% block a %}USED-A{% endblock %}{% block b %}USED-B{% endblock %}`,
		"main":   `{% use "blocks" %}[{% block a %}MAIN-A{% endblock %}]`,
	}})
	got, err := c03render(env, "main")
	if err != nil {
		t.Fatalf("unexpected error: %v", err)
	}
	if want := `[MAIN-A]`; got != want {
		t.Errorf("template main = %q (blocks = %q)\n expected: %q\n observed: %q",
			`{% use "blocks" %}[{% block a %}MAIN-A{% endblock %}]`, `{% block a %}USED-A{% endblock %}...`, want, got)
	}
}

// Finding 4: a block inside the body of an imported macro is resolved against
// the CALLING template's block table: the literal text of the block in the
// macro is replaced by the caller's block of the same name (or the call fails
// with "Unable to locate block" when the caller has none).
func TestC03_BlockInsideImportedMacroRendersCallersBlock(t *testing.T) {
	env := stick.New(&stick.MemoryLoader{Templates: map[string]string{
		"macros": `{% macro f() %}<{% block a %}MACRO-A{% endblock %}>{% endmacro %}`,
		"main":   `{% import "macros" as m %}{% block a %}MAIN-A{% endblock %}|{{ m.f() }}`,
	}})
	got, err := c03render(env, "main")
	if err != nil {
		return // refusing is not a silent violation
	}
	if want := `MAIN-A|<MACRO-A>`; got != want {
		t.Errorf("macros = %q\n main   = %q\n expected: %q\n observed: %q",
			`{% macro f() %}<{% block a %}MACRO-A{% endblock %}>{% endmacro %}`,
			`{% import "macros" as m %}{% block a %}MAIN-A{% endblock %}|{{ m.f() }}`, want, got)
	}
}

// Finding 5: an {% extends %} tag anywhere in the source - here inside the body
// of a macro that is never called - turns the whole template into a child
// template: all of its top-level literal text is silently discarded and the
// "parent" is rendered instead.
func TestC03_ExtendsInsideUncalledMacroDiscardsAllText(t *testing.T) {
	env := stick.New(&stick.MemoryLoader{Templates: map[string]string{
		"other": `OTHER`,
		"main":  `hello {% macro q() %}{% extends "other" %}{% endmacro %}world`,
	}})
	got, err := c03render(env, "main")
	if err != nil {
		return // PHP Twig rejects this template; an error would be fine
	}
	if want := `hello world`; got != want {
		t.Errorf("template: %q\n expected: %q (or an error)\n observed: %q",
			`hello {% macro q() %}{% extends "other" %}{% endmacro %}world`, want, got)
	}
}

// Finding 6: "at every nesting depth" - a template of 700000 nested
// {% if 1 %}a ... b{% endif %} (about 15 MB, every level contributes literal
// text) kills the whole process with an unrecoverable "fatal error: stack
// overflow" instead of rendering or returning an error.  Because the crash
// cannot be recovered it is reproduced in a child process.
// Needs ~2 GB of memory and ~20 s; skipped with -short.
func TestC03_DeepNestingCrashesTheProcess(t *testing.T) {
	const n = 700000
	if os.Getenv("C03_DEEP_CHILD") == "1" {
		src := strings.Repeat("{% if 1 %}a", n) + "X" + strings.Repeat("b{% endif %}", n)
		want := strings.Repeat("a", n) + "X" + strings.Repeat("b", n)
		var b bytes.Buffer
		err := stick.New(nil).Execute(src, &b, nil)
		if err != nil {
			os.Stdout.WriteString("C03-CHILD-ERROR\n") // a clean error is acceptable
			return
		}
		if b.String() == want {
			os.Stdout.WriteString("C03-CHILD-OK\n")
		} else {
			os.Stdout.WriteString("C03-CHILD-WRONG\n")
		}
		return
	}
	if testing.Short() {
		t.Skip("needs ~2 GB and ~20 s")
	}
	cmd := exec.Command(os.Args[0], "-test.run=^TestC03_DeepNestingCrashesTheProcess$")
	cmd.Env = append(os.Environ(), "C03_DEEP_CHILD=1")
	out, err := cmd.CombinedOutput()
	s := string(out)
	if strings.Contains(s, "C03-CHILD-OK") || strings.Contains(s, "C03-CHILD-ERROR") {
		return
	}
	if len(s) > 300 {
		s = s[:300]
	}
	t.Errorf("template: %d nested \"{%% if 1 %%}a\" ... \"b{%% endif %%}\"\n expected: the %d a's, X and %d b's (or an error)\n observed: child process died: %v\n%s", n, n, n, err, s)
}
