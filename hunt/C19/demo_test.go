// Place this file in the repository root (package stick_test) and run
//   go test -run TestC19 -v .
package stick_test

import (
	"io/ioutil"
	"os"
	"path/filepath"
	"runtime"
	"strings"
	"testing"
	"time"

	"github.com/tyler-sommer/stick"
	"github.com/tyler-sommer/stick/twig"
)

func c19Baseline() int {
	for i := 0; i < 100; i++ {
		runtime.Gosched()
	}
	time.Sleep(100 * time.Millisecond)
	return runtime.NumGoroutine()
}

func c19Short(s string) string {
	if len(s) > 100 {
		return s[:100] + "..."
	}
	return s
}

// c19WaitBase polls until the goroutine count is back to base or d has elapsed.
func c19WaitBase(base int, d time.Duration) (time.Duration, bool) {
	t0 := time.Now()
	for time.Since(t0) < d {
		if runtime.NumGoroutine() <= base {
			return time.Since(t0), true
		}
		time.Sleep(time.Millisecond)
	}
	return time.Since(t0), runtime.NumGoroutine() <= base
}

// TestC19_TokenizerGoroutineOutlivesFailedParse: Tree.Parse starts the tokenizer
// with "go t.lex.tokenize()" and, on a syntax error, only closes lex.done and
// returns; it never waits for the tokenizer to exit. The tokenizer then keeps
// tokenizing the whole unread rest of the source (dropping the tokens) before
// it exits. So after Parse/Execute HAVE RETURNED with a syntax error the
// library still holds a running goroutine (and the template source) for a time
// proportional to the unread input: seconds for a source of a few MB, and a
// sequence of N such calls leaves N goroutines behind at the moment it returns.
func TestC19_TokenizerGoroutineOutlivesFailedParse(t *testing.T) {
	const grace = 500 * time.Millisecond // generous settling time after the calls returned

	// A syntax error at position 0 ("{{ }}": empty print), followed by a long,
	// perfectly ordinary expression.
	src := "{{ }}{{ " + strings.Repeat("a ", 2<<20) + "}}"

	dir := t.TempDir()
	if err := ioutil.WriteFile(filepath.Join(dir, "big.twig"), []byte(src), 0644); err != nil {
		t.Fatal(err)
	}
	if _, err := os.Stat(filepath.Join(dir, "big.twig")); err != nil {
		t.Fatal(err)
	}

	cases := []struct {
		name string
		env  *stick.Env
		tpl  string
		exec bool
	}{
		{"MemoryLoader/stick.New/Parse", stick.New(&stick.MemoryLoader{Templates: map[string]string{"big": src}}), "big", false},
		{"StringLoader/twig.New/Execute", twig.New(nil), src, true},
		{"FilesystemLoader/stick.New/ExecuteSafe", stick.New(stick.NewFilesystemLoader(dir)), "big.twig", true},
	}
	for _, c := range cases {
		base := c19Baseline()
		var err error
		if c.exec {
			err = c.env.ExecuteSafe(c.tpl, ioutil.Discard, map[string]stick.Value{"a": 1})
		} else {
			_, err = c.env.Parse(c.tpl)
		}
		right := runtime.NumGoroutine()
		if err == nil {
			t.Fatalf("%s: expected a syntax error", c.name)
		}
		_, okGrace := c19WaitBase(base, grace)
		atGrace := runtime.NumGoroutine()
		more, okEver := c19WaitBase(base, 120*time.Second)
		if !okGrace {
			t.Errorf("%s: input: %d-byte template starting with the syntax error %q (call returned: %v)\n"+
				"  expected: goroutine count back to %d once the call has returned\n"+
				"  observed: %d right after the return, still %d after a %v grace period; the tokenizer goroutine went on for another %v (finished eventually: %v)",
				c.name, len(src), "{{ }}", c19Short(err.Error()), base, right, atGrace, grace, more, okEver)
		}
	}

	// A sequence of failing calls: the goroutines pile up, one per call.
	small := "{{ }}{{ " + strings.Repeat("a ", 1<<19) + "}}"
	env := stick.New(&stick.MemoryLoader{Templates: map[string]string{"t": small}})
	base := c19Baseline()
	const n = 12
	for i := 0; i < n; i++ {
		if err := env.Execute("t", ioutil.Discard, nil); err == nil {
			t.Fatal("expected a syntax error")
		}
	}
	right := runtime.NumGoroutine()
	_, okGrace := c19WaitBase(base, grace)
	atGrace := runtime.NumGoroutine()
	more, _ := c19WaitBase(base, 120*time.Second)
	if !okGrace {
		t.Errorf("sequence of %d failing Execute calls on a %d-byte template:\n"+
			"  expected: goroutine count back to %d after the sequence returned\n"+
			"  observed: %d right after the sequence, %d after a %v grace period, baseline reached only %v later",
			n, len(small), base, right, atGrace, grace, more)
	}
}
