// Demonstrations for property C12 (auto-escaping in a Twig environment).
//
// Placement: copy this file into the twig/ directory of the repository
// (github.com/tyler-sommer/stick/twig); it is an external test package
// (package twig_test). Run with:
//
//	go test ./twig/ -run TestC12 -v
//
// Every test FAILS on the unmodified library when the violation is present.
package twig_test

import (
	"bytes"
	"strings"
	"testing"

	"github.com/tyler-sommer/stick"
	"github.com/tyler-sommer/stick/twig"
	"github.com/tyler-sommer/stick/twig/escape"
)

// c12run executes the template called name in a fresh Twig environment. With
// tpls == nil the environment uses the default StringLoader (inline sources).
func c12run(tpls map[string]string, name string, ctx map[string]stick.Value) (string, error) {
	var l stick.Loader
	if tpls != nil {
		l = &stick.MemoryLoader{Templates: tpls}
	}
	env := twig.New(l)
	var b bytes.Buffer
	err := env.Execute(name, &b, ctx)
	return b.String(), err
}

// Finding 1: the escape filter hands the value back untouched when it does not
// know the strategy, and the auto-escaper skips every print whose outermost
// filter is called "escape": the value reaches the output completely unescaped.
func TestC12_EscapeUnknownStrategyLeaksRaw(t *testing.T) {
	const v = `<script>alert("x&y")</script>`
	for _, src := range []string{
		`{{ v|escape('bogus') }}`, // e.g. a typo such as 'htm' or 'HTML'
		`{{ v|escape('HTML') }}`,
		`{{ v|escape('') }}`,
		`{{ v|escape(null) }}`,
		`{{ v|escape('txt') }}`, // inline template: content type is html, not txt
	} {
		out, err := c12run(nil, src, map[string]stick.Value{"v": v})
		if err != nil {
			continue // refusing the unknown strategy would be fine
		}
		if strings.ContainsAny(out, `<>"`) {
			t.Errorf("inline template %q, v=%q (html content type)\n expected: v escaped for html (%q) or an error\n observed: %q",
				src, v, escape.HTML(v), out)
		}
	}
}

// Finding 2: an inline source (StringLoader: the name IS the source) whose last
// '.'-separated piece happens to be "txt" (or "txt.twig") is taken for a plain
// text template and nothing in it is escaped; one ending in ".js"/".css" is
// escaped for JS/CSS instead of html.
func TestC12_InlineSourceEndingInTxtNotEscaped(t *testing.T) {
	const a = `<img src=x onerror=alert(1)>`
	for _, c := range []struct{ src, want string }{
		{`<p>{{ a }}</p> see notes.txt`, `<p>` + escape.HTML(a) + `</p> see notes.txt`},
		{`{{ a }}.txt`, escape.HTML(a) + `.txt`},
		{`<p>{{ a }}</p> rename it to page.txt.twig`, `<p>` + escape.HTML(a) + `</p> rename it to page.txt.twig`},
		{`<p>{{ a }}</p> <script src="app.js`, `<p>` + escape.HTML(a) + `</p> <script src="app.js`},
	} {
		out, err := c12run(nil, c.src, map[string]stick.Value{"a": a})
		if err != nil {
			t.Errorf("%q: unexpected error %v", c.src, err)
			continue
		}
		if out != c.want {
			t.Errorf("inline template %q, a=%q\n expected (html escaping for inline templates): %q\n observed: %q", c.src, a, c.want, out)
		}
	}
}

// Finding 3: a print whose outermost filter is an explicit escape is exempted
// from auto-escaping whatever strategy that filter names. The value is then not
// escaped for the template's own content type, and a value marked safe for
// ANOTHER content type passes through raw.
func TestC12_ExplicitEscapeOtherStrategyBypassesTemplateType(t *testing.T) {
	// (a) html template, value marked safe for js only, explicit escape('js').
	const raw = `<script>alert(1)</script>`
	sjs := stick.NewSafeValue(raw, "js")
	out, err := c12run(nil, `<p>{{ s|escape('js') }}</p>`, map[string]stick.Value{"s": sjs})
	if err != nil {
		t.Fatalf("unexpected error %v", err)
	}
	if strings.Contains(out, "<script>") {
		t.Errorf("inline (html) template `<p>{{ s|escape('js') }}</p>`, s=NewSafeValue(%q, \"js\")\n expected: s escaped for html (it is only marked safe for js; `{{ s }}` gives %q)\n observed: %q",
			raw, "<p>"+escape.HTML(raw)+"</p>", out)
	}

	// (b) js template, explicit |escape (default strategy html): the value is
	// html-escaped only, a backslash / newline / quote-entity reaches the JS
	// string literal unescaped for JS.
	const v = "\\"
	tpls := map[string]string{"x.js": `var s='{{ v|escape }}';`}
	out, err = c12run(tpls, "x.js", map[string]stick.Value{"v": v})
	if err != nil {
		t.Fatalf("unexpected error %v", err)
	}
	ok1 := `var s='` + escape.JS(v) + `';`
	ok2 := `var s='` + escape.JS(escape.HTML(v)) + `';`
	if out != ok1 && out != ok2 {
		t.Errorf("template x.js = %q, v=%q\n expected: v escaped for js, %q\n observed: %q (the backslash swallows the closing quote)",
			tpls["x.js"], v, ok1, out)
	}

	// (c) js template, value marked safe for html only, explicit |escape.
	shtml := stick.NewSafeValue(`';alert(1);//`, "html")
	tpls = map[string]string{"y.js": `var s='{{ h|escape }}';`}
	out, err = c12run(tpls, "y.js", map[string]stick.Value{"h": shtml})
	if err != nil {
		t.Fatalf("unexpected error %v", err)
	}
	if strings.Contains(out, `';alert(1);//`) {
		t.Errorf("template y.js = %q, h=NewSafeValue(%q, \"html\")\n expected: h escaped for js (it is marked safe for html, not js): %q\n observed: %q",
			tpls["y.js"], `';alert(1);//`, `var s='`+escape.JS(`';alert(1);//`)+`';`, out)
	}
}

// Finding 4: output that is captured at run time (set ... endset, macro calls,
// parent(), block(), filter sections) comes back as a plain string; printing it
// (or running the escape filter of a filter section over it) escapes the values
// printed inside a second time.
func TestC12_CapturedOutputEscapedTwice(t *testing.T) {
	const a = `<a>`
	want := escape.HTML(a)
	tpls := map[string]string{
		"capture.html":   `{% set x %}{{ a }}{% endset %}{{ x }}`,
		"macro.html":     `{% macro m(p) %}{{ p }}{% endmacro %}{{ _self.m(a) }}`,
		"base.html":      `{% block c %}{{ a }}{% endblock %}`,
		"child.html":     `{% extends 'base.html' %}{% block c %}{{ parent() }}{% endblock %}`,
		"blockfn.html":   `{% set discard %}{% block c %}{{ a }}{% endblock %}{% endset %}{{ block('c') }}`,
		"filtersec.html": `{% filter escape %}{{ a }}{% endfilter %}`,
	}
	for _, name := range []string{"capture.html", "macro.html", "child.html", "blockfn.html", "filtersec.html"} {
		out, err := c12run(tpls, name, map[string]stick.Value{"a": a})
		if err != nil {
			t.Errorf("%s: unexpected error %v", name, err)
			continue
		}
		if out != want {
			t.Errorf("template %s = %q (base.html = %q), a=%q\n expected: a escaped exactly once, %q\n observed: %q",
				name, tpls[name], tpls["base.html"], a, want, out)
		}
	}
}

// Finding 5: an explicit escape filter that is not the outermost node of the
// print (followed by another filter, a concatenation, an interpolation) causes
// double escaping: its result loses the "safe" mark and is escaped again.
func TestC12_ExplicitEscapeThenFilterOrConcatDoubleEscapes(t *testing.T) {
	const a = ` <a> `
	for _, c := range []struct{ src, want string }{
		{`{{ a|escape|trim }}`, strings.TrimSpace(escape.HTML(a))},
		{`{{ a|escape ~ '' }}`, escape.HTML(a)},
		{`{{ "#{a|escape}!" }}`, escape.HTML(a) + "!"},
		{`{% set x = a|escape %}{{ x|trim }}`, strings.TrimSpace(escape.HTML(a))},
	} {
		out, err := c12run(nil, c.src, map[string]stick.Value{"a": a})
		if err != nil {
			t.Errorf("%q: unexpected error %v", c.src, err)
			continue
		}
		if out != c.want {
			t.Errorf("inline template %q, a=%q\n expected (escaped once): %q\n observed: %q", c.src, a, c.want, out)
		}
	}
}
