// Demonstrations for property C02 ("execution is total: a parsed template
// renders or returns an error, never panics or hangs").
//
// Place this file in the repository root (package stick_test) and run
//
//	go test -run 'TestC02' -v .
//
// Every TestC02_* function FAILS on the unmodified library. Findings whose
// failure mode is a fatal runtime error (stack overflow, out of memory), which
// recover() cannot intercept, are executed in a child process: the test binary
// re-executes itself with C02_CHILD set, and the parent reports how the child
// ended.
package stick_test

import (
	"bytes"
	"context"
	"fmt"
	"net/url"
	"os"
	"os/exec"
	"runtime/debug"
	"strings"
	"syscall"
	"testing"
	"time"

	"github.com/tyler-sommer/stick"
	"github.com/tyler-sommer/stick/twig"
)

// ---------------------------------------------------------------------------
// helpers

// c02Exec runs env.Execute and converts a panic into a value.
func c02Exec(env *stick.Env, tpl string, ctx map[string]stick.Value) (out string, err error, panicked interface{}) {
	defer func() {
		if r := recover(); r != nil {
			panicked = r
		}
	}()
	var buf bytes.Buffer
	err = env.Execute(tpl, &buf, ctx)
	return buf.String(), err, nil
}

// c02Child re-executes the test binary so that only TestC02Child runs, with
// the scenario name in C02_CHILD. It returns the head of the combined output,
// the exit error and whether the timeout expired.
func c02Child(scenario string, timeout time.Duration) (string, error, bool) {
	ctx, cancel := context.WithTimeout(context.Background(), timeout)
	defer cancel()
	cmd := exec.CommandContext(ctx, os.Args[0], "-test.run=^TestC02Child$", "-test.v")
	cmd.Env = append(os.Environ(), "C02_CHILD="+scenario)
	out, err := cmd.CombinedOutput()
	s := string(out)
	// keep the interesting head only (a stack overflow dumps thousands of frames)
	lines := strings.Split(s, "\n")
	if len(lines) > 8 {
		lines = lines[:8]
	}
	return strings.Join(lines, "\n"), err, ctx.Err() == context.DeadlineExceeded
}

const (
	c02NestedBlockTpl = `{% block c %}x{% block c %}y{% endblock %}{% endblock %}`
	c02CyclicTpl      = `{{ m.nope }}`
	c02BatchTpl       = `{{ [1]|batch(1000000000000000000, 'x')|length }}`
	c02DeepN          = 1000000
)

// TestC02Child is the child-process side. It does nothing unless C02_CHILD is set.
// In every scenario, returning normally (with output or with an error) is the
// behaviour the property requires; the library instead kills the process.
func TestC02Child(t *testing.T) {
	scenario := os.Getenv("C02_CHILD")
	if scenario == "" {
		t.Skip("helper for the TestC02_* tests")
	}
	var buf bytes.Buffer
	var err error
	switch scenario {
	case "nested-block":
		// Infinite recursion: a smaller stack limit only makes the overflow come
		// sooner (with the default 1 GB limit it takes a few seconds).
		debug.SetMaxStack(64 << 20)
		err = stick.New(nil).Execute(c02NestedBlockTpl, &buf, nil)
	case "cyclic-map":
		debug.SetMaxStack(64 << 20)
		m := map[string]stick.Value{"a": 1}
		m["self"] = m
		err = stick.New(nil).Execute(c02CyclicTpl, &buf, map[string]stick.Value{"m": m})
	case "batch-fill":
		// Cap the address space so that the runaway allocation ends quickly
		// instead of eating the machine's memory.
		lim := syscall.Rlimit{Cur: 3 << 30, Max: 3 << 30}
		if e := syscall.Setrlimit(syscall.RLIMIT_AS, &lim); e != nil {
			t.Fatalf("setrlimit: %v", e)
		}
		err = twig.New(nil).Execute(c02BatchTpl, &buf, nil)
	case "deep-unary":
		// default stack limit (1 GB), unmodified
		tpl := "{{ " + strings.Repeat("-", c02DeepN) + "1 }}"
		err = stick.New(nil).Execute(tpl, &buf, nil)
	default:
		t.Fatalf("unknown scenario %q", scenario)
	}
	out := buf.String()
	if len(out) > 40 {
		out = out[:40] + "..."
	}
	fmt.Printf("C02CHILD-RETURNED err=%v out=%q\n", err, out)
}

// ---------------------------------------------------------------------------
// Finding 1: map lookup with a key that is comparable by type but unhashable at run time.

type c02Key struct{ V interface{} }

func TestC02_UnhashableKeyInsideStruct(t *testing.T) {
	for _, env := range []struct {
		name string
		env  *stick.Env
	}{{"core", stick.New(nil)}, {"twig", twig.New(nil)}} {
		for _, k := range []struct {
			desc string
			key  stick.Value
		}{
			{"struct{V interface{}}{V: []int{1}}", c02Key{V: []int{1}}},
			{"[1]interface{}{[]int{1}}", [1]interface{}{[]int{1}}},
		} {
			ctx := map[string]stick.Value{
				"m": map[interface{}]string{"a": "b"},
				"k": k.key,
			}
			tpl := `{{ m[k] }}`
			out, err, p := c02Exec(env.env, tpl, ctx)
			if p != nil {
				t.Errorf("%s env: template %q with m = map[interface{}]string{\"a\":\"b\"}, k = %s\n  expected: rendered output or an error\n  observed: panic: %v",
					env.name, tpl, k.desc, p)
			} else {
				t.Logf("%s env, k = %s: ok (out=%q err=%v)", env.name, k.desc, out, err)
			}
		}
	}
}

// ---------------------------------------------------------------------------
// Finding 2: a block nested in a block of the same name recurses without end (fatal stack overflow).

func TestC02_NestedSameNamedBlock(t *testing.T) {
	head, err, timedOut := c02Child("nested-block", 120*time.Second)
	if err != nil || timedOut || !strings.Contains(head, "C02CHILD-RETURNED") {
		t.Fatalf("stick.New(nil).Execute(%q, buf, nil)\n  expected: rendered output (e.g. \"xy\") or an error\n  observed: the process executing it died (exit: %v, timed out: %v); head of its output:\n%s",
			c02NestedBlockTpl, err, timedOut, head)
	}
	t.Logf("child returned normally:\n%s", head)
}

// ---------------------------------------------------------------------------
// Finding 3: methods promoted through a nil embedded pointer / interface.

type c02Page struct {
	*url.URL // nil: promotes (*url.URL).String, so c02Page satisfies fmt.Stringer
	Title    string
}

type c02Stamp struct {
	*time.Time // nil: promotes the value-receiver method time.Time.String
}

type c02Wrap struct {
	fmt.Stringer // nil interface: promotes String
}

type c02Inner struct{ N int }

func (c c02Inner) Label() string { return "label" }

type c02Outer struct{ *c02Inner } // nil: promotes Label (a value-receiver method)

func TestC02_NilEmbeddedPromotedMethod(t *testing.T) {
	cases := []struct {
		tpl  string
		desc string
		val  stick.Value
	}{
		{`{% if p %}yes{% else %}no{% endif %}`, "struct{ *url.URL; Title string }{Title: \"t\"} (CoerceBool)", c02Page{Title: "t"}},
		{`{{ p }}`, "struct{ *time.Time }{} (CoerceString)", c02Stamp{}},
		{`{{ p == 'x' }}`, "struct{ fmt.Stringer }{} (Equal -> CoerceString)", c02Wrap{}},
		{`{{ p.Label }}`, "struct{ *c02Inner }{} where c02Inner has a value method Label (GetAttr)", c02Outer{}},
		{`{{ p.N }}`, "struct{ *c02Inner }{} field N (control: handled by fieldByIndex)", c02Outer{}},
	}
	for _, c := range cases {
		out, err, p := c02Exec(stick.New(nil), c.tpl, map[string]stick.Value{"p": c.val})
		if p != nil {
			t.Errorf("template %q with p = %s\n  expected: rendered output or an error\n  observed: panic: %v", c.tpl, c.desc, p)
		} else {
			t.Logf("template %q with p = %s: ok (out=%q err=%v)", c.tpl, c.desc, out, err)
		}
	}
}

// ---------------------------------------------------------------------------
// Finding 4: batch filter with a very large size and a fill value never finishes (allocates until the process dies).

func TestC02_BatchHugeSizeWithFill(t *testing.T) {
	head, err, timedOut := c02Child("batch-fill", 90*time.Second)
	if err != nil || timedOut || !strings.Contains(head, "C02CHILD-RETURNED") {
		t.Fatalf("twig.New(nil).Execute(%q, buf, nil)\n  expected: termination with output or an error (the \"..\" operator, for comparison, refuses oversized ranges with an error)\n  observed: the process executing it (address space capped at 3 GB) died or hung (exit: %v, timed out after 90s: %v); head of its output:\n%s",
			c02BatchTpl, err, timedOut, head)
	}
	t.Logf("child returned normally:\n%s", head)
}

// ---------------------------------------------------------------------------
// Finding 5: failed attribute lookup on a self-referential map: the error message is built with %v and recurses without end.

func TestC02_SelfReferentialMapInErrorMessage(t *testing.T) {
	head, err, timedOut := c02Child("cyclic-map", 120*time.Second)
	if err != nil || timedOut || !strings.Contains(head, "C02CHILD-RETURNED") {
		t.Fatalf("m := map[string]stick.Value{\"a\": 1}; m[\"self\"] = m; stick.New(nil).Execute(%q, buf, {\"m\": m})\n  expected: an error such as `unable to locate attribute \"nope\"`\n  observed: the process executing it died (exit: %v, timed out: %v); head of its output:\n%s",
			c02CyclicTpl, err, timedOut, head)
	}
	t.Logf("child returned normally:\n%s", head)
}

// ---------------------------------------------------------------------------
// Finding 6: deep (but finite, non-recursive) expression nesting overflows the goroutine stack.

func TestC02_DeepExpressionNesting(t *testing.T) {
	head, err, timedOut := c02Child("deep-unary", 180*time.Second)
	if err != nil || timedOut || !strings.Contains(head, "C02CHILD-RETURNED") {
		t.Fatalf("stick.New(nil).Execute(\"{{ \" + strings.Repeat(\"-\", %d) + \"1 }}\", buf, nil)   (a 1 MB template; 600000 levels still render \"1\")\n  expected: rendered output \"1\" or an error\n  observed: the process executing it died (exit: %v, timed out: %v); head of its output:\n%s",
			c02DeepN, err, timedOut, head)
	}
	t.Logf("child returned normally:\n%s", head)
}
