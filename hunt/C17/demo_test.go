// Demo tests for property C17 ("failures are reported, never swallowed, and safe
// execution is all-or-nothing").
//
// Placement: the repository root of github.com/tyler-sommer/stick, as an external
// test package (package stick_test), e.g. /tmp/hunt1/C17/c17_demo_test.go.
// Run with:  go test -run 'TestC17_' -v .
//
// Every test FAILS on the unmodified library (that is the violation being shown).
package stick_test

import (
	"bytes"
	"fmt"
	"os"
	"os/exec"
	"runtime/debug"
	"strings"
	"testing"
	"time"

	"github.com/tyler-sommer/stick"
	"github.com/tyler-sommer/stick/twig"
)

type c17Person struct{ Name string }

// Greet takes exactly one argument.
func (p *c17Person) Greet(greeting string) string { return greeting + " " + p.Name }

// Pair returns two values, which GetAttr rejects with an error.
func (p *c17Person) Pair() (string, error) { return "", fmt.Errorf("pair failed") }

func c17Exec(env *stick.Env, tpl string, ctx map[string]stick.Value) (string, error) {
	var b bytes.Buffer
	err := env.Execute(tpl, &b, ctx)
	return b.String(), err
}

func c17Safe(env *stick.Env, tpl string, ctx map[string]stick.Value) (string, error) {
	var b bytes.Buffer
	err := env.ExecuteSafe(tpl, &b, ctx)
	return b.String(), err
}

// Finding 1: evalExpr builds an error for an undefined variable and for every
// failure of GetAttr (missing attribute, attribute of null, wrong number of
// method arguments, unsupported method signature, ...), stores it in the named
// result e and then leaves through "return v, nil", which discards it.
func TestC17_EvalExprDiscardsItsOwnErrors(t *testing.T) {
	cases := []struct{ what, tpl string }{
		{"undefined variable", `before[{{ nope }}]after`},
		{"attribute of null", `before[{{ null.a }}]after`},
		{"index out of range", `before[{{ list[5] }}]after`},
		{"missing attribute on a struct", `before[{{ p.Missing }}]after`},
		{"method called with the wrong number of arguments", `before[{{ p.Greet() }}]after`},
		{"method with an unsupported signature", `before[{{ p.Pair() }}]after`},
		{"undefined variable in a do tag", `before[{% do nope %}]after`},
		{"undefined variable as loop subject", `before[{% for i in nope %}x{% endfor %}]after`},
	}
	for en, env := range map[string]*stick.Env{"stick.New": stick.New(nil), "twig.New": twig.New(nil)} {
		for _, c := range cases {
			ctx := map[string]stick.Value{"p": &c17Person{"Ann"}, "list": []int{1}}
			out, err := c17Exec(env, c.tpl, ctx)
			sout, serr := c17Safe(env, c.tpl, ctx)
			if err == nil || serr == nil || sout != "" {
				t.Errorf("%s: %s: template %q\n  expected: Execute returns a non-nil error (the library itself creates one in evalExpr/GetAttr); ExecuteSafe returns it too and writes nothing\n  observed: Execute err=%v output %q; ExecuteSafe err=%v output %q", en, c.what, c.tpl, err, out, serr, sout)
			}
		}
	}
}

// Finding 2: inside a double-quoted string with "#{", the tokenizer lexes on a
// copy of the input cut at the closing quote. When "}}" or "%}" appears inside
// the interpolation it falls back into lexData on that truncated input and emits
// EOF there. The body of {% embed %} skips every token that is not a tag, so the
// parser reaches that premature EOF in a consistent state, and the rest of the
// template - here text, a print statement and a tag that cannot be parsed at
// all - is dropped without any error.
func TestC17_RestOfTemplateSilentlyDropped(t *testing.T) {
	const tail = `REST{{ 1 + }}{% nosuchtag`
	tpl := `A{% embed 'base' %}{{ "#{ 1 }}{% endembed %}" }}` + tail
	for en, mk := range map[string]func(stick.Loader) *stick.Env{"stick.New": stick.New, "twig.New": twig.New} {
		env := mk(&stick.MemoryLoader{Templates: map[string]string{"base": "[base]", "main": tpl, "tail": tail}})
		if _, err := c17Exec(env, "tail", nil); err == nil {
			t.Fatalf("%s: control: %q alone should be a parse error", en, tail)
		}
		_, perr := env.Parse("main")
		out, err := c17Exec(env, "main", nil)
		sout, serr := c17Safe(env, "main", nil)
		if perr == nil || err == nil || serr == nil {
			t.Errorf("%s: template %q\n  expected: a parse error (it ends in %q, which on its own is rejected), or at least the text REST in the output\n  observed: Parse err=%v, Execute err=%v output %q, ExecuteSafe err=%v output %q",
				en, tpl, tail, perr, err, out, serr, sout)
		}
	}
}

// Finding 3: the Twig filters cannot return an error (stick.Filter has no error
// result) and swallow every failure: json.Marshal errors, Iterate errors, Len
// errors, unparsable dates, unknown escaping strategies. The sources say so:
// "TODO: Report error", "TODO: trigger runtime error", "TODO: Communicate error".
func TestC17_TwigFilterFailuresSwallowed(t *testing.T) {
	env := twig.New(nil)
	cases := []struct{ what, tpl string }{
		{"json.Marshal fails on +Inf (json: unsupported value)", `[{{ (1/0)|json_encode }}]`},
		{"json.Marshal fails on a func value", `[{{ fn|json_encode }}]`},
		{"date of something that is not a date", `[{{ 'yesterday'|date('Y') }}]`},
		{"batch of a non-iterable", `[{{ 5|batch(2) }}]`},
		{"merge with a non-iterable (Iterate error dropped)", `[{{ [1]|merge(5)|join(',') }}]`},
		{"length of a number (Len error dropped)", `[{{ 5|length }}]`},
		{"escape with an unknown strategy leaves the value unescaped", `[{{ '<b>'|escape('nosuchstrategy') }}]`},
	}
	for _, c := range cases {
		ctx := map[string]stick.Value{"fn": func() {}}
		out, err := c17Exec(env, c.tpl, ctx)
		if err == nil {
			t.Errorf("%s: template %q\n  expected: Execute returns a non-nil error\n  observed: err=nil, output %q", c.what, c.tpl, out)
		}
	}
}

// Finding 4: execute() uses the caller's context map itself as the outermost
// scope, so a top-level {% set %} is written into the map the caller passed.
// Execute followed by ExecuteSafe on the same (template, ctx) therefore does not
// give byte-identical output, and a failed ExecuteSafe is not "nothing": it has
// modified the caller's context.
func TestC17_ExecuteWritesIntoCallersContext(t *testing.T) {
	env := stick.New(nil)
	tpl := `[{{ greeting }}]{% set greeting = 'changed' %}`
	ctx := map[string]stick.Value{"greeting": "hello"}
	out, err := c17Exec(env, tpl, ctx)
	sout, serr := c17Safe(env, tpl, ctx)
	if err != nil || serr != nil || out != sout {
		t.Errorf("template %q, ctx {greeting: hello} passed to Execute and then to ExecuteSafe\n  expected: byte-identical output\n  observed: Execute %q (err=%v), ExecuteSafe %q (err=%v); ctx is now %v", tpl, out, err, sout, serr, ctx)
	}

	// All-or-nothing: a failing ExecuteSafe writes nothing to out, but leaves its
	// partial effects in the caller's map.
	ctx2 := map[string]stick.Value{"greeting": "hello"}
	failing := `{% set greeting = 'changed' %}{% set leaked = 1 %}{{ 1 % 0 }}`
	sout, serr = c17Safe(env, failing, ctx2)
	if serr == nil || sout != "" {
		t.Fatalf("control: %q should fail (modulo by zero) and write nothing: err=%v out=%q", failing, serr, sout)
	}
	if ctx2["greeting"] != "hello" || len(ctx2) != 1 {
		t.Errorf("template %q failed in ExecuteSafe (%v)\n  expected: no effect at all (all-or-nothing)\n  observed: caller's ctx is now %v", failing, serr, ctx2)
	}
}

// Finding 5: a hash is a Go map and Iterate walks it with reflect's MapRange in
// Go's randomised order. Two runs of the same template give different bytes, so
// ExecuteSafe's output is not byte-identical to Execute's (and the prefix written
// before a writer failure need not be a prefix of what another run writes).
func TestC17_ExecuteSafeNotIdenticalToExecute_MapOrder(t *testing.T) {
	env := stick.New(nil)
	tpl := `{% for k, v in {a: 1, b: 2, c: 3, d: 4, e: 5, f: 6} %}{{ k }}{{ v }} {% endfor %}`
	for i := 0; i < 200; i++ {
		out, err := c17Exec(env, tpl, nil)
		sout, serr := c17Safe(env, tpl, nil)
		if err != nil || serr != nil {
			t.Fatalf("unexpected error %v / %v", err, serr)
		}
		if out != sout {
			t.Fatalf("template %q (no context at all), attempt %d\n  expected: ExecuteSafe output byte-identical to Execute's\n  observed: Execute %q, ExecuteSafe %q", tpl, i+1, out, sout)
		}
	}
}

// Finding 6: nothing bounds the depth of include/extends/macro/block recursion
// (nor of expression nesting). A template that includes itself makes execute()
// recurse until the Go runtime aborts the whole process with "fatal error: stack
// overflow", which cannot be recovered: Execute/ExecuteSafe never return an
// error, and Execute has by then written an unbounded amount of output.
//
// The recursion is run in a child process. To keep it cheap the child lowers the
// runtime's stack limit from 1 GB to 64 MB (debug.SetMaxStack); with the default
// limit the outcome is the same, only later (or the OOM killer comes first).
func TestC17_SelfIncludeKillsTheProcess(t *testing.T) {
	if os.Getenv("C17_RECURSE_CHILD") == "1" {
		debug.SetMaxStack(64 << 20)
		env := stick.New(&stick.MemoryLoader{Templates: map[string]string{"loop": "x{% include 'loop' %}"}})
		var b bytes.Buffer
		err := env.ExecuteSafe("loop", &b, nil)
		fmt.Printf("RETURNED err=%v written=%d\n", err, b.Len())
		os.Exit(0)
	}
	cmd := exec.Command(os.Args[0], "-test.run=^TestC17_SelfIncludeKillsTheProcess$")
	cmd.Env = append(os.Environ(), "C17_RECURSE_CHILD=1")
	var outb bytes.Buffer
	cmd.Stdout = &outb
	cmd.Stderr = &outb
	done := make(chan error, 1)
	if err := cmd.Start(); err != nil {
		t.Skipf("cannot start child: %v", err)
	}
	go func() { done <- cmd.Wait() }()
	var werr error
	select {
	case werr = <-done:
	case <-time.After(5 * time.Minute):
		cmd.Process.Kill()
		t.Fatalf("template \"x{%% include 'loop' %%}\" named loop: ExecuteSafe neither returned nor crashed within 5 minutes")
	}
	o := outb.String()
	if strings.Contains(o, "RETURNED err=") && !strings.Contains(o, "RETURNED err=<nil>") && werr == nil {
		return // the library reported the runaway recursion as an error: fine
	}
	first := o
	if i := strings.Index(first, "\n\n"); i > 0 {
		first = first[:i]
	}
	if len(first) > 400 {
		first = first[:400]
	}
	t.Errorf("template \"x{%% include 'loop' %%}\" named loop (MemoryLoader), ExecuteSafe\n  expected: a non-nil error, nothing written\n  observed: the process died (%v):\n%s", werr, first)
}
