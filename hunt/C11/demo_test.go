// Demonstrations for property C11 (macros bind arguments by position and
// return their output as a value).
//
// Location: the repository root of github.com/tyler-sommer/stick, package
// stick_test (copy this file next to exec.go and run `go test -run TestC11 .`).
// Every test FAILS on the unmodified library.
package stick_test

import (
	"bytes"
	"fmt"
	"testing"

	"github.com/tyler-sommer/stick"
	"github.com/tyler-sommer/stick/twig"
)

// c11Render executes the named template from the given in-memory set, once in
// the core environment and once in the Twig environment, and returns both
// results formatted as `"output"` or `"output" ERR(err)`.
func c11Render(tpls map[string]string, name string, ctx map[string]stick.Value) (core, tw string) {
	do := func(env *stick.Env) string {
		var b bytes.Buffer
		// A fresh copy, the library writes into the map it is given.
		c := map[string]stick.Value{}
		for k, v := range ctx {
			c[k] = v
		}
		if err := env.Execute(name, &b, c); err != nil {
			return fmt.Sprintf("%q ERR(%v)", b.String(), err)
		}
		return fmt.Sprintf("%q", b.String())
	}
	return do(stick.New(&stick.MemoryLoader{Templates: tpls})), do(twig.New(&stick.MemoryLoader{Templates: tpls}))
}

func c11Check(t *testing.T, tpls map[string]string, name string, ctx map[string]stick.Value, want string) {
	t.Helper()
	core, tw := c11Render(tpls, name, ctx)
	w := fmt.Sprintf("%q", want)
	if core != w {
		t.Errorf("stick.New: template %q = %s\n  expected %s\n  observed %s", name, tpls[name], w, core)
	}
	if tw != w {
		t.Errorf("twig.New:  template %q = %s\n  expected %s\n  observed %s", name, tpls[name], w, tw)
	}
}

// Finding 1: a macro called through _self is only known once execution has
// walked past its definition; a call placed before the definition (macros at
// the bottom of the file) silently renders nothing, while the import alias and
// the from-import of the very same definition work.
func TestC11_SelfCallBeforeDefinition(t *testing.T) {
	def := `{% macro m(a, b) %}[{{ a }}|{{ b }}]{% endmacro %}`
	tpls := map[string]string{
		"lib":        def,
		"viaImport":  `{% import 'lib' as l %}{{ l.m(1, 2) }}`,
		"viaFrom":    `{% from 'lib' import m %}{{ m(1, 2) }}`,
		"selfAfter":  def + `{{ _self.m(1, 2) }}`,
		"selfBefore": `{{ _self.m(1, 2) }}` + def,
	}
	for _, n := range []string{"viaImport", "viaFrom", "selfAfter", "selfBefore"} {
		c11Check(t, tpls, n, nil, "[1|2]")
	}
}

// Finding 2: in a template that extends another one the macro definitions of
// the child are never registered (walkChild skips MacroNode), so _self.m() in a
// block of the child renders nothing - or, worse, silently runs a same-named
// macro of the PARENT template.
func TestC11_SelfCallInExtendingTemplate(t *testing.T) {
	def := `{% macro m(a, b) %}[{{ a }}|{{ b }}]{% endmacro %}`
	tpls := map[string]string{
		"lib":         def,
		"base":        `<{% block c %}{% endblock %}>`,
		"base2":       `{% macro m(a, b) %}PARENT{% endmacro %}<{% block c %}{% endblock %}>`,
		"childImport": `{% extends 'base' %}{% block c %}{% import 'lib' as l %}{{ l.m(1, 2) }}{% endblock %}`,
		"childFrom":   `{% extends 'base' %}{% block c %}{% from 'lib' import m %}{{ m(1, 2) }}{% endblock %}`,
		"childSelf":   `{% extends 'base' %}` + def + `{% block c %}{{ _self.m(1, 2) }}{% endblock %}`,
		"childSelf2":  `{% extends 'base2' %}` + def + `{% block c %}{{ _self.m(1, 2) }}{% endblock %}`,
	}
	for _, n := range []string{"childImport", "childFrom", "childSelf", "childSelf2"} {
		c11Check(t, tpls, n, nil, "<[1|2]>")
	}
}

// Finding 3: a from-imported macro that is named (or renamed to) "parent" or
// "block" cannot be called: evalFunction handles those two names as the
// built-in functions before it looks at the from-imported macros. The import
// alias form of the same macro works.
func TestC11_FromImportNamedParentOrBlock(t *testing.T) {
	tpls := map[string]string{
		"lib":         `{% macro parent() %}P{% endmacro %}{% macro block(x) %}B{{ x }}{% endmacro %}{% macro m(a) %}M{{ a }}{% endmacro %}`,
		"aliasParent": `{% import 'lib' as l %}{{ l.parent() }}`,
		"fromParent":  `{% from 'lib' import parent %}{{ parent() }}`,
		"aliasBlock":  `{% import 'lib' as l %}{{ l.block('z') }}`,
		"fromBlock":   `{% from 'lib' import block %}{{ block('z') }}`,
		"aliasM":      `{% import 'lib' as l %}{{ l.m('z') }}`,
		"renamedM":    `{% from 'lib' import m as block %}{{ block('z') }}`,
	}
	c11Check(t, tpls, "aliasParent", nil, "P")
	c11Check(t, tpls, "fromParent", nil, "P")
	c11Check(t, tpls, "aliasBlock", nil, "Bz")
	c11Check(t, tpls, "fromBlock", nil, "Bz")
	c11Check(t, tpls, "aliasM", nil, "Mz")
	c11Check(t, tpls, "renamedM", nil, "Mz")
}

// Finding 4: names assigned inside a macro body (set, or the alias of an import
// tag) are written to the OUTERMOST scope that already has the name
// (scopeStack.Set searches from the bottom of the stack), so a macro called
// from another macro rebinds the caller's PARAMETER: after the nested call the
// parameter is no longer bound to the argument it was called with.
func TestC11_NestedCallRebindsCallersParameter(t *testing.T) {
	inner := `{% macro inner() %}{% set t = 'I' %}{% endmacro %}`
	tpls := map[string]string{
		// all in one template, through _self
		"self": inner + `{% macro outer(t) %}{{ _self.inner() }}{{ t }}{% endmacro %}{{ _self.outer('x') }}`,
		// through an import alias
		"lib": inner +
			`{% macro outer(t) %}{% import 'lib' as me %}{{ me.inner() }}{{ t }}{% endmacro %}` +
			`{% macro outerFrom(t) %}{% from 'lib' import inner %}{{ inner() }}{{ t }}{% endmacro %}`,
		"alias": `{% import 'lib' as l %}{{ l.outer('x') }}`,
		// through a from-import
		"from": `{% from 'lib' import outerFrom %}{{ outerFrom('x') }}`,
		// without the nested call the parameter is printed as passed
		"control": `{% macro outer(t) %}{{ t }}{% endmacro %}{{ _self.outer('x') }}`,

		// the same root cause without any set tag: the alias imported inside a
		// macro body replaces the caller's alias of the same name.
		"libB":   `{% macro item(x) %}B({{ x }}){% endmacro %}`,
		"libC":   `{% macro item(x) %}C({{ x }}){% endmacro %}`,
		"libA":   `{% macro render(x) %}{% import 'libB' as h %}[{{ h.item(x) }}]{% endmacro %}`,
		"alias2": `{% import 'libC' as h %}{% import 'libA' as a %}{{ h.item(1) }}{{ a.render(2) }}{{ h.item(3) }}`,
	}
	c11Check(t, tpls, "control", nil, "x")
	c11Check(t, tpls, "self", nil, "x")
	c11Check(t, tpls, "alias", nil, "x")
	c11Check(t, tpls, "from", nil, "x")
	c11Check(t, tpls, "alias2", nil, "C(1)[B(2)]C(3)")
}

// Finding 5: from-imports live in one flat, execution-wide table (state.macros).
// A from-import executed inside a macro body therefore replaces the caller's
// from-import of the same name: after calling render(), item() in the calling
// template is a different macro, while the import-alias form is unaffected.
func TestC11_FromImportInsideMacroReplacesCallersImport(t *testing.T) {
	tpls := map[string]string{
		"libB":  `{% macro item(x) %}B({{ x }}){% endmacro %}`,
		"libC":  `{% macro item(x) %}C({{ x }}){% endmacro %}`,
		"libA":  `{% macro render(x) %}{% from 'libB' import item %}[{{ item(x) }}]{% endmacro %}`,
		"from":  `{% from 'libC' import item %}{% from 'libA' import render %}{{ item(1) }}{{ render(2) }}{{ item(3) }}`,
		"alias": `{% import 'libC' as c %}{% import 'libA' as a %}{{ c.item(1) }}{{ a.render(2) }}{{ c.item(3) }}`,
	}
	c11Check(t, tpls, "alias", nil, "C(1)[B(2)]C(3)")
	c11Check(t, tpls, "from", nil, "C(1)[B(2)]C(3)")
}
