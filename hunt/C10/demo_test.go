// Belongs in the repository root (next to exec.go), package stick_test.
// Run: go test -run 'TestC10_' .
package stick_test

import (
	"bytes"
	"testing"

	"github.com/tyler-sommer/stick"
)

// TestC10_WithHashOfTypedGoMapIsIgnored:
// a hash that reaches the template as a Go map whose static type is not exactly
// map[string]stick.Value (for instance map[string]string, which the rest of the
// library treats as a hash: it can be iterated with for k, v and read with h.key)
// is silently dropped when used as the with-hash of include / embed. The included
// template then sees none of its keys; with "only" it sees nothing at all.
func TestC10_WithHashOfTypedGoMapIsIgnored(t *testing.T) {
	tpls := map[string]string{
		"row":   `[{{ label }}]`,
		"panel": `({% block body %}{{ label }}{% endblock %})`,
		// control: the value really is a hash for the template language
		"control": `{{ labels.label }}{% for k, v in labels %}{{ k }}={{ v }}{% endfor %}`,

		"inc":       `{% include 'row' with labels %}`,
		"inc_only":  `{% include 'row' with labels only %}`,
		"emb":       `{% embed 'panel' with labels %}{% endembed %}`,
		"emb_only":  `{% embed 'panel' with labels only %}{% block body %}<{{ label }}>{% endblock %}{% endembed %}`,
		"inc_lit":   `{% include 'row' with {label: labels.label} only %}`, // same data through a literal hash works
		"inc_inter": `{% include 'row' with other %}`,
	}
	env := stick.New(&stick.MemoryLoader{Templates: tpls})
	ctx := func() map[string]stick.Value {
		return map[string]stick.Value{
			"labels": map[string]string{"label": "hello"},
			"other":  map[string]int{"label": 7},
		}
	}
	cases := []struct{ tpl, want string }{
		{"control", "hellolabel=hello"},
		{"inc_lit", "[hello]"},
		{"inc", "[hello]"},
		{"inc_only", "[hello]"},
		{"emb", "(hello)"},
		{"emb_only", "(<hello>)"},
		{"inc_inter", "[7]"},
	}
	for _, c := range cases {
		var buf bytes.Buffer
		err := env.Execute(c.tpl, &buf, ctx())
		if err != nil {
			t.Errorf("template %q = %s: unexpected error %v", c.tpl, tpls[c.tpl], err)
			continue
		}
		if got := buf.String(); got != c.want {
			t.Errorf("template %q = %s\n  context: labels = map[string]string{\"label\": \"hello\"}, other = map[string]int{\"label\": 7}\n  expected %q (the variables of the with-hash are visible in the target)\n  observed %q (the with-hash was dropped)", c.tpl, tpls[c.tpl], c.want, got)
		}
	}
}
