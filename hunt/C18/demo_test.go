// Belongs in the repository root (next to stick.go), package stick_test.
// Run with:  go test -run TestC18 -v .      (add -race to also see the data race report)
package stick_test

import (
	"bytes"
	"io/ioutil"
	"path/filepath"
	"sync"
	"testing"

	"github.com/tyler-sommer/stick"
)

// c18CachingLoader is a race-free user loader: it asks the wrapped loader for a
// template once and afterwards hands out the same stick.Template value. All of
// its own state is guarded by a mutex.
type c18CachingLoader struct {
	inner stick.Loader
	mu    sync.Mutex
	cache map[string]stick.Template
}

func (l *c18CachingLoader) Load(name string) (stick.Template, error) {
	l.mu.Lock()
	defer l.mu.Unlock()
	if t, ok := l.cache[name]; ok {
		return t, nil
	}
	t, err := l.inner.Load(name)
	if err != nil {
		return nil, err
	}
	l.cache[name] = t
	return t, nil
}

// TestC18FilesystemTemplateSharedReader: the stick.Template returned by the
// built-in FilesystemLoader hands out ONE shared *bytes.Reader from Contents().
// When a (race-free) loader gives that Template to several concurrent Execute
// calls, the library's parse.newLexer reads the same reader from all of them:
// a data race inside the library (visible with -race) and every call but one
// renders a truncated/empty template. The Templates of MemoryLoader and
// StringLoader (a fresh reader per Contents() call) behave correctly under the
// very same loader, which is checked first as a control.
func TestC18FilesystemTemplateSharedReader(t *testing.T) {
	const src = "Hello {{ name }}, this is a template read from disk."
	const want = "Hello World, this is a template read from disk."
	dir := t.TempDir()
	if err := ioutil.WriteFile(filepath.Join(dir, "page.twig"), []byte(src), 0644); err != nil {
		t.Fatal(err)
	}
	inners := []struct {
		label string
		l     stick.Loader
	}{
		{"MemoryLoader (control)", &stick.MemoryLoader{Templates: map[string]string{"page.twig": src}}},
		{"FilesystemLoader", stick.NewFilesystemLoader(dir)},
	}
	for _, in := range inners {
		// The call run alone.
		alone := stick.New(&c18CachingLoader{inner: in.l, cache: map[string]stick.Template{}})
		var b bytes.Buffer
		if err := alone.Execute("page.twig", &b, map[string]stick.Value{"name": "World"}); err != nil || b.String() != want {
			t.Fatalf("%s: alone: got %q, %v; want %q", in.label, b.String(), err, want)
		}

		// The same call, 16 at a time, on one environment.
		const n = 16
		env := stick.New(&c18CachingLoader{inner: in.l, cache: map[string]stick.Template{}})
		outs := make([]string, n)
		errs := make([]error, n)
		var wg sync.WaitGroup
		start := make(chan struct{})
		for g := 0; g < n; g++ {
			wg.Add(1)
			go func(g int) {
				defer wg.Done()
				<-start
				var b bytes.Buffer
				errs[g] = env.Execute("page.twig", &b, map[string]stick.Value{"name": "World"})
				outs[g] = b.String()
			}(g)
		}
		close(start)
		wg.Wait()
		bad := 0
		for g := 0; g < n; g++ {
			if errs[g] != nil || outs[g] != want {
				bad++
			}
		}
		if bad > 0 {
			t.Errorf("%s: template %q with {name: World}, %d concurrent Execute calls on one Env through a mutex-guarded caching loader:\n  expected every call to return %q, <nil> (what it returns when run alone)\n  observed %d of %d calls differ; outputs = %q errors = %v",
				in.label, src, n, want, bad, n, outs, errs)
		}
	}
}
