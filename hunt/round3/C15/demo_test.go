// Place in the repository root (package stick_test).
package stick_test

import (
	"bytes"
	"fmt"
	"testing"
	"time"

	"github.com/tyler-sommer/stick"
	"github.com/tyler-sommer/stick/twig"
)

func c15render(env *stick.Env, src string, ctx map[string]stick.Value) (out string) {
	defer func() {
		if r := recover(); r != nil {
			out = fmt.Sprintf("PANIC: %v", r)
		}
	}()
	var b bytes.Buffer
	if err := env.Execute(src, &b, ctx); err != nil {
		return "ERROR: " + err.Error()
	}
	return b.String()
}

// c15EmbSafe satisfies stick.SafeValue only through a nil embedded interface.
type c15EmbSafe struct{ stick.SafeValue }

// c15PtrSafe implements stick.SafeValue with value receivers.
type c15PtrSafe struct{ v stick.Value }

func (s c15PtrSafe) Value() stick.Value { return s.v }
func (s c15PtrSafe) IsSafe(string) bool { return true }
func (s c15PtrSafe) SafeFor() []string  { return []string{"html"} }

// Finding 1: the coercions were guarded, but the two other places that call
// SafeValue methods (the Twig escape filter -> IsSafe, NewSafeValue -> SafeFor) are not.
func TestC15_SafeValueMethodsUnguarded(t *testing.T) {
	x := c15EmbSafe{}
	if s := stick.CoerceString(x); s != "" {
		t.Fatalf("precondition: CoerceString(%T) = %q", x, s)
	}
	got := c15render(twig.New(nil), `[{{ x }}]`, map[string]stick.Value{"x": x})
	if got != "[]" {
		t.Errorf("twig.New: `[{{ x }}]` with x = struct embedding a nil SafeValue (CoerceString gives ''):\n expected %q\n observed %q", "[]", got)
	}
	wrap := func(v stick.Value) (res string) {
		defer func() {
			if r := recover(); r != nil {
				res = fmt.Sprintf("PANIC: %v", r)
			}
		}()
		return fmt.Sprintf("%q", stick.CoerceString(stick.NewSafeValue(v, "html")))
	}
	for _, v := range []stick.Value{x, (*c15PtrSafe)(nil)} {
		if got := wrap(v); got != `""` {
			t.Errorf("CoerceString(NewSafeValue(%T)) : inner value coerces to '', expected \"\" observed %s", v, got)
		}
	}
}

// Finding 2: the keys filter turns map keys into strings with %v, not with CoerceString.
func TestC15_KeysFilterBypassesCoerceString(t *testing.T) {
	env := twig.New(nil)
	ctx := map[string]stick.Value{
		"mf": map[float64]string{1000000: "x"},
		"mi": map[int]string{1000000: "x"},
		"mb": map[bool]string{true: "x"},
	}
	loop := c15render(env, `{% for k, v in mf %}{{ k }}{% endfor %}|{% for k, v in mi %}{{ k }}{% endfor %}|{% for k, v in mb %}{{ k }}{% endfor %}`, ctx)
	keys := c15render(env, `{{ mf|keys|join }}|{{ mi|keys|join }}|{{ mb|keys|join }}`, ctx)
	want := "1000000|1000000|1"
	if loop != want {
		t.Fatalf("precondition: loop keys = %q", loop)
	}
	if keys != want {
		t.Errorf("keys of map[float64]{1000000}, map[int]{1000000}, map[bool]{true}:\n expected %q (what CoerceString and the for loop give)\n observed %q", want, keys)
	}
}

// Finding 3: a safe-wrapped key is not unwrapped when it selects from a map or a sequence.
func TestC15_SafeWrappedKeyNotUnwrapped(t *testing.T) {
	m := map[string]string{"a": "A"}
	arr := []string{"zero", "one"}
	st := struct{ A string }{"fieldA"}
	get := func(c, k stick.Value) string {
		v, err := stick.GetAttr(c, k)
		if err != nil {
			return "ERROR: " + err.Error()
		}
		return stick.CoerceString(v)
	}
	if g := get(st, stick.NewSafeValue("A", "html")); g != "fieldA" {
		t.Fatalf("precondition (struct field by safe-wrapped name): %q", g)
	}
	if g, w := get(m, stick.NewSafeValue("a", "html")), get(m, "a"); g != w {
		t.Errorf("GetAttr(map[string]string{a:A}, safe('a')): expected %q (same as key 'a') observed %q", w, g)
	}
	if g, w := get(arr, stick.NewSafeValue(1, "html")), get(arr, 1); g != w {
		t.Errorf("GetAttr([zero one], safe(1)): expected %q (same as index 1) observed %q", w, g)
	}
	got := c15render(twig.New(nil), `{{ m['a'|raw] }}|{{ arr['1'|raw] }}`, map[string]stick.Value{"m": m, "arr": arr})
	if got != "A|one" {
		t.Errorf("twig: `{{ m['a'|raw] }}|{{ arr['1'|raw] }}` expected %q observed %q", "A|one", got)
	}
}

type c15Colour string

// Finding 4: the length filter measures only the dynamic type string.
func TestC15_LengthOfSafeWrappedString(t *testing.T) {
	env := twig.New(nil)
	ctx := map[string]stick.Value{"s": "hello", "c": c15Colour("red")}
	got := c15render(env, `{{ s|length }}|{{ s|raw|length }}|{{ s|escape|length }}|{{ c|length }}|{{ c|upper|length }}`, ctx)
	want := "5|5|5|3|3"
	if got != want {
		t.Errorf("`{{ s|length }}|{{ s|raw|length }}|{{ s|escape|length }}|{{ c|length }}|{{ c|upper|length }}` (s='hello', c=Colour('red')):\n expected %q\n observed %q", want, got)
	}
}

// Finding 6: an integral float32 of 1e21 or more.
func TestC15_Float32FromTenToThe21(t *testing.T) {
	f32 := float32(1 << 70) // 2^70, exactly representable in both float types
	f64 := float64(1 << 70)
	if float64(f32) != f64 {
		t.Fatal("precondition")
	}
	s32, s64 := stick.CoerceString(f32), stick.CoerceString(f64)
	if s32 != s64 {
		t.Errorf("CoerceString of 2^70: float32 %q, float64 %q (same integral number, CoerceNumber equal: %v)", s32, s64, stick.CoerceNumber(f32) == stick.CoerceNumber(f64))
	}
	if n := stick.CoerceNumber(s32); n != stick.CoerceNumber(f32) {
		t.Errorf("CoerceNumber(CoerceString(float32(2^70))) = %v, CoerceNumber(float32(2^70)) = %v", n, stick.CoerceNumber(f32))
	}
}

// c15SelfSafe is a string type that is its own safe value.
type c15SelfSafe string

func (s c15SelfSafe) Value() stick.Value { return s }
func (s c15SelfSafe) IsSafe(string) bool { return true }
func (s c15SelfSafe) SafeFor() []string  { return []string{"html"} }

// Finding 5 (kept last: the leaked goroutine spins until the process ends).
func TestC15_SelfReferentialSafeValueNeverReturns(t *testing.T) {
	done := make(chan string, 1)
	go func() {
		defer func() {
			if r := recover(); r != nil {
				done <- fmt.Sprintf("PANIC: %v", r)
			}
		}()
		done <- fmt.Sprintf("%q", stick.CoerceString(c15SelfSafe("x")))
	}()
	select {
	case r := <-done:
		t.Logf("CoerceString returned %s", r)
	case <-time.After(3 * time.Second):
		t.Errorf("CoerceString(c15SelfSafe(\"x\")) (Value() returns the receiver): expected a return ('' or 'x'), observed no return within 3s (unwrapSafe loops forever, no panic, no memory growth)")
	}
}
