// Demonstrations for property C16 (third round).
// Place this file in the repository root; it belongs to package stick_test.
package stick_test

import (
	"bytes"
	"fmt"
	"testing"

	"github.com/tyler-sommer/stick"
	"github.com/tyler-sommer/stick/twig"
)

type c16Point struct{ X, Y int }

// Finding 1: containment reports composite values that the traversal never
// yields. Equal() compares CoerceString() of both sides, and every slice, map,
// array, pointer or struct without a String method coerces to "".
func TestC16_ContainsClaimsAbsentCompositeElement(t *testing.T) {
	type tc struct {
		name     string
		haystack stick.Value
		needle   stick.Value
	}
	a, b := &c16Point{1, 2}, &c16Point{3, 4}
	cases := []tc{
		{"[]int needle in [][]int", [][]int{{1, 2}}, []int{3, 4}},
		{"struct needle in []struct", []c16Point{{1, 2}}, c16Point{3, 4}},
		{"distinct pointer in []*struct", []*c16Point{a}, b},
		{"map needle in [][]int", [][]int{{1, 2}}, map[string]int{"k": 1}},
		{"nil needle in [][]int", [][]int{{1, 2}}, nil},
		{"struct needle in map values", map[string]c16Point{"p": {1, 2}}, c16Point{9, 9}},
	}
	for _, c := range cases {
		// What the traversal visits.
		visited := false
		_, err := stick.Iterate(c.haystack, func(k, v stick.Value, l stick.Loop) (bool, error) {
			if fmt.Sprintf("%#v", v) == fmt.Sprintf("%#v", c.needle) {
				visited = true
			}
			return false, nil
		})
		if err != nil {
			t.Fatalf("%s: Iterate: %v", c.name, err)
		}
		got, err := stick.Contains(c.haystack, c.needle)
		if err != nil {
			t.Fatalf("%s: Contains: %v", c.name, err)
		}
		if got != visited {
			t.Errorf("%s: haystack=%#v needle=%#v: expected Contains=%v (the traversal never yields the needle), observed Contains=%v",
				c.name, c.haystack, c.needle, visited, got)
		}
	}

	// The same through a template, core and Twig environments.
	for name, env := range map[string]*stick.Env{"stick.New": stick.New(nil), "twig.New": twig.New(nil)} {
		var buf bytes.Buffer
		src := `{{ [3,4] in [[1,2]] ? 'yes' : 'no' }}|{{ needle in hay ? 'yes' : 'no' }}`
		err := env.Execute(src, &buf, map[string]stick.Value{"hay": []c16Point{{1, 2}}, "needle": c16Point{3, 4}})
		if err != nil {
			t.Fatalf("%s: %v", name, err)
		}
		if buf.String() != "no|no" {
			t.Errorf("%s: template %q: expected %q, observed %q", name, src, "no|no", buf.String())
		}
	}
}

type c16Queue struct{ Items *[]int }

// Pop drops the last item. It does not panic itself.
func (q c16Queue) Pop() string {
	*q.Items = (*q.Items)[:len(*q.Items)-1]
	return ""
}

// Finding 2: iterating a slice through a pointer reads the length once and then
// indexes the live slice: when the loop body shortens the slice (here through an
// ordinary method on the context value) reflect.Value.Index panics inside
// stick.Iterate and the panic leaves Execute.
func TestC16_IterateThroughPointerPanicsWhenSliceShrinks(t *testing.T) {
	// API level.
	func() {
		xs := []int{1, 2, 3, 4}
		defer func() {
			if r := recover(); r != nil {
				t.Errorf("stick.Iterate(&xs, f) with f shortening xs to 1 element: expected no panic (an error, or the remaining elements visited), observed panic: %v", r)
			}
		}()
		n := 0
		_, _ = stick.Iterate(&xs, func(k, v stick.Value, l stick.Loop) (bool, error) {
			n++
			xs = xs[:1]
			return false, nil
		})
	}()
	// Template level.
	func() {
		items := []int{1, 2, 3, 4}
		src := `{% for x in q.Items %}{{ x }}{{ q.Pop() }};{% endfor %}`
		defer func() {
			if r := recover(); r != nil {
				t.Errorf("Execute(%q) with q.Items = &[]int{1,2,3,4}: expected no panic, observed panic: %v", src, r)
			}
		}()
		var buf bytes.Buffer
		_ = stick.New(nil).Execute(src, &buf, map[string]stick.Value{"q": c16Queue{&items}})
	}()
}

// Finding 3: a numeral key written with dot notation reaches GetAttr as the
// string "1". Slices accept the numeral string, maps with a numeric key type do
// not: the element that exists is not returned.
func TestC16_NumeralKeyOnIntKeyedMap(t *testing.T) {
	m := map[int]string{1: "one"}
	xs := []string{"zero", "one"}
	if v, err := stick.GetAttr(xs, "1"); err != nil || v != "one" {
		t.Fatalf(`GetAttr([]string, "1"): %v, %v`, v, err)
	}
	v, err := stick.GetAttr(m, "1")
	if err != nil || v != "one" {
		t.Errorf(`GetAttr(map[int]string{1:"one"}, "1"): expected "one" (as for the slice), observed %v, error %v`, v, err)
	}
	var buf bytes.Buffer
	src := `{{ xs.1 }}|{{ m.1 }}|{{ m[1] }}`
	if err := stick.New(nil).Execute(src, &buf, map[string]stick.Value{"m": m, "xs": xs}); err != nil {
		t.Fatal(err)
	}
	if buf.String() != "one|one|one" {
		t.Errorf("template %q with m = map[int]string{1:\"one\"}: expected %q, observed %q", src, "one|one|one", buf.String())
	}
}

type c16Struct struct{ A string }

// Finding 4: a key wrapped in a SafeValue (what the raw and escape filters
// return) is unwrapped for struct fields but not for map keys or slice indexes.
func TestC16_SafeValueKeyNotUnwrappedForMapsAndSlices(t *testing.T) {
	key := stick.NewSafeValue("A", "html")
	if v, err := stick.GetAttr(c16Struct{"field"}, key); err != nil || v != "field" {
		t.Fatalf("struct: %v %v", v, err)
	}
	if v, err := stick.GetAttr(map[string]string{"A": "elem"}, key); err != nil || v != "elem" {
		t.Errorf(`GetAttr(map[string]string{"A":"elem"}, SafeValue("A")): expected "elem", observed %v, error %v`, v, err)
	}
	if v, err := stick.GetAttr([]string{"x", "elem"}, stick.NewSafeValue(1, "html")); err != nil || v != "elem" {
		t.Errorf(`GetAttr([]string{"x","elem"}, SafeValue(1)): expected "elem", observed %v, error %v`, v, err)
	}
	var buf bytes.Buffer
	src := `{{ st['A'|raw] }}|{{ m['A'|raw] }}|{{ xs['1'|raw] }}`
	err := twig.New(nil).Execute(src, &buf, map[string]stick.Value{
		"st": c16Struct{"elem"}, "m": map[string]string{"A": "elem"}, "xs": []string{"x", "elem"}})
	if err != nil {
		t.Fatal(err)
	}
	if buf.String() != "elem|elem|elem" {
		t.Errorf("twig template %q: expected %q, observed %q", src, "elem|elem|elem", buf.String())
	}
}
