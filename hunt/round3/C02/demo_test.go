// Place this file in the twig/ directory of the worktree (package twig_test):
//   cp demo_test.go /tmp/hunt3/C02/twig/c02_demo_test.go && go test -run 'TestC02' ./twig/
// Every test FAILS on the unmodified library while the violation is present.
package twig_test

import (
	"bytes"
	"context"
	"fmt"
	"os"
	"os/exec"
	"path/filepath"
	"strings"
	"syscall"
	"testing"
	"time"

	"github.com/shopspring/decimal"
	"github.com/tyler-sommer/stick"
	"github.com/tyler-sommer/stick/twig"
)

// execute runs env.Execute in a goroutine and reports "panic: ...", "timeout" or "".
func c02Execute(env *stick.Env, tpl string, ctx map[string]stick.Value, limit time.Duration) (out string, err error, fault string) {
	type res struct {
		out   string
		err   error
		fault string
	}
	done := make(chan res, 1)
	go func() {
		var buf bytes.Buffer
		defer func() {
			if r := recover(); r != nil {
				done <- res{fault: fmt.Sprintf("panic: %v", r)}
			}
		}()
		e := env.Execute(tpl, &buf, ctx)
		done <- res{out: buf.String(), err: e}
	}()
	select {
	case r := <-done:
		return r.out, r.err, r.fault
	case <-time.After(limit):
		return "", nil, "timeout after " + limit.String()
	}
}

// c02Child re-runs the named test of this binary in a child process with
// C02_CHILD set, so that a fatal error (stack overflow) or a runaway computation
// cannot take the test run down. It returns the combined output and whether the
// child ended by itself with exit status 0.
func c02Child(t *testing.T, name string, limit time.Duration) (string, bool, bool) {
	ctx, cancel := context.WithTimeout(context.Background(), limit)
	defer cancel()
	cmd := exec.CommandContext(ctx, os.Args[0], "-test.run=^"+name+"$", "-test.v")
	cmd.Env = append(os.Environ(), "C02_CHILD="+name)
	out, err := cmd.CombinedOutput()
	timedOut := ctx.Err() == context.DeadlineExceeded
	return string(out), err == nil, timedOut
}

// ---------------------------------------------------------------------------
// 1. Twig environment: printing a struct that embeds a nil stick.SafeValue
//    panics inside the "escape" filter (sval.IsSafe is called unguarded).

type c02Wrap struct{ stick.SafeValue }

func TestC02EscapeFilterEmbeddedNilSafeValue(t *testing.T) {
	env := twig.New(nil)
	for _, tc := range []struct {
		tpl string
		v   stick.Value
	}{
		{`{{ v }}`, c02Wrap{}},
		{`{{ v|escape('js') }}`, &c02Wrap{}},
	} {
		_, err, fault := c02Execute(env, tc.tpl, map[string]stick.Value{"v": tc.v}, 5*time.Second)
		if fault != "" {
			t.Errorf("template %q with v = %T{SafeValue: nil}: expected rendered output or an error, observed %s (err=%v)", tc.tpl, tc.v, fault, err)
		}
	}
}

// ---------------------------------------------------------------------------
// 2. keys filter formats every map key with %v: a pointer key that reaches a
//    container holding itself never stops formatting -> fatal stack overflow.

type c02Node struct{ M map[string]interface{} }

func TestC02KeysFilterCyclicPointerKey(t *testing.T) {
	if os.Getenv("C02_CHILD") == "TestC02KeysFilterCyclicPointerKey" {
		n := &c02Node{M: map[string]interface{}{}}
		n.M["self"] = n.M
		var buf bytes.Buffer
		err := twig.New(nil).Execute(`{{ v|keys|join(',') }}`, &buf, map[string]stick.Value{"v": map[*c02Node]int{n: 1}})
		fmt.Printf("CHILD-RETURNED out=%q err=%v\n", buf.String(), err)
		return
	}
	out, ok, timedOut := c02Child(t, "TestC02KeysFilterCyclicPointerKey", 120*time.Second)
	if !ok || !strings.Contains(out, "CHILD-RETURNED") {
		first := out
		if i := strings.Index(first, "\n\n"); i > 0 {
			first = first[:i]
		}
		if len(first) > 400 {
			first = first[:400]
		}
		t.Errorf("template `{{ v|keys|join(',') }}` with v = map[*Node]int{n: 1}, n.M[\"self\"] = n.M: expected output or an error, observed: process died (timedOut=%v):\n%s", timedOut, first)
	}
}

// ---------------------------------------------------------------------------
// 3. FilesystemLoader opens whatever the name resolves to, including names that
//    climb out of the root ("../") and files that are not regular: a FIFO (or
//    /dev/zero, a tty ...) makes Execute block forever.

func TestC02FilesystemLoaderNonRegularFileHangs(t *testing.T) {
	dir := t.TempDir()
	root := filepath.Join(dir, "templates")
	if err := os.Mkdir(root, 0755); err != nil {
		t.Fatal(err)
	}
	fifo := filepath.Join(dir, "fifo")
	if err := syscall.Mkfifo(fifo, 0644); err != nil {
		t.Skip("cannot create a fifo: ", err)
	}
	if err := os.WriteFile(filepath.Join(root, "page.twig"), []byte(`before {% include '../fifo' %} after`), 0644); err != nil {
		t.Fatal(err)
	}
	env := stick.New(stick.NewFilesystemLoader(root))
	_, err, fault := c02Execute(env, "page.twig", nil, 3*time.Second)
	if fault != "" {
		t.Errorf("FilesystemLoader(%q), page.twig = `before {%% include '../fifo' %%} after`, ../fifo is a named pipe: expected an error (not a template file), observed %s", root, fault)
		// let the blocked goroutine go
		if f, e := os.OpenFile(fifo, os.O_WRONLY|syscall.O_NONBLOCK, 0); e == nil {
			f.Close()
		}
		return
	}
	t.Logf("returned err=%v", err)
}

// ---------------------------------------------------------------------------
// 4. A Loader that answers (nil, nil) makes env.load dereference the nil Template.

type c02NilLoader struct{}

func (c02NilLoader) Load(name string) (stick.Template, error) { return nil, nil }

func TestC02LoaderReturningNilTemplate(t *testing.T) {
	env := stick.New(c02NilLoader{})
	_, err, fault := c02Execute(env, "anything", nil, 5*time.Second)
	if fault != "" {
		t.Errorf("Loader.Load returns (nil, nil): expected Execute to return an error, observed %s (err=%v)", fault, err)
	}
}

// ---------------------------------------------------------------------------
// 5. The coercions convert a decimal.Decimal by expanding 10^exponent as a
//    big integer: one number with a large exponent keeps Execute busy for
//    hours (and hundreds of megabytes) for `{{ d + 1 }}` or `{% if d %}`.

func TestC02DecimalHugeExponentNeverFinishes(t *testing.T) {
	if os.Getenv("C02_CHILD") == "TestC02DecimalHugeExponentNeverFinishes" {
		d := decimal.New(1, 500000000) // 1e500000000; decimal.NewFromString("1e500000000") gives the same
		var buf bytes.Buffer
		err := stick.New(nil).Execute(`{% if d %}yes{% endif %}`, &buf, map[string]stick.Value{"d": d})
		fmt.Printf("CHILD-RETURNED out=%q err=%v\n", buf.String(), err)
		return
	}
	out, ok, timedOut := c02Child(t, "TestC02DecimalHugeExponentNeverFinishes", 15*time.Second)
	if timedOut || !ok || !strings.Contains(out, "CHILD-RETURNED") {
		t.Errorf("template `{%% if d %%}yes{%% endif %%}` with d = decimal.New(1, 500000000): expected \"yes\" (or an error) promptly, observed: still running after 15s (timedOut=%v); 1e7 already takes ~2s and the cost grows faster than linearly", timedOut)
	}
}
