// Belongs in the repository's parse/ directory as package parse_test.
// Round 3 of the C01 audit found NO violation, so there is no failing test.
// The one test below is a passing regression guard for the classes probed.
package parse_test

import (
	"strings"
	"testing"
	"time"

	"github.com/tyler-sommer/stick/parse"
)

func TestC01Round3NoFindingGuard(t *testing.T) {
	srcs := []string{
		"{{ \"#{", "{{ \"#{a}}\" }}", "{{ \"#{ %} {{ x\" }}", "{{ 1. }}", "{{ 1 . . }}", "{#-", "{#-#}", "{%", "{{ -}}", "{{ {a:1 -}} }}",
		"{{ \xff }}", "{% verbatim %}{% endverbatimx %}", "{% filter a b %}", "{% embed 'x' %}{{ 1 }}%}", "{% for in in in %}",
		"{{ " + strings.Repeat("[{a:(-", 2400) + "1" + strings.Repeat(")}]", 2400) + " }}",
		"{{ " + strings.Repeat("a ? ", 9000) + "c" + strings.Repeat(" : b", 9000) + " }}",
		strings.Repeat("{% embed 'x' %}{% block a %}", 4000) + strings.Repeat("{% endblock %}{% endembed %}", 4000),
		"{{ " + strings.Repeat("1.", 100000) + " }}",
	}
	for _, s := range srcs {
		done := make(chan struct{})
		go func() {
			defer close(done)
			defer func() {
				if r := recover(); r != nil {
					t.Errorf("panic %v on %.40q", r, s)
				}
			}()
			tr, err := parse.Parse(s)
			if tr == nil && err == nil {
				t.Errorf("neither tree nor error for %.40q", s)
			}
		}()
		select {
		case <-done:
		case <-time.After(20 * time.Second):
			t.Fatalf("hang on %.40q", s)
		}
	}
}
