// Belongs in the repository root (/tmp/hunt3/C11) as package stick_test.
// Each test FAILS on the unmodified library while the violation is present.
package stick_test

import (
	"bytes"
	"testing"

	"github.com/tyler-sommer/stick"
	"github.com/tyler-sommer/stick/twig"
)

func c11r3Render(mk func(stick.Loader) *stick.Env, tpls map[string]string) string {
	env := mk(&stick.MemoryLoader{Templates: tpls})
	var b bytes.Buffer
	if err := env.Execute("main", &b, nil); err != nil {
		return b.String() + "<<ERR: " + err.Error() + ">>"
	}
	return b.String()
}

var c11r3Envs = []struct {
	name string
	mk   func(stick.Loader) *stick.Env
}{{"stick.New", stick.New}, {"twig.New", twig.New}}

// A block that comes from a `use`d template calls, through _self, a macro that
// the same template defines. The same macro reached through an import alias or
// a from-import inside that block renders "[1]"; the _self form renders nothing.
func TestC11R3_SelfMacroInUsedBlock(t *testing.T) {
	tpls := map[string]string{
		"main": `{% use 'u' %}{{ block('b') }}`,
		"u": `{% macro um(a) %}[{{ a }}]{% endmacro %}` +
			`{% block b %}{% import 'u' as x %}{% from 'u' import um %}` +
			`self={{ _self.um(1) }} alias={{ x.um(1) }} from={{ um(1) }} in={{ _self.templateName }}{% endblock %}`,
	}
	want := "self=[1] alias=[1] from=[1] in=u"
	for _, e := range c11r3Envs {
		if got := c11r3Render(e.mk, tpls); got != want {
			t.Errorf("%s: templates %q\nexpected %q\nobserved %q", e.name, tpls, want, got)
		}
	}
}

// A parent template's block calls the parent's own macro through _self. When
// the child evaluates block('b') in a top-level set (which stick runs, and which
// resolves to the parent's block), the macro call renders nothing; the very same
// block('b') evaluated a moment later from a block renders "[1]".
func TestC11R3_ParentMacroNotRegisteredForChildTopLevel(t *testing.T) {
	tpls := map[string]string{
		"main": `{% extends 'base' %}{% set x = block('b') %}{% block c %}set={{ x }} direct={{ block('b') }}{% endblock %}`,
		"base": `{% macro pm(a) %}[{{ a }}]{% endmacro %}{% block b %}{{ _self.pm(1) }}{% endblock %}|{% block c %}{% endblock %}`,
	}
	want := "[1]|set=[1] direct=[1]"
	for _, e := range c11r3Envs {
		if got := c11r3Render(e.mk, tpls); got != want {
			t.Errorf("%s: templates %q\nexpected %q\nobserved %q", e.name, tpls, want, got)
		}
	}
}

// Inside the block of an embed body (which belongs to the host template, and
// where _self.templateName and callbacks report the host's name) the three call
// forms disagree: the import alias renders "[1]", _self.m(1) renders nothing and
// the from-imported m(1) is an "Undeclared function" error.
func TestC11R3_CallFormsDisagreeInEmbedBlock(t *testing.T) {
	lib := `{% macro m(a) %}[{{ a }}]{% endmacro %}`
	head := lib + `{% import 'lib' as x %}{% from 'lib' import m %}`
	forms := map[string]string{"_self": `_self.m(1)`, "alias": `x.m(1)`, "from": `m(1)`}
	for _, e := range c11r3Envs {
		for form, call := range forms {
			tpls := map[string]string{
				"main": head + `{{ ` + call + ` }}{% embed 'e' %}{% block b %}{{ ` + call + ` }}{% endblock %}{% endembed %}`,
				"e":    `|{% block b %}{% endblock %}`,
				"lib":  lib,
			}
			want := "[1]|[1]"
			if got := c11r3Render(e.mk, tpls); got != want {
				t.Errorf("%s, %s form: main = %q\nexpected %q\nobserved %q", e.name, form, tpls["main"], want, got)
			}
		}
	}
}
