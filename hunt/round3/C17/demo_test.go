// Package stick_test: place this file in the repository root (next to exec.go)
// and run `go test -run TestC17 .`
package stick_test

import (
	"bytes"
	"fmt"
	"os"
	"os/exec"
	"strings"
	"testing"

	"github.com/tyler-sommer/stick"
)

// c17ChainSource builds a template of n macros, none of them recursive: macro
// f1 prints an expression wrapped in `depth` pairs of parentheses whose core is
// a call of f2, f2 does the same with f3, ... and the last one prints 'x'.
// Every single expression stays below the parser's nesting bound (10000).
func c17ChainSource(n, depth int) string {
	var b strings.Builder
	for i := 1; i <= n; i++ {
		core := "'x'"
		if i < n {
			core = fmt.Sprintf("_self.f%d()", i+1)
		}
		fmt.Fprintf(&b, "{%% macro f%d() %%}{{ %s%s%s }}{%% endmacro %%}",
			i, strings.Repeat("(", depth), core, strings.Repeat(")", depth))
	}
	b.WriteString("{{ _self.f1() }}")
	return b.String()
}

const (
	c17ChainN     = 320
	c17ChainDepth = 9000
)

// TestC17ChainHelper is the body run in a child process by
// TestC17_NonRecursiveMacroChainEndsProcess (a stack overflow cannot be
// recovered, it would take the whole test binary down).
func TestC17ChainHelper(t *testing.T) {
	if os.Getenv("C17_CHAIN_CHILD") != "1" {
		t.Skip("helper, run by TestC17_NonRecursiveMacroChainEndsProcess")
	}
	src := c17ChainSource(c17ChainN, c17ChainDepth)
	var out bytes.Buffer
	err := stick.New(nil).ExecuteSafe(src, &out, nil)
	// Either outcome satisfies C17: a complete rendering, or an error and no output.
	if err != nil && out.Len() == 0 {
		fmt.Println("C17-CHILD-RETURNED error:", err)
		return
	}
	if err == nil {
		fmt.Printf("C17-CHILD-RETURNED ok: %q\n", out.String())
		return
	}
	fmt.Println("C17-CHILD-RETURNED inconsistent")
}

// Finding 1: the nesting bound is enforced per parsed expression only; the
// executor has no bound on the depth it reaches across call boundaries. A chain
// of a few hundred DIFFERENT macros (no recursion anywhere), each holding an
// expression nested 9000 deep (legal: below the 10000 limit), makes
// Execute/ExecuteSafe end the process with "fatal error: stack overflow"
// instead of returning an error.
func TestC17_NonRecursiveMacroChainEndsProcess(t *testing.T) {
	cmd := exec.Command(os.Args[0], "-test.run=^TestC17ChainHelper$", "-test.v")
	cmd.Env = append(os.Environ(), "C17_CHAIN_CHILD=1")
	outp, err := cmd.CombinedOutput()
	s := string(outp)
	if strings.Contains(s, "C17-CHILD-RETURNED") && err == nil {
		return // Execute returned to its caller: property holds.
	}
	first := s
	if i := strings.Index(s, "fatal error"); i >= 0 {
		first = s[i:]
	}
	if len(first) > 200 {
		first = first[:200]
	}
	t.Errorf("input: %d macros f1..f%d, fK = {{ ((...%d levels...( _self.fK+1() )...)) }}, no recursion, template of %d bytes\n"+
		"expected: ExecuteSafe returns (a non-nil error and no output, or the full output)\n"+
		"observed: the process running ExecuteSafe died (%v): %s",
		c17ChainN, c17ChainN, c17ChainDepth, len(c17ChainSource(c17ChainN, c17ChainDepth)), err, first)
}
