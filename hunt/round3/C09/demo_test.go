// Belongs in the repository root as package stick_test.
//
// Round 3 audit of C09 (template inheritance resolves every block to its
// most-derived override): no new violation was found, so there is no failing
// demonstration. The single test below is a positive smoke check of the
// property over a chain of four templates with a use-import, a loop and nested
// blocks; it PASSES on the unmodified library.
package stick_test

import (
	"bytes"
	"testing"

	"github.com/tyler-sommer/stick"
)

func TestC09Round3NoFinding(t *testing.T) {
	tpls := map[string]string{
		"A": "{% for i in 1..2 %}{% block a %}A{{ i }}{% block n %}An{% endblock %}{% endblock %}{% endfor %}-{% block b %}Ab{% endblock %}",
		"U": "{% block b %}U{{ who() }}{{ parent() }}{% endblock %}",
		"B": "{% extends 'A' %}{% block a %}B{{ parent() }}{% endblock %}",
		"C": "{% set p = 'B' %}{% extends p %}{% use 'U' %}{% block n %}Cn{{ who() }}{{ parent() }}{% endblock %}outside",
		"D": "{% extends 'C' %}{% block a %}D{{ parent() }}{% endblock %}{% block b %}Db{{ parent() }}{% endblock %}",
	}
	env := stick.New(&stick.MemoryLoader{Templates: tpls})
	env.Functions["who"] = func(c stick.Context, _ ...stick.Value) stick.Value { return c.Name() }
	var b bytes.Buffer
	if err := env.Execute("D", &b, nil); err != nil {
		t.Fatal(err)
	}
	want := "DBA1CnCAnDBA2CnCAn-DbUUAb"
	if got := b.String(); got != want {
		t.Fatalf("templates %v\nexpected %q\nobserved %q", tpls, want, got)
	}
}
