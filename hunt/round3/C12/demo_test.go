// Belongs in the twig/ directory of the repository, as package twig_test
// (copy to <repo>/twig/demo_c12_test.go and run: go test ./twig/ -run TestC12).
package twig_test

import (
	"bytes"
	"strconv"
	"testing"

	"github.com/tyler-sommer/stick"
	"github.com/tyler-sommer/stick/twig"
)

// cssDecode reads a CSS string/identifier the way a CSS tokenizer does
// (CSS Syntax 3, "consume an escaped code point"): a backslash followed by
// one to SIX hex digits and one optional white space is one code point.
func cssDecode(s string) string {
	isHex := func(b byte) bool {
		return (b >= '0' && b <= '9') || (b >= 'a' && b <= 'f') || (b >= 'A' && b <= 'F')
	}
	var out []rune
	for i := 0; i < len(s); {
		if s[i] != '\\' {
			out = append(out, rune(s[i]))
			i++
			continue
		}
		i++
		j := i
		for j < len(s) && j-i < 6 && isHex(s[j]) {
			j++
		}
		if j == i { // backslash + non-hex: the character itself
			if i < len(s) {
				out = append(out, rune(s[i]))
				i++
			}
			continue
		}
		n, _ := strconv.ParseUint(s[i:j], 16, 32)
		out = append(out, rune(n))
		i = j
		if i < len(s) && (s[i] == ' ' || s[i] == '\t' || s[i] == '\n') {
			i++
		}
	}
	return string(out)
}

// The CSS escaper writes \XXXX with no terminator, so a hex digit that follows
// an escaped character in the value is read by CSS as part of the escape: the
// value that reaches the style sheet is not the value that was printed.
func TestC12_CSSEscapeSwallowsFollowingHexDigits(t *testing.T) {
	for _, tc := range []struct{ name, src string }{
		{"page.css", `.n::after{content:"{{ x }}"}`},              // auto-escaping of a css template
		{"page.html", `<style>.n::after{content:"{{ x|escape('css') }}"}</style>`}, // explicit strategy
	} {
		for _, x := range []string{"1 apple", "<a>", "x:bad", "a\"c"} {
			env := twig.New(&stick.MemoryLoader{Templates: map[string]string{tc.name: tc.src}})
			var buf bytes.Buffer
			if err := env.Execute(tc.name, &buf, map[string]stick.Value{"x": x}); err != nil {
				t.Fatalf("%s: %v", tc.name, err)
			}
			out := buf.String()
			start := bytes.IndexByte([]byte(out), '"') + 1
			end := bytes.LastIndexByte([]byte(out), '"')
			printed := out[start:end]
			if got := cssDecode(printed); got != x {
				t.Errorf("template %s = %s, x = %q:\n  printed  %s\n  expected an escape that CSS reads back as %q (Twig prints every escape with a terminating space, e.g. \\20 )\n  observed CSS reads it as %q", tc.name, tc.src, x, printed, x, got)
			}
		}
	}
}
