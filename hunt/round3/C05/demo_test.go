// Demonstrations for property C05 (third round).
// Belongs in the repository root as package stick_test
// (copy to <worktree>/c05_demo_test.go and run `go test -run TestC05 .`).
// Every test FAILS on the unmodified library while the violation is present.
package stick_test

import (
	"bytes"
	"math"
	"testing"

	"github.com/tyler-sommer/stick"
)

func c05Run(tpl string, ctx map[string]stick.Value) (string, error) {
	env := stick.New(nil)
	var b bytes.Buffer
	err := env.Execute(tpl, &b, ctx)
	return b.String(), err
}

// Finding 1: the words "nan", "inf", "infinity" (any case, optional sign), hex
// floats ("0x1p4") and "1_0" are not numerals of the template language, yet
// CoerceNumber turns them into NaN / +-Inf / 16 / 10 instead of the documented 0.
func TestC05_NonNumericWordsCoerceToNaNAndInf(t *testing.T) {
	if f := stick.CoerceNumber("nan"); f != 0 {
		t.Errorf(`CoerceNumber("nan"): expected 0 (documented: zero when the value cannot be coerced), observed %v`, f)
	}
	if f := stick.CoerceNumber("Infinity"); f != 0 || math.IsInf(f, 0) {
		t.Errorf(`CoerceNumber("Infinity"): expected 0, observed %v`, f)
	}
	for _, c := range []struct{ tpl, want string }{
		{`{{ 'nan' + 1 }}`, "1"},    // like 'abc' + 1
		{`{{ 'inf' * 2 }}`, "0"},    // like 'abc' * 2
		{`{{ 'inf' < 5 }}`, "1"},    // 0 < 5, like 'abc' < 5
		{`{{ -'infinity' }}`, "-0"}, // whatever -'abc' prints; certainly not -Inf
		{`{{ '0x1p4' + 0 }}`, "0"},  // like '0x10' + 0
		{`{{ 'nan' b-or 1 }}`, "1"}, // like 'abc' b-or 1
	} {
		ref := map[string]string{`{{ -'infinity' }}`: `{{ -'abc' }}`}[c.tpl]
		want := c.want
		if ref != "" {
			want, _ = c05Run(ref, nil)
		}
		got, err := c05Run(c.tpl, nil)
		if err != nil || got != want {
			t.Errorf("input %s: expected %q (the word is not a number: coerces to 0 like any other word), observed %q err=%v", c.tpl, want, got, err)
		}
	}
}

// Finding 2: and / or evaluate the right operand even when the left operand
// decides the result, so the usual guard idiom raises the very error it guards against.
func TestC05_AndOrDoNotShortCircuit(t *testing.T) {
	ctx := map[string]stick.Value{"d": 0, "n": 6}
	got, err := c05Run(`{{ d != 0 and n % d == 0 ? 'divides' : 'no' }}`, ctx)
	if err != nil || got != "no" {
		t.Errorf("input {{ d != 0 and n %% d == 0 ? 'divides' : 'no' }} with d=0, n=6: expected \"no\" (false and X is false), observed %q err=%v", got, err)
	}
	got, err = c05Run(`{{ d == 0 or n % d == 0 ? 'yes' : 'no' }}`, ctx)
	if err != nil || got != "yes" {
		t.Errorf("input {{ d == 0 or n %% d == 0 ? 'yes' : 'no' }} with d=0, n=6: expected \"yes\" (true or X is true), observed %q err=%v", got, err)
	}
	// The conditional, in contrast, only evaluates the chosen branch:
	if got, err := c05Run(`{{ d != 0 ? n % d : 'no' }}`, ctx); err != nil || got != "no" {
		t.Errorf("control failed: %q %v", got, err)
	}
}

// Finding 3: the two-word operators are only recognised with exactly one space
// (U+0020) between the words; any other legal white space is a syntax error.
func TestC05_TwoWordOperatorsNeedExactlyOneSpace(t *testing.T) {
	ctx := map[string]stick.Value{"a": 1, "b": "xy", "arr": []stick.Value{1, 2}}
	env := func() *stick.Env {
		e := stick.New(nil)
		e.Tests["odd"] = func(c stick.Context, v stick.Value, args ...stick.Value) bool {
			return int(stick.CoerceNumber(v))%2 != 0
		}
		return e
	}
	for _, c := range []struct{ tpl, ref string }{
		{"{{ 3 not  in arr ? 'T' : 'F' }}", "{{ 3 not in arr ? 'T' : 'F' }}"},
		{"{{ b starts\n   with 'x' ? 'T' : 'F' }}", "{{ b starts with 'x' ? 'T' : 'F' }}"},
		{"{{ b ends\twith 'y' ? 'T' : 'F' }}", "{{ b ends with 'y' ? 'T' : 'F' }}"},
		{"{{ 2 is  not odd ? 'T' : 'F' }}", "{{ 2 is not odd ? 'T' : 'F' }}"},
	} {
		var want, got bytes.Buffer
		if err := env().Execute(c.ref, &want, ctx); err != nil {
			t.Fatalf("reference %q failed: %v", c.ref, err)
		}
		err := env().Execute(c.tpl, &got, ctx)
		if err != nil || got.String() != want.String() {
			t.Errorf("input %q: expected %q (same as %q), observed %q err=%v", c.tpl, want.String(), c.ref, got.String(), err)
		}
	}
}

// Finding 4: / and // by zero print Go's "+Inf" / "NaN" and report no error,
// although the same library treats % by zero as the error it is.
func TestC05_DivisionByZeroYieldsInf(t *testing.T) {
	if _, err := c05Run(`{{ 6 % 0 }}`, nil); err == nil {
		t.Fatalf("control: 6 %% 0 is expected to be an error")
	}
	for _, tpl := range []string{`{{ 6 / 0 }}`, `{{ 6 // 0 }}`, `{{ 0 / 0 }}`, `{{ (6 / 0) ~ '' }}`} {
		got, err := c05Run(tpl, nil)
		if err == nil {
			t.Errorf("input %s: expected an execution error (division by zero has no value in the language; %% by zero is reported), observed output %q and no error", tpl, got)
		}
	}
}
