package stick_test

// Belongs in the repository root (next to stick.go), package stick_test.

import (
	"errors"
	"io/ioutil"
	"strings"
	"testing"

	"github.com/tyler-sommer/stick"
	"github.com/tyler-sommer/stick/parse"
)

func c20pos(src string, off int) parse.Pos {
	return parse.Pos{
		Line:   1 + strings.Count(src[:off], "\n"),
		Offset: off - (strings.LastIndex(src[:off], "\n") + 1),
	}
}

func c20errPos(err error) (parse.Pos, bool) {
	if e, ok := err.(interface{ Start() parse.Pos }); ok {
		return e.Start(), true
	}
	return parse.Pos{}, false
}

// The body of a verbatim tag is a text run; its TextNode reports the position
// of the word "verbatim" instead of the first byte of the text.
func TestC20VerbatimTextPosition(t *testing.T) {
	src := "a\n{% verbatim %}\n{{ x }}{% endverbatim %}"
	tree, err := parse.Parse(src)
	if err != nil {
		t.Fatalf("input %q: unexpected error %v", src, err)
	}
	var found *parse.TextNode
	for _, n := range tree.Root().All() {
		if tn, ok := n.(*parse.TextNode); ok && tn.Data == "\n{{ x }}" {
			found = tn
		}
	}
	if found == nil {
		t.Fatalf("input %q: verbatim text node not found in %v", src, tree.Root())
	}
	want := c20pos(src, strings.Index(src, "%}")+2) // first byte of the text run
	if found.Start() != want {
		t.Errorf("input %q: TextNode %q expected at %v (first byte of the text run), observed %v", src, found.Data, want, found.Start())
	}
}

// "elseif" is only a tag name inside an if; at the top level (or in any other
// body) it is accepted and silently treated as "if".
func TestC20StrayElseifAccepted(t *testing.T) {
	for _, src := range []string{
		"{% elseif a %}x{% endif %}",
		"{% for i in l %}\n{% elseif a %}x{% endif %}{% endfor %}",
	} {
		_, err := parse.Parse(src)
		want := c20pos(src, strings.Index(src, "elseif"))
		if err == nil {
			t.Errorf("input %q: expected an error at %v (elseif is not a tag here), observed: accepted", src, want)
			continue
		}
		if got, ok := c20errPos(err); !ok || got != want {
			t.Errorf("input %q: expected error at %v, observed %v", src, want, err)
		}
	}
}

// The keyword of a for tag is not checked: any name is taken for "in".
func TestC20ForWithoutIn(t *testing.T) {
	for _, src := range []string{
		"{% for a b items %}{% endfor %}",
		"{% for a,\n b true items %}{% endfor %}",
	} {
		_, err := parse.Parse(src)
		off := strings.Index(src, " items") - 1
		for off > 0 && src[off-1] != ' ' {
			off--
		}
		want := c20pos(src, off)
		if err == nil {
			t.Errorf("input %q: expected an error at %v (no \"in\"), observed: accepted", src, want)
			continue
		}
		if got, ok := c20errPos(err); !ok || got != want {
			t.Errorf("input %q: expected error at %v, observed %v", src, want, err)
		}
	}
}

// Any punctuation is taken for the "=" of a set tag.
func TestC20SetWithoutEquals(t *testing.T) {
	for _, src := range []string{
		"{% set a | 1 %}",
		"{% set a\n. 1 %}",
		"{% set a , 1 %}",
		"{% set a ?: 1 %}",
	} {
		_, err := parse.Parse(src)
		off := strings.IndexAny(src, "|.,?")
		want := c20pos(src, off)
		if err == nil {
			t.Errorf("input %q: expected an error at %v (not \"=\"), observed: accepted", src, want)
			continue
		}
		if got, ok := c20errPos(err); !ok || got != want {
			t.Errorf("input %q: expected error at %v, observed %v", src, want, err)
		}
	}
}

type c20failingLoader struct{ inner stick.Loader }

func (l *c20failingLoader) Load(name string) (stick.Template, error) {
	if name == "main.twig" {
		return l.inner.Load(name)
	}
	return nil, errors.New("backend unavailable")
}

// An error of a user-supplied Loader is passed on as it is: nothing says which
// template was being loaded.
func TestC20LoaderErrorNamesTemplate(t *testing.T) {
	env := stick.New(&c20failingLoader{&stick.MemoryLoader{Templates: map[string]string{
		"main.twig": "{% include 'partials/missing.twig' %}",
	}}})
	_, err := env.Parse("other.twig")
	if err == nil || !strings.Contains(err.Error(), "other.twig") {
		t.Errorf("env.Parse(\"other.twig\") with a loader failing with \"backend unavailable\": expected an error naming other.twig, observed %v", err)
	}
	err = env.Execute("main.twig", ioutil.Discard, nil)
	if err == nil || !strings.Contains(err.Error(), "partials/missing.twig") {
		t.Errorf("Execute(main.twig) including 'partials/missing.twig': expected an error naming partials/missing.twig, observed %v", err)
	}
}
