// Demonstrations for property C06 (conditionals and loops).
//
// Belongs in the repository root, package stick_test
// (copy next to exec.go and run: go test -run 'TestC06' .).
// Every test FAILS on the unmodified library while the violation is present.
package stick_test

import (
	"bytes"
	"fmt"
	"testing"

	"github.com/tyler-sommer/stick"
	"github.com/tyler-sommer/stick/twig"
)

func c06Render(env *stick.Env, tpl string, ctx map[string]stick.Value) (out string, err error) {
	var b bytes.Buffer
	defer func() {
		if r := recover(); r != nil {
			err = fmt.Errorf("panic: %v", r)
		}
		out = b.String()
	}()
	err = env.Execute(tpl, &b, ctx)
	return
}

func c06Envs() map[string]*stick.Env {
	return map[string]*stick.Env{"stick.New": stick.New(nil), "twig.New": twig.New(nil)}
}

// Finding 1: a null (typed nil) pointer to a slice / array / map is a null
// sequence, yet the for loop fails instead of rendering its else branch.
// A non-nil pointer to the very same kinds of value is accepted and iterated
// (and renders the else branch when it points to an empty sequence).
func TestC06_NilPointerSequenceRendersElse(t *testing.T) {
	const tpl = `{% for k, x in seq %}{{ k }}={{ x }};{% else %}EMPTY{% endfor %}`
	full := []int{7, 8}
	empty := []int{}
	for name, env := range c06Envs() {
		// Sanity: pointers to sequences are iterable for the library.
		if out, err := c06Render(env, tpl, map[string]stick.Value{"seq": &full}); err != nil || out != "0=7;1=8;" {
			t.Fatalf("%s: sanity (pointer to []int{7,8}): out=%q err=%v", name, out, err)
		}
		if out, err := c06Render(env, tpl, map[string]stick.Value{"seq": &empty}); err != nil || out != "EMPTY" {
			t.Fatalf("%s: sanity (pointer to empty slice): out=%q err=%v", name, out, err)
		}
		cases := map[string]stick.Value{
			"(*[]int)(nil)":          (*[]int)(nil),
			"(*[2]string)(nil)":      (*[2]string)(nil),
			"(*map[string]int)(nil)": (*map[string]int)(nil),
		}
		for desc, v := range cases {
			out, err := c06Render(env, tpl, map[string]stick.Value{"seq": v})
			if err != nil || out != "EMPTY" {
				t.Errorf("%s: template %q with seq = %s\n  expected: output %q, no error (null sequence => else branch)\n  observed: output %q, error %v",
					name, tpl, desc, "EMPTY", out, err)
			}
		}
	}
}

// Finding 2: loop.parent is not "the enclosing loop" but whatever variable
// called "loop" happens to be visible in the dynamic scope. A loop that has no
// enclosing loop therefore reports a parent:
//   (a) a loop in a macro body gets the CALLER's loop as parent, so the same
//       macro call with the same arguments renders differently depending on
//       the call site;
//   (b) an outermost loop gets a context variable named "loop" as its parent.
func TestC06_LoopParentOfOutermostLoop(t *testing.T) {
	for name, env := range c06Envs() {
		// (a)
		tplA := `{% macro row(xs) %}{% for q in xs %}[{{ loop.index }}/{{ loop.parent.index }}]{% endfor %}{% endmacro %}` +
			`{{ _self.row([7]) }}|{% for a in [5, 6] %}{{ _self.row([7]) }}{% endfor %}`
		wantA := "[1/]|[1/][1/]"
		out, err := c06Render(env, tplA, nil)
		if err != nil || out != wantA {
			t.Errorf("%s: template %q\n  expected: %q (the loop inside the macro is an outermost loop: no parent)\n  observed: %q, error %v",
				name, tplA, wantA, out, err)
		}
		// (b)
		tplB := `{% for x in [1, 2] %}<{{ loop.index }}:{{ loop.parent }}>{% endfor %}`
		wantB := "<1:><2:>"
		out, err = c06Render(env, tplB, map[string]stick.Value{"loop": "CTXVALUE"})
		if err != nil || out != wantB {
			t.Errorf("%s: template %q with context {loop: \"CTXVALUE\"}\n  expected: %q (outermost loop: no parent)\n  observed: %q, error %v",
				name, tplB, wantB, out, err)
		}
	}
}
