// Demonstrations for property C04 (operator precedence / parentheses).
//
// Placement: copy this file into the repository root (next to stick.go); it is
// in package stick_test and imports the twig sub-package.
//
//	export GOFLAGS=-mod=mod GOPROXY=off GOSUMDB=off GOTOOLCHAIN=local
//	go test -run 'TestC04_' .
package stick_test

import (
	"bytes"
	"testing"

	"github.com/tyler-sommer/stick"
	"github.com/tyler-sommer/stick/twig"
)

func c04Render(env *stick.Env, src string, ctx map[string]stick.Value) string {
	var buf bytes.Buffer
	if err := env.Execute(src, &buf, ctx); err != nil {
		return "ERROR: " + err.Error()
	}
	return buf.String()
}

// Finding 1: in the Twig environment, parentheses that merely restate the
// grouping of an expression change the rendered result, because the
// auto-escape visitor only recognises an explicit escape/raw filter when the
// FilterExpr is the direct child of the print node; a GroupExpr around it
// hides it and the value is escaped a second time.
func TestC04_RedundantParensChangeResultUnderAutoEscape(t *testing.T) {
	env := twig.New(nil)
	ctx := map[string]stick.Value{"a": "<b>"}
	flat := `{{ a|escape('html_attr') }}`
	paren := `{{ (a|escape('html_attr')) }}`
	got, want := c04Render(env, paren, ctx), c04Render(env, flat, ctx)
	if got != want {
		t.Errorf("context a=%q\n  %s  renders %q\n  %s  renders %q\nexpected: identical output (the parentheses only restate the grouping)",
			ctx["a"], flat, want, paren, got)
	}
}

// Finding 2: the subtraction "b - xor" written compactly as "b-xor" (variables
// named b and xor) is tokenised as the binary operator "b-xor", so the
// unparenthesised chain a*b-xor is a syntax error while its fully
// parenthesised form ((a*b)-xor) evaluates.
func TestC04_CompactMinusBeforeVariableXor(t *testing.T) {
	env := stick.New(nil)
	ctx := map[string]stick.Value{"a": 2, "b": 5, "xor": 3, "h": map[string]stick.Value{"b": 5}}
	for _, c := range []struct{ flat, paren string }{
		{`{{ b-xor }}`, `{{ ((b)-(xor)) }}`},
		{`{{ a*b-xor }}`, `{{ ((a*b)-xor) }}`},
		{`{{ h.b-xor }}`, `{{ ((h.b)-xor) }}`},
	} {
		got, want := c04Render(env, c.flat, ctx), c04Render(env, c.paren, ctx)
		if got != want {
			t.Errorf("context a=2 b=5 xor=3 h={b: 5}\n  %s  gives %q\n  %s  gives %q\nexpected: identical results (b - xor with the grouping of the operator table)",
				c.flat, got, c.paren, want)
		}
	}
}
