package stick_test

// Demonstrations for property C01 ("parsing is total").
// Belongs in the repository root (package stick_test): go test -run 'TestC01' -timeout 20m .
//
// Every violation shown here ends in a Go *fatal error* (stack exhaustion) or in a
// panic on the background tokenising goroutine. Neither can be recovered, so each
// case is run in a child process (the test binary re-executes itself); the parent
// test fails when the child did not survive the call to Parse.

import (
	"bytes"
	"fmt"
	"os"
	"os/exec"
	"strings"
	"testing"

	"github.com/tyler-sommer/stick"
	"github.com/tyler-sommer/stick/parse"
)

const c01Env = "STICK_C01_CASE"

type c01Case struct {
	desc string        // human readable description of the input
	src  func() string // builds the template source
}

var c01Cases = map[string]c01Case{
	// Control: the same shapes at a small size parse fine, so the harness reports survival.
	"control": {`small chains`, func() string {
		return "{{ " + strings.Repeat("-", 1000) + "a" + strings.Repeat(".a", 1000) + strings.Repeat("+a", 1000) + " }}" +
			"{% if a %}" + strings.Repeat("{% elseif a %}", 1000) + "{% endif %}"
	}},
	// 1.2 MB, no brackets, no tags besides the single {{ }}.
	"unary": {`"{{ " + 1,200,000 x "-" + "a }}"`, func() string {
		return "{{ " + strings.Repeat("-", 1200000) + "a }}"
	}},
	// 4 MB, a flat chain of attribute accesses.
	"postfix": {`"{{ a" + 2,000,000 x ".a" + " }}"`, func() string {
		return "{{ a" + strings.Repeat(".a", 2000000) + " }}"
	}},
	// 14 MB, sibling elseif branches of ONE if (nesting depth 1).
	"elseif": {`"{% if a %}" + 1,000,000 x "{% elseif a %}" + "{% endif %}"`, func() string {
		return "{% if a %}" + strings.Repeat("{% elseif a %}", 1000000) + "{% endif %}"
	}},
	// 24 MB, a flat sum; the parser handles it iteratively, the visitor traversal does not.
	"traverse": {`"{{ a" + 12,000,000 x "+a" + " }}"`, func() string {
		return "{{ a" + strings.Repeat("+a", 12000000) + " }}"
	}},
}

// TestC01Child is the body run in the child process; it is a no-op otherwise.
func TestC01Child(t *testing.T) {
	name := os.Getenv(c01Env)
	if name == "" {
		t.Skip("helper for the TestC01_* tests")
	}
	if name == "reparse" {
		tree := parse.NewTree(strings.NewReader("hello {{ name }}"))
		err1 := tree.Parse()
		var err2 error
		func() {
			defer func() {
				if r := recover(); r != nil {
					err2 = fmt.Errorf("panic in caller: %v", r)
				}
			}()
			err2 = tree.Parse()
		}()
		// Give the second tokenising goroutine the time to finish.
		for i := 0; i < 50; i++ {
			_, _ = parse.Parse("x")
		}
		fmt.Printf("C01-SURVIVED first=%v second=%v\n", err1, err2)
		return
	}
	c, ok := c01Cases[name]
	if !ok {
		t.Fatalf("unknown case %q", name)
	}
	src := c.src()
	tree, err := stick.New(nil).Parse(src) // StringLoader: the name is the source.
	fmt.Printf("C01-SURVIVED tree=%v err=%v\n", tree != nil, err)
}

func runC01Child(t *testing.T, name, input string) {
	t.Helper()
	cmd := exec.Command(os.Args[0], "-test.run=^TestC01Child$", "-test.timeout=30m")
	cmd.Env = append(os.Environ(), c01Env+"="+name)
	var out bytes.Buffer
	cmd.Stdout = &out
	cmd.Stderr = &out
	err := cmd.Run()
	if err == nil && strings.Contains(out.String(), "C01-SURVIVED") {
		i := strings.Index(out.String(), "C01-SURVIVED")
		t.Logf("child survived: %s", strings.SplitN(out.String()[i:], "\n", 2)[0])
		return
	}
	lines := strings.Split(out.String(), "\n")
	var head []string
	for _, l := range lines {
		if strings.HasPrefix(l, "runtime: goroutine stack exceeds") || strings.HasPrefix(l, "fatal error") ||
			strings.HasPrefix(l, "panic:") || strings.Contains(l, "C01-SURVIVED") {
			head = append(head, l)
		}
	}
	// Name the library frames that were on the stack.
	seen := map[string]bool{}
	for _, l := range lines {
		if strings.HasPrefix(l, "github.com/tyler-sommer/stick/parse.") {
			fn := l[:strings.Index(l, "(")+1]
			if strings.Contains(l, ").") {
				fn = l[:strings.LastIndex(l, "(")]
			}
			if !seen[fn] && len(seen) < 6 {
				seen[fn] = true
				head = append(head, "  frame: "+fn)
			}
		}
	}
	t.Fatalf("C01 violated.\n input:    %s\n expected: Parse returns a tree or an error and the process keeps running\n observed: the process running Parse died (%v):\n   %s",
		input, err, strings.Join(head, "\n   "))
}

// Control for the harness: passes, showing that a surviving child is recognised.
func TestC01_ControlSmallChainsSurvive(t *testing.T) {
	runC01Child(t, "control", c01Cases["control"].desc)
}

// A flat run of prefix operators (also: "not not ...", "a?a:a?a:...", "a**a**a...")
// makes parseInnerExpr/parseBinaryExpr recurse once per operator.
func TestC01_UnaryOperatorChainExhaustsStack(t *testing.T) {
	runC01Child(t, "unary", c01Cases["unary"].desc)
}

// A flat chain of postfix operations (".a", "|f", "[0]") makes parseOuterExpr call itself once per link.
func TestC01_PostfixChainExhaustsStack(t *testing.T) {
	runC01Child(t, "postfix", c01Cases["postfix"].desc)
}

// Sibling {% elseif %} branches of a single if recurse parseIfBody -> parseTag -> parseIf once per branch.
func TestC01_ElseifChainExhaustsStack(t *testing.T) {
	runC01Child(t, "elseif", c01Cases["elseif"].desc)
}

// A flat chain of left-associative operators is parsed in a loop, but yields a tree as deep
// as the chain is long; Tree.Parse then walks it recursively (Tree.traverse) before returning.
func TestC01_FlatBinaryChainExhaustsStackInTraverse(t *testing.T) {
	if testing.Short() {
		t.Skip("needs ~6 GB of memory and about a minute")
	}
	runC01Child(t, "traverse", c01Cases["traverse"].desc)
}

// Calling Tree.Parse a second time starts a second tokenising goroutine on the finished
// lexer; it closes the already closed token channel and the panic, being on a goroutine
// of the library, cannot be recovered by the caller.
func TestC01_SecondParseOfATreeCrashesProcess(t *testing.T) {
	runC01Child(t, "reparse", `t := parse.NewTree(strings.NewReader("hello {{ name }}")); t.Parse(); t.Parse()`)
}
