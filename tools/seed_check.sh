#!/bin/bash
# tools/seed_check.sh <patch.diff> <PROP> [<PROP>...]: apply a seeded change to a scratch worktree of /repo, confirm it builds
# and passes the repository's tests, then run the named checks against it (VERIF_REPO). Prints one line per check.
# BASE=<commit> applies the patch to that commit of /repo instead of HEAD (seeded patches name their base in meta.json).
set -u
patch=$1; shift
wt=$(mktemp -d /tmp/wt-seed-XXXXXX)
git -C /repo worktree add -q --detach "$wt" "${BASE:-HEAD}" || exit 2
if ! git -C "$wt" apply --whitespace=nowarn "$patch" 2>/tmp/seed_apply_err.txt; then
  echo "PATCH-DOES-NOT-APPLY $(head -2 /tmp/seed_apply_err.txt)"; git -C /repo worktree remove --force "$wt"; exit 2
fi
export GOFLAGS=-mod=mod GOPROXY=off GOSUMDB=off GOTOOLCHAIN=local
if ! (cd "$wt" && go build ./... && go vet ./... ) >/tmp/seed_build.txt 2>&1; then echo "BUILD-FAILS"; tail -3 /tmp/seed_build.txt; fi
if (cd "$wt" && go test -count=1 ./... && go test -count=1 -tags verif ./...) >/tmp/seed_test.txt 2>&1; then echo "repo tests: pass"; else echo "repo tests: FAIL"; grep -m3 "FAIL\|---" /tmp/seed_test.txt; fi
for p in "$@"; do
  t0=$(date +%s)
  VERIF_REPO="$wt" /verif/check "$p" --tier "${TIER:-quick}" > /tmp/seed_out_$p.txt 2>&1
  st=$?
  echo "check $p exit=$st ($(( $(date +%s) - t0 ))s) $(grep -m2 ' x ' /tmp/seed_out_$p.txt | tr -s ' ' | tr '\n' ';')$(grep -m1 INFRA /tmp/seed_out_$p.txt | cut -c1-200)"
done
git -C /repo worktree remove --force "$wt"; git -C /repo worktree prune; rm -rf "$wt"
