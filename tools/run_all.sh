#!/bin/bash
# tools/run_all.sh [tier] [seed]: every check once; prints id, exit status, wall time
tier=${1:-quick}; seed=${2:-1}
out=$(mktemp -d /tmp/run_all_${tier}_${seed}_XXXX)
for i in 01 02 03 04 05 06 07 08 09 10 11 12 13 14 15 16 17 18 19 20; do
  t0=$(date +%s)
  "$(dirname "$0")/../check" C$i --tier $tier --seed $seed > $out/C$i.out 2>&1
  st=$?
  echo "C$i exit=$st $(( $(date +%s) - t0 ))s $(grep -c '^VIOLATION' $out/C$i.out) viol $(grep -c '^KNOWN-FINDING' $out/C$i.out) known $(grep -m1 'INFRA' $out/C$i.out | cut -c1-150)"
done
echo "outputs in $out"
