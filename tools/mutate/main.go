// mutate: mechanical source mutants of tyler-sommer/stick, used to measure which realistic small slips the checks catch
// (tools/mutation_run.py drives it). Standard library only.
//
//	mutate list <file.go>            -> one JSON line per mutation point {"i":..,"line":..,"op":..,"desc":..}
//	mutate apply <file.go> <i> <out> -> writes the file with mutation i applied
package main

import (
	"bytes"
	"encoding/json"
	"fmt"
	"go/ast"
	"go/format"
	"go/parser"
	"go/token"
	"os"
	"strconv"
)

type point struct {
	I    int    `json:"i"`
	Line int    `json:"line"`
	Op   string `json:"op"`
	Desc string `json:"desc"`
	Func string `json:"func"`
	do   func()
}

var swaps = map[token.Token]token.Token{
	token.LSS: token.LEQ, token.LEQ: token.LSS, token.GTR: token.GEQ, token.GEQ: token.GTR,
	token.EQL: token.NEQ, token.NEQ: token.EQL, token.LAND: token.LOR, token.LOR: token.LAND,
	token.ADD: token.SUB, token.SUB: token.ADD,
}

func collect(fset *token.FileSet, f *ast.File) []*point {
	var pts []*point
	fn := ""
	add := func(pos token.Pos, op, desc string, do func()) {
		pts = append(pts, &point{I: len(pts), Line: fset.Position(pos).Line, Op: op, Desc: desc, Func: fn, do: do})
	}
	var walkBlock func(list *[]ast.Stmt)
	walkBlock = func(list *[]ast.Stmt) {
		for i := range *list {
			i := i
			st := (*list)[i]
			switch s := st.(type) {
			case *ast.ExprStmt:
				if _, ok := s.X.(*ast.CallExpr); ok {
					add(s.Pos(), "delcall", "delete call statement", func() { (*list)[i] = &ast.EmptyStmt{Semicolon: s.Pos()} })
				}
			case *ast.AssignStmt:
				if s.Tok != token.DEFINE {
					add(s.Pos(), "delassign", "delete assignment", func() { (*list)[i] = &ast.EmptyStmt{Semicolon: s.Pos()} })
				}
			case *ast.IncDecStmt:
				add(s.Pos(), "delincdec", "delete ++/--", func() { (*list)[i] = &ast.EmptyStmt{Semicolon: s.Pos()} })
			case *ast.DeferStmt:
				add(s.Pos(), "deldefer", "delete defer", func() { (*list)[i] = &ast.EmptyStmt{Semicolon: s.Pos()} })
			case *ast.BranchStmt:
				if s.Tok == token.BREAK && s.Label == nil {
					add(s.Pos(), "break2continue", "break -> continue", func() { s.Tok = token.CONTINUE })
				} else if s.Tok == token.CONTINUE && s.Label == nil {
					add(s.Pos(), "continue2break", "continue -> break", func() { s.Tok = token.BREAK })
				}
			}
		}
	}
	ast.Inspect(f, func(n ast.Node) bool {
		switch x := n.(type) {
		case *ast.FuncDecl:
			fn = x.Name.Name
		case *ast.BlockStmt:
			walkBlock(&x.List)
		case *ast.CaseClause:
			walkBlock(&x.Body)
		case *ast.CommClause:
			walkBlock(&x.Body)
		case *ast.BinaryExpr:
			if to, ok := swaps[x.Op]; ok {
				from := x.Op
				// string concatenation: + -> - does not compile; keep, the build filter drops it
				add(x.OpPos, "binop", fmt.Sprintf("%s -> %s", from, to), func() { x.Op = to })
			}
		case *ast.IfStmt:
			add(x.Cond.Pos(), "negif", "negate if condition", func() {
				x.Cond = &ast.UnaryExpr{Op: token.NOT, X: &ast.ParenExpr{X: x.Cond}}
			})
		case *ast.BasicLit:
			if x.Kind == token.INT {
				if v, err := strconv.ParseInt(x.Value, 0, 64); err == nil && v < 1000 {
					old := x.Value
					add(x.Pos(), "intlit", fmt.Sprintf("%s -> %d", old, v+1), func() { x.Value = strconv.FormatInt(v+1, 10) })
				}
			}
		case *ast.ReturnStmt:
			for _, r := range x.Results {
				if id, ok := r.(*ast.Ident); ok && (id.Name == "true" || id.Name == "false") {
					id := id
					add(id.Pos(), "retbool", "flip returned boolean", func() {
						if id.Name == "true" {
							id.Name = "false"
						} else {
							id.Name = "true"
						}
					})
				}
			}
		}
		return true
	})
	return pts
}

func main() {
	if len(os.Args) < 3 {
		fmt.Fprintln(os.Stderr, "usage: mutate list|apply file [i out]")
		os.Exit(2)
	}
	fset := token.NewFileSet()
	f, err := parser.ParseFile(fset, os.Args[2], nil, parser.ParseComments)
	if err != nil {
		fmt.Fprintln(os.Stderr, err)
		os.Exit(2)
	}
	pts := collect(fset, f)
	switch os.Args[1] {
	case "list":
		enc := json.NewEncoder(os.Stdout)
		for _, p := range pts {
			enc.Encode(p)
		}
	case "apply":
		i, _ := strconv.Atoi(os.Args[3])
		if i < 0 || i >= len(pts) {
			os.Exit(2)
		}
		pts[i].do()
		var buf bytes.Buffer
		if err := format.Node(&buf, fset, f); err != nil {
			fmt.Fprintln(os.Stderr, err)
			os.Exit(2)
		}
		if err := os.WriteFile(os.Args[4], buf.Bytes(), 0644); err != nil {
			fmt.Fprintln(os.Stderr, err)
			os.Exit(2)
		}
	}
}
