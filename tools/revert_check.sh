#!/bin/bash
# tools/revert_check.sh <fix-commit> <PROP> [tier]: undo one fix in a scratch worktree of /repo and run the property's check
# against it (VERIF_REPO); prints the exit status (1 = the reintroduced defect is detected).
set -u
c=$1; p=$2; tier=${3:-quick}
wt=$(mktemp -d /tmp/wt-XXXXXX)
git -C /repo worktree add -q --detach "$wt" HEAD || exit 2
if ! git -C /repo diff "$c^" "$c" | git -C "$wt" apply -R --whitespace=nowarn 2>/tmp/revert_err.txt; then
  echo "revert of $c does not apply: $(head -2 /tmp/revert_err.txt)"; git -C /repo worktree remove --force "$wt"; exit 2
fi
(cd "$wt" && GOFLAGS=-mod=mod GOPROXY=off GOSUMDB=off GOTOOLCHAIN=local go build ./... 2>&1 | head -3)
VERIF_REPO="$wt" /verif/check "$p" --tier "$tier" > /tmp/revert_out.txt 2>&1
st=$?
echo "revert $c -> check $p exit=$st  $(grep -c VIOLATION /tmp/revert_out.txt) violation lines; $(grep -m1 ' x ' /tmp/revert_out.txt)"
git -C /repo worktree remove --force "$wt"; git -C /repo worktree prune
rm -rf "$wt"
exit $st
