#!/usr/bin/env python3
"""tools/fixed.py <property> <sig> <what failed>: record the /repo HEAD commit as the repair of a defect."""
import json, subprocess, sys
prop, sig, what = sys.argv[1], sys.argv[2], sys.argv[3]
h = subprocess.check_output(["git", "-C", "/repo", "rev-parse", "--short", "HEAD"], text=True).strip()
rec = {"status": "fixed", "property": prop, "commit": h, "what": "fixed: property=%s %s %s" % (prop, h, what), "sig": sig}
open("/verif/known_findings.jsonl", "a").write(json.dumps(rec) + "\n")
print(rec["what"])
