#!/usr/bin/env python3
"""tools/mutation_run.py --n N --seed S --out FILE: mechanical mutation run.

Samples N mutation points of stick's sources (tools/mutate: operator swaps, negated conditions, deleted statements,
off-by-one literals, flipped booleans), applies each in a scratch worktree of /repo (never in /repo itself), keeps the
mutants that still build and pass the repository's own tests, and runs the checks that cover the mutated file against
them (VERIF_REPO). One JSON line per mutant is appended to FILE: nobuild | killed-by-repo-tests | caught (by which
check, with which signature) | survived | timeout.  Survivors are triaged by hand (equivalent / outside the listed
properties / a gap in a family); the triage is recorded in DESIGN.md 7.5.
"""
import argparse, json, os, random, shutil, subprocess, sys, tempfile, time

VERIF = os.path.dirname(os.path.dirname(os.path.abspath(__file__)))
ENV = dict(os.environ, GOFLAGS="-mod=mod", GOPROXY="off", GOSUMDB="off", GOTOOLCHAIN="local")
FILES = {
    "exec.go": "C06 C07 C11 C10 C08 C17 C12 C09 C05 C02",
    "value.go": "C16 C15 C05 C06 C02",
    "stick.go": "C17 C12 C18 C19 C10",
    "loader.go": "C17 C19 C10",
    "parse/lex.go": "C01 C14 C19 C20 C03 C05",
    "parse/parse.go": "C06 C01 C19 C20 C09 C03",
    "parse/parse_expr.go": "C04 C05 C11 C14 C01 C20",
    "parse/parse_tag.go": "C06 C07 C10 C11 C09 C14 C20 C03 C01",
    "parse/operator.go": "C04 C05 C14",
    "parse/expr.go": "C04 C20 C05",
    "parse/node.go": "C04 C20 C05",
    "parse/error.go": "C20 C17",
    "twig/escape/escape.go": "C13",
    "twig/escape.go": "C12",
    "twig/filter/filter.go": "C02",
}


def sh(cmd, cwd=None, timeout=None, env=ENV):
    try:
        p = subprocess.run(cmd, cwd=cwd, env=env, capture_output=True, text=True, timeout=timeout)
        return p.returncode, p.stdout + p.stderr
    except subprocess.TimeoutExpired as e:
        return 124, "timeout"


def main():
    ap = argparse.ArgumentParser()
    ap.add_argument("--n", type=int, default=100)
    ap.add_argument("--seed", type=int, default=1)
    ap.add_argument("--out", default="/tmp/mutation_results.jsonl")
    ap.add_argument("--files", default="")
    ap.add_argument("--check-timeout", type=int, default=600)
    a = ap.parse_args()
    tooldir = tempfile.mkdtemp(prefix="mut-tool-")
    mut = os.path.join(tooldir, "mutate")
    rc, out = sh(["go", "build", "-o", mut, "."], cwd=os.path.join(VERIF, "tools", "mutate"))
    if rc != 0:
        print(out); sys.exit(2)
    wt = tempfile.mkdtemp(prefix="mut-wt-")
    os.rmdir(wt)
    rc, out = sh(["git", "-C", "/repo", "worktree", "add", "-q", "--detach", wt, "HEAD"])
    if rc != 0:
        print(out); sys.exit(2)
    try:
        files = [f for f in FILES if not a.files or f in a.files.split(",")]
        points = []
        for f in files:
            rc, out = sh([mut, "list", os.path.join(wt, f)])
            for ln in out.splitlines():
                p = json.loads(ln); p["file"] = f
                points.append(p)
        rng = random.Random(a.seed)
        rng.shuffle(points)
        done = set()
        if os.path.exists(a.out):
            for ln in open(a.out):
                r = json.loads(ln); done.add((r["file"], r["i"]))
        todo = [p for p in points if (p["file"], p["i"]) not in done][: a.n]
        for p in todo:
            f = p["file"]
            path = os.path.join(wt, f)
            orig = open(path).read()
            res = dict(p); t0 = time.time()
            try:
                rc, out = sh([mut, "apply", path, str(p["i"]), path])
                if rc != 0:
                    res["result"] = "noapply"
                else:
                    rc, out = sh(["go", "build", "./..."], cwd=wt, timeout=300)
                    if rc != 0:
                        res["result"] = "nobuild"
                    else:
                        rc, out = sh(["go", "test", "-count=1", "./..."], cwd=wt, timeout=180)
                        if rc != 0:
                            res["result"] = "killed-by-repo-tests"
                        else:
                            res["result"] = "survived"; res["ran"] = []
                            for c in FILES[f].split():
                                rc, out = sh([os.path.join(VERIF, "check"), c, "--tier", "quick"], timeout=a.check_timeout,
                                             env=dict(ENV, VERIF_REPO=wt))
                                res["ran"].append([c, rc])
                                if rc == 1:
                                    sig = [l.strip() for l in out.splitlines() if " x " in l][:2]
                                    res["result"] = "caught"; res["by"] = c; res["sig"] = sig
                                    break
                                if rc == 124:
                                    res["result"] = "timeout"; res["by"] = c
                                    break
                                if rc == 2:
                                    res.setdefault("infra", []).append([c, out[-300:]])
            finally:
                open(path, "w").write(orig)
            res["secs"] = round(time.time() - t0, 1)
            with open(a.out, "a") as fo:
                fo.write(json.dumps(res) + "\n")
            print(res["file"], res["line"], res["op"], res["desc"], "->", res["result"], res.get("by", ""), res["secs"], flush=True)
    finally:
        sh(["git", "-C", "/repo", "worktree", "remove", "--force", wt])
        sh(["git", "-C", "/repo", "worktree", "prune"])
        shutil.rmtree(wt, ignore_errors=True)
        shutil.rmtree(tooldir, ignore_errors=True)


if __name__ == "__main__":
    main()
