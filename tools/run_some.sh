#!/bin/bash
# tools/run_some.sh tier seed id...: the named checks once each; prints id, exit status, wall time
tier=$1; seed=$2; shift 2
out=$(mktemp -d /tmp/run_some_${tier}_${seed}_XXXX)
for id in "$@"; do
  t0=$(date +%s)
  "$(dirname "$0")/../check" $id --tier $tier --seed $seed > $out/$id.out 2>&1
  st=$?
  echo "$id exit=$st $(( $(date +%s) - t0 ))s $(grep -c '^VIOLATION' $out/$id.out) viol $(grep -c '^KNOWN-FINDING' $out/$id.out) known $(grep -m1 'INFRA' $out/$id.out | cut -c1-150)"
done
echo "outputs in $out"
