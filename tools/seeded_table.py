#!/usr/bin/env python3
"""tools/seeded_table.py: regenerate the table of seeded changes in DESIGN.md (between the seeded-table markers) from seeded/*/meta.json."""
import glob, json, os, re
V = os.path.dirname(os.path.dirname(os.path.abspath(__file__)))
rows = ["| id | property | change (abridged) | first run | caught by (now) |", "|---|---|---|---|---|"]
for d in sorted(glob.glob(os.path.join(V, "seeded", "C*-*"))):
    mp = os.path.join(d, "meta.json")
    if not os.path.exists(mp):
        continue
    m = json.load(open(mp))
    summ = (m.get("summary") or "").replace("\n", " ").replace("|", "/")
    if len(summ) > 230:
        summ = summ[:230] + "..."
    fr = m.get("first_run")
    if fr is None:
        fr = "caught" if "first run" in m.get("detection", "") else "missed"
    else:
        fr = "caught" if fr.startswith("caught") else "missed"
    by = ", ".join("`./check %s`" % p for p in m.get("detected_by", [])) or "NOT CAUGHT"
    rows.append("| %s | %s | %s | %s | %s |" % (m["id"], m["property"], summ, fr, by))
p = os.path.join(V, "DESIGN.md")
s = open(p).read()
s2 = re.sub(r"<!-- seeded-table-begin -->.*?<!-- seeded-table-end -->",
            "<!-- seeded-table-begin -->\n" + "\n".join(rows) + "\n<!-- seeded-table-end -->", s, flags=re.S)
open(p, "w").write(s2)
print(len(rows) - 2, "rows")
