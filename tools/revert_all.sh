#!/bin/bash
# tools/revert_all.sh: every recorded fix, undone one at a time in a scratch worktree, must make its property's check fail.
python3 - <<'PY' > /tmp/revert_list.txt
import json
seen=set()
for l in open('/verif/known_findings.jsonl'):
    r=json.loads(l)
    if r.get('status')=='fixed' and (r['commit'],r['property']) not in seen:
        seen.add((r['commit'],r['property'])); print(r['commit'],r['property'])
PY
while read c p; do /verif/tools/revert_check.sh $c $p; done < /tmp/revert_list.txt
