package main

import (
	"fmt"
	"sort"

	"github.com/tyler-sommer/stick/parse"
)

// PNode is the public AST of a parsed template in the interchange schema, with the position each node reports.
type PNode struct {
	K      string   `json:"k"`
	Line   int      `json:"line"`
	Col    int      `json:"col"`
	Op     string   `json:"op,omitempty"`
	Name   string   `json:"name,omitempty"`
	Txt    string   `json:"txt,omitempty"`
	Data   *Bytes   `json:"d,omitempty"`
	B      *bool    `json:"b,omitempty"`
	Neg    *bool    `json:"neg,omitempty"`
	Kids   []*PNode `json:"kids,omitempty"`
	Origin string   `json:"origin,omitempty"`
}

func pos(n parse.Node) (int, int) {
	p := n.Start()
	return p.Line, p.Offset
}

func mk(k string, n parse.Node, kids ...*PNode) *PNode {
	l, c := pos(n)
	out := &PNode{K: k, Line: l, Col: c}
	for _, kd := range kids {
		if kd != nil {
			out.Kids = append(out.Kids, kd)
		}
	}
	return out
}

func walkExprs(es []parse.Expr) []*PNode {
	var out []*PNode
	for _, e := range es {
		out = append(out, walkNode(e))
	}
	return out
}

// walkNode converts the exported structure of a parse tree. Unknown node types become k="?<type>".
func walkNode(n parse.Node) *PNode {
	if n == nil {
		return nil
	}
	switch x := n.(type) {
	case *parse.ModuleNode:
		out := mk("module", x)
		out.Origin = x.Origin
		if x.Parent != nil {
			out.Kids = append(out.Kids, walkNode(x.Parent))
		}
		if x.BodyNode != nil {
			for _, c := range x.BodyNode.All() {
				out.Kids = append(out.Kids, walkNode(c))
			}
		}
		return out
	case *parse.BodyNode:
		if x == nil {
			return nil
		}
		out := mk("body", x)
		for _, c := range x.All() {
			out.Kids = append(out.Kids, walkNode(c))
		}
		return out
	case *parse.TextNode:
		out := mk("text", x)
		b := Bytes(x.Data)
		out.Data = &b
		return out
	case *parse.CommentNode:
		out := mk("comment", x)
		b := Bytes(x.Data)
		out.Data = &b
		return out
	case *parse.PrintNode:
		return mk("print", x, walkNode(x.X))
	case *parse.BlockNode:
		out := mk("block", x, walkNode(x.Body))
		out.Name = x.Name
		out.Origin = x.Origin
		return out
	case *parse.IfNode:
		return mk("if", x, walkNode(x.Cond), walkNode(x.Body), walkNode(x.Else))
	case *parse.ExtendsNode:
		return mk("extends", x, walkNode(x.Tpl))
	case *parse.ForNode:
		out := mk("for", x, walkNode(x.X), walkNode(x.Body), walkNode(x.Else))
		out.Name = x.Key + "," + x.Val
		return out
	case *parse.IncludeNode:
		out := mk("include", x, walkNode(x.Tpl))
		if x.With != nil {
			out.Kids = append(out.Kids, walkNode(x.With))
		}
		return out
	case *parse.EmbedNode:
		out := mk("embed", x, walkNode(x.Tpl))
		if x.With != nil {
			out.Kids = append(out.Kids, walkNode(x.With))
		}
		names := make([]string, 0, len(x.Blocks))
		for nm := range x.Blocks {
			names = append(names, nm)
		}
		sort.Strings(names)
		for _, nm := range names {
			out.Kids = append(out.Kids, walkNode(x.Blocks[nm]))
		}
		return out
	case *parse.UseNode:
		return mk("use", x, walkNode(x.Tpl))
	case *parse.SetNode:
		out := mk("set", x, walkNode(x.X))
		out.Name = x.Name
		return out
	case *parse.DoNode:
		return mk("do", x, walkNode(x.X))
	case *parse.FilterNode:
		out := mk("filter", x, walkNode(x.Body))
		out.Name = fmt.Sprint(x.Filters)
		return out
	case *parse.MacroNode:
		out := mk("macro", x, walkNode(x.Body))
		out.Name = x.Name
		out.Origin = x.Origin
		return out
	case *parse.ImportNode:
		out := mk("import", x, walkNode(x.Tpl))
		out.Name = x.Alias
		return out
	case *parse.FromNode:
		return mk("from", x, walkNode(x.Tpl))
	// expressions
	case *parse.NameExpr:
		out := mk("name", x)
		out.Name = x.Name
		return out
	case *parse.NullExpr:
		return mk("null", x)
	case *parse.BoolExpr:
		out := mk("bool", x)
		b := x.Value
		out.B = &b
		return out
	case *parse.NumberExpr:
		out := mk("num", x)
		out.Txt = x.Value
		return out
	case *parse.StringExpr:
		out := mk("str", x)
		b := Bytes(x.Text)
		out.Data = &b
		return out
	case *parse.GroupExpr:
		return mk("group", x, walkNode(x.X))
	case *parse.UnaryExpr:
		out := mk("un", x, walkNode(x.X))
		out.Op = x.Op
		return out
	case *parse.BinaryExpr:
		if x.Op == parse.OpBinaryIs || x.Op == parse.OpBinaryIsNot {
			out := mk("test", x, walkNode(x.Left))
			neg := x.Op == parse.OpBinaryIsNot
			out.Neg = &neg
			if t, ok := x.Right.(*parse.TestExpr); ok && t != nil && t.FuncExpr != nil {
				out.Name = t.Name
				out.Kids = append(out.Kids, walkExprs(t.Args)...)
			} else {
				out.Kids = append(out.Kids, walkNode(x.Right))
			}
			return out
		}
		out := mk("bin", x, walkNode(x.Left), walkNode(x.Right))
		out.Op = x.Op
		return out
	case *parse.TernaryIfExpr:
		return mk("tern", x, walkNode(x.Cond), walkNode(x.TrueX), walkNode(x.FalseX))
	case *parse.FuncExpr:
		out := mk("call", x, walkExprs(x.Args)...)
		out.Name = x.Name
		return out
	case *parse.FilterExpr:
		out := mk("pipe", x, walkExprs(x.Args)...)
		out.Name = x.Name
		return out
	case *parse.TestExpr:
		out := mk("testname", x, walkExprs(x.Args)...)
		out.Name = x.Name
		return out
	case *parse.GetAttrExpr:
		out := mk("attr", x, walkNode(x.Cont), walkNode(x.Attr))
		out.Kids = append(out.Kids, walkExprs(x.Args)...)
		return out
	case *parse.ArrayExpr:
		return mk("arr", x, walkExprs(x.Elements)...)
	case *parse.HashExpr:
		out := mk("hash", x)
		for _, kv := range x.Elements {
			out.Kids = append(out.Kids, mk("pair", kv, walkNode(kv.Key), walkNode(kv.Value)))
		}
		return out
	case *parse.KeyValueExpr:
		return mk("pair", x, walkNode(x.Key), walkNode(x.Value))
	}
	return &PNode{K: fmt.Sprintf("?%T", n)}
}
