//go:build !verif

package main

func installHistHook() {}
