//go:build verif

package main

import "github.com/tyler-sommer/stick/parse"

func installHistHook() { parse.VerifHook = histRecord }
