package main

import (
	"encoding/json"
	"fmt"
	"math"
	"reflect"
	"sort"

	"github.com/tyler-sommer/stick"
)

// JSON encoding of template values, shared with spec/Values.tla (ToJson of the TLA+ records):
//
//	{"t":"null"} {"t":"bool","b":true} {"t":"num","q":96}   (q/64)
//	{"t":"str","s":[bytes]} {"t":"arr","els":[..]} {"t":"hash","pairs":[[[key bytes], v], ..]}
//	{"t":"safe","v":..,"types":[..]} {"t":"go","id":"fixture"}
type JV struct {
	T     string            `json:"t"`
	B     bool              `json:"b,omitempty"`
	Q     *int64            `json:"q,omitempty"`
	F     string            `json:"f,omitempty"` // a number outside the fixed-point grid, as Go prints it
	S     *Bytes            `json:"s,omitempty"`
	Els   *[]JV             `json:"els,omitempty"`
	Pairs *[]JPair          `json:"pairs,omitempty"`
	V     *JV               `json:"v,omitempty"`
	Types []string          `json:"types,omitempty"`
	ID    string            `json:"id,omitempty"`
	GoT   string            `json:"type,omitempty"`
	Extra map[string]string `json:"-"`
}

type JPair struct {
	K Bytes
	V JV
}

func (p JPair) MarshalJSON() ([]byte, error) {
	return json.Marshal([]interface{}{p.K, p.V})
}

func (p *JPair) UnmarshalJSON(b []byte) error {
	var raw []json.RawMessage
	if err := json.Unmarshal(b, &raw); err != nil {
		return err
	}
	if len(raw) != 2 {
		return fmt.Errorf("pair must have two elements")
	}
	if err := json.Unmarshal(raw[0], &p.K); err != nil {
		return err
	}
	return json.Unmarshal(raw[1], &p.V)
}

// MarshalJSON: "b" must be present for booleans even when false.
func (v JV) MarshalJSON() ([]byte, error) {
	m := map[string]interface{}{"t": v.T}
	switch v.T {
	case "bool":
		m["b"] = v.B
	case "num":
		if v.Q != nil {
			m["q"] = *v.Q
		} else {
			m["f"] = v.F
		}
	case "str":
		if v.S == nil {
			m["s"] = Bytes{}
		} else {
			m["s"] = *v.S
		}
	case "arr":
		if v.Els == nil {
			m["els"] = []JV{}
		} else {
			m["els"] = *v.Els
		}
	case "hash":
		if v.Pairs == nil {
			m["pairs"] = []JPair{}
		} else {
			m["pairs"] = *v.Pairs
		}
	case "safe":
		m["v"] = v.V
		m["types"] = v.Types
	case "go":
		if v.ID != "" {
			m["id"] = v.ID
		}
		if v.GoT != "" {
			m["type"] = v.GoT
		}
	}
	return json.Marshal(m)
}

// toGo builds the Go value a template receives.
func (v JV) toGo() (stick.Value, error) {
	switch v.T {
	case "null":
		return nil, nil
	case "bool":
		return v.B, nil
	case "num":
		if v.Q == nil {
			return nil, fmt.Errorf("num without q")
		}
		return float64(*v.Q) / 64, nil
	case "str":
		if v.S == nil {
			return "", nil
		}
		return string(*v.S), nil
	case "arr":
		out := []stick.Value{}
		if v.Els != nil {
			for _, e := range *v.Els {
				g, err := e.toGo()
				if err != nil {
					return nil, err
				}
				out = append(out, g)
			}
		}
		return out, nil
	case "hash":
		out := map[string]stick.Value{}
		if v.Pairs != nil {
			for _, p := range *v.Pairs {
				g, err := p.V.toGo()
				if err != nil {
					return nil, err
				}
				out[string(p.K)] = g
			}
		}
		return out, nil
	case "safe":
		g, err := v.V.toGo()
		if err != nil {
			return nil, err
		}
		return stick.NewSafeValue(g, v.Types...), nil
	case "go":
		return fixtureByID(v.ID)
	case "gostr":
		if v.S == nil {
			return vStringer{""}, nil
		}
		return vStringer{string(*v.S)}, nil
	}
	return nil, fmt.Errorf("cannot build value of kind %q", v.T)
}

func numJV(f float64) JV {
	if !math.IsInf(f, 0) && !math.IsNaN(f) && math.Abs(f) < 3.3e7 {
		q := f * 64
		if q == math.Trunc(q) && !(f == 0 && math.Signbit(f)) {
			i := int64(q)
			return JV{T: "num", Q: &i}
		}
	}
	return JV{T: "num", F: fmt.Sprintf("%v", f)}
}

func strJV(s string) JV {
	b := Bytes(s)
	return JV{T: "str", S: &b}
}

// fromGo describes a value observed in the real code (callback arguments, probed scopes).
func fromGo(x stick.Value) JV {
	return fromGoD(x, 0)
}

func fromGoD(x stick.Value, depth int) JV {
	if depth > 8 {
		return JV{T: "go", GoT: "too deep"}
	}
	switch v := x.(type) {
	case nil:
		return JV{T: "null"}
	case bool:
		return JV{T: "bool", B: v}
	case float64:
		return numJV(v)
	case int:
		return numJV(float64(v))
	case string:
		return strJV(v)
	case stick.SafeValue:
		if rv := reflect.ValueOf(x); rv.Kind() == reflect.Ptr && rv.IsNil() {
			return JV{T: "go", GoT: fmt.Sprintf("nil %T", x)}
		}
		inner, ok := func() (iv stick.Value, ok bool) {
			defer func() {
				if recover() != nil {
					ok = false
				}
			}()
			return v.Value(), true
		}()
		if !ok {
			return JV{T: "go", GoT: fmt.Sprintf("unusable %T", x)} // e.g. a struct embedding a nil SafeValue
		}
		in := fromGoD(inner, depth+1)
		ts := v.SafeFor()
		sort.Strings(ts)
		return JV{T: "safe", V: &in, Types: ts}
	case []stick.Value:
		els := make([]JV, len(v))
		for i, e := range v {
			els[i] = fromGoD(e, depth+1)
		}
		return JV{T: "arr", Els: &els}
	case []float64:
		els := make([]JV, len(v))
		for i, e := range v {
			els[i] = numJV(e)
		}
		return JV{T: "arr", Els: &els}
	case map[string]stick.Value:
		keys := make([]string, 0, len(v))
		for k := range v {
			keys = append(keys, k)
		}
		sort.Strings(keys)
		ps := make([]JPair, 0, len(v))
		for _, k := range keys {
			ps = append(ps, JPair{Bytes(k), fromGoD(v[k], depth+1)})
		}
		return JV{T: "hash", Pairs: &ps}
	}
	tn := fmt.Sprintf("%T", x)
	switch tn {
	case "stick.macroSet":
		return JV{T: "macros"}
	case "stick.selfValue":
		return JV{T: "self"}
	}
	rv := reflect.ValueOf(x)
	switch rv.Kind() {
	case reflect.Int, reflect.Int8, reflect.Int16, reflect.Int32, reflect.Int64:
		return numJV(float64(rv.Int()))
	case reflect.Uint, reflect.Uint8, reflect.Uint16, reflect.Uint32, reflect.Uint64:
		return numJV(float64(rv.Uint()))
	case reflect.Float32, reflect.Float64:
		return numJV(rv.Float())
	case reflect.String:
		if _, isStringer := x.(fmt.Stringer); !isStringer {
			return strJV(rv.String()) // a defined type over string (type colour string)
		}
	case reflect.Bool:
		return JV{T: "bool", B: rv.Bool()}
	}
	switch rv.Kind() {
	case reflect.Slice, reflect.Array:
		els := make([]JV, rv.Len())
		for i := range els {
			els[i] = fromGoD(rv.Index(i).Interface(), depth+1)
		}
		return JV{T: "arr", Els: &els}
	case reflect.Ptr:
		if rv.IsNil() {
			return JV{T: "go", GoT: "nil " + tn}
		}
	}
	return JV{T: "go", GoT: tn}
}
