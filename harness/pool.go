package main

import (
	"bufio"
	"encoding/json"
	"flag"
	"fmt"
	"io"
	"os"
	"os/exec"
	"strings"
	"sync"
	"time"
)

// The pool never executes stick code itself: panics in stick's tokeniser
// goroutine cannot be recovered and some defects spin forever, so every case
// runs in a worker subprocess under a wall-clock deadline. A worker that dies
// or misses the deadline is killed and the in-flight case is re-run alone in a
// fresh worker with a longer deadline; only a second failure is reported.

type caseHead struct {
	ID    string `json:"id"`
	Dl    int    `json:"dl"`    // optional per-case deadline in ms
	Fresh bool   `json:"fresh"` // run in a worker process of its own (no state warmed up by earlier cases)
}

type wproc struct {
	cmd    *exec.Cmd
	in     io.WriteCloser
	out    *bufio.Reader
	errbuf *tailBuf
	lines  chan string
}

type tailBuf struct {
	mu  sync.Mutex
	buf []byte
}

func (t *tailBuf) Write(p []byte) (int, error) {
	t.mu.Lock()
	t.buf = append(t.buf, p...)
	if len(t.buf) > 6000 {
		// keep the head (panic message) and the tail
		t.buf = append(t.buf[:3000:3000], t.buf[len(t.buf)-3000:]...)
	}
	t.mu.Unlock()
	return len(p), nil
}

func (t *tailBuf) String() string {
	t.mu.Lock()
	defer t.mu.Unlock()
	return string(t.buf)
}

func startWorker() (*wproc, error) {
	self, err := os.Executable()
	if err != nil {
		return nil, err
	}
	cmd := exec.Command(self, "worker")
	in, err := cmd.StdinPipe()
	if err != nil {
		return nil, err
	}
	out, err := cmd.StdoutPipe()
	if err != nil {
		return nil, err
	}
	tb := &tailBuf{}
	cmd.Stderr = tb
	if err := cmd.Start(); err != nil {
		return nil, err
	}
	w := &wproc{cmd: cmd, in: in, out: bufio.NewReaderSize(out, 1<<20), errbuf: tb, lines: make(chan string, 1)}
	go func() {
		for {
			l, err := w.out.ReadString('\n')
			if err != nil {
				close(w.lines)
				return
			}
			w.lines <- l
		}
	}()
	return w, nil
}

func (w *wproc) kill() {
	w.in.Close()
	w.cmd.Process.Kill()
	w.cmd.Wait()
}

// run sends one case; returns the observation line, or "" and a failure kind.
func (w *wproc) run(line string, dl time.Duration) (string, string) {
	if _, err := io.WriteString(w.in, line); err != nil {
		return "", "crash"
	}
	select {
	case l, ok := <-w.lines:
		if !ok {
			return "", "crash"
		}
		return l, ""
	case <-time.After(dl):
		return "", "hang"
	}
}

func poolMain(args []string) int {
	fs := flag.NewFlagSet("pool", flag.ExitOnError)
	nw := fs.Int("workers", 16, "worker processes")
	dlms := fs.Int("deadline", 2000, "default per-case deadline in ms")
	fs.Parse(args)

	in := bufio.NewReaderSize(os.Stdin, 1<<20)
	out := bufio.NewWriterSize(os.Stdout, 1<<20)
	var outMu sync.Mutex
	emit := func(s string) {
		outMu.Lock()
		out.WriteString(s)
		if !strings.HasSuffix(s, "\n") {
			out.WriteByte('\n')
		}
		outMu.Unlock()
	}

	work := make(chan string, 256)
	var wg sync.WaitGroup
	fatal := make(chan error, *nw)
	for i := 0; i < *nw; i++ {
		wg.Add(1)
		go func() {
			defer wg.Done()
			var w *wproc
			defer func() {
				if w != nil {
					w.kill()
				}
			}()
			for line := range work {
				var h caseHead
				if err := json.Unmarshal([]byte(line), &h); err != nil {
					emit(fmt.Sprintf(`{"id":"?","st":"badcase","err":%q}`, err.Error()))
					continue
				}
				dl := time.Duration(*dlms) * time.Millisecond
				if h.Dl > 0 {
					dl = time.Duration(h.Dl) * time.Millisecond
				}
				if h.Fresh && w != nil {
					w.kill()
					w = nil
				}
				if w == nil {
					var err error
					if w, err = startWorker(); err != nil {
						fatal <- err
						return
					}
				}
				res, fail := w.run(line, dl)
				if fail != "" {
					// kill, then re-run alone in a fresh worker with 3x the deadline
					w.kill()
					w = nil
					w2, err := startWorker()
					if err != nil {
						fatal <- err
						return
					}
					res, fail = w2.run(line, 3*dl)
					if fail != "" {
						time.Sleep(20 * time.Millisecond) // let stderr drain
						w2.kill()
						b, _ := json.Marshal(map[string]interface{}{
							"id": h.ID, "st": fail, "stderr": w2.errbuf.String(),
						})
						emit(string(b))
						continue
					}
					w = w2
				}
				emit(res)
				if h.Fresh && w != nil {
					w.kill()
					w = nil
				}
			}
		}()
	}
	for {
		line, err := in.ReadString('\n')
		if len(strings.TrimSpace(line)) > 0 {
			if !strings.HasSuffix(line, "\n") {
				line += "\n"
			}
			work <- line
		}
		if err != nil {
			break
		}
	}
	close(work)
	wg.Wait()
	out.Flush()
	select {
	case err := <-fatal:
		fmt.Fprintln(os.Stderr, "pool: cannot start worker:", err)
		return 2
	default:
	}
	return 0
}
