package main

import (
	"fmt"
	"math"
	"strconv"
	"strings"
	"time"

	"github.com/shopspring/decimal"
	"github.com/tyler-sommer/stick"
)

// Fixture catalogue: Go values that TLA+ cannot construct. The specification refers to them by an id
// string whose grammar is fixed here; the abstract content the spec assumes for each id is spelled out in
// spec/props/C15.tla and C16.tla (this file is part of the trusted base).
//
//	num:<kind>:<q>         numeric carrier of kind int,int8..uint64,float32,float64 holding q/64
//	big:<kind>:max|min     extreme value of the kind
//	huge:<float>|inf|-inf|nan   float64 outside the fixed-point window
//	time:<RFC3339>         time.Time
//	nil                    untyped nil
//	nilptr:<T>             typed nil pointer; T in int,string,struct,slice,map,vstringer,pstringer,vnumber,vboolean,person
//	ptr:<id>               pointer to the value of another fixture (ints, strings, slices, maps, structs)
//	str:<text>             string (text may not contain ':'; "%20" style escapes for space: "_" is kept literally)
//	bool:t|f
//	slice:<T>:a,b,c        []int / []string / []Value ; "slice:int:" is empty
//	array3                 [3]int{7,8,9}
//	map:ss:k=v,..          map[string]string; map:si map[string]int; map:is map[int]string; map:sv map[string]Value;
//	                       map:bs map[bool]string; map:fs map[float64]string
//	struct:person          person{Name:"Ann", Age:30, secret:"s"} with methods
//	stringer:<text>        value type with a value-receiver String()
//	pstringer:<text>       pointer to a type with a nil-safe pointer-receiver String()
//	number:<q>  boolean:t|f   value types implementing stick.Number / stick.Boolean
//	decimal:<q>            decimal.Decimal holding q/64
//	safe:<n>:<id>          n nested stick.NewSafeValue wrappers around fixture <id>

type vStringer struct{ s string }

func (v vStringer) String() string { return v.s }

type pStringer struct{ s string }

func (p *pStringer) String() string {
	if p == nil {
		return ""
	}
	return p.s
}

// pointer-receiver implementations: pStrict/pNumber/pBoolean dereference their receiver, pTolerant answers for nil too
type pStrict struct{ s string }

func (p *pStrict) String() string { return p.s }

type pNumber struct{ f float64 }

func (p *pNumber) Number() float64 { return p.f }

type pBoolean struct{ b bool }

func (p *pBoolean) Boolean() bool { return p.b }

type pTolerant struct{ s string }

func (p *pTolerant) String() string {
	if p == nil {
		return "empty"
	}
	return p.s
}
func (p *pTolerant) Number() float64 {
	if p == nil {
		return 7
	}
	return 1
}
func (p *pTolerant) Boolean() bool { return true }

// vAll implements Stringer, Number and Boolean with unrelated answers
type vAll struct {
	s string
	f float64
	b bool
}

func (v vAll) String() string  { return v.s }
func (v vAll) Number() float64 { return v.f }
func (v vAll) Boolean() bool   { return v.b }

// customSafe is an application's own implementation of stick.SafeValue (wrappers may nest).
type customSafe struct{ v stick.Value }

func (c customSafe) Value() stick.Value     { return c.v }
func (c customSafe) IsSafe(typ string) bool { return typ == "html" }
func (c customSafe) SafeFor() []string      { return []string{"html"} }

type vNumber struct{ f float64 }

func (v vNumber) Number() float64 { return v.f }

type vBoolean struct{ b bool }

func (v vBoolean) Boolean() bool { return v.b }

type person struct {
	Name   string
	Age    int
	Tags   []string
	Inner  *person
	secret string
}

func (p person) Greet(greeting string) string { return greeting + " " + p.Name }
func (p person) Nothing()                     {}
func (p person) Two() (int, int)              { return 1, 2 }
func (p person) Sum(a, b float64) float64     { return a + b }
func (p *person) Rename(n string) string      { old := p.Name; p.Name = n; return old }
func (p person) Self() person                 { return p }
func (p person) hidden() string               { return "hidden" }
func (p person) Wait(d userDur) string        { return fmt.Sprintf("waited %d", int64(d)) }
func (p person) Level(l userLevel) userLevel  { return l + 1 }

// named numeric types, as applications define them (type UserID int, time.Duration, ...)
type userID int
type userDur int64
type userLevel uint8

// a struct that embeds a nil pointer and a nil interface: the methods promoted from them exist in its method set, and
// calling one dereferences nil inside the compiler-generated wrapper (not inside any user code)
type embInner struct{ N int }

func (e embInner) Hello() string   { return "hello" }
func (e *embInner) PHello() string { return "phello" }

type embStringer struct{ fmt.Stringer }
type embNilOuter struct {
	*embInner
	Own string
}

// defined types over the basic kinds (type Colour string and friends): ordinary Go values, carried by their kind
type colour string
type weight float64
type onoff bool
type serial int64

// embedded structs: promoted fields through an exported embedded type and through a pointer to an unexported one
type Base struct {
	ID    int
	Title string
}
type hiddenBase struct{ Code int }
type embOuter struct {
	Base
	*hiddenBase
	Own string
}

// containers whose type also has a String method: still containers
type tagList []string

func (t tagList) String() string { return "tags:" + strings.Join(t, "+") }

type strMap map[string]string

func (m strMap) String() string { return fmt.Sprintf("strMap(%d)", len(m)) }

type funcFields struct {
	F func() string
	N func() string
	G func(int) string
	// functions that panic: with a string, a number, an error
	PS func() string
	PI func() string
	PE func() string
}

// Boom is a method that panics with a value that is no error.
func (funcFields) Boom() string { panic("boom") }

func newPerson() person {
	return person{Name: "Ann", Age: 30, Tags: []string{"x", "y"}, secret: "s"}
}

func numOfKind(kind string, f float64) (stick.Value, error) {
	integral := f == math.Trunc(f)
	need := func() error {
		if !integral {
			return fmt.Errorf("kind %s cannot hold %v", kind, f)
		}
		return nil
	}
	switch kind {
	case "int":
		return int(f), need()
	case "int8":
		return int8(f), need()
	case "int16":
		return int16(f), need()
	case "int32":
		return int32(f), need()
	case "int64":
		return int64(f), need()
	case "uint":
		return uint(f), need()
	case "uint8":
		return uint8(f), need()
	case "uint16":
		return uint16(f), need()
	case "uint32":
		return uint32(f), need()
	case "uint64":
		return uint64(f), need()
	case "float32":
		return float32(f), nil
	case "float64":
		return f, nil
	}
	return nil, fmt.Errorf("unknown numeric kind %q", kind)
}

func bigOfKind(kind, which string) (stick.Value, error) {
	max := which == "max"
	// an integer written out, carried by an integer kind (also a defined type or a uintptr): big:serial:9007199254740993
	if which != "max" && which != "min" && kind != "float32" && kind != "float64" {
		if strings.HasPrefix(kind, "u") {
			n, err := strconv.ParseUint(which, 10, 64)
			if err != nil {
				return nil, err
			}
			switch kind {
			case "uint64":
				return n, nil
			case "uint":
				return uint(n), nil
			case "uintptr":
				return uintptr(n), nil
			}
		} else {
			n, err := strconv.ParseInt(which, 10, 64)
			if err != nil {
				return nil, err
			}
			switch kind {
			case "int64":
				return n, nil
			case "int":
				return int(n), nil
			case "serial":
				return serial(n), nil
			}
		}
		return nil, fmt.Errorf("no big value for %q", kind)
	}
	switch kind {
	case "serial":
		if max {
			return serial(math.MaxInt64), nil
		}
		return serial(math.MinInt64), nil
	case "uintptr":
		if max {
			return uintptr(math.MaxUint64), nil
		}
		return uintptr(0), nil
	}
	switch kind {
	case "int64":
		if max {
			return int64(math.MaxInt64), nil
		}
		return int64(math.MinInt64), nil
	case "int32":
		if max {
			return int32(math.MaxInt32), nil
		}
		return int32(math.MinInt32), nil
	case "uint64":
		if max {
			return uint64(math.MaxUint64), nil
		}
		return uint64(0), nil
	case "uint32":
		if max {
			return uint32(math.MaxUint32), nil
		}
		return uint32(0), nil
	case "int":
		if max {
			return int(math.MaxInt64), nil
		}
		return int(math.MinInt64), nil
	case "float32", "float64":
		// an integral value written out, e.g. big:float32:33554448 (exactly representable: a multiple of 4 below 2^26)
		f, err := strconv.ParseFloat(which, 64)
		if err != nil {
			return nil, err
		}
		if kind == "float32" {
			return float32(f), nil
		}
		return f, nil
	}
	return nil, fmt.Errorf("no big value for %q", kind)
}

func splitList(s string) []string {
	if s == "" {
		return nil
	}
	return strings.Split(s, ",")
}

func fixtureByID(id string) (stick.Value, error) {
	parts := strings.SplitN(id, ":", 3)
	arg := func(i int) string {
		if i < len(parts) {
			return parts[i]
		}
		return ""
	}
	switch parts[0] {
	case "nil":
		return nil, nil
	case "num":
		q, err := strconv.ParseInt(arg(2), 10, 64)
		if err != nil {
			return nil, err
		}
		return numOfKind(arg(1), float64(q)/64)
	case "big":
		return bigOfKind(arg(1), arg(2))
	case "all":
		// all:<string>:<q>:<t|f>
		p4 := strings.SplitN(id, ":", 4)
		if len(p4) != 4 {
			return nil, fmt.Errorf("bad fixture id %q", id)
		}
		q, err := strconv.ParseInt(p4[2], 10, 64)
		if err != nil {
			return nil, err
		}
		return vAll{p4[1], float64(q) / 64, p4[3] == "t"}, nil
	case "tags":
		return tagList(splitList(arg(1))), nil
	case "smap":
		m := strMap{}
		for _, it := range splitList(arg(1)) {
			p := strings.SplitN(it, "=", 2)
			if len(p) == 2 {
				m[p[0]] = p[1]
			}
		}
		return m, nil
	case "time":
		return time.Parse(time.RFC3339, id[5:])
	case "huge":
		switch arg(1) {
		case "inf":
			return math.Inf(1), nil
		case "-inf":
			return math.Inf(-1), nil
		case "nan":
			return math.NaN(), nil
		}
		return strconv.ParseFloat(arg(1), 64)
	case "str":
		return strings.Replace(id[4:], "%20", " ", -1), nil
	case "bool":
		return arg(1) == "t", nil
	case "nilptr":
		switch arg(1) {
		case "int":
			return (*int)(nil), nil
		case "string":
			return (*string)(nil), nil
		case "struct", "person":
			return (*person)(nil), nil
		case "slice":
			return (*[]int)(nil), nil
		case "map":
			return (*map[string]string)(nil), nil
		case "vstringer":
			return (*vStringer)(nil), nil
		case "pstringer":
			return (*pStringer)(nil), nil
		case "vnumber":
			return (*vNumber)(nil), nil
		case "vboolean":
			return (*vBoolean)(nil), nil
		case "pstrict":
			return (*pStrict)(nil), nil
		case "pnumber":
			return (*pNumber)(nil), nil
		case "pboolean":
			return (*pBoolean)(nil), nil
		case "ptolerant":
			return (*pTolerant)(nil), nil
		}
	case "ptr":
		in, err := fixtureByID(id[4:])
		if err != nil {
			return nil, err
		}
		switch v := in.(type) {
		case int:
			return &v, nil
		case string:
			return &v, nil
		case []int:
			return &v, nil
		case []string:
			return &v, nil
		case []stick.Value:
			return &v, nil
		case map[string]string:
			return &v, nil
		case map[string]int:
			return &v, nil
		case map[int]string:
			return &v, nil
		case map[userID]string:
			return &v, nil
		case map[string]stick.Value:
			return &v, nil
		case person:
			return &v, nil
		case embOuter:
			return &v, nil
		case funcFields:
			return &v, nil
		case tagList:
			return &v, nil
		case strMap:
			return &v, nil
		case map[interface{}]string:
			return &v, nil
		case [3]int:
			return &v, nil
		case vStringer:
			return &v, nil
		}
		return nil, fmt.Errorf("cannot take a pointer to fixture %q", id[4:])
	case "slice":
		items := splitList(arg(2))
		switch arg(1) {
		case "int":
			out := []int{}
			for _, it := range items {
				n, err := strconv.Atoi(it)
				if err != nil {
					return nil, err
				}
				out = append(out, n)
			}
			return out, nil
		case "string":
			out := []string{}
			out = append(out, items...)
			return out, nil
		case "value":
			out := []stick.Value{}
			for _, it := range items {
				n, err := strconv.Atoi(it)
				if err != nil {
					out = append(out, it)
				} else {
					out = append(out, float64(n))
				}
			}
			return out, nil
		case "float":
			out := []float64{}
			for _, it := range items {
				f, err := strconv.ParseFloat(it, 64)
				if err != nil {
					return nil, err
				}
				out = append(out, f)
			}
			return out, nil
		case "nilint":
			return []int(nil), nil
		}
	case "array3":
		return [3]int{7, 8, 9}, nil
	case "map":
		kv := func() [][2]string {
			var out [][2]string
			for _, it := range splitList(arg(2)) {
				p := strings.SplitN(it, "=", 2)
				if len(p) == 2 {
					out = append(out, [2]string{p[0], p[1]})
				}
			}
			return out
		}
		switch arg(1) {
		case "ss":
			m := map[string]string{}
			for _, e := range kv() {
				m[e[0]] = e[1]
			}
			return m, nil
		case "si":
			m := map[string]int{}
			for _, e := range kv() {
				n, _ := strconv.Atoi(e[1])
				m[e[0]] = n
			}
			return m, nil
		case "is":
			m := map[int]string{}
			for _, e := range kv() {
				n, _ := strconv.Atoi(e[0])
				m[n] = e[1]
			}
			return m, nil
		case "sv":
			m := map[string]stick.Value{}
			for _, e := range kv() {
				m[e[0]] = e[1]
			}
			return m, nil
		case "bs":
			m := map[bool]string{}
			for _, e := range kv() {
				m[e[0] == "t"] = e[1]
			}
			return m, nil
		case "fs":
			m := map[float64]string{}
			for _, e := range kv() {
				f, _ := strconv.ParseFloat(e[0], 64)
				m[f] = e[1]
			}
			return m, nil
		case "ns":
			m := map[userID]string{}
			for _, e := range kv() {
				n, _ := strconv.Atoi(e[0])
				m[userID(n)] = e[1]
			}
			return m, nil
		case "ls":
			m := map[userLevel]string{}
			for _, e := range kv() {
				n, _ := strconv.Atoi(e[0])
				m[userLevel(n)] = e[1]
			}
			return m, nil
		case "vs":
			m := map[interface{}]string{}
			for _, e := range kv() {
				m[e[0]] = e[1]
			}
			return m, nil
		case "us":
			return map[uint64]string{math.MaxUint64: "x", 3: "three"}, nil
		case "cs":
			m := map[colour]int{}
			for _, e := range kv() {
				n, _ := strconv.Atoi(e[1])
				m[colour(e[0])] = n
			}
			return m, nil
		case "self":
			m := map[string]interface{}{}
			m["me"] = m
			return m, nil
		case "ptrself":
			// a map keyed by a pointer to a node that holds a map containing itself
			type node struct{ Links map[string]interface{} }
			n := &node{Links: map[string]interface{}{}}
			n.Links["me"] = n.Links
			return map[*node]int{n: 1}, nil
		case "mixed":
			return map[interface{}]string{1: "int", "1": "str", "true": "strtrue", true: "bool"}, nil
		case "nilss":
			return map[string]string(nil), nil
		}
	case "struct":
		if arg(1) == "person" {
			return newPerson(), nil
		}
		if arg(1) == "empty" {
			return struct{}{}, nil
		}
		if arg(1) == "embnil" {
			return embOuter{Base: Base{ID: 7, Title: "ti"}, Own: "own"}, nil
		}
		if arg(1) == "funcs" {
			return funcFields{F: func() string { return "x" },
				PS: func() string { panic("ps") },
				PI: func() string { panic(42) },
				PE: func() string { panic(fmt.Errorf("pe")) }}, nil
		}
		if arg(1) == "emb" {
			return embOuter{Base: Base{ID: 7, Title: "ti"}, hiddenBase: &hiddenBase{Code: 3}, Own: "own"}, nil
		}
	case "stringer":
		return vStringer{strings.Replace(id[9:], "%20", " ", -1)}, nil
	case "pstringer":
		return &pStringer{id[10:]}, nil
	case "number":
		q, err := strconv.ParseInt(arg(1), 10, 64)
		if err != nil {
			return nil, err
		}
		return vNumber{float64(q) / 64}, nil
	case "boolean":
		return vBoolean{arg(1) == "t"}, nil
	case "decimal":
		q, err := strconv.ParseInt(arg(1), 10, 64)
		if err != nil {
			return nil, err
		}
		return decimal.New(q*15625, -6), nil
	case "safe":
		n, err := strconv.Atoi(arg(1))
		if err != nil {
			return nil, err
		}
		in, err := fixtureByID(arg(2))
		if err != nil {
			return nil, err
		}
		for i := 0; i < n; i++ {
			in = stick.NewSafeValue(in, "html")
		}
		return in, nil
	case "csafe":
		n, err := strconv.Atoi(arg(1))
		if err != nil {
			return nil, err
		}
		in, err := fixtureByID(arg(2))
		if err != nil {
			return nil, err
		}
		for i := 0; i < n; i++ {
			in = customSafe{in}
		}
		return in, nil
	case "unhash":
		// comparable by type, unhashable by content
		return struct{ X interface{} }{[]int{1}}, nil
	case "named":
		switch arg(1) {
		case "int64":
			n, _ := strconv.ParseInt(arg(2), 10, 64)
			return serial(n), nil
		case "float64":
			f, _ := strconv.ParseFloat(arg(2), 64)
			return weight(f), nil
		case "string":
			return colour(arg(2)), nil
		case "bool":
			return onoff(arg(2) == "t"), nil
		case "uintptr":
			n, _ := strconv.ParseUint(arg(2), 10, 64)
			return uintptr(n), nil
		}
	case "csafedeep":
		// an application's own SafeValue wrapper, nested arg(1) times around "abc"
		n, _ := strconv.Atoi(arg(1))
		var in stick.Value = "abc"
		for i := 0; i < n; i++ {
			in = customSafe{in}
		}
		return in, nil
	case "embniltime":
		// MarshalJSON (and String) are promoted from the nil embedded pointer
		return struct {
			*time.Time
			N int
		}{}, nil
	case "embnilsafe":
		return struct{ stick.SafeValue }{}, nil
	case "embnilmethod":
		return embNilOuter{Own: "own"}, nil
	case "embnilstringer":
		return embStringer{}, nil
	case "nilptrsafe":
		return (*customSafe)(nil), nil
	case "chan":
		return make(chan int), nil
	case "func":
		return func() {}, nil
	case "complex":
		return complex(1, 2), nil
	}
	return nil, fmt.Errorf("unknown fixture id %q", id)
}
