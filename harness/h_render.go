package main

import (
	"bytes"
	"encoding/json"
	"errors"
	"fmt"
	"io"
	"io/ioutil"
	"math"
	"os"
	"path/filepath"
	"strings"

	"github.com/tyler-sommer/stick"
	"github.com/tyler-sommer/stick/twig"
)

// Event is one public observation of a run (binding T), in execution order.
type Event struct {
	E     string        `json:"e"`
	D     *Bytes        `json:"d,omitempty"`     // w: bytes handed to the destination writer
	OK    *bool         `json:"ok,omitempty"`    // w/load: the call succeeded
	Name  *Bytes        `json:"name,omitempty"`  // load: template name
	Kind  string        `json:"kind,omitempty"`  // cb: func|filter|test
	Fn    string        `json:"fn,omitempty"`    // cb: callback name
	Args  []JV          `json:"args,omitempty"`  // cb
	K     *JV           `json:"k,omitempty"`     // probe key
	Scope map[string]JV `json:"scope,omitempty"` // probe: ctx.Scope().All()
	TName *string       `json:"tname,omitempty"` // cb/probe: ctx.Name()
}

type recorder struct {
	log        []Event
	writeFail  int // fail the k-th write (1-based); 0 = never
	loadFail   int
	readFail   int // the contents of the k-th loaded template cannot be read to the end
	writes     int
	loads      int
	failedAt   int // index into log of the failed write, -1
	afterFail  int // Write calls after a failed one
	out        []byte
	srcs       map[string][]byte
	discardLog bool
}

var errInjected = errors.New("verif: injected fault")

func (r *recorder) Write(p []byte) (int, error) {
	r.writes++
	if r.failedAt >= 0 {
		r.afterFail++
	}
	ok := !(r.writeFail > 0 && r.writes == r.writeFail)
	b := Bytes(append([]byte(nil), p...))
	r.log = append(r.log, Event{E: "w", D: &b, OK: &ok})
	if !ok {
		r.failedAt = len(r.log) - 1
		return 0, errInjected
	}
	r.out = append(r.out, p...)
	return len(p), nil
}

type memTemplate struct {
	name string
	src  []byte
}

func (t *memTemplate) Name() string        { return t.name }
func (t *memTemplate) Contents() io.Reader { return strings.NewReader(string(t.src)) }

// failTemplate: a template whose contents cannot be read to the end (a loader over a medium that fails mid-way)
type failTemplate struct {
	name string
	src  []byte
}
type errReader struct{}

func (errReader) Read([]byte) (int, error) { return 0, errInjected }
func (t *failTemplate) Name() string       { return t.name }
func (t *failTemplate) Contents() io.Reader {
	return io.MultiReader(strings.NewReader(string(t.src[:len(t.src)/2])), errReader{})
}

func (r *recorder) Load(name string) (stick.Template, error) {
	r.loads++
	nb := Bytes(name)
	src, found := r.srcs[name]
	ok := found && !(r.loadFail > 0 && r.loads == r.loadFail) && !(r.readFail > 0 && r.loads == r.readFail)
	r.log = append(r.log, Event{E: "load", Name: &nb, OK: &ok})
	if found && r.readFail > 0 && r.loads == r.readFail {
		return &failTemplate{name, src}, nil
	}
	if r.loadFail > 0 && r.loads == r.loadFail {
		return nil, errInjected
	}
	if !found {
		return nil, os.ErrNotExist
	}
	return &memTemplate{name, src}, nil
}

func (r *recorder) cb(kind, fn string, ctx stick.Context, args []stick.Value) {
	a := make([]JV, len(args))
	for i, x := range args {
		a[i] = fromGo(x)
	}
	tn := ctx.Name()
	r.log = append(r.log, Event{E: "cb", Kind: kind, Fn: fn, Args: a, TName: &tn})
}

func asciiUpper(s string) string {
	b := []byte(s)
	for i, c := range b {
		if c >= 'a' && c <= 'z' {
			b[i] = c - 32
		}
	}
	return string(b)
}

// register installs the harness callbacks. They are race-free and never panic.
func (r *recorder) register(env *stick.Env, twigEnv bool) {
	env.Functions["_p"] = func(ctx stick.Context, args ...stick.Value) stick.Value {
		var k JV
		if len(args) > 0 {
			k = fromGo(args[0])
		} else {
			k = JV{T: "null"}
		}
		sc := map[string]JV{}
		for n, v := range ctx.Scope().All() {
			sc[n] = fromGo(v)
		}
		tn := ctx.Name()
		r.log = append(r.log, Event{E: "probe", K: &k, Scope: sc, TName: &tn})
		return ""
	}
	env.Functions["id"] = func(ctx stick.Context, args ...stick.Value) stick.Value {
		r.cb("func", "id", ctx, args)
		if len(args) > 0 {
			return args[0]
		}
		return nil
	}
	env.Functions["nul"] = func(ctx stick.Context, args ...stick.Value) stick.Value {
		r.cb("func", "nul", ctx, args)
		return nil
	}
	env.Filters["rec"] = func(ctx stick.Context, val stick.Value, args ...stick.Value) stick.Value {
		r.cb("filter", "rec", ctx, append([]stick.Value{val}, args...))
		return val
	}
	env.Filters["up"] = func(ctx stick.Context, val stick.Value, args ...stick.Value) stick.Value {
		r.cb("filter", "up", ctx, append([]stick.Value{val}, args...))
		return asciiUpper(stick.CoerceString(val))
	}
	env.Filters["mark"] = func(ctx stick.Context, val stick.Value, args ...stick.Value) stick.Value {
		r.cb("filter", "mark", ctx, append([]stick.Value{val}, args...))
		return stick.NewSafeValue(val, "html")
	}
	env.Filters["wrap"] = func(ctx stick.Context, val stick.Value, args ...stick.Value) stick.Value {
		r.cb("filter", "wrap", ctx, append([]stick.Value{val}, args...))
		w := "|"
		if len(args) > 0 {
			w = stick.CoerceString(args[0])
		}
		return w + stick.CoerceString(val) + w
	}
	parity := func(name string, want float64) stick.Test {
		return func(ctx stick.Context, val stick.Value, args ...stick.Value) bool {
			r.cb("test", name, ctx, append([]stick.Value{val}, args...))
			return math.Mod(math.Abs(stick.CoerceNumber(val)), 2) == want
		}
	}
	env.Tests["odd"] = parity("odd", 1)
	env.Tests["even"] = parity("even", 0)
	env.Tests["yes"] = func(ctx stick.Context, val stick.Value, args ...stick.Value) bool {
		r.cb("test", "yes", ctx, append([]stick.Value{val}, args...))
		return true
	}
	env.Tests["divisible by"] = func(ctx stick.Context, val stick.Value, args ...stick.Value) bool {
		r.cb("test", "divisible by", ctx, append([]stick.Value{val}, args...))
		if len(args) == 0 {
			return false
		}
		d := stick.CoerceNumber(args[0])
		if d == 0 {
			return false
		}
		return math.Mod(stick.CoerceNumber(val), d) == 0
	}
}

type renderCase struct {
	Env    string                    `json:"env"`
	Tpls   json.RawMessage           `json:"tpls"`
	Srcs   json.RawMessage           `json:"srcs"`
	Entry  string                    `json:"entry"`
	Ctx    json.RawMessage           `json:"ctx"`
	Sp     Spelling                  `json:"sp"`
	Fault  struct{ Write, Load int } `json:"fault"`
	Safe   bool                      `json:"safe"`
	NoLog  bool                      `json:"nolog"`
	Loader string                    `json:"loader"` // "" recording loader | "memory" | "fs": the library's own loaders
	Inline bool                      `json:"inline"` // execute the entry template\'s source through the default StringLoader
}

// makeLoader returns the loader a case asks for: "" the recording loader (the default), "memory" stick.MemoryLoader, "fs"
// stick.FilesystemLoader on a scratch directory holding the sources (names that cannot be file names are left out). The
// second result removes the scratch directory.
func makeLoader(kind string, srcs map[string][]byte, rec *recorder) (stick.Loader, func(), error) {
	switch kind {
	case "", "rec":
		return rec, func() {}, nil
	case "memory":
		m := map[string]string{}
		for n, s := range srcs {
			m[n] = string(s)
		}
		return &stick.MemoryLoader{Templates: m}, func() {}, nil
	case "fs":
		dir, err := ioutil.TempDir("", "verif-fs-")
		if err != nil {
			return nil, nil, err
		}
		for n, s := range srcs {
			if n == "" || strings.HasSuffix(n, "/") || strings.Contains(n, "\x00") {
				continue
			}
			p := filepath.Join(dir, n)
			if !strings.HasPrefix(p, dir+string(os.PathSeparator)) {
				continue
			}
			os.MkdirAll(filepath.Dir(p), 0755)
			ioutil.WriteFile(p, s, 0644)
		}
		return stick.NewFilesystemLoader(dir), func() { os.RemoveAll(dir) }, nil
	}
	return nil, nil, fmt.Errorf("unknown loader %q", kind)
}

func buildSources(c *renderCase) (map[string][]byte, error) {
	srcs := map[string][]byte{}
	var tpls map[string][]Node
	if err := decodeObj(c.Tpls, &tpls); err != nil {
		return nil, fmt.Errorf("tpls: %v", err)
	}
	for name, stmts := range tpls {
		s, err := Unparse(stmts, c.Sp)
		if err != nil {
			return nil, err
		}
		srcs[name] = s
	}
	var raw map[string]Bytes
	if err := decodeObj(c.Srcs, &raw); err != nil {
		return nil, fmt.Errorf("srcs: %v", err)
	}
	for name, b := range raw {
		srcs[name] = b
	}
	return srcs, nil
}

func buildCtx(raw json.RawMessage) (map[string]stick.Value, error) {
	var jc map[string]JV
	if err := decodeObj(raw, &jc); err != nil {
		return nil, fmt.Errorf("ctx: %v", err)
	}
	ctx := map[string]stick.Value{}
	for n, v := range jc {
		g, err := v.toGo()
		if err != nil {
			return nil, err
		}
		ctx[n] = g
	}
	return ctx, nil
}

func errInfo(err error) map[string]interface{} {
	info := map[string]interface{}{"msg": err.Error(), "type": fmt.Sprintf("%T", err)}
	type named interface{ Name() string }
	if n, ok := err.(named); ok {
		info["name"] = n.Name()
	}
	line, col, ok := errPos(err)
	if ok {
		info["line"] = line
		info["col"] = col
	}
	return info
}

func init() {
	// {"k":"render", env, tpls|srcs, entry, ctx, sp, fault, safe} -> {srcs, status, err, out, log}
	handlers["render"] = func(raw json.RawMessage) (interface{}, error) {
		var c renderCase
		if err := json.Unmarshal(raw, &c); err != nil {
			return nil, err
		}
		srcs, err := buildSources(&c)
		if err != nil {
			return nil, err
		}
		ctx, err := buildCtx(c.Ctx)
		if err != nil {
			return nil, err
		}
		rec := &recorder{srcs: srcs, writeFail: c.Fault.Write, loadFail: c.Fault.Load, failedAt: -1}
		var env *stick.Env
		var loader stick.Loader = rec
		if c.Loader != "" {
			l2, cleanup, err := makeLoader(c.Loader, srcs, rec)
			if err != nil {
				return nil, err
			}
			defer cleanup()
			loader = l2
		}
		entry := c.Entry
		if c.Inline {
			loader = nil
			entry = string(srcs[c.Entry])
		}
		if c.Env == "twig" {
			env = twig.New(loader)
		} else {
			env = stick.New(loader)
		}
		rec.register(env, c.Env == "twig")
		var xerr error
		if c.Safe {
			xerr = env.ExecuteSafe(entry, rec, ctx)
		} else {
			xerr = env.Execute(entry, rec, ctx)
		}
		obs := map[string]interface{}{
			"status":     "ok",
			"out":        Bytes(rec.out),
			"writes":     rec.writes,
			"loads":      rec.loads,
			"after_fail": rec.afterFail,
		}
		if !c.NoLog {
			obs["log"] = rec.log
		}
		so := map[string]string{}
		for n, s := range srcs {
			so[n] = string(s)
		}
		obs["srcs"] = so
		if xerr != nil {
			obs["status"] = "err"
			obs["err"] = errInfo(xerr)
			obs["injected"] = xerr == errInjected
		}
		// the same execution once more into a *bytes.Buffer, the writer most callers pass: what the writer holds when
		// Execute returns (with or without an error) does not depend on the writer's type
		if c.Fault.Write == 0 && c.Fault.Load == 0 && c.Loader == "" && !c.Inline {
			ctx2, err := buildCtx(c.Ctx)
			if err != nil {
				return nil, err
			}
			rec2 := &recorder{srcs: srcs, failedAt: -1, discardLog: true}
			var env2 *stick.Env
			if c.Env == "twig" {
				env2 = twig.New(rec2)
			} else {
				env2 = stick.New(rec2)
			}
			rec2.register(env2, c.Env == "twig")
			var buf bytes.Buffer
			var err2 error
			if c.Safe {
				err2 = env2.ExecuteSafe(entry, &buf, ctx2)
			} else {
				err2 = env2.Execute(entry, &buf, ctx2)
			}
			obs["buf_out"] = Bytes(buf.Bytes())
			obs["buf_err"] = err2 != nil
		}
		return obs, nil
	}
}
