package main

import (
	"bytes"
	"encoding/json"
	"fmt"
	"io/ioutil"
	"os"
	"path/filepath"
	"runtime"
	"runtime/debug"
	"strings"
	"sync"
	"time"

	"github.com/tyler-sommer/stick"
)

// history: a sequence of Parse/Execute calls over the built-in loaders; the process's goroutine and descriptor
// counts are compared before and after (binding G of C19), and the tokeniser events are recorded (binding T).
type histOp struct {
	Loader string `json:"loader"`
	Kind   string `json:"kind"`
	API    string `json:"api"`
}

// every tokeniser state sends tokens after the point where a failing parser has returned: strings with interpolation,
// comments, verbatim sections, brackets
var histFrags = []string{"a", "{% include 'inc' %}", "{% for v in [1, 2] %}", "{{ v }}", "{% endfor %}", "b",
	`{{ "s#{x ~ 'i'}t" }}`, "{# c #}", "{% verbatim %}{{ q }}{% endverbatim %}", "{{ {k: [1, (2)]}.k[1] }}c",
	// more tokens than bytes: empty strings and empty comments (a token need not consume input)
	"{% set row = [" + strings.Repeat("'', ", 600) + "''] %}" + strings.Repeat("{##}", 30) + `{{ "#{''}#{''}#{''}" }}`}

func histSources(kind string, inline bool) (entry string, files map[string]string) {
	inc := "<{{ x }}>"
	incRef := "inc"
	if inline {
		incRef = inc
	}
	frags := append([]string(nil), histFrags...)
	frags[1] = "{% include '" + incRef + "' %}"
	main := strings.Join(frags, "")
	files = map[string]string{"inc": inc}
	switch {
	case kind == "ok":
	case strings.HasPrefix(kind, "syn"):
		p := int(kind[3] - '0')
		if p >= len(frags) {
			main = main + "{% if x %}unclosed"
		} else {
			main = strings.Join(frags[:p], "") + "{% foo %}" + strings.Join(frags[p:], "")
		}
	case kind == "lexerr":
		main = "a{{ 'unclosed }}b" + main
	case kind == "bigtail":
		main = "{{ }}{{ " + strings.Repeat("a ", 8000000) + "}}" + main
	case kind == "deeprej":
		// read to its end, then refused: an interpolated string of 5200 parts is a chain deeper than the parser's bound
		main = main + `{{ "` + strings.Repeat("#{x}", 5200) + `" }}` + "tail{{ x }}"
	case kind == "opsplit":
		// a syntax error first, then every two-word operator with its words two blanks, a TAB and a line break apart
		main = "{% foo %}{{ a is  not b }}{{ a not\n in b }}{{ a starts\twith b }}{{ a ends   with b }}{{ a is not\tb }}" + main
	case kind == "lexuni":
		// multi-byte letters and digits where a name or number is expected, in a print and in a tag
		main = "a{{ \u00e9 }}b{% if x and \u00fc %}c{% endif %}{% set n = \u0663 %}" + main
	case kind == "runtime":
		main = main + "{{ x|nosuchfilter }}"
	case kind == "extuse":
		// extends a parent and uses a template that cannot be loaded (with the string loader: one without the aliased block)
		files["base"] = "B{% block b %}{% endblock %}"
		main = "{% extends 'base' %}{% use 'nosuch' with nb as y %}{% block b %}x{% endblock %}"
	case kind == "extusealias":
		files["base"] = "B{% block b %}{% endblock %}"
		files["u"] = "{% block ub %}u{% endblock %}"
		main = "{% extends 'base' %}{% use 'u' with nb as y %}{% block b %}x{% endblock %}"
	case kind == "incsyn":
		if inline {
			main = strings.Replace(main, inc, "<{{ x }", 1)
		} else {
			files["inc"] = "<{{ x }"
		}
	}
	files["main"] = main
	return "main", files
}

func countFDs() int {
	ents, err := ioutil.ReadDir("/proc/self/fd")
	if err != nil {
		return -1
	}
	return len(ents)
}

var stackBuf = make([]byte, 1<<20)
var stackMu sync.Mutex

func lexerGoroutines() int {
	if runtime.NumGoroutine() <= 2 {
		return 0 // main and (at most) the reader: nothing of the library is running
	}
	stackMu.Lock()
	defer stackMu.Unlock()
	n := runtime.Stack(stackBuf, true)
	cnt := 0
	for _, g := range bytes.Split(stackBuf[:n], []byte("\n\n")) {
		if bytes.Contains(g, []byte("parse.(*lexer)")) {
			cnt++ // one per goroutine, however many frames of the tokeniser its stack shows
		}
	}
	return cnt
}

// blockedLexers counts tokeniser goroutines parked in a channel send.
func blockedLexers() int {
	buf := make([]byte, 1<<20)
	n := runtime.Stack(buf, true)
	cnt := 0
	for _, g := range bytes.Split(buf[:n], []byte("\n\n")) {
		if bytes.Contains(g, []byte("parse.(*lexer)")) && (bytes.Contains(g, []byte("[chan send")) || bytes.Contains(g, []byte("[select"))) {
			cnt++
		}
	}
	return cnt
}

type histEvent struct {
	E  string `json:"e"`
	ID int    `json:"id"`
	D  string `json:"d,omitempty"`
}

var (
	histMu     sync.Mutex
	histEvents []histEvent
	histIDs    = map[interface{}]int{}
)

func histRecord(event string, id interface{}, detail string) {
	histMu.Lock()
	n, ok := histIDs[id]
	if !ok {
		n = len(histIDs) + 1
		histIDs[id] = n
	}
	if event != "lex.sent" {
		histEvents = append(histEvents, histEvent{E: event, ID: n, D: detail})
	}
	histMu.Unlock()
}

func init() {
	handlers["history"] = func(raw json.RawMessage) (interface{}, error) {
		var c struct {
			Ops    []histOp `json:"ops"`
			Repeat int      `json:"repeat"`
		}
		if err := json.Unmarshal(raw, &c); err != nil {
			return nil, err
		}
		if c.Repeat <= 0 {
			c.Repeat = 1
		}
		dir, err := ioutil.TempDir("", "verif-hist-")
		if err != nil {
			return nil, err
		}
		defer os.RemoveAll(dir)
		installHistHook()
		histMu.Lock()
		histEvents = nil
		histIDs = map[interface{}]int{}
		histMu.Unlock()
		runtime.GC()
		time.Sleep(5 * time.Millisecond)
		// no garbage collection while the history runs: a file that is only closed by its finalizer is still a
		// file the library left open when the call returned
		defer debug.SetGCPercent(debug.SetGCPercent(-1))
		g0, l0, f0 := runtime.NumGoroutine(), lexerGoroutines(), countFDs()
		results := []string{}
		for rep := 0; rep < c.Repeat; rep++ {
			for i, op := range c.Ops {
				entry, files := histSources(op.Kind, op.Loader == "string")
				var loader stick.Loader
				name := entry
				switch op.Loader {
				case "string":
					loader = &stick.StringLoader{}
					name = files[entry]
					if op.Kind == "missing" {
						name = "{% include missing_variable_name %}" // the string loader cannot miss; an include of '' loads the empty template
					}
				case "memory":
					loader = &stick.MemoryLoader{Templates: files}
					if op.Kind == "missing" {
						name = "nosuchtemplate"
					}
				default:
					sub := filepath.Join(dir, fmt.Sprintf("h%d-%d", rep, i))
					os.MkdirAll(sub, 0755)
					for n, s := range files {
						ioutil.WriteFile(filepath.Join(sub, n), []byte(s), 0644)
					}
					loader = stick.NewFilesystemLoader(sub)
					if op.Kind == "missing" {
						name = "nosuchtemplate"
					}
					// a name that resolves to a directory: opening succeeds, reading fails
					os.MkdirAll(filepath.Join(sub, "adir"), 0755)
					if op.Kind == "dir" {
						name = "adir"
					}
					if op.Kind == "incdir" {
						ioutil.WriteFile(filepath.Join(sub, "main"), []byte("a{% include 'adir' %}b"), 0644)
					}
				}
				env := stick.New(loader)
				var xerr error
				if op.API == "parse" {
					_, xerr = env.Parse(name)
				} else {
					xerr = env.Execute(name, ioutil.Discard, map[string]stick.Value{"x": "X"})
				}
				if rep == 0 {
					if xerr != nil {
						results = append(results, "err")
					} else {
						results = append(results, "ok")
					}
				}
			}
		}
		// a blocked goroutine never leaves, an exiting one leaves within microseconds: poll up to 2 s
		deadline := time.Now().Add(2 * time.Second)
		var g1, l1, f1 int
		stuck := 0
		lastG, lastL, since := -1, -1, time.Now()
		for {
			g1, l1, f1 = runtime.NumGoroutine(), lexerGoroutines(), countFDs()
			if (g1 <= g0 && l1 <= l0) || time.Now().After(deadline) {
				break
			}
			// goroutines that neither leave nor change in number for 150 ms are not on their way out (an exiting tokeniser
			// needs microseconds): blocked for good or spinning - no need to wait out the full two seconds
			if g1 != lastG || l1 != lastL {
				lastG, lastL, since = g1, l1, time.Now()
			} else if time.Since(since) > 150*time.Millisecond {
				break
			}
			// tokenisers parked on their channel send stay there for good: no need to wait the full two seconds
			if b := blockedLexers(); b > 0 && b >= l1-l0 {
				stuck++
				if stuck >= 5 {
					break
				}
			} else {
				stuck = 0
			}
			time.Sleep(2 * time.Millisecond)
		}
		histMu.Lock()
		evs := append([]histEvent(nil), histEvents...)
		histMu.Unlock()
		return map[string]interface{}{
			"goroutines_before": g0, "goroutines_after": g1, "lexers_before": l0, "lexers_after": l1,
			"fds_before": f0, "fds_after": f1, "results": results, "events": evs, "hooks": hooksEnabled,
		}, nil
	}
}
