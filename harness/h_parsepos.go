package main

import (
	"encoding/json"

	"github.com/tyler-sommer/stick"
)

var tagKinds = map[string]bool{"if": true, "for": true, "set": true, "block": true, "include": true, "do": true, "import": true,
	"macro": true, "filter": true, "extends": true, "embed": true, "use": true, "from": true}
var posKinds = map[string]bool{"text": true, "print": true, "name": true, "num": true, "bool": true, "null": true, "str": true, "call": true}

func collectAnchors(n *PNode, out *[]map[string]interface{}) {
	if n == nil {
		return
	}
	kind := ""
	if tagKinds[n.K] {
		kind = "tag"
	} else if posKinds[n.K] {
		kind = n.K
	}
	if kind != "" {
		*out = append(*out, map[string]interface{}{"kind": kind, "line": n.Line, "col": n.Col})
	}
	for _, k := range n.Kids {
		collectAnchors(k, out)
	}
}

func init() {
	// {"k":"parsepos","src":[bytes]} -> Env.Parse of the source: ok | error position; positions reported by the nodes of the tree
	handlers["parsepos"] = func(raw json.RawMessage) (interface{}, error) {
		var c struct {
			Src    Bytes  `json:"src"`
			Loader string `json:"loader"`
		}
		if err := json.Unmarshal(raw, &c); err != nil {
			return nil, err
		}
		srcs := map[string][]byte{"t": c.Src}
		for k, v := range spellLib {
			srcs[k] = v
		}
		rec := &recorder{srcs: srcs, failedAt: -1}
		loader, cleanup, lerr := makeLoader(c.Loader, srcs, rec)
		if lerr != nil {
			return nil, lerr
		}
		defer cleanup()
		env := stick.New(loader)
		tree, err := env.Parse("t")
		obs := map[string]interface{}{"ok": err == nil}
		if err != nil {
			obs["err"] = errInfo(err)
			return obs, nil
		}
		anchors := []map[string]interface{}{}
		collectAnchors(walkNode(tree.Root()), &anchors)
		obs["anchors"] = anchors
		return obs, nil
	}
}
