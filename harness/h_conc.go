package main

import (
	"bytes"
	"encoding/json"
	"fmt"
	"io/ioutil"
	"os"
	"path/filepath"
	"strings"
	"sync"
	"time"

	"github.com/tyler-sommer/stick"
	"github.com/tyler-sommer/stick/twig"
)

// conc: N goroutines call Execute and Parse on ONE environment at the same time, each with its own context map and
// writer; every result is compared (by the trace acceptor) with the result of the same call made alone beforehand.
// When the binary is built with -race, data races inside the library are reported through GORACE's log_path.
const concSameSource = `v={{ x }};{% if y %}{{ y }}{% endif %}{% for i in [1] %}{{ x }}{% endfor %}`

var concTemplates = map[string]string{
	"a.html":   `<p>{{ x }}</p>{% block b %}[{{ y }}]{% endblock %}{% for i in [1, 2] %}{{ i }}{{ x }}{% endfor %}`,
	"b.js":     `var v="{{ x }}";{% for i in [1, 2, 3] %}{{ y }};{% endfor %}{% if y %}{{ x|raw }}{% endif %}`,
	"c.css":    `p:after{content:"{{ x }}"}{% set z %}{{ y }}{% endset %}{{ z|raw }}`,
	"d.txt":    `{{ x }}|{{ y }}|{% filter upper %}{{ x }}{% endfilter %}`,
	"e.html":   `{% extends 'a.html' %}{% block b %}E({{ parent() }}){{ x }}{% include 'b.js' %}{% endblock %}`,
	"f":        `{% macro m(p) %}<{{ p }}>{% endmacro %}{{ _self.m(x) }}{% embed 'a.html' %}{% block b %}F{{ y }}{% endblock %}{% endembed %}`,
	"bad.html": `{{ x }}{% if y %}unclosed`,
	// a stateless user function that builds its result with the library's public constructors (a safe value wrapped in a safe
	// value for another content type), beside prints of values escaped for that type: what one caller constructs is its own
	"w.html":  `{{ rewrap(x) }}[{{ rewrap(y) }}]{% for i in [1, 2] %}{{ rewrap(i ~ x) }}{% endfor %}`,
	"wa.html": `{{ x|escape('html_attr') }}|{{ y|escape('js') }}|{{ rewrap(x)|escape('html_attr') }}`,
	// one source under five names: what a print is escaped for is decided by the name it is rendered under, whichever
	// of its namesakes the environment has met before
	"p.html": concSameSource, "p.js": concSameSource, "p.css": concSameSource, "p.txt": concSameSource, "p": concSameSource,
	// calls that fail part-way, inside a macro, a capture, a filter section and a block() call: whatever they had produced
	// by then must not show up in anybody's later result
	"mf.html":   `{% macro m(p) %}<div class="w">{{ p }}{% include 'nope' %}</div>{% endmacro %}A{{ _self.m(x) }}B`,
	"cf.html":   `{% set c %}[captured {{ x }}{{ nosuchfn() }}]{% endset %}{{ c }}`,
	"ff.html":   `{% filter upper %}(filtered {{ y }}{{ x|nosuchfilter }}){% endfilter %}`,
	"bf.html":   `{% block b %}{bl {{ x }}{% include 'nope' %}}{% endblock %}{{ block('b') }}`,
	"g.js.twig": `{% from 'f' import m %}{{ m(y) }}/*{{ x }}*/`,
	// every operator, test and literal form at least once; the pattern of "matches" and the operands differ per call
	"h.html": `{{ x matches pat }}{{ y matches '^' ~ n }}{{ n in [1, 2, n] }}{{ n not in 1..3 }}{{ x starts with '<' }}{{ x ends with '>' }}` +
		`{{ n + 1 - 2 * 3 / 4 // 5 % 6 ** 2 }}{{ n b-and 3 b-or 4 b-xor 1 }}{{ n == 1 or n != 2 and not (n < 3) }}{{ n >= 1 ? "a#{n}b" : {k: n}.k }}` +
		`{{ [n, x][0] }}{{ x ~ y|raw }}{% set z = n %}{% do z %}{{ n is defined }}`,
	// values shared by all callers (returned by a read-only user function): a list with spare capacity and a hash; nothing the
	// library does with them may write to them
	"m.html": `{{ shared()|merge([n, x])|join(',') }}|{{ shared()|length }}{% for v in shared() %}{{ v }}{% endfor %}|{{ sharedmap().k }}{{ sharedmap()|merge({k2: x})|keys|join(',') }}|{{ shared()|reverse|join('') }}{{ shared()|slice(1, 2)|join('') }}{{ shared()|sort|join('') }}`,
	// every escaper, explicitly
	"u.html": `{{ x|escape('url') }}|{{ y|escape('css') }}|{{ x|escape('html_attr') }}|{{ x|escape('js') }}|{{ y|escape('url') }}|{{ x|escape }}`,
	// three levels of include; the innermost waits at the barrier (scheduler gate) until every caller of the round is inside
	"j.html": `J{% include 'k.html' %}{{ x }}`,
	"k.html": `K[{{ x }}]{% include 'l.html' %}`,
	"l.html": `{{ gate(r) }}<{{ y }}>`,
	// one construct each, with the barrier INSIDE it: every caller is held at the same point of the same construct
	"g_for.html":    `{% for i in [1, 2, 3] %}{% if loop.first %}{{ gate(r) }}{% endif %}{{ i }}{{ x }}{{ loop.revindex }}{% endfor %}`,
	"g_block.html":  `{% extends 'a.html' %}{% block b %}G({{ gate(r) }}{{ parent() }}){{ x }}{% endblock %}`,
	"g_macro.html":  `{% macro m(p, q) %}<{{ p }}{{ gate(q) }}{{ p }}>{% endmacro %}{{ _self.m(x, r) }}{{ _self.m(y, r) }}`,
	"g_embed.html":  `{% embed 'a.html' with {x: y} %}{% block b %}{{ gate(r) }}E{{ x }}{% endblock %}{% endembed %}{{ x }}`,
	"g_filter.html": `{% filter upper %}{{ x }}{{ gate(r) }}{{ y }}{% endfilter %}{% set c %}{{ y }}{{ gate(r) }}{{ x }}{% endset %}{{ c|raw }}`,
	"g_expr.js":     `{{ "a#{x}#{gate(r)}b#{y}" }}{{ (x ~ gate(r) ~ y)|escape('url') }}{{ gate(r) ? x : y }}{{ [x, gate(r), y]|length }}{{ x matches '^<' ~ gate(r) }}`,
	"g_import.html": `{% import 'f' as lib %}{% from 'f' import m %}{{ lib.m(x) }}{{ gate(r) }}{{ m(y) }}{{ x }}`,
	"g_use.css":     `{% use 'a.html' %}{{ gate(r) }}{{ block('b') }}{{ x }}`,
	// the callers' own objects: a struct passed by value and by pointer, a method with a pointer receiver that is held at the
	// barrier while the other callers look up theirs
	"g_obj.html": `{{ o.Held(r) }}|{{ o.Who }}|{{ p.Held(r) }}|{{ o.ID }}|{{ o.Twice(x) }}|{{ l[0].Who }}|{{ mp.k.Who }}`,
	"o.html":     `{{ o.Who }}|{{ o.ID }}|{{ p.Who }}|{{ o.Twice(y) }}{% for e in l %}{{ e.Who }}{{ e.Val }}{% endfor %}|{{ mp.k.Who }}{{ o.Val }}`,
	"i.html":     `{% use 'a.html' %}{% import 'f' as lib %}{{ lib.m(n) }}{{ block('b') }}{% filter upper %}{{ n }}{% endfilter %}{% verbatim %}{{ v }}{% endverbatim %}`,
}

var concGated = []string{"j.html", "g_for.html", "g_block.html", "g_macro.html", "g_embed.html", "g_filter.html", "g_expr.js", "g_import.html", "g_use.css", "g_obj.html"}
var concNames = []string{"a.html", "b.js", "c.css", "d.txt", "e.html", "f", "bad.html", "g.js.twig", "h.html", "i.html", "u.html", "m.html", "o.html", "mf.html", "cf.html", "ff.html", "bf.html", "p.html", "p.js", "p.css", "p.txt", "p", "w.html", "wa.html"}

// barrier: a blocking user function used as a scheduler gate - gate(r) returns when all n callers of round r have
// arrived (or after a time-out, so that a caller that failed early cannot block the others for ever).
type barrier struct {
	mu sync.Mutex
	n  int
	ch map[int]chan struct{}
	ct map[int]int
}

func (b *barrier) wait(r int) {
	b.mu.Lock()
	if b.ch == nil {
		b.ch, b.ct = map[int]chan struct{}{}, map[int]int{}
	}
	ch, ok := b.ch[r]
	if !ok {
		ch = make(chan struct{})
		b.ch[r] = ch
	}
	b.ct[r]++
	if b.ct[r] == b.n {
		close(ch)
	}
	b.mu.Unlock()
	select {
	case <-ch:
	case <-time.After(3 * time.Second):
	}
}

// concObj: what a caller passes in its context by value, by pointer, in a list and in a map
type concObj struct {
	ID  string
	bar *barrier
}

func (o *concObj) Who() string { return o.ID }
func (o *concObj) Held(r float64) string {
	if o.bar != nil {
		o.bar.wait(1000 + int(r))
	}
	return o.ID
}
func (o *concObj) Twice(s string) string { return o.ID + s + o.ID }
func (o concObj) Val() string            { return "v" + o.ID }

// cachingLoader: a race-free user loader that loads every template once and hands the same stick.Template to every later
// (possibly concurrent) call - a Template is a description of a template, not a one-shot stream
type cachingLoader struct {
	mu    sync.Mutex
	inner stick.Loader
	cache map[string]stick.Template
}

func (l *cachingLoader) Load(name string) (stick.Template, error) {
	l.mu.Lock()
	defer l.mu.Unlock()
	if t, ok := l.cache[name]; ok {
		return t, nil
	}
	t, err := l.inner.Load(name)
	if err != nil {
		return nil, err
	}
	l.cache[name] = t
	return t, nil
}

type concResult struct {
	G     int    `json:"g"`
	Round int    `json:"round"`
	Tpl   string `json:"tpl"`
	API   string `json:"api"`
	OK    bool   `json:"ok"`
	Out   Bytes  `json:"out"`
}

func concCall(env *stick.Env, bar *barrier, tpl, api string, g, round int) concResult {
	ob := concObj{ID: fmt.Sprintf("o%d.%d", g, round), bar: bar}
	ctx := map[string]stick.Value{"o": ob, "p": &concObj{ID: fmt.Sprintf("p%d.%d", g, round), bar: bar},
		"l": []concObj{{ID: fmt.Sprintf("l%d.%d", g, round)}}, "mp": map[string]concObj{"k": {ID: fmt.Sprintf("m%d.%d", g, round)}},
		"x": fmt.Sprintf("<%d&'\">", g), "y": fmt.Sprintf("%d/*%d*/", round%3, g%4),
		"n": float64(round%7 + 1), "pat": fmt.Sprintf("^<%d.*r%d", g, round), "r": float64(round)}
	res := concResult{G: g, Round: round, Tpl: tpl, API: api}
	if api == "parse" {
		tree, err := env.Parse(tpl)
		res.OK = err == nil
		if err == nil {
			res.Out = Bytes(tree.Root().String())
		}
		return res
	}
	var buf bytes.Buffer
	err := env.Execute(tpl, &buf, ctx)
	res.OK = err == nil
	res.Out = Bytes(buf.Bytes())
	return res
}

func raceReports() (int, string) {
	lp := ""
	for _, f := range strings.Fields(os.Getenv("GORACE")) {
		if strings.HasPrefix(f, "log_path=") {
			lp = strings.TrimPrefix(f, "log_path=")
		}
	}
	if lp == "" {
		return 0, ""
	}
	b, err := ioutil.ReadFile(fmt.Sprintf("%s.%d", lp, os.Getpid()))
	if err != nil {
		return 0, ""
	}
	n := bytes.Count(b, []byte("WARNING: DATA RACE"))
	if len(b) > 6000 {
		b = b[:6000]
	}
	return n, string(b)
}

func init() {
	handlers["conc"] = func(raw json.RawMessage) (interface{}, error) {
		var c struct {
			N      int    `json:"n"`
			Rounds int    `json:"rounds"`
			Env    string `json:"env"`
			Seed   int    `json:"seed"`
			Loader string `json:"loader"` // "" = MemoryLoader, "fs" = FilesystemLoader
			Cache  bool   `json:"cache"`  // the concurrent environment loads through a caching loader that re-serves Template values
			Gate   bool   `json:"gate"`   // schedule: every caller of a round is inside Execute (three includes deep) at the same time
		}
		if err := json.Unmarshal(raw, &c); err != nil {
			return nil, err
		}
		var loader stick.Loader = &stick.MemoryLoader{Templates: concTemplates}
		if c.Loader == "fs" {
			// the library's own filesystem loader, on a directory holding the same templates
			dir, err := ioutil.TempDir("", "verif-conc-")
			if err != nil {
				return nil, err
			}
			defer os.RemoveAll(dir)
			for name, src := range concTemplates {
				if err := ioutil.WriteFile(filepath.Join(dir, name), []byte(src), 0644); err != nil {
					return nil, err
				}
			}
			loader = stick.NewFilesystemLoader(dir)
		}
		concLoader := loader
		if c.Cache {
			// only the concurrent environment caches: the calls made alone load afresh, caching must not change a result
			concLoader = &cachingLoader{inner: loader, cache: map[string]stick.Template{}}
		}
		mk := func(n int, loader stick.Loader) (*stick.Env, *barrier) {
			bar := &barrier{n: n}
			sharedList := append(make([]stick.Value, 0, 16), "home", "blog", "about")
			sharedMap := map[string]stick.Value{"k": "K", "j": "J"}
			shared := func(ctx stick.Context, a ...stick.Value) stick.Value { return sharedList }
			sharedmap := func(ctx stick.Context, a ...stick.Value) stick.Value { return sharedMap }
			gate := func(ctx stick.Context, a ...stick.Value) stick.Value {
				if len(a) > 0 {
					bar.wait(int(stick.CoerceNumber(a[0])))
				}
				return ""
			}
			rewrap := func(ctx stick.Context, a ...stick.Value) stick.Value {
				if len(a) == 0 {
					return nil
				}
				return stick.NewSafeValue(stick.NewSafeValue(a[0], "html"), "html_attr")
			}
			if c.Env == "core" {
				e := stick.New(loader)
				e.Functions["rewrap"] = rewrap
				e.Functions["gate"] = gate
				e.Functions["shared"] = shared
				e.Functions["sharedmap"] = sharedmap
				e.Filters["upper"] = func(ctx stick.Context, v stick.Value, a ...stick.Value) stick.Value {
					return strings.ToUpper(stick.CoerceString(v))
				}
				e.Filters["raw"] = func(ctx stick.Context, v stick.Value, a ...stick.Value) stick.Value { return v }
				return e, bar
			}
			e := twig.New(loader)
			e.Functions["rewrap"] = rewrap
			e.Functions["gate"] = gate
			e.Functions["shared"] = shared
			e.Functions["sharedmap"] = sharedmap
			return e, bar
		}
		pick := func(g, r int) (string, string) {
			if c.Gate {
				return concGated[(r+c.Seed)%len(concGated)], "execute"
			}
			k := (g*7 + r*3 + c.Seed) % len(concNames)
			api := "execute"
			if (g+r+c.Seed)%5 == 0 {
				api = "parse"
			}
			return concNames[k], api
		}
		before, _ := raceReports()
		// 1. the calls from N goroutines on one shared environment - FIRST, so that nothing the library keeps between
		//    calls (caches, pools) has been warmed up by a sequential run
		env, bar := mk(c.N, concLoader)
		results := make([][]concResult, c.N)
		var wg sync.WaitGroup
		start := make(chan struct{})
		for g := 0; g < c.N; g++ {
			wg.Add(1)
			go func(g int) {
				defer wg.Done()
				<-start
				for r := 0; r < c.Rounds; r++ {
					tpl, api := pick(g, r)
					results[g] = append(results[g], concCall(env, bar, tpl, api, g, r))
				}
			}(g)
		}
		close(start)
		wg.Wait()
		// 2. every call alone, each on an environment of its own that has seen nothing else: the sequential results
		alone := map[string]concResult{}
		key := func(r concResult) string { return fmt.Sprintf("%d/%d", r.G, r.Round) }
		for g := 0; g < c.N; g++ {
			for r := 0; r < c.Rounds; r++ {
				tpl, api := pick(g, r)
				seqEnv, seqBar := mk(1, loader)
				res := concCall(seqEnv, seqBar, tpl, api, g, r)
				alone[key(res)] = res
			}
		}
		after, report := raceReports()
		events := []map[string]interface{}{}
		for g := 0; g < c.N; g++ {
			for _, res := range results[g] {
				a := alone[key(res)]
				events = append(events, map[string]interface{}{"e": "ret", "g": res.G, "round": res.Round, "tpl": res.Tpl, "api": res.API,
					"ok": res.OK, "out": res.Out, "alone_ok": a.OK, "alone_out": a.Out})
			}
		}
		return map[string]interface{}{"events": events, "races": after - before, "race_report": report, "calls": c.N * c.Rounds}, nil
	}
}
