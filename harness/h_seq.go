package main

import (
	"bytes"
	"encoding/json"

	"github.com/tyler-sommer/stick"
	"github.com/tyler-sommer/stick/twig"
)

func init() {
	// {"k":"seqrender","env":"core|twig","srcs":{name:[bytes]},"calls":[{"entry":name,"safe":bool}]} -> the calls made one after the
	// other on ONE environment in one process, each with its own writer: what one call leaves behind must not reach the next
	handlers["seqrender"] = func(raw json.RawMessage) (interface{}, error) {
		var c struct {
			Env   string           `json:"env"`
			Srcs  map[string]Bytes `json:"srcs"`
			Calls []struct {
				Entry string `json:"entry"`
				Safe  bool   `json:"safe"`
			} `json:"calls"`
		}
		if err := json.Unmarshal(raw, &c); err != nil {
			return nil, err
		}
		m := map[string]string{}
		for n, s := range c.Srcs {
			m[n] = string(s)
		}
		var env *stick.Env
		if c.Env == "twig" {
			env = twig.New(&stick.MemoryLoader{Templates: m})
		} else {
			env = stick.New(&stick.MemoryLoader{Templates: m})
		}
		res := []map[string]interface{}{}
		for _, call := range c.Calls {
			var buf bytes.Buffer
			var err error
			if call.Safe {
				err = env.ExecuteSafe(call.Entry, &buf, map[string]stick.Value{"x": "X"})
			} else {
				err = env.Execute(call.Entry, &buf, map[string]stick.Value{"x": "X"})
			}
			res = append(res, map[string]interface{}{"ok": err == nil, "out": Bytes(buf.Bytes())})
		}
		return map[string]interface{}{"results": res}, nil
	}
}
