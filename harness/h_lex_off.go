//go:build !verif

package main

import "encoding/json"

func init() {
	// without the hooks the tokeniser cannot be observed on its own
	handlers["lex"] = func(raw json.RawMessage) (interface{}, error) {
		return map[string]interface{}{"nohooks": true}, nil
	}
}
