package main

import (
	"bytes"
	"encoding/json"
	"fmt"
	"strings"
	"unicode/utf8"

	"github.com/tyler-sommer/stick"

	"github.com/tyler-sommer/stick/twig"
	"github.com/tyler-sommer/stick/twig/escape"
)

// Bytes travels as a JSON array of ints (TLA+ has no byte strings).
type Bytes []byte

func (b Bytes) MarshalJSON() ([]byte, error) {
	out := make([]int, len(b))
	for i, c := range b {
		out[i] = int(c)
	}
	return json.Marshal(out)
}

func (b *Bytes) UnmarshalJSON(data []byte) error {
	var in []int
	if err := json.Unmarshal(data, &in); err != nil {
		return err
	}
	*b = make([]byte, len(in))
	for i, c := range in {
		if c < 0 || c > 255 {
			return fmt.Errorf("byte out of range: %d", c)
		}
		(*b)[i] = byte(c)
	}
	return nil
}

var escapers = map[string]func(string) string{
	"html":      escape.HTML,
	"html_attr": escape.HTMLAttribute,
	"js":        escape.JS,
	"css":       escape.CSS,
	"url":       escape.URLQueryParam,
}

func init() {
	// {"k":"esc","fn":"js","in":[..bytes..]}  ->  {"out":[..bytes..]}
	handlers["esc"] = func(raw json.RawMessage) (interface{}, error) {
		var c struct {
			Fn string `json:"fn"`
			In Bytes  `json:"in"`
			// "env": the escaper the Twig environment registers under this name (what templates and the escape filter use)
			Via string `json:"via"`
		}
		if err := json.Unmarshal(raw, &c); err != nil {
			return nil, err
		}
		f, ok := escapers[c.Fn]
		if c.Via == "env" {
			var e twig.Escaper
			e, ok = twig.NewAutoEscapeExtension().Escapers[c.Fn]
			f = e
		}
		if strings.HasPrefix(c.Via, "filter:") {
			// the escape filter of a Twig environment applied to a value that is marked safe for ANOTHER content type:
			// it is not safe for this one and must come out escaped
			other := strings.TrimPrefix(c.Via, "filter:")
			flt := twig.New(nil).Filters["escape"]
			fn := c.Fn
			f = func(s string) string { return stick.CoerceString(flt(nil, stick.NewSafeValue(s, other), fn)) }
			ok = flt != nil
		}
		if strings.HasPrefix(c.Via, "tpl:") {
			// an explicit escape with a literal strategy, printed in a template whose NAME selects another content type:
			// what is printed is what the named escaper emits, nothing is added for the template's own type
			name := "t." + strings.TrimPrefix(c.Via, "tpl:")
			env := twig.New(&stick.MemoryLoader{Templates: map[string]string{name: "{{ v|escape('" + c.Fn + "') }}"}})
			f = func(s string) string {
				var b bytes.Buffer
				if err := env.Execute(name, &b, map[string]stick.Value{"v": s}); err != nil {
					return "ERROR: " + err.Error()
				}
				return b.String()
			}
			ok = true
		}
		if !ok {
			return nil, fmt.Errorf("unknown escaper %q", c.Fn)
		}
		// parts: the escaper applied to each character on its own (invalid bytes one by one)
		parts := []Bytes{}
		in := string(c.In)
		for len(in) > 0 {
			_, n := utf8.DecodeRuneInString(in)
			parts = append(parts, Bytes(f(in[:n])))
			in = in[n:]
		}
		return map[string]interface{}{"out": Bytes(f(string(c.In))), "parts": parts}, nil
	}
}
