package main

import (
	"bufio"
	"encoding/json"
	"fmt"
	"math/rand"
	"os"
	"unicode/utf8"

	"github.com/tyler-sommer/stick/twig/escape"
)

// c13: inputs for the escapers. Deterministic enumeration (code points, invalid bytes,
// boundary pairs) plus seeded random strings.
var c13Boundary = []rune{0, 8, 27, 48, 57, 65, 70, 71, 97, 102, 103, 32, 9, 10, 13, 12, 34, 38, 39, 60, 62, 92, 37, 43, 59, 35,
	117, 120, 123, 125, 45, 46, 95, 126, 127, 128, 159, 160, 255, 256, 2047, 2048,
	65535, 65536, 128512, 1114111}

func init() {
	generators["c13"] = func(n int, seed int64, tier string) error {
		w := bufio.NewWriter(os.Stdout)
		defer w.Flush()
		id := 0
		emit := func(tag string, in []byte) {
			for _, fn := range []string{"html", "html_attr", "js", "css", "url"} {
				id++
				b, _ := json.Marshal(map[string]interface{}{
					"id": fmt.Sprintf("%s-%d", tag, id), "k": "esc", "fn": fn, "in": Bytes(in), "tag": tag,
				})
				w.Write(b)
				w.WriteByte('\n')
			}
		}
		rs := func(r rune) []byte { return []byte(string(r)) }
		// every code point (thorough) / all below U+3000, every range edge, a seeded stride of the rest (quick)
		stride := rune(1)
		off := rune(0)
		if tier != "thorough" {
			stride = 251
			off = rune(seed % 251)
			if off < 0 {
				off = -off
			}
		}
		edges := map[rune]bool{}
		for _, e := range []rune{0x7f, 0x80, 0x9f, 0xa0, 0xff, 0x100, 0x7ff, 0x800, 0xd7ff, 0xe000, 0xfffd, 0xfffe, 0xffff, 0x10000, 0x10ffff, 0x1f600} {
			edges[e] = true
			edges[e-1] = true
			edges[e+1] = true
		}
		for c := rune(0); c <= 0x10ffff; c++ {
			if c >= 0xd800 && c <= 0xdfff {
				continue
			}
			if c < 0x3000 || edges[c] || (c%stride) == off {
				emit("cp", rs(c))
			}
		}
		for b := 0x80; b <= 0xff; b++ {
			emit("inv", []byte{byte(b)})
		}
		for _, a := range c13Boundary {
			for _, b := range c13Boundary {
				emit("pair", append(rs(a), rs(b)...))
			}
		}
		// text that is already escaped (the output of each escaper for each boundary character, its proper prefixes, and
		// two outputs side by side): escaping is per character, so escaped text is escaped again, entity by entity
		escapers := []func(string) string{escape.HTML, escape.HTMLAttribute, escape.JS, escape.CSS, escape.URLQueryParam}
		seen := map[string]bool{}
		re := func(x string) {
			if x != "" && !seen[x] {
				seen[x] = true
				emit("re", []byte(x))
			}
		}
		for _, e := range escapers {
			for _, a := range c13Boundary {
				o := e(string(a))
				if o == string(a) {
					continue
				}
				re(o)
				re(o + "x")
				re("x" + o)
				for k := 2; k < len(o); k++ {
					re(o[:k])
				}
				for _, b := range []rune{'<', '&', '"', '\'', '\\', '%', ' ', 0x80} {
					re(o + e(string(b)))
				}
			}
		}
		// random strings biased to the boundary alphabet
		rng := rand.New(rand.NewSource(seed))
		for i := 0; i < n; i++ {
			ln := 1 + rng.Intn(40)
			if rng.Intn(10) == 0 {
				ln = 100 + rng.Intn(200)
			}
			var buf []byte
			for j := 0; j < ln; j++ {
				var r rune
				switch rng.Intn(4) {
				case 0:
					r = c13Boundary[rng.Intn(len(c13Boundary))]
				case 1:
					r = rune(rng.Intn(128))
				case 2:
					r = rune(rng.Intn(0x3000))
				default:
					r = rune(rng.Intn(0x110000))
				}
				if r >= 0xd800 && r <= 0xdfff || !utf8.ValidRune(r) {
					r = 0xfffd
				}
				buf = append(buf, rs(r)...)
			}
			emit("rand", buf)
		}
		return nil
	}
}
