// Command verifh is the Go side of the model-based verification of stick.
//
// It never decides a property. It only (a) runs cases against the real code
// built from /repo's working tree and reports what it observed, one JSON
// object per case, and (b) generates seeded random cases. Verdicts are taken
// by the orchestrator from TLC-generated expectations (binding G) or by TLC
// accepting the recorded observations as a behaviour of the spec (binding T).
//
//	verifh pool   -workers N -deadline D  < cases.ndjson > obs.ndjson
//	verifh worker                           (internal: one case per line)
//	verifh gen    -family F -n N -seed S  > cases.ndjson
package main

import (
	"fmt"
	"os"
)

func main() {
	if len(os.Args) < 2 {
		fmt.Fprintln(os.Stderr, "usage: verifh pool|worker|gen ...")
		os.Exit(2)
	}
	switch os.Args[1] {
	case "pool":
		os.Exit(poolMain(os.Args[2:]))
	case "worker":
		os.Exit(workerMain())
	case "gen":
		os.Exit(genMain(os.Args[2:]))
	case "hooks":
		// prints whether the binary was built with the verif tag
		fmt.Println(hooksEnabled)
	default:
		fmt.Fprintln(os.Stderr, "unknown subcommand", os.Args[1])
		os.Exit(2)
	}
}
