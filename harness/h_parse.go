package main

import (
	"bytes"
	"encoding/json"

	"github.com/tyler-sommer/stick"
	"github.com/tyler-sommer/stick/twig"
)

func init() {
	// {"k":"parse", env, tpls|srcs, entry, sp} -> {ok, err, ast, srcs}: Env.Parse of the entry template
	handlers["parse"] = func(raw json.RawMessage) (interface{}, error) {
		var c renderCase
		if err := json.Unmarshal(raw, &c); err != nil {
			return nil, err
		}
		srcs, err := buildSources(&c)
		if err != nil {
			return nil, err
		}
		rec := &recorder{srcs: srcs, failedAt: -1}
		var env *stick.Env
		if c.Env == "twig" {
			env = twig.New(rec)
		} else {
			env = stick.New(rec)
		}
		tree, perr := env.Parse(c.Entry)
		obs := map[string]interface{}{"ok": perr == nil}
		so := map[string]string{}
		for n, s := range srcs {
			so[n] = string(s)
		}
		obs["srcs"] = so
		if perr != nil {
			obs["err"] = errInfo(perr)
			return obs, nil
		}
		obs["ast"] = walkNode(tree.Root())
		return obs, nil
	}

	// {"k":"c04", flat: <expr AST without groups>, paren: <expr AST with explicit groups>, ctx}
	//   -> shape of Env.Parse("{{ flat }}"), rendering of the flat and of the fully parenthesised spelling
	handlers["c04"] = func(raw json.RawMessage) (interface{}, error) {
		var c struct {
			Flat  Node            `json:"flat"`
			Paren Node            `json:"paren"`
			Ctx   json.RawMessage `json:"ctx"`
		}
		if err := json.Unmarshal(raw, &c); err != nil {
			return nil, err
		}
		flat, err := Unparse([]Node{{K: "print", X: &c.Flat}}, Spelling{})
		if err != nil {
			return nil, err
		}
		paren, err := Unparse([]Node{{K: "print", X: &c.Paren}}, Spelling{})
		if err != nil {
			return nil, err
		}
		// the unparenthesised form once more, with no blank between an alphabetic operator and a sign, quote or bracket next to it
		compact, err := Unparse([]Node{{K: "print", X: &c.Flat}}, Spelling{Compact: true})
		if err != nil {
			return nil, err
		}
		obs := map[string]interface{}{"flat_src": string(flat), "paren_src": string(paren), "compact_src": string(compact)}
		render := func(src []byte, prefix string) error {
			ctx, err := buildCtx(c.Ctx)
			if err != nil {
				return err
			}
			rec := &recorder{srcs: map[string][]byte{"t": src}, failedAt: -1}
			env := stick.New(rec)
			rec.register(env, false)
			xerr := env.Execute("t", rec, ctx)
			obs[prefix+"_ok"] = xerr == nil
			obs[prefix+"_out"] = Bytes(rec.out)
			if xerr != nil {
				obs[prefix+"_err"] = xerr.Error()
			}
			return nil
		}
		if err := render(flat, "flat"); err != nil {
			return nil, err
		}
		if err := render(paren, "paren"); err != nil {
			return nil, err
		}
		if err := render(compact, "compact"); err != nil {
			return nil, err
		}
		// the same two spellings where an expression is a condition: if, elseif, the filter of a for, a conditional, a set
		condForm := func(src []byte) []byte {
			if !bytes.HasPrefix(src, []byte("{{ ")) || !bytes.HasSuffix(src, []byte(" }}")) {
				return nil
			}
			e := string(src[3 : len(src)-3])
			return []byte("{% if " + e + " %}y{% else %}n{% endif %}|{% if false %}x{% elseif " + e + " %}y{% else %}n{% endif %}|" +
				"{% for i in [1] if " + e + " %}y{% else %}n{% endfor %}|{% set r = " + e + " %}{{ r ? 'y' : 'n' }}|{{ " + e + " ? 'y' : 'n' }}")
		}
		if fc, pc := condForm(flat), condForm(paren); fc != nil && pc != nil {
			obs["condflat_src"] = string(fc)
			if err := render(fc, "condflat"); err != nil {
				return nil, err
			}
			if err := render(pc, "condparen"); err != nil {
				return nil, err
			}
		}
		rec := &recorder{srcs: map[string][]byte{"t": flat}, failedAt: -1}
		tree, perr := stick.New(rec).Parse("t")
		obs["parse_ok"] = perr == nil
		if perr != nil {
			obs["parse_err"] = perr.Error()
		} else {
			root := walkNode(tree.Root())
			if len(root.Kids) == 1 && root.Kids[0].K == "print" && len(root.Kids[0].Kids) == 1 {
				obs["shape"] = root.Kids[0].Kids[0]
			} else {
				obs["shape"] = root
			}
		}
		return obs, nil
	}
}
