package main

import (
	"bufio"
	"encoding/json"
	"fmt"
	"math/rand"
	"os"
	"strings"

	"github.com/tyler-sommer/stick"
)

// c04chain: seeded random operator chains as token lists (the alphabet of spec/Syntax.tla): 2..8 operands, every binary
// operator, stacked prefix operators, postfix tests, parenthesised sub-chains. The handler c04toks spells a token list
// with single blanks and renders it; spec/props/C04_Trace.tla parses the same list with the reference parser.
var c04Ops = []string{"or", "and", "b-or", "b-xor", "b-and", "==", "!=", "<", "<=", ">", ">=", "in", "not in", "matches", "starts with",
	"ends with", "..", "+", "-", "~", "*", "/", "//", "%", "**"}

type c04gen struct{ rng *rand.Rand }

func tk(t string, kv ...interface{}) obj {
	o := obj{"t": t}
	for i := 0; i+1 < len(kv); i += 2 {
		o[kv[i].(string)] = kv[i+1]
	}
	return o
}

// The chains are typed so that most of them stay inside the region the reference decides (numbers in arithmetic, one
// comparison between arithmetic chains, and/or between comparisons); how the operators GROUP is left to the parser.
func (g *c04gen) num(depth int) []obj {
	var out []obj
	for k := g.rng.Intn(8); k >= 6; k-- { // 0, 1 or 2 signs
		out = append(out, tk("un", "op", []string{"-", "+"}[g.rng.Intn(2)]))
	}
	if depth > 0 && g.rng.Intn(5) == 0 {
		out = append(out, tk("lp"))
		out = append(out, g.arith(depth-1, 1+g.rng.Intn(2))...)
		out = append(out, tk("rp"))
	} else {
		out = append(out, tk("atom", "x", eInt([]int{7, 2, 3, 5, 1, 4, 2, 3}[g.rng.Intn(8)])))
	}
	if g.rng.Intn(9) == 0 {
		out = append(out, tk("test", "neg", g.rng.Intn(2) == 0, "name", []string{"odd", "even"}[g.rng.Intn(2)]))
	}
	return out
}

func (g *c04gen) arith(depth, links int) []obj {
	out := g.num(depth)
	for i := 0; i < links; i++ {
		out = append(out, tk("op", "op", []string{"+", "-", "*", "//", "%", "**", "~", "+", "*", "-", "b-or", "b-and", "b-xor"}[g.rng.Intn(13)]))
		out = append(out, g.num(depth)...)
	}
	return out
}

func (g *c04gen) cmp(depth int) []obj {
	out := g.arith(depth, g.rng.Intn(3))
	out = append(out, tk("op", "op", []string{"<", "<=", ">", ">=", "==", "!="}[g.rng.Intn(6)]))
	return append(out, g.arith(depth, g.rng.Intn(3))...)
}

func (g *c04gen) logic(depth, links int) []obj {
	term := func() []obj {
		if g.rng.Intn(4) == 0 {
			return append(append([]obj{tk("un", "op", "not"), tk("lp")}, g.cmp(depth)...), tk("rp"))
		}
		return g.cmp(depth)
	}
	out := term()
	for i := 0; i < links; i++ {
		out = append(out, tk("op", "op", []string{"and", "or"}[g.rng.Intn(2)]))
		out = append(out, term()...)
	}
	return out
}

func (g *c04gen) chain(depth, links int) []obj {
	switch g.rng.Intn(10) {
	case 0, 1, 2, 3:
		return g.arith(depth, links)
	case 4, 5:
		return g.cmp(depth)
	case 6, 7, 8:
		return g.logic(depth, 1+g.rng.Intn(3))
	default:
		// anything goes: mostly outside the reference's region, kept for totality (no crash) and for the few that are inside
		out := g.num(depth)
		for i := 0; i < links; i++ {
			out = append(out, tk("op", "op", c04Ops[g.rng.Intn(len(c04Ops))]))
			if g.rng.Intn(4) == 0 {
				out = append(out, tk("un", "op", "not"))
			}
			out = append(out, g.num(depth)...)
		}
		return out
	}
}

func c04Spell(toks []map[string]json.RawMessage) (string, error) {
	var parts []string
	for _, t := range toks {
		var typ, op, name string
		var neg bool
		json.Unmarshal(t["t"], &typ)
		json.Unmarshal(t["op"], &op)
		json.Unmarshal(t["name"], &name)
		json.Unmarshal(t["neg"], &neg)
		switch typ {
		case "un", "op":
			parts = append(parts, op)
		case "lp":
			parts = append(parts, "(")
		case "rp":
			parts = append(parts, ")")
		case "test":
			if neg {
				parts = append(parts, "is not "+name)
			} else {
				parts = append(parts, "is "+name)
			}
		case "atom":
			var x struct {
				Q int64 `json:"q"`
			}
			if err := json.Unmarshal(t["x"], &x); err != nil {
				return "", err
			}
			if x.Q%64 != 0 {
				return "", fmt.Errorf("atom %d/64 is not integral", x.Q)
			}
			parts = append(parts, fmt.Sprint(x.Q/64))
		default:
			return "", fmt.Errorf("unknown token kind %q", typ)
		}
	}
	return strings.Join(parts, " "), nil
}

func init() {
	generators["c04chain"] = func(n int, seed int64, tier string) error {
		w := bufio.NewWriter(os.Stdout)
		defer w.Flush()
		g := &c04gen{rng: rand.New(rand.NewSource(seed))}
		for i := 0; i < n; i++ {
			toks := g.chain(2, 1+g.rng.Intn(5))
			b, err := json.Marshal(obj{"id": fmt.Sprintf("ch%d-%d", seed, i), "k": "c04toks", "toks": toks})
			if err != nil {
				return err
			}
			w.Write(b)
			w.WriteByte('\n')
		}
		return nil
	}
	// {"k":"c04toks","toks":[...]} -> {src, ok, out}: the chain spelled with single blanks inside a print, rendered by the core environment
	handlers["c04toks"] = func(raw json.RawMessage) (interface{}, error) {
		var c struct {
			Toks []map[string]json.RawMessage `json:"toks"`
		}
		if err := json.Unmarshal(raw, &c); err != nil {
			return nil, err
		}
		src, err := c04Spell(c.Toks)
		if err != nil {
			return nil, err
		}
		rec := &recorder{srcs: map[string][]byte{"t": []byte("{{ " + src + " }}")}, failedAt: -1}
		env := stick.New(rec)
		rec.register(env, false)
		xerr := env.Execute("t", rec, map[string]stick.Value{})
		obs := map[string]interface{}{"src": src, "ok": xerr == nil, "out": Bytes(rec.out)}
		if xerr != nil {
			obs["err"] = xerr.Error()
		}
		return obs, nil
	}
}
