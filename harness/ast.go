package main

import (
	"bytes"
	"encoding/json"
	"fmt"
	"strconv"
	"strings"
)

// Node is the AST interchange schema shared with spec/Exec.tla (one struct for every tag `k`).
type Node struct {
	K        string      `json:"k"`
	D        Bytes       `json:"d,omitempty"`
	X        *Node       `json:"x,omitempty"`
	C        *Node       `json:"c,omitempty"`
	T        *Node       `json:"t,omitempty"`
	F        *Node       `json:"f,omitempty"`
	L        *Node       `json:"l,omitempty"`
	R        *Node       `json:"r,omitempty"`
	Op       string      `json:"op,omitempty"`
	N        string      `json:"n,omitempty"`
	B        bool        `json:"b,omitempty"`
	Q        int64       `json:"q,omitempty"`
	V        int         `json:"v,omitempty"`   // syntaxerror: which unparseable source
	Txt      string      `json:"txt,omitempty"` // number literal spelled explicitly (lexer-level families)
	S        Bytes       `json:"s,omitempty"`
	Quote    string      `json:"quote,omitempty"`
	Parts    []Node      `json:"parts,omitempty"`
	Els      []Node      `json:"els,omitempty"`
	Pairs    [][2]Node   `json:"pairs,omitempty"`
	Branches []Branch    `json:"branches,omitempty"`
	Body     []Node      `json:"body,omitempty"`
	He       bool        `json:"he,omitempty"`
	Kn       string      `json:"kn,omitempty"`
	Vn       string      `json:"vn,omitempty"`
	Cond     *Node       `json:"cond,omitempty"`
	Name     string      `json:"name,omitempty"`
	Names    []string    `json:"names,omitempty"`
	Params   []string    `json:"params,omitempty"`
	Aliases  [][2]string `json:"aliases,omitempty"`
	Imports  [][2]string `json:"imports,omitempty"`
	Alias    string      `json:"alias,omitempty"`
	With     *Node       `json:"with,omitempty"`
	Only     bool        `json:"only,omitempty"`
	Blocks   []Node      `json:"blocks,omitempty"`
	Neg      bool        `json:"neg,omitempty"`
	Args     []Node      `json:"args,omitempty"`
	Br       bool        `json:"br,omitempty"`
	Call     bool        `json:"call,omitempty"`
	Key      *Node       `json:"key,omitempty"`
}

type Branch struct {
	C    Node   `json:"c"`
	Body []Node `json:"body"`
}

// Spelling selects among token-sequence-preserving re-spellings (C14). The zero value is canonical.
type Spelling struct {
	Seed  int64    `json:"seed"`  // 0 = canonical; otherwise separators are drawn from Seps by a PRNG
	Seps  []string `json:"seps"`  // candidate separators; "" only where tokens cannot merge
	Tight bool     `json:"tight"` // no blank after the opening / before the closing delimiter
	Quote string   `json:"quote"` // "'" or "\"" for strings without interpolation; "" = canonical
	Comma bool     `json:"comma"` // trailing comma in lists and hashes
	Trim  bool     `json:"trim"`  // add '-' markers to delimiters (only where no white space is adjacent)
	// no separator between an alphabetic operator and a neighbouring token that cannot merge with it ("not-a", "a and'b'",
	// "(a)or(b)"); with Seed != 0 such a position draws its separator from Seps, "" included
	Compact bool `json:"compact"`
}

type unparser struct {
	buf   bytes.Buffer
	sp    Spelling
	rng   uint64
	guard bool // the last thing written was an opening delimiter with nothing after it
}

func (u *unparser) sep() string {
	if u.sp.Seed == 0 || len(u.sp.Seps) == 0 {
		return " "
	}
	// only non-empty separators here: positions where a separator is mandatory
	for i := 0; i < 8; i++ {
		u.rng = u.rng*6364136223846793005 + 1442695040888963407
		s := u.sp.Seps[(u.rng>>33)%uint64(len(u.sp.Seps))]
		if s != "" {
			return s
		}
	}
	return " "
}

// osep: a position where two tokens cannot merge, so the separator may be empty.
func (u *unparser) osep(canon string) string {
	if u.sp.Seed == 0 || len(u.sp.Seps) == 0 {
		return canon
	}
	u.rng = u.rng*6364136223846793005 + 1442695040888963407
	return u.sp.Seps[(u.rng>>33)%uint64(len(u.sp.Seps))]
}

func isWordByte(b byte) bool {
	return b == '_' || (b >= '0' && b <= '9') || (b >= 'a' && b <= 'z') || (b >= 'A' && b <= 'Z') || b >= 0x80
}

// firstByte: the first byte of the rendering of an expression (it does not depend on the separators drawn)
func (u *unparser) firstByte(n *Node) byte {
	t := &unparser{sp: u.sp, rng: u.rng}
	if n == nil || t.expr(n) != nil || t.buf.Len() == 0 {
		return 'a'
	}
	return t.buf.Bytes()[0]
}

// wsep: the separator between an alphabetic operator and a neighbour whose adjacent byte is b
func (u *unparser) wsep(b byte) string {
	if isWordByte(b) {
		return u.sep()
	}
	if u.sp.Compact {
		return ""
	}
	return u.osep(" ")
}

func (u *unparser) lastByte() byte {
	if u.buf.Len() == 0 {
		return 'a'
	}
	return u.buf.Bytes()[u.buf.Len()-1]
}

func (u *unparser) w(s string) {
	if u.guard && len(s) > 0 {
		// "{{-" would be a white-space control marker and "{{{" is ambiguous: keep a blank there
		if s[0] == '-' || s[0] == '{' || s[0] == '+' {
			u.buf.WriteByte(' ')
		}
		u.guard = false
	}
	u.buf.WriteString(s)
}

func (u *unparser) open(d string) {
	u.w(d)
	if u.sp.Trim {
		u.w("-")
	}
	sep := " "
	if u.sp.Tight {
		sep = ""
	} else {
		sep = u.osep(" ")
	}
	if sep == "" {
		u.guard = true
	} else {
		u.w(sep)
	}
}

func (u *unparser) close(d string) {
	sep := ""
	if !u.sp.Tight {
		sep = u.osep(" ")
	}
	if sep == "" && u.buf.Len() > 0 {
		switch u.buf.Bytes()[u.buf.Len()-1] {
		case '}', '-', '%', '#':
			sep = " "
		}
	}
	u.guard = false
	u.w(sep)
	if u.sp.Trim {
		u.w("-")
	}
	u.w(d)
}

func (u *unparser) tagOpen(name string) {
	u.open("{%")
	u.w(name)
}

func (u *unparser) tagClose() { u.close("%}") }

func (u *unparser) simpleTag(name string) {
	u.tagOpen(name)
	u.tagClose()
}

func (u *unparser) stmts(ns []Node) error {
	for i := range ns {
		if err := u.stmt(&ns[i]); err != nil {
			return err
		}
	}
	return nil
}

func (u *unparser) stmt(n *Node) error {
	switch n.K {
	case "text":
		u.buf.Write(n.D)
	case "syntaxerror":
		// a template that loads but does not parse
		u.w(badSources[n.V%len(badSources)])
	case "comment":
		u.w("{#")
		u.buf.Write(n.D)
		u.w("#}")
	case "verbatim":
		u.simpleTag("verbatim")
		u.buf.Write(n.D)
		u.simpleTag("endverbatim")
	case "print":
		u.open("{{")
		if err := u.expr(n.X); err != nil {
			return err
		}
		u.close("}}")
	case "if":
		for i, b := range n.Branches {
			if i == 0 {
				u.tagOpen("if")
			} else {
				u.tagOpen("elseif")
			}
			u.w(u.sep())
			if err := u.expr(&b.C); err != nil {
				return err
			}
			u.tagClose()
			if err := u.stmts(b.Body); err != nil {
				return err
			}
		}
		if n.He || len(n.Els) > 0 {
			u.simpleTag("else")
			if err := u.stmts(n.Els); err != nil {
				return err
			}
		}
		u.simpleTag("endif")
	case "for":
		u.tagOpen("for")
		u.w(u.sep())
		if n.Kn != "" {
			u.w(n.Kn)
			u.w(u.osep(""))
			u.w(",")
			u.w(u.osep(" "))
		}
		u.w(n.Vn)
		u.w(u.sep())
		u.w("in")
		u.w(u.sep())
		if err := u.expr(n.X); err != nil {
			return err
		}
		if n.Cond != nil && n.Cond.K != "none" {
			u.w(u.sep())
			u.w("if")
			u.w(u.sep())
			if err := u.expr(n.Cond); err != nil {
				return err
			}
		}
		u.tagClose()
		if err := u.stmts(n.Body); err != nil {
			return err
		}
		if n.He || len(n.Els) > 0 {
			u.simpleTag("else")
			if err := u.stmts(n.Els); err != nil {
				return err
			}
		}
		u.simpleTag("endfor")
	case "set":
		u.tagOpen("set")
		u.w(u.sep())
		u.w(n.Name)
		u.w(u.osep(" "))
		u.w("=")
		u.w(u.osep(" "))
		if err := u.expr(n.X); err != nil {
			return err
		}
		u.tagClose()
	case "setcap":
		u.tagOpen("set")
		u.w(u.sep())
		u.w(n.Name)
		u.tagClose()
		if err := u.stmts(n.Body); err != nil {
			return err
		}
		u.simpleTag("endset")
	case "do":
		u.tagOpen("do")
		u.w(u.sep())
		if err := u.expr(n.X); err != nil {
			return err
		}
		u.tagClose()
	case "filter":
		u.tagOpen("filter")
		u.w(u.sep())
		for i, f := range n.Names {
			if i > 0 {
				u.w(u.osep(""))
				u.w("|")
				u.w(u.osep(""))
			}
			u.w(f)
		}
		u.tagClose()
		if err := u.stmts(n.Body); err != nil {
			return err
		}
		u.simpleTag("endfilter")
	case "block":
		u.tagOpen("block")
		u.w(u.sep())
		u.w(n.Name)
		u.tagClose()
		if err := u.stmts(n.Body); err != nil {
			return err
		}
		u.simpleTag("endblock")
	case "extends":
		u.tagOpen("extends")
		u.w(u.sep())
		if err := u.expr(n.X); err != nil {
			return err
		}
		u.tagClose()
	case "use":
		u.tagOpen("use")
		u.w(u.sep())
		if err := u.expr(n.X); err != nil {
			return err
		}
		for i, a := range n.Aliases {
			if i == 0 {
				u.w(u.sep())
				u.w("with")
				u.w(u.sep())
			} else {
				u.w(u.osep(""))
				u.w(",")
				u.w(u.osep(" "))
			}
			u.w(a[0])
			u.w(u.sep())
			u.w("as")
			u.w(u.sep())
			u.w(a[1])
		}
		u.tagClose()
	case "include", "embed":
		u.tagOpen(n.K)
		u.w(u.sep())
		if err := u.expr(n.X); err != nil {
			return err
		}
		if n.With != nil && n.With.K != "none" {
			u.w(u.sep())
			u.w("with")
			u.w(u.sep())
			if err := u.expr(n.With); err != nil {
				return err
			}
		}
		if n.Only {
			u.w(u.sep())
			u.w("only")
		}
		u.tagClose()
		if n.K == "embed" {
			for i := range n.Blocks {
				b := &n.Blocks[i]
				u.tagOpen("block")
				u.w(u.sep())
				u.w(b.Name)
				u.tagClose()
				if err := u.stmts(b.Body); err != nil {
					return err
				}
				u.simpleTag("endblock")
			}
			u.simpleTag("endembed")
		}
	case "macro":
		u.tagOpen("macro")
		u.w(u.sep())
		u.w(n.Name)
		u.w(u.osep(""))
		u.w("(")
		for i, p := range n.Params {
			if i > 0 {
				u.w(u.osep(""))
				u.w(",")
				u.w(u.osep(" "))
			} else {
				u.w(u.osep(""))
			}
			u.w(p)
		}
		if len(n.Params) > 0 {
			u.w(u.osep(""))
		}
		u.w(")")
		u.tagClose()
		if err := u.stmts(n.Body); err != nil {
			return err
		}
		u.simpleTag("endmacro")
	case "import":
		u.tagOpen("import")
		u.w(u.sep())
		if err := u.expr(n.X); err != nil {
			return err
		}
		u.w(u.sep())
		u.w("as")
		u.w(u.sep())
		u.w(n.Alias)
		u.tagClose()
	case "from":
		u.tagOpen("from")
		u.w(u.sep())
		if err := u.expr(n.X); err != nil {
			return err
		}
		u.w(u.sep())
		u.w("import")
		u.w(u.sep())
		for i, im := range n.Imports {
			if i > 0 {
				u.w(u.osep(""))
				u.w(",")
				u.w(u.osep(" "))
			}
			u.w(im[0])
			if im[1] != im[0] {
				u.w(u.sep())
				u.w("as")
				u.w(u.sep())
				u.w(im[1])
			}
		}
		u.tagClose()
	default:
		return fmt.Errorf("unparse: unknown statement kind %q", n.K)
	}
	return nil
}

func numText(q int64) string {
	neg := q < 0
	if neg {
		q = -q
	}
	ip := q / 64
	fr := (q % 64) * 15625
	s := strconv.FormatInt(ip, 10)
	if fr != 0 {
		f := fmt.Sprintf("%06d", fr)
		f = strings.TrimRight(f, "0")
		s += "." + f
	}
	if neg {
		s = "-" + s
	}
	return s
}

func isIdent(b []byte) bool {
	if len(b) == 0 {
		return false
	}
	for _, c := range b {
		if !(c == '_' || c >= 'a' && c <= 'z' || c >= 'A' && c <= 'Z' || c >= '0' && c <= '9') {
			return false
		}
	}
	return true
}

func (u *unparser) strLit(n *Node) error {
	q := n.Quote
	if q == "" {
		q = u.sp.Quote
	}
	hasS := bytes.IndexByte(n.S, '\'') >= 0
	hasD := bytes.IndexByte(n.S, '"') >= 0
	hasI := bytes.Contains(n.S, []byte("#{"))
	if hasS && (hasD || hasI) {
		return fmt.Errorf("unparse: string literal cannot be spelled: %q", string(n.S))
	}
	if q == "" {
		q = "'"
	}
	if q == "'" && hasS {
		q = "\""
	}
	if q == "\"" && (hasD || hasI) {
		q = "'"
	}
	u.w(q)
	u.buf.Write(n.S)
	u.w(q)
	return nil
}

func (u *unparser) exprList(es []Node, trailing bool) error {
	for i := range es {
		if i > 0 {
			u.w(u.osep(""))
			u.w(",")
			u.w(u.osep(" "))
		}
		if err := u.expr(&es[i]); err != nil {
			return err
		}
	}
	if trailing && len(es) > 0 && u.sp.Comma {
		u.w(u.osep(""))
		u.w(",")
	}
	return nil
}

var wordOps = map[string]bool{"and": true, "or": true, "in": true, "not in": true, "is": true, "is not": true,
	"matches": true, "starts with": true, "ends with": true, "b-and": true, "b-or": true, "b-xor": true, "not": true}

func (u *unparser) wordOp(op string) {
	ws := strings.Split(op, " ")
	for i, w := range ws {
		if i > 0 {
			u.w(u.sep())
		}
		u.w(w)
	}
}

func (u *unparser) expr(n *Node) error {
	switch n.K {
	case "name":
		u.w(n.N)
	case "null":
		u.w("null")
	case "bool":
		if n.B {
			u.w("true")
		} else {
			u.w("false")
		}
	case "num":
		if n.Txt != "" {
			u.w(n.Txt)
		} else {
			u.w(numText(n.Q))
		}
	case "str":
		return u.strLit(n)
	case "interp":
		u.w("\"")
		for i := range n.Parts {
			p := &n.Parts[i]
			if p.K == "str" {
				if bytes.IndexByte(p.S, '"') >= 0 || bytes.Contains(p.S, []byte("#{")) {
					return fmt.Errorf("unparse: interpolation part cannot be spelled")
				}
				u.buf.Write(p.S)
			} else {
				u.w("#{")
				u.w(u.osep(""))
				if err := u.expr(p); err != nil {
					return err
				}
				u.w(u.osep(""))
				u.w("}")
			}
		}
		u.w("\"")
	case "arr":
		u.w("[")
		if len(n.Els) > 0 {
			u.w(u.osep(""))
		}
		if err := u.exprList(n.Els, true); err != nil {
			return err
		}
		if len(n.Els) > 0 {
			u.w(u.osep(""))
		}
		u.w("]")
	case "hash":
		u.w("{")
		if len(n.Pairs) > 0 {
			u.w(u.osep(""))
		}
		for i := range n.Pairs {
			if i > 0 {
				u.w(u.osep(""))
				u.w(",")
				u.w(u.osep(" "))
			}
			k := &n.Pairs[i][0]
			if k.K == "name" || k.K == "str" || k.K == "num" {
				if err := u.expr(k); err != nil {
					return err
				}
			} else {
				u.w("(")
				if err := u.expr(k); err != nil {
					return err
				}
				u.w(")")
			}
			u.w(u.osep(""))
			u.w(":")
			u.w(u.osep(" "))
			if err := u.expr(&n.Pairs[i][1]); err != nil {
				return err
			}
		}
		if len(n.Pairs) > 0 {
			if u.sp.Comma {
				u.w(u.osep(""))
				u.w(",")
			}
			u.w(u.osep(""))
		}
		u.w("}")
	case "un":
		if wordOps[n.Op] {
			u.wordOp(n.Op)
			u.w(u.wsep(u.firstByte(n.X)))
		} else {
			u.w(n.Op)
		}
		return u.expr(n.X)
	case "bin":
		if err := u.expr(n.L); err != nil {
			return err
		}
		if wordOps[n.Op] {
			u.w(u.wsep(u.lastByte()))
			u.wordOp(n.Op)
			u.w(u.wsep(u.firstByte(n.R)))
		} else {
			// symbolic operators are always separated canonically: "1 - -1", "a ~ b"
			u.w(u.sep())
			u.w(n.Op)
			u.w(u.sep())
		}
		return u.expr(n.R)
	case "test":
		if err := u.expr(n.X); err != nil {
			return err
		}
		u.w(u.sep())
		u.w("is")
		u.w(u.sep())
		if n.Neg {
			u.w("not")
			u.w(u.sep())
		}
		u.wordOp(n.Name)
		if len(n.Args) > 0 {
			u.w("(")
			if err := u.exprList(n.Args, false); err != nil {
				return err
			}
			u.w(")")
		}
	case "tern":
		if err := u.expr(n.C); err != nil {
			return err
		}
		u.w(u.osep(" "))
		u.w("?")
		u.w(u.osep(" "))
		if err := u.expr(n.T); err != nil {
			return err
		}
		u.w(u.osep(" "))
		u.w(":")
		u.w(u.osep(" "))
		return u.expr(n.F)
	case "group":
		u.w("(")
		u.w(u.osep(""))
		if err := u.expr(n.X); err != nil {
			return err
		}
		u.w(u.osep(""))
		u.w(")")
	case "attr":
		if err := u.expr(n.C); err != nil {
			return err
		}
		if n.Br {
			u.w("[")
			u.w(u.osep(""))
			if err := u.expr(n.Key); err != nil {
				return err
			}
			u.w(u.osep(""))
			u.w("]")
		} else {
			u.w(".")
			switch {
			case n.Key.K == "str" && isIdent(n.Key.S):
				u.buf.Write(n.Key.S)
			case n.Key.K == "num":
				u.w(numText(n.Key.Q))
			default:
				return fmt.Errorf("unparse: dot access needs an identifier or number key")
			}
			if n.Call || len(n.Args) > 0 {
				u.w("(")
				if err := u.exprList(n.Args, false); err != nil {
					return err
				}
				u.w(")")
			}
		}
	case "call":
		u.w(n.Name)
		u.w("(")
		if len(n.Args) > 0 {
			u.w(u.osep(""))
		}
		if err := u.exprList(n.Args, false); err != nil {
			return err
		}
		if len(n.Args) > 0 {
			u.w(u.osep(""))
		}
		u.w(")")
	case "pipe":
		if err := u.expr(n.X); err != nil {
			return err
		}
		u.w(u.osep(""))
		u.w("|")
		u.w(u.osep(""))
		u.w(n.Name)
		if len(n.Args) > 0 {
			u.w("(")
			if err := u.exprList(n.Args, false); err != nil {
				return err
			}
			u.w(")")
		}
	default:
		return fmt.Errorf("unparse: unknown expression kind %q", n.K)
	}
	return nil
}

// Unparse spells a template (a list of statements) as source text.
// sources that no parser of the language accepts (spec: [k |-> "syntaxerror", v |-> index])
var badSources = []string{
	"{% if %}", "{% for 1 in xs %}x{% endfor %}", "{% for k, 2 in xs %}{% endfor %}", "{% for v in xs foo %}{% endfor %}", "{{ a is 3 }}",
	"{{ 'unclosed }}", "{% block b %}unclosed", "{% nosuchtag %}", "{{ a b }}", "{% set %}", "{% macro m( %}{% endmacro %}",
	"{% include %}", "{{ }}", "x{% endif %}", "{% extends 'a' %}{% extends 'b' %}", "{{ a ? b }}", "{{ [1, }}", "{# unclosed",
	"{% if a %}{% else %}{% else %}{% endif %}x{% endfor %}", "{{ a.(b) }}", "{% from 'lib' import %}{{ 1 + }}",
}

func Unparse(stmts []Node, sp Spelling) ([]byte, error) {
	u := &unparser{sp: sp, rng: uint64(sp.Seed)*2654435761 + 12345}
	if err := u.stmts(stmts); err != nil {
		return nil, err
	}
	return u.buf.Bytes(), nil
}

// ObjOrEmpty decodes a JSON object; TLC prints an empty function as [] rather than {}.
func decodeObj(raw json.RawMessage, into interface{}) error {
	t := bytes.TrimSpace(raw)
	if len(t) == 0 || bytes.Equal(t, []byte("[]")) || bytes.Equal(t, []byte("null")) {
		return nil
	}
	return json.Unmarshal(raw, into)
}
