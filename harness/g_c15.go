package main

import (
	"bufio"
	"encoding/json"
	"fmt"
	"math"
	"math/rand"
	"os"
	"strconv"
)

// c15floats: finite float64 bit patterns: boundary values, integers around 10^6, powers of two and ten,
// subnormals, and seeded random patterns (uniform over bit patterns, and uniform small integers/fractions).
func init() {
	generators["c15floats"] = func(n int, seed int64, tier string) error {
		w := bufio.NewWriter(os.Stdout)
		defer w.Flush()
		id := 0
		emit := func(f float64) {
			if math.IsNaN(f) || math.IsInf(f, 0) {
				return
			}
			id++
			b, _ := json.Marshal(map[string]interface{}{
				"id": fmt.Sprintf("f-%d", id), "k": "floatrt", "bits": strconv.FormatUint(math.Float64bits(f), 10),
			})
			w.Write(b)
			w.WriteByte('\n')
		}
		for _, f := range []float64{0, 1, -1, 0.5, 0.1, 0.2, 0.3, 1.0 / 3, 2.0 / 3, 999999, 999999.5, 1000000, 1000001, -999999, 123456.789,
			math.MaxFloat64, -math.MaxFloat64, math.SmallestNonzeroFloat64, 2.2250738585072014e-308, 1e21, 1e20, 1e-5, 1e-4, 1e-7, 9007199254740993,
			4503599627370496.5, 1e15, 1e16, 1e17, 5e-324, math.Pi, math.E, 100, 1e5, 1e22, 1e23, 0.000001, 0.0001, 17.0000000001} {
			emit(f)
			emit(-f)
			emit(math.Nextafter(f, math.Inf(1)))
			emit(math.Nextafter(f, math.Inf(-1)))
		}
		for e := -1074; e <= 1023; e += 7 {
			emit(math.Ldexp(1, e))
			emit(math.Ldexp(3, e))
		}
		for e := -30; e <= 30; e++ {
			emit(math.Pow(10, float64(e)))
		}
		for i := -1100; i <= 1100; i++ {
			emit(float64(i))
		}
		rng := rand.New(rand.NewSource(seed))
		for i := 0; i < n; i++ {
			switch rng.Intn(4) {
			case 0:
				emit(math.Float64frombits(rng.Uint64()))
			case 1:
				emit(float64(rng.Intn(2000001) - 1000000))
			case 2:
				emit(float64(rng.Intn(2000001)-1000000) / float64(1+rng.Intn(1000)))
			default:
				emit(rng.NormFloat64() * math.Pow(10, float64(rng.Intn(40)-20)))
			}
		}
		return nil
	}
}
