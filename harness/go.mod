module verifh

go 1.12

require (
	github.com/shopspring/decimal v1.3.1
	github.com/tyler-sommer/stick v0.0.0
)

replace github.com/tyler-sommer/stick => /repo
