module verifh

go 1.12

require github.com/tyler-sommer/stick v0.0.0

replace github.com/tyler-sommer/stick => /repo
