package main

import (
	"bytes"
	"encoding/json"
	"fmt"
	"reflect"

	"github.com/tyler-sommer/stick"
	"github.com/tyler-sommer/stick/twig"
)

// templates that the snippets of the spelling families refer to
var spellLib = map[string][]byte{
	"p": []byte("{% macro a(x) %}A{{ x }}{% endmacro %}{% macro c() %}C{% endmacro %}P[{% block a %}pa{% endblock %}|{% block b %}pb{% endblock %}]"),
	"q": []byte("Q[{% block a %}qa{% endblock %}|{% block b %}qb{% endblock %}]"),
}

func stripPos(n *PNode) interface{} {
	if n == nil {
		return nil
	}
	kids := make([]interface{}, len(n.Kids))
	for i, k := range n.Kids {
		kids[i] = stripPos(k)
	}
	var d []byte
	if n.Data != nil {
		d = *n.Data
	}
	return []interface{}{n.K, n.Op, n.Name, n.Txt, string(d), n.B != nil && *n.B, n.Neg != nil && *n.Neg, kids}
}

func spellCtxHTML() map[string]stick.Value {
	c := spellCtx()
	c["d"] = "<&'\">"
	c["x"] = "<b>"
	c["v"] = "a b"
	return c
}

func spellCtx() map[string]stick.Value {
	return map[string]stick.Value{
		"a": 2.0, "b": 3.0, "c": 1.0, "d": "-", "s": []stick.Value{1.0, 0.0, 2.0}, "v": "V", "x": "X",
	}
}

type spellSide struct {
	Inline  []string    `json:"inline"` // rendered as inline source (string loader) by a Twig environment, bare and with type suffixes
	ParseOK bool        `json:"parse_ok"`
	Err     string      `json:"err,omitempty"`
	Shape   interface{} `json:"-"`
	ExecOK  bool        `json:"exec_ok"`
	Out     Bytes       `json:"out"`
	Tokens  interface{} `json:"-"`
}

func spellRun(src []byte) (spellSide, []map[string]interface{}) {
	var side spellSide
	srcs := map[string][]byte{"t": src}
	for k, v := range spellLib {
		srcs[k] = v
	}
	rec := &recorder{srcs: srcs, failedAt: -1}
	env := stick.New(rec)
	rec.register(env, false)
	env.Filters["f"] = env.Filters["up"]
	env.Filters["g"] = env.Filters["wrap"]
	env.Functions["f"] = env.Functions["id"]
	tree, err := env.Parse("t")
	side.ParseOK = err == nil
	if err != nil {
		side.Err = err.Error()
	} else {
		side.Shape = stripPos(walkNode(tree.Root()))
	}
	xerr := env.Execute("t", rec, spellCtx())
	side.ExecOK = xerr == nil
	side.Out = Bytes(rec.out)
	// the same source as an INLINE template of an auto-escaping environment (the template's name is its source), bare and
	// followed by text that reads like a file extension
	for _, suffix := range []string{"", ".txt", ".js", " .css"} {
		var buf bytes.Buffer
		ierr := twig.New(nil).Execute(string(src)+suffix, &buf, spellCtxHTML())
		side.Inline = append(side.Inline, fmt.Sprintf("%v|%s", ierr == nil, buf.String()))
	}
	var toks []map[string]interface{}
	raw, _ := json.Marshal(map[string]interface{}{"src": Bytes(src)})
	if lx, _ := handlers["lex"](raw); lx != nil {
		if m, ok := lx.(map[string]interface{}); ok {
			if ts, ok := m["tokens"].([]map[string]interface{}); ok {
				for _, t := range ts {
					if t["typ"] != "WHITESPACE" {
						val := t["val"]
						switch t["typ"] {
						case "TAG_OPEN", "TAG_CLOSE", "PRINT_OPEN", "PRINT_CLOSE":
							// the white-space-control marker is formatting
							if b, ok := val.(Bytes); ok {
								val = Bytes(bytes.Replace([]byte(b), []byte("-"), nil, -1))
							}
						}
						toks = append(toks, map[string]interface{}{"typ": t["typ"], "val": val})
					}
				}
			}
		}
	}
	return side, toks
}

func init() {
	// {"k":"spelleq","canon":[bytes],"spelled":[bytes]} -> both sides lexed, parsed, rendered; equalities
	handlers["spelleq"] = func(raw json.RawMessage) (interface{}, error) {
		var c struct {
			Canon   Bytes `json:"canon"`
			Spelled Bytes `json:"spelled"`
		}
		if err := json.Unmarshal(raw, &c); err != nil {
			return nil, err
		}
		a, ta := spellRun(c.Canon)
		b, tb := spellRun(c.Spelled)
		obs := map[string]interface{}{
			"canon": a, "spelled": b,
			"tokens_equal": ta == nil || reflect.DeepEqual(ta, tb),
			"hooks":        ta != nil,
			"shape_equal":  reflect.DeepEqual(a.Shape, b.Shape),
			"inline_equal": reflect.DeepEqual(a.Inline, b.Inline),
		}
		return obs, nil
	}
}
