package main

import (
	"flag"
	"fmt"
	"os"
)

// generators of seeded random cases (binding T drivers), by family name
var generators = map[string]func(n int, seed int64, tier string) error{}

func genMain(args []string) int {
	fs := flag.NewFlagSet("gen", flag.ExitOnError)
	fam := fs.String("family", "", "family name")
	n := fs.Int("n", 100, "number of cases")
	seed := fs.Int64("seed", 1, "seed")
	tier := fs.String("tier", "quick", "tier")
	fs.Parse(args)
	g, ok := generators[*fam]
	if !ok {
		fmt.Fprintln(os.Stderr, "unknown family", *fam)
		return 2
	}
	if err := g(*n, *seed, *tier); err != nil {
		fmt.Fprintln(os.Stderr, "gen:", err)
		return 2
	}
	return 0
}
