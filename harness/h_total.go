package main

import (
	"encoding/json"
	"runtime/debug"
	"strings"

	"github.com/tyler-sommer/stick"
	"github.com/tyler-sommer/stick/parse"
	"github.com/tyler-sommer/stick/twig"
)

func init() {
	// {"k":"total","src":[bytes]} -> parse.Parse, Env.Parse and Env.Execute (core and Twig environments) all return
	handlers["total"] = func(raw json.RawMessage) (interface{}, error) {
		var c struct {
			Src    Bytes `json:"src"`
			NoExec bool  `json:"noexec"` // parse only (structured sources may recurse without bound when executed: outside C01 and C02)
			// src is Rep[0] + Rep[1] repeated RepN times + Rep[2] (long flat runs are not shipped through JSON)
			Rep  []string `json:"rep"`
			RepN int      `json:"repn"`
			// a stack limit for this case in MB (Go's default is 1 GB): recursion proportional to the LENGTH of a flat run is
			// what is being looked for, not the absolute limit
			MaxStackMB int `json:"maxstack"`
		}
		if err := json.Unmarshal(raw, &c); err != nil {
			return nil, err
		}
		if len(c.Rep) == 3 {
			c.Src = Bytes(c.Rep[0] + strings.Repeat(c.Rep[1], c.RepN) + c.Rep[2])
		}
		if c.MaxStackMB > 0 {
			defer debug.SetMaxStack(debug.SetMaxStack(c.MaxStackMB << 20))
		}
		src := string(c.Src)
		obs := map[string]interface{}{}
		tree, err := parse.Parse(src)
		obs["parse_ok"] = err == nil
		if err != nil {
			obs["parse_err"] = errInfo(err)
		} else if tree != nil {
			obs["ast"] = walkNode(tree.Root())
		}
		rec := &recorder{srcs: map[string][]byte{"t": c.Src}, failedAt: -1}
		env := stick.New(rec)
		rec.register(env, false)
		_, perr := env.Parse("t")
		obs["envparse_ok"] = perr == nil
		if c.NoExec {
			return obs, nil
		}
		xerr := env.Execute("t", rec, map[string]stick.Value{"x": "X", "a": true, "s": []stick.Value{1.0, 2.0}})
		obs["exec_ok"] = xerr == nil
		if xerr != nil {
			obs["exec_err"] = xerr.Error()
		}
		obs["out"] = Bytes(rec.out)
		rec2 := &recorder{srcs: map[string][]byte{"t": c.Src}, failedAt: -1}
		tenv := twig.New(rec2)
		terr := tenv.Execute("t", rec2, map[string]stick.Value{"x": "X", "a": true})
		obs["twig_ok"] = terr == nil
		// the tokeniser alone, when the hooks are compiled in
		lx, _ := handlers["lex"](raw)
		if m, ok := lx.(map[string]interface{}); ok {
			for k, v := range m {
				obs[k] = v
			}
		}
		return obs, nil
	}
}
